import SdcModel.Proofs.XmlBinding
/-!
`XmlBinding`, part 2: every descriptor kind writes only inside its footprint (frame), reads only its footprint, and
never changes the tag of the element.
-/
namespace Sdc.XmlBinding

theorem map_some {α β : Type} {f : α → β} {o : Option α} {b : β} (h : o.map f = some b) : ∃ a, o = some a ∧ f a = b := by
  cases o <;> simp_all

/-- footprint of a member that lives in `sub` and uses the element's text -/
def textFp : Option Nat → Fp
  | some n => .child n
  | none => .selfText

/-- footprint of a member that lives in `sub` and uses the element's children -/
def kidsFp : Option Nat → Fp
  | some n => .child n
  | none => .selfKids

theorem onElem_tag (sub : Option Nat) (f : Xml → Xml) (hf : ∀ e, (f e).tag = e.tag) (x : Xml) :
    (onElem sub f x).tag = x.tag := by
  cases sub <;> simp [onElem, hf]

theorem dropElem_tag (sub : Option Nat) (x : Xml) : (dropElem sub x).tag = x.tag := by
  cases sub <;> simp [dropElem]

theorem onElem_setText_frame (sub : Option Nat) (l : String) (x : Xml) (fp : Fp)
    (hi : fp.indep (textFp sub) = true) : Agree fp x (onElem sub (·.setText l) x) := by
  cases sub with
  | none => exact agree_of_text_update fp hi (by simp [onElem]) (by simp [onElem])
  | some n =>
    refine agree_of_child_update fp hi (by simp [onElem]) (by simp [onElem]) (fun m hm => ?_)
    simp only [onElem, kids_setKids]
    exact named_modifyFirst_ne n m hm _ (fun e => by simp) _

theorem onElem_addKids_frame (sub : Option Nat) (xs : List Xml) (x : Xml) (fp : Fp)
    (hi : fp.indep (kidsFp sub) = true) : Agree fp x (onElem sub (fun e => e.setKids (e.kids ++ xs)) x) := by
  cases sub with
  | none => exact agree_of_kids_update fp hi (by simp [onElem]) (by simp [onElem])
  | some n =>
    refine agree_of_child_update fp hi (by simp [onElem]) (by simp [onElem]) (fun m hm => ?_)
    simp only [onElem, kids_setKids]
    exact named_modifyFirst_ne n m hm _ (fun e => by simp) _

theorem dropElem_frame (sub : Option Nat) (x : Xml) (fp : Fp) (hi : fp.indep (textFp sub) = true ∨ fp.indep (kidsFp sub) = true) :
    Agree fp x (dropElem sub x) := by
  cases sub with
  | none => simp only [dropElem]; exact Agree.refl ..
  | some n =>
    have hi' : fp.indep (.child n) = true := by rcases hi with h | h <;> simpa [textFp, kidsFp] using h
    refine agree_of_child_update fp hi' (by simp [dropElem]) (by simp [dropElem]) (fun m hm => ?_)
    simp only [dropElem, kids_setKids]
    exact named_removeFirst_ne n m hm _

theorem fp_text (sub : Option Nat) (conv : String) (o m : Bool) (st : TextStyle) (d : Option String) :
    (Kind.text sub conv o m st d).fp = textFp sub := by cases sub <;> rfl
theorem fp_textList (sub : Option Nat) (conv : String) (o : Bool) :
    (Kind.textList sub conv o).fp = textFp sub := by cases sub <;> rfl
theorem fp_raw (sub : Option Nat) (st : RawStyle) (o : Bool) : (Kind.raw sub st o).fp = kidsFp sub := by
  cases sub <;> rfl

theorem withXsi_tag (t : Option String) (x : Xml) : (withXsi t x).tag = x.tag := by
  cases t <;> simp [withXsi]

theorem writeItems_tags (S : Schema) (wr : Wr) (hwr : ∀ c fs x x', wr c fs x = some x' → x'.tag = x.tag)
    (n : Nat) (decl : Nat) (container : Bool) :
    ∀ (vs : List Val) (chs : List Xml), writeItems S wr n decl container vs = some chs → ∀ ch ∈ chs, ch.tag = n
  | [], chs, h, ch, hc => by simp [writeItems] at h; subst h; cases hc
  | .obj c fs :: vs, chs, h, ch, hc => by
    simp only [writeItems] at h
    split at h
    · rename_i c0 t chs' h1 h2 h3
      simp only [Option.some.injEq] at h; subst h
      rcases List.mem_cons.mp hc with rfl | hc
      · rw [withXsi_tag, hwr c fs _ _ h1]; rfl
      · exact writeItems_tags S wr hwr n decl container vs chs' h3 ch hc
    · cases h
  | .none :: _, _, h, _, _ => by simp [writeItems] at h
  | .atom _ :: _, _, h, _, _ => by simp [writeItems] at h
  | .list _ :: _, _, h, _, _ => by simp [writeItems] at h
  | .raw _ :: _, _, h, _, _ => by simp [writeItems] at h

/-- **frame**: a write leaves every footprint that is independent of the member's own footprint as it was, and keeps
    the tag -/
theorem writeKind_frame (C : Codec) (S : Schema) (wr : Wr) (hwr : ∀ c fs x x', wr c fs x = some x' → x'.tag = x.tag)
    (k : Kind) (v : Val) (x x' : Xml) (h : writeKind C S wr k v x = some x') :
    x'.tag = x.tag ∧ ∀ fp : Fp, fp.indep k.fp = true → Agree fp x x' := by
  cases k with
  | attr n conv opt vol =>
    simp only [writeKind] at h
    have key : ∀ a, x' = x.setAttrs a → (∀ m, m ≠ n → getAttr a m = getAttr x.attrs m) →
        x'.tag = x.tag ∧ ∀ fp : Fp, fp.indep (.attr n) = true → Agree fp x x' := by
      intro a hx ha; subst hx
      exact ⟨by simp, fun fp hi => agree_of_attr_update fp hi (by simp) (by simp) (by simpa using ha)⟩
    split at h
    · split at h
      · exact key _ (Option.some.inj h).symm (fun m hm => getAttr_delAttr_ne _ _ _ hm)
      · cases h
    · obtain ⟨l, _, hl⟩ := map_some h
      exact key _ hl.symm (fun m hm => getAttr_setAttr_ne _ _ _ _ hm)
    · cases h
  | attrList n conv opt =>
    simp only [writeKind] at h
    have key : ∀ a, x' = x.setAttrs a → (∀ m, m ≠ n → getAttr a m = getAttr x.attrs m) →
        x'.tag = x.tag ∧ ∀ fp : Fp, fp.indep (.attr n) = true → Agree fp x x' := by
      intro a hx ha; subst hx
      exact ⟨by simp, fun fp hi => agree_of_attr_update fp hi (by simp) (by simp) (by simpa using ha)⟩
    split at h
    · split at h
      · exact key _ (Option.some.inj h).symm (fun m hm => getAttr_delAttr_ne _ _ _ hm)
      · cases h
    · split at h
      · exact key _ (Option.some.inj h).symm (fun m hm => getAttr_delAttr_ne _ _ _ hm)
      · split at h
        · obtain ⟨ls, _, hl⟩ := map_some h
          exact key _ hl.symm (fun m hm => getAttr_setAttr_ne _ _ _ _ hm)
        · cases h
    · cases h
  | text sub conv opt minLen style dflt =>
    simp only [writeKind] at h
    rw [fp_text]
    have kd : x' = dropElem sub x → x'.tag = x.tag ∧ ∀ fp : Fp, fp.indep (textFp sub) = true → Agree fp x x' := by
      intro e; subst e; exact ⟨dropElem_tag .., fun fp hi => dropElem_frame sub x fp (Or.inl hi)⟩
    have kt : ∀ l, x' = onElem sub (·.setText l) x →
        x'.tag = x.tag ∧ ∀ fp : Fp, fp.indep (textFp sub) = true → Agree fp x x' := by
      intro l e; subst e
      exact ⟨onElem_tag _ _ (fun e => by simp) _, fun fp hi => onElem_setText_frame sub l x fp hi⟩
    have ks : sub = none → ∀ l, x' = x.setText l →
        x'.tag = x.tag ∧ ∀ fp : Fp, fp.indep (textFp sub) = true → Agree fp x x' := by
      intro hs l e; subst hs; exact kt l (by simpa [onElem] using e)
    split at h
    · -- none
      split at h
      · exact kd (Option.some.inj h).symm
      · split at h
        · rename_i hs; exact ks (by simpa using hs) _ (Option.some.inj h).symm
        · split at h
          · exact kd (Option.some.inj h).symm
          · cases h
      · split at h
        · cases h
        · split at h
          · rename_i hs; exact ks (by simpa using hs) _ (Option.some.inj h).symm
          · split at h
            · exact kd (Option.some.inj h).symm
            · exact kt _ (Option.some.inj h).symm
    · obtain ⟨l, _, hl⟩ := map_some h
      exact kt l hl.symm
    · cases h
  | textList sub conv opt =>
    simp only [writeKind] at h
    rw [fp_textList]
    have kd : x' = dropElem sub x → x'.tag = x.tag ∧ ∀ fp : Fp, fp.indep (textFp sub) = true → Agree fp x x' := by
      intro e; subst e; exact ⟨dropElem_tag .., fun fp hi => dropElem_frame sub x fp (Or.inl hi)⟩
    have kt : ∀ l, x' = onElem sub (·.setText l) x →
        x'.tag = x.tag ∧ ∀ fp : Fp, fp.indep (textFp sub) = true → Agree fp x x' := by
      intro l e; subst e
      exact ⟨onElem_tag _ _ (fun e => by simp) _, fun fp hi => onElem_setText_frame sub l x fp hi⟩
    split at h
    · split at h
      · rename_i hs
        have hs' : sub = none := by simpa using hs
        subst hs'
        exact kt "" (by simpa [onElem] using (Option.some.inj h).symm)
      · split at h
        · exact kd (Option.some.inj h).symm
        · cases h
    · split at h
      · obtain ⟨ls, _, hl⟩ := map_some h
        exact kt _ hl.symm
      · cases h
    · cases h
  | subTextList n conv =>
    simp only [writeKind] at h
    have same : x' = x → x'.tag = x.tag ∧ ∀ fp : Fp, fp.indep (.child n) = true → Agree fp x x' := by
      intro e; subst e; exact ⟨rfl, fun fp _ => Agree.refl ..⟩
    split at h
    · exact same (Option.some.inj h).symm
    · exact same (Option.some.inj h).symm
    · split at h
      · obtain ⟨ls, _, hl⟩ := map_some h
        subst hl
        refine ⟨by simp, fun fp hi => agree_of_child_update fp hi (by simp) (by simp) (fun m hm' => ?_)⟩
        have hnew : named m (ls.map fun l => (Xml.empty n).setText l) = [] :=
          named_ne_of_all n m hm' _ (by intro k hk; simp only [List.mem_map] at hk; obtain ⟨l, _, rfl⟩ := hk; simp)
        simp only [kids_setKids, named_append, named_removeAll_ne n m hm', hnew, List.append_nil]
      · cases h
    · cases h
  | sub name decl opt container skipEmpty dispatch dflt =>
    simp only [writeKind] at h
    have same : x' = x → x'.tag = x.tag ∧ ∀ fp : Fp, fp.indep (Kind.sub name decl opt container skipEmpty dispatch dflt).fp = true →
        Agree fp x x' := by
      intro e; subst e; exact ⟨rfl, fun fp _ => Agree.refl ..⟩
    split at h
    · split at h
      · exact same (Option.some.inj h).symm
      · cases h
    · rename_i c fs
      split at h
      · exact same (Option.some.inj h).symm
      · cases name with
        | none =>
          simp only at h
          split at h
          · rename_i x1 t h1 h2
            simp only [Option.some.injEq] at h; subst h
            refine ⟨by rw [withXsi_tag, hwr c fs x x1 h1], fun fp hi => ?_⟩
            cases fp <;> simp [Kind.fp, Fp.indep] at hi
          · cases h
        | some n =>
          simp only at h
          split at h
          · rename_i ch t h1 h2
            simp only [Option.some.injEq] at h; subst h
            refine ⟨by simp, fun fp hi => agree_of_child_update fp hi (by simp) (by simp) (fun m hm => ?_)⟩
            have hch : named m [withXsi t ch] = [] :=
              named_ne_of_all n m hm _ (by intro k hk; simp at hk; subst hk; rw [withXsi_tag, hwr c fs _ _ h1]; rfl)
            simp only [kids_setKids, named_append, hch, List.append_nil]
            split
            · exact named_removeFirst_ne n m hm _
            · rfl
          · cases h
    · cases h
  | subList n decl container dispatch =>
    simp only [writeKind] at h
    split at h
    · simp only [Option.some.injEq] at h; subst h
      split
      · refine ⟨by simp, fun fp hi => agree_of_child_update fp hi (by simp) (by simp) (fun m hm => ?_)⟩
        simp only [kids_setKids]; exact named_removeAll_ne n m hm _
      · exact ⟨rfl, fun fp _ => Agree.refl ..⟩
    · rename_i vs
      obtain ⟨chs, hw, hl⟩ := map_some h
      subst hl
      · refine ⟨by simp, fun fp hi => agree_of_child_update fp hi (by simp) (by simp) (fun m hm => ?_)⟩
        have hch : named m chs = [] := named_ne_of_all n m hm _ (writeItems_tags S wr hwr n decl container vs chs hw)
        simp only [kids_setKids, named_append, hch, List.append_nil]
        split
        · exact named_removeAll_ne n m hm _
        · rfl
    · cases h
  | raw sub style opt =>
    simp only [writeKind] at h
    rw [fp_raw]
    have same : x' = x → x'.tag = x.tag ∧ ∀ fp : Fp, fp.indep (kidsFp sub) = true → Agree fp x x' := by
      intro e; subst e; exact ⟨rfl, fun fp _ => Agree.refl ..⟩
    have kd : x' = dropElem sub x → x'.tag = x.tag ∧ ∀ fp : Fp, fp.indep (kidsFp sub) = true → Agree fp x x' := by
      intro e; subst e; exact ⟨dropElem_tag .., fun fp hi => dropElem_frame sub x fp (Or.inr hi)⟩
    have ka : ∀ xs, x' = onElem sub (fun e => e.setKids (e.kids ++ xs)) x →
        x'.tag = x.tag ∧ ∀ fp : Fp, fp.indep (kidsFp sub) = true → Agree fp x x' := by
      intro xs e; subst e
      exact ⟨onElem_tag _ _ (fun e => by simp) _, fun fp hi => onElem_addKids_frame sub xs x fp hi⟩
    split at h
    · exact same (Option.some.inj h).symm
    · exact same (Option.some.inj h).symm
    · exact ka _ (Option.some.inj h).symm
    · split at h
      · exact kd (Option.some.inj h).symm
      · cases h
    · exact ka _ (Option.some.inj h).symm
    · simp only [Option.some.injEq] at h
      split at h
      · exact kd h.symm
      · exact same h.symm
    · simp only [Option.some.injEq] at h
      split at h
      · exact kd h.symm
      · exact same h.symm
    · exact ka _ (Option.some.inj h).symm
    · cases h

theorem elemOf_agree_text (sub : Option Nat) {x y : Xml} (h : Agree (textFp sub) x y) :
    (elemOf sub x).map (·.text) = (elemOf sub y).map (·.text) := by
  cases sub with
  | none => simpa [elemOf, textFp, Agree] using h
  | some n => simp only [elemOf, firstNamed_eq_head]; simp only [textFp, Agree] at h; rw [h]

theorem elemOf_agree_kids (sub : Option Nat) {x y : Xml} (h : Agree (kidsFp sub) x y) :
    (elemOf sub x).map (·.kids) = (elemOf sub y).map (·.kids) := by
  cases sub with
  | none => simpa [elemOf, kidsFp, Agree] using h
  | some n => simp only [elemOf, firstNamed_eq_head]; simp only [kidsFp, Agree] at h; rw [h]

/-- a read depends only on the member's own footprint -/
theorem readKind_agree (C : Codec) (S : Schema) (rd : Rd) (k : Kind) (x y : Xml) (h : Agree k.fp x y) :
    readKind C S rd k x = readKind C S rd k y := by
  cases k with
  | attr n conv opt vol => simp only [Kind.fp, Agree] at h; simp only [readKind, h]
  | attrList n conv opt => simp only [Kind.fp, Agree] at h; simp only [readKind, h]
  | text sub conv opt minLen style dflt =>
    rw [fp_text] at h
    have := elemOf_agree_text sub h
    simp only [readKind]
    cases hx : elemOf sub x <;> cases hy : elemOf sub y <;> simp [hx, hy] at this ⊢
    simp [this]
  | textList sub conv opt =>
    rw [fp_textList] at h
    have := elemOf_agree_text sub h
    simp only [readKind]
    cases hx : elemOf sub x <;> cases hy : elemOf sub y <;> simp [hx, hy] at this ⊢
    simp [this]
  | subTextList n conv => simp only [Kind.fp, Agree] at h; simp only [readKind, h]
  | sub name decl opt container skipEmpty dispatch dflt =>
    cases name with
    | none => simp only [Kind.fp, Agree] at h; subst h; rfl
    | some n =>
      simp only [Kind.fp, Agree] at h
      simp only [readKind, elemOf, firstNamed_eq_head, h]
  | subList n decl container dispatch => simp only [Kind.fp, Agree] at h; simp only [readKind, h]
  | raw sub style opt =>
    rw [fp_raw] at h
    have := elemOf_agree_kids sub h
    simp only [readKind]
    cases hx : elemOf sub x <;> cases hy : elemOf sub y <;> simp [hx, hy] at this ⊢
    simp [this]

end Sdc.XmlBinding
