import SdcModel.Proofs.MdibFind
/-!
# `subtreeBelow` with fuel `length + 1` reaches every descendant (also in the presence of parent cycles)
-/
set_option linter.unusedSimpArgs false
namespace Sdc.Mdib

theorem mem_childrenOf {t : Tables} {h : Handle} {d : Descr} : d ∈ childrenOf t h ↔ d ∈ t.descrs ∧ d.parent = some h := by
  simp [childrenOf, List.mem_filter]

theorem mem_subtreeBelow_succ {t : Tables} {k : Nat} {h : Handle} {x : Descr} :
    x ∈ subtreeBelow t (k + 1) h ↔ x ∈ childrenOf t h ∨ ∃ c ∈ childrenOf t h, x ∈ subtreeBelow t k c.handle := by
  simp only [subtreeBelow, List.mem_append, List.mem_flatMap]
  constructor
  · rintro (⟨c, hc, hx⟩ | hx)
    · exact .inr ⟨c, hc, hx⟩
    · exact .inl hx
  · rintro (hx | ⟨c, hc, hx⟩)
    · exact .inr hx
    · exact .inl ⟨c, hc, hx⟩

theorem subtreeBelow_sub (t : Tables) (k : Nat) (h : Handle) : ∀ x ∈ subtreeBelow t k h, x ∈ t.descrs := by
  induction k generalizing h with
  | zero => intro x hx; simp [subtreeBelow] at hx
  | succ k ih =>
    intro x hx
    rcases mem_subtreeBelow_succ.1 hx with hx | ⟨c, _, hx⟩
    · exact (mem_childrenOf.1 hx).1
    · exact ih _ x hx

/-- a downward path: every element is a child of the one before (the first one of `h`) -/
def IsPath (t : Tables) : Handle → List Descr → Prop
  | _, [] => True
  | h, x :: rest => x ∈ childrenOf t h ∧ IsPath t x.handle rest

theorem IsPath.sub {t : Tables} {h : Handle} {p : List Descr} (hp : IsPath t h p) : ∀ x ∈ p, x ∈ t.descrs := by
  induction p generalizing h with
  | nil => simp
  | cons y rest ih =>
    intro x hx
    rcases List.mem_cons.1 hx with rfl | hx
    · exact (mem_childrenOf.1 hp.1).1
    · exact ih hp.2 x hx

theorem IsPath.suffix {t : Tables} {h : Handle} {a : List Descr} {y : Descr} {b : List Descr}
    (hp : IsPath t h (a ++ y :: b)) : IsPath t y.handle b := by
  induction a generalizing h with
  | nil => exact hp.2
  | cons x rest ih => exact ih hp.2

/-- `x` is in the subtree of depth `k` iff a path of at most `k` steps leads to it -/
theorem mem_subtreeBelow_iff {t : Tables} {k : Nat} {h : Handle} {x : Descr} :
    x ∈ subtreeBelow t k h ↔ ∃ l, IsPath t h (l ++ [x]) ∧ l.length < k := by
  induction k generalizing h with
  | zero => simp [subtreeBelow]
  | succ k ih =>
    rw [mem_subtreeBelow_succ]
    constructor
    · rintro (hx | ⟨c, hc, hx⟩)
      · exact ⟨[], ⟨hx, trivial⟩, Nat.succ_pos _⟩
      · obtain ⟨l, hl, hlen⟩ := ih.1 hx
        exact ⟨c :: l, ⟨hc, hl⟩, by simp; omega⟩
    · rintro ⟨l, hl, hlen⟩
      cases l with
      | nil => exact .inl hl.1
      | cons c l =>
        refine .inr ⟨c, hl.1, ih.2 ⟨l, hl.2, ?_⟩⟩
        simp at hlen; omega

/-- cut the loops out of a path: same end point, no handle twice -/
theorem IsPath.shorten {t : Tables} (hn : (t.descrs.map (·.handle)).Nodup) {p : List Descr} {x : Descr} {h : Handle}
    (hp : IsPath t h (p ++ [x])) : ∃ p', IsPath t h (p' ++ [x]) ∧ ((p' ++ [x]).map (·.handle)).Nodup := by
  induction p generalizing h with
  | nil => exact ⟨[], hp, by simp⟩
  | cons y rest ih =>
    obtain ⟨r, hr, hrn⟩ := ih hp.2
    by_cases hy : y.handle ∈ (r ++ [x]).map (·.handle)
    · obtain ⟨z, hz, hzy⟩ := List.mem_map.1 hy
      have hzd : z ∈ t.descrs := hr.sub z hz
      have hyd : y ∈ t.descrs := (mem_childrenOf.1 hp.1).1
      have hzy' : z = y := by
        have h1 := find_of_mem_nodup (fun d : Descr => d.handle) hn hzd
        have h2 := find_of_mem_nodup (fun d : Descr => d.handle) hn hyd
        rw [hzy, h2] at h1; exact (Option.some.inj h1).symm
      subst hzy'
      obtain ⟨a, b, hab⟩ := List.append_of_mem hz
      -- the path from `z` onwards
      have hb : IsPath t z.handle b := by rw [hab] at hr; exact hr.suffix
      have hnb : ((z :: b).map (·.handle)).Nodup := by
        rw [hab, List.map_append] at hrn
        exact (List.nodup_append.1 hrn).2.1
      cases b with
      | nil =>
        -- `z` is the last element, i.e. `x`
        have : z = x := by
          have := List.append_inj_right' hab rfl
          simpa using this.symm
        subst this
        exact ⟨[], ⟨hp.1, trivial⟩, by simp⟩
      | cons b0 bs =>
        -- `b0 :: bs` ends with `x`
        obtain ⟨bs', hbs'⟩ : ∃ bs', b0 :: bs = bs' ++ [x] := by
          rcases List.eq_nil_or_concat (b0 :: bs) with e | ⟨L, e, he⟩
          · cases e
          · rw [List.concat_eq_append] at he
            refine ⟨L, ?_⟩
            rw [he] at hab
            have : r ++ [x] = (a ++ z :: L) ++ [e] := by rw [hab]; simp
            have := List.append_inj_right' this rfl
            simp at this; rw [he, this]
        refine ⟨z :: bs', ?_, ?_⟩
        · show IsPath t h (z :: (bs' ++ [x]))
          rw [← hbs']; exact ⟨hp.1, hb⟩
        · show ((z :: (bs' ++ [x])).map (·.handle)).Nodup
          rw [← hbs']; exact hnb
    · refine ⟨y :: r, ⟨hp.1, hr⟩, ?_⟩
      show ((y :: (r ++ [x])).map (·.handle)).Nodup
      rw [List.map_cons, List.nodup_cons]; exact ⟨hy, hrn⟩

/-- with fuel `length + 1` the subtree is closed under children: nothing below a removed descriptor survives -/
theorem subtree_closed {t : Tables} (hn : (t.descrs.map (·.handle)).Nodup) (h : Handle) {q : Descr} {d : Descr}
    (hq : q.handle = h ∨ q ∈ subtreeBelow t (t.descrs.length + 1) h) (hd : d ∈ childrenOf t q.handle) :
    d ∈ subtreeBelow t (t.descrs.length + 1) h := by
  have hpath : ∃ l, IsPath t h (l ++ [d]) := by
    rcases hq with rfl | hq
    · exact ⟨[], ⟨hd, trivial⟩⟩
    · obtain ⟨l, hl, _⟩ := mem_subtreeBelow_iff.1 hq
      refine ⟨l ++ [q], ?_⟩
      have : ∀ (l : List Descr) (h : Handle), IsPath t h (l ++ [q]) → IsPath t h ((l ++ [q]) ++ [d]) := by
        intro l
        induction l with
        | nil => intro h hp; exact ⟨hp.1, hd, trivial⟩
        | cons y rest ih => intro h hp; exact ⟨hp.1, ih _ hp.2⟩
      exact this l h hl
  obtain ⟨l, hl⟩ := hpath
  obtain ⟨p', hp', hnd⟩ := hl.shorten hn
  rw [mem_subtreeBelow_iff]
  refine ⟨p', hp', ?_⟩
  have hsub : (p' ++ [d]).map (·.handle) ⊆ t.descrs.map (·.handle) := by
    intro a ha
    obtain ⟨z, hz, rfl⟩ := List.mem_map.1 ha
    exact List.mem_map_of_mem (hp'.sub z hz)
  have := hnd.length_le_of_subset hsub
  simp at this; omega

end Sdc.Mdib
