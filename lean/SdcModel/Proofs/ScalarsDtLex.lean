import SdcModel.ScalarsDt
import SdcModel.Proofs.ScalarsDecLex
/-! lexical space accepted by `parse_date_time` (core Lean only) -/
namespace Sdc.Scalars

/-- `Z | [+-](0\d|1[0-3]):[0-5]\d | [+-]14:00`, or absent -/
def TzLex (t : Str) : Prop :=
  t = [] ∨ t = [90] ∨ ∃ c a b d e, t = [c, a, b, 58, d, e] ∧ (c = 43 ∨ c = 45) ∧
    isDigit a = true ∧ isDigit b = true ∧ isDigit d = true ∧ isDigit e = true ∧
    digitVal a * 10 + digitVal b ≤ 14 ∧ digitVal d * 10 + digitVal e ≤ 59 ∧
    (digitVal a * 10 + digitVal b = 14 → digitVal d * 10 + digitVal e = 0)

/-- `-NN` with `lo ≤ NN ≤ hi` -/
def FieldLex (lo hi : Nat) (t : Str) : Prop :=
  ∃ a b, t = [45, a, b] ∧ isDigit a = true ∧ isDigit b = true ∧
    lo ≤ digitVal a * 10 + digitVal b ∧ digitVal a * 10 + digitVal b ≤ hi

/-- `T hh:mm:ss(.f+)?` with hh ≤ 23, mm ≤ 59, ss ≤ 59, or `T24:00:00(.0+)?` -/
def TimeLex (t : Str) : Prop :=
  ∃ a b c d e f fr, t = 84 :: a :: b :: 58 :: c :: d :: 58 :: e :: f :: (if fr = [] then [] else 46 :: fr) ∧
    isDigit a = true ∧ isDigit b = true ∧ isDigit c = true ∧ isDigit d = true ∧ isDigit e = true ∧ isDigit f = true ∧
    (∀ x ∈ fr, isDigit x = true) ∧
    ((digitVal a * 10 + digitVal b ≤ 23 ∧ digitVal c * 10 + digitVal d ≤ 59 ∧ digitVal e * 10 + digitVal f ≤ 59) ∨
     (digitVal a * 10 + digitVal b = 24 ∧ digitVal c * 10 + digitVal d = 0 ∧ digitVal e * 10 + digitVal f = 0 ∧
      ∀ x ∈ fr, x = 48))

/-- lexical space of xsd:dateTime / date / gYearMonth / gYear as accepted by the pattern of `isoduration` -/
def DateTimeLex (t : Str) : Prop :=
  ∃ sgn ys mo d tm tz, t = sgn ++ (ys ++ (mo ++ (d ++ (tm ++ tz)))) ∧ (sgn = [] ∨ sgn = [45]) ∧
    (∀ c ∈ ys, isDigit c = true) ∧ yearShape ys = true ∧
    (mo = [] ∨ FieldLex 1 12 mo) ∧ (d = [] ∨ FieldLex 1 31 d) ∧ (mo = [] → d = []) ∧
    (tm = [] ∨ TimeLex tm) ∧ (d = [] → tm = []) ∧ TzLex tz

theorem take2_some (s : Str) (v : Nat) (r : Str) (h : take2 s = some (v, r)) :
    ∃ a b, s = a :: b :: r ∧ isDigit a = true ∧ isDigit b = true ∧ v = digitVal a * 10 + digitVal b := by
  unfold take2 at h
  split at h
  · rename_i a b r'
    split at h
    · rename_i hc
      simp only [Option.some.injEq, Prod.mk.injEq] at h
      exact ⟨a, b, by rw [h.2], hc.1, hc.2, h.1.symm⟩
    · cases h
  · cases h

theorem tzEnd_some (s : Str) (tz : Option Int) (h : tzEnd s = some tz) : TzLex s := by
  unfold tzEnd at h
  split at h
  · left; rfl
  · rename_i c r
    split at h
    · rename_i hc
      split at h
      · rename_i hr
        right; left
        cases r with
        | nil => rw [hc]
        | cons _ _ => simp at hr
      · cases h
    · split at h
      · rename_i hsign
        cases h1 : take2 r with
        | none => rw [h1] at h; cases h
        | some vr =>
          obtain ⟨hh, r1⟩ := vr
          rw [h1] at h
          obtain ⟨a, b, hr, ha, hb, hv⟩ := take2_some r hh r1 h1
          simp only at h
          cases r1 with
          | nil => cases h
          | cons c1 r2 =>
            simp only at h
            cases h2 : take2 r2 with
            | none => rw [h2] at h; cases h
            | some vr2 =>
              obtain ⟨mm, r3⟩ := vr2
              rw [h2] at h
              obtain ⟨d, e, hr2, hd, he, hv2⟩ := take2_some r2 mm r3 h2
              simp only at h
              split at h
              · rename_i hc
                obtain ⟨hc1, hr3, h14, h59, hx⟩ := hc
                have hr3' : r3 = [] := by
                  cases r3 with
                  | nil => rfl
                  | cons _ _ => simp at hr3
                right; right
                refine ⟨c, a, b, d, e, ?_, hsign, ha, hb, hd, he, by omega, by omega, ?_⟩
                · rw [hr, hr2, hr3', hc1]
                · intro h14'; apply Decidable.byContradiction; intro hne; exact hx ⟨by omega, by omega⟩
              · cases h
      · cases h

theorem takeField_some (lo hi : Nat) (s : Str) (v : Nat) (r : Str) (h : takeField lo hi s = some (v, r)) :
    ∃ f, s = f ++ r ∧ FieldLex lo hi f := by
  unfold takeField at h
  split at h
  · rename_i c r0
    split at h
    · cases h
    · rename_i hc
      have hc45 : c = 45 := Decidable.byContradiction (fun hne => hc hne)
      cases h1 : take2 r0 with
      | none => rw [h1] at h; cases h
      | some vr =>
        obtain ⟨v1, r1⟩ := vr
        rw [h1] at h
        obtain ⟨a, b, hr, ha, hb, hv⟩ := take2_some r0 v1 r1 h1
        simp only at h
        split at h
        · rename_i hrange
          simp only [Option.some.injEq, Prod.mk.injEq] at h
          obtain ⟨h1', h2'⟩ := h
          subst h2'
          refine ⟨[45, a, b], by rw [hc45, hr]; rfl, a, b, rfl, ha, hb, by omega, by omega⟩
        · cases h
  · cases h

theorem takeFrac_spec (r5 : Str) :
    r5 = (if (takeFrac r5).1 = [] then [] else 46 :: (takeFrac r5).1) ++ (takeFrac r5).2 ∧
      ∀ x ∈ (takeFrac r5).1, isDigit x = true := by
  unfold takeFrac
  split
  · rename_i d r6
    split
    · rename_i hc
      have hne : r6.takeWhile isDigit ≠ [] := by
        intro h0; apply hc.2; rw [h0]; rfl
      simp only [hne, if_false]
      refine ⟨?_, mem_takeWhile r6⟩
      rw [hc.1, List.cons_append, List.takeWhile_append_dropWhile]
    · simp
  · simp

theorem takeTime_some (s : Str) (tm : Option (Nat × Nat × Nat × Str)) (eod : Bool) (r : Str)
    (h : takeTime s = some (tm, eod, r)) : ∃ t, s = t ++ r ∧ TimeLex t := by
  unfold takeTime at h
  cases s with
  | nil => cases h
  | cons t r0 =>
    simp only at h
    split at h
    · cases h
    · rename_i ht
      have ht84 : t = 84 := Decidable.byContradiction (fun hne => ht hne)
      cases h1 : take2 r0 with
      | none => rw [h1] at h; cases h
      | some vr =>
        obtain ⟨hh, r1⟩ := vr
        rw [h1] at h
        obtain ⟨a, b, e1, ha, hb, hv1⟩ := take2_some r0 hh r1 h1
        simp only at h
        cases r1 with
        | nil => cases h
        | cons c1 r2 =>
          simp only at h
          cases h2 : take2 r2 with
          | none => rw [h2] at h; cases h
          | some vr2 =>
            obtain ⟨mm, r3⟩ := vr2
            rw [h2] at h
            obtain ⟨c, d, e2, hc, hd, hv2⟩ := take2_some r2 mm r3 h2
            simp only at h
            cases r3 with
            | nil => cases h
            | cons c2 r4 =>
              simp only at h
              cases h3 : take2 r4 with
              | none => rw [h3] at h; cases h
              | some vr3 =>
                obtain ⟨ss, r5⟩ := vr3
                rw [h3] at h
                obtain ⟨e, f, e3, he, hf, hv3⟩ := take2_some r4 ss r5 h3
                simp only at h
                split at h
                · cases h
                · rename_i hcol
                  have hc1 : c1 = 58 := Decidable.byContradiction (fun hne => hcol (Or.inl hne))
                  have hc2 : c2 = 58 := Decidable.byContradiction (fun hne => hcol (Or.inr hne))
                  obtain ⟨hsplit, hfd⟩ := takeFrac_spec r5
                  have hshape : t :: r0 = (84 :: a :: b :: 58 :: c :: d :: 58 :: e :: f ::
                      (if (takeFrac r5).1 = [] then [] else 46 :: (takeFrac r5).1)) ++ (takeFrac r5).2 := by
                    rw [ht84, e1, e2, e3, hc1, hc2]
                    simp only [List.cons_append]
                    rw [← hsplit]
                  split at h
                  · rename_i hrange
                    simp only [Option.some.injEq, Prod.mk.injEq] at h
                    obtain ⟨_, _, hr⟩ := h
                    rw [← hr]
                    exact ⟨_, hshape, a, b, c, d, e, f, (takeFrac r5).1, rfl, ha, hb, hc, hd, he, hf, hfd,
                      Or.inl ⟨by omega, by omega, by omega⟩⟩
                  · split at h
                    · rename_i heod
                      simp only [Option.some.injEq, Prod.mk.injEq] at h
                      obtain ⟨_, _, hr⟩ := h
                      rw [← hr]
                      refine ⟨_, hshape, a, b, c, d, e, f, (takeFrac r5).1, rfl, ha, hb, hc, hd, he, hf, hfd,
                        Or.inr ⟨by omega, by omega, by omega, ?_⟩⟩
                      intro x hx
                      have := List.all_eq_true.mp heod.2.2.2 x hx
                      simpa using this
                    · cases h

theorem afterDay_some (s : Str) (x) (h : afterDay s = some x) :
    ∃ tm tz, s = tm ++ tz ∧ (tm = [] ∨ TimeLex tm) ∧ TzLex tz := by
  unfold afterDay at h
  cases ht : takeTime s with
  | none =>
    rw [ht] at h
    simp only [Option.bind_none, Option.none_or] at h
    cases hz : tzEnd s with
    | none => rw [hz] at h; cases h
    | some tz => exact ⟨[], s, rfl, Or.inl rfl, tzEnd_some s tz hz⟩
  | some y =>
    obtain ⟨tm, eod, r⟩ := y
    obtain ⟨t, hs, hl⟩ := takeTime_some s tm eod r ht
    rw [ht] at h
    simp only [Option.bind_some] at h
    cases hz : tzEnd r with
    | some tz => exact ⟨t, r, hs, Or.inr hl, tzEnd_some r tz hz⟩
    | none =>
      rw [hz] at h
      simp only [Option.map_none, Option.none_or] at h
      cases hz2 : tzEnd s with
      | none => rw [hz2] at h; cases h
      | some tz => exact ⟨[], s, rfl, Or.inl rfl, tzEnd_some s tz hz2⟩

theorem afterMonth_some (s : Str) (x) (h : afterMonth s = some x) :
    ∃ d tm tz, s = d ++ (tm ++ tz) ∧ (d = [] ∨ FieldLex 1 31 d) ∧ (tm = [] ∨ TimeLex tm) ∧ (d = [] → tm = []) ∧ TzLex tz := by
  unfold afterMonth at h
  have fallback : ∀ tz, tzEnd s = some tz →
      ∃ d tm tz, s = d ++ (tm ++ tz) ∧ (d = [] ∨ FieldLex 1 31 d) ∧ (tm = [] ∨ TimeLex tm) ∧ (d = [] → tm = []) ∧ TzLex tz :=
    fun tz hz => ⟨[], [], s, rfl, Or.inl rfl, Or.inl rfl, fun _ => rfl, tzEnd_some s tz hz⟩
  cases hf : takeField 1 31 s with
  | none =>
    rw [hf] at h
    simp only [Option.bind_none, Option.none_or] at h
    cases hz : tzEnd s with
    | none => rw [hz] at h; cases h
    | some tz => exact fallback tz hz
  | some vr =>
    obtain ⟨v, r⟩ := vr
    obtain ⟨f, hs, hl⟩ := takeField_some 1 31 s v r hf
    rw [hf] at h
    simp only [Option.bind_some] at h
    cases ha : afterDay r with
    | some y =>
      obtain ⟨tm, tz, hr, htm, htz⟩ := afterDay_some r y ha
      have hfne : f = [] → tm = [] := by
        intro h0; obtain ⟨a, b, hf', _⟩ := hl; rw [hf'] at h0; cases h0
      exact ⟨f, tm, tz, by rw [hs, hr], Or.inr hl, htm, hfne, htz⟩
    | none =>
      rw [ha] at h
      simp only [Option.map_none, Option.none_or] at h
      cases hz : tzEnd s with
      | none => rw [hz] at h; cases h
      | some tz => exact fallback tz hz

theorem afterYear_some (s : Str) (x) (h : afterYear s = some x) :
    ∃ mo d tm tz, s = mo ++ (d ++ (tm ++ tz)) ∧ (mo = [] ∨ FieldLex 1 12 mo) ∧ (d = [] ∨ FieldLex 1 31 d) ∧
      (mo = [] → d = []) ∧ (tm = [] ∨ TimeLex tm) ∧ (d = [] → tm = []) ∧ TzLex tz := by
  unfold afterYear at h
  have fallback : ∀ tz, tzEnd s = some tz →
      ∃ mo d tm tz, s = mo ++ (d ++ (tm ++ tz)) ∧ (mo = [] ∨ FieldLex 1 12 mo) ∧ (d = [] ∨ FieldLex 1 31 d) ∧
        (mo = [] → d = []) ∧ (tm = [] ∨ TimeLex tm) ∧ (d = [] → tm = []) ∧ TzLex tz :=
    fun tz hz => ⟨[], [], [], s, rfl, Or.inl rfl, Or.inl rfl, fun _ => rfl, Or.inl rfl, fun _ => rfl, tzEnd_some s tz hz⟩
  cases hf : takeField 1 12 s with
  | none =>
    rw [hf] at h
    simp only [Option.bind_none, Option.none_or] at h
    cases hz : tzEnd s with
    | none => rw [hz] at h; cases h
    | some tz => exact fallback tz hz
  | some vr =>
    obtain ⟨v, r⟩ := vr
    obtain ⟨f, hs, hl⟩ := takeField_some 1 12 s v r hf
    rw [hf] at h
    simp only [Option.bind_some] at h
    cases ha : afterMonth r with
    | some y =>
      obtain ⟨d, tm, tz, hr, hd, htm, hdt, htz⟩ := afterMonth_some r y ha
      have hfne : f = [] → d = [] := by
        intro h0; obtain ⟨a, b, hf', _⟩ := hl; rw [hf'] at h0; cases h0
      exact ⟨f, d, tm, tz, by rw [hs, hr], Or.inr hl, hd, hfne, htm, hdt, htz⟩
    | none =>
      rw [ha] at h
      simp only [Option.map_none, Option.none_or] at h
      cases hz : tzEnd s with
      | none => rw [hz] at h; cases h
      | some tz => exact fallback tz hz

/-- what `parse_date_time` accepts is in the lexical space … -/
theorem parseDateTime_sound (s : Str) (i : DateInfo) (h : parseDateTime s = .ok i) : DateTimeLex (dropNewline s) := by
  unfold parseDateTime at h
  simp only at h
  have hsplit := fun (r : Str) => List.takeWhile_append_dropWhile (p := isDigit) (l := r)
  cases ht : dropNewline s with
  | nil =>
    rw [ht] at h
    simp [yearShape] at h
  | cons c t' =>
    rw [ht] at h
    by_cases hc : c = 45
    · subst hc
      simp only [beq_self_eq_true, if_true, List.drop_succ_cons, List.drop_zero] at h
      split at h
      · rename_i hshape
        split at h
        · rename_i m d tm eod tz ha
          obtain ⟨mo, dd, tms, tzs, hr, hmo, hd, hmd, htm, hdt, htz⟩ := afterYear_some _ _ ha
          refine ⟨[45], t'.takeWhile isDigit, mo, dd, tms, tzs, ?_, Or.inr rfl, mem_takeWhile t', hshape, hmo, hd, hmd, htm, hdt, htz⟩
          rw [← hr]; simp [hsplit t']
        · cases h
      · cases h
    · have hb : (c == 45) = false := by simp [hc]
      simp only [hb, Bool.false_eq_true, if_false] at h
      split at h
      · rename_i hshape
        split at h
        · rename_i m d tm eod tz ha
          obtain ⟨mo, dd, tms, tzs, hr, hmo, hd, hmd, htm, hdt, htz⟩ := afterYear_some _ _ ha
          refine ⟨[], (c :: t').takeWhile isDigit, mo, dd, tms, tzs, ?_, Or.inl rfl, mem_takeWhile (c :: t'), hshape, hmo, hd, hmd, htm, hdt, htz⟩
          rw [← hr]; simp [hsplit (c :: t')]
        · cases h
      · cases h

theorem parseDateTime_err (s : Str) (e : Err) (h : parseDateTime s = .error e) : e = .value := by
  unfold parseDateTime at h
  simp only at h
  cases ht : dropNewline s with
  | nil =>
    rw [ht] at h
    simp [yearShape] at h
    exact h.symm
  | cons c t' =>
    rw [ht] at h
    by_cases hc : c = 45
    · subst hc
      simp only [beq_self_eq_true, if_true, List.drop_succ_cons, List.drop_zero] at h
      split at h
      · split at h
        · cases h
        · injection h with h; exact h.symm
      · injection h with h; exact h.symm
    · have hb : (c == 45) = false := by simp [hc]
      simp only [hb, Bool.false_eq_true, if_false] at h
      split at h
      · split at h
        · cases h
        · injection h with h; exact h.symm
      · injection h with h; exact h.symm

/-- … so anything outside is rejected -/
theorem parseDateTime_reject (s : Str) (h : ¬ DateTimeLex (dropNewline s)) : parseDateTime s = .error .value := by
  cases hp : parseDateTime s with
  | ok i => exact absurd (parseDateTime_sound s i hp) h
  | error e => rw [parseDateTime_err s e hp]

end Sdc.Scalars
