import SdcModel.Scalars
import SdcModel.Proofs.ScalarsDec
/-! lexical space of xsd:decimal and what `DecimalConverter.to_py` accepts (core Lean only) -/
namespace Sdc.Scalars

/-- lexical space of xsd:decimal: optional sign, ASCII digits with at most one `.`, at least one digit, no exponent -/
def DecimalLex (t : Str) : Prop :=
  ∃ sgn ip fr, (sgn = [] ∨ sgn = [43] ∨ sgn = [45]) ∧ (∀ c ∈ ip, isDigit c = true) ∧ (∀ c ∈ fr, isDigit c = true) ∧
    ((t = sgn ++ ip ∧ ip ≠ []) ∨ (t = sgn ++ ip ++ 46 :: fr ∧ (ip ≠ [] ∨ fr ≠ [])))

theorem mem_takeWhile {p : Nat → Bool} (l : Str) : ∀ c ∈ l.takeWhile p, p c = true := by
  induction l with
  | nil => intro c hc; cases hc
  | cons a l ih =>
    intro c hc
    by_cases ha : p a = true
    · simp only [List.takeWhile_cons, ha, if_true, List.mem_cons] at hc
      rcases hc with h | h
      · subst h; exact ha
      · exact ih c h
    · simp [ha] at hc

/-- what `decLex` returns, as an equation on the string -/
theorem decLex_some (t : Str) (neg : Bool) (ip fr : Str) (h : decLex t = some (neg, ip, fr)) :
    neg = (splitSign t).1 ∧ (∀ c ∈ ip, isDigit c = true) ∧ (∀ c ∈ fr, isDigit c = true) ∧
      (((splitSign t).2 = ip ∧ fr = [] ∧ ip ≠ []) ∨ ((splitSign t).2 = ip ++ 46 :: fr ∧ (ip ≠ [] ∨ fr ≠ []))) := by
  unfold decLex at h
  dsimp only at h
  have hsplit := List.takeWhile_append_dropWhile (p := isDigit) (l := (splitSign t).2)
  have htw := mem_takeWhile (p := isDigit) (splitSign t).2
  cases hdw : (splitSign t).2.dropWhile isDigit with
  | nil =>
    rw [hdw] at h hsplit
    simp only at h
    split at h
    · cases h
    · rename_i hne
      simp only [Option.some.injEq, Prod.mk.injEq] at h
      obtain ⟨h1, h2, h3⟩ := h
      subst h1 h2 h3
      refine ⟨rfl, htw, (by intro c hc; cases hc), Or.inl ⟨by simpa using hsplit.symm, rfl, ?_⟩⟩
      intro h0; rw [h0] at hne; simp at hne
  | cons c rest =>
    rw [hdw] at h hsplit
    simp only at h
    split at h
    · rename_i hc
      simp only [Option.some.injEq, Prod.mk.injEq] at h
      obtain ⟨h1, h2, h3⟩ := h
      subst h1 h2 h3
      obtain ⟨hc46, hall, hnn⟩ := hc
      subst hc46
      refine ⟨rfl, htw, by simpa [List.all_eq_true] using hall, Or.inr ⟨hsplit.symm, ?_⟩⟩
      by_cases hi : List.takeWhile isDigit (splitSign t).2 = []
      · right; intro hr; apply hnn; simp [hi, hr]
      · left; exact hi
    · cases h

theorem decLex_sound (t : Str) (neg : Bool) (ip fr : Str) (h : decLex t = some (neg, ip, fr)) : DecimalLex t := by
  obtain ⟨_, hdi, hdf, hshape⟩ := decLex_some t neg ip fr h
  obtain ⟨sgn, ht, hsg⟩ := splitSign_spec t
  refine ⟨sgn, ip, fr, hsg, hdi, hdf, ?_⟩
  rcases hshape with ⟨h1, _, h3⟩ | ⟨h1, h2⟩
  · left; rw [h1] at ht; exact ⟨ht, h3⟩
  · right; rw [h1] at ht; exact ⟨by rw [ht]; simp, h2⟩

theorem splitSign_of_sign (sgn r : Str) (hsg : sgn = [] ∨ sgn = [43] ∨ sgn = [45])
    (hr : ∀ c, r.head? = some c → c ≠ 45 ∧ c ≠ 43) : (splitSign (sgn ++ r)).2 = r := by
  rcases hsg with rfl | rfl | rfl
  · cases r with
    | nil => rfl
    | cons c r' =>
      have := hr c rfl
      simp [splitSign, this.1, this.2]
  · simp [splitSign]
  · simp [splitSign]

theorem decLex_complete (t : Str) (h : DecimalLex t) : ∃ r, decLex t = some r := by
  obtain ⟨sgn, ip, fr, hsg, hdi, hdf, hshape⟩ := h
  have hhead : ∀ (r : Str), (∀ c, (ip ++ r).head? = some c → (isDigit c = true ∨ c = 46)) →
      ∀ c, (ip ++ r).head? = some c → c ≠ 45 ∧ c ≠ 43 := by
    intro r hr c hc
    rcases hr c hc with h | h
    · rw [isDigit_iff] at h; omega
    · omega
  rcases hshape with ⟨rfl, hne⟩ | ⟨rfl, hne⟩
  · have h2 : (splitSign (sgn ++ ip)).2 = ip := by
      have := splitSign_of_sign sgn (ip ++ []) hsg (hhead [] (by
        intro c hc; left; simp only [List.append_nil] at hc
        exact hdi c (List.mem_of_mem_head? hc)))
      simpa using this
    unfold decLex
    dsimp only
    rw [h2]
    have := takeWhile_all (p := isDigit) ip hdi
    rw [this.1, this.2]
    cases ip with
    | nil => exact absurd rfl hne
    | cons c r => exact ⟨_, rfl⟩
  · have h2 : (splitSign (sgn ++ ip ++ 46 :: fr)).2 = ip ++ 46 :: fr := by
      rw [List.append_assoc]
      apply splitSign_of_sign sgn _ hsg
      apply hhead
      intro c hc
      cases ip with
      | nil => right; simp at hc; exact hc.symm
      | cons a r => left; simp at hc; subst hc; exact hdi _ (by simp)
    unfold decLex
    dsimp only
    rw [h2]
    have := takeWhile_append_stop (p := isDigit) ip 46 fr hdi (by decide)
    rw [this.1, this.2]
    have hall : fr.all isDigit = true := all_digits fr hdf
    have hnn : ¬ (ip.isEmpty = true ∧ fr.isEmpty = true) := by
      rintro ⟨a, b⟩
      rcases hne with h | h
      · cases ip with
        | nil => exact h rfl
        | cons _ _ => simp at a
      · cases fr with
        | nil => exact h rfl
        | cons _ _ => simp at b
    simp only [hall, hnn, not_false_eq_true, and_self, if_true]
    exact ⟨_, rfl⟩

theorem decToPy_ok_iff (s : Str) : (∃ d, decToPy s = .ok d) ↔ DecimalLex (xmlStrip s) := by
  unfold decToPy
  constructor
  · rintro ⟨d, h⟩
    cases hl : decLex (xmlStrip s) with
    | none => rw [hl] at h; cases h
    | some r => obtain ⟨neg, ip, fr⟩ := r; exact decLex_sound _ _ _ _ hl
  · intro h
    obtain ⟨⟨neg, ip, fr⟩, hr⟩ := decLex_complete _ h
    rw [hr]; exact ⟨_, rfl⟩

theorem decToPy_reject (s : Str) (h : ¬ DecimalLex (xmlStrip s)) : decToPy s = .error .value := by
  unfold decToPy
  cases hl : decLex (xmlStrip s) with
  | none => rfl
  | some r => obtain ⟨neg, ip, fr⟩ := r; exact absurd (decLex_sound _ _ _ _ hl) h

/-! ### decimal lists -/

theorem decToPy_err (t : Str) (e : Err) (h : decToPy t = .error e) : e = .value := by
  unfold decToPy at h
  cases hl : decLex (xmlStrip t) with
  | none => rw [hl] at h; injection h with h; exact h.symm
  | some r => obtain ⟨a, b, c⟩ := r; rw [hl] at h; cases h

/-- a list with an item outside the lexical space of xsd:decimal is rejected as a whole -/
theorem decItems_reject (ts : List Str) (t : Str) (ht : t ∈ ts) (h : ¬ DecimalLex (xmlStrip t)) :
    decItems ts = .error .value := by
  induction ts with
  | nil => cases ht
  | cons a ts ih =>
    unfold decItems
    cases ha : decToPy a with
    | error e => rw [decToPy_err a e ha]
    | ok d =>
      simp only
      have hne : t ≠ a := by
        intro heq; subst heq
        exact h ((decToPy_ok_iff t).mp ⟨d, ha⟩)
      have ht' : t ∈ ts := by
        rcases List.mem_cons.mp ht with h1 | h1
        · exact absurd h1 hne
        · exact h1
      rw [ih ht']

/-- every item of an accepted list is the conversion of its token, in order -/
theorem decItems_ok (ts : List Str) (ds : List Dec) (h : decItems ts = .ok ds) :
    ds.length = ts.length ∧ ∀ i (hi : i < ts.length) (hj : i < ds.length), decToPy ts[i] = .ok ds[i] := by
  induction ts generalizing ds with
  | nil =>
    simp only [decItems, Except.ok.injEq] at h
    subst h
    exact ⟨rfl, fun i hi => absurd hi (Nat.not_lt_zero i)⟩
  | cons a ts ih =>
    unfold decItems at h
    cases ha : decToPy a with
    | error e => rw [ha] at h; cases h
    | ok d =>
      rw [ha] at h
      simp only at h
      cases hr : decItems ts with
      | error e => rw [hr] at h; cases h
      | ok ds' =>
        rw [hr] at h
        simp only [Except.ok.injEq] at h
        subst h
        obtain ⟨hl, hi⟩ := ih ds' hr
        refine ⟨by simp [hl], ?_⟩
        intro i h1 h2
        cases i with
        | zero => simpa using ha
        | succ j => simpa using hi j (by simpa using h1) (by simpa using h2)

/-! ### digit count of an accepted string -/

theorem xmlStrip_sublist (s : Str) : (xmlStrip s).Sublist s := by
  unfold xmlStrip
  have h1 : ((s.dropWhile isWs).reverse.dropWhile isWs).Sublist (s.dropWhile isWs).reverse := List.dropWhile_sublist _
  have h2 := h1.reverse
  rw [List.reverse_reverse] at h2
  exact h2.trans (List.dropWhile_sublist _)

theorem splitSign_sublist (t : Str) : (splitSign t).2.Sublist t := by
  cases t with
  | nil => exact List.Sublist.refl _
  | cons c r =>
    unfold splitSign
    by_cases h1 : c = 45
    · simp [h1]
    · by_cases h2 : c = 43
      · simp [h2]
      · simp [h1, h2]

/-- a decimal accepted by `to_py` has at most as many coefficient digits as the string has digits -/
theorem decToPy_bounds (s : Str) (d : Dec) (h : decToPy s = .ok d) :
    d.coeff < 10 ^ (s.filter isDigit).length ∧ -((s.filter isDigit).length : Int) ≤ d.exp ∧ d.exp ≤ 0 := by
  unfold decToPy at h
  cases hl : decLex (xmlStrip s) with
  | none => rw [hl] at h; cases h
  | some r =>
    obtain ⟨neg, ip, fr⟩ := r
    rw [hl] at h
    simp only [Except.ok.injEq] at h
    subst h
    obtain ⟨_, hdi, hdf, hshape⟩ := decLex_some _ _ _ _ hl
    have hall : ∀ c ∈ ip ++ fr, isDigit c = true := by
      intro c hc; rw [List.mem_append] at hc; rcases hc with h | h
      · exact hdi c h
      · exact hdf c h
    have hsub : (ip ++ fr).Sublist s := by
      have h1 : (ip ++ fr).Sublist (splitSign (xmlStrip s)).2 := by
        rcases hshape with ⟨h1, h2, _⟩ | ⟨h1, _⟩
        · rw [h1, h2]; simp
        · rw [h1]; exact List.Sublist.append_left (List.sublist_cons_self _ _) _
      exact (h1.trans (splitSign_sublist _)).trans (xmlStrip_sublist s)
    have hlen : (ip ++ fr).length ≤ (s.filter isDigit).length := by
      have := (hsub.filter isDigit).length_le
      rwa [List.filter_eq_self.mpr hall] at this
    have hlt := digitsVal_lt (ip ++ fr) hall
    refine ⟨Nat.lt_of_lt_of_le hlt (Nat.pow_le_pow_right (by omega) hlen), ?_, ?_⟩
    · simp only
      rw [List.length_append] at hlen
      omega
    · simp only; omega

end Sdc.Scalars
