import SdcModel.Proofs.XmlBindingFrame
/-!
`XmlBinding`, part 3: for every descriptor kind, reading what was written into a clean footprint gives the value
back (`read_write_kind`), for every well-typed value.
-/
namespace Sdc.XmlBinding

/-- round trip of a nested instance through the call-backs, into an element of any tag, with or without `xsi:type` -/
def RTobj (wr : Wr) (rd : Rd) (c : Nat) (fs : List Val) : Prop :=
  ∀ n : Nat, ∃ ch, wr c fs (Xml.empty n) = some ch ∧ ch.tag = n ∧ getAttr ch.attrs xsiType = none ∧
    ∀ t, rd c (withXsi t ch) = some (.obj c fs)

theorem atoms_eq : ∀ (vs : List Val) (ss : List String), atoms vs = some ss → vs = ss.map Val.atom
  | [], ss, h => by simp [atoms] at h; subst h; rfl
  | .atom s :: vs, ss, h => by
    simp only [atoms] at h
    obtain ⟨ss', h1, rfl⟩ := map_some h
    simp [atoms_eq vs ss' h1]
  | .none :: _, _, h => by simp [atoms] at h
  | .list _ :: _, _, h => by simp [atoms] at h
  | .obj _ _ :: _, _, h => by simp [atoms] at h
  | .raw _ :: _, _, h => by simp [atoms] at h

theorem mapM'_map {α β γ : Type} (f : β → Option γ) (g : α → β) : ∀ l : List α, mapM' f (l.map g) = mapM' (fun a => f (g a)) l
  | [] => rfl
  | a :: l => by simp only [List.map_cons, mapM', mapM'_map f g l]

theorem mapM'_congr {α β : Type} (f g : α → Option β) (h : ∀ a, f a = g a) (l : List α) : mapM' f l = mapM' g l := by
  have : f = g := funext h
  rw [this]

theorem isEmpty_iff {α : Type} (l : List α) : l.isEmpty = true ↔ l = [] := by cases l <;> simp

/-- reading the `xsi:type` a nested element got when it was written -/
theorem readClass_withXsi (S : Schema) {container : Bool} {dispatch decl c : Nat} (h : WTnested S container dispatch decl c)
    (ch : Xml) (hch : getAttr ch.attrs xsiType = none) :
    ∃ t, xsiFor S container decl c = some t ∧ readClass S dispatch decl (withXsi t ch) = some c := by
  obtain ⟨t, ht, hcase⟩ := h
  refine ⟨t, ht, ?_⟩
  cases t with
  | none =>
    simp only at hcase; subst hcase
    simp only [readClass, withXsi, hch]
    split <;> rfl
  | some q =>
    simp only at hcase
    simp only [readClass, withXsi, attrs_setAttrs, getAttr_setAttr_self, if_neg hcase.1, hcase.2]

theorem items_roundtrip (S : Schema) (wr : Wr) (rd : Rd) (P : Nat → List Val → Prop)
    (hP : ∀ c fs, P c fs → RTobj wr rd c fs) (n : Nat) (decl : Nat) (container : Bool) (dispatch : Nat) :
    ∀ vs : List Val, (∀ w ∈ vs, ∃ c fs, w = .obj c fs ∧ P c fs ∧ WTnested S container dispatch decl c) →
      ∃ chs, writeItems S wr n decl container vs = some chs ∧ (∀ ch ∈ chs, ch.tag = n) ∧
        readItems S rd dispatch decl chs = some vs
  | [], _ => ⟨[], rfl, by simp, rfl⟩
  | w :: vs, h => by
    obtain ⟨c, fs, rfl, hp, hn⟩ := h w (List.mem_cons_self ..)
    obtain ⟨chs, h1, h2, h3⟩ := items_roundtrip S wr rd P hP n decl container dispatch vs
      (fun w hw => h w (List.mem_cons_of_mem _ hw))
    obtain ⟨ch, hw, htag, hx, hr⟩ := hP c fs hp n
    obtain ⟨t, ht, hrc⟩ := readClass_withXsi S hn ch hx
    refine ⟨withXsi t ch :: chs, ?_, ?_, ?_⟩
    · simp only [writeItems, hw, ht, h1]
    · intro k hk
      rcases List.mem_cons.mp hk with rfl | hk
      · rw [withXsi_tag, htag]
      · exact h2 k hk
    · simp only [readItems, hrc, Option.bind_some, hr t, h3]

/-- the element a member with sub element name `sub` starts from when nothing was written yet -/
def baseOf : Option Nat → Xml → Xml
  | some n, _ => Xml.empty n
  | none, x => x

theorem elemOf_onElem_clean (sub : Option Nat) (f : Xml → Xml) (hf : ∀ e, (f e).tag = e.tag) (x : Xml)
    (hc : ∀ n, sub = some n → named n x.kids = []) :
    elemOf sub (onElem sub f x) = some (f (baseOf sub x)) := by
  cases sub with
  | none => rfl
  | some n =>
    have hc := hc n rfl
    simp only [elemOf, onElem, kids_setKids, modifyFirst_of_clean n f x.kids hc, firstNamed_eq_head, named_append, hc,
      List.nil_append, baseOf]
    have : named n [f (Xml.empty n)] = [f (Xml.empty n)] :=
      named_self_of_all n _ (by intro k hk; simp at hk; subst hk; rw [hf]; rfl)
    rw [this]; rfl

theorem elemOf_dropElem_clean (n : Nat) (x : Xml) (hc : named n x.kids = []) :
    elemOf (some n) (dropElem (some n) x) = none := by
  simp only [elemOf, dropElem, kids_setKids, removeFirst_of_clean n _ hc, firstNamed_eq_head, hc]; rfl

theorem elemOf_clean (n : Nat) (x : Xml) (hc : named n x.kids = []) : elemOf (some n) x = none := by
  simp only [elemOf, firstNamed_eq_head, hc]; rfl

theorem clean_text {sub : Option Nat} {x : Xml} (h : Clean (textFp sub) x) :
    ∀ n, sub = some n → named n x.kids = [] := by
  intro n hs; subst hs; simpa [textFp, Clean] using h

theorem clean_kids {sub : Option Nat} {x : Xml} (h : Clean (kidsFp sub) x) :
    ∀ n, sub = some n → named n x.kids = [] := by
  intro n hs; subst hs; simpa [kidsFp, Clean] using h

/-- **read ∘ write = id** for one member, written into an element whose footprint for that member is still clean -/
theorem read_write_kind (C : Codec) (S : Schema) (wr : Wr) (rd : Rd) (P : Nat → List Val → Prop)
    (hP : ∀ c fs, P c fs → RTobj wr rd c fs) (k : Kind) (v : Val) (x : Xml) (hc : Clean k.fp x)
    (hwt : WTk C S P k v) : ∃ x', writeKind C S wr k v x = some x' ∧ readKind C S rd k x' = some v := by
  cases k with
  | attr n conv opt vol =>
    simp only [WTk] at hwt
    obtain ⟨hvol, hv⟩ := hwt
    rcases hv with ⟨rfl, hopt, hv0⟩ | ⟨s, rfl, l, hl, hp⟩
    · subst hv0; subst hopt
      refine ⟨x.setAttrs (delAttr x.attrs n), by simp [writeKind], ?_⟩
      simp [readKind, getAttr_delAttr_self]
    · have hsel : (if vol = true then Val.atom C.now else Val.atom s) = Val.atom s := by
        cases vol with
        | false => rfl
        | true => simpa using (hvol rfl).symm
      refine ⟨x.setAttrs (setAttr x.attrs n l), by simp [writeKind, hsel, hl], ?_⟩
      simp [readKind, getAttr_setAttr_self, hp]
  | attrList n conv opt =>
    simp only [WTk] at hwt
    obtain ⟨vs, rfl, ss, ls, ha, hx, hp, hj⟩ := hwt
    have hvs := atoms_eq vs ss ha
    by_cases he : vs.isEmpty = true ∧ opt = true
    · have hnil : vs = [] := (isEmpty_iff vs).mp he.1
      subst hnil
      have : ss = [] := by simpa [atoms] using ha.symm
      subst this
      refine ⟨x.setAttrs (delAttr x.attrs n), by simp [writeKind, he.2], ?_⟩
      simp [readKind, getAttr_delAttr_self]
    · refine ⟨x.setAttrs (setAttr x.attrs n (C.join ls)), ?_, ?_⟩
      · simp only [writeKind]
        rw [if_neg (by simpa using he)]
        simp [ha, hx]
      · simp [readKind, getAttr_setAttr_self, hj rfl, hp, hvs]
  | text sub conv opt minLen style dflt =>
    simp only [WTk] at hwt
    rw [fp_text] at hc
    rcases hwt with ⟨rfl, hsub, hopt, hd⟩ | ⟨s, l, rfl, hl, hp, hq⟩
    · obtain ⟨n, rfl⟩ := Option.isSome_iff_exists.mp hsub
      subst hopt
      have hcl : named n x.kids = [] := by simpa [textFp, Clean] using hc
      refine ⟨dropElem (some n) x, ?_, ?_⟩
      · cases style <;> simp [writeKind]
      · simp only [readKind, elemOf_dropElem_clean n x hcl]
        cases style <;> cases dflt <;> simp_all
    · refine ⟨onElem sub (·.setText l) x, by simp [writeKind, hl], ?_⟩
      have he := elemOf_onElem_clean sub (·.setText l) (fun e => by simp) x (clean_text hc)
      simp only [readKind, he, text_setText]
      by_cases hs : style = .qname
      · have := hq hs
        simp [hs, this, hp]
      · have : (style == TextStyle.qname) = false := by simpa using hs
        simp [this, hp]
  | textList sub conv opt =>
    simp only [WTk] at hwt
    rw [fp_textList] at hc
    obtain ⟨vs, rfl, ss, ls, ha, hx, hp, hj⟩ := hwt
    have hvs := atoms_eq vs ss ha
    refine ⟨onElem sub (·.setText (C.join ls)) x, by simp [writeKind, ha, hx], ?_⟩
    have he := elemOf_onElem_clean sub (·.setText (C.join ls)) (fun e => by simp) x (clean_text hc)
    simp [readKind, he, hj rfl, hp, hvs]
  | subTextList n conv =>
    simp only [WTk] at hwt
    have hcl : named n x.kids = [] := by simpa [Kind.fp, Clean] using hc
    obtain ⟨vs, rfl, ss, ls, ha, hx, hp, _⟩ := hwt
    have hvs := atoms_eq vs ss ha
    cases vs with
    | nil =>
      have : ss = [] := by simpa [atoms] using ha.symm
      subst this
      refine ⟨x, by simp [writeKind], ?_⟩
      simp [readKind, hcl, mapM']
    | cons w ws =>
      refine ⟨x.setKids (removeAll n x.kids ++ ls.map fun l => (Xml.empty n).setText l), by simp [writeKind, ha, hx], ?_⟩
      have hnew : named n (ls.map fun l => (Xml.empty n).setText l) = ls.map fun l => (Xml.empty n).setText l :=
        named_self_of_all n _ (by intro k hk; simp only [List.mem_map] at hk; obtain ⟨l, _, rfl⟩ := hk; simp)
      simp only [readKind, kids_setKids, named_append, removeAll_of_clean n _ hcl, hcl, List.nil_append, hnew, mapM'_map,
        text_setText, hp, Option.map_some, hvs]
  | sub name decl opt container skipEmpty dispatch dflt =>
    simp only [WTk] at hwt
    obtain ⟨hname, hv⟩ := hwt
    obtain ⟨n, rfl⟩ := Option.isSome_iff_exists.mp hname
    have hcl : named n x.kids = [] := by simpa [Kind.fp, Clean] using hc
    rcases hv with ⟨rfl, ho, rfl⟩ | ⟨hs, he, rfl⟩ | ⟨c, fs, rfl, hne, hp, hn⟩
    · refine ⟨x, ?_, by simp [readKind, elemOf_clean n x hcl]⟩
      rcases ho with h | h <;> simp [writeKind, h]
    · subst hs
      cases v with
      | obj c fs =>
        refine ⟨x, by simp [writeKind, he], by simp [readKind, elemOf_clean n x hcl]⟩
      | none => simp [Val.isEmptyObj] at he
      | atom _ => simp [Val.isEmptyObj] at he
      | list _ => simp [Val.isEmptyObj] at he
      | raw _ => simp [Val.isEmptyObj] at he
    · obtain ⟨ch, hw, htag, hx, hr⟩ := hP c fs hp n
      obtain ⟨t, ht, hrc⟩ := readClass_withXsi S hn ch hx
      have hskip : (skipEmpty && (Val.obj c fs).isEmptyObj) = false := by
        cases hs : skipEmpty <;> cases he : (Val.obj c fs).isEmptyObj <;> simp_all
      refine ⟨x.setKids ((if container || skipEmpty then removeFirst n x.kids else x.kids) ++ [withXsi t ch]), ?_, ?_⟩
      · simp only [writeKind, hskip, Bool.false_eq_true, if_false, hw, ht]
      · have hk : (if (container || skipEmpty) = true then removeFirst n x.kids else x.kids) = x.kids := by
          split
          · exact removeFirst_of_clean n _ hcl
          · rfl
        have h1 : named n [withXsi t ch] = [withXsi t ch] :=
          named_self_of_all n _ (by intro k hk; simp at hk; subst hk; rw [withXsi_tag, htag])
        simp only [readKind, elemOf, kids_setKids, hk, firstNamed_eq_head, named_append, hcl, List.nil_append, h1,
          List.head?_cons, hrc, Option.bind_some, hr t]
  | subList n decl container dispatch =>
    simp only [WTk] at hwt
    have hcl : named n x.kids = [] := by simpa [Kind.fp, Clean] using hc
    obtain ⟨vs, rfl, hall⟩ := hwt
    obtain ⟨chs, h1, h2, h3⟩ := items_roundtrip S wr rd P hP n decl container dispatch vs hall
    refine ⟨x.setKids ((if container then removeAll n x.kids else x.kids) ++ chs), by simp [writeKind, h1], ?_⟩
    have hk : (if container = true then removeAll n x.kids else x.kids) = x.kids := by
      split
      · exact removeAll_of_clean n _ hcl
      · rfl
    simp only [readKind, kids_setKids, hk, named_append, hcl, List.nil_append, named_self_of_all n chs h2, h3,
      Option.map_some]
  | raw sub style opt =>
    rw [fp_raw] at hc
    have hadd : ∀ xs : List Xml, readKind C S rd (.raw sub style opt)
        (onElem sub (fun e => e.setKids (e.kids ++ xs)) x) = some (.raw xs) := by
      intro xs
      have he := elemOf_onElem_clean sub (fun e => e.setKids (e.kids ++ xs)) (fun e => by simp) x (clean_kids hc)
      simp only [readKind, he, kids_setKids]
      cases sub with
      | none => simp only [kidsFp, Clean] at hc; simp [baseOf, hc]
      | some n => simp [baseOf]
    have habs : ∀ n, sub = some n → elemOf sub x = none := by
      intro n hs; subst hs; exact elemOf_clean n x (by simpa [kidsFp, Clean] using hc)
    cases style with
    | ext =>
      simp only [WTk] at hwt
      obtain ⟨xs, rfl⟩ := hwt
      cases xs with
      | nil =>
        refine ⟨x, by simp [writeKind], ?_⟩
        cases sub with
        | none => simp only [kidsFp, Clean] at hc; simp [readKind, elemOf, hc]
        | some n => simp [readKind, habs n rfl]
      | cons a as => exact ⟨_, by simp [writeKind], hadd _⟩
    | any =>
      simp only [WTk] at hwt
      rcases hwt with ⟨rfl, ho, hs⟩ | ⟨xs, rfl⟩
      · subst ho
        obtain ⟨n, rfl⟩ := Option.isSome_iff_exists.mp hs
        have hcl : named n x.kids = [] := by simpa [kidsFp, Clean] using hc
        exact ⟨dropElem (some n) x, by simp [writeKind], by simp [readKind, elemOf_dropElem_clean n x hcl]⟩
      · exact ⟨_, by simp [writeKind], hadd _⟩
    | anyList =>
      simp only [WTk] at hwt
      obtain ⟨xs, rfl⟩ := hwt
      cases xs with
      | nil =>
        cases sub with
        | none =>
          simp only [kidsFp, Clean] at hc
          refine ⟨x, by cases opt <;> simp [writeKind, dropElem], by simp [readKind, elemOf, hc]⟩
        | some n =>
          have hcl : named n x.kids = [] := by simpa [kidsFp, Clean] using hc
          cases opt with
          | true => exact ⟨dropElem (some n) x, by simp [writeKind], by simp [readKind, elemOf_dropElem_clean n x hcl]⟩
          | false => exact ⟨x, by simp [writeKind], by simp [readKind, habs n rfl]⟩
      | cons a as => exact ⟨_, by simp [writeKind], hadd _⟩

end Sdc.XmlBinding
