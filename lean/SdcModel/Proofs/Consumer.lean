import SdcModel.Consumer
/-!
# Helper lemmas about the consumer model (`SdcModel/Consumer.lean`) — core Lean only
-/
namespace Sdc.Consumer
open Sdc.Mdib

/-! ### the StateVersion gate -/

theorem hasNewUsableVersion_iff (old new : Nat) : hasNewUsableVersion old new = true ↔ old < new := by
  unfold hasNewUsableVersion
  simp only []
  by_cases h1 : ((new : Int) - (old : Int) == 1) = true
  · simp only [h1, if_true, true_iff]; simp at h1; omega
  · simp only [h1]
    by_cases h2 : (new : Int) - (old : Int) > 1
    · simp only [h2, if_true]; simp; omega
    · simp only [h2]; simp at h1 ⊢; omega

/-! ### keyed lists -/
section Keyed
variable {α : Type} (key : α → Nat)

@[simp] theorem lookupBy_nil (k : Nat) : lookupBy key ([] : List α) k = none := rfl

theorem lookupBy_cons (y : α) (ys : List α) (k : Nat) :
    lookupBy key (y :: ys) k = if key y = k then some y else lookupBy key ys k := by
  unfold lookupBy
  by_cases h : key y = k <;> simp [h]

@[simp] theorem replaceBy_nil (x : α) : replaceBy key ([] : List α) x = [] := rfl

theorem replaceBy_cons (y : α) (ys : List α) (x : α) :
    replaceBy key (y :: ys) x = (if key y = key x then x else y) :: replaceBy key ys x := by
  unfold replaceBy
  by_cases h : key y = key x <;> simp [h]

theorem lookupBy_some_mem {l : List α} {k : Nat} {a : α} (h : lookupBy key l k = some a) : a ∈ l ∧ key a = k := by
  induction l with
  | nil => simp at h
  | cons y ys ih => rw [lookupBy_cons] at h; grind

theorem lookupBy_none_iff {l : List α} {k : Nat} : lookupBy key l k = none ↔ ∀ a ∈ l, key a ≠ k := by
  induction l with
  | nil => simp
  | cons y ys ih => rw [lookupBy_cons]; grind

theorem lookupBy_isSome_iff {l : List α} {k : Nat} : (lookupBy key l k).isSome = true ↔ k ∈ l.map key := by
  induction l with
  | nil => simp
  | cons y ys ih => rw [lookupBy_cons]; grind

theorem lookupBy_of_mem_nodup {l : List α} {a : α} (hn : (l.map key).Nodup) (ha : a ∈ l) :
    lookupBy key l (key a) = some a := by
  induction l with
  | nil => cases ha
  | cons x xs ih =>
    rw [lookupBy_cons]
    simp only [List.map_cons, List.nodup_cons, List.mem_map] at hn
    grind

theorem map_key_replaceBy (l : List α) (x : α) : (replaceBy key l x).map key = l.map key := by
  induction l with
  | nil => rfl
  | cons y ys ih => rw [replaceBy_cons]; grind

theorem mem_replaceBy {l : List α} {x y : α} (h : y ∈ replaceBy key l x) : y ∈ l ∨ y = x := by
  induction l with
  | nil => simp at h
  | cons z zs ih => rw [replaceBy_cons] at h; grind

theorem lookupBy_replaceBy (l : List α) (x : α) (k : Nat) :
    lookupBy key (replaceBy key l x) k =
      if k = key x then (if (lookupBy key l k).isSome then some x else none) else lookupBy key l k := by
  induction l with
  | nil => simp
  | cons y ys ih =>
    rw [replaceBy_cons, lookupBy_cons, lookupBy_cons, ih]
    grind

theorem lookupBy_append (l m : List α) (k : Nat) :
    lookupBy key (l ++ m) k = (lookupBy key l k).or (lookupBy key m k) := by
  induction l with
  | nil => simp
  | cons y ys ih => rw [List.cons_append, lookupBy_cons, lookupBy_cons, ih]; grind

theorem replaceBy_self_of_lookup {l : List α} {x : α} (hn : (l.map key).Nodup) (h : lookupBy key l (key x) = some x) :
    replaceBy key l x = l := by
  induction l with
  | nil => rfl
  | cons y ys ih =>
    rw [replaceBy_cons]
    rw [lookupBy_cons] at h
    simp only [List.map_cons, List.nodup_cons, List.mem_map] at hn
    by_cases hk : key y = key x
    · simp only [hk, if_true] at h ⊢
      have hyx : y = x := Option.some.inj h
      subst hyx
      congr 1
      -- no other entry has this key
      clear ih h
      have : ∀ z ∈ ys, key z ≠ key y := fun z hz he => hn.1 ⟨z, hz, he⟩
      clear hn
      induction ys with
      | nil => rfl
      | cons z zs ih2 =>
        rw [replaceBy_cons]
        have h1 := this z (by simp)
        simp only [h1, if_false]
        rw [ih2 (fun w hw => this w (by simp [hw]))]
    · simp only [hk, if_false] at h ⊢
      rw [ih hn.2 h]

theorem lookupBy_filter (l : List α) (p : α → Bool) (k : Nat) :
    lookupBy key (l.filter p) k = (l.filter p).find? (fun y => key y == k) := rfl

theorem mem_filter_of_lookupBy {l : List α} {p : α → Bool} {k : Nat} {a : α}
    (h : lookupBy key (l.filter p) k = some a) : a ∈ l ∧ p a = true ∧ key a = k := by
  have := lookupBy_some_mem key h
  simp only [List.mem_filter] at this
  exact ⟨this.1.1, this.1.2, this.2⟩

theorem lookupBy_filter_of_nodup {l : List α} {p : α → Bool} {k : Nat} {a : α} (hn : (l.map key).Nodup)
    (h : lookupBy key (l.filter p) k = some a) : lookupBy key l k = some a := by
  have ⟨h1, _, h3⟩ := mem_filter_of_lookupBy key h
  rw [← h3]
  exact lookupBy_of_mem_nodup key hn h1

theorem nodup_filter_keys {l : List α} (p : α → Bool) (hn : (l.map key).Nodup) : ((l.filter p).map key).Nodup :=
  hn.sublist ((List.filter_sublist).map key)

theorem nodup_replaceBy {l : List α} (x : α) (hn : (l.map key).Nodup) : ((replaceBy key l x).map key).Nodup := by
  rw [map_key_replaceBy]; exact hn

theorem nodup_append_new {l : List α} {x : α} (hn : (l.map key).Nodup) (h : lookupBy key l (key x) = none) :
    ((l ++ [x]).map key).Nodup := by
  rw [lookupBy_none_iff] at h
  simp only [List.map_append, List.map_cons, List.map_nil]
  rw [List.nodup_append]
  refine ⟨hn, by simp, ?_⟩
  intro a ha b hb
  simp only [List.mem_singleton] at hb
  subst hb
  rcases List.mem_map.mp ha with ⟨z, hz, rfl⟩
  exact h z hz

end Keyed
end Sdc.Consumer
