import SdcModel.Consumer
/-!
# Helper lemmas about the consumer model (`SdcModel/Consumer.lean`) — core Lean only
-/
namespace Sdc.Consumer
open Sdc.Mdib

/-! ### the StateVersion gate -/

theorem hasNewUsableVersion_iff (old new : Nat) : hasNewUsableVersion old new = true ↔ old < new := by
  unfold hasNewUsableVersion
  simp only []
  by_cases h1 : ((new : Int) - (old : Int) == 1) = true
  · simp only [h1, if_true, true_iff]; simp at h1; omega
  · simp only [h1]
    by_cases h2 : (new : Int) - (old : Int) > 1
    · simp only [h2, if_true]; simp; omega
    · simp only [h2]; simp at h1 ⊢; omega

/-! ### keyed lists -/
section Keyed
variable {α : Type} (key : α → Nat)

@[simp] theorem lookupBy_nil (k : Nat) : lookupBy key ([] : List α) k = none := rfl

theorem lookupBy_cons (y : α) (ys : List α) (k : Nat) :
    lookupBy key (y :: ys) k = if key y = k then some y else lookupBy key ys k := by
  unfold lookupBy
  by_cases h : key y = k <;> simp [h]

@[simp] theorem replaceBy_nil (x : α) : replaceBy key ([] : List α) x = [] := rfl

theorem replaceBy_cons (y : α) (ys : List α) (x : α) :
    replaceBy key (y :: ys) x = (if key y = key x then x else y) :: replaceBy key ys x := by
  unfold replaceBy
  by_cases h : key y = key x <;> simp [h]

theorem lookupBy_some_mem {l : List α} {k : Nat} {a : α} (h : lookupBy key l k = some a) : a ∈ l ∧ key a = k := by
  induction l with
  | nil => simp at h
  | cons y ys ih => rw [lookupBy_cons] at h; grind

theorem lookupBy_none_iff {l : List α} {k : Nat} : lookupBy key l k = none ↔ ∀ a ∈ l, key a ≠ k := by
  induction l with
  | nil => simp
  | cons y ys ih => rw [lookupBy_cons]; grind

theorem lookupBy_isSome_iff {l : List α} {k : Nat} : (lookupBy key l k).isSome = true ↔ k ∈ l.map key := by
  induction l with
  | nil => simp
  | cons y ys ih => rw [lookupBy_cons]; grind

theorem lookupBy_of_mem_nodup {l : List α} {a : α} (hn : (l.map key).Nodup) (ha : a ∈ l) :
    lookupBy key l (key a) = some a := by
  induction l with
  | nil => cases ha
  | cons x xs ih =>
    rw [lookupBy_cons]
    simp only [List.map_cons, List.nodup_cons, List.mem_map] at hn
    grind

theorem map_key_replaceBy (l : List α) (x : α) : (replaceBy key l x).map key = l.map key := by
  induction l with
  | nil => rfl
  | cons y ys ih => rw [replaceBy_cons]; grind

theorem mem_replaceBy {l : List α} {x y : α} (h : y ∈ replaceBy key l x) : y ∈ l ∨ y = x := by
  induction l with
  | nil => simp at h
  | cons z zs ih => rw [replaceBy_cons] at h; grind

theorem lookupBy_replaceBy (l : List α) (x : α) (k : Nat) :
    lookupBy key (replaceBy key l x) k =
      if k = key x then (if (lookupBy key l k).isSome then some x else none) else lookupBy key l k := by
  induction l with
  | nil => simp
  | cons y ys ih =>
    rw [replaceBy_cons, lookupBy_cons, lookupBy_cons, ih]
    grind

theorem lookupBy_append (l m : List α) (k : Nat) :
    lookupBy key (l ++ m) k = (lookupBy key l k).or (lookupBy key m k) := by
  induction l with
  | nil => simp
  | cons y ys ih => rw [List.cons_append, lookupBy_cons, lookupBy_cons, ih]; grind

theorem replaceBy_self_of_lookup {l : List α} {x : α} (hn : (l.map key).Nodup) (h : lookupBy key l (key x) = some x) :
    replaceBy key l x = l := by
  induction l with
  | nil => rfl
  | cons y ys ih =>
    rw [replaceBy_cons]
    rw [lookupBy_cons] at h
    simp only [List.map_cons, List.nodup_cons, List.mem_map] at hn
    by_cases hk : key y = key x
    · simp only [hk, if_true] at h ⊢
      have hyx : y = x := Option.some.inj h
      subst hyx
      congr 1
      -- no other entry has this key
      clear ih h
      have : ∀ z ∈ ys, key z ≠ key y := fun z hz he => hn.1 ⟨z, hz, he⟩
      clear hn
      induction ys with
      | nil => rfl
      | cons z zs ih2 =>
        rw [replaceBy_cons]
        have h1 := this z (by simp)
        simp only [h1, if_false]
        rw [ih2 (fun w hw => this w (by simp [hw]))]
    · simp only [hk, if_false] at h ⊢
      rw [ih hn.2 h]

theorem lookupBy_filter (l : List α) (p : α → Bool) (k : Nat) :
    lookupBy key (l.filter p) k = (l.filter p).find? (fun y => key y == k) := rfl

theorem mem_filter_of_lookupBy {l : List α} {p : α → Bool} {k : Nat} {a : α}
    (h : lookupBy key (l.filter p) k = some a) : a ∈ l ∧ p a = true ∧ key a = k := by
  have := lookupBy_some_mem key h
  simp only [List.mem_filter] at this
  exact ⟨this.1.1, this.1.2, this.2⟩

theorem lookupBy_filter_of_nodup {l : List α} {p : α → Bool} {k : Nat} {a : α} (hn : (l.map key).Nodup)
    (h : lookupBy key (l.filter p) k = some a) : lookupBy key l k = some a := by
  have ⟨h1, _, h3⟩ := mem_filter_of_lookupBy key h
  rw [← h3]
  exact lookupBy_of_mem_nodup key hn h1

theorem nodup_filter_keys {l : List α} (p : α → Bool) (hn : (l.map key).Nodup) : ((l.filter p).map key).Nodup :=
  hn.sublist ((List.filter_sublist).map key)

theorem nodup_replaceBy {l : List α} (x : α) (hn : (l.map key).Nodup) : ((replaceBy key l x).map key).Nodup := by
  rw [map_key_replaceBy]; exact hn

theorem nodup_append_new {l : List α} {x : α} (hn : (l.map key).Nodup) (h : lookupBy key l (key x) = none) :
    ((l ++ [x]).map key).Nodup := by
  rw [lookupBy_none_iff] at h
  simp only [List.map_append, List.map_cons, List.map_nil]
  rw [List.nodup_append]
  refine ⟨hn, by simp, ?_⟩
  intro a ha b hb
  simp only [List.mem_singleton] at hb
  subst hb
  rcases List.mem_map.mp ha with ⟨z, hz, rfl⟩
  exact h z hz

end Keyed

/-! ### gated updates -/
section Gated
variable {α : Type} (key sv : α → Nat)

theorem gatedPut_mem {am : Bool} {l : List α} {x y : α} (h : y ∈ (gatedPut key sv am l x).1) : y ∈ l ∨ y = x := by
  unfold gatedPut at h
  split at h
  · split at h
    · exact mem_replaceBy key h
    · exact Or.inl h
  · split at h
    · simpa using h
    · exact Or.inl h

theorem gatedPut_nodup {am : Bool} {l : List α} (x : α) (hn : (l.map key).Nodup) :
    (((gatedPut key sv am l x).1).map key).Nodup := by
  unfold gatedPut
  split
  · split
    · exact nodup_replaceBy key x hn
    · exact hn
  · rename_i h
    split
    · exact nodup_append_new key hn h
    · exact hn

theorem gatedPut_lookup_mono {am : Bool} {l : List α} (x : α) {k : Nat} {a : α} (h : lookupBy key l k = some a) :
    ∃ b, lookupBy key (gatedPut key sv am l x).1 k = some b ∧ sv a ≤ sv b := by
  unfold gatedPut
  split
  · rename_i old ho
    split
    · rename_i hu
      rw [hasNewUsableVersion_iff] at hu
      rw [lookupBy_replaceBy]
      by_cases hk : k = key x
      · subst hk
        rw [ho] at h
        have := Option.some.inj h
        subst this
        exact ⟨x, by simp [ho], by omega⟩
      · exact ⟨a, by simp [hk, h], Nat.le_refl _⟩
    · exact ⟨a, h, Nat.le_refl _⟩
  · split
    · exact ⟨a, by rw [lookupBy_append, h]; rfl, Nat.le_refl _⟩
    · exact ⟨a, h, Nat.le_refl _⟩

theorem gatedPut_of_covered {am : Bool} {l : List α} {x : α} (h : Covered key sv l x) :
    gatedPut key sv am l x = (l, false) := by
  obtain ⟨a, ha, hle⟩ := h
  unfold gatedPut
  rw [ha]
  have : hasNewUsableVersion (sv a) (sv x) = false := by
    rw [Bool.eq_false_iff, Ne, hasNewUsableVersion_iff]; omega
  simp [this]

theorem gatedPut_covers {l : List α} (x : α) : Covered key sv (gatedPut key sv true l x).1 x := by
  unfold gatedPut
  split
  · rename_i old ho
    split
    · exact ⟨x, by rw [lookupBy_replaceBy]; simp [ho], Nat.le_refl _⟩
    · rename_i hu
      have : ¬ sv old < sv x := fun h => hu ((hasNewUsableVersion_iff _ _).2 h)
      exact ⟨old, ho, by omega⟩
  · rename_i hn
    simp only [if_true]
    exact ⟨x, by rw [lookupBy_append, hn, lookupBy_cons]; simp, Nat.le_refl _⟩

theorem covered_mono {am : Bool} {l : List α} (x y : α) (h : Covered key sv l y) :
    Covered key sv (gatedPut key sv am l x).1 y := by
  obtain ⟨a, ha, hle⟩ := h
  obtain ⟨b, hb, hab⟩ := gatedPut_lookup_mono key sv (am := am) x ha
  exact ⟨b, hb, by omega⟩

/-! #### lists of incoming entries -/

theorem gatedPutAll_nil (am : Bool) (l : List α) : gatedPutAll key sv am l [] = (l, []) := rfl

theorem gatedPutAll_cons (am : Bool) (l : List α) (x : α) (xs : List α) :
    gatedPutAll key sv am l (x :: xs) =
      ((gatedPutAll key sv am (gatedPut key sv am l x).1 xs).1,
       if (gatedPut key sv am l x).2 then key x :: (gatedPutAll key sv am (gatedPut key sv am l x).1 xs).2
       else (gatedPutAll key sv am (gatedPut key sv am l x).1 xs).2) := rfl

theorem gatedPutAll_mem {am : Bool} {xs l : List α} {y : α} (h : y ∈ (gatedPutAll key sv am l xs).1) :
    y ∈ l ∨ y ∈ xs := by
  induction xs generalizing l with
  | nil => exact Or.inl h
  | cons x xs ih =>
    rw [gatedPutAll_cons] at h
    rcases ih h with h1 | h1
    · rcases gatedPut_mem key sv h1 with h2 | h2
      · exact Or.inl h2
      · exact Or.inr (by simp [h2])
    · exact Or.inr (by simp [h1])

theorem gatedPutAll_nodup {am : Bool} (xs : List α) {l : List α} (hn : (l.map key).Nodup) :
    (((gatedPutAll key sv am l xs).1).map key).Nodup := by
  induction xs generalizing l with
  | nil => exact hn
  | cons x xs ih => rw [gatedPutAll_cons]; exact ih (gatedPut_nodup key sv x hn)

theorem gatedPutAll_lookup_mono {am : Bool} (xs : List α) {l : List α} {k : Nat} {a : α}
    (h : lookupBy key l k = some a) :
    ∃ b, lookupBy key (gatedPutAll key sv am l xs).1 k = some b ∧ sv a ≤ sv b := by
  induction xs generalizing l a with
  | nil => exact ⟨a, h, Nat.le_refl _⟩
  | cons x xs ih =>
    rw [gatedPutAll_cons]
    obtain ⟨b, hb, hab⟩ := gatedPut_lookup_mono key sv (am := am) x h
    obtain ⟨c, hc, hbc⟩ := ih hb
    exact ⟨c, hc, by omega⟩

theorem gatedPutAll_of_covered {am : Bool} {xs l : List α} (h : ∀ x ∈ xs, Covered key sv l x) :
    gatedPutAll key sv am l xs = (l, []) := by
  induction xs with
  | nil => rfl
  | cons x xs ih =>
    rw [gatedPutAll_cons, gatedPut_of_covered key sv (h x (by simp))]
    simp only [Bool.false_eq_true, if_false]
    rw [ih (fun y hy => h y (by simp [hy]))]

theorem covered_gatedPutAll_mono {am : Bool} (xs : List α) {l : List α} (y : α) (h : Covered key sv l y) :
    Covered key sv (gatedPutAll key sv am l xs).1 y := by
  obtain ⟨a, ha, hle⟩ := h
  obtain ⟨b, hb, hab⟩ := gatedPutAll_lookup_mono key sv (am := am) xs ha
  exact ⟨b, hb, by omega⟩

theorem gatedPutAll_covers (xs : List α) (l : List α) :
    ∀ x ∈ xs, Covered key sv (gatedPutAll key sv true l xs).1 x := by
  induction xs generalizing l with
  | nil => intro x hx; cases hx
  | cons y ys ih =>
    intro x hx
    rw [gatedPutAll_cons]
    rcases List.mem_cons.mp hx with rfl | hx
    · exact covered_gatedPutAll_mono key sv ys x (gatedPut_covers key sv x)
    · exact ih _ x hx

end Gated

/-! ### tables -/

theorem keysNodup_iff {α : Type} (key : α → Nat) (l : List α) : keysNodup key l = true ↔ (l.map key).Nodup := by
  unfold keysNodup; simp

theorem Keeps.refl {α : Type} (key sv : α → Nat) (l : List α) : Keeps key sv l l :=
  fun _ a h => ⟨a, h, Nat.le_refl _⟩

theorem Keeps.trans {α : Type} {key sv : α → Nat} {l m n : List α} (h1 : Keeps key sv l m) (h2 : Keeps key sv m n) :
    Keeps key sv l n := by
  intro k a ha
  obtain ⟨b, hb, hab⟩ := h1 k a ha
  obtain ⟨c, hc, hbc⟩ := h2 k b hb
  exact ⟨c, hc, by omega⟩

theorem keeps_gatedPutAll {α : Type} (key sv : α → Nat) (am : Bool) (l xs : List α) :
    Keeps key sv l (gatedPutAll key sv am l xs).1 :=
  fun _ _ h => gatedPutAll_lookup_mono key sv xs h

theorem Keeps.mono {α : Type} {key sv : α → Nat} {l m : List α} (h : Keeps key sv l m) : Mono key sv l m := by
  intro k a b ha hb
  obtain ⟨b', hb', hab⟩ := h k a ha
  rw [hb] at hb'
  cases hb'
  exact hab

/-! #### descriptors -/

theorem createDescr_nodup {ds : List Descr} (d : Descr) (h : (ds.map (·.handle)).Nodup) :
    ((createDescr ds d).map (·.handle)).Nodup := by
  unfold createDescr
  split
  · exact nodup_replaceBy _ d h
  · rename_i hn; exact nodup_append_new _ h hn

theorem updateDescr_nodup {ds : List Descr} (d : Descr) (h : (ds.map (·.handle)).Nodup) :
    ((updateDescr ds d).map (·.handle)).Nodup := by
  unfold updateDescr
  split
  · exact nodup_replaceBy _ _ h
  · exact h

theorem rmDescriptor_wf {t : Tables} (h : Handle) (w : t.Wf) : (rmDescriptor t h).1.Wf := by
  unfold rmDescriptor
  split
  · exact w
  · exact ⟨nodup_filter_keys _ _ w.d, nodup_filter_keys _ _ w.s, nodup_filter_keys _ _ w.c⟩

theorem applyPart_wf {t : Tables} (p : DescrPart) (w : t.Wf) : (applyPart t p).Wf := by
  unfold applyPart
  split
  · exact ⟨createDescr_nodup _ w.d, gatedPutAll_nodup _ _ _ w.s, gatedPutAll_nodup _ _ _ w.c⟩
  · refine ⟨updateDescr_nodup _ w.d, gatedPutAll_nodup _ _ _ w.s, gatedPutAll_nodup _ _ _ ?_⟩
    split
    · exact nodup_filter_keys _ _ w.c
    · exact w.c
  · exact rmDescriptor_wf _ w

theorem applyParts_wf (ps : List DescrPart) {t : Tables} (w : t.Wf) : (applyParts t ps).Wf := by
  unfold applyParts
  induction ps generalizing t with
  | nil => exact w
  | cons p ps ih => exact ih (applyPart_wf p w)

/-! #### where the states of the tables come from -/

theorem applyPart_states_origin {t : Tables} {p : DescrPart} {x : SState} (h : x ∈ (applyPart t p).states) :
    x ∈ t.states ∨ x ∈ p.states := by
  unfold applyPart at h
  split at h
  · exact gatedPutAll_mem _ _ h
  · exact gatedPutAll_mem _ _ h
  · unfold rmDescriptor at h
    split at h
    · exact Or.inl h
    · exact Or.inl (List.mem_filter.mp h).1

theorem applyPart_cstates_origin {t : Tables} {p : DescrPart} {x : CState} (h : x ∈ (applyPart t p).cstates) :
    x ∈ t.cstates ∨ x ∈ p.cstates := by
  unfold applyPart at h
  split at h
  · exact gatedPutAll_mem _ _ h
  · rcases gatedPutAll_mem _ _ h with h1 | h1
    · left
      split at h1
      · exact (List.mem_filter.mp h1).1
      · exact h1
    · exact Or.inr h1
  · unfold rmDescriptor at h
    split at h
    · exact Or.inl h
    · exact Or.inl (List.mem_filter.mp h).1

theorem applyParts_states_origin {ps : List DescrPart} {t : Tables} {x : SState} (h : x ∈ (applyParts t ps).states) :
    x ∈ t.states ∨ ∃ p ∈ ps, x ∈ p.states := by
  unfold applyParts at h
  induction ps generalizing t with
  | nil => exact Or.inl h
  | cons p ps ih =>
    rcases ih h with h1 | ⟨q, hq, hx⟩
    · rcases applyPart_states_origin h1 with h2 | h2
      · exact Or.inl h2
      · exact Or.inr ⟨p, by simp, h2⟩
    · exact Or.inr ⟨q, by simp [hq], hx⟩

theorem applyParts_cstates_origin {ps : List DescrPart} {t : Tables} {x : CState} (h : x ∈ (applyParts t ps).cstates) :
    x ∈ t.cstates ∨ ∃ p ∈ ps, x ∈ p.cstates := by
  unfold applyParts at h
  induction ps generalizing t with
  | nil => exact Or.inl h
  | cons p ps ih =>
    rcases ih h with h1 | ⟨q, hq, hx⟩
    · rcases applyPart_cstates_origin h1 with h2 | h2
      · exact Or.inl h2
      · exact Or.inr ⟨p, by simp, h2⟩
    · exact Or.inr ⟨q, by simp [hq], hx⟩

/-! ### one report -/

theorem applyReport_wf {c : Core} (r : Report) (w : c.tabs.Wf) : (applyReport c r).1.tabs.Wf := by
  unfold applyReport
  split
  · split
    · exact ⟨w.d, w.s, gatedPutAll_nodup _ _ _ w.c⟩
    · exact applyParts_wf _ w
    · exact ⟨w.d, gatedPutAll_nodup _ _ _ w.s, w.c⟩
  · exact w

theorem applyReport_states_origin {c : Core} {r : Report} {x : SState}
    (h : x ∈ (applyReport c r).1.tabs.states) : x ∈ c.tabs.states ∨ x ∈ allStates r := by
  unfold applyReport at h
  unfold allStates
  split at h
  · split at h
    · exact Or.inl h
    · rcases applyParts_states_origin h with h1 | ⟨p, hp, hx⟩
      · exact Or.inl h1
      · exact Or.inr (List.mem_append_right _ (List.mem_flatMap.mpr ⟨p, hp, hx⟩))
    · rcases gatedPutAll_mem _ _ h with h1 | h1
      · exact Or.inl h1
      · exact Or.inr (List.mem_append_left _ h1)
  · exact Or.inl h

theorem applyReport_cstates_origin {c : Core} {r : Report} {x : CState}
    (h : x ∈ (applyReport c r).1.tabs.cstates) : x ∈ c.tabs.cstates ∨ x ∈ allCStates r := by
  unfold applyReport at h
  unfold allCStates
  split at h
  · split at h
    · rcases gatedPutAll_mem _ _ h with h1 | h1
      · exact Or.inl h1
      · exact Or.inr (List.mem_append_left _ h1)
    · rcases applyParts_cstates_origin h with h1 | ⟨p, hp, hx⟩
      · exact Or.inl h1
      · exact Or.inr (List.mem_append_right _ (List.mem_flatMap.mpr ⟨p, hp, hx⟩))
    · exact Or.inl h
  · exact Or.inl h

theorem canAccept_iff (c : Core) (r : Report) : canAccept c r = true ↔ c.vg.ver ≤ r.vg.ver := by
  unfold canAccept; simp

theorem applyReport_vg (c : Core) (r : Report) :
    (applyReport c r).1.vg = if c.vg.ver ≤ r.vg.ver then r.vg else c.vg := by
  unfold applyReport
  by_cases h : c.vg.ver ≤ r.vg.ver
  · rw [(canAccept_iff c r).2 h]; simp only [if_true, h]; split <;> rfl
  · have : canAccept c r = false := by rw [Bool.eq_false_iff, Ne, canAccept_iff]; exact h
    rw [this]; simp [h]

theorem applyReport_ver_le (c : Core) (r : Report) : c.vg.ver ≤ (applyReport c r).1.vg.ver := by
  rw [applyReport_vg]; split <;> omega

/-- a report older than the MDIB version changes nothing and names nothing -/
theorem applyReport_stale {c : Core} {r : Report} (h : r.vg.ver < c.vg.ver) :
    applyReport c r = (c, { kind := r.kind }) := by
  have : canAccept c r = false := by rw [Bool.eq_false_iff, Ne, canAccept_iff]; omega
  unfold applyReport; rw [this]; rfl

/-! #### states persist, versions do not decrease -/

theorem applyPart_keeps {t : Tables} {p : DescrPart} (h : partNonRemoving p = true) :
    Keeps (·.dh) (·.sv) t.states (applyPart t p).states ∧ Keeps (·.h) (·.sv) t.cstates (applyPart t p).cstates := by
  unfold partNonRemoving at h
  unfold applyPart
  split
  · exact ⟨keeps_gatedPutAll _ _ _ _ _, keeps_gatedPutAll _ _ _ _ _⟩
  · rename_i hm
    have hk : (p.descr.kind == Kind.context) = false := by simpa [hm] using h
    simp only [hk]
    exact ⟨keeps_gatedPutAll _ _ _ _ _, keeps_gatedPutAll _ _ _ _ _⟩
  · rename_i hm; simp [hm] at h

theorem applyParts_keeps {ps : List DescrPart} {t : Tables} (h : ps.all partNonRemoving = true) :
    Keeps (·.dh) (·.sv) t.states (applyParts t ps).states ∧ Keeps (·.h) (·.sv) t.cstates (applyParts t ps).cstates := by
  unfold applyParts
  induction ps generalizing t with
  | nil => exact ⟨Keeps.refl _ _ _, Keeps.refl _ _ _⟩
  | cons p ps ih =>
    simp only [List.all_cons, Bool.and_eq_true] at h
    have h1 := applyPart_keeps (t := t) h.1
    have h2 := ih (t := applyPart t p) h.2
    exact ⟨h1.1.trans h2.1, h1.2.trans h2.2⟩

theorem applyReport_keeps {c : Core} {r : Report} (h : nonRemoving r = true) :
    Keeps (·.dh) (·.sv) c.tabs.states (applyReport c r).1.tabs.states ∧
    Keeps (·.h) (·.sv) c.tabs.cstates (applyReport c r).1.tabs.cstates := by
  unfold applyReport
  split
  · split
    · exact ⟨Keeps.refl _ _ _, keeps_gatedPutAll _ _ _ _ _⟩
    · rename_i hk
      unfold nonRemoving at h
      simp [hk] at h
      exact applyParts_keeps (by simpa using h)
    · exact ⟨keeps_gatedPutAll _ _ _ _ _, Keeps.refl _ _ _⟩
  · exact ⟨Keeps.refl _ _ _, Keeps.refl _ _ _⟩

/-! ### replay of the buffer, steps, runs -/

theorem applyReport_seq {c : Core} {r : Report} (h : r.vg.seq = c.vg.seq) : (applyReport c r).1.vg.seq = c.vg.seq := by
  rw [applyReport_vg]; split <;> simp [h]

theorem replay_eq_applyAll (v0 : Nat) (rs : List Report) (c : Core) :
    replay v0 c rs = applyAll c (rs.filter (replayable v0 c.vg.seq)) := by
  induction rs generalizing c with
  | nil => rfl
  | cons r rs ih =>
    unfold replay
    by_cases h1 : r.vg.seq = c.vg.seq
    · by_cases h2 : r.vg.ver ≤ v0
      · have : replayable v0 c.vg.seq r = false := by unfold replayable; simp; intro _; omega
        simp only [h1, bne_self_eq_false, Bool.false_eq_true, if_false, h2, if_true, List.filter_cons, this]
        exact ih c
      · have : replayable v0 c.vg.seq r = true := by unfold replayable; simp [h1]; omega
        simp only [h1, bne_self_eq_false, Bool.false_eq_true, if_false, h2, List.filter_cons, this, if_true]
        rw [ih, applyReport_seq h1]
        rfl
    · have : replayable v0 c.vg.seq r = false := by unfold replayable; simp [h1]
      have hne : (r.vg.seq != c.vg.seq) = true := by simp [h1]
      simp only [hne, if_true, List.filter_cons, this, Bool.false_eq_true, if_false]
      exact ih c

theorem applyAll_wf (rs : List Report) {c : Core} (w : c.tabs.Wf) : (applyAll c rs).1.tabs.Wf := by
  induction rs generalizing c with
  | nil => exact w
  | cons r rs ih => exact ih (applyReport_wf r w)

theorem applyAll_ver_le (rs : List Report) (c : Core) : c.vg.ver ≤ (applyAll c rs).1.vg.ver := by
  induction rs generalizing c with
  | nil => exact Nat.le_refl _
  | cons r rs ih => exact Nat.le_trans (applyReport_ver_le c r) (ih _)

theorem applyAll_states_origin {rs : List Report} {c : Core} {x : SState} (h : x ∈ (applyAll c rs).1.tabs.states) :
    x ∈ c.tabs.states ∨ ∃ r ∈ rs, x ∈ allStates r := by
  induction rs generalizing c with
  | nil => exact Or.inl h
  | cons r rs ih =>
    rcases ih h with h1 | ⟨q, hq, hx⟩
    · rcases applyReport_states_origin h1 with h2 | h2
      · exact Or.inl h2
      · exact Or.inr ⟨r, by simp, h2⟩
    · exact Or.inr ⟨q, by simp [hq], hx⟩

theorem applyAll_cstates_origin {rs : List Report} {c : Core} {x : CState} (h : x ∈ (applyAll c rs).1.tabs.cstates) :
    x ∈ c.tabs.cstates ∨ ∃ r ∈ rs, x ∈ allCStates r := by
  induction rs generalizing c with
  | nil => exact Or.inl h
  | cons r rs ih =>
    rcases ih h with h1 | ⟨q, hq, hx⟩
    · rcases applyReport_cstates_origin h1 with h2 | h2
      · exact Or.inl h2
      · exact Or.inr ⟨r, by simp, h2⟩
    · exact Or.inr ⟨q, by simp [hq], hx⟩

theorem applyAll_keeps {rs : List Report} {c : Core} (h : ∀ r ∈ rs, nonRemoving r = true) :
    Keeps (·.dh) (·.sv) c.tabs.states (applyAll c rs).1.tabs.states ∧
    Keeps (·.h) (·.sv) c.tabs.cstates (applyAll c rs).1.tabs.cstates := by
  induction rs generalizing c with
  | nil => exact ⟨Keeps.refl _ _ _, Keeps.refl _ _ _⟩
  | cons r rs ih =>
    have h1 := applyReport_keeps (c := c) (h r (by simp))
    have h2 := ih (c := (applyReport c r).1) (fun q hq => h q (by simp [hq]))
    exact ⟨h1.1.trans h2.1, h1.2.trans h2.2⟩

/-! #### one event -/

theorem snapshot_wf_iff (s : Snapshot) (ctx2 : List CState) :
    s.wf ctx2 = true ↔ (s.descrs.map (·.handle)).Nodup ∧ (s.states.map (·.dh)).Nodup ∧ (s.cstates.map (·.h)).Nodup ∧
      (ctx2.map (·.h)).Nodup := by
  unfold Snapshot.wf
  simp only [Bool.and_eq_true, keysNodup_iff]
  constructor
  · rintro ⟨⟨⟨a, b⟩, c⟩, d⟩; exact ⟨a, b, c, d⟩
  · rintro ⟨a, b, c, d⟩; exact ⟨⟨⟨a, b⟩, c⟩, d⟩

theorem loadSnapshot_wf {s : Snapshot} {ctx2 : List CState} (h : s.wf ctx2 = true) : (loadSnapshot s ctx2).tabs.Wf := by
  rw [snapshot_wf_iff] at h
  unfold loadSnapshot
  refine ⟨h.1, h.2.1, ?_⟩
  simp only
  split
  · exact h.2.2.2
  · exact h.2.2.1

/-- `step` on a report, by the state of the consumer -/
theorem step_report_invalid {s : St} (r : Report) (h : s.mode = .invalid) : step s (.report r) = (s, []) := by
  unfold step
  simp [h]

theorem step_report_initializing {s : St} (r : Report) (h : s.mode = .initializing) :
    step s (.report r) = ({ s with buf := s.buf ++ [r] }, []) := by
  unfold step
  simp [h]

theorem step_report_changed {s : St} (r : Report) (h : s.mode = .initialized) (hd : idsDiffer s.core r = true) :
    step s (.report r) = ({ s with mode := .invalid }, [{ kind := r.kind, idChanged := true }]) := by
  unfold step
  simp [h, hd]

theorem step_report_ok {s : St} (r : Report) (h : s.mode = .initialized) (hd : idsDiffer s.core r = false) :
    step s (.report r) = ({ s with core := (applyReport s.core r).1 }, [(applyReport s.core r).2]) := by
  unfold step
  simp [h, hd]

theorem step_reloadEnd {s : St} (snap : Snapshot) (ctx2 : List CState) (h : s.mode = .initializing)
    (hw : snap.wf ctx2 = true) :
    step s (.reloadEnd snap ctx2) =
      (⟨.initialized, (replay snap.vg.ver (loadSnapshot snap ctx2) s.buf).1, []⟩,
       (replay snap.vg.ver (loadSnapshot snap ctx2) s.buf).2) := by
  unfold step
  simp [h, hw, loadSnapshot]

/-- the four cases of a report event -/
theorem step_report_cases (s : St) (r : Report) :
    (s.mode = .invalid ∧ step s (.report r) = (s, [])) ∨
    (s.mode = .initializing ∧ step s (.report r) = ({ s with buf := s.buf ++ [r] }, [])) ∨
    (s.mode = .initialized ∧ idsDiffer s.core r = true ∧
      step s (.report r) = ({ s with mode := .invalid }, [{ kind := r.kind, idChanged := true }])) ∨
    (s.mode = .initialized ∧ idsDiffer s.core r = false ∧
      step s (.report r) = ({ s with core := (applyReport s.core r).1 }, [(applyReport s.core r).2])) := by
  have hmode : s.mode = .invalid ∨ s.mode = .initializing ∨ s.mode = .initialized := by cases s.mode <;> simp
  rcases hmode with hm | hm | hm
  · exact Or.inl ⟨hm, step_report_invalid r hm⟩
  · exact Or.inr (Or.inl ⟨hm, step_report_initializing r hm⟩)
  · cases hd : idsDiffer s.core r
    · exact Or.inr (Or.inr (Or.inr ⟨hm, rfl, step_report_ok r hm hd⟩))
    · exact Or.inr (Or.inr (Or.inl ⟨hm, rfl, step_report_changed r hm hd⟩))

theorem step_wf {s : St} (e : Event) (w : s.core.tabs.Wf) : (step s e).1.core.tabs.Wf := by
  cases e with
  | report r =>
    rcases step_report_cases s r with ⟨_, h⟩ | ⟨_, h⟩ | ⟨_, _, h⟩ | ⟨_, _, h⟩ <;> rw [h]
    · exact w
    · exact w
    · exact w
    · exact applyReport_wf r w
  | reloadBegin => exact ⟨List.nodup_nil, List.nodup_nil, List.nodup_nil⟩
  | reloadEnd snap ctx2 =>
    by_cases hm : s.mode = .initializing
    · by_cases hw : snap.wf ctx2 = true
      · rw [step_reloadEnd snap ctx2 hm hw, replay_eq_applyAll]
        exact applyAll_wf _ (loadSnapshot_wf hw)
      · unfold step; simp [hm, hw]; exact w
    · unfold step; simp [hm]; exact w

theorem run_nil (s : St) : run s [] = s := rfl
theorem run_cons (s : St) (e : Event) (evs : List Event) : run s (e :: evs) = run (step s e).1 evs := rfl

theorem run_append (s : St) (e1 e2 : List Event) : run s (e1 ++ e2) = run (run s e1) e2 := by
  unfold run; rw [List.foldl_append]

theorem run_wf (evs : List Event) {s : St} (w : s.core.tabs.Wf) : (run s evs).core.tabs.Wf := by
  induction evs generalizing s with
  | nil => exact w
  | cons e evs ih => rw [run_cons]; exact ih (step_wf e w)

/-! ### invariants over arbitrary event lists -/

/-- every single state in the tables or in the buffer satisfies `P` -/
def StatesFrom (P : SState → Prop) (s : St) : Prop :=
  (∀ x ∈ s.core.tabs.states, P x) ∧ (∀ r ∈ s.buf, ∀ x ∈ allStates r, P x)

def CStatesFrom (P : CState → Prop) (s : St) : Prop :=
  (∀ x ∈ s.core.tabs.cstates, P x) ∧ (∀ r ∈ s.buf, ∀ x ∈ allCStates r, P x)

theorem step_statesFrom {P : SState → Prop} {s : St} (e : Event) (hs : StatesFrom P s) (he : ∀ x ∈ eventStates e, P x) :
    StatesFrom P (step s e).1 := by
  cases e with
  | report r =>
    rcases step_report_cases s r with ⟨_, h⟩ | ⟨_, h⟩ | ⟨_, _, h⟩ | ⟨_, _, h⟩ <;> rw [h]
    · exact hs
    · refine ⟨hs.1, ?_⟩
      intro q hq x hx
      rcases List.mem_append.mp hq with h1 | h1
      · exact hs.2 q h1 x hx
      · simp only [List.mem_singleton] at h1; subst h1; exact he x hx
    · exact hs
    · refine ⟨?_, hs.2⟩
      intro x hx
      rcases applyReport_states_origin hx with h1 | h1
      · exact hs.1 x h1
      · exact he x h1
  | reloadBegin => exact And.intro (fun x hx => nomatch hx) hs.2
  | reloadEnd snap ctx2 =>
    by_cases hm : s.mode = .initializing
    · by_cases hw : snap.wf ctx2 = true
      · rw [step_reloadEnd snap ctx2 hm hw, replay_eq_applyAll]
        refine ⟨?_, by intro r hr; cases hr⟩
        intro x hx
        rcases applyAll_states_origin hx with h1 | ⟨q, hq, hx⟩
        · exact he x h1
        · exact hs.2 q (List.mem_filter.mp hq).1 x hx
      · unfold step; simp [hm, hw]; exact hs
    · unfold step; simp [hm]; exact hs

theorem step_cstatesFrom {P : CState → Prop} {s : St} (e : Event) (hs : CStatesFrom P s) (he : ∀ x ∈ eventCStates e, P x) :
    CStatesFrom P (step s e).1 := by
  cases e with
  | report r =>
    rcases step_report_cases s r with ⟨_, h⟩ | ⟨_, h⟩ | ⟨_, _, h⟩ | ⟨_, _, h⟩ <;> rw [h]
    · exact hs
    · refine ⟨hs.1, ?_⟩
      intro q hq x hx
      rcases List.mem_append.mp hq with h1 | h1
      · exact hs.2 q h1 x hx
      · simp only [List.mem_singleton] at h1; subst h1; exact he x hx
    · exact hs
    · refine ⟨?_, hs.2⟩
      intro x hx
      rcases applyReport_cstates_origin hx with h1 | h1
      · exact hs.1 x h1
      · exact he x h1
  | reloadBegin => exact And.intro (fun x hx => nomatch hx) hs.2
  | reloadEnd snap ctx2 =>
    by_cases hm : s.mode = .initializing
    · by_cases hw : snap.wf ctx2 = true
      · rw [step_reloadEnd snap ctx2 hm hw, replay_eq_applyAll]
        refine ⟨?_, by intro r hr; cases hr⟩
        intro x hx
        rcases applyAll_cstates_origin hx with h1 | ⟨q, hq, hx⟩
        · apply he x
          unfold loadSnapshot at h1
          simp only [eventCStates] at h1 ⊢
          split at h1
          · exact List.mem_append_right _ h1
          · exact List.mem_append_left _ h1
        · exact hs.2 q (List.mem_filter.mp hq).1 x hx
      · unfold step; simp [hm, hw]; exact hs
    · unfold step; simp [hm]; exact hs

theorem run_statesFrom {P : SState → Prop} (evs : List Event) {s : St} (hs : StatesFrom P s)
    (he : ∀ e ∈ evs, ∀ x ∈ eventStates e, P x) : StatesFrom P (run s evs) := by
  induction evs generalizing s with
  | nil => exact hs
  | cons e evs ih =>
    rw [run_cons]
    exact ih (step_statesFrom e hs (he e (by simp))) (fun e' h' => he e' (by simp [h']))

theorem run_cstatesFrom {P : CState → Prop} (evs : List Event) {s : St} (hs : CStatesFrom P s)
    (he : ∀ e ∈ evs, ∀ x ∈ eventCStates e, P x) : CStatesFrom P (run s evs) := by
  induction evs generalizing s with
  | nil => exact hs
  | cons e evs ih =>
    rw [run_cons]
    exact ih (step_cstatesFrom e hs (he e (by simp))) (fun e' h' => he e' (by simp [h']))

/-! #### report events only -/

theorem step_report_ver_le (s : St) (r : Report) : s.core.vg.ver ≤ (step s (.report r)).1.core.vg.ver := by
  rcases step_report_cases s r with ⟨_, h⟩ | ⟨_, h⟩ | ⟨_, _, h⟩ | ⟨_, _, h⟩ <;> rw [h]
  · exact Nat.le_refl _
  · exact Nat.le_refl _
  · exact Nat.le_refl _
  · exact applyReport_ver_le _ _

theorem step_report_keeps {s : St} {r : Report} (hr : nonRemoving r = true) :
    Keeps (·.dh) (·.sv) s.core.tabs.states (step s (.report r)).1.core.tabs.states ∧
    Keeps (·.h) (·.sv) s.core.tabs.cstates (step s (.report r)).1.core.tabs.cstates := by
  rcases step_report_cases s r with ⟨_, h⟩ | ⟨_, h⟩ | ⟨_, _, h⟩ | ⟨_, _, h⟩ <;> rw [h]
  · exact ⟨Keeps.refl _ _ _, Keeps.refl _ _ _⟩
  · exact ⟨Keeps.refl _ _ _, Keeps.refl _ _ _⟩
  · exact ⟨Keeps.refl _ _ _, Keeps.refl _ _ _⟩
  · exact applyReport_keeps hr

theorem run_reports_ver_le (rs : List Report) (s : St) : s.core.vg.ver ≤ (run s (rs.map .report)).core.vg.ver := by
  induction rs generalizing s with
  | nil => exact Nat.le_refl _
  | cons r rs ih => rw [List.map_cons, run_cons]; exact Nat.le_trans (step_report_ver_le s r) (ih _)

theorem run_reports_keeps {rs : List Report} {s : St} (h : ∀ r ∈ rs, nonRemoving r = true) :
    Keeps (·.dh) (·.sv) s.core.tabs.states (run s (rs.map .report)).core.tabs.states ∧
    Keeps (·.h) (·.sv) s.core.tabs.cstates (run s (rs.map .report)).core.tabs.cstates := by
  induction rs generalizing s with
  | nil => exact ⟨Keeps.refl _ _ _, Keeps.refl _ _ _⟩
  | cons r rs ih =>
    rw [List.map_cons, run_cons]
    have h1 := step_report_keeps (s := s) (h r (by simp))
    have h2 := ih (s := (step s (.report r)).1) (fun q hq => h q (by simp [hq]))
    exact ⟨h1.1.trans h2.1, h1.2.trans h2.2⟩

theorem run_reports_invalid {rs : List Report} {s : St} (h : s.mode = .invalid) : run s (rs.map .report) = s := by
  induction rs with
  | nil => rfl
  | cons r rs ih => rw [List.map_cons, run_cons, step_report_invalid r h]; exact ih

theorem run_reports_initializing {rs : List Report} {s : St} (h : s.mode = .initializing) :
    run s (rs.map .report) = { s with buf := s.buf ++ rs } := by
  induction rs generalizing s with
  | nil => simp [run_nil]
  | cons r rs ih =>
    rw [List.map_cons, run_cons, step_report_initializing r h]
    rw [ih (s := { s with buf := s.buf ++ [r] }) h]
    simp

/-! ### duplicates -/

theorem Covered.keeps {α : Type} {key sv : α → Nat} {l l' : List α} {x : α} (h : Covered key sv l x)
    (hk : Keeps key sv l l') : Covered key sv l' x := by
  obtain ⟨a, ha, hle⟩ := h
  obtain ⟨b, hb, hab⟩ := hk _ a ha
  exact ⟨b, hb, by omega⟩

/-- UPDATE parts: an entry that is missing or covered leaves the table as it is -/
theorem gatedPutAll_noop_update {α : Type} (key sv : α → Nat) {xs l : List α}
    (h : ∀ x ∈ xs, lookupBy key l (key x) = none ∨ Covered key sv l x) :
    gatedPutAll key sv false l xs = (l, []) := by
  induction xs with
  | nil => rfl
  | cons x xs ih =>
    have hx : gatedPut key sv false l x = (l, false) := by
      rcases h x (by simp) with h1 | h1
      · unfold gatedPut; rw [h1]; simp
      · exact gatedPut_of_covered key sv h1
    rw [gatedPutAll_cons, hx]
    simp only [Bool.false_eq_true, if_false]
    rw [ih (fun y hy => h y (by simp [hy]))]

theorem applyReport_of_covered {c : Core} {r : Report} (hk : r.kind ≠ .description) (h : StatesCovered c r) :
    (applyReport c r).1.tabs = c.tabs ∧ (applyReport c r).2 = { kind := r.kind } := by
  unfold StatesCovered at h
  unfold applyReport
  split
  · split
    · rename_i hkc
      simp only [hkc, if_true] at h
      rw [gatedPutAll_of_covered _ _ h]
      exact ⟨rfl, by rw [hkc]⟩
    · rename_i hkd; exact absurd hkd hk
    · rename_i hnc _
      have : ¬ r.kind = .context := fun e => hnc e
      simp only [this, if_false] at h
      rw [gatedPutAll_of_covered _ _ h]
      exact ⟨rfl, rfl⟩
  · exact ⟨rfl, rfl⟩

theorem applyReport_covers {c : Core} {r : Report} (hk : r.kind ≠ .description) (hv : c.vg.ver ≤ r.vg.ver) :
    StatesCovered (applyReport c r).1 r := by
  have hacc := (canAccept_iff c r).2 hv
  unfold StatesCovered
  by_cases hkc : r.kind = .context
  · simp only [hkc, if_true]
    have : (applyReport c r).1.tabs.cstates = (gatedPutAll (·.h) (·.sv) true c.tabs.cstates r.cstates).1 := by
      unfold applyReport; rw [hacc]; simp only [if_true, hkc]
    rw [this]
    exact gatedPutAll_covers _ _ _ _
  · simp only [hkc, if_false]
    have : (applyReport c r).1.tabs.states = (gatedPutAll (·.dh) (·.sv) true c.tabs.states r.states).1 := by
      unfold applyReport; rw [hacc]; simp only [if_true]
      all_goals (cases hkk : r.kind <;> simp_all)
    rw [this]
    exact gatedPutAll_covers _ _ _ _

theorem StatesCovered.keeps {c c' : Core} {r : Report} (h : StatesCovered c r)
    (h1 : Keeps (·.dh) (·.sv) c.tabs.states c'.tabs.states) (h2 : Keeps (·.h) (·.sv) c.tabs.cstates c'.tabs.cstates) :
    StatesCovered c' r := by
  unfold StatesCovered at h ⊢
  split
  · rename_i hk; simp only [hk, if_true] at h; exact fun x hx => (h x hx).keeps h2
  · rename_i hk; simp only [hk, if_false] at h; exact fun x hx => (h x hx).keeps h1

/-! #### description modification reports -/

theorem applyPart_of_settled {t : Tables} {p : DescrPart} (w : t.Wf) (h : partSettled t p) : applyPart t p = t := by
  unfold partSettled at h
  unfold applyPart
  split
  · rename_i hm
    simp only [hm] at h
    obtain ⟨hd, hs, hc⟩ := h
    have e1 : createDescr t.descrs p.descr = t.descrs := by
      unfold createDescr; rw [hd]; exact replaceBy_self_of_lookup _ w.d hd
    rw [e1, gatedPutAll_of_covered _ _ hs, gatedPutAll_of_covered _ _ hc]
  · rename_i hm
    simp only [hm] at h
    obtain ⟨hd, hf, hs, hc⟩ := h
    have e1 : updateDescr t.descrs p.descr = t.descrs := by
      unfold updateDescr
      split
      · rename_i old ho
        have := hd old ho
        have ho' : lookupBy (·.handle) t.descrs ({ p.descr with parent := old.parent, mds := old.mds } : Descr).handle
            = some { p.descr with parent := old.parent, mds := old.mds } := by
          have hh := (lookupBy_some_mem _ ho).2
          rw [← this, hh]; exact ho
        exact replaceBy_self_of_lookup _ w.d ho'
      · rfl
    have e2 : (if p.descr.kind == Kind.context
        then t.cstates.filter (fun s => !(s.dh == p.descr.handle &&
          !((p.cstates.filter (fun s => s.dh == p.descr.handle)).map (·.h)).contains s.h))
        else t.cstates) = t.cstates := by
      split
      · rename_i hk
        have hk' : p.descr.kind = Kind.context := by simpa using hk
        apply List.filter_eq_self.mpr
        intro s hs'
        by_cases hdh : s.dh = p.descr.handle
        · have := hf hk' s hs' hdh
          simp [hdh, List.contains_iff_mem, this]
        · simp [hdh]
      · rfl
    rw [e1]
    simp only at e2 ⊢
    rw [e2, gatedPutAll_noop_update _ _ hs, gatedPutAll_noop_update _ _ hc]
  · rename_i hm
    simp only [hm] at h
    unfold rmDescriptor
    rw [h]

theorem applyParts_of_settled {ps : List DescrPart} {t : Tables} (w : t.Wf) (h : ∀ p ∈ ps, partSettled t p) :
    applyParts t ps = t := by
  unfold applyParts
  induction ps with
  | nil => rfl
  | cons p ps ih =>
    rw [List.foldl_cons, applyPart_of_settled w (h p (by simp))]
    exact ih (fun q hq => h q (by simp [hq]))

/-! ### reports drawn from a coherent pool -/

theorem applyReport_coherent {pool : List Source} {c : Core} {r : Report} (hc : Coherent pool)
    (hr : Source.ofReport r ∈ pool) (hseq : r.vg.seq = c.vg.seq) (w : c.tabs.Wf) (hj : Justified pool c) :
    Mono (·.dh) (·.sv) c.tabs.states (applyReport c r).1.tabs.states ∧
    Mono (·.h) (·.sv) c.tabs.cstates (applyReport c r).1.tabs.cstates ∧
    Justified pool (applyReport c r).1 := by
  by_cases hv : c.vg.ver ≤ r.vg.ver
  · have hvg : (applyReport c r).1.vg = r.vg := by rw [applyReport_vg]; simp [hv]
    refine ⟨?_, ?_, ?_, ?_⟩
    · intro k a b ha hb
      have hbm := lookupBy_some_mem _ hb
      rcases applyReport_states_origin hbm.1 with h | h
      · have := lookupBy_of_mem_nodup (·.dh) w.s h
        rw [hbm.2, ha] at this
        cases this; exact Nat.le_refl _
      · have ham := lookupBy_some_mem _ ha
        obtain ⟨sa, hsa, hs1, hs2, hs3⟩ := hj.1 a ham.1
        exact (hc sa hsa _ hr (by rw [hs1]; exact hseq.symm) (Nat.le_trans hs2 hv)).1 a hs3 b h
          (by rw [ham.2, hbm.2])
    · intro k a b ha hb
      have hbm := lookupBy_some_mem _ hb
      rcases applyReport_cstates_origin hbm.1 with h | h
      · have := lookupBy_of_mem_nodup (·.h) w.c h
        rw [hbm.2, ha] at this
        cases this; exact Nat.le_refl _
      · have ham := lookupBy_some_mem _ ha
        obtain ⟨sa, hsa, hs1, hs2, hs3⟩ := hj.2 a ham.1
        exact (hc sa hsa _ hr (by rw [hs1]; exact hseq.symm) (Nat.le_trans hs2 hv)).2 a hs3 b h
          (by rw [ham.2, hbm.2])
    · intro x hx
      rw [hvg]
      rcases applyReport_states_origin hx with h | h
      · obtain ⟨sa, hsa, hs1, hs2, hs3⟩ := hj.1 x h
        exact ⟨sa, hsa, by rw [hs1, hseq], Nat.le_trans hs2 hv, hs3⟩
      · exact ⟨_, hr, rfl, Nat.le_refl _, h⟩
    · intro x hx
      rw [hvg]
      rcases applyReport_cstates_origin hx with h | h
      · obtain ⟨sa, hsa, hs1, hs2, hs3⟩ := hj.2 x h
        exact ⟨sa, hsa, by rw [hs1, hseq], Nat.le_trans hs2 hv, hs3⟩
      · exact ⟨_, hr, rfl, Nat.le_refl _, h⟩
  · have : applyReport c r = (c, { kind := r.kind }) := applyReport_stale (by omega)
    rw [this]
    exact ⟨fun k a b ha hb => by rw [ha] at hb; cases hb; exact Nat.le_refl _,
      fun k a b ha hb => by rw [ha] at hb; cases hb; exact Nat.le_refl _, hj⟩

theorem applyAll_justified {pool : List Source} (hcoh : Coherent pool) (q : Nat) :
    ∀ (rs : List Report) (c : Core), Justified pool c → c.tabs.Wf → c.vg.seq = q →
      (∀ r ∈ rs, Source.ofReport r ∈ pool ∧ r.vg.seq = q) → Justified pool (applyAll c rs).1
  | [], _, hj, _, _, _ => hj
  | r :: rs, c, hj, hw, hseq, hsub => by
    have h1 := hsub r (by simp)
    have := applyReport_coherent hcoh h1.1 (by rw [h1.2, hseq]) hw hj
    exact applyAll_justified hcoh q rs (applyReport c r).1 this.2.2 (applyReport_wf r hw)
      (by rw [applyReport_seq (by rw [h1.2, hseq]), hseq]) (fun x hx => hsub x (by simp [hx]))

end Sdc.Consumer
