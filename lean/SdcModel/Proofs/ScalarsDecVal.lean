import SdcModel.Proofs.ScalarsDec
import Mathlib.Tactic.Linarith
import Mathlib.Tactic.NormNum
import Mathlib.Tactic.Ring
import Mathlib.Tactic.FieldSimp
import Mathlib.Data.Rat.Defs
import Mathlib.Algebra.Order.Field.Power
/-! numeric value of a `Decimal`; `to_py (to_xml d)` has the value of `d` -/
namespace Sdc.Scalars

/-- `(-1)^neg · coeff · 10^exp` -/
def Dec.value (d : Dec) : ℚ := (if d.neg then -1 else 1) * (d.coeff : ℚ) * (10:ℚ) ^ d.exp

/-- only ASCII digits, `-` and `.`: in particular no exponent marker -/
def Plain (s : Str) : Prop := ∀ c ∈ s, isDigit c = true ∨ c = 45 ∨ c = 46

theorem plain_sg (neg : Bool) : Plain (sg neg) := by
  intro c hc; cases neg <;> simp [sg] at hc; subst hc; exact Or.inr (Or.inl rfl)

theorem plain_digits (l : Str) (h : ∀ c ∈ l, isDigit c = true) : Plain l := fun c hc => Or.inl (h c hc)

theorem plain_append (a b : Str) (ha : Plain a) (hb : Plain b) : Plain (a ++ b) := by
  intro c hc; rw [List.mem_append] at hc; rcases hc with h | h
  · exact ha c h
  · exact hb c h

theorem decToXml_nonneg_exp (d : Dec) (h : 0 ≤ d.exp) :
    ∃ body, decToXml d = sg d.neg ++ body ∧ body ≠ [] ∧ (∀ c ∈ body, isDigit c = true) ∧
      digitsVal body = d.coeff * 10 ^ d.exp.toNat := by
  have hd := natStr_digits d.coeff
  by_cases h0 : d.coeff = 0
  · refine ⟨[48], ?_, by simp, by intro c hc; simp at hc; subst hc; rfl, by simp [h0, digitsVal, digitVal]⟩
    have hf : decFormatF d = sg d.neg ++ [48] := by unfold decFormatF sg; simp [h, h0]
    unfold decToXml; rw [hf]
    exact limitDigits_no_dot _ (sg_no_dot _ _ (by intro c hc; simp at hc; subst hc; rfl))
  · have hb : ∀ c ∈ natStr d.coeff ++ List.replicate d.exp.toNat 48, isDigit c = true := by
      intro c hc; rw [List.mem_append] at hc
      rcases hc with hc | hc
      · exact hd c hc
      · rw [List.mem_replicate] at hc; rw [hc.2]; rfl
    refine ⟨natStr d.coeff ++ List.replicate d.exp.toNat 48, ?_, ?_, hb, ?_⟩
    · have hf : decFormatF d = sg d.neg ++ (natStr d.coeff ++ List.replicate d.exp.toNat 48) := by
        unfold decFormatF sg; simp [h, h0]
      unfold decToXml; rw [hf]
      exact limitDigits_no_dot _ (sg_no_dot _ _ hb)
    · intro hnil
      have := natStr_ne_nil d.coeff
      simp at hnil; exact this hnil.1
    · rw [digitsVal_append_zeros, digitsVal_natStr]

/-- Python → XML → Python keeps the numeric value of every Decimal with at most 18 digits and exponent ≥ -18;
    only digits, `-`, `.` are written -/
theorem decToPy_decToXml (d : Dec) (hc : d.coeff < 10 ^ 18) (he : -18 ≤ d.exp) :
    ∃ d', decToPy (decToXml d) = .ok d' ∧ d'.value = d.value ∧ d'.neg = d.neg ∧ Plain (decToXml d) := by
  rcases lt_or_ge d.exp 0 with hneg | hpos
  · obtain ⟨ip, fp, hf, hipne, hdi, hdf, hlen, hval, hcap⟩ := decFormatF_frac d hneg
    have hl18 : (natStr d.coeff).length ≤ 18 := natStr_length_le _ _ (by norm_num) hc
    have hk18 : (-d.exp).toNat ≤ 18 := by omega
    have hfpne : fp ≠ [] := by
      intro h0; rw [h0] at hlen; simp at hlen; omega
    have hx : decToXml d = sg d.neg ++ ip ++ (if rstrip0 fp = [] then [] else 46 :: rstrip0 fp) := by
      unfold decToXml; rw [hf]
      exact limitDigits_spec _ fp (sg_no_dot _ _ hdi) hdf hfpne (by omega)
    have hdr := rstrip0_digits fp hdf
    obtain ⟨j, hj⟩ := rstrip0_spec fp
    refine ⟨⟨d.neg, digitsVal (ip ++ rstrip0 fp), -((rstrip0 fp).length : Int)⟩, ?_, ?_, rfl, ?_⟩
    · rw [hx]; exact decToPy_plain d.neg ip (rstrip0 fp) hipne hdi hdr
    · -- value
      have hco : d.coeff = digitsVal (ip ++ rstrip0 fp) * 10 ^ j := by
        rw [← hval]
        conv_lhs => rw [hj]
        rw [← List.append_assoc, digitsVal_append_zeros]
      have hexp : d.exp = -(((rstrip0 fp).length : Int) + j) := by
        have : fp.length = (rstrip0 fp).length + j := by
          conv_lhs => rw [hj]
          simp
        omega
      unfold Dec.value
      simp only
      rw [hco, hexp]
      have h10 : (10:ℚ) ≠ 0 := by norm_num
      push_cast
      rw [neg_add, zpow_add₀ h10, zpow_neg _ (j:ℤ), zpow_natCast]
      field_simp
    · rw [hx]
      apply plain_append
      · exact plain_append _ _ (plain_sg _) (plain_digits _ hdi)
      · split
        · intro c hc; cases hc
        · intro c hc
          simp only [List.mem_cons] at hc
          rcases hc with h | h
          · exact Or.inr (Or.inr h)
          · exact Or.inl (hdr c h)
  · obtain ⟨body, hx, hne, hd, hv⟩ := decToXml_nonneg_exp d hpos
    refine ⟨⟨d.neg, digitsVal (body ++ []), -(([] : Str).length : Int)⟩, ?_, ?_, rfl, ?_⟩
    · rw [hx]
      have := decToPy_plain d.neg body [] hne hd (by intro c hc; cases hc)
      simpa using this
    · unfold Dec.value
      simp only [List.append_nil, List.length_nil]
      rw [hv]
      obtain ⟨k, hk⟩ := Int.eq_ofNat_of_zero_le hpos
      rw [hk]; simp only [Int.toNat_natCast]
      push_cast
      rw [zpow_natCast]; simp
    · rw [hx]; exact plain_append _ _ (plain_sg _) (plain_digits _ hd)

end Sdc.Scalars
