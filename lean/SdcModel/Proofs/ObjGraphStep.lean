import SdcModel.Proofs.ObjGraphInv
/-!
Every operation of M2 `ObjGraph` preserves the separation invariant and leaves instances of other groups untouched.
-/
namespace Sdc.ObjGraph

/-- `s'` has the same instances as `s` (same positions, classes, groups, root identities) and those whose group does
    not satisfy `G` are literally unchanged -/
def Pres (G : Nat → Prop) (s s' : St) : Prop :=
  s.next ≤ s'.next ∧ s'.insts.length = s.insts.length ∧
  ∀ (m : Nat) (c : Inst), s.insts[m]? = some c → ∃ c' : Inst, s'.insts[m]? = some c' ∧ c'.grp = c.grp ∧ c'.cls = c.cls ∧
    rootId c'.tree = rootId c.tree ∧ (¬ G c.grp → c' = c)

theorem Pres.refl (G : Nat → Prop) (s : St) : Pres G s s :=
  ⟨Nat.le_refl _, rfl, fun _ c h => ⟨c, h, rfl, rfl, rfl, fun _ => rfl⟩⟩

theorem Pres.trans {G : Nat → Prop} {s s' s'' : St} (h1 : Pres G s s') (h2 : Pres G s' s'') : Pres G s s'' := by
  refine ⟨Nat.le_trans h1.1 h2.1, h2.2.1.trans h1.2.1, fun m c hc => ?_⟩
  obtain ⟨c', hc', g1, k1, r1, e1⟩ := h1.2.2 m c hc
  obtain ⟨c'', hc'', g2, k2, r2, e2⟩ := h2.2.2 m c' hc'
  refine ⟨c'', hc'', g2.trans g1, k2.trans k1, r2.trans r1, fun hne => ?_⟩
  have := e1 hne
  subst this
  exact e2 hne

theorem Pres.mono {G G' : Nat → Prop} {s s' : St} (h : Pres G s s') (hG : ∀ g, G g → G' g) : Pres G' s s' :=
  ⟨h.1, h.2.1, fun m c hc => by
    obtain ⟨c', hc', g1, k1, r1, e1⟩ := h.2.2 m c hc
    exact ⟨c', hc', g1, k1, r1, fun hne => e1 (fun hg => hne (hG _ hg))⟩⟩

theorem mutate_pack {D : List Tree} {s : St} (hI : Inv D s) {a0 : Inst} (h0 : a0 ∈ s.insts) {tgt : Nat}
    (ht : tgt ∈ a0.tree.ids) (f : List Tree → List Tree) (P : Nat → Prop) (n' : Nat) (hn : s.next ≤ n')
    (hf : ∀ ks x, x ∈ idsL (f ks) → x ∈ idsL ks ∨ P x)
    (hP : ∀ x, P x → (s.next ≤ x ∧ x < n') ∨ ∃ b ∈ s.insts, b.grp = a0.grp ∧ x ∈ b.tree.ids) :
    Inv D { mutate s tgt f with next := n' } ∧ Pres (· = a0.grp) s { mutate s tgt f with next := n' } := by
  refine ⟨inv_mutate hI h0 ht f P n' hn hf hP, hn, by simp [mutate], fun m c hc => ?_⟩
  refine ⟨{ c with tree := c.tree.mapNode tgt f }, ?_, rfl, rfl, rootId_mapNode .., fun hne => ?_⟩
  · simp only [mutate, List.getElem?_map, hc, Option.map_some]
  · have := (mutate_tree hI h0 ht f P hf (List.mem_of_getElem? hc)).1 hne
    cases c; simp_all

theorem copyVal_le (deep : Bool) (n : Nat) (v : Tree) : n ≤ (copyVal deep n v).2 := by
  cases v with
  | imm w => simp [copyVal]
  | obj r ks =>
    simp only [copyVal]
    split
    · exact fresh_le ..
    · simp

theorem copyVal_ids (deep : Bool) (n : Nat) (v : Tree) (x : Nat) (h : x ∈ (copyVal deep n v).1.ids) :
    (n ≤ x ∧ x < (copyVal deep n v).2) ∨ x ∈ v.ids := by
  cases v with
  | imm w => simp [copyVal, Tree.ids] at h
  | obj r ks =>
    simp only [copyVal] at h ⊢
    split at h
    · rename_i hd; simp only [hd, if_true]; exact Or.inl (fresh_ids _ _ _ h)
    · rename_i hd
      simp only [hd]
      simp only [Tree.ids, List.mem_cons] at h ⊢
      rcases h with h | h
      · left; simp; omega
      · exact Or.inr (Or.inr h)

theorem getD_ids {ks : List Tree} {k x : Nat} (h : x ∈ (ks.getD k (.imm 0)).ids) : x ∈ idsL ks := by
  rw [List.getD_eq_getElem?_getD] at h
  cases hk : ks[k]? with
  | none => simp [hk, Tree.ids] at h
  | some c => simp [hk] at h; exact mem_idsL.mpr ⟨c, List.mem_of_getElem? hk, h⟩

theorem copyVal_deep_ids (n : Nat) (v : Tree) (x : Nat) (h : x ∈ (copyVal true n v).1.ids) :
    n ≤ x ∧ x < (copyVal true n v).2 := by
  cases v with
  | imm w => simp [copyVal, Tree.ids] at h
  | obj r ks => simp only [copyVal, if_true] at h ⊢; exact fresh_ids _ _ _ h

theorem getProp_pack {D : List Tree} {s : St} (hI : Inv D s) {j rb Gb : Nat} {b : Inst}
    (hj : s.insts[j]? = some b) (hgb : b.grp = Gb) (hrb : rootId b.tree = some rb) (k : Nat) (g : GetMode) (deep : Bool) :
    ∃ v s1, getProp s rb k ((kidsOf b.tree).getD k (.imm 0)) g = (v, s1) ∧
    Inv D s1 ∧ Pres (· = Gb) s s1 ∧ ∀ x, x ∈ (copyVal deep s1.next v).1.ids →
      (s1.next ≤ x ∧ x < (copyVal deep s1.next v).2) ∨
        (deep = false ∧ ∃ b' ∈ s1.insts, b'.grp = Gb ∧ x ∈ b'.tree.ids) := by
  have hbm := List.mem_of_getElem? hj
  have plain : Inv D s ∧ Pres (· = Gb) s s ∧ ∀ x, x ∈ (copyVal deep s.next ((kidsOf b.tree).getD k (.imm 0))).1.ids →
      (s.next ≤ x ∧ x < (copyVal deep s.next ((kidsOf b.tree).getD k (.imm 0))).2) ∨
        (deep = false ∧ ∃ b' ∈ s.insts, b'.grp = Gb ∧ x ∈ b'.tree.ids) := by
    refine ⟨hI, Pres.refl .., fun x hx => ?_⟩
    cases deep with
    | true => exact Or.inl (copyVal_deep_ids _ _ x hx)
    | false =>
      rcases copyVal_ids false s.next _ x hx with h | h
      · exact Or.inl h
      · exact Or.inr ⟨rfl, b, hbm, hgb, kids_ids (getD_ids h)⟩
  unfold getProp
  split
  · cases g with
    | plain => exact ⟨_, _, rfl, plain⟩
    | sharedImplied => exact ⟨_, _, rfl, plain⟩
    | implied w =>
      refine ⟨_, _, rfl, hI, Pres.refl .., fun x hx => ?_⟩
      simp [copyVal, Tree.ids] at hx
    | lazy =>
      have m1 := mutate_pack hI hbm (root_mem hrb) (fun ks => ks.set k (.obj s.next [])) (fun x => x = s.next)
        (s.next + 1) (by omega)
        (fun ks x hx => by
          rcases idsL_set hx with h | h
          · exact Or.inl h
          · simp [Tree.ids, idsL] at h; exact Or.inr h)
        (fun x hx => Or.inl (by omega))
      rw [hgb] at m1
      refine ⟨_, _, rfl, m1.1, m1.2, fun x hx => ?_⟩
      left
      cases deep <;> simp [copyVal, Tree.fresh, freshL, Tree.ids, idsL] at hx ⊢ <;> omega
  · exact ⟨_, _, rfl, plain⟩

/-- one property of `_update_from_other`; a shallow update needs the two instances to be in one group already -/
theorem updProp_pack {D : List Tree} {s : St} (hI : Inv D s) {i j ra rb Ga Gb : Nat} {a b : Inst}
    (hi : s.insts[i]? = some a) (hga : a.grp = Ga) (hra : rootId a.tree = some ra)
    (hj : s.insts[j]? = some b) (hgb : b.grp = Gb) (hrb : rootId b.tree = some rb)
    (deep : Bool) (hd : deep = false → Ga = Gb) (k : Nat) (g : GetMode) :
    Inv D (updProp deep s ra rb j k g) ∧ Pres (fun x => x = Ga ∨ x = Gb) s (updProp deep s ra rb j k g) := by
  unfold updProp
  simp only [hj]
  obtain ⟨v, s1, hq, q1, q2, q3⟩ := getProp_pack hI hj hgb hrb k g deep
  rw [hq]
  obtain ⟨a', ha', ga', _, ra', _⟩ := q2.2.2 i a hi
  have ham' := List.mem_of_getElem? ha'
  have m2 := mutate_pack q1 ham' (root_mem (ra'.trans hra))
    (fun ks => ks.set k (copyVal deep s1.next v).1) (fun x => x ∈ (copyVal deep s1.next v).1.ids)
    (copyVal deep s1.next v).2 (copyVal_le ..)
    (fun ks x hx => idsL_set hx)
    (fun x hx => by
      rcases q3 x hx with h | ⟨hdeep, b', hb', hg', hx'⟩
      · exact Or.inl h
      · exact Or.inr ⟨b', hb', by rw [hg', ga', hga, hd hdeep], hx'⟩)
  rw [ga', hga] at m2
  exact ⟨m2.1, (q2.mono (fun g h => Or.inr h)).trans (m2.2.mono (fun g h => Or.inl h))⟩

theorem updProps_pack {D : List Tree} {i j ra rb Ga Gb : Nat} (deep : Bool) (hd : deep = false → Ga = Gb)
    (skip : List Nat) :
    ∀ (ps : List PropE) (k : Nat) (s : St), Inv D s →
      (∃ a, s.insts[i]? = some a ∧ a.grp = Ga ∧ rootId a.tree = some ra) →
      (∃ b, s.insts[j]? = some b ∧ b.grp = Gb ∧ rootId b.tree = some rb) →
      Inv D (updProps deep ra rb j skip s k ps) ∧
        Pres (fun x => x = Ga ∨ x = Gb) s (updProps deep ra rb j skip s k ps)
  | [], k, s, hI, _, _ => ⟨hI, Pres.refl ..⟩
  | p :: ps, k, s, hI, ⟨a, hi, hga, hra⟩, ⟨b, hj, hgb, hrb⟩ => by
    simp only [updProps]
    have h1 : Inv D (if k ∈ skip then s else updProp deep s ra rb j k p.get) ∧
        Pres (fun x => x = Ga ∨ x = Gb) s (if k ∈ skip then s else updProp deep s ra rb j k p.get) := by
      split
      · exact ⟨hI, Pres.refl ..⟩
      · exact updProp_pack hI hi hga hra hj hgb hrb deep hd k p.get
    obtain ⟨a', ha', ga', _, ra', _⟩ := h1.2.2.2 i a hi
    obtain ⟨b', hb', gb', _, rb', _⟩ := h1.2.2.2 j b hj
    have h2 := updProps_pack deep hd skip ps (k+1) _ h1.1
      ⟨a', ha', ga'.trans hga, ra'.trans hra⟩ ⟨b', hb', gb'.trans hgb, rb'.trans hrb⟩
    exact ⟨h2.1, h1.2.trans h2.2⟩

theorem getElem?_append_some {α : Type} {l l' : List α} {k : Nat} {b : α} (h : l[k]? = some b) :
    (l ++ l')[k]? = some b := by
  have hk : k < l.length := by
    rcases Nat.lt_or_ge k l.length with hk | hk
    · exact hk
    · rw [List.getElem?_eq_none hk] at h; cases h
  rw [List.getElem?_append_left hk]; exact h

/-- the frame conclusion for operations that only add an instance -/
theorem frame_add (s : St) (e : Inst) (n : Nat) (k : Nat) (b : Inst) (hb : s.insts[k]? = some b) :
    ∃ b' : Inst, ({ s with insts := s.insts ++ [e], next := n } : St).insts[k]? = some b' ∧
      b'.tree = b.tree ∧ b'.cls = b.cls :=
  ⟨b, getElem?_append_some hb, rfl, rfl⟩

theorem frame_of_pres {G : Nat → Prop} {s s' : St} (hp : Pres G s s') (k : Nat) (b : Inst) (hb : s.insts[k]? = some b)
    (hne : ¬ G b.grp) : ∃ b' : Inst, s'.insts[k]? = some b' ∧ b'.tree = b.tree ∧ b'.cls = b.cls := by
  obtain ⟨c', hc', _, _, _, e⟩ := hp.2.2 k b hb
  have := e hne
  subst this
  exact ⟨c', hc', rfl, rfl⟩

theorem step_pack {T : Table} (hT : tableOK T = true) {D : List Tree} {s s' : St} {op : Op} (hI : Inv D s)
    (h : step T s op = some s') :
    Inv D s' ∧ ∀ (k : Nat) (b : Inst), s.insts[k]? = some b →
      (∀ i ∈ op.touched, ∀ a : Inst, s.insts[i]? = some a → a.grp ≠ b.grp) →
      ∃ b' : Inst, s'.insts[k]? = some b' ∧ b'.tree = b.tree ∧ b'.cls = b.cls := by
  cases op with
  | construct c =>
    simp only [step] at h
    split at h
    · rename_i t n hc
      simp only [Option.some.injEq] at h; subst h
      have hf := construct_fresh hT hc
      exact ⟨inv_add hI ⟨c, s.insts.length, t⟩ n hf.1 (Nat.le_refl _) (fun x hx => Or.inl (hf.2 x hx)),
        fun k b hb _ => frame_add s _ n k b hb⟩
    · cases h
  | parse c sh =>
    simp only [step] at h
    split at h
    · rename_i c' kids ce hce
      split at h
      · simp only [Option.some.injEq] at h; subst h
        have h1 := build_le T s.defaults s.next (.imm 0) 0 (.obj c kids)
        have h2 := build_ids T hT s.defaults s.next (.imm 0) rfl 0 (.obj c kids)
        exact ⟨inv_add hI ⟨c, s.insts.length, _⟩ _ h1 (Nat.le_refl _) (fun x hx => Or.inl (h2 x hx)),
          fun k b hb _ => frame_add s _ _ k b hb⟩
      · cases h
    · cases h
  | copy i =>
    simp only [step] at h
    split at h
    · rename_i c g r ks hi
      have him := List.mem_of_getElem? hi
      have hg : g < s.insts.length := hI.gLt _ him
      split at h
      · simp only [Option.some.injEq] at h; subst h
        have h1 := fresh_le (Tree.obj r ks) s.next
        have h2 := fresh_ids (Tree.obj r ks) s.next
        exact ⟨inv_add hI ⟨c, s.insts.length, _⟩ _ h1 (Nat.le_refl _) (fun x hx => Or.inl (h2 x hx)),
          fun k b hb _ => frame_add s _ _ k b hb⟩
      · simp only [Option.some.injEq] at h; subst h
        refine ⟨inv_add hI ⟨c, g, .obj s.next ks⟩ (s.next + 1) (by omega) (Nat.le_of_lt hg)
          (fun x hx => ?_), fun k b hb _ => frame_add s _ _ k b hb⟩
        simp only [Tree.ids, List.mem_cons] at hx
        rcases hx with hx | hx
        · left; omega
        · exact Or.inr ⟨_, him, rfl, by simp [Tree.ids, hx]⟩
    · cases h
  | deepcopy i =>
    simp only [step] at h
    split at h
    · rename_i a hi
      have him := List.mem_of_getElem? hi
      split at h
      · simp only [Option.some.injEq] at h; subst h
        have h1 := fresh_le a.tree s.next
        have h2 := fresh_ids a.tree s.next
        exact ⟨inv_add hI ⟨a.cls, s.insts.length, _⟩ _ h1 (Nat.le_refl _) (fun x hx => Or.inl (h2 x hx)),
          fun k b hb _ => frame_add s _ _ k b hb⟩
      · simp only [Option.some.injEq] at h; subst h
        exact ⟨inv_add hI a s.next (Nat.le_refl _) (Nat.le_of_lt (hI.gLt _ him))
          (fun x hx => Or.inr ⟨a, him, rfl, hx⟩), fun k b hb _ => frame_add s _ _ k b hb⟩
    · cases h
  | setKid i path kk v =>
    simp only [step] at h
    split at h
    · rename_i a hi
      have him := List.mem_of_getElem? hi
      split at h
      · rename_i tgt ks hat
        split at h
        · split at h
          · rename_i t n hev
            simp only [Option.some.injEq] at h; subst h
            have hf := evalNew_fresh hT hI hev
            have ht : tgt ∈ a.tree.ids := at_ids path a.tree _ hat tgt (by simp [Tree.ids])
            have m := mutate_pack hI him ht (fun ks => ks.set kk t) (fun x => x ∈ t.ids) n hf.1
              (fun ks x hx => idsL_set hx) (fun x hx => Or.inl (hf.2 x hx))
            refine ⟨m.1, fun k b hb hind => frame_of_pres m.2 k b hb ?_⟩
            exact fun e => hind i (by simp [Op.touched]) a hi e.symm
          · cases h
        · cases h
      · cases h
    · cases h
  | append i path v =>
    simp only [step] at h
    split at h
    · rename_i a hi
      have him := List.mem_of_getElem? hi
      split at h
      · rename_i tgt ks hat
        split at h
        · rename_i t n hev
          simp only [Option.some.injEq] at h; subst h
          have hf := evalNew_fresh hT hI hev
          have ht : tgt ∈ a.tree.ids := at_ids path a.tree _ hat tgt (by simp [Tree.ids])
          have m := mutate_pack hI him ht (fun ks => ks ++ [t]) (fun x => x ∈ t.ids) n hf.1
            (fun ks x hx => idsL_append hx) (fun x hx => Or.inl (hf.2 x hx))
          refine ⟨m.1, fun k b hb hind => frame_of_pres m.2 k b hb ?_⟩
          exact fun e => hind i (by simp [Op.touched]) a hi e.symm
        · cases h
      · cases h
    · cases h
  | update i j skip =>
    simp only [step] at h
    split at h
    · rename_i a b hi hj
      split at h
      · rename_i ra ka rb kb ce hta htb hce
        split at h
        · rename_i hcls
          simp only [Option.some.injEq] at h; subst h
          have him := List.mem_of_getElem? hi
          have hjm := List.mem_of_getElem? hj
          have hca : ∀ c : Inst, (∀ i' ∈ (Op.update i j skip).touched, ∀ a' : Inst, s.insts[i']? = some a' → a'.grp ≠ c.grp) →
              a.grp ≠ c.grp ∧ b.grp ≠ c.grp :=
            fun c hind => ⟨hind i (by simp [Op.touched]) a hi, hind j (by simp [Op.touched]) b hj⟩
          cases hdeep : ce.updDeep with
          | true =>
            simp only [if_true]
            have m := updProps_pack (D := D) (i := i) (j := j) (ra := ra) (rb := rb) (Ga := a.grp) (Gb := b.grp) true
              (by simp) skip ce.props 0 s hI ⟨a, hi, rfl, by simp [hta, rootId]⟩ ⟨b, hj, rfl, by simp [htb, rootId]⟩
            refine ⟨m.1, fun k c hc hind => frame_of_pres m.2 k c hc ?_⟩
            have := hca c hind
            exact fun e => e.elim (fun e => this.1 e.symm) (fun e => this.2 e.symm)
          | false =>
            simp only [Bool.false_eq_true, if_false]
            -- the two groups become one
            have hI0 := inv_relabel hI a.grp b.grp (hI.gLt b hjm)
            have hi0 : ({ s with insts := relabel a.grp b.grp s.insts } : St).insts[i]? =
                some (if a.grp = a.grp then { a with grp := b.grp } else a) := by
              simp only [relabel, List.getElem?_map, hi, Option.map_some]
            have hj0 : ({ s with insts := relabel a.grp b.grp s.insts } : St).insts[j]? =
                some (if b.grp = a.grp then { b with grp := b.grp } else b) := by
              simp only [relabel, List.getElem?_map, hj, Option.map_some]
            simp only [if_true] at hi0
            have hj0' : ({ s with insts := relabel a.grp b.grp s.insts } : St).insts[j]? = some b := by
              rw [hj0]; split <;> rfl
            have m := updProps_pack (D := D) (i := i) (j := j) (ra := ra) (rb := rb) (Ga := b.grp) (Gb := b.grp) false
              (fun _ => rfl) skip ce.props 0 _ hI0 ⟨_, hi0, rfl, by simp [hta, rootId]⟩ ⟨_, hj0', rfl, by simp [htb, rootId]⟩
            refine ⟨m.1, fun k c hc hind => ?_⟩
            have hh := hca c hind
            have hc0 : ({ s with insts := relabel a.grp b.grp s.insts } : St).insts[k]? = some c := by
              simp only [relabel, List.getElem?_map, hc, Option.map_some]
              rw [if_neg (fun e => hh.1 e.symm)]
            exact frame_of_pres m.2 k c hc0 (fun e => e.elim (fun e => hh.2 e.symm) (fun e => hh.2 e.symm))
        · cases h
      · cases h
    · cases h

/-- a deep `mk_copy`: the new instance has the value of its source and shares nothing with it -/
theorem step_copy_deep {T : Table} {D : List Tree} {s s' : St} (hI : Inv D s) {i : Nat} {a : Inst}
    (hi : s.insts[i]? = some a) (hd : clsFlag T a.cls (·.copyDeep) = true) (h : step T s (.copy i) = some s') :
    ∃ e : Inst, s'.insts = s.insts ++ [e] ∧ e.cls = a.cls ∧ e.grp = s.insts.length ∧
      e.tree.strip = a.tree.strip ∧ Disjoint e.tree.ids a.tree.ids := by
  simp only [step, hi] at h
  obtain ⟨c, g, t⟩ := a
  cases t with
  | imm v => simp at h
  | obj r ks =>
    simp only at h hd
    rw [if_pos hd] at h
    simp only [Option.some.injEq] at h; subst h
    refine ⟨_, rfl, rfl, rfl, strip_fresh _ _, fun x hx hxa => ?_⟩
    have h1 := (fresh_ids _ _ x hx).1
    have h2 := hI.iLt _ (List.mem_of_getElem? hi) x hxa
    omega

/-- a deep `update_from_other_container` leaves the group of every instance as it is (no instances get linked) -/
theorem step_update_deep {T : Table} {D : List Tree} {s s' : St} (hI : Inv D s) {i j : Nat} {skip : List Nat} {a : Inst}
    (hi : s.insts[i]? = some a) (hd : clsFlag T a.cls (·.updDeep) = true) (h : step T s (.update i j skip) = some s') :
    ∀ (m : Nat) (c : Inst), s.insts[m]? = some c → ∃ c' : Inst, s'.insts[m]? = some c' ∧ c'.grp = c.grp := by
  simp only [step] at h
  split at h
  · rename_i a' b hi' hj
    have : a' = a := Option.some.inj (hi'.symm.trans hi)
    subst this
    split at h
    · rename_i ra ka rb kb ce hta htb hce
      split at h
      · simp only [Option.some.injEq] at h; subst h
        have hdeep : ce.updDeep = true := by simpa [clsFlag, hce] using hd
        simp only [hdeep, if_true]
        have m := updProps_pack (D := D) (i := i) (j := j) (ra := ra) (rb := rb) (Ga := a'.grp) (Gb := b.grp) true
          (by simp) skip ce.props 0 s hI ⟨a', hi, rfl, by simp [hta, rootId]⟩ ⟨b, hj, rfl, by simp [htb, rootId]⟩
        intro k c hc
        obtain ⟨c', hc', g, _⟩ := m.2.2.2 k c hc
        exact ⟨c', hc', g⟩
      · cases h
    · cases h
  · cases h

theorem run_inv {T : Table} (hT : tableOK T = true) {D : List Tree} :
    ∀ (ops : List Op) (s : St), Inv D s → Inv D (run T s ops)
  | [], s, hI => hI
  | op :: ops, s, hI => by
    simp only [run]
    cases h : step T s op with
    | none => simpa using run_inv hT ops s hI
    | some s' => simpa using run_inv hT ops s' (step_pack hT hI h).1

end Sdc.ObjGraph
