import SdcModel.SendOrder
/-! invariant proof for the writer interleaving semantics -/
namespace Sdc.SendOrder

structure Good (c : Cfg) : Prop where
  sorted : c.log.Pairwise (· ≤ ·)
  bound : ∀ v ∈ c.log, v ≤ c.ver
  thr : ∀ i, (c.owner L = some i → ∃ fresh, wl true fresh (c.thr i).prog = true ∧ (fresh = true → (c.thr i).mine = c.ver))
           ∧ (c.owner L ≠ some i → wl false false (c.thr i).prog = true)

theorem good_init (c : Cfg) (ho : ∀ l, c.owner l = none) (hl : c.log = [])
    (hp : ∀ i, WellLocked (c.thr i).prog) : Good c := by
  refine ⟨by simp [hl], by simp [hl], fun i => ⟨?_, fun _ => hp i⟩⟩
  intro h; rw [ho] at h; cases h

theorem setThr_self (c : Cfg) (i : Nat) (t : Thr) : setThr c i t i = t := by simp [setThr]
theorem setThr_ne (c : Cfg) (i j : Nat) (t : Thr) (h : j ≠ i) : setThr c i t j = c.thr j := by simp [setThr, h]

theorem good_step {c c' : Cfg} (g : Good c) (s : Step c c') : Good c' := by
  cases s with
  | acq i l r hp ho =>
    refine ⟨g.sorted, g.bound, fun j => ?_⟩
    by_cases hl : l = L
    · subst hl
      -- before: nobody owned L, so every thread is in the "not held" state
      have hnone : ∀ k, wl false false (c.thr k).prog = true := fun k => (g.thr k).2 (by rw [ho]; simp)
      by_cases hj : j = i
      · subst hj
        have := hnone j
        rw [hp] at this
        simp only [wl, if_true, Bool.not_false, Bool.true_and] at this
        refine ⟨fun _ => ⟨false, ?_, by simp⟩, fun h => ?_⟩
        · simpa [setThr_self] using this
        · simp at h
      · refine ⟨fun h => ?_, fun _ => ?_⟩
        · simp at h; exact absurd h.symm hj
        · simp only [setThr_ne _ _ _ _ hj]; exact hnone j
    · have hown : (fun k => if k = l then some i else c.owner k) L = c.owner L := by
        have : L ≠ l := fun e => hl e.symm
        simp [this]
      simp only [hown]
      by_cases hj : j = i
      · subst hj
        simp only [setThr_self]
        have hg := g.thr j
        rw [hp] at hg
        simp only [wl, hl, if_false] at hg
        exact hg
      · simp only [setThr_ne _ _ _ _ hj]; exact g.thr j
  | rel i l r hp ho =>
    refine ⟨g.sorted, g.bound, fun j => ?_⟩
    by_cases hl : l = L
    · subst hl
      have hi := (g.thr i).1 ho
      obtain ⟨fresh, hw, _⟩ := hi
      rw [hp] at hw
      simp only [wl, if_true, Bool.true_and] at hw
      refine ⟨fun h => by simp at h, fun _ => ?_⟩
      by_cases hj : j = i
      · subst hj; simpa [setThr_self] using hw
      · simp only [setThr_ne _ _ _ _ hj]
        exact (g.thr j).2 (by rw [ho]; intro e; exact hj (Option.some.inj e).symm)
    · have hown : (fun k => if k = l then none else c.owner k) L = c.owner L := by
        have : L ≠ l := fun e => hl e.symm
        simp [this]
      simp only [hown]
      by_cases hj : j = i
      · subst hj
        simp only [setThr_self]
        have hg := g.thr j
        rw [hp] at hg
        simp only [wl, hl, if_false] at hg
        exact hg
      · simp only [setThr_ne _ _ _ _ hj]; exact g.thr j
  | incVer i r hp =>
    -- only the owner of L can be at an `incVer`
    have hown : c.owner L = some i := by
      apply Decidable.byContradiction
      intro hne
      have := (g.thr i).2 hne
      rw [hp] at this
      simp [wl] at this
    refine ⟨g.sorted, fun v hv => Nat.le_succ_of_le (g.bound v hv), fun j => ?_⟩
    by_cases hj : j = i
    · subst hj
      obtain ⟨fresh, hw, _⟩ := (g.thr j).1 hown
      rw [hp] at hw
      simp only [wl, Bool.true_and] at hw
      refine ⟨fun _ => ⟨true, by simpa [setThr_self] using hw, by simp [setThr_self]⟩, fun h => absurd hown h⟩
    · simp only [setThr_ne _ _ _ _ hj]
      refine ⟨fun h => ?_, (g.thr j).2⟩
      rw [hown] at h; exact absurd (Option.some.inj h).symm hj
  | send i r hp =>
    have hown : c.owner L = some i := by
      apply Decidable.byContradiction
      intro hne
      have := (g.thr i).2 hne
      rw [hp] at this
      simp [wl] at this
    obtain ⟨fresh, hw, hm⟩ := (g.thr i).1 hown
    rw [hp] at hw
    simp only [wl, Bool.true_and, Bool.and_eq_true] at hw
    have hmine : (c.thr i).mine = c.ver := hm hw.1
    refine ⟨?_, ?_, fun j => ?_⟩
    · rw [List.pairwise_append]
      refine ⟨g.sorted, by simp, ?_⟩
      intro a ha b hb
      simp at hb; subst hb
      rw [hmine]; exact g.bound a ha
    · intro v hv
      simp only [List.mem_append, List.mem_singleton] at hv
      rcases hv with hv | hv
      · exact g.bound v hv
      · rw [hv, hmine]; exact Nat.le_refl _
    · by_cases hj : j = i
      · subst hj
        refine ⟨fun _ => ⟨fresh, by simpa [setThr_self] using hw.2, ?_⟩, fun h => absurd hown h⟩
        intro hf; simp [setThr_self]; exact hm hf
      · simp only [setThr_ne _ _ _ _ hj]
        refine ⟨fun h => ?_, (g.thr j).2⟩
        rw [hown] at h; exact absurd (Option.some.inj h).symm hj

theorem good_reach {c₀ c : Cfg} (g : Good c₀) (r : Reach c₀ c) : Good c := by
  induction r with
  | refl => exact g
  | step _ s ih => exact good_step ih s

end Sdc.SendOrder
