import SdcModel.Discovery
import SdcModel.Proofs.UdpRepeat
/-! helper lemmas for Properties/C14.lean (core Lean only) -/
namespace Sdc.Discovery
open Sdc.Url Sdc.Percent

/-- the percent-decoded segments of a path: `[unquote_to_bytes(e) for e in path.split('/')]` -/
def decodedSegments (path : Bytes) : List Bytes := (splitOn 47 path).map unquoteBytes

theorem range_all_iff (s t : List Bytes) (h : s.length ≤ t.length) :
    ((List.range s.length).all fun i => t[i]? == s[i]?) = true ↔ s <+: t := by
  rw [List.prefix_iff_getElem?]
  simp only [List.all_eq_true, List.mem_range, beq_iff_eq]
  constructor
  · intro hh i hi
    have := hh i hi
    rw [this]
    exact List.getElem?_eq_getElem hi
  · intro hh i hi
    rw [hh i hi]
    exact (List.getElem?_eq_getElem hi).symm

theorem uriMatch_iff (a b : Split) :
    uriMatch a b = true ↔
      lower a.scheme = lower b.scheme ∧ lower a.netloc = lower b.netloc ∧
        decodedSegments a.path <+: decodedSegments b.path := by
  unfold uriMatch
  by_cases h1 : lower a.scheme = lower b.scheme
  · by_cases h2 : lower a.netloc = lower b.netloc
    · simp only [h1, h2, ne_eq, not_true_eq_false, or_self, if_false, true_and]
      by_cases h3 : a.path = b.path
      · simp [h3, decodedSegments]
      · simp only [h3, if_false]
        by_cases h4 : ((splitOn 47 a.path).map unquoteBytes).length > ((splitOn 47 b.path).map unquoteBytes).length
        · simp only [h4, if_true]
          constructor
          · intro h; cases h
          · intro h
            have := h.length_le
            unfold decodedSegments at this
            omega
        · simp only [h4, if_false]
          exact range_all_iff _ _ (by omega)
    · simp [h1, h2]
  · simp [h1]

/-! ### `matches_filter` / `filter_services` against their declarative reading -/

def typeIn (st : Option (List QName)) (t : QName) : Bool :=
  match st with
  | some ts => ts.any (matchType t)
  | none => false

/-- the service offers the requested type -/
def offersType (s : Service) (t : QName) : Bool := typeIn s.types t

/-- some scope of the service matches the requested scope `u` under rule `m` -/
def hasScope (chk : Bytes → Bool) (r : Rules) (m : Option Bytes) (s : Service) (u : Bytes) : Bool :=
  match s.scopes with
  | some sc => sc.text.any fun e => matchScope chk r u e m == .ok true
  | none => false

/-- the statement's condition: all requested types offered, all requested scopes matched -/
def wanted (chk : Bytes → Bool) (r : Rules) (types : Option (List QName)) (scopes : Option Scopes) (s : Service) : Bool :=
  (match types with
    | some ts => ts.all (offersType s)
    | none => true) &&
  (match scopes with
    | some sc => sc.text.all (hasScope chk r sc.matchBy s)
    | none => true)

theorem anyScope_ok {chk : Bytes → Bool} {r : Rules} {u : Bytes} {m : Option Bytes} {es : List Bytes} {b : Bool}
    (h : anyScope chk r u m es = .ok b) : b = es.any fun e => matchScope chk r u e m == .ok true := by
  induction es with
  | nil => simp [anyScope] at h; simp [h]
  | cons e rest ih =>
    unfold anyScope at h
    split at h
    · cases h
    · rename_i hm
      simp only [Except.ok.injEq] at h
      simp [← h, hm]
    · rename_i hm
      simp [hm, ih h]

theorem allTypes_ok {st : Option (List QName)} {ts : List QName} {b : Bool} (h : allTypes st ts = .ok b) :
    b = ts.all (typeIn st) := by
  induction ts with
  | nil => simp [allTypes] at h; simp [h]
  | cons t rest ih =>
    unfold allTypes at h
    cases st with
    | none => simp [isTypeInList] at h
    | some l =>
      simp only [isTypeInList] at h
      cases hb : l.any (matchType t) with
      | false => simp [hb] at h; subst h; simp [typeIn, hb]
      | true =>
        simp only [hb] at h
        simp [typeIn, hb, ih h]

theorem isScopeInList_ok {chk : Bytes → Bool} {r : Rules} {u : Bytes} {m : Option Bytes} {s : Service} {b : Bool}
    (h : isScopeInList chk r u m s.scopes = .ok b) : b = hasScope chk r m s u := by
  unfold hasScope
  cases hs : s.scopes with
  | none => simp [hs, isScopeInList] at h; simp [h]
  | some sc =>
    simp only [hs, isScopeInList] at h
    exact anyScope_ok h

theorem allScopes_ok {chk : Bytes → Bool} {r : Rules} {m : Option Bytes} {s : Service} {us : List Bytes} {b : Bool}
    (h : allScopes chk r m s.scopes us = .ok b) : b = us.all (hasScope chk r m s) := by
  induction us with
  | nil => simp [allScopes] at h; simp [h]
  | cons u rest ih =>
    unfold allScopes at h
    split at h
    · cases h
    · rename_i hm
      simp only [Except.ok.injEq] at h
      simp [← h, ← isScopeInList_ok hm]
    · rename_i hm
      simp [← isScopeInList_ok hm, ih h]

theorem matchesFilter_ok {chk : Bytes → Bool} {r : Rules} {s : Service} {types : Option (List QName)}
    {scopes : Option Scopes} {b : Bool} (h : matchesFilter chk r s types scopes = .ok b) :
    b = wanted chk r types scopes s := by
  unfold matchesFilter at h
  unfold wanted
  cases types with
  | none =>
    simp only at h
    cases scopes with
    | none => simp at h; simp [h]
    | some sc => simp only at h; simp [allScopes_ok h]
  | some ts =>
    simp only at h
    split at h
    · cases h
    · rename_i ht
      simp only [Except.ok.injEq] at h
      have := allTypes_ok ht
      have e : ts.all (offersType s) = false := by rw [this]; rfl
      simp [← h, e]
    · rename_i ht
      have := allTypes_ok ht
      have e : ts.all (offersType s) = true := by rw [this]; rfl
      simp only [e, Bool.true_and]
      cases scopes with
      | none => simp at h; simp [h]
      | some sc => simp only at h; simp [allScopes_ok h]

theorem filterServices_ok {chk : Bytes → Bool} {r : Rules} {types : Option (List QName)} {scopes : Option Scopes}
    {l res : List Service} (h : filterServices chk r types scopes l = .ok res) :
    res = l.filter (wanted chk r types scopes) := by
  induction l generalizing res with
  | nil => simp [filterServices] at h; simp [h]
  | cons s rest ih =>
    unfold filterServices at h
    split at h
    · cases h
    · rename_i b hb
      split at h
      · cases h
      · rename_i l' hl
        simp only [Except.ok.injEq] at h
        rw [List.filter_cons, ← matchesFilter_ok hb, ← ih hl, ← h]

/-! ### when the filter does not raise -/

theorem anyScope_total {chk : Bytes → Bool} {r : Rules} {u : Bytes} {m : Option Bytes} {es : List Bytes}
    (h : ∀ e ∈ es, ∃ b, matchScope chk r u e m = .ok b) : ∃ b, anyScope chk r u m es = .ok b := by
  induction es with
  | nil => exact ⟨false, rfl⟩
  | cons e rest ih =>
    obtain ⟨b, hb⟩ := h e (List.mem_cons_self ..)
    unfold anyScope
    rw [hb]
    cases b with
    | true => exact ⟨true, rfl⟩
    | false => exact ih (fun x hx => h x (List.mem_cons_of_mem _ hx))

theorem allTypes_total {st : Option (List QName)} (ts : List QName) (h : st ≠ none) : ∃ b, allTypes st ts = .ok b := by
  cases st with
  | none => exact absurd rfl h
  | some l =>
    induction ts with
    | nil => exact ⟨true, rfl⟩
    | cons t rest ih =>
      unfold allTypes
      simp only [isTypeInList]
      cases l.any (matchType t) with
      | true => exact ih
      | false => exact ⟨false, rfl⟩

theorem allScopes_total {chk : Bytes → Bool} {r : Rules} {m : Option Bytes} {ss : Option Scopes} {us : List Bytes}
    (h : ∀ u ∈ us, ∀ sc, ss = some sc → ∀ e ∈ sc.text, ∃ b, matchScope chk r u e m = .ok b) :
    ∃ b, allScopes chk r m ss us = .ok b := by
  induction us with
  | nil => exact ⟨true, rfl⟩
  | cons u rest ih =>
    have hu : ∃ b, isScopeInList chk r u m ss = .ok b := by
      cases ss with
      | none => exact ⟨false, rfl⟩
      | some sc => exact anyScope_total (h u (List.mem_cons_self ..) sc rfl)
    obtain ⟨b, hb⟩ := hu
    unfold allScopes
    rw [hb]
    cases b with
    | false => exact ⟨false, rfl⟩
    | true => exact ih (fun x hx => h x (List.mem_cons_of_mem _ hx))

/-- no handler exception: the services have a types list and every (requested scope, service scope) pair can be compared -/
def Comparable (chk : Bytes → Bool) (r : Rules) (scopes : Option Scopes) (s : Service) : Prop :=
  s.types ≠ none ∧
    ∀ sc, scopes = some sc → ∀ u ∈ sc.text, ∀ ssc, s.scopes = some ssc → ∀ e ∈ ssc.text,
      ∃ b, matchScope chk r u e sc.matchBy = .ok b

theorem matchesFilter_total {chk : Bytes → Bool} {r : Rules} {s : Service} (types : Option (List QName))
    {scopes : Option Scopes} (h : Comparable chk r scopes s) : ∃ b, matchesFilter chk r s types scopes = .ok b := by
  unfold matchesFilter
  cases scopes with
  | none =>
    cases types with
    | none => exact ⟨true, rfl⟩
    | some ts =>
      obtain ⟨b, hb⟩ := allTypes_total ts h.1
      simp only [hb]
      cases b with
      | false => exact ⟨false, rfl⟩
      | true => exact ⟨true, rfl⟩
  | some sc =>
    have hs : ∃ b, allScopes chk r sc.matchBy s.scopes sc.text = .ok b :=
      allScopes_total (fun u hu ssc hssc e he => h.2 sc rfl u hu ssc hssc e he)
    cases types with
    | none => exact hs
    | some ts =>
      obtain ⟨b, hb⟩ := allTypes_total ts h.1
      simp only [hb]
      cases b with
      | false => exact ⟨false, rfl⟩
      | true => exact hs

theorem filterServices_total {chk : Bytes → Bool} {r : Rules} (types : Option (List QName)) {scopes : Option Scopes}
    {l : List Service} (h : ∀ s ∈ l, Comparable chk r scopes s) :
    filterServices chk r types scopes l = .ok (l.filter (wanted chk r types scopes)) := by
  have : ∃ res, filterServices chk r types scopes l = .ok res := by
    induction l with
    | nil => exact ⟨[], rfl⟩
    | cons s rest ih =>
      obtain ⟨b, hb⟩ := matchesFilter_total types (h s (List.mem_cons_self ..))
      obtain ⟨res, hres⟩ := ih (fun x hx => h x (List.mem_cons_of_mem _ hx))
      unfold filterServices
      rw [hb, hres]
      exact ⟨_, rfl⟩
  obtain ⟨res, hres⟩ := this
  rw [hres, filterServices_ok hres]

/-! ### dict lemmas -/

theorem Table.get_set_same (t : Table) (k : Bytes) (v : Service) : Table.get (Table.set t k v) k = some v := by
  induction t with
  | nil => simp [Table.set, Table.get]
  | cons p t ih =>
    obtain ⟨k', v'⟩ := p
    by_cases h : k' = k
    · simp [Table.set, Table.get, h]
    · simp [Table.set, Table.get, h, ih]

theorem Table.get_set_other (t : Table) (k k' : Bytes) (v : Service) (h : k' ≠ k) :
    Table.get (Table.set t k v) k' = Table.get t k' := by
  induction t with
  | nil => simp [Table.set, Table.get, Ne.symm h]
  | cons p t ih =>
    obtain ⟨k0, v0⟩ := p
    by_cases h0 : k0 = k
    · subst h0
      simp [Table.set, Table.get, Ne.symm h]
    · by_cases h1 : k0 = k'
      · subst h1; simp [Table.set, Table.get, h0]
      · simp [Table.set, Table.get, h0, h1, ih]

theorem Table.get_del_same (t : Table) (k : Bytes) : Table.get (Table.del t k) k = none := by
  induction t with
  | nil => rfl
  | cons p t ih =>
    obtain ⟨k0, v0⟩ := p
    by_cases h0 : k0 = k
    · simp [Table.del, h0, ih]
    · simp [Table.del, Table.get, h0, ih]

theorem Table.get_del_other (t : Table) (k k' : Bytes) (h : k' ≠ k) : Table.get (Table.del t k) k' = Table.get t k' := by
  induction t with
  | nil => rfl
  | cons p t ih =>
    obtain ⟨k0, v0⟩ := p
    by_cases h0 : k0 = k
    · subst h0
      simp [Table.del, Table.get, Ne.symm h, ih]
    · by_cases h1 : k0 = k'
      · subst h1; simp [Table.del, Table.get, h0]
      · simp [Table.del, Table.get, h0, h1, ih]

/-! ### the remote table as a function of the announcement history -/

/-- what a message does to the remote table -/
inductive TOp
  | add (s : Service)
  | del (epr : Bytes)

def applyOp (t : Table) : TOp → Table
  | .add s => addRemote t s
  | .del e => t.del e

/-- announcements and byes a message carries (announcements without AppSequence are dropped by the handlers) -/
def opsOf (r : Rules) : Msg → List TOp
  | .hello app s => if app || r.allowMissingApp then [.add s] else []
  | .probeMatches app ss => if app || r.allowMissingApp then ss.map .add else []
  | .resolveMatches app s => if app || r.allowMissingApp then (match s with | some s => [.add s] | none => []) else []
  | .bye e => [.del e]
  | _ => []

/-- the announcements for endpoint `e` since its last Bye -/
def annsStep (e : Bytes) (acc : List Service) : TOp → List Service
  | .add s => if s.epr = e then acc ++ [s] else acc
  | .del k => if k = e then [] else acc

def anns (e : Bytes) (ops : List TOp) : List Service := ops.foldl (annsStep e) []

/-- highest metadata version among announcements -/
def maxMv (l : List Service) : Nat := l.foldl (fun m s => max m s.mv) 0

/-- the announcements carrying the highest version, in order of arrival -/
def top (l : List Service) : List Service := l.filter fun s => s.mv == maxMv l

/-- the table entry prescribed by a list of announcements: none without announcement, else the first announcement with
    the highest version, updated by the later ones with that version -/
def entry (l : List Service) : Option Service :=
  match top l with
  | [] => none
  | h :: rest => some (rest.foldl merge h)

theorem foldl_max_facts (l : List Service) (m : Nat) :
    m ≤ l.foldl (fun m s => max m s.mv) m ∧ (∀ x ∈ l, x.mv ≤ l.foldl (fun m s => max m s.mv) m) ∧
      (l.foldl (fun m s => max m s.mv) m = m ∨ ∃ x ∈ l, x.mv = l.foldl (fun m s => max m s.mv) m) := by
  induction l generalizing m with
  | nil => simp
  | cons a l ih =>
    obtain ⟨h1, h2, h3⟩ := ih (max m a.mv)
    simp only [List.foldl_cons]
    refine ⟨by omega, ?_, ?_⟩
    · intro x hx
      rcases List.mem_cons.mp hx with rfl | hx
      · omega
      · exact h2 x hx
    · rcases h3 with h | ⟨x, hx, e⟩
      · by_cases hm : a.mv ≤ m
        · left; rw [h]; omega
        · right; exact ⟨a, List.mem_cons_self .., by rw [h]; omega⟩
      · right; exact ⟨x, List.mem_cons_of_mem _ hx, e⟩

theorem le_maxMv {l : List Service} {x : Service} (h : x ∈ l) : x.mv ≤ maxMv l := (foldl_max_facts l 0).2.1 x h

theorem exists_maxMv {l : List Service} (h : l ≠ []) : ∃ x ∈ l, x.mv = maxMv l := by
  rcases (foldl_max_facts l 0).2.2 with h0 | h0
  · cases l with
    | nil => exact absurd rfl h
    | cons a l =>
      refine ⟨a, List.mem_cons_self .., ?_⟩
      have := le_maxMv (l := a :: l) (List.mem_cons_self ..)
      unfold maxMv at this ⊢
      omega
  · exact h0

theorem maxMv_append (l : List Service) (s : Service) : maxMv (l ++ [s]) = max (maxMv l) s.mv := by
  simp [maxMv, List.foldl_append]

theorem top_ne_nil {l : List Service} (h : l ≠ []) : top l ≠ [] := by
  obtain ⟨x, hx, e⟩ := exists_maxMv h
  intro ht
  have : x ∈ top l := by simp [top, hx, e]
  rw [ht] at this
  cases this

theorem entry_eq_none {l : List Service} : entry l = none ↔ l = [] := by
  constructor
  · intro h
    by_cases hl : l = []
    · exact hl
    · have := top_ne_nil hl
      unfold entry at h
      split at h
      · rename_i ht; exact absurd ht this
      · cases h
  · rintro rfl; rfl

theorem merge_mv (k s : Service) : (merge k s).mv = k.mv := by
  unfold merge; split <;> split <;> split <;> rfl
theorem merge_epr (k s : Service) : (merge k s).epr = k.epr := by
  unfold merge; split <;> split <;> split <;> rfl
theorem merge_inst (k s : Service) : (merge k s).inst = k.inst := by
  unfold merge; split <;> split <;> split <;> rfl

theorem foldl_merge_mv (l : List Service) (h : Service) : (l.foldl merge h).mv = h.mv := by
  induction l generalizing h with
  | nil => rfl
  | cons a l ih => simp [ih, merge_mv]

theorem entry_mv {l : List Service} {k : Service} (h : entry l = some k) : k.mv = maxMv l := by
  unfold entry at h
  split at h
  · cases h
  · rename_i hd rest ht
    simp only [Option.some.injEq] at h
    rw [← h, foldl_merge_mv]
    have : hd ∈ top l := by rw [ht]; exact List.mem_cons_self ..
    simp only [top, List.mem_filter, beq_iff_eq] at this
    exact this.2

theorem entry_append (l : List Service) (s : Service) :
    entry (l ++ [s]) =
      match entry l with
      | none => some s
      | some k => if s.mv = k.mv then some (merge k s) else if s.mv > k.mv then some s else some k := by
  by_cases hl : l = []
  · subst hl
    have : top [s] = [s] := by simp [top, maxMv]
    have t0 : top [] = [] := rfl
    simp [entry, this, t0]
  · cases he : entry l with
    | none => exact absurd (entry_eq_none.mp he) hl
    | some k =>
      have hk := entry_mv he
      have hmax := maxMv_append l s
      simp only
      unfold entry at he ⊢
      split at he
      · cases he
      · rename_i hd rest ht
        simp only [Option.some.injEq] at he
        by_cases h1 : s.mv = k.mv
        · have e1 : maxMv (l ++ [s]) = maxMv l := by rw [hmax]; omega
          have : top (l ++ [s]) = top l ++ [s] := by
            simp only [top, e1, List.filter_append, List.filter_cons, List.filter_nil]
            simp [h1, hk]
          rw [this, ht]
          simp only [List.cons_append, List.foldl_append, List.foldl_cons, List.foldl_nil, he, h1, if_true]
        · by_cases h2 : s.mv > k.mv
          · have e1 : maxMv (l ++ [s]) = s.mv := by rw [hmax]; omega
            have : top (l ++ [s]) = [s] := by
              simp only [top, e1, List.filter_append, List.filter_cons, List.filter_nil, beq_self_eq_true, if_true]
              have : l.filter (fun x => x.mv == s.mv) = [] := by
                simp only [List.filter_eq_nil_iff, beq_iff_eq]
                intro x hx
                have := le_maxMv hx
                omega
              simp [this]
            rw [this]
            simp [h1, h2]
          · have e1 : maxMv (l ++ [s]) = maxMv l := by rw [hmax]; omega
            have : top (l ++ [s]) = top l := by
              simp only [top, e1, List.filter_append, List.filter_cons, List.filter_nil]
              have : (s.mv == maxMv l) = false := by simp; omega
              simp [this]
            rw [this, ht]
            simp [h1, h2, he]

theorem addRemote_other (t : Table) (s : Service) (e : Bytes) (h : s.epr ≠ e) : (addRemote t s).get e = t.get e := by
  unfold addRemote
  split
  · rfl
  · split
    · exact Table.get_set_other _ _ _ _ (Ne.symm h)
    · split
      · exact Table.get_set_other _ _ _ _ (Ne.symm h)
      · split
        · exact Table.get_set_other _ _ _ _ (Ne.symm h)
        · rfl

theorem table_step (e : Bytes) (he : e ≠ []) (t : Table) (acc : List Service) (hinv : t.get e = entry acc) (op : TOp) :
    (applyOp t op).get e = entry (annsStep e acc op) := by
  cases op with
  | del k =>
    simp only [applyOp, annsStep]
    by_cases hk : k = e
    · subst hk; simp [Table.get_del_same, entry, top]
    · simp only [hk, if_false]; rw [Table.get_del_other _ _ _ (Ne.symm hk), hinv]
  | add s =>
    simp only [applyOp, annsStep]
    by_cases hs : s.epr = e
    · simp only [hs, if_true]
      rw [entry_append, ← hinv]
      unfold addRemote
      simp only [hs, he, if_false]
      cases hg : t.get e with
      | none => simp [Table.get_set_same]
      | some known =>
        simp only
        by_cases h1 : s.mv = known.mv
        · simp [h1, Table.get_set_same]
        · by_cases h2 : s.mv > known.mv
          · simp [h1, h2, Table.get_set_same]
          · simp [h1, h2, hg]
    · simp only [hs, if_false]
      rw [addRemote_other _ _ _ hs, hinv]

theorem table_fold (e : Bytes) (he : e ≠ []) (ops : List TOp) (t : Table) (acc : List Service)
    (hinv : t.get e = entry acc) : (ops.foldl applyOp t).get e = entry (ops.foldl (annsStep e) acc) := by
  induction ops generalizing t acc with
  | nil => exact hinv
  | cons op ops ih => exact ih _ _ (table_step e he t acc hinv op)

/-- every handler changes the remote table exactly by the announcements / byes the message carries; also when the
    handler raises (Probe with an incomparable scope, ResolveMatches without ResolveMatch) the table is unchanged -/
theorem handle_remote (chk : Bytes → Bool) (r : Rules) (st : State) (m : Msg) :
    (match handle chk r st m with
      | .ok (st', _) => st'.remote
      | .error _ => st.remote) = (opsOf r m).foldl applyOp st.remote := by
  cases m with
  | hello app s => cases h : (app || r.allowMissingApp) <;> simp [handle, opsOf, applyOp, h]
  | probeMatches app ss =>
    cases h : (app || r.allowMissingApp)
    · simp [handle, opsOf, h]
    · simp only [handle, opsOf, h, if_true]
      rw [List.foldl_map]
      rfl
  | resolveMatches app s =>
    cases h : (app || r.allowMissingApp)
    · simp [handle, opsOf, h]
    · cases s <;> simp [handle, opsOf, applyOp, h]
  | bye e => simp [handle, opsOf, applyOp]
  | probe types scopes =>
    simp only [handle, opsOf, List.foldl_nil]
    split <;> rename_i h <;> split at h <;> simp_all
  | resolve e =>
    simp only [handle, opsOf, List.foldl_nil]
    split <;> rename_i h <;> split at h <;> simp_all
  | unknown => simp [handle, opsOf]

theorem run_remote (chk : Bytes → Bool) (r : Rules) (st : State) (ms : List Msg) :
    (run chk r st ms).remote = (ms.flatMap (opsOf r)).foldl applyOp st.remote := by
  induction ms generalizing st with
  | nil => rfl
  | cons m ms ih =>
    simp only [run, List.flatMap_cons, List.foldl_append]
    have := handle_remote chk r st m
    split
    · rename_i st' outs h
      rw [h] at this
      rw [ih, ← this]
    · rename_i e h
      rw [h] at this
      rw [ih, ← this]

/-! ### content of a merged entry -/

theorem merge_types (k s : Service) : (merge k s).types = s.types.or k.types := by
  unfold merge
  cases s.types <;> cases s.scopes <;> simp <;> split <;> rfl

theorem merge_scopes (k s : Service) : (merge k s).scopes = s.scopes.or k.scopes := by
  unfold merge
  cases s.types <;> cases s.scopes <;> simp <;> split <;> rfl

theorem merge_xaddrs (k s : Service) :
    (merge k s).xaddrs = if s.xaddrs.length > k.xaddrs.length then s.xaddrs else k.xaddrs := by
  unfold merge
  cases s.types <;> cases s.scopes <;> simp <;> split <;> rfl

/-- types of the merged entry: those of the last announcement that carried a Types value -/
theorem foldl_merge_types (rest : List Service) (h : Service) :
    (rest.foldl merge h).types = (h :: rest).reverse.findSome? (·.types) := by
  induction rest generalizing h with
  | nil => simp
  | cons a rest ih =>
    rw [List.foldl_cons, ih]
    simp only [List.reverse_cons, List.findSome?_append, List.findSome?_cons, List.findSome?_nil, merge_types]
    cases rest.reverse.findSome? (·.types) <;> cases a.types <;> cases h.types <;> simp

theorem foldl_merge_scopes (rest : List Service) (h : Service) :
    (rest.foldl merge h).scopes = (h :: rest).reverse.findSome? (·.scopes) := by
  induction rest generalizing h with
  | nil => simp
  | cons a rest ih =>
    rw [List.foldl_cons, ih]
    simp only [List.reverse_cons, List.findSome?_append, List.findSome?_cons, List.findSome?_nil, merge_scopes]
    cases rest.reverse.findSome? (·.scopes) <;> cases a.scopes <;> cases h.scopes <;> simp

/-- x_addrs of the merged entry: taken from one of the announcements, and no announcement had more of them -/
theorem foldl_merge_xaddrs (rest : List Service) (h : Service) :
    (∃ a ∈ h :: rest, (rest.foldl merge h).xaddrs = a.xaddrs) ∧
      ∀ a ∈ h :: rest, a.xaddrs.length ≤ (rest.foldl merge h).xaddrs.length := by
  induction rest generalizing h with
  | nil => simp
  | cons a rest ih =>
    obtain ⟨⟨b, hb, e⟩, hmax⟩ := ih (merge h a)
    rw [List.foldl_cons]
    have hx := merge_xaddrs h a
    constructor
    · rcases List.mem_cons.mp hb with rfl | hb
      · rw [e, hx]
        split
        · exact ⟨a, by simp, rfl⟩
        · exact ⟨h, by simp, rfl⟩
      · exact ⟨b, by simp [hb], e⟩
    · intro c hc
      have h0 := hmax (merge h a) (List.mem_cons_self ..)
      rw [hx] at h0
      simp only [List.mem_cons] at hc
      rcases hc with rfl | rfl | hc
      · split at h0 <;> omega
      · split at h0 <;> omega
      · exact hmax c (List.mem_cons_of_mem _ hc)

/-! ### duplicate filter in front of the dispatcher -/

theorem recvDatagram_known (chk : Bytes → Bool) (r : Rules) (maxlen : Nat) (n : Node) (mid : String) (m : Msg) :
    (recvDatagram chk r maxlen n mid m).1.known = (UdpRepeat.step maxlen n.known (.recv mid)).1 := by
  unfold recvDatagram
  simp only
  split
  · split <;> rfl
  · rfl

/-- the id-window view of a node event -/
def NodeEv.toEv : NodeEv → UdpRepeat.Ev
  | .dg mid _ => .recv mid
  | .own id => .out id

theorem nodeStep_known (chk : Bytes → Bool) (r : Rules) (maxlen : Nat) (n : Node) (e : NodeEv) :
    (nodeStep chk r maxlen n e).known = (UdpRepeat.step maxlen n.known e.toEv).1 := by
  cases e with
  | dg mid m => exact recvDatagram_known chk r maxlen n mid m
  | own id => rfl

theorem runNode_known (chk : Bytes → Bool) (r : Rules) (maxlen : Nat) (n : Node) (es : List NodeEv) :
    (runNode chk r maxlen n es).known = UdpRepeat.run maxlen n.known (es.map NodeEv.toEv) := by
  induction es generalizing n with
  | nil => rfl
  | cons e es ih =>
    simp only [runNode, List.map_cons, UdpRepeat.run]
    rw [ih, nodeStep_known]

theorem recvDatagram_of_known (chk : Bytes → Bool) (r : Rules) (maxlen : Nat) (n : Node) (mid : String) (m : Msg)
    (h : mid ∈ n.known) : recvDatagram chk r maxlen n mid m = (n, none) := by
  unfold recvDatagram
  simp [UdpRepeat.step, h]

end Sdc.Discovery
