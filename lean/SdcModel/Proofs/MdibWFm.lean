import SdcModel.Proofs.MdibMono
/-!
# `WFm S C t`: well-formedness + kind discipline, with the DescriptorVersion link relaxed for the single states in `S` and the
context states in `C` (those that a running descriptor commit still has to write)
-/
set_option linter.unusedSimpArgs false
namespace Sdc.Mdib

/-- kind discipline of the tables: single states are not of the context kind and do not hang on context descriptors,
    context states hang on context descriptors (the real API guarantees this by construction of the entities) -/
structure KOK (t : Tables) : Prop where
  kS : ∀ s ∈ t.states, s.kind ≠ .context
  kSD : ∀ s ∈ t.states, ∀ d ∈ t.descrs, d.handle = s.dh → d.kind ≠ .context
  kCD : ∀ c ∈ t.ctx, ∀ d ∈ t.descrs, d.handle = c.dh → d.kind = .context

instance (t : Tables) : Decidable (KOK t) :=
  decidable_of_iff
    ((∀ s ∈ t.states, s.kind ≠ .context) ∧ (∀ s ∈ t.states, ∀ d ∈ t.descrs, d.handle = s.dh → d.kind ≠ .context) ∧
     (∀ c ∈ t.ctx, ∀ d ∈ t.descrs, d.handle = c.dh → d.kind = .context))
    ⟨fun ⟨a, b, c⟩ => ⟨a, b, c⟩, fun h => ⟨h.1, h.2, h.3⟩⟩

structure WFm (S C : Handle → Prop) (t : Tables) : Prop where
  dKeys : (t.descrs.map (·.handle)).Nodup
  sKeys : (t.states.map (·.dh)).Nodup
  cKeys : (t.ctx.map (·.h)).Nodup
  sRef : ∀ s ∈ t.states, s.kind ≠ .context ∧ ∃ d ∈ t.descrs, d.handle = s.dh ∧ d.kind ≠ .context ∧ (¬ S s.dh → d.ver = s.dv)
  cRef : ∀ c ∈ t.ctx, ∃ d ∈ t.descrs, d.handle = c.dh ∧ d.kind = .context ∧ (¬ C c.h → d.ver = c.dv)
  parent : ∀ d ∈ t.descrs, ∀ p ∈ d.parent, ∃ q ∈ t.descrs, q.handle = p

theorem mem_unique {t : Tables} (hn : (t.descrs.map (·.handle)).Nodup) {d d' : Descr} (h1 : d ∈ t.descrs) (h2 : d' ∈ t.descrs)
    (e : d.handle = d'.handle) : d = d' := by
  have a := find_of_mem_nodup (fun d : Descr => d.handle) hn h1
  have b := find_of_mem_nodup (fun d : Descr => d.handle) hn h2
  rw [e, b] at a; exact (Option.some.inj a).symm

theorem WFm.of_wf {t : Tables} (hw : WF t) (hk : KOK t) : WFm (fun _ => False) (fun _ => False) t := by
  refine ⟨hw.dKeys, hw.sKeys, hw.cKeys, ?_, ?_, hw.parent⟩
  · intro s hs
    obtain ⟨d, hd, e1, e2⟩ := hw.sRef s hs
    exact ⟨hk.kS s hs, d, hd, e1, hk.kSD s hs d hd e1, fun _ => e2⟩
  · intro c hc
    obtain ⟨d, hd, e1, e2⟩ := hw.cRef c hc
    exact ⟨d, hd, e1, hk.kCD c hc d hd e1, fun _ => e2⟩

theorem WFm.wf {S C : Handle → Prop} {t : Tables} (h : WFm S C t) (hS : ∀ x, ¬ S x) (hC : ∀ x, ¬ C x) : WF t ∧ KOK t := by
  refine ⟨⟨h.dKeys, h.sKeys, h.cKeys, ?_, ?_, h.parent⟩, ⟨fun s hs => (h.sRef s hs).1, ?_, ?_⟩⟩
  · intro s hs
    obtain ⟨_, d, hd, e1, _, e2⟩ := h.sRef s hs
    exact ⟨d, hd, e1, e2 (hS _)⟩
  · intro c hc
    obtain ⟨d, hd, e1, _, e2⟩ := h.cRef c hc
    exact ⟨d, hd, e1, e2 (hC _)⟩
  · intro s hs d' hd' e
    obtain ⟨_, d, hd, e1, e2, _⟩ := h.sRef s hs
    rw [mem_unique h.dKeys hd' hd (e.trans e1.symm)]; exact e2
  · intro c hc d' hd' e
    obtain ⟨d, hd, e1, e2, _⟩ := h.cRef c hc
    rw [mem_unique h.dKeys hd' hd (e.trans e1.symm)]; exact e2

theorem WFm.mono {S C S' C' : Handle → Prop} {t : Tables} (h : WFm S C t) (hS : ∀ x, S x → S' x) (hC : ∀ x, C x → C' x) :
    WFm S' C' t := by
  refine ⟨h.dKeys, h.sKeys, h.cKeys, ?_, ?_, h.parent⟩
  · intro s hs
    obtain ⟨k, d, hd, e1, e2, e3⟩ := h.sRef s hs
    exact ⟨k, d, hd, e1, e2, fun hn => e3 (fun hx => hn (hS _ hx))⟩
  · intro c hc
    obtain ⟨d, hd, e1, e2, e3⟩ := h.cRef c hc
    exact ⟨d, hd, e1, e2, fun hn => e3 (fun hx => hn (hC _ hx))⟩

theorem WFm.of_ver {S C : Handle → Prop} {t : Tables} (h : WFm S C t) (v : Nat) : WFm S C { t with ver := v } :=
  ⟨h.1, h.2, h.3, h.4, h.5, h.6⟩

theorem WFm.putState {S C : Handle → Prop} {t : Tables} (hw : WFm S C t) {h : Handle} {n : SState} (hn : n.dh = h)
    (hk : n.kind ≠ .context) (hd : ∃ d ∈ t.descrs, d.handle = h ∧ d.kind ≠ .context ∧ d.ver = n.dv) :
    WFm (fun x => S x ∧ x ≠ h) C (putState t h n) := by
  refine ⟨by simpa using hw.dKeys, ?_, by simpa using hw.cKeys, ?_, by simpa using hw.cRef, by simpa using hw.parent⟩
  · show (((rmState t h).states ++ [n]).map (·.dh)).Nodup
    rw [rmState_states]
    apply nodup_append_single (fun x : SState => x.dh) (nodup_filter_key _ hw.sKeys _)
    simp only [List.mem_map, List.mem_filter, bne_iff_ne, ne_eq, not_exists, not_and, and_imp]
    intro x _ hx e; exact hx (e.trans hn)
  · intro s hs
    simp only [putState_descrs]
    rcases mem_putState hs with rfl | ⟨hs, hne⟩
    · obtain ⟨d, hd, e1, e2, e3⟩ := hd
      exact ⟨hk, d, hd, e1.trans hn.symm, e2, fun _ => e3⟩
    · obtain ⟨k, d, hd, e1, e2, e3⟩ := hw.sRef s hs
      exact ⟨k, d, hd, e1, e2, fun hx => e3 (fun hS => hx ⟨hS, hne⟩)⟩

theorem WFm.putCtx {S C : Handle → Prop} {t : Tables} (hw : WFm S C t) {h : Handle} {n : Option CState} (hn : ∀ x ∈ n, x.h = h)
    (hd : ∀ x ∈ n, ∃ d ∈ t.descrs, d.handle = x.dh ∧ d.kind = .context ∧ d.ver = x.dv) :
    WFm S (fun x => C x ∧ x ≠ h) (putCtx t h n) := by
  refine ⟨by simpa using hw.dKeys, by simpa using hw.sKeys, ?_, by simpa using hw.sRef, ?_, by simpa using hw.parent⟩
  · cases n with
    | none =>
      show ((rmCtx t h).ctx.map (·.h)).Nodup
      rw [rmCtx_ctx]; exact nodup_filter_key _ hw.cKeys _
    | some x =>
      show (((rmCtx t h).ctx ++ [x]).map (·.h)).Nodup
      rw [rmCtx_ctx]
      apply nodup_append_single (fun x : CState => x.h) (nodup_filter_key _ hw.cKeys _)
      simp only [List.mem_map, List.mem_filter, bne_iff_ne, ne_eq, not_exists, not_and, and_imp]
      intro y _ hy e; exact hy (e.trans (hn x rfl))
  · intro c hc
    simp only [putCtx_descrs]
    rcases mem_putCtx hc with e | ⟨hc, hne⟩
    · obtain ⟨d, hd, e1, e2, e3⟩ := hd c e.symm
      exact ⟨d, hd, e1, e2, fun _ => e3⟩
    · obtain ⟨d, hd, e1, e2, e3⟩ := hw.cRef c hc
      exact ⟨d, hd, e1, e2, fun hx => e3 (fun hC => hx ⟨hC, hne⟩)⟩

/-! ## the item lists of a descriptor commit applied to relaxed tables -/

theorem applySItems_noerr {t : Tables} {items : List (Handle × SItem)} (hi : SItemsOK t items) : (applySItems t items).2.2 = none := by
  induction items generalizing t with
  | nil => rfl
  | cons p rest ih => obtain ⟨h, it⟩ := p; rw [applySItems_cons hi]; exact ih hi.tail

theorem applyCItems_noerr {t : Tables} {items : List (Handle × CItem)} (hi : CItemsOK true t items) : (applyCItems t items).2.2 = none := by
  induction items generalizing t with
  | nil => rfl
  | cons p rest ih =>
    obtain ⟨h, it⟩ := p
    rw [applyCItems_cons (hi.h (h, it) (by simp)) (hi.exact (h, it) (by simp))]
    exact ih hi.tail

theorem applySItems_wfm {S C : Handle → Prop} {t : Tables} {items : List (Handle × SItem)} (hw : WFm S C t) (hi : SItemsOK t items)
    (hk : ∀ p ∈ items, p.2.new.kind ≠ .context ∧ ∀ d ∈ t.descrs, d.handle = p.1 → d.kind ≠ .context) :
    WFm (fun x => S x ∧ x ∉ items.map (·.1)) C (applySItems t items).1 := by
  induction items generalizing t S with
  | nil => exact hw.mono (fun x hx => ⟨hx, by simp⟩) (fun _ h => h)
  | cons p rest ih =>
    obtain ⟨h, it⟩ := p
    rw [applySItems_cons hi]
    have hdh := hi.dh (h, it) (by simp)
    obtain ⟨d, hd, e1, e2⟩ := hi.ref (h, it) (by simp)
    have hk0 := hk (h, it) (by simp)
    have := ih (hw.putState hdh hk0.1 ⟨d, hd, e1, hk0.2 d hd e1, e2⟩) hi.tail
      (fun p hp => by simpa using hk p (by simp [hp]))
    refine this.mono ?_ (fun _ h => h)
    intro x ⟨⟨hS, hne⟩, hx⟩
    refine ⟨hS, ?_⟩
    simp only [List.map_cons, List.mem_cons, not_or]
    exact ⟨hne, hx⟩

theorem applyCItems_wfm {S C : Handle → Prop} {t : Tables} {items : List (Handle × CItem)} (hw : WFm S C t) (hi : CItemsOK true t items)
    (hk : ∀ p ∈ items, ∀ n ∈ p.2.new, ∀ d ∈ t.descrs, d.handle = n.dh → d.kind = .context) :
    WFm S (fun x => C x ∧ x ∉ items.map (·.1)) (applyCItems t items).1 := by
  induction items generalizing t C with
  | nil => exact hw.mono (fun _ h => h) (fun x hx => ⟨hx, by simp⟩)
  | cons p rest ih =>
    obtain ⟨h, it⟩ := p
    have hh := hi.h (h, it) (by simp)
    rw [applyCItems_cons hh (hi.exact (h, it) (by simp))]
    have hput : WFm S (fun x => C x ∧ x ≠ h) (putCtx t h it.new) := by
      refine hw.putCtx hh ?_
      intro x hx
      obtain ⟨d, hd, e1, e2⟩ := hi.ref (h, it) (by simp) x hx
      exact ⟨d, hd, e1, hk (h, it) (by simp) x hx d hd e1, e2⟩
    have := ih hput hi.tail (fun p hp => by simpa using hk p (by simp [hp]))
    refine this.mono (fun _ h => h) ?_
    intro x ⟨⟨hC, hne⟩, hx⟩
    refine ⟨hC, ?_⟩
    simp only [List.map_cons, List.mem_cons, not_or]
    exact ⟨hne, hx⟩

/-- items for other handles stay good when one state is replaced -/
theorem SItemsOK.put {t : Tables} {items : List (Handle × SItem)} (hi : SItemsOK t items) {h : Handle} {n : SState} (hn : n.dh = h)
    (hne : ∀ p ∈ items, p.1 ≠ h) : SItemsOK (putState t h n) items := by
  refine ⟨hi.keys, hi.dh, ?_, fun p hp => by simpa using hi.ref p hp, ?_⟩
  · intro p hp; rw [findS_putState_ne t hn (hne p hp)]; exact hi.old p hp
  · intro p hp
    rw [findS_putState_ne t hn (hne p hp), putState_sSaved, sSaved_rmState_ne t (hne p hp)]; exact hi.bump p hp

theorem SItemsOK.after {t : Tables} {items m : List (Handle × SItem)} (hi : SItemsOK t items) (hm : SItemsOK t m)
    (hne : ∀ p ∈ items, p.1 ∉ m.map (·.1)) : SItemsOK (applySItems t m).1 items := by
  induction m generalizing t with
  | nil => exact hi
  | cons q rest ih =>
    obtain ⟨h, it⟩ := q
    rw [applySItems_cons hm]
    have hdh := hm.dh (h, it) (by simp)
    refine ih (hi.put hdh ?_) hm.tail ?_
    · intro p hp e; exact hne p hp (by simp [e])
    · intro p hp hx; exact hne p hp (by simp [hx])

theorem SItemsOK.congr {t t' : Tables} {items : List (Handle × SItem)} (hi : SItemsOK t items)
    (h1 : t'.states = t.states) (h2 : t'.sSaved = t.sSaved) (h3 : t'.descrs = t.descrs) : SItemsOK t' items := by
  have hf : ∀ h, findS t' h = findS t h := fun h => by simp [findS, h1]
  refine ⟨hi.keys, hi.dh, ?_, ?_, ?_⟩
  · intro p hp; rw [hf]; exact hi.old p hp
  · intro p hp; rw [h3]; exact hi.ref p hp
  · intro p hp; rw [hf, h2]; exact hi.bump p hp

theorem CItemsOK.congr {strict : Bool} {t t' : Tables} {items : List (Handle × CItem)} (hi : CItemsOK strict t items)
    (h1 : t'.ctx = t.ctx) (h2 : t'.cSaved = t.cSaved) (h3 : t'.descrs = t.descrs) : CItemsOK strict t' items := by
  have hf : ∀ h, findC t' h = findC t h := fun h => by simp [findC, h1]
  refine ⟨hi.keys, hi.h, ?_, ?_, ?_⟩
  · intro p hp; rw [hf]; exact hi.old p hp
  · intro p hp; rw [h3]; exact hi.ref p hp
  · intro hs p hp; rw [hf, h2]; exact hi.bump hs p hp

end Sdc.Mdib
