import SdcModel.ContextAssoc
/-! helper lemmas for C10: pointwise facts about `disOne` / `copyFrom` / `bumpSv`, the invariant of the proposal loop -/
namespace Sdc.ContextAssoc
open Sdc.Mdib

/-! ### arithmetic on handles (`Handle` is an abbreviation of `Nat`; stated on `Nat` for `omega`) -/

theorem ne_of_lt_of_eq {a b f : Nat} (h1 : a < f) (h2 : b = f) : a ≠ b := by omega
theorem false_of_lt_le {s f0 f : Nat} (h1 : s < f0) (h2 : s = f) (h3 : f0 ≤ f) : False := by omega
theorem lt_succ_of_eq {s f : Nat} (h : s = f) : s < f + 1 := by omega

/-! ### lists with unique handles -/

theorem eq_of_h_eq {l : List CState} (hn : (l.map (·.h)).Nodup) {a b : CState} (ha : a ∈ l) (hb : b ∈ l)
    (h : a.h = b.h) : a = b := by
  induction l with
  | nil => cases ha
  | cons x xs ih =>
    simp only [List.map_cons, List.nodup_cons, List.mem_map, not_exists, not_and] at hn
    rcases List.mem_cons.1 ha with rfl | ha' <;> rcases List.mem_cons.1 hb with rfl | hb'
    · rfl
    · exact absurd h.symm (hn.1 b hb')
    · exact absurd h (hn.1 a ha')
    · exact ih hn.2 ha' hb'

theorem filter_length_le_one {l : List CState} (hn : (l.map (·.h)).Nodup) (P : CState → Bool)
    (hu : ∀ a ∈ l, ∀ b ∈ l, P a = true → P b = true → a.h = b.h) : (l.filter P).length ≤ 1 := by
  induction l with
  | nil => simp
  | cons x xs ih =>
    simp only [List.map_cons, List.nodup_cons, List.mem_map, not_exists, not_and] at hn
    have ih' := ih hn.2 (fun a ha b hb => hu a (List.mem_cons_of_mem _ ha) b (List.mem_cons_of_mem _ hb))
    by_cases hx : P x = true
    · have : xs.filter P = [] := by
        apply List.filter_eq_nil_iff.2
        intro y hy hpy
        exact hn.1 y hy (hu y (List.mem_cons_of_mem _ hy) x (List.mem_cons_self ..) hpy hx)
      simp [hx, this]
    · simp only [List.filter_cons, hx]
      exact ih'

/-! ### the parts of a state the property talks about -/

/-- equal up to `dv`, `sv`, `body` -/
def SameCore (a b : CState) : Prop :=
  a.h = b.h ∧ a.dh = b.dh ∧ a.assoc = b.assoc ∧ a.bindV = b.bindV ∧ a.unbindV = b.unbindV ∧
  a.bindT = b.bindT ∧ a.unbindT = b.unbindT

theorem bumpSv_core (tab : List CState) (t : List Handle) (s : CState) : SameCore (bumpSv tab t s) s := by
  unfold bumpSv SameCore
  split
  · split <;> simp
  · simp

theorem bumpWr_core (env : Env) (tab : List CState) (t : List Handle) (s : CState) : SameCore (bumpWr env tab t s) s := by
  unfold bumpWr SameCore
  split
  · split <;> simp
  · simp

/-! ### disOne -/

@[simp] theorem disOne_h (sk d ign nv now s) : (disOne sk d ign nv now s).h = s.h := by
  unfold disOne; split <;> (try split) <;> rfl

@[simp] theorem disOne_dh (sk d ign nv now s) : (disOne sk d ign nv now s).dh = s.dh := by
  unfold disOne; split <;> (try split) <;> rfl

@[simp] theorem disOne_bindV (sk d ign nv now s) : (disOne sk d ign nv now s).bindV = s.bindV := by
  unfold disOne; split <;> (try split) <;> rfl

@[simp] theorem disOne_bindT (sk d ign nv now s) : (disOne sk d ign nv now s).bindT = s.bindT := by
  unfold disOne; split <;> (try split) <;> rfl

theorem disOne_of_not_cond {sk d ign nv now s} (h : disCond sk d ign s = false) : disOne sk d ign nv now s = s := by
  unfold disOne; simp [h]

/-- `disOne` never produces an associated state out of a changed one -/
theorem disOne_assoc {sk d ign nv now s} (h : (disOne sk d ign nv now s).assoc = .assoc) :
    disOne sk d ign nv now s = s := by
  unfold disOne at h ⊢
  split at h
  · split at h <;> simp at h
  · rename_i hc; simp [hc]

/-- a changed state is `Dis`; version and time are written iff there was no unbinding version -/
theorem disOne_changed {sk d ign nv now s} (h : disCond sk d ign s = true) :
    (disOne sk d ign nv now s).assoc = .dis ∧
    (s.unbindV = none → (disOne sk d ign nv now s).unbindV = some nv ∧ (disOne sk d ign nv now s).unbindT = some now) := by
  unfold disOne
  simp only [h, if_true]
  split
  · simp
  · rename_i v hv; simp [hv]

theorem disCond_of_assoc {sk d ign s} (hd : s.dh = d) (hi : ign ≠ some s.h) (ha : s.assoc = .assoc) :
    disCond sk d ign s = true := by
  unfold disCond
  simp [hd, ha, hi]

theorem disOne_marked {sk d ign nv now v t s} (hm : Marked v t s) : disOne sk d ign nv now s = s := by
  apply disOne_of_not_cond
  unfold disCond
  rcases hm with ⟨h1, h2, _⟩
  simp [h1, h2]

theorem mem_disHandles {sk d ign} {w : List CState} {s : CState} (hs : s ∈ w) (hc : disCond sk d ign s = true) :
    s.h ∈ disHandles sk d ign w := by
  unfold disHandles
  exact List.mem_map.2 ⟨s, List.mem_filter.2 ⟨hs, hc⟩, rfl⟩

/-! ### the invariant of one operation -/

/-- what holds for the working table `w` of an operation that started from table `T` and commits as version `nv` -/
structure Post (env : Env) (T : List CState) (nv now : Nat) (w : List CState) : Prop where
  nodup : (w.map (·.h)).Nodup
  not_descr : ∀ s ∈ w, s.h ∉ env.handles
  uniq : ∀ a ∈ w, ∀ b ∈ w, a.dh = b.dh → a.assoc = .assoc → b.assoc = .assoc → a.h = b.h
  assoc_open : ∀ s ∈ w, s.assoc = .assoc → s.unbindV = none
  keep : ∀ a ∈ T, ∃ b ∈ w, b.h = a.h
  unb : ∀ a ∈ T, a.assoc = .assoc → ∀ b ∈ w, b.h = a.h → b.assoc ≠ .assoc → Marked nv now b
  bnd : ∀ b ∈ w, b.assoc = .assoc → (∀ a ∈ T, a.h = b.h → a.assoc ≠ .assoc) → b.bindV = some nv ∧ b.bindT = some now

/-- invariant of the loop over the proposals -/
structure StepInv (env : Env) (T : List CState) (fresh0 nv now : Nat) (k : Work) : Prop
    extends Post env T nv now k.w where
  lt_fresh : ∀ s ∈ k.w, s.h < k.fresh
  fresh_le : fresh0 ≤ k.fresh
  untouched : ∀ b ∈ k.w, b.h ∉ k.touched → b ∈ T

theorem StepInv.init {env : Env} {T : List CState} {fresh0 nv now : Nat}
    (hn : (T.map (·.h)).Nodup) (hlt : ∀ s ∈ T, s.h < fresh0) (hnd : ∀ s ∈ T, s.h ∉ env.handles)
    (hu : ∀ a ∈ T, ∀ b ∈ T, a.dh = b.dh → a.assoc = .assoc → b.assoc = .assoc → a.h = b.h)
    (ho : ∀ s ∈ T, s.assoc = .assoc → s.unbindV = none) :
    StepInv env T fresh0 nv now { w := T, touched := [], fresh := fresh0 } where
  nodup := hn
  not_descr := hnd
  uniq := hu
  assoc_open := ho
  keep := fun a ha => ⟨a, ha, rfl⟩
  unb := fun _ ha haa _ hb hab hba => absurd (eq_of_h_eq hn hb ha hab ▸ haa) hba
  bnd := fun _ hb hba h => absurd hba (h _ hb rfl)
  lt_fresh := hlt
  fresh_le := Nat.le_refl _
  untouched := fun _ hb _ => hb

/-- a step that rewrites the states pointwise (handles and descriptor handles stay) -/
theorem StepInv.map {env : Env} {T : List CState} {fresh0 nv now : Nat} {k : Work}
    (inv : StepInv env T fresh0 nv now k) (f : CState → CState) (hs : List Handle)
    (fh : ∀ s, (f s).h = s.h) (fdh : ∀ s, (f s).dh = s.dh)
    (fchg : ∀ s ∈ k.w, s.h ∉ hs → f s = s)
    (fopen : ∀ s ∈ k.w, (s.assoc = .assoc → s.unbindV = none) → (f s).assoc = .assoc → (f s).unbindV = none)
    (funiq : ∀ a ∈ k.w, ∀ b ∈ k.w, a.dh = b.dh → (f a).assoc = .assoc → (f b).assoc = .assoc →
      (a.assoc = .assoc → b.assoc = .assoc → a.h = b.h) → a.h = b.h)
    (funb : ∀ s ∈ k.w, (∃ a ∈ T, a.h = s.h ∧ a.assoc = .assoc) → (s.assoc ≠ .assoc → Marked nv now s) →
      (f s).assoc ≠ .assoc → Marked nv now (f s))
    (fbnd : ∀ s ∈ k.w, (∀ a ∈ T, a.h = s.h → a.assoc ≠ .assoc) →
      (s.assoc = .assoc → s.bindV = some nv ∧ s.bindT = some now) →
      (f s).assoc = .assoc → (f s).bindV = some nv ∧ (f s).bindT = some now) :
    StepInv env T fresh0 nv now { w := k.w.map f, touched := k.touched ++ hs, fresh := k.fresh } where
  nodup := by
    have : (k.w.map f).map (·.h) = k.w.map (·.h) := by
      rw [List.map_map]; apply List.map_congr_left; intro s _; exact fh s
    simpa [this] using inv.nodup
  not_descr := by
    intro b hb
    obtain ⟨s, hs', rfl⟩ := List.mem_map.1 hb
    rw [fh]; exact inv.not_descr s hs'
  uniq := by
    intro a ha b hb hd haa hba
    obtain ⟨a', ha', rfl⟩ := List.mem_map.1 ha
    obtain ⟨b', hb', rfl⟩ := List.mem_map.1 hb
    rw [fh, fh]
    rw [fdh, fdh] at hd
    exact funiq a' ha' b' hb' hd haa hba (inv.uniq a' ha' b' hb' hd)
  assoc_open := by
    intro b hb hba
    obtain ⟨s, hs', rfl⟩ := List.mem_map.1 hb
    exact fopen s hs' (inv.assoc_open s hs') hba
  keep := by
    intro a ha
    obtain ⟨b, hb, hab⟩ := inv.keep a ha
    exact ⟨f b, List.mem_map.2 ⟨b, hb, rfl⟩, by rw [fh]; exact hab⟩
  unb := by
    intro a ha haa b hb hab hba
    obtain ⟨s, hs', rfl⟩ := List.mem_map.1 hb
    rw [fh] at hab
    exact funb s hs' ⟨a, ha, hab.symm, haa⟩ (inv.unb a ha haa s hs' hab) hba
  bnd := by
    intro b hb hba hT
    obtain ⟨s, hs', rfl⟩ := List.mem_map.1 hb
    rw [fh] at hT
    exact fbnd s hs' hT (fun h => inv.bnd s hs' h hT) hba
  lt_fresh := by
    intro b hb
    obtain ⟨s, hs', rfl⟩ := List.mem_map.1 hb
    rw [fh]; exact inv.lt_fresh s hs'
  fresh_le := inv.fresh_le
  untouched := by
    intro b hb hnt
    obtain ⟨s, hs', rfl⟩ := List.mem_map.1 hb
    rw [fh] at hnt
    simp only [List.mem_append, not_or] at hnt
    rw [fchg s hs' hnt.2]
    exact inv.untouched s hs' hnt.1

/-- a step that adds a new state with the next fresh handle -/
theorem StepInv.push {env : Env} {T : List CState} {fresh0 nv now : Nat} {k : Work}
    (inv : StepInv env T fresh0 nv now k) (s : CState)
    (hTlt : ∀ a ∈ T, a.h < fresh0) (henv : ∀ d ∈ env.handles, d < fresh0)
    (hh : s.h = k.fresh)
    (hopen : s.assoc = .assoc → s.unbindV = none)
    (huniq : s.assoc = .assoc → ∀ b ∈ k.w, b.dh = s.dh → b.assoc ≠ .assoc)
    (hbnd : s.assoc = .assoc → s.bindV = some nv ∧ s.bindT = some now) :
    StepInv env T fresh0 nv now { w := k.w ++ [s], touched := k.touched ++ [s.h], fresh := k.fresh + 1 } where
  nodup := by
    rw [List.map_append, List.nodup_append]
    refine ⟨inv.nodup, by simp, ?_⟩
    intro x hx y hy
    obtain ⟨b, hb, rfl⟩ := List.mem_map.1 hx
    have hy : y = s.h := by simpa using hy
    rw [hy]
    exact ne_of_lt_of_eq (inv.lt_fresh b hb) hh
  not_descr := by
    intro b hb
    rcases List.mem_append.1 hb with hb | hb
    · exact inv.not_descr b hb
    · have hb : b = s := by simpa using hb
      intro hm
      rw [hb] at hm
      exact false_of_lt_le (henv _ hm) hh inv.fresh_le
  uniq := by
    intro a ha b hb hd haa hba
    rcases List.mem_append.1 ha with ha | ha <;> rcases List.mem_append.1 hb with hb | hb
    · exact inv.uniq a ha b hb hd haa hba
    · have hb : b = s := by simpa using hb
      rw [hb] at hba hd
      exact absurd haa (huniq hba a ha hd)
    · have ha : a = s := by simpa using ha
      rw [ha] at haa hd
      exact absurd hba (huniq haa b hb hd.symm)
    · have ha : a = s := by simpa using ha
      have hb : b = s := by simpa using hb
      rw [ha, hb]
  assoc_open := by
    intro b hb hba
    rcases List.mem_append.1 hb with hb | hb
    · exact inv.assoc_open b hb hba
    · have hb : b = s := by simpa using hb
      rw [hb] at hba ⊢; exact hopen hba
  keep := by
    intro a ha
    obtain ⟨b, hb, hab⟩ := inv.keep a ha
    exact ⟨b, List.mem_append_left _ hb, hab⟩
  unb := by
    intro a ha haa b hb hab hba
    rcases List.mem_append.1 hb with hb | hb
    · exact inv.unb a ha haa b hb hab hba
    · have hb : b = s := by simpa using hb
      rw [hb] at hab
      exact (false_of_lt_le (hTlt a ha) (hab ▸ hh) inv.fresh_le).elim
  bnd := by
    intro b hb hba hT
    rcases List.mem_append.1 hb with hb | hb
    · exact inv.bnd b hb hba hT
    · have hb : b = s := by simpa using hb
      rw [hb] at hba ⊢; exact hbnd hba
  lt_fresh := by
    intro b hb
    rcases List.mem_append.1 hb with hb | hb
    · exact Nat.lt_succ_of_lt (inv.lt_fresh b hb)
    · have hb : b = s := by simpa using hb
      rw [hb]; exact lt_succ_of_eq hh
  fresh_le := by
    exact Nat.le_succ_of_le inv.fresh_le
  untouched := by
    intro b hb hnt
    have hnt : b.h ∉ k.touched ∧ ¬ b.h = s.h := by simpa using hnt
    rcases List.mem_append.1 hb with hb | hb
    · exact inv.untouched b hb hnt.1
    · have hb : b = s := by simpa using hb
      exact absurd (by rw [hb]) hnt.2

/-! ### the five successful branches of `propStep` -/

/-- rewrite the state with handle `h` by `g`, all others by `e` -/
def updF (g : CState → CState) (h : Handle) (e : CState → CState) (s : CState) : CState :=
  if s.h == h then g s else e s

theorem updF_eq {g h e s} (hs : s.h = h) : updF g h e s = g s := by simp [updF, hs]
theorem updF_ne {g h e s} (hs : s.h ≠ h) : updF g h e s = e s := by simp [updF, hs]

section branches
variable {env : Env} {T : List CState} {fresh0 nv now : Nat} {k : Work} {p old : CState}

/-- update: associated → `Dis` -/
theorem inv_unbind (inv : StepInv env T fresh0 nv now k) (hpd : p.assoc = .dis) :
    StepInv env T fresh0 nv now
      { w := k.w.map (updF (fun s => { copyFrom p s with unbindV := some nv, unbindT := some now }) p.h id),
        touched := k.touched ++ [p.h], fresh := k.fresh } := by
  refine StepInv.map inv _ [p.h] ?_ ?_ ?_ ?_ ?_ ?_ ?_
  · intro s; by_cases hs : s.h = p.h
    · rw [updF_eq hs]; rfl
    · rw [updF_ne hs]; rfl
  · intro s; by_cases hs : s.h = p.h
    · rw [updF_eq hs]; rfl
    · rw [updF_ne hs]; rfl
  · intro s _ hs
    have hs : s.h ≠ p.h := by simpa using hs
    rw [updF_ne hs]; rfl
  · intro s _ ho ha; by_cases hs : s.h = p.h
    · rw [updF_eq hs] at ha; simp [copyFrom, hpd] at ha
    · rw [updF_ne hs] at ha ⊢; exact ho ha
  · intro a _ b _ _ haa hba ih
    by_cases hs : a.h = p.h
    · rw [updF_eq hs] at haa; simp [copyFrom, hpd] at haa
    · by_cases hs' : b.h = p.h
      · rw [updF_eq hs'] at hba; simp [copyFrom, hpd] at hba
      · rw [updF_ne hs] at haa; rw [updF_ne hs'] at hba; exact ih haa hba
  · intro s _ _ ih ha; by_cases hs : s.h = p.h
    · rw [updF_eq hs]; exact ⟨by simp [copyFrom, hpd], rfl, by simp⟩
    · rw [updF_ne hs] at ha ⊢; exact ih ha
  · intro s _ _ ih ha; by_cases hs : s.h = p.h
    · rw [updF_eq hs] at ha; simp [copyFrom, hpd] at ha
    · rw [updF_ne hs] at ha ⊢; exact ih ha

/-- update: neither associated before nor after, or associated before and after -/
theorem inv_plain (hT : (T.map (·.h)).Nodup) (inv : StepInv env T fresh0 nv now k)
    (hold : old ∈ k.w) (hoh : old.h = p.h) (hnt : p.h ∉ k.touched)
    (hiff : old.assoc = .assoc ↔ p.assoc = .assoc) :
    StepInv env T fresh0 nv now
      { w := k.w.map (updF (copyFrom p) p.h id), touched := k.touched ++ [p.h], fresh := k.fresh } := by
  have hso : ∀ s ∈ k.w, s.h = p.h → s = old := fun s hs h => eq_of_h_eq inv.nodup hs hold (h.trans hoh.symm)
  have holdT : old ∈ T := inv.untouched old hold (hoh ▸ hnt)
  refine StepInv.map inv _ [p.h] ?_ ?_ ?_ ?_ ?_ ?_ ?_
  · intro s; by_cases hs : s.h = p.h
    · rw [updF_eq hs]; rfl
    · rw [updF_ne hs]; rfl
  · intro s; by_cases hs : s.h = p.h
    · rw [updF_eq hs]; rfl
    · rw [updF_ne hs]; rfl
  · intro s _ hs
    have hs : s.h ≠ p.h := by simpa using hs
    rw [updF_ne hs]; rfl
  · intro s hsw ho ha; by_cases hs : s.h = p.h
    · rw [updF_eq hs] at ha ⊢
      have hpa : p.assoc = .assoc := by simpa [copyFrom] using ha
      have := hso s hsw hs
      subst this
      exact ho (hiff.2 hpa)
    · rw [updF_ne hs] at ha ⊢; exact ho ha
  · intro a haw b hbw _ haa hba ih
    have key : ∀ s ∈ k.w, (updF (copyFrom p) p.h id s).assoc = .assoc → s.assoc = .assoc := by
      intro s hsw ha
      by_cases hs : s.h = p.h
      · rw [updF_eq hs] at ha
        have hpa : p.assoc = .assoc := by simpa [copyFrom] using ha
        rw [hso s hsw hs]; exact hiff.2 hpa
      · rw [updF_ne hs] at ha; exact ha
    exact ih (key a haw haa) (key b hbw hba)
  · intro s hsw hex ih ha; by_cases hs : s.h = p.h
    · -- `old` is untouched, hence still the state of `T`: it was not associated in `T` either
      exfalso
      have hs' := hso s hsw hs
      subst hs'
      obtain ⟨a, haT, hah, haa⟩ := hex
      have : a = s := eq_of_h_eq hT haT holdT hah
      subst this
      rw [updF_eq hs] at ha
      exact ha (by simpa [copyFrom] using hiff.1 haa)
    · rw [updF_ne hs] at ha ⊢; exact ih ha
  · intro s hsw _ ih ha; by_cases hs : s.h = p.h
    · rw [updF_eq hs] at ha ⊢
      have hpa : p.assoc = .assoc := by simpa [copyFrom] using ha
      have hs' := hso s hsw hs
      subst hs'
      exact ih (hiff.2 hpa)
    · rw [updF_ne hs] at ha ⊢; exact ih ha

/-- pointwise facts about `disOne` on a state of the working table -/
theorem disOne_unb {sk d ign} (inv : StepInv env T fresh0 nv now k) {s : CState} (hsw : s ∈ k.w)
    (ih : s.assoc ≠ .assoc → Marked nv now s) (ha : (disOne sk d ign nv now s).assoc ≠ .assoc) :
    Marked nv now (disOne sk d ign nv now s) := by
  by_cases hsa : s.assoc = .assoc
  · cases hc : disCond sk d ign s
    · rw [disOne_of_not_cond hc] at ha; exact absurd hsa ha
    · obtain ⟨h1, h2⟩ := disOne_changed (nv := nv) (now := now) hc
      obtain ⟨h3, h4⟩ := h2 (inv.assoc_open s hsw hsa)
      exact ⟨h1, h3, by simp [h4]⟩
  · rw [disOne_marked (ih hsa)]; exact ih hsa

/-- update: not associated → associated; the other states of the descriptor are disassociated -/
theorem inv_bind (inv : StepInv env T fresh0 nv now k)
    (hold : old ∈ k.w) (hoh : old.h = p.h) (hodh : old.dh = p.dh) (hpa : p.assoc = .assoc)
    (hou : old.unbindV = none) :
    StepInv env T fresh0 nv now
      { w := k.w.map (updF (fun s => { copyFrom p s with bindV := some nv, bindT := some now }) p.h
                        (disOne true p.dh (some p.h) nv now)),
        touched := k.touched ++ (disHandles true p.dh (some p.h) k.w ++ [p.h]), fresh := k.fresh } := by
  have hso : ∀ s ∈ k.w, s.h = p.h → s = old := fun s hs h => eq_of_h_eq inv.nodup hs hold (h.trans hoh.symm)
  refine StepInv.map inv _ _ ?_ ?_ ?_ ?_ ?_ ?_ ?_
  · intro s; by_cases hs : s.h = p.h
    · rw [updF_eq hs]; rfl
    · rw [updF_ne hs]; simp
  · intro s; by_cases hs : s.h = p.h
    · rw [updF_eq hs]; rfl
    · rw [updF_ne hs]; simp
  · intro s hsw hs
    have hs : s.h ∉ disHandles true p.dh (some p.h) k.w ∧ s.h ≠ p.h := by simpa using hs
    rw [updF_ne hs.2]
    cases hc : disCond true p.dh (some p.h) s
    · exact disOne_of_not_cond hc
    · exact absurd (mem_disHandles hsw hc) hs.1
  · intro s hsw ho ha; by_cases hs : s.h = p.h
    · rw [updF_eq hs]
      have := hso s hsw hs
      subst this
      simpa [copyFrom] using hou
    · rw [updF_ne hs] at ha ⊢
      have h1 := disOne_assoc ha
      rw [h1] at ha ⊢; exact ho ha
  · intro a haw b hbw hd haa hba ih
    -- a state of this descriptor other than `p.h` is not associated afterwards
    have key : ∀ s ∈ k.w, s.h ≠ p.h → s.dh = p.dh → (disOne true p.dh (some p.h) nv now s).assoc ≠ .assoc := by
      intro s _ hs hsd hsa
      have h1 := disOne_assoc hsa
      rw [h1] at hsa
      have hc := disCond_of_assoc (sk := true) (ign := some p.h) hsd (by simpa using fun h => hs h.symm) hsa
      have := (disOne_changed (nv := nv) (now := now) hc).1
      rw [h1, hsa] at this; cases this
    by_cases hs : a.h = p.h <;> by_cases hs' : b.h = p.h
    · rw [hs, hs']
    · exfalso
      rw [updF_ne hs'] at hba
      have := hso a haw hs; subst this
      exact key b hbw hs' (hd.symm.trans hodh) hba
    · exfalso
      rw [updF_ne hs] at haa
      have := hso b hbw hs'; subst this
      exact key a haw hs (hd.trans hodh) haa
    · rw [updF_ne hs] at haa; rw [updF_ne hs'] at hba
      have h1 := disOne_assoc haa; have h2 := disOne_assoc hba
      rw [h1] at haa; rw [h2] at hba
      exact ih haa hba
  · intro s hsw _ ih ha; by_cases hs : s.h = p.h
    · rw [updF_eq hs] at ha; simp [copyFrom, hpa] at ha
    · rw [updF_ne hs] at ha ⊢; exact disOne_unb inv hsw ih ha
  · intro s _ _ ih ha; by_cases hs : s.h = p.h
    · rw [updF_eq hs]; simp
    · rw [updF_ne hs] at ha ⊢
      have h1 := disOne_assoc ha
      rw [h1] at ha ⊢; exact ih ha

/-- all states of descriptor `d` are disassociated (`disassociate_all` without an ignored handle) -/
theorem inv_dis (sk : Bool) (d : Handle) (inv : StepInv env T fresh0 nv now k) :
    StepInv env T fresh0 nv now
      { w := k.w.map (disOne sk d none nv now), touched := k.touched ++ disHandles sk d none k.w, fresh := k.fresh } := by
  refine StepInv.map inv _ _ ?_ ?_ ?_ ?_ ?_ ?_ ?_
  · intro s; simp
  · intro s; simp
  · intro s hsw hs
    cases hc : disCond sk d none s
    · exact disOne_of_not_cond hc
    · exact absurd (mem_disHandles hsw hc) hs
  · intro s _ ho ha
    have h1 := disOne_assoc ha
    rw [h1] at ha ⊢; exact ho ha
  · intro a _ b _ _ haa hba ih
    have h1 := disOne_assoc haa; have h2 := disOne_assoc hba
    rw [h1] at haa; rw [h2] at hba
    exact ih haa hba
  · intro s hsw _ ih ha; exact disOne_unb inv hsw ih ha
  · intro s _ _ ih ha
    have h1 := disOne_assoc ha
    rw [h1] at ha ⊢; exact ih ha

/-- … and none of them is associated afterwards -/
theorem dis_none_assoc (sk : Bool) (d : Handle) (w : List CState) :
    ∀ b ∈ w.map (disOne sk d none nv now), b.dh = d → b.assoc ≠ .assoc := by
  intro b hb hbd hba
  obtain ⟨s, _, rfl⟩ := List.mem_map.1 hb
  have h1 := disOne_assoc hba
  rw [h1] at hba hbd
  have hc := disCond_of_assoc (sk := sk) (ign := none) hbd (by simp) hba
  have := (disOne_changed (nv := nv) (now := now) hc).1
  rw [h1, hba] at this; cases this

end branches

/-! ### the loop over the proposals -/

theorem propStep_inv {env : Env} {T : List CState} {fresh0 nv now : Nat} {k k' : Work} {p : CState}
    (hT : (T.map (·.h)).Nodup) (hTlt : ∀ a ∈ T, a.h < fresh0) (henv : ∀ d ∈ env.handles, d < fresh0)
    (inv : StepInv env T fresh0 nv now k) (h : propStep env nv now k p = .ok k') : StepInv env T fresh0 nv now k' := by
  unfold propStep at h
  split at h
  · cases h
  · rename_i ddv _
    split at h
    · split at h
      · cases h
      · rename_i old hfind
        have hold : old ∈ k.w := List.mem_of_find?_eq_some hfind
        have hkey := List.find?_some hfind
        have hoh : old.h = p.h := by simp at hkey; exact hkey.1
        have hodh : old.dh = p.dh := by simp at hkey; exact hkey.2
        split at h
        · cases h
        · rename_i hnt
          have hnt : p.h ∉ k.touched := by simpa using hnt
          split at h
          · rename_i hc1
            split at h
            · cases h
            · rename_i hpd
              have hpd : p.assoc = .dis := by simpa using hpd
              cases h
              exact inv_unbind inv hpd
          · rename_i hc1
            split at h
            · rename_i hc2
              have hc2 : old.assoc ≠ .assoc ∧ p.assoc = .assoc := by simpa using hc2
              split at h
              · cases h
              · rename_i hou
                have hou : old.unbindV = none := by simpa using hou
                cases h
                have := inv_bind (now := now) inv hold hoh hodh hc2.2 hou
                rw [← List.append_assoc] at this
                exact this
            · rename_i hc2
              cases h
              have hiff : old.assoc = .assoc ↔ p.assoc = .assoc := by
                have hc1 : old.assoc = .assoc → p.assoc = .assoc := by simpa using hc1
                have hc2 : old.assoc ≠ .assoc → p.assoc ≠ .assoc := by simpa using hc2
                constructor
                · exact hc1
                · intro hp; exact Decidable.byContradiction fun hn => hc2 hn hp
              exact inv_plain hT inv hold hoh hnt hiff
    · split at h
      · rename_i hpa
        have hpa : p.assoc = .assoc := by simpa using hpa
        cases h
        have inv1 := inv_dis (now := now) true p.dh inv
        have := StepInv.push inv1
          { p with h := k.fresh, dv := ddv, bindV := some nv, bindT := some now, unbindV := none, unbindT := none }
          hTlt henv rfl (fun _ => rfl) (fun _ b hb hbd => dis_none_assoc true p.dh k.w b hb hbd)
          (fun _ => ⟨rfl, by simp⟩)
        exact this
      · cases h
        rename_i hpa
        have hpa : p.assoc ≠ .assoc := by simpa using hpa
        exact StepInv.push inv { p with h := k.fresh, dv := ddv } hTlt henv rfl
          (fun h => absurd h hpa) (fun h => absurd h hpa) (fun h => absurd h hpa)

theorem propLoop_inv {env : Env} {T : List CState} {fresh0 nv now : Nat}
    (hT : (T.map (·.h)).Nodup) (hTlt : ∀ a ∈ T, a.h < fresh0) (henv : ∀ d ∈ env.handles, d < fresh0)
    (ps : List CState) {k k' : Work}
    (inv : StepInv env T fresh0 nv now k) (h : propLoop env nv now k ps = .ok k') : StepInv env T fresh0 nv now k' := by
  induction ps generalizing k with
  | nil => simp [propLoop] at h; exact h ▸ inv
  | cons p ps ih =>
    unfold propLoop at h
    split at h
    · cases h
    · rename_i k1 hk1
      exact ih (propStep_inv hT hTlt henv inv hk1) h

/-! ### commit and the two operations -/

theorem Post.mapCore {env : Env} {T : List CState} {nv now : Nat} {w : List CState} (post : Post env T nv now w)
    (f : CState → CState) (hf : ∀ s, SameCore (f s) s) : Post env T nv now (w.map f) where
  nodup := by
    have : (w.map f).map (·.h) = w.map (·.h) := by
      rw [List.map_map]; apply List.map_congr_left; intro s _; exact (hf s).1
    simpa [this] using post.nodup
  not_descr := by
    intro b hb; obtain ⟨s, hs, rfl⟩ := List.mem_map.1 hb
    rw [(hf s).1]; exact post.not_descr s hs
  uniq := by
    intro a ha b hb hd haa hba
    obtain ⟨a', ha', rfl⟩ := List.mem_map.1 ha
    obtain ⟨b', hb', rfl⟩ := List.mem_map.1 hb
    rw [(hf a').1, (hf b').1]
    rw [(hf a').2.1, (hf b').2.1] at hd
    rw [(hf a').2.2.1] at haa; rw [(hf b').2.2.1] at hba
    exact post.uniq a' ha' b' hb' hd haa hba
  assoc_open := by
    intro b hb hba; obtain ⟨s, hs, rfl⟩ := List.mem_map.1 hb
    rw [(hf s).2.2.1] at hba; rw [(hf s).2.2.2.2.1]; exact post.assoc_open s hs hba
  keep := by
    intro a ha; obtain ⟨b, hb, hab⟩ := post.keep a ha
    exact ⟨f b, List.mem_map.2 ⟨b, hb, rfl⟩, by rw [(hf b).1]; exact hab⟩
  unb := by
    intro a ha haa b hb hab hba; obtain ⟨s, hs, rfl⟩ := List.mem_map.1 hb
    rw [(hf s).1] at hab; rw [(hf s).2.2.1] at hba
    have := post.unb a ha haa s hs hab hba
    unfold Marked at this ⊢
    rw [(hf s).2.2.1, (hf s).2.2.2.2.1, (hf s).2.2.2.2.2.2]; exact this
  bnd := by
    intro b hb hba hT; obtain ⟨s, hs, rfl⟩ := List.mem_map.1 hb
    rw [(hf s).1] at hT; rw [(hf s).2.2.1] at hba
    rw [(hf s).2.2.2.1, (hf s).2.2.2.2.2.1]; exact post.bnd s hs hba hT

theorem bumpSv_fresh {tab : List CState} {t : List Handle} {s : CState} (h : ∀ a ∈ tab, a.h ≠ s.h) :
    bumpSv tab t s = s := by
  unfold bumpSv
  have : tab.find? (fun a => a.h == s.h) = none := by
    apply List.find?_eq_none.2; intro a ha; simpa using h a ha
  simp [this]

/-- result of one operation on a well-formed state -/
structure StepOk (env : Env) (st st' : St) : Prop where
  post : Post env st.tab st'.ver st.clock st'.tab
  lt_fresh : ∀ s ∈ st'.tab, s.h < st'.fresh
  fresh_le : st.fresh ≤ st'.fresh
  ver : (st'.tab = st.tab ∧ st'.ver = st.ver) ∨ st'.ver = st.ver + 1

theorem StepOk.refl' {env : Env} {st st' : St} (hwf : WF env st) (ht : st'.tab = st.tab) (hv : st'.ver = st.ver)
    (hf : st'.fresh = st.fresh) : StepOk env st st' where
  post := by
    rw [ht]
    exact (StepInv.init (fresh0 := st.fresh) hwf.nodup hwf.lt_fresh hwf.not_descr hwf.uniq hwf.assoc_open).toPost
  lt_fresh := by rw [ht, hf]; exact hwf.lt_fresh
  fresh_le := by rw [hf]; exact Nat.le_refl _
  ver := .inl ⟨ht, hv⟩

theorem setContextState_ok {env : Env} {st : St} (hwf : WF env st) (ps : List CState) :
    StepOk env st (setContextState env st ps).1 := by
  unfold setContextState
  split
  · exact StepOk.refl' hwf rfl rfl rfl
  · split
    · exact StepOk.refl' hwf rfl rfl rfl
    · rename_i k hk
      split
      · exact StepOk.refl' hwf rfl rfl rfl
      · have inv := propLoop_inv hwf.nodup hwf.lt_fresh hwf.env_lt ps
          (StepInv.init (nv := st.ver + 1) hwf.nodup hwf.lt_fresh hwf.not_descr hwf.uniq hwf.assoc_open) hk
        refine ⟨inv.toPost.mapCore _ (bumpWr_core _ _ _), ?_, inv.fresh_le, .inr rfl⟩
        intro b hb
        obtain ⟨s, hs, rfl⟩ := List.mem_map.1 hb
        rw [(bumpWr_core _ _ _ s).1]; exact inv.lt_fresh s hs

theorem setLocation_ok {env : Env} {st : St} (hwf : WF env st) (loc : Nat) (dh : Option Handle) :
    StepOk env st (setLocation env st loc dh).1 := by
  unfold setLocation
  split
  · exact StepOk.refl' hwf rfl rfl rfl
  · split
    · exact StepOk.refl' hwf rfl rfl rfl
    · rename_i d _
      split
      · exact StepOk.refl' hwf rfl rfl rfl
      · rename_i ddv _
        split
        · exact StepOk.refl' hwf rfl rfl rfl
        · have inv0 := StepInv.init (env := env) (nv := st.ver + 1) (now := st.clock) hwf.nodup hwf.lt_fresh hwf.not_descr hwf.uniq hwf.assoc_open
          have inv1 := inv_dis false d inv0
          have inv2 := StepInv.push inv1
            { h := st.fresh, dh := d, dv := ddv, sv := 0, body := loc, assoc := .assoc,
              bindV := some (st.ver + 1), unbindV := none, bindT := some st.clock, unbindT := none }
            hwf.lt_fresh hwf.env_lt rfl (fun _ => rfl) (fun _ b hb hbd => dis_none_assoc false d st.tab b hb hbd)
            (fun _ => ⟨rfl, by simp⟩)
          have post := inv2.toPost.mapCore _ (bumpSv_core st.tab (disHandles false d none st.tab))
          have hnew : bumpSv st.tab (disHandles false d none st.tab)
              { h := st.fresh, dh := d, dv := ddv, sv := 0, body := loc, assoc := .assoc,
                bindV := some (st.ver + 1), unbindV := none, bindT := some st.clock, unbindT := none } = _ :=
            bumpSv_fresh (fun a ha => Nat.ne_of_lt (hwf.lt_fresh a ha))
          simp only [List.map_append, List.map_cons, List.map_nil, hnew] at post
          refine ⟨post, ?_, Nat.le_succ _, .inr rfl⟩
          intro b hb
          rcases List.mem_append.1 hb with hb | hb
          · obtain ⟨s, hs, rfl⟩ := List.mem_map.1 hb
            rw [(bumpSv_core _ _ s).1]
            exact Nat.lt_succ_of_lt (inv1.lt_fresh s hs)
          · rw [List.mem_singleton] at hb
            rw [hb]; exact Nat.lt_succ_self _

theorem step_ok {env : Env} {st : St} (hwf : WF env st) (op : Op) : StepOk env st (step env st op).1 := by
  cases op with
  | setLocation loc dh => exact setLocation_ok hwf loc dh
  | setContextState ps => exact setContextState_ok hwf ps
  | otherCommit =>
    exact ⟨(StepInv.init (fresh0 := st.fresh) hwf.nodup hwf.lt_fresh hwf.not_descr hwf.uniq hwf.assoc_open).toPost,
      hwf.lt_fresh, Nat.le_refl _, .inr rfl⟩

theorem StepOk.wf {env : Env} {st st' : St} (hwf : WF env st) (ok : StepOk env st st') : WF env st' where
  nodup := ok.post.nodup
  lt_fresh := ok.lt_fresh
  env_lt := fun d hd => Nat.lt_of_lt_of_le (hwf.env_lt d hd) ok.fresh_le
  not_descr := ok.post.not_descr
  uniq := ok.post.uniq
  assoc_open := ok.post.assoc_open

theorem wf_step {env : Env} {st : St} (hwf : WF env st) (op : Op) : WF env (step env st op).1 :=
  (step_ok hwf op).wf hwf

theorem wf_run {env : Env} {st : St} (hwf : WF env st) (ops : List Op) : WF env (run env st ops) := by
  induction ops generalizing st with
  | nil => exact hwf
  | cons op ops ih => exact ih (wf_step hwf op)

end Sdc.ContextAssoc
