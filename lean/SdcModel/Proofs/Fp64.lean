import SdcModel.Fp64
import Mathlib.Tactic.Linarith
import Mathlib.Tactic.Positivity
import Mathlib.Tactic.NormNum
import Mathlib.Tactic.Ring
import Mathlib.Tactic.FieldSimp
import Mathlib.Data.Rat.Defs
import Mathlib.Algebra.Order.Field.Power
/-!
# Error analysis of the executable binary64 model `SdcModel/Fp64.lean`

`rnRat_err`: the mantissa/exponent pair computed by `rnRat` is within relative error `2^-53` of the exact quotient
(proved about the executable definition: normalisation via `Nat.log2`, rounding via `roundNE`).
`roundNE_near`: an integer closer than 1/2 to `N / D` is what `roundNE` returns.
-/
namespace Sdc.Fp64

/-- `|x|` as a rational number -/
def Fp.abs (x : Fp) : ℚ := (x.m : ℚ) * (2:ℚ) ^ x.e

/-! ### roundNE -/

theorem roundNE_near (N D n : Nat) (hD : 0 < D) (h1 : 2 * N < 2 * (n * D) + D) (h2 : 2 * (n * D) < 2 * N + D) :
    roundNE N D = n := by
  rcases Nat.lt_or_ge N (n * D) with hlt | hge
  · -- N = (n-1) D + (D - s)
    obtain ⟨n', rfl⟩ : ∃ n', n = n' + 1 := by
      cases n with
      | zero => simp at hlt
      | succ n' => exact ⟨n', rfl⟩
    have hexp : (n' + 1) * D = n' * D + D := by ring
    rw [hexp] at hlt h1 h2
    obtain ⟨r, hr⟩ : ∃ r, N = r + n' * D := ⟨N - n' * D, by omega⟩
    have hrD : r < D := by omega
    have hq : N / D = n' := by
      rw [hr, Nat.add_mul_div_right _ _ hD, Nat.div_eq_of_lt hrD]; simp
    have hm : N % D = r := by
      rw [hr, Nat.add_mul_mod_self_right, Nat.mod_eq_of_lt hrD]
    unfold roundNE
    rw [hq, hm]
    have c1 : ¬ (2 * r < D) := by omega
    have c2 : D < 2 * r := by omega
    simp [c1, c2]
  · obtain ⟨r, hr⟩ : ∃ r, N = r + n * D := ⟨N - n * D, by omega⟩
    have hrD : r < D := by omega
    have hq : N / D = n := by
      rw [hr, Nat.add_mul_div_right _ _ hD, Nat.div_eq_of_lt hrD]; simp
    have hm : N % D = r := by
      rw [hr, Nat.add_mul_mod_self_right, Nat.mod_eq_of_lt hrD]
    unfold roundNE
    rw [hq, hm]
    have c1 : 2 * r < D := by omega
    simp [c1]

theorem roundNE_err (N D : Nat) (hD : 0 < D) : |(roundNE N D : ℚ) - (N : ℚ) / D| ≤ 1 / 2 := by
  have hDq : (0:ℚ) < D := by exact_mod_cast hD
  have hdm : (N : ℚ) = (D : ℚ) * (N / D : ℕ) + (N % D : ℕ) := by exact_mod_cast (Nat.div_add_mod N D).symm
  have hND : (N : ℚ) / D = (N / D : ℕ) + ((N % D : ℕ) : ℚ) / D := by
    rw [hdm]; field_simp
  have hr : ((N % D : ℕ) : ℚ) < D := by exact_mod_cast Nat.mod_lt N hD
  have hr0 : (0:ℚ) ≤ ((N % D : ℕ) : ℚ) := by positivity
  set q : ℚ := ((N / D : ℕ) : ℚ) with hq
  set r : ℚ := ((N % D : ℕ) : ℚ) with hrdef
  have key : ∀ z : ℚ, |z - (q + r / D)| ≤ 1/2 ↔ (z - q) * D - r ≤ D / 2 ∧ -(D / 2) ≤ (z - q) * D - r := by
    intro z
    rw [abs_le]
    have e : z - (q + r / D) = ((z - q) * D - r) / D := by field_simp; ring
    rw [e, le_div_iff₀ hDq, div_le_iff₀ hDq]
    constructor <;> rintro ⟨a, b⟩ <;> constructor <;> linarith
  rw [hND]
  unfold roundNE
  split
  · rename_i h
    have h' : 2 * r < D := by rw [hrdef]; exact_mod_cast h
    rw [key]; constructor <;> linarith
  · rename_i h
    split
    · rename_i h2
      have h' : (D:ℚ) < 2 * r := by rw [hrdef]; exact_mod_cast h2
      rw [key]; push_cast; constructor <;> linarith
    · rename_i h2
      have h' : (D:ℚ) = 2 * r := by
        have : D = 2 * (N % D) := by omega
        rw [hrdef]; exact_mod_cast this
      split
      · rw [key]; constructor <;> linarith
      · rw [key]; push_cast; constructor <;> linarith

/-! ### scaling and normalisation -/

theorem two_zpow_pos (e : ℤ) : (0:ℚ) < (2:ℚ) ^ e := zpow_pos (by norm_num) e

theorem scaleD_pos (b : Nat) (e : ℤ) (hb : 0 < b) : 0 < scaleD b e := by
  unfold scaleD; split
  · exact Nat.mul_pos hb (Nat.pow_pos (by norm_num))
  · exact hb

/-- `scaleN a e / scaleD b e = (a / b) / 2^e` -/
theorem scale_ratio (a b : Nat) (e : ℤ) :
    (scaleN a e : ℚ) / (scaleD b e : ℚ) = (a : ℚ) / b * (2:ℚ) ^ (-e) := by
  unfold scaleN scaleD
  rcases lt_or_ge e 0 with h | h
  · obtain ⟨k, rfl⟩ := Int.exists_eq_neg_ofNat (le_of_lt h)
    have h' : ¬ (0 ≤ -(k:ℤ)) := by omega
    simp only [h', if_false, neg_neg, Int.toNat_natCast, zpow_natCast]
    push_cast; ring
  · obtain ⟨k, rfl⟩ := Int.eq_ofNat_of_zero_le h
    simp only [h, if_true, Int.toNat_natCast, zpow_neg, zpow_natCast]
    push_cast
    rw [div_mul_eq_div_div]; ring

theorem log2_bounds (a : Nat) (ha : 0 < a) :
    (2:ℚ) ^ (a.log2 : ℤ) ≤ a ∧ (a:ℚ) < (2:ℚ) ^ ((a.log2 : ℤ) + 1) := by
  constructor
  · rw [zpow_natCast]; exact_mod_cast Nat.log2_self_le (by omega)
  · have : ((a.log2 : ℤ) + 1) = ((a.log2 + 1 : ℕ) : ℤ) := by push_cast; ring
    rw [this, zpow_natCast]; exact_mod_cast Nat.lt_log2_self

/-- the exponent chosen by `expOf` puts the scaled quotient into `[2^52, 2^53)` -/
theorem expOf_spec (a b : Nat) (ha : 0 < a) (hb : 0 < b) :
    (2:ℚ) ^ 52 ≤ (a : ℚ) / b * (2:ℚ) ^ (-(expOf a b)) ∧ (a : ℚ) / b * (2:ℚ) ^ (-(expOf a b)) < (2:ℚ) ^ 53 := by
  obtain ⟨la1, la2⟩ := log2_bounds a ha
  obtain ⟨lb1, lb2⟩ := log2_bounds b hb
  have hbq : (0:ℚ) < b := by exact_mod_cast hb
  have haq : (0:ℚ) < a := by exact_mod_cast ha
  set la : ℤ := (a.log2 : ℤ)
  set lb : ℤ := (b.log2 : ℤ)
  have h2 : (2:ℚ) ≠ 0 := by norm_num
  -- bounds of a / b
  have lo : (2:ℚ) ^ (la - lb - 1) < (a:ℚ) / b := by
    rw [lt_div_iff₀ hbq]
    calc (2:ℚ) ^ (la - lb - 1) * b < (2:ℚ) ^ (la - lb - 1) * (2:ℚ) ^ (lb + 1) :=
          mul_lt_mul_of_pos_left lb2 (two_zpow_pos _)
      _ = (2:ℚ) ^ la := by rw [← zpow_add₀ h2]; congr 1; ring
      _ ≤ a := la1
  have hi : (a:ℚ) / b < (2:ℚ) ^ (la + 1 - lb) := by
    rw [div_lt_iff₀ hbq]
    calc (a:ℚ) < (2:ℚ) ^ (la + 1) := la2
      _ = (2:ℚ) ^ (la + 1 - lb) * (2:ℚ) ^ lb := by rw [← zpow_add₀ h2]; congr 1; ring
      _ ≤ (2:ℚ) ^ (la + 1 - lb) * b := mul_le_mul_of_nonneg_left lb1 (le_of_lt (two_zpow_pos _))
  set e0 : ℤ := la - lb - 53 with he0
  have lo0 : (2:ℚ) ^ 52 < (a : ℚ) / b * (2:ℚ) ^ (-e0) := by
    calc (2:ℚ) ^ 52 = (2:ℚ) ^ (la - lb - 1) * (2:ℚ) ^ (-e0) := by
          rw [← zpow_add₀ h2]
          have : la - lb - 1 + -e0 = ((52:ℕ):ℤ) := by rw [he0]; push_cast; ring
          rw [this, zpow_natCast]
      _ < (a : ℚ) / b * (2:ℚ) ^ (-e0) := mul_lt_mul_of_pos_right lo (two_zpow_pos _)
  have hi0 : (a : ℚ) / b * (2:ℚ) ^ (-e0) < (2:ℚ) ^ 54 := by
    calc (a : ℚ) / b * (2:ℚ) ^ (-e0) < (2:ℚ) ^ (la + 1 - lb) * (2:ℚ) ^ (-e0) :=
          mul_lt_mul_of_pos_right hi (two_zpow_pos _)
      _ = (2:ℚ) ^ 54 := by
          rw [← zpow_add₀ h2]
          have : la + 1 - lb + -e0 = ((54:ℕ):ℤ) := by rw [he0]; push_cast; ring
          rw [this, zpow_natCast]
  have hD0 : (0:ℚ) < (scaleD b e0 : ℚ) := by exact_mod_cast scaleD_pos b e0 hb
  have htest : (scaleN a e0 < 2 ^ 53 * scaleD b e0) ↔ (a : ℚ) / b * (2:ℚ) ^ (-e0) < (2:ℚ) ^ 53 := by
    rw [← scale_ratio, div_lt_iff₀ hD0]
    constructor
    · intro h; exact_mod_cast h
    · intro h; exact_mod_cast h
  have hexp : expOf a b = if scaleN a e0 < 2 ^ 53 * scaleD b e0 then e0 else e0 + 1 := rfl
  rw [hexp]
  split
  · rename_i h
    exact ⟨le_of_lt lo0, htest.mp h⟩
  · rename_i h
    have hge : (2:ℚ) ^ 53 ≤ (a : ℚ) / b * (2:ℚ) ^ (-e0) := not_lt.mp (fun h' => h (htest.mpr h'))
    have hstep : (2:ℚ) ^ (-(e0 + 1)) = (2:ℚ) ^ (-e0) / 2 := by
      have : -(e0 + 1) = -e0 + (-1) := by ring
      rw [this, zpow_add₀ h2]; norm_num; ring
    rw [hstep]
    constructor
    · have : (2:ℚ) ^ 52 = (2:ℚ) ^ 53 / 2 := by norm_num
      rw [this, mul_div_assoc']; exact div_le_div_of_nonneg_right hge (by norm_num)
    · have : (2:ℚ) ^ 53 = (2:ℚ) ^ 54 / 2 := by norm_num
      rw [this, mul_div_assoc']; exact div_lt_div_of_pos_right hi0 (by norm_num)

/-! ### error bound of the correctly rounded quotient -/

/-- unit round-off of binary64 -/
def u : ℚ := 1 / 2 ^ 53

theorem rnPos_err (a b : Nat) (ha : 0 < a) (hb : 0 < b) :
    |((rnPos a b).1 : ℚ) * (2:ℚ) ^ (rnPos a b).2 - (a : ℚ) / b| ≤ (a : ℚ) / b * u := by
  obtain ⟨lo, hi⟩ := expOf_spec a b ha hb
  have h2 : (2:ℚ) ≠ 0 := by norm_num
  set e := expOf a b with he
  have hDn : 0 < scaleD b e := scaleD_pos b e hb
  have hr := roundNE_err (scaleN a e) (scaleD b e) hDn
  rw [scale_ratio] at hr
  set R : ℚ := (a : ℚ) / b * (2:ℚ) ^ (-e) with hR
  set m0 := roundNE (scaleN a e) (scaleD b e) with hm0
  have hpe : (0:ℚ) < (2:ℚ) ^ e := two_zpow_pos e
  have hab : (a : ℚ) / b = R * (2:ℚ) ^ e := by
    rw [hR, mul_assoc, ← zpow_add₀ h2]; simp
  -- the value is m0 * 2^e in both branches
  have hval : ((rnPos a b).1 : ℚ) * (2:ℚ) ^ (rnPos a b).2 = (m0 : ℚ) * (2:ℚ) ^ e := by
    have hdef : rnPos a b = if m0 = 2 ^ 53 then (2 ^ 52, e + 1) else (m0, e) := rfl
    rw [hdef]
    split
    · rename_i h
      rw [h, zpow_add₀ h2]; push_cast; ring
    · rfl
  rw [hval, hab]
  have : (m0 : ℚ) * (2:ℚ) ^ e - R * (2:ℚ) ^ e = ((m0 : ℚ) - R) * (2:ℚ) ^ e := by ring
  rw [this, abs_mul, abs_of_pos hpe]
  have h1 : |(m0 : ℚ) - R| * (2:ℚ) ^ e ≤ 1 / 2 * (2:ℚ) ^ e := mul_le_mul_of_nonneg_right hr (le_of_lt hpe)
  have h3 : 1 / 2 * (2:ℚ) ^ e ≤ R * (2:ℚ) ^ e * u := by
    have : (1:ℚ) / 2 ≤ R * u := by
      unfold u
      have : (2:ℚ) ^ 52 * (1 / 2 ^ 53) ≤ R * (1 / 2 ^ 53) := mul_le_mul_of_nonneg_right lo (by positivity)
      norm_num at this ⊢; linarith
    calc 1 / 2 * (2:ℚ) ^ e ≤ R * u * (2:ℚ) ^ e := mul_le_mul_of_nonneg_right this (le_of_lt hpe)
      _ = R * (2:ℚ) ^ e * u := by ring
  linarith

/-- relative error of `rnRat`: at most `2^-53` (no assumption on `a`) -/
theorem rnRat_err (neg : Bool) (a b : Nat) (hb : 0 < b) :
    |(rnRat neg a b).abs - (a : ℚ) / b| ≤ (a : ℚ) / b * u := by
  unfold rnRat Fp.abs
  split
  · rename_i h; subst h; simp
  · rename_i h
    exact rnPos_err a b (Nat.pos_of_ne_zero h) hb

theorem rnRat_neg (neg : Bool) (a b : Nat) : (rnRat neg a b).neg = neg := by
  unfold rnRat; split <;> rfl

theorem valD_pos (x : Fp) : 0 < valD x := by
  unfold valD; split
  · exact Nat.one_pos
  · exact Nat.pow_pos (by norm_num)

/-- `valN x / valD x = |x|` -/
theorem val_ratio (x : Fp) : (valN x : ℚ) / (valD x : ℚ) = x.abs := by
  unfold valN valD Fp.abs
  rcases lt_or_ge x.e 0 with h | h
  · obtain ⟨k, hk⟩ := Int.exists_eq_neg_ofNat (le_of_lt h)
    have h' : ¬ (0 ≤ -(k:ℤ)) := by omega
    simp only [hk, h', if_false, neg_neg, Int.toNat_natCast, zpow_neg, zpow_natCast]
    push_cast; rw [div_eq_mul_inv]
  · obtain ⟨k, hk⟩ := Int.eq_ofNat_of_zero_le h
    have h' : (0:ℤ) ≤ (k:ℤ) := by omega
    simp only [hk, h', if_true, Int.toNat_natCast, zpow_natCast]
    push_cast; ring

theorem Fp.abs_nonneg (x : Fp) : 0 ≤ x.abs := by
  unfold Fp.abs; exact mul_nonneg (by positivity) (le_of_lt (two_zpow_pos _))

/-- relative error of the float product with an integer -/
theorem rnMul_err (x : Fp) (k : Nat) : |(rnMul x k).abs - x.abs * k| ≤ x.abs * k * u := by
  have h := rnRat_err x.neg (valN x * k) (valD x) (valD_pos x)
  have hD : (0:ℚ) < valD x := by exact_mod_cast valD_pos x
  have e : ((valN x * k : ℕ) : ℚ) / (valD x : ℚ) = x.abs * k := by
    rw [← val_ratio]; push_cast; ring
  rw [e] at h
  exact h

/-- Python `round(x)`: an integer closer than 1/2 to the float is the result -/
theorem roundHalfEven_near (x : Fp) (n : Nat) (h : |x.abs - n| < 1 / 2) : roundHalfEven x = n := by
  have hD : (0:ℚ) < valD x := by exact_mod_cast valD_pos x
  rw [← val_ratio, abs_lt] at h
  obtain ⟨h1, h2⟩ := h
  have e : (valN x : ℚ) / valD x - n = ((valN x : ℚ) - n * valD x) / valD x := by field_simp
  rw [e] at h1 h2
  rw [lt_div_iff₀ hD] at h1
  rw [div_lt_iff₀ hD] at h2
  apply roundNE_near _ _ _ (valD_pos x)
  · have : (2:ℚ) * valN x < 2 * (n * valD x) + valD x := by linarith
    exact_mod_cast this
  · have : (2:ℚ) * (n * valD x) < 2 * valN x + valD x := by linarith
    exact_mod_cast this

/-- distance of `round(x)` from `x` -/
theorem roundHalfEven_err (x : Fp) : |(roundHalfEven x : ℚ) - x.abs| ≤ 1 / 2 := by
  rw [← val_ratio]; exact roundNE_err _ _ (valD_pos x)

/-! ### floor / fraction and exactly representable quotients (used by the duration float steps) -/

/-- which way `N / D` is rounded when an integer `n` is closer than 1/2 -/
theorem near_cases (N D n : Nat) (hD : 0 < D) (h1 : 2 * N < 2 * (n * D) + D) (h2 : 2 * (n * D) < 2 * N + D) :
    (N / D = n ∧ 2 * (N % D) < D) ∨ (N / D + 1 = n ∧ D < 2 * (N % D)) := by
  rcases Nat.lt_or_ge N (n * D) with hlt | hge
  · obtain ⟨n', rfl⟩ : ∃ n', n = n' + 1 := by
      cases n with
      | zero => simp at hlt
      | succ n' => exact ⟨n', rfl⟩
    have hexp : (n' + 1) * D = n' * D + D := by ring
    rw [hexp] at hlt h1 h2
    obtain ⟨r, hr⟩ : ∃ r, N = r + n' * D := ⟨N - n' * D, by omega⟩
    have hrD : r < D := by omega
    have hq : N / D = n' := by
      rw [hr, Nat.add_mul_div_right _ _ hD, Nat.div_eq_of_lt hrD]; simp
    have hm : N % D = r := by
      rw [hr, Nat.add_mul_mod_self_right, Nat.mod_eq_of_lt hrD]
    right; rw [hq, hm]; constructor <;> omega
  · obtain ⟨r, hr⟩ : ∃ r, N = r + n * D := ⟨N - n * D, by omega⟩
    have hrD : r < D := by omega
    have hq : N / D = n := by
      rw [hr, Nat.add_mul_div_right _ _ hD, Nat.div_eq_of_lt hrD]; simp
    have hm : N % D = r := by
      rw [hr, Nat.add_mul_mod_self_right, Nat.mod_eq_of_lt hrD]
    left; rw [hq, hm]; constructor <;> omega

theorem near_cases_fp (x : Fp) (n : Nat) (h : |x.abs - n| < 1 / 2) :
    (valN x / valD x = n ∧ 2 * (valN x % valD x) < valD x) ∨
      (valN x / valD x + 1 = n ∧ valD x < 2 * (valN x % valD x)) := by
  have hD : (0:ℚ) < valD x := by exact_mod_cast valD_pos x
  rw [← val_ratio, abs_lt] at h
  obtain ⟨h1, h2⟩ := h
  have e : (valN x : ℚ) / valD x - n = ((valN x : ℚ) - n * valD x) / valD x := by field_simp
  rw [e] at h1 h2
  rw [lt_div_iff₀ hD] at h1
  rw [div_lt_iff₀ hD] at h2
  apply near_cases _ _ _ (valD_pos x)
  · have : (2:ℚ) * valN x < 2 * (n * valD x) + valD x := by linarith
    exact_mod_cast this
  · have : (2:ℚ) * (n * valD x) < 2 * valN x + valD x := by linarith
    exact_mod_cast this

/-- `math.modf`: integral part … -/
theorem floorNat_eq (x : Fp) (s : Nat) (h1 : (s : ℚ) ≤ x.abs) (h2 : x.abs < s + 1) : floorNat x = s := by
  have hD : (0:ℚ) < valD x := by exact_mod_cast valD_pos x
  rw [← val_ratio] at h1 h2
  rw [le_div_iff₀ hD] at h1
  rw [div_lt_iff₀ hD] at h2
  have a1 : s * valD x ≤ valN x := by exact_mod_cast h1
  have a2 : valN x < (s + 1) * valD x := by exact_mod_cast h2
  unfold floorNat
  apply Nat.div_eq_of_lt_le
  · rw [Nat.mul_comm] at a1; rwa [Nat.mul_comm]
  · rwa [Nat.mul_comm] at a2 ⊢

/-- … and fractional part -/
theorem frac_ratio (x : Fp) : ((valN x % valD x : ℕ) : ℚ) / valD x = x.abs - (floorNat x : ℚ) := by
  have hD : (0:ℚ) < valD x := by exact_mod_cast valD_pos x
  have hdm : (valN x : ℚ) = (valD x : ℚ) * (valN x / valD x : ℕ) + (valN x % valD x : ℕ) := by
    exact_mod_cast (Nat.div_add_mod (valN x) (valD x)).symm
  rw [← val_ratio]
  unfold floorNat
  rw [eq_sub_iff_add_eq, div_add' _ _ _ (ne_of_gt hD), div_left_inj' (ne_of_gt hD)]
  linarith

/-- value computed by `rnPos`, in terms of the rounded scaled quotient -/
theorem rnPos_val (a b : Nat) :
    ((rnPos a b).1 : ℚ) * (2:ℚ) ^ (rnPos a b).2 =
      (roundNE (scaleN a (expOf a b)) (scaleD b (expOf a b)) : ℚ) * (2:ℚ) ^ (expOf a b) := by
  have h2 : (2:ℚ) ≠ 0 := by norm_num
  have hdef : rnPos a b = if roundNE (scaleN a (expOf a b)) (scaleD b (expOf a b)) = 2 ^ 53
      then (2 ^ 52, expOf a b + 1) else (roundNE (scaleN a (expOf a b)) (scaleD b (expOf a b)), expOf a b) := rfl
  rw [hdef]
  split
  · rename_i h
    rw [h, zpow_add₀ h2]; push_cast; ring
  · rfl

/-- an integer quotient below `2^53` is represented exactly -/
theorem rnRat_exact (neg : Bool) (a b q : Nat) (hb : 0 < b) (hq : a = q * b) (hlt : q < 2 ^ 53) :
    (rnRat neg a b).abs = q := by
  unfold rnRat Fp.abs
  split
  · rename_i h0
    have : q = 0 := by
      rcases Nat.eq_zero_or_pos q with h | h
      · exact h
      · exfalso; have := Nat.mul_pos h hb; omega
    simp [this]
  · rename_i h0
    have ha : 0 < a := Nat.pos_of_ne_zero h0
    show ((rnPos a b).1 : ℚ) * (2:ℚ) ^ (rnPos a b).2 = q
    rw [rnPos_val]
    obtain ⟨lo, hi⟩ := expOf_spec a b ha hb
    set e := expOf a b with he
    have hbq : (0:ℚ) < b := by exact_mod_cast hb
    have hab : (a:ℚ) / b = q := by rw [hq]; push_cast; field_simp
    rw [hab] at lo
    have h2 : (2:ℚ) ≠ 0 := by norm_num
    -- e ≤ 0
    have hle : e ≤ 0 := by
      by_contra hgt
      have hgt' : (1:ℤ) ≤ e := by omega
      have hz : (2:ℚ) ^ (-e) ≤ (2:ℚ) ^ (-1:ℤ) := zpow_le_zpow_right₀ (by norm_num) (by omega)
      have hq0 : (0:ℚ) ≤ q := by positivity
      have hq53 : (q:ℚ) < 2 ^ 53 := by exact_mod_cast hlt
      have : (q:ℚ) * (2:ℚ) ^ (-e) ≤ q * (2:ℚ) ^ (-1:ℤ) := mul_le_mul_of_nonneg_left hz hq0
      norm_num at this lo
      linarith
    obtain ⟨k, hk⟩ := Int.exists_eq_neg_ofNat hle
    have hN : scaleN a e = a * 2 ^ k := by
      unfold scaleN
      rw [hk]
      by_cases h0 : (0:ℤ) ≤ -(k:ℤ)
      · have : k = 0 := by omega
        simp [this]
      · have hk0 : k ≠ 0 := by omega
        simp [hk0]
    have hDd : scaleD b e = b := by
      unfold scaleD
      rw [hk]
      by_cases h0 : (0:ℤ) ≤ -(k:ℤ)
      · have : k = 0 := by omega
        simp [this]
      · have hk0 : k ≠ 0 := by omega
        simp [hk0]
    have hdiv : scaleN a e = (q * 2 ^ k) * scaleD b e := by rw [hN, hDd, hq]; ring
    have hr : roundNE (scaleN a e) (scaleD b e) = q * 2 ^ k := by
      apply roundNE_near _ _ _ (by rw [hDd]; exact hb)
      · rw [hdiv]; have := scaleD_pos b e hb; omega
      · rw [hdiv]; have := scaleD_pos b e hb; omega
    rw [hr, hk]
    push_cast
    rw [zpow_neg, zpow_natCast]
    field_simp

end Sdc.Fp64
