import SdcModel.Query
import Mathlib.Data.List.Perm.Subperm
import Mathlib.Data.List.Nodup
/-! helper lemmas for `Properties/C20.lean` -/
namespace Sdc.Query

/-! ## dedup -/
section generic
variable {α : Type} [DecidableEq α]

theorem mem_dedup {a : α} {l : List α} : a ∈ dedup l ↔ a ∈ l := by
  induction l with
  | nil => simp [dedup]
  | cons b l ih =>
    simp only [dedup, List.mem_cons, List.mem_filter, ih, decide_eq_true_eq]
    by_cases h : a = b <;> simp [h]

theorem nodup_dedup (l : List α) : (dedup l).Nodup := by
  induction l with
  | nil => simp [dedup]
  | cons b l ih =>
    simp only [dedup, List.nodup_cons, List.mem_filter, decide_eq_true_eq]
    exact ⟨fun h => h.2 rfl, ih.filter _⟩

theorem dedup_eq_self {l : List α} (h : l.Nodup) : dedup l = l := by
  induction l with
  | nil => rfl
  | cons b l ih =>
    rw [List.nodup_cons] at h
    simp only [dedup, ih h.2]
    congr 1
    rw [List.filter_eq_self]
    intro x hx
    simp only [decide_eq_true_eq]
    rintro rfl
    exact h.1 hx

omit [DecidableEq α] in
theorem eq_of_nodup_map {β : Type} {f : α → β} {l : List α} (d : (l.map f).Nodup) {a b : α}
    (ha : a ∈ l) (hb : b ∈ l) (h : f a = f b) : a = b := by
  induction l with
  | nil => cases ha
  | cons x l ih =>
    simp only [List.map_cons, List.nodup_cons, List.mem_map, not_exists, not_and] at d
    rcases List.mem_cons.1 ha with rfl | ha' <;> rcases List.mem_cons.1 hb with rfl | hb'
    · rfl
    · exact absurd h.symm (d.1 b hb')
    · exact absurd h (d.1 a ha')
    · exact ih d.2 ha' hb'

end generic

/-! ## sorting, last element, grouping -/
section sort
variable {α : Type}

theorem mem_insertBy {le : α → α → Bool} {x a : α} {l : List α} : a ∈ insertBy le x l ↔ a = x ∨ a ∈ l := by
  induction l with
  | nil => simp [insertBy]
  | cons y ys ih =>
    simp only [insertBy]
    split
    · simp
    · simp only [List.mem_cons, ih]
      constructor
      · rintro (h | h | h) <;> simp [h]
      · rintro (h | h | h) <;> simp [h]

theorem mem_sortBy {le : α → α → Bool} {a : α} {l : List α} : a ∈ sortBy le l ↔ a ∈ l := by
  induction l with
  | nil => simp [sortBy]
  | cons x xs ih => simp [sortBy, mem_insertBy, ih]

theorem mem_lastToList {a : α} {l : List α} (h : a ∈ lastToList l) : a ∈ l := by
  unfold lastToList at h
  split at h
  · next x hx =>
    simp only [List.mem_singleton] at h
    subst h
    exact List.mem_of_getLast? hx
  · cases h

end sort

section group
variable {κ α : Type} [DecidableEq κ]

theorem addToGroups_perm (k : κ) (v : α) (G : List (κ × List α)) :
    ((addToGroups k v G).flatMap (·.2)).Perm (G.flatMap (·.2) ++ [v]) := by
  induction G with
  | nil => simp [addToGroups]
  | cons g rest ih =>
    obtain ⟨k', g⟩ := g
    simp only [addToGroups]
    split
    · simp only [List.flatMap_cons, List.append_assoc]
      exact List.Perm.append_left g List.perm_append_comm
    · simp only [List.flatMap_cons, List.append_assoc]
      exact List.Perm.append_left g ih

theorem foldl_addToGroups_perm (key : α → κ) (l : List α) (G : List (κ × List α)) :
    ((l.foldl (fun acc t => addToGroups (key t) t acc) G).flatMap (·.2)).Perm (G.flatMap (·.2) ++ l) := by
  induction l generalizing G with
  | nil => simp
  | cons t l ih =>
    simp only [List.foldl_cons]
    refine (ih _).trans ?_
    refine ((addToGroups_perm (key t) t G).append_right l).trans ?_
    simp

/-- flattening the groups gives back the grouped list (as a multiset) -/
theorem groupBy_perm (key : α → κ) (l : List α) : ((groupBy key l).flatMap (·.2)).Perm l := by
  simpa [groupBy] using foldl_addToGroups_perm key l []

theorem mem_of_mem_group {key : α → κ} {l : List α} {g : κ × List α} {a : α}
    (hg : g ∈ groupBy key l) (ha : a ∈ g.2) : a ∈ l :=
  (groupBy_perm key l).mem_iff.1 (List.mem_flatMap.2 ⟨g, hg, ha⟩)

end group

/-! ## look-ups -/

theorem ctxByHandle_some {m : Mdib} {h : Handle} {c : St} (hc : ctxByHandle m h = some c) :
    c ∈ m.ctxs ∧ c.handle = h := by
  unfold ctxByHandle at hc
  exact ⟨List.mem_of_find?_eq_some hc, by simpa using List.find?_some hc⟩

theorem ctxByHandle_none {m : Mdib} {h : Handle} (hc : ctxByHandle m h = none) :
    ∀ c ∈ m.ctxs, c.handle ≠ h := by
  unfold ctxByHandle at hc
  intro c hm
  simpa using List.find?_eq_none.1 hc c hm

theorem mem_statesOf {m : Mdib} {h : Handle} {s : St} : s ∈ statesOf m h ↔ s ∈ m.states ∧ s.dh = h := by
  simp [statesOf]

theorem mem_ctxsOf {m : Mdib} {h : Handle} {s : St} : s ∈ ctxsOf m h ↔ s ∈ m.ctxs ∧ s.dh = h := by
  simp [ctxsOf]

/-! ## GetMdState -/

theorem ctx_unique {m : Mdib} (wf : WF m) {a b : St} (ha : a ∈ m.ctxs) (hb : b ∈ m.ctxs)
    (h : a.handle = b.handle) : a = b :=
  eq_of_nodup_map wf.ctxHandles ha hb h

theorem ctxs_nodup {m : Mdib} (wf : WF m) : m.ctxs.Nodup := List.Nodup.of_map _ wf.ctxHandles

/-- one handle of a non-empty list, context states served -/
theorem mem_resolveMd {m : Mdib} (wf : WF m) (h : Handle) (s : St) :
    s ∈ resolveMd m h ↔
      (s ∈ m.states ∨ s ∈ m.ctxs) ∧ (s.dh = h ∨ (s.ctx = true ∧ s.handle = h)) := by
  unfold resolveMd
  cases hc : ctxByHandle m h with
  | some c =>
    obtain ⟨hcm, hch⟩ := ctxByHandle_some hc
    simp only [List.mem_singleton]
    constructor
    · rintro rfl
      exact ⟨Or.inr hcm, Or.inr ⟨wf.ctxsMulti _ hcm, hch⟩⟩
    · rintro ⟨hs | hs, hd | ⟨hx, hh⟩⟩
      · exact absurd (hch ▸ hd) ((wf.handleNoDh c hcm).1 s hs)
      · rw [wf.statesSingle s hs] at hx; cases hx
      · exact absurd (hch ▸ hd) ((wf.handleNoDh c hcm).2 s hs)
      · exact ctx_unique wf hs hcm (hh.trans hch.symm)
  | none =>
    have hn := ctxByHandle_none hc
    simp only [List.mem_append, mem_statesOf, mem_ctxsOf]
    constructor
    · rintro (⟨h1, h2⟩ | ⟨h1, h2⟩)
      · exact ⟨Or.inl h1, Or.inl h2⟩
      · exact ⟨Or.inr h1, Or.inl h2⟩
    · rintro ⟨hs | hs, hd | ⟨hx, hh⟩⟩
      · exact Or.inl ⟨hs, hd⟩
      · rw [wf.statesSingle s hs] at hx; cases hx
      · exact Or.inr ⟨hs, hd⟩
      · exact absurd hh (hn s hs)

theorem mem_getMdState {m : Mdib} (wf : WF m) (f : Bool) (hs : List Handle) (s : St) :
    s ∈ getMdState m f hs ↔ SelMdState m f hs s := by
  unfold getMdState SelMdState
  cases hs with
  | nil =>
    cases f <;> simp [allStates]
  | cons h0 hs =>
    simp only [List.isEmpty_cons, Bool.false_eq_true, if_false, mem_dedup, collectMdState, reduceCtorEq, false_or]
    cases f with
    | true =>
      simp only [if_true, List.mem_flatMap, mem_resolveMd wf, true_and]
      constructor
      · rintro ⟨h, hh, h1, h2⟩; exact ⟨h1, h, hh, h2⟩
      · rintro ⟨h1, h, hh, h2⟩; exact ⟨h, hh, h1, h2⟩
    | false =>
      simp only [Bool.false_eq_true, if_false, List.mem_flatMap, mem_statesOf, false_and, or_false]
      constructor
      · rintro ⟨h, hh, h1, h2⟩; exact ⟨h1, h, hh, Or.inl h2⟩
      · rintro ⟨h1, h, hh, h2 | ⟨hx, _⟩⟩
        · exact ⟨h, hh, h1, h2⟩
        · rw [wf.statesSingle s h1] at hx; cases hx

theorem nodup_getMdState {m : Mdib} (wf : WF m) (f : Bool) (hs : List Handle) : (getMdState m f hs).Nodup := by
  unfold getMdState
  split
  · unfold allStates
    cases f
    · simpa using wf.statesNodup
    · simp only [if_true]
      refine List.nodup_append.2 ⟨wf.statesNodup, ctxs_nodup wf, ?_⟩
      intro a ha b hb hab
      subst hab
      have h1 := wf.statesSingle a ha
      rw [wf.ctxsMulti a hb] at h1
      cases h1
  · exact nodup_dedup _

/-! ## the subtree walk reaches exactly the descriptors below the root -/

theorem mem_children {m : Mdib} {p c : Handle} : c ∈ children m p ↔ ∃ d ∈ m.descrs, d.parent = some p ∧ d.handle = c := by
  simp [children, and_assoc]

theorem root_mem_subtree (m : Mdib) (n : Nat) (r : Handle) : r ∈ subtree m n r := by
  cases n <;> simp [subtree]

theorem subtree_sound {m : Mdib} {n : Nat} {r h : Handle} (hm : h ∈ subtree m n r) : Under m r h := by
  induction n generalizing r h with
  | zero =>
    simp only [subtree, List.mem_singleton] at hm
    subst hm; exact Under.root
  | succ n ih =>
    simp only [subtree, List.mem_cons, List.mem_flatMap] at hm
    rcases hm with rfl | ⟨c, hc, hh⟩
    · exact Under.root
    · -- `h` lies under the child `c` of `r`: re-root the derivation
      obtain ⟨d, hd, hp, rfl⟩ := mem_children.1 hc
      have hu := ih hh
      clear hh ih hc
      induction hu with
      | root => exact Under.child hd hp Under.root
      | child hd' hp' _ ih' => exact Under.child hd' hp' ih'

/-- children of a member are members one level deeper -/
theorem subtree_step {m : Mdib} {n : Nat} {r p c : Handle} (hp : p ∈ subtree m n r) (hc : c ∈ children m p) :
    c ∈ subtree m (n + 1) r := by
  induction n generalizing r with
  | zero =>
    simp only [subtree, List.mem_singleton] at hp
    subst hp
    rw [subtree]
    exact List.mem_cons_of_mem _ (List.mem_flatMap.2 ⟨c, hc, root_mem_subtree m _ c⟩)
  | succ n ih =>
    rw [subtree] at hp
    rcases List.mem_cons.1 hp with rfl | hp
    · rw [subtree]
      exact List.mem_cons_of_mem _ (List.mem_flatMap.2 ⟨c, hc, root_mem_subtree m _ c⟩)
    · obtain ⟨c', hc', hp'⟩ := List.mem_flatMap.1 hp
      rw [subtree]
      exact List.mem_cons_of_mem _ (List.mem_flatMap.2 ⟨c', hc', ih hp'⟩)

theorem subtree_mono_succ {m : Mdib} {n : Nat} {r h : Handle} (hm : h ∈ subtree m n r) : h ∈ subtree m (n + 1) r := by
  induction n generalizing r with
  | zero =>
    simp only [subtree, List.mem_singleton] at hm
    subst hm; exact root_mem_subtree m _ _
  | succ n ih =>
    rw [subtree] at hm ⊢
    rcases List.mem_cons.1 hm with rfl | hm
    · exact List.mem_cons_self
    · obtain ⟨c, hc, hh⟩ := List.mem_flatMap.1 hm
      exact List.mem_cons_of_mem _ (List.mem_flatMap.2 ⟨c, hc, ih hh⟩)

theorem subtree_mono {m : Mdib} {n k : Nat} {r h : Handle} (hnk : n ≤ k) (hm : h ∈ subtree m n r) :
    h ∈ subtree m k r := by
  induction hnk with
  | refl => exact hm
  | step _ ih => exact subtree_mono_succ ih

/-- `Path m r h l`: `l` lists the handles on the way from `h` up to (excluding) `r` -/
inductive Path (m : Mdib) (r : Handle) : Handle → List Handle → Prop
  | root : Path m r r []
  | child {d : Descr} {p : Handle} {l : List Handle} :
      d ∈ m.descrs → d.parent = some p → Path m r p l → Path m r d.handle (d.handle :: l)

theorem Path.mem_subtree {m : Mdib} {r h : Handle} {l : List Handle} (hp : Path m r h l) :
    h ∈ subtree m l.length r := by
  induction hp with
  | root => exact root_mem_subtree m _ _
  | child hd hpar _ ih => exact subtree_step ih (mem_children.2 ⟨_, hd, hpar, rfl⟩)

theorem Path.subset {m : Mdib} {r h : Handle} {l : List Handle} (hp : Path m r h l) :
    l ⊆ m.descrs.map (·.handle) := by
  induction hp with
  | root => exact List.nil_subset _
  | child hd _ _ ih => exact List.cons_subset.2 ⟨List.mem_map.2 ⟨_, hd, rfl⟩, ih⟩

/-- a path can be cut at any handle it passes -/
theorem Path.suffix {m : Mdib} {r h x : Handle} {l : List Handle} (hp : Path m r h l) (hn : l.Nodup) (hx : x ∈ l) :
    ∃ l', Path m r x l' ∧ l'.Nodup := by
  induction hp with
  | root => cases hx
  | child hd hpar hp' ih =>
    rcases List.mem_cons.1 hx with rfl | hx
    · exact ⟨_, Path.child hd hpar hp', hn⟩
    · exact ih (List.nodup_cons.1 hn).2 hx

theorem Under.path {m : Mdib} {r h : Handle} (hu : Under m r h) : ∃ l, Path m r h l ∧ l.Nodup := by
  induction hu with
  | root => exact ⟨[], Path.root, List.nodup_nil⟩
  | child hd hpar _ ih =>
    obtain ⟨l, hp, hn⟩ := ih
    rename_i d p _
    by_cases hx : d.handle ∈ l
    · exact hp.suffix hn hx
    · exact ⟨_, Path.child hd hpar hp, List.nodup_cons.2 ⟨hx, hn⟩⟩

/-- depth = number of descriptors is enough: the walk of `get_all_descriptors_in_subtree` finds exactly the
    descriptors below (and including) the root -/
theorem mem_subtree_iff {m : Mdib} {r h : Handle} : h ∈ subtree m m.descrs.length r ↔ Under m r h := by
  constructor
  · exact subtree_sound
  · intro hu
    obtain ⟨l, hp, hn⟩ := hu.path
    have hle : l.length ≤ m.descrs.length := by
      have := (hn.subperm hp.subset).length_le
      simpa using this
    exact subtree_mono hle hp.mem_subtree

/-! ## GetContextStates -/

theorem descrByHandle_some {m : Mdib} {h : Handle} {d : Descr} (hd : descrByHandle m h = some d) :
    d ∈ m.descrs ∧ d.handle = h := by
  unfold descrByHandle at hd
  exact ⟨List.mem_of_find?_eq_some hd, by simpa using List.find?_some hd⟩

theorem descrByHandle_none {m : Mdib} {h : Handle} (hd : descrByHandle m h = none) :
    ∀ d ∈ m.descrs, d.handle ≠ h := by
  unfold descrByHandle at hd
  intro d hm
  simpa using List.find?_eq_none.1 hd d hm

theorem mem_resolveCtx {m : Mdib} (wf : WF m) (h : Handle) (c : St) :
    c ∈ resolveCtx m h ↔ c ∈ m.ctxs ∧ (c.handle = h ∨ c.dh = h ∨ (IsMds m h ∧ Under m h c.dh)) := by
  unfold resolveCtx
  cases hc : ctxByHandle m h with
  | some c0 =>
    obtain ⟨hcm, hch⟩ := ctxByHandle_some hc
    simp only [List.mem_singleton]
    constructor
    · rintro rfl; exact ⟨hcm, Or.inl hch⟩
    · rintro ⟨hm, hh | hd | ⟨⟨d, hdm, hdh, hmds⟩, _⟩⟩
      · exact ctx_unique wf hm hcm (hh.trans hch.symm)
      · exact absurd (hch ▸ hd) ((wf.handleNoDh c0 hcm).2 c hm)
      · exact absurd (hch.trans hdh.symm) (wf.noCtxOfMds d hdm hmds c0 hcm).1
  | none =>
    have hn := ctxByHandle_none hc
    simp only
    by_cases hemp : (ctxsOf m h).isEmpty = true
    · -- no context state of a descriptor `h`
      have hno : ∀ c' ∈ m.ctxs, c'.dh ≠ h := by
        intro c' hc' hd
        have : c' ∈ ctxsOf m h := mem_ctxsOf.2 ⟨hc', hd⟩
        rw [List.isEmpty_iff.1 hemp] at this
        cases this
      simp only [hemp, Bool.not_true, Bool.false_eq_true, if_false]
      cases hdb : descrByHandle m h with
      | none =>
        have hnd := descrByHandle_none hdb
        simp only [List.not_mem_nil, false_iff]
        rintro ⟨hm, hh | hd | ⟨⟨d, hdm, hdh, _⟩, _⟩⟩
        · exact hn c hm hh
        · exact hno c hm hd
        · exact hnd d hdm hdh
      | some d =>
        obtain ⟨hdm, hdh⟩ := descrByHandle_some hdb
        simp only
        by_cases hmds : d.isMds = true
        · simp only [hmds, if_true, List.mem_filter, List.contains_iff_mem, hdh, mem_subtree_iff]
          constructor
          · rintro ⟨hm, hu⟩; exact ⟨hm, Or.inr (Or.inr ⟨⟨d, hdm, hdh, hmds⟩, hu⟩)⟩
          · rintro ⟨hm, hh | hd | ⟨_, hu⟩⟩
            · exact absurd hh (hn c hm)
            · exact absurd hd (hno c hm)
            · exact ⟨hm, hu⟩
        · simp only [hmds, Bool.false_eq_true, if_false, List.not_mem_nil, false_iff]
          rintro ⟨hm, hh | hd | ⟨⟨d', hdm', hdh', hmds'⟩, _⟩⟩
          · exact hn c hm hh
          · exact hno c hm hd
          · have : d' = d := eq_of_nodup_map wf.descrHandles hdm' hdm (hdh'.trans hdh.symm)
            exact hmds (this ▸ hmds')
    · simp only [hemp, Bool.not_false, if_true, mem_ctxsOf]
      have hne : ∃ c', c' ∈ m.ctxs ∧ c'.dh = h := by
        cases hl : ctxsOf m h with
        | nil => simp [hl] at hemp
        | cons c' _ =>
          have : c' ∈ ctxsOf m h := by rw [hl]; exact List.mem_cons_self
          exact ⟨c', mem_ctxsOf.1 this⟩
      obtain ⟨c', hc'm, hc'd⟩ := hne
      constructor
      · rintro ⟨hm, hd⟩; exact ⟨hm, Or.inr (Or.inl hd)⟩
      · rintro ⟨hm, hh | hd | ⟨⟨d, hdm, hdh, hmds⟩, _⟩⟩
        · exact absurd hh (hn c hm)
        · exact ⟨hm, hd⟩
        · exact absurd (hc'd.trans hdh.symm) (wf.noCtxOfMds d hdm hmds c' hc'm).2

theorem putByHandle_eq {acc : List St} {s : St} (hinj : ∀ x ∈ acc, x.handle = s.handle → x = s) :
    putByHandle acc s = if s ∈ acc then acc else acc ++ [s] := by
  unfold putByHandle
  by_cases hany : (acc.any fun x => decide (x.handle = s.handle)) = true
  · obtain ⟨x, hx, hh⟩ := List.any_eq_true.1 hany
    have hsx : x = s := hinj x hx (by simpa using hh)
    have hs : s ∈ acc := hsx ▸ hx
    simp only [hany, if_true, hs]
    conv => rhs; rw [← List.map_id acc]
    apply List.map_congr_left
    intro y hy
    by_cases hyh : y.handle = s.handle
    · simp [hinj y hy hyh]
    · simp [hyh]
  · have hs : s ∉ acc := by
      intro hs
      exact hany (List.any_eq_true.2 ⟨s, hs, by simp⟩)
    simp [hany, hs]

theorem foldl_putByHandle {L acc : List St}
    (hinj : ∀ a ∈ acc ++ L, ∀ b ∈ acc ++ L, a.handle = b.handle → a = b) (hn : acc.Nodup) :
    (∀ x, x ∈ L.foldl putByHandle acc ↔ x ∈ acc ∨ x ∈ L) ∧ (L.foldl putByHandle acc).Nodup := by
  induction L generalizing acc with
  | nil => simp [hn]
  | cons s L ih =>
    have hput : putByHandle acc s = if s ∈ acc then acc else acc ++ [s] :=
      putByHandle_eq fun x hx hh => hinj x (by simp [hx]) s (by simp) hh
    simp only [List.foldl_cons, hput]
    by_cases hs : s ∈ acc
    · simp only [hs, if_true]
      obtain ⟨h1, h2⟩ := ih (acc := acc)
        (fun a ha b hb => hinj a (by simp only [List.mem_append, List.mem_cons] at ha ⊢; tauto)
                               b (by simp only [List.mem_append, List.mem_cons] at hb ⊢; tauto)) hn
      refine ⟨fun x => ?_, h2⟩
      rw [h1]
      simp only [List.mem_cons]
      constructor
      · rintro (h | h) <;> tauto
      · rintro (h | rfl | h) <;> tauto
    · simp only [hs, if_false]
      obtain ⟨h1, h2⟩ := ih (acc := acc ++ [s])
        (fun a ha b hb => hinj a (by simp only [List.mem_append, List.mem_cons] at ha ⊢; tauto)
                               b (by simp only [List.mem_append, List.mem_cons] at hb ⊢; tauto))
        (List.nodup_append.2 ⟨hn, List.nodup_singleton _, by
          intro a ha b hb hab
          simp only [List.mem_singleton] at hb
          subst hb; subst hab; exact hs ha⟩)
      refine ⟨fun x => ?_, h2⟩
      rw [h1]
      simp only [List.mem_append, List.mem_cons]
      tauto

theorem getContextStates_spec {m : Mdib} (wf : WF m) (hs : List Handle) :
    (∀ c, c ∈ getContextStates m hs ↔ SelCtx m hs c) ∧ (getContextStates m hs).Nodup := by
  unfold getContextStates SelCtx
  cases hs with
  | nil => simpa using ctxs_nodup wf
  | cons h0 hs =>
    simp only [List.isEmpty_cons, Bool.false_eq_true, if_false, reduceCtorEq, false_or]
    have hsub : ∀ a ∈ ([] : List St) ++ (h0 :: hs).flatMap (resolveCtx m), a ∈ m.ctxs := by
      intro a ha
      simp only [List.nil_append, List.mem_flatMap] at ha
      obtain ⟨h, _, hm⟩ := ha
      exact ((mem_resolveCtx wf h a).1 hm).1
    obtain ⟨h1, h2⟩ := foldl_putByHandle (L := (h0 :: hs).flatMap (resolveCtx m)) (acc := [])
      (fun a ha b hb hh => ctx_unique wf (hsub a ha) (hsub b hb) hh) List.nodup_nil
    refine ⟨fun c => ?_, h2⟩
    rw [h1]
    simp only [List.not_mem_nil, false_or, List.mem_flatMap, mem_resolveCtx wf]
    constructor
    · rintro ⟨h, hh, hm, hsel⟩; exact ⟨hm, h, hh, hsel⟩
    · rintro ⟨hm, h, hh, hsel⟩; exact ⟨h, hh, hm, hsel⟩

/-! ## unknown handles -/

theorem statesOf_unknown {m : Mdib} {h : Handle} (hu : Unknown m h) : statesOf m h = [] := by
  simp only [statesOf, List.filter_eq_nil_iff, decide_eq_true_eq]
  exact hu.1

theorem ctxsOf_unknown {m : Mdib} {h : Handle} (hu : Unknown m h) : ctxsOf m h = [] := by
  simp only [ctxsOf, List.filter_eq_nil_iff, decide_eq_true_eq]
  exact fun c hc => (hu.2.1 c hc).1

theorem ctxByHandle_unknown {m : Mdib} {h : Handle} (hu : Unknown m h) : ctxByHandle m h = none := by
  simp only [ctxByHandle, List.find?_eq_none, decide_eq_true_eq]
  exact fun c hc => (hu.2.1 c hc).2

theorem resolveMd_unknown {m : Mdib} {h : Handle} (hu : Unknown m h) : resolveMd m h = [] := by
  simp [resolveMd, ctxByHandle_unknown hu, statesOf_unknown hu, ctxsOf_unknown hu]

theorem resolveCtx_unknown {m : Mdib} {h : Handle} (hu : Unknown m h) : resolveCtx m h = [] := by
  have hd : descrByHandle m h = none := by
    simp only [descrByHandle, List.find?_eq_none, decide_eq_true_eq]
    exact hu.2.2
  simp [resolveCtx, ctxByHandle_unknown hu, ctxsOf_unknown hu, hd]

theorem getMdState_unknown {m : Mdib} {h : Handle} (hu : Unknown m h) (f : Bool) (pre post : List Handle)
    (hne : pre ++ post ≠ []) : getMdState m f (pre ++ h :: post) = getMdState m f (pre ++ post) := by
  have h1 : (pre ++ h :: post).isEmpty = false := by cases pre <;> rfl
  have h2 : (pre ++ post).isEmpty = false := by
    cases hpp : pre ++ post with
    | nil => exact absurd hpp hne
    | cons _ _ => rfl
  simp only [getMdState, h1, h2, Bool.false_eq_true, if_false, collectMdState]
  cases f <;> simp [List.flatMap_append, resolveMd_unknown hu, statesOf_unknown hu]

theorem getContextStates_unknown {m : Mdib} {h : Handle} (hu : Unknown m h) (pre post : List Handle)
    (hne : pre ++ post ≠ []) : getContextStates m (pre ++ h :: post) = getContextStates m (pre ++ post) := by
  have h1 : (pre ++ h :: post).isEmpty = false := by cases pre <;> rfl
  have h2 : (pre ++ post).isEmpty = false := by
    cases hpp : pre ++ post with
    | nil => exact absurd hpp hne
    | cons _ _ => rfl
  simp [getContextStates, h1, h2, List.flatMap_append, resolveCtx_unknown hu]

/-! ## localized texts -/

theorem mem_widthFilter {l : List Text} {w : Nat} {t : Text} : t ∈ widthFilter l w ↔ t ∈ l ∧ tw t ≤ w := by
  simp [widthFilter, mem_sortBy]

theorem mem_nolFilter {l : List Text} {n : Nat} {t : Text} : t ∈ nolFilter l n ↔ t ∈ l ∧ t.nol ≤ n := by
  simp [nolFilter, mem_sortBy]

theorem mem_byRefs {s : List Text} {refs : List String} {t : Text} (h : t ∈ byRefs s refs) :
    t ∈ s ∧ (refs ≠ [] → ∃ r ∈ refs, t.ref = some r) := by
  simp only [byRefs, List.mem_flatMap, List.mem_filter, decide_eq_true_eq] at h
  obtain ⟨k, hk, hts, hr⟩ := h
  refine ⟨hts, fun hne => ?_⟩
  have : refs.isEmpty = false := by cases refs <;> simp_all
  simp only [this, Bool.false_eq_true, if_false, List.mem_map] at hk
  obtain ⟨r, hr', rfl⟩ := hk
  exact ⟨r, hr', hr⟩

theorem mem_byLangs {langs : List String} {l : List Text} {t : Text} (h : t ∈ byLangs langs l) :
    t ∈ l ∧ (langs ≠ [] → ∃ x ∈ langs, t.lang = some x) := by
  unfold byLangs at h
  split at h
  · next he => exact ⟨h, fun hne => absurd (List.isEmpty_iff.1 he) hne⟩
  · simp only [List.mem_filter] at h
    refine ⟨h.1, fun _ => ?_⟩
    cases hl : t.lang with
    | none => simp [hl] at h
    | some x => exact ⟨x, by simpa [hl] using h.2, rfl⟩

theorem byVersion_perm (eff : Option Nat) (l : List Text) :
    (byVersion eff l).Perm (l.filter (fun t => t.version = eff)) := by
  unfold byVersion
  rw [← List.filter_flatMap]
  exact (groupBy_perm refLang l).filter _

theorem mem_byVersion {eff : Option Nat} {l : List Text} {t : Text} :
    t ∈ byVersion eff l ↔ t ∈ l ∧ t.version = eff := by
  rw [(byVersion_perm eff l).mem_iff]; simp

theorem mem_bySize {widths nols : List Nat} {l : List Text} {t : Text} (h : t ∈ bySize widths nols l) :
    t ∈ l ∧ (widths ≠ [] → ∃ w ∈ widths, tw t ≤ w) ∧ (nols ≠ [] → ∃ n ∈ nols, t.nol ≤ n) := by
  unfold bySize at h
  split at h
  · next he =>
    simp only [Bool.and_eq_true, List.isEmpty_iff] at he
    exact ⟨h, fun hne => absurd he.1 hne, fun hne => absurd he.2 hne⟩
  · simp only at h
    split at h
    · -- both
      simp only [List.mem_flatMap] at h
      obtain ⟨g, hg, w, hw, n, hn, hl⟩ := h
      have h1 := mem_sortBy.1 (mem_lastToList hl)
      obtain ⟨h2, hnol⟩ := mem_nolFilter.1 h1
      obtain ⟨h3, hw'⟩ := mem_widthFilter.1 h2
      exact ⟨mem_of_mem_group hg h3, fun _ => ⟨w, hw, hw'⟩, fun _ => ⟨n, hn, hnol⟩⟩
    · next hboth =>
      split at h
      · next hwne =>
        have hn : nols = [] := by
          cases nols with
          | nil => rfl
          | cons _ _ => simp_all
        simp only [List.mem_flatMap] at h
        obtain ⟨g, hg, w, hw, hl⟩ := h
        obtain ⟨h3, hw'⟩ := mem_widthFilter.1 (mem_lastToList hl)
        exact ⟨mem_of_mem_group hg h3, fun _ => ⟨w, hw, hw'⟩, fun hne => absurd hn hne⟩
      · next hwe =>
        have hw0 : widths = [] := by
          cases widths with
          | nil => rfl
          | cons _ _ => simp_all
        simp only [List.mem_flatMap] at h
        obtain ⟨g, hg, n, hn, hl⟩ := h
        obtain ⟨h3, hn'⟩ := mem_nolFilter.1 (mem_lastToList hl)
        exact ⟨mem_of_mem_group hg h3, fun hne => absurd hw0 hne, fun _ => ⟨n, hn, hn'⟩⟩

theorem filterTexts_sound {s : List Text} {refs : List String} {ver : Option Nat} {langs : List String}
    {widths nols : List Nat} {t : Text} (h : t ∈ filterTexts s refs ver langs widths nols) :
    t ∈ s ∧ Satisfies refs ver langs widths nols t := by
  unfold filterTexts at h
  split at h
  · cases h
  · obtain ⟨h4, hw, hn⟩ := mem_bySize h
    obtain ⟨h3, hv⟩ := mem_byVersion.1 h4
    obtain ⟨h2, hl⟩ := mem_byLangs h3
    obtain ⟨h1, hr⟩ := mem_byRefs h2
    refine ⟨h1, hr, ?_, hl, hw, hn⟩
    intro v hver
    subst hver
    exact hv

/-! ### no constraints: all texts of the latest version -/

theorem filter_or_perm {α : Type} (p q : α → Bool) (l : List α) (hd : ∀ x ∈ l, ¬(p x = true ∧ q x = true)) :
    (l.filter (fun x => p x || q x)).Perm (l.filter p ++ l.filter q) := by
  induction l with
  | nil => simp
  | cons x l ih =>
    have ih' := ih (fun y hy => hd y (List.mem_cons_of_mem _ hy))
    have hx := hd x List.mem_cons_self
    cases hp : p x <;> cases hq : q x
    · simpa [List.filter_cons, hp, hq] using ih'
    · simp only [List.filter_cons, hp, hq, Bool.or_true, if_true, Bool.false_eq_true, if_false]
      exact (List.Perm.cons x ih').trans List.perm_middle.symm
    · simp only [List.filter_cons, hp, hq, Bool.or_false, if_true, Bool.false_eq_true, if_false, List.cons_append]
      exact List.Perm.cons x ih'
    · exact absurd ⟨hp, hq⟩ hx

theorem flatMap_keys_perm {α κ : Type} [DecidableEq κ] (f : α → κ) (l : List α) (K : List κ) (hK : K.Nodup) :
    (K.flatMap (fun k => l.filter (fun t => f t = k))).Perm (l.filter (fun t => decide (f t ∈ K))) := by
  induction K with
  | nil => simp
  | cons k K ih =>
    rw [List.nodup_cons] at hK
    simp only [List.flatMap_cons]
    have h1 : l.filter (fun t => decide (f t ∈ k :: K)) =
        l.filter (fun t => decide (f t = k) || decide (f t ∈ K)) := by
      apply List.filter_congr
      intro x _
      simp
    rw [h1]
    refine List.Perm.trans ?_ (filter_or_perm _ _ l ?_).symm
    · exact List.Perm.append_left _ (ih hK.2)
    · intro x _ ⟨h2, h3⟩
      simp only [decide_eq_true_eq] at h2 h3
      exact hK.1 (h2 ▸ h3)

theorem byRefs_all_perm (s : List Text) : (byRefs s []).Perm s := by
  simp only [byRefs, List.isEmpty_nil, if_true, keys]
  refine (flatMap_keys_perm (fun t => t.ref) s _ (nodup_dedup _)).trans ?_
  rw [List.filter_eq_self.2]
  intro t ht
  simp only [decide_eq_true_eq, mem_dedup]
  exact List.mem_map.2 ⟨t, ht, rfl⟩

theorem filterTexts_unconstrained (s : List Text) :
    (filterTexts s [] none [] [] []).Perm (s.filter (fun t => t.version = latest s)) := by
  unfold filterTexts
  cases s with
  | nil => simp
  | cons a s =>
    simp only [Option.isNone_none, List.isEmpty_cons, Bool.and_false, Bool.false_eq_true, if_false, bySize,
      List.isEmpty_nil, Bool.and_self, if_true, byLangs]
    exact (byVersion_perm _ _).trans ((byRefs_all_perm (a :: s)).filter _)

theorem maxNat_spec (l : List Nat) :
    match maxNat l with
    | some n => n ∈ l ∧ ∀ k ∈ l, k ≤ n
    | none => l = [] := by
  induction l with
  | nil => simp [maxNat]
  | cons a l ih =>
    simp only [maxNat]
    cases h : maxNat l with
    | none =>
      rw [h] at ih
      simp [ih]
    | some b =>
      rw [h] at ih
      simp only [List.mem_cons]
      refine ⟨?_, ?_⟩
      · rcases Nat.le_total a b with hab | hab
        · rw [Nat.max_eq_right hab]; exact Or.inr ih.1
        · rw [Nat.max_eq_left hab]; exact Or.inl rfl
      · rintro k (rfl | hk)
        · exact Nat.le_max_left _ _
        · exact Nat.le_trans (ih.2 k hk) (Nat.le_max_right _ _)

theorem latest_isLatest (s : List Text) : IsLatest s (latest s) := by
  unfold IsLatest latest
  have := maxNat_spec (s.filterMap (·.version))
  cases h : maxNat (s.filterMap (·.version)) with
  | none =>
    rw [h] at this
    simp only
    intro t ht
    cases hv : t.version with
    | none => rfl
    | some v =>
      have : v ∈ s.filterMap (·.version) := List.mem_filterMap.2 ⟨t, ht, hv⟩
      simp_all
  | some n =>
    rw [h] at this
    simp only
    obtain ⟨h1, h2⟩ := this
    obtain ⟨t, ht, hv⟩ := List.mem_filterMap.1 h1
    exact ⟨⟨t, ht, hv⟩, fun t' ht' k hk => h2 k (List.mem_filterMap.2 ⟨t', ht', hk⟩)⟩

theorem mem_supportedLanguages {s : List Text} {l : String} :
    l ∈ supportedLanguages s ↔ ∃ t ∈ s, t.lang = some l := by
  simp [supportedLanguages, mem_dedup, List.mem_filterMap]

end Sdc.Query
