import SdcModel.Proofs.MdibLinkSC
import SdcModel.Proofs.MdibResultE
/-!
# the DELETE parts of the provider's description modification report come children first (clause `flat`)
-/
set_option linter.unusedSimpArgs false
namespace Sdc.Mdib
open Sdc.Consumer

theorem flatDeletes_nondel (p : Core) : ∀ (A before B : List DescrPart), (∀ a ∈ A, a.mod ≠ .delete) →
    flatDeletes p before (A ++ B) = flatDeletes p (before ++ A) B := by
  intro A
  induction A with
  | nil => intro before B _; simp
  | cons a A ih =>
    intro before B hA
    have ha : (a.mod != ModType.delete) = true := by simpa using hA a (by simp)
    simp only [List.cons_append, flatDeletes, ha, Bool.true_or, Bool.true_and]
    rw [ih (before ++ [a]) B (fun x hx => hA x (by simp [hx]))]
    simp

theorem delOld_isDel {p : Handle × DItem} {d : Descr} (h : delOld p = some d) : isDelItem p = true ∧ p.2.old = some d := by
  unfold delOld at h
  split at h
  · rename_i hn; simp [isDelItem, hn, h]
  · cases h

/-- the delete parts built from the delete items `items` of a transaction, after the items `pre` -/
theorem flatDeletes_items {t : Mdib.Tables} (r : TxResult) (q : Nat) (i : Option Nat) (UC : List DescrPart)
    (all : List (Handle × DItem))
    (hold : ∀ p ∈ all, ∀ (d : Descr), delOld p = some d → d.handle = p.1)
    (hpar : ∀ p ∈ all, isDelItem p = true → ∀ b ∈ UC, b.descr.parent ≠ some p.1) :
    ∀ (items pre : List (Handle × DItem)), DeletesFlatFrom t pre items → (∀ p ∈ pre ++ items, p ∈ all) →
      flatDeletes (absCore t q i) (UC ++ ((pre.filterMap delOld).map (mkDPart r .delete)).map DPart.flat)
        (((items.filterMap delOld).map (mkDPart r .delete)).map DPart.flat) = true := by
  intro items
  induction items with
  | nil => intro pre _ _; rfl
  | cons p rest ih =>
    intro pre hfl hsub
    have hp : p ∈ all := hsub p (by simp)
    cases hd : delOld p with
    | none =>
      simp only [List.filterMap_cons, hd]
      have := ih (pre ++ [p]) hfl.2 (fun x hx => hsub x (by simpa using hx))
      simpa [List.filterMap_append, hd] using this
    | some d =>
      have hisdel : isDelItem p = true := (delOld_isDel hd).1
      have hdh : d.handle = p.1 := hold p hp d hd
      simp only [List.filterMap_cons, hd, List.map_cons, flatDeletes]
      have ih' := ih (pre ++ [p]) hfl.2 (fun x hx => hsub x (by simpa using hx))
      simp only [List.filterMap_append, List.filterMap_cons, hd, List.filterMap_nil, List.map_append, List.map_cons, List.map_nil,
        ← List.append_assoc] at ih'
      rw [ih']
      simp only [Bool.and_true, Bool.or_eq_true, Bool.and_eq_true, List.all_eq_true, bne_iff_ne, ne_eq, List.any_eq_true, beq_iff_eq]
      right
      constructor
      · intro x hx
        by_cases hxp : x.parent = some (mkDPart r .delete d).flat.descr.handle
        · right
          obtain ⟨q', hq', hqd, hqk⟩ := hfl.1 hisdel x hx (by rw [hxp]; simp [hdh])
          unfold isDelItem at hqd
          cases ho : q'.2.old with
          | none => simp [ho] at hqd
          | some d' =>
            have hn : q'.2.new.isNone = true := by simpa [ho] using hqd
            have hdo : delOld q' = some d' := by simp [delOld, hn, ho]
            refine ⟨(mkDPart r .delete d').flat, ?_, rfl, ?_⟩
            · simp only [List.mem_append, List.mem_map, List.mem_filterMap]
              exact .inr ⟨mkDPart r .delete d', ⟨d', ⟨q', hq', hdo⟩, rfl⟩, rfl⟩
            · simp [hold q' (hsub q' (by simp [hq'])) d' hdo, hqk]
        · exact .inl hxp
      · intro b hb
        simp only [List.mem_append, List.mem_map, List.mem_filterMap] at hb
        rcases hb with (hb | ⟨_, ⟨d', _, rfl⟩, rfl⟩) | ⟨_, ⟨d', _, rfl⟩, rfl⟩
        · right
          have := hpar p hp hisdel b hb
          simpa [hdh] using this
        · exact .inl rfl
        · exact .inl rfl

end Sdc.Mdib
