import SdcModel.Proofs.Consumer
/-!
# C01 helper lemmas: a consumer that mirrors `p` and processes reports that describe `p → p'` mirrors `p'`
-/
namespace Sdc.Consumer
open Sdc.Mdib

/-! ### convergence of a keyed table from the content `P` to the content `P'` -/
section Converge
variable {α : Type} (key sv : α → Nat)

theorem gatedPut_lookup (am : Bool) (l : List α) (x : α) (k : Nat) :
    lookupBy key (gatedPut key sv am l x).1 k =
      if k = key x then
        (match lookupBy key l k with
         | some old => if sv old < sv x then some x else some old
         | none => if am then some x else none)
      else lookupBy key l k := by
  unfold gatedPut
  by_cases hk : k = key x
  · subst hk
    simp only [if_true]
    cases ho : lookupBy key l (key x) with
    | none =>
      simp only []
      cases am
      · simp [ho]
      · simp [lookupBy_append, ho, lookupBy_cons]
    | some old =>
      simp only []
      by_cases hlt : sv old < sv x
      · simp [(hasNewUsableVersion_iff _ _).2 hlt, hlt, lookupBy_replaceBy, ho]
      · have : hasNewUsableVersion (sv old) (sv x) = false := by
          rw [Bool.eq_false_iff, Ne, hasNewUsableVersion_iff]; exact hlt
        simp [this, hlt, ho]
  · simp only [hk, if_false]
    cases ho : lookupBy key l (key x) with
    | none =>
      simp only []
      cases am
      · simp
      · have : key x ≠ k := fun h => hk h.symm
        simp [lookupBy_append, lookupBy_cons, this]
    | some old =>
      simp only []
      by_cases hu : hasNewUsableVersion (sv old) (sv x) = true
      · simp [hu, lookupBy_replaceBy, hk]
      · simp [hu]

variable (P P' : Nat → Option α)

/-- every entry is still the old one or already the new one -/
def Between (l : List α) : Prop := ∀ k, lookupBy key l k = P k ∨ lookupBy key l k = P' k

/-- an incoming entry is the new content of its key and newer than the old content -/
def ValidNew (x : α) : Prop := P' (key x) = some x ∧ ∀ old, P (key x) = some old → sv old < sv x

theorem gatedPut_between {am : Bool} {l : List α} {x : α} (hx : ValidNew key sv P P' x) (hb : Between key P P' l) :
    Between key P P' (gatedPut key sv am l x).1 := by
  intro k
  rw [gatedPut_lookup]
  by_cases hk : k = key x
  · subst hk
    simp only [if_true]
    rcases hb (key x) with h | h
    · cases ho : lookupBy key l (key x) with
      | none => cases am <;> simp [← h, ho, hx.1]
      | some old =>
        have := hx.2 old (by rw [← h, ho])
        simp [this, hx.1]
    · rw [h, hx.1]
      simp [hx.1]
  · simp only [hk, if_false]; exact hb k

theorem gatedPut_at {am : Bool} {l : List α} {x : α} (hx : ValidNew key sv P P' x) {k : Nat}
    (h : lookupBy key l k = P' k) : lookupBy key (gatedPut key sv am l x).1 k = P' k := by
  rw [gatedPut_lookup]
  by_cases hk : k = key x
  · subst hk
    rw [h, hx.1]; simp [hx.1]
  · simp only [hk, if_false]; exact h

theorem gatedPut_at_self {l : List α} {x : α} (hx : ValidNew key sv P P' x) (hb : Between key P P' l) :
    lookupBy key (gatedPut key sv true l x).1 (key x) = P' (key x) := by
  rw [gatedPut_lookup]
  simp only [if_true]
  rcases hb (key x) with h | h
  · cases ho : lookupBy key l (key x) with
    | none => simp [hx.1]
    | some old =>
      have := hx.2 old (by rw [← h, ho])
      simp [this, hx.1]
  · rw [h, hx.1]; simp [hx.1]

theorem gatedPutAll_between {am : Bool} {xs l : List α} (hx : ∀ x ∈ xs, ValidNew key sv P P' x)
    (hb : Between key P P' l) : Between key P P' (gatedPutAll key sv am l xs).1 := by
  induction xs generalizing l with
  | nil => exact hb
  | cons x xs ih =>
    rw [gatedPutAll_cons]
    exact ih (fun y hy => hx y (by simp [hy])) (gatedPut_between key sv P P' (hx x (by simp)) hb)

theorem gatedPutAll_at {am : Bool} {xs l : List α} (hx : ∀ x ∈ xs, ValidNew key sv P P' x) {k : Nat}
    (h : lookupBy key l k = P' k) : lookupBy key (gatedPutAll key sv am l xs).1 k = P' k := by
  induction xs generalizing l with
  | nil => exact h
  | cons x xs ih =>
    rw [gatedPutAll_cons]
    exact ih (fun y hy => hx y (by simp [hy])) (gatedPut_at key sv P P' (hx x (by simp)) h)

theorem gatedPutAll_at_new {xs l : List α} (hx : ∀ x ∈ xs, ValidNew key sv P P' x) (hb : Between key P P' l) :
    ∀ x ∈ xs, lookupBy key (gatedPutAll key sv true l xs).1 (key x) = P' (key x) := by
  induction xs generalizing l with
  | nil => intro x hx; cases hx
  | cons y ys ih =>
    intro x hxm
    rw [gatedPutAll_cons]
    have hys : ∀ z ∈ ys, ValidNew key sv P P' z := fun z hz => hx z (by simp [hz])
    rcases List.mem_cons.mp hxm with rfl | hxm
    · exact gatedPutAll_at key sv P P' hys (gatedPut_at_self key sv P P' (hx x (by simp)) hb)
    · exact ih hys (gatedPut_between key sv P P' (hx y (by simp)) hb) x hxm

end Converge
/-! ### descriptor table operations, lookup-wise -/

theorem createDescr_lookup (ds : List Descr) (d : Descr) (k : Nat) :
    lookupBy (·.handle) (createDescr ds d) k = if k = d.handle then some d else lookupBy (·.handle) ds k := by
  unfold createDescr
  cases ho : lookupBy (·.handle) ds d.handle with
  | none =>
    simp only []
    rw [lookupBy_append, lookupBy_cons]
    by_cases hk : k = d.handle
    · subst hk; simp [ho]
    · have : d.handle ≠ k := fun h => hk h.symm
      simp [hk, this]
  | some old =>
    simp only []
    rw [lookupBy_replaceBy]
    by_cases hk : k = d.handle
    · subst hk; simp [ho]
    · simp [hk]

theorem updateDescr_lookup (ds : List Descr) (d : Descr) (k : Nat) :
    lookupBy (·.handle) (updateDescr ds d) k =
      if k = d.handle then (lookupBy (·.handle) ds k).map (fun old => { d with parent := old.parent, mds := old.mds })
      else lookupBy (·.handle) ds k := by
  unfold updateDescr
  cases ho : lookupBy (·.handle) ds d.handle with
  | none =>
    simp only []
    by_cases hk : k = d.handle
    · subst hk; simp [ho]
    · simp [hk]
  | some old =>
    simp only []
    rw [lookupBy_replaceBy]
    by_cases hk : k = d.handle
    · subst hk; simp [ho]
    · have : ¬ k = ({ d with parent := old.parent, mds := old.mds } : Descr).handle := hk
      simp [hk]

theorem removeBy_lookup {α : Type} (key : α → Nat) (l : List α) (p : Nat → Bool) (k : Nat) :
    lookupBy key (removeBy key l p) k = if p k then none else lookupBy key l k := by
  unfold removeBy
  induction l with
  | nil => simp
  | cons y ys ih =>
    rw [List.filter_cons]
    by_cases hp : p (key y) = true
    · simp only [hp, Bool.not_true, Bool.false_eq_true, if_false]
      rw [ih, lookupBy_cons]
      by_cases hk : key y = k
      · subst hk; simp [hp]
      · simp [hk]
    · simp only [hp, Bool.not_false, if_true]
      rw [lookupBy_cons, lookupBy_cons, ih]
      by_cases hk : key y = k
      · subst hk; simp [hp]
      · simp [hk]

/-- a descriptor without children: the subtree is the descriptor itself -/
theorem subtree_flat {ds : List Descr} {h : Handle} (hc : ∀ d ∈ ds, d.parent ≠ some h) : subtree ds h = [h] := by
  unfold subtree
  have hch : childrenOf ds [h] = [] := by
    unfold childrenOf
    rw [List.map_eq_nil_iff, List.filter_eq_nil_iff]
    intro d hd
    have := hc d hd
    cases hp : d.parent with
    | none => simp
    | some q =>
      have : q ≠ h := fun e => this (by rw [hp, e])
      simp [this]
  cases hn : ds.length with
  | zero => rfl
  | succ n =>
    unfold reach
    simp [hch]

/-! ### one transaction: facts about `p → p'` and its reports, invariant while the reports are processed -/

/-- the three tables as lookup functions -/
def Core.pd (p : Core) : Nat → Option Descr := fun k => lookupBy (·.handle) p.tabs.descrs k
def Core.ps (p : Core) : Nat → Option SState := fun k => lookupBy (·.dh) p.tabs.states k
def Core.pc (p : Core) : Nat → Option CState := fun k => lookupBy (·.h) p.tabs.cstates k

section Tx
variable (p p' : Core)


/-- handles of the context states an UPDATE part of a context descriptor lists -/
def keepOf (q : DescrPart) : List Handle := (q.cstates.filter (fun s => s.dh == q.descr.handle)).map (·.h)

/-- what `reportsDescribe` says about the parts `ps` (Prop form) -/
structure PartFacts (ps : List DescrPart) : Prop where
  wfp : p.tabs.Wf
  wfp' : p'.tabs.Wf
  created : ∀ q ∈ ps, q.mod = .create → p.pd q.descr.handle = none ∧ p'.pd q.descr.handle = some q.descr
  updated : ∀ q ∈ ps, q.mod = .update → ∃ old, p.pd q.descr.handle = some old ∧ old.parent = q.descr.parent ∧
    old.mds = q.descr.mds ∧ p'.pd q.descr.handle = some q.descr
  deleted : ∀ q ∈ ps, q.mod = .delete → (∃ old, p.pd q.descr.handle = some old) ∧ p'.pd q.descr.handle = none
  sValid : ∀ q ∈ ps, q.mod ≠ .delete → ∀ x ∈ q.states, ValidNew (·.dh) (·.sv) p.ps p'.ps x
  cValid : ∀ q ∈ ps, q.mod ≠ .delete → ∀ x ∈ q.cstates, ValidNew (·.h) (·.sv) p.pc p'.pc x
  delS : ∀ q ∈ ps, q.mod = .delete → p'.ps q.descr.handle = none
  delC : ∀ q ∈ ps, q.mod = .delete → ∀ c ∈ p'.tabs.cstates, c.dh ≠ q.descr.handle
  stable : ∀ k c c', p.pc k = some c → p'.pc k = some c' → c'.dh = c.dh
  ctxLists : ∀ q ∈ ps, q.mod = .update → q.descr.kind = Kind.context →
    ∀ c ∈ p'.tabs.cstates, c.dh = q.descr.handle → c.h ∈ keepOf q

/-- invariant while the parts are processed; `done` = the parts processed so far -/
structure Mid (done : List DescrPart) (t : Tables) : Prop where
  wf : t.Wf
  d : Between (·.handle) p.pd p'.pd t.descrs
  s : Between (·.dh) p.ps p'.ps t.states
  c : Between (·.h) p.pc p'.pc t.cstates
  dDone : ∀ b ∈ done, lookupBy (·.handle) t.descrs b.descr.handle = p'.pd b.descr.handle
  dKeep : ∀ k, (∀ b ∈ done, b.descr.handle ≠ k) → lookupBy (·.handle) t.descrs k = p.pd k
  sDel : ∀ b ∈ done, b.mod = .delete → lookupBy (·.dh) t.states b.descr.handle = p'.ps b.descr.handle
  cDel : ∀ b ∈ done, b.mod = .delete → ∀ k c, p.pc k = some c → c.dh = b.descr.handle →
    lookupBy (·.h) t.cstates k = p'.pc k
  cUpd : ∀ b ∈ done, b.mod = .update → b.descr.kind = Kind.context → ∀ k c, p.pc k = some c →
    c.dh = b.descr.handle → k ∉ keepOf b → lookupBy (·.h) t.cstates k = p'.pc k

variable {p p'}

/-- an entry of a `Between` table with unique keys is an entry of `p` or of `p'` -/
theorem between_mem {α : Type} {key : α → Nat} {l pl pl' : List α} (hn : (l.map key).Nodup)
    (hb : Between key (fun k => lookupBy key pl k) (fun k => lookupBy key pl' k) l) {x : α} (hx : x ∈ l) :
    x ∈ pl ∨ x ∈ pl' := by
  have h := lookupBy_of_mem_nodup key hn hx
  rcases hb (key x) with h1 | h1
  · rw [h] at h1; exact Or.inl (lookupBy_some_mem key h1.symm).1
  · rw [h] at h1; exact Or.inr (lookupBy_some_mem key h1.symm).1

/-- filtering a table with unique keys filters the lookups -/
theorem lookupBy_filter_nodup {α : Type} (key : α → Nat) {l : List α} (f : α → Bool) (hn : (l.map key).Nodup) (k : Nat) :
    lookupBy key (l.filter f) k = (lookupBy key l k).filter f := by
  induction l with
  | nil => simp
  | cons y ys ih =>
    simp only [List.map_cons, List.nodup_cons] at hn
    rw [List.filter_cons, lookupBy_cons]
    by_cases hf : f y = true
    · simp only [hf, if_true]
      rw [lookupBy_cons, ih hn.2]
      by_cases hk : key y = k
      · simp [hk, Option.filter, hf]
      · simp [hk]
    · have hf' : f y = false := by simpa using hf
      simp only [hf', Bool.false_eq_true, if_false]
      rw [ih hn.2]
      by_cases hk : key y = k
      · subst hk
        have : lookupBy key ys (key y) = none := by
          rw [lookupBy_none_iff]; intro a ha he; exact hn.1 (he ▸ List.mem_map_of_mem ha)
        simp [this, Option.filter, hf']
      · simp [hk]

/-- a context state that an UPDATE part of its (context) descriptor does not list is gone in `p'` -/
theorem unlisted_cstate_gone {ps : List DescrPart} {q : DescrPart} (F : PartFacts p p' ps) (hq : q ∈ ps)
    (hm : q.mod = .update) (hkind : q.descr.kind = Kind.context) {k : Nat} {c : CState} (hk : p.pc k = some c)
    (hdh : c.dh = q.descr.handle) (hnot : k ∉ keepOf q) : p'.pc k = none := by
  cases h' : p'.pc k with
  | none => rfl
  | some c' =>
    have h1 := F.stable k c c' hk h'
    have h2 := lookupBy_some_mem _ h'
    have := F.ctxLists q hq hm hkind c' h2.1 (h1.trans hdh)
    rw [h2.2] at this
    exact absurd this hnot

theorem mid_create {ps done : List DescrPart} {t : Tables} {q : DescrPart} (F : PartFacts p p' ps) (hq : q ∈ ps)
    (hm : q.mod = .create) (hnew : ∀ b ∈ done, b.descr.handle ≠ q.descr.handle) (M : Mid p p' done t) :
    Mid p p' (done ++ [q]) (applyPart t q) ∧
    (∀ k, lookupBy (·.dh) t.states k = p'.ps k → lookupBy (·.dh) (applyPart t q).states k = p'.ps k) ∧
    (∀ k, lookupBy (·.h) t.cstates k = p'.pc k → lookupBy (·.h) (applyPart t q).cstates k = p'.pc k) := by
  have hc := F.created q hq hm
  have hnd : q.mod ≠ .delete := by rw [hm]; decide
  have hs := F.sValid q hq hnd
  have hcs := F.cValid q hq hnd
  have hap : applyPart t q = { descrs := createDescr t.descrs q.descr
                               states := (gatedPutAll (·.dh) (·.sv) true t.states q.states).1
                               cstates := (gatedPutAll (·.h) (·.sv) true t.cstates q.cstates).1 } := by
    unfold applyPart; rw [hm]
  refine ⟨⟨applyPart_wf q M.wf, ?_, ?_, ?_, ?_, ?_, ?_, ?_, ?_⟩, ?_, ?_⟩
  · intro k
    rw [hap]; simp only; rw [createDescr_lookup]
    by_cases hk : k = q.descr.handle
    · subst hk; right; simp [hc.2]
    · simp only [hk, if_false]; exact M.d k
  · rw [hap]; exact gatedPutAll_between _ _ _ _ hs M.s
  · rw [hap]; exact gatedPutAll_between _ _ _ _ hcs M.c
  · intro b hb
    rw [hap]; simp only; rw [createDescr_lookup]
    rcases List.mem_append.mp hb with hb | hb
    · have := hnew b hb
      simp only [this, if_false]; exact M.dDone b hb
    · simp only [List.mem_singleton] at hb; subst hb; simp [hc.2]
  · intro k hk
    rw [hap]; simp only; rw [createDescr_lookup]
    have hkq : k ≠ q.descr.handle := fun e => hk q (by simp) e.symm
    simp only [hkq, if_false]
    exact M.dKeep k (fun b hb => hk b (by simp [hb]))
  · intro b hb hbm
    rw [hap]
    rcases List.mem_append.mp hb with hb | hb
    · exact gatedPutAll_at _ _ _ _ hs (M.sDel b hb hbm)
    · simp only [List.mem_singleton] at hb; subst hb; rw [hm] at hbm; cases hbm
  · intro b hb hbm k c hk hdh
    rw [hap]
    rcases List.mem_append.mp hb with hb | hb
    · exact gatedPutAll_at _ _ _ _ hcs (M.cDel b hb hbm k c hk hdh)
    · simp only [List.mem_singleton] at hb; subst hb; rw [hm] at hbm; cases hbm
  · intro b hb hbm hbk k c hk hdh hnot
    rw [hap]
    rcases List.mem_append.mp hb with hb | hb
    · exact gatedPutAll_at _ _ _ _ hcs (M.cUpd b hb hbm hbk k c hk hdh hnot)
    · simp only [List.mem_singleton] at hb; subst hb; rw [hm] at hbm; cases hbm
  · intro k hk; rw [hap]; exact gatedPutAll_at _ _ _ _ hs hk
  · intro k hk; rw [hap]; exact gatedPutAll_at _ _ _ _ hcs hk


theorem mid_update {ps done : List DescrPart} {t : Tables} {q : DescrPart} (F : PartFacts p p' ps) (hq : q ∈ ps)
    (hm : q.mod = .update) (hnew : ∀ b ∈ done, b.descr.handle ≠ q.descr.handle) (M : Mid p p' done t) :
    Mid p p' (done ++ [q]) (applyPart t q) ∧
    (∀ k, lookupBy (·.dh) t.states k = p'.ps k → lookupBy (·.dh) (applyPart t q).states k = p'.ps k) ∧
    (∀ k, lookupBy (·.h) t.cstates k = p'.pc k → lookupBy (·.h) (applyPart t q).cstates k = p'.pc k) := by
  obtain ⟨old, ho, hpar, hmds, hnewd⟩ := F.updated q hq hm
  have hnd : q.mod ≠ .delete := by rw [hm]; decide
  have hs := F.sValid q hq hnd
  have hcs := F.cValid q hq hnd
  -- the context-state filter of an UPDATE part of a context descriptor removes exactly the states it does not list
  let cs' := if q.descr.kind == Kind.context
      then t.cstates.filter (fun s => !(s.dh == q.descr.handle && !(keepOf q).contains s.h))
      else t.cstates
  have hcs'wf : (cs'.map (·.h)).Nodup := by
    by_cases hk' : (q.descr.kind == Kind.context) = true
    · simp only [cs', hk', if_true]; exact nodup_filter_keys _ _ M.wf.c
    · simp only [cs', hk', if_false]; exact M.wf.c
  have hlk : ∀ k, lookupBy (·.h) cs' k = lookupBy (·.h) t.cstates k ∨
      (lookupBy (·.h) cs' k = none ∧ q.descr.kind = Kind.context ∧
        ∃ c, lookupBy (·.h) t.cstates k = some c ∧ c.dh = q.descr.handle ∧ k ∉ keepOf q) := by
    intro k
    by_cases hk' : q.descr.kind = Kind.context
    · have hcs' : cs' = t.cstates.filter (fun s => !(s.dh == q.descr.handle && !(keepOf q).contains s.h)) := by
        simp only [cs', hk', beq_self_eq_true, if_true]
      rw [hcs', lookupBy_filter_nodup _ _ M.wf.c]
      cases hl : lookupBy (·.h) t.cstates k with
      | none => left; rfl
      | some c =>
        have hck : c.h = k := (lookupBy_some_mem _ hl).2
        by_cases hrem : c.dh = q.descr.handle ∧ k ∉ keepOf q
        · right
          refine ⟨?_, hk', c, rfl, hrem.1, hrem.2⟩
          have h3 : (keepOf q).contains c.h = false := by
            rw [hck]
            cases hc : (keepOf q).contains k with
            | false => rfl
            | true => exact absurd (List.contains_iff_mem.mp hc) hrem.2
          have e1 : (c.dh == q.descr.handle) = true := by rw [hrem.1]; exact beq_self_eq_true _
          have : (!(c.dh == q.descr.handle && !(keepOf q).contains c.h)) = false := by rw [e1, h3]; rfl
          rw [Option.filter_some, if_neg (by rw [this]; decide)]
        · left
          have : (!(c.dh == q.descr.handle && !(keepOf q).contains c.h)) = true := by
            rw [hck]
            by_cases h1 : c.dh = q.descr.handle
            · have h2 : k ∈ keepOf q := Decidable.byContradiction (fun h => hrem ⟨h1, h⟩)
              have h3 : (keepOf q).contains k = true := List.contains_iff_mem.mpr h2
              rw [h3]; cases (c.dh == q.descr.handle) <;> rfl
            · have e1 : (c.dh == q.descr.handle) = false := by
                cases he : c.dh == q.descr.handle with
                | false => rfl
                | true => exact absurd (by simpa using he) h1
              rw [e1]; rfl
          rw [Option.filter_some, if_pos this]
    · left
      have : (q.descr.kind == Kind.context) = false := by
        cases he : q.descr.kind == Kind.context with
        | false => rfl
        | true => exact absurd (by simpa using he) hk'
      simp only [cs', this, Bool.false_eq_true, if_false]
  -- an entry that is removed was old content without new content
  have hgone : ∀ k c, lookupBy (·.h) t.cstates k = some c → q.descr.kind = Kind.context → c.dh = q.descr.handle →
      k ∉ keepOf q → p.pc k = some c ∧ p'.pc k = none := by
    intro k c hl hkind hdh hnot
    have hck : c.h = k := (lookupBy_some_mem _ hl).2
    rcases M.c k with h | h
    · rw [hl] at h
      exact ⟨h.symm, unlisted_cstate_gone F hq hm hkind h.symm hdh hnot⟩
    · rw [hl] at h
      have hc' : c ∈ p'.tabs.cstates := (lookupBy_some_mem _ h.symm).1
      have := F.ctxLists q hq hm hkind c hc' hdh
      rw [hck] at this
      exact absurd this hnot
  have hbetween' : Between (·.h) p.pc p'.pc cs' := by
    intro k
    rcases hlk k with h | ⟨h, hkind, c, hl, hdh, hnot⟩
    · rw [h]; exact M.c k
    · right; rw [h]; exact (hgone k c hl hkind hdh hnot).2.symm
  have hat' : ∀ k, lookupBy (·.h) t.cstates k = p'.pc k → lookupBy (·.h) cs' k = p'.pc k := by
    intro k hk
    rcases hlk k with h | ⟨h, hkind, c, hl, hdh, hnot⟩
    · rw [h]; exact hk
    · rw [h]; exact (hgone k c hl hkind hdh hnot).2.symm
  have hrm : ∀ k c, lookupBy (·.h) t.cstates k = some c → q.descr.kind = Kind.context → c.dh = q.descr.handle →
      k ∉ keepOf q → lookupBy (·.h) cs' k = none := by
    intro k c hl hkind hdh hnot
    have hck : c.h = k := (lookupBy_some_mem _ hl).2
    have hcs' : cs' = t.cstates.filter (fun s => !(s.dh == q.descr.handle && !(keepOf q).contains s.h)) := by
      simp only [cs', hkind, beq_self_eq_true, if_true]
    rw [hcs', lookupBy_filter_nodup _ _ M.wf.c, hl]
    have h3 : (keepOf q).contains c.h = false := by
      rw [hck]
      cases hc : (keepOf q).contains k with
      | false => rfl
      | true => exact absurd (List.contains_iff_mem.mp hc) hnot
    have e1 : (c.dh == q.descr.handle) = true := by rw [hdh]; exact beq_self_eq_true _
    have : (!(c.dh == q.descr.handle && !(keepOf q).contains c.h)) = false := by rw [e1, h3]; rfl
    rw [Option.filter_some, if_neg (by rw [this]; decide)]
  have hap : applyPart t q = { descrs := updateDescr t.descrs q.descr
                               states := (gatedPutAll (·.dh) (·.sv) false t.states q.states).1
                               cstates := (gatedPutAll (·.h) (·.sv) false cs' q.cstates).1 } := by
    unfold applyPart; rw [hm]; simp only [keepOf, cs']
  -- the updated descriptor is the new content
  have hd : lookupBy (·.handle) (updateDescr t.descrs q.descr) q.descr.handle = some q.descr := by
    rw [updateDescr_lookup]; simp only [if_true]
    rcases M.d q.descr.handle with h | h
    · rw [h]; show (p.pd q.descr.handle).map _ = _
      rw [ho]; simp only [Option.map_some, hpar, hmds]
    · rw [h]; show (p'.pd q.descr.handle).map _ = _
      rw [hnewd]; simp
  refine ⟨⟨applyPart_wf q M.wf, ?_, ?_, ?_, ?_, ?_, ?_, ?_, ?_⟩, ?_, ?_⟩
  · intro k
    rw [hap]; simp only
    by_cases hk : k = q.descr.handle
    · subst hk; right; rw [hd]; exact hnewd.symm
    · rw [updateDescr_lookup]; simp only [hk, if_false]; exact M.d k
  · rw [hap]; exact gatedPutAll_between _ _ _ _ hs M.s
  · rw [hap]; exact gatedPutAll_between _ _ _ _ hcs hbetween'
  · intro b hb
    rw [hap]; simp only
    rcases List.mem_append.mp hb with hb | hb
    · have := hnew b hb
      rw [updateDescr_lookup]; simp only [this, if_false]; exact M.dDone b hb
    · simp only [List.mem_singleton] at hb; subst hb; rw [hd]; exact hnewd.symm
  · intro k hk
    rw [hap]; simp only; rw [updateDescr_lookup]
    have hkq : k ≠ q.descr.handle := fun e => hk q (by simp) e.symm
    simp only [hkq, if_false]
    exact M.dKeep k (fun b hb => hk b (by simp [hb]))
  · intro b hb hbm
    rw [hap]
    rcases List.mem_append.mp hb with hb | hb
    · exact gatedPutAll_at _ _ _ _ hs (M.sDel b hb hbm)
    · simp only [List.mem_singleton] at hb; subst hb; rw [hm] at hbm; cases hbm
  · intro b hb hbm k c hk hdh
    rw [hap]
    rcases List.mem_append.mp hb with hb | hb
    · exact gatedPutAll_at _ _ _ _ hcs (hat' k (M.cDel b hb hbm k c hk hdh))
    · simp only [List.mem_singleton] at hb; subst hb; rw [hm] at hbm; cases hbm
  · intro b hb hbm hbk k c hk hdh hnot
    rw [hap]
    rcases List.mem_append.mp hb with hb | hb
    · exact gatedPutAll_at _ _ _ _ hcs (hat' k (M.cUpd b hb hbm hbk k c hk hdh hnot))
    · have hbq : b = q := by simpa using hb
      rw [hbq] at hbk hdh hnot
      apply gatedPutAll_at _ _ _ _ hcs
      have hp' := unlisted_cstate_gone F hq hm hbk hk hdh hnot
      rw [hp']
      rcases M.c k with h2 | h2
      · rw [hk] at h2; exact hrm k c h2 hbk hdh hnot
      · have := hat' k h2; rw [hp'] at this; exact this
  · intro k hk; rw [hap]; exact gatedPutAll_at _ _ _ _ hs hk
  · intro k hk; rw [hap]; exact gatedPutAll_at _ _ _ _ hcs (hat' k hk)

/-- flatness of one DELETE part, as needed at the moment it is processed -/
def FlatAt (p : Core) (ps done : List DescrPart) (q : DescrPart) : Prop :=
  (∀ d ∈ p.tabs.descrs, d.parent = some q.descr.handle →
    ∃ b ∈ done, b.mod = .delete ∧ b.descr.handle = d.handle) ∧
  (∀ b ∈ ps, b.mod ≠ .delete → b.descr.parent ≠ some q.descr.handle)

/-- every descriptor of `p'` is a descriptor of `p` or the descriptor of a CREATE / UPDATE part -/
def DescrComplete (p p' : Core) (ps : List DescrPart) : Prop :=
  ∀ d ∈ p'.tabs.descrs, p.pd d.handle = some d ∨ ∃ b ∈ ps, b.mod ≠ .delete ∧ b.descr.handle = d.handle

/-- a context state of a deleted descriptor is gone in `p'` -/
theorem deleted_cstate_gone {ps : List DescrPart} {b : DescrPart} (F : PartFacts p p' ps) (hb : b ∈ ps)
    (hbm : b.mod = .delete) {k : Nat} {c : CState} (hk : p.pc k = some c) (hdh : c.dh = b.descr.handle) :
    p'.pc k = none := by
  cases h' : p'.pc k with
  | none => rfl
  | some c' =>
    have h1 := F.stable k c c' hk h'
    have h2 : c' ∈ p'.tabs.cstates := (lookupBy_some_mem _ h').1
    exact absurd (h1.trans hdh) (F.delC b hb hbm c' h2)

theorem mid_delete {ps done : List DescrPart} {t : Tables} {q : DescrPart} (F : PartFacts p p' ps) (hq : q ∈ ps)
    (hm : q.mod = .delete) (hnew : ∀ b ∈ done, b.descr.handle ≠ q.descr.handle) (hdone : ∀ b ∈ done, b ∈ ps)
    (hcomp : DescrComplete p p' ps) (hflat : FlatAt p ps done q) (M : Mid p p' done t) :
    Mid p p' (done ++ [q]) (applyPart t q) ∧
    (∀ k, lookupBy (·.dh) t.states k = p'.ps k → lookupBy (·.dh) (applyPart t q).states k = p'.ps k) ∧
    (∀ k, lookupBy (·.h) t.cstates k = p'.pc k → lookupBy (·.h) (applyPart t q).cstates k = p'.pc k) := by
  obtain ⟨⟨old, ho⟩, hnone⟩ := F.deleted q hq hm
  have hS := F.delS q hq hm
  have hC := F.delC q hq hm
  have hcur : lookupBy (·.handle) t.descrs q.descr.handle = some old := by
    rw [M.dKeep q.descr.handle hnew]; exact ho
  -- no children left: the subtree is the descriptor itself
  have hchild : ∀ d ∈ t.descrs, d.parent ≠ some q.descr.handle := by
    intro d hd hpar
    have hlk := lookupBy_of_mem_nodup (·.handle) M.wf.d hd
    have hold : d ∈ p.tabs.descrs → False := by
      intro hdp
      obtain ⟨b, hb, hbm, hbh⟩ := hflat.1 d hdp hpar
      have h2 := M.dDone b hb
      rw [(F.deleted b (hdone b hb) hbm).2, hbh, hlk] at h2
      cases h2
    rcases M.d d.handle with h1 | h1
    · rw [hlk] at h1; exact hold (lookupBy_some_mem _ h1.symm).1
    · rw [hlk] at h1
      have hdp' : d ∈ p'.tabs.descrs := (lookupBy_some_mem _ h1.symm).1
      rcases hcomp d hdp' with h2 | ⟨b, hb, hbm, hbh⟩
      · exact hold (lookupBy_some_mem _ h2).1
      · have hbd : b.descr = d := by
          cases hmod : b.mod with
          | create =>
            have := (F.created b hb hmod).2
            rw [hbh] at this; rw [← h1] at this; exact (Option.some.inj this).symm
          | update =>
            obtain ⟨_, _, _, _, this⟩ := F.updated b hb hmod
            rw [hbh] at this; rw [← h1] at this; exact (Option.some.inj this).symm
          | delete => exact absurd hmod hbm
        exact hflat.2 b hb hbm (by rw [hbd]; exact hpar)
  have hsub : subtree t.descrs q.descr.handle = [q.descr.handle] := subtree_flat hchild
  have hap : applyPart t q =
      { descrs := removeBy (·.handle) t.descrs [q.descr.handle].contains
        states := removeBy (·.dh) t.states [q.descr.handle].contains
        cstates := removeBy (·.dh) t.cstates [q.descr.handle].contains } := by
    unfold applyPart; rw [hm]; simp only
    unfold rmDescriptor; rw [hcur]; simp only [hsub]
  have hcs : ∀ k, lookupBy (·.h) (removeBy (·.dh) t.cstates [q.descr.handle].contains) k =
      (lookupBy (·.h) t.cstates k).filter (fun c => !([q.descr.handle].contains c.dh)) := by
    intro k; unfold removeBy; exact lookupBy_filter_nodup _ _ M.wf.c k
  refine ⟨⟨applyPart_wf q M.wf, ?_, ?_, ?_, ?_, ?_, ?_, ?_, ?_⟩, ?_, ?_⟩
  · intro k
    rw [hap]; simp only; rw [removeBy_lookup]
    by_cases hk : k = q.descr.handle
    · subst hk; right; simp [hnone]
    · have : [q.descr.handle].contains k = false := by simp [hk]
      simp only [this, Bool.false_eq_true, if_false]; exact M.d k
  · intro k
    rw [hap]; simp only; rw [removeBy_lookup]
    by_cases hk : k = q.descr.handle
    · subst hk; right; simp [hS]
    · have : [q.descr.handle].contains k = false := by simp [hk]
      simp only [this, Bool.false_eq_true, if_false]; exact M.s k
  · intro k
    rw [hap]; simp only; rw [hcs]
    cases hl : lookupBy (·.h) t.cstates k with
    | none =>
      rcases M.c k with h | h
      · left; rw [← h, hl]; rfl
      · right; rw [← h, hl]; rfl
    | some c =>
      by_cases hdh : c.dh = q.descr.handle
      · -- removed: it was the old content and has no new content
        right
        have hfil : (some c : Option CState).filter (fun c => !([q.descr.handle].contains c.dh)) = none := by
          simp [hdh]
        rw [hfil]
        rcases M.c k with h | h
        · rw [hl] at h
          exact (deleted_cstate_gone F hq hm h.symm hdh).symm
        · rw [hl] at h
          exact absurd hdh (hC c (lookupBy_some_mem _ h.symm).1)
      · have hfil : (some c : Option CState).filter (fun c => !([q.descr.handle].contains c.dh)) = some c := by
          simp [hdh]
        rw [hfil, ← hl]; exact M.c k
  · intro b hb
    rw [hap]; simp only; rw [removeBy_lookup]
    rcases List.mem_append.mp hb with hb | hb
    · have hne := hnew b hb
      have : [q.descr.handle].contains b.descr.handle = false := by simp [hne]
      simp only [this, Bool.false_eq_true, if_false]; exact M.dDone b hb
    · simp only [List.mem_singleton] at hb; subst hb; simp [hnone]
  · intro k hk
    rw [hap]; simp only; rw [removeBy_lookup]
    have hkq : k ≠ q.descr.handle := fun e => hk q (by simp) e.symm
    have : [q.descr.handle].contains k = false := by simp [hkq]
    simp only [this, Bool.false_eq_true, if_false]
    exact M.dKeep k (fun b hb => hk b (by simp [hb]))
  · intro b hb hbm
    rw [hap]; simp only; rw [removeBy_lookup]
    rcases List.mem_append.mp hb with hb | hb
    · have hne := hnew b hb
      have : [q.descr.handle].contains b.descr.handle = false := by simp [hne]
      simp only [this, Bool.false_eq_true, if_false]; exact M.sDel b hb hbm
    · simp only [List.mem_singleton] at hb; subst hb; simp [hS]
  · intro b hb hbm k c hk hdh
    rw [hap]; simp only; rw [hcs]
    rcases List.mem_append.mp hb with hb | hb
    · have h1 := M.cDel b hb hbm k c hk hdh
      have h2 := deleted_cstate_gone F (hdone b hb) hbm hk hdh
      rw [h1, h2]; rfl
    · simp only [List.mem_singleton] at hb; subst hb
      have h2 := deleted_cstate_gone F hq hm hk hdh
      rw [h2]
      rcases M.c k with h | h
      · rw [h]; show (p.pc k).filter _ = none
        rw [hk]; simp [hdh]
      · rw [h]; show (p'.pc k).filter _ = none
        rw [h2]; rfl
  · intro b hb hbm hbk k c hk hdh hnot
    rw [hap]; simp only; rw [hcs]
    rcases List.mem_append.mp hb with hb | hb
    · have h1 := M.cUpd b hb hbm hbk k c hk hdh hnot
      have h2 := unlisted_cstate_gone F (hdone b hb) hbm hbk hk hdh hnot
      rw [h1, h2]; rfl
    · simp only [List.mem_singleton] at hb; subst hb; rw [hm] at hbm; cases hbm
  · intro k hk
    rw [hap]; simp only; rw [removeBy_lookup]
    by_cases hkq : k = q.descr.handle
    · subst hkq; simp [hS]
    · have : [q.descr.handle].contains k = false := by simp [hkq]
      simp only [this, Bool.false_eq_true, if_false]; exact hk
  · intro k hk
    rw [hap]; simp only; rw [hcs, hk]
    cases h' : p'.pc k with
    | none => rfl
    | some c' =>
      have := hC c' (lookupBy_some_mem _ h').1
      simp [this]

end Tx
section Fold
variable {p p' : Core}

/-- flatness of the DELETE parts along the list (Prop form of `flatDeletes`) -/
def FlatAll (p : Core) (ps : List DescrPart) : List DescrPart → List DescrPart → Prop
  | _, [] => True
  | done, q :: rest => (q.mod = .delete → FlatAt p ps done q) ∧ FlatAll p ps (done ++ [q]) rest

theorem flatAll_append {ps : List DescrPart} : ∀ (a b done : List DescrPart),
    FlatAll p ps done (a ++ b) → FlatAll p ps done a ∧ FlatAll p ps (done ++ a) b
  | [], b, done, h => ⟨trivial, by simpa using h⟩
  | q :: a, b, done, h => by
    obtain ⟨h1, h2⟩ := h
    have := flatAll_append a b (done ++ [q]) h2
    exact ⟨⟨h1, this.1⟩, by simpa using this.2⟩

theorem mid_part {ps done : List DescrPart} {t : Tables} {q : DescrPart} (F : PartFacts p p' ps) (hq : q ∈ ps)
    (hnew : ∀ b ∈ done, b.descr.handle ≠ q.descr.handle) (hdone : ∀ b ∈ done, b ∈ ps)
    (hcomp : DescrComplete p p' ps) (hflat : q.mod = .delete → FlatAt p ps done q) (M : Mid p p' done t) :
    Mid p p' (done ++ [q]) (applyPart t q) ∧
    (∀ k, lookupBy (·.dh) t.states k = p'.ps k → lookupBy (·.dh) (applyPart t q).states k = p'.ps k) ∧
    (∀ k, lookupBy (·.h) t.cstates k = p'.pc k → lookupBy (·.h) (applyPart t q).cstates k = p'.pc k) := by
  cases hm : q.mod with
  | create => exact mid_create F hq hm hnew M
  | update => exact mid_update F hq hm hnew M
  | delete => exact mid_delete F hq hm hnew hdone hcomp (hflat hm) M

theorem mid_parts {ps : List DescrPart} (F : PartFacts p p' ps) (hcomp : DescrComplete p p' ps) :
    ∀ (rest done : List DescrPart) (t : Tables), (∀ b ∈ done, b ∈ ps) → (∀ q ∈ rest, q ∈ ps) →
      ((done ++ rest).map (·.descr.handle)).Nodup → FlatAll p ps done rest → Mid p p' done t →
      Mid p p' (done ++ rest) (applyParts t rest) ∧
      (∀ k, lookupBy (·.dh) t.states k = p'.ps k → lookupBy (·.dh) (applyParts t rest).states k = p'.ps k) ∧
      (∀ k, lookupBy (·.h) t.cstates k = p'.pc k → lookupBy (·.h) (applyParts t rest).cstates k = p'.pc k)
  | [], done, t, _, _, _, _, M => by
    simp only [List.append_nil]; exact ⟨M, fun _ h => h, fun _ h => h⟩
  | q :: rest, done, t, hdone, hrest, hnd, hflat, M => by
    have hq : q ∈ ps := hrest q (by simp)
    have hnew : ∀ b ∈ done, b.descr.handle ≠ q.descr.handle := by
      intro b hb he
      rw [List.map_append, List.nodup_append] at hnd
      exact hnd.2.2 _ (List.mem_map_of_mem hb) _ (List.mem_map_of_mem (List.mem_cons_self)) he
    obtain ⟨M1, s1, c1⟩ := mid_part F hq hnew hdone hcomp hflat.1 M
    have hdone' : ∀ b ∈ done ++ [q], b ∈ ps := by
      intro b hb
      rcases List.mem_append.mp hb with h | h
      · exact hdone b h
      · simp only [List.mem_singleton] at h; subst h; exact hq
    have hnd' : (((done ++ [q]) ++ rest).map (·.descr.handle)).Nodup := by simpa using hnd
    obtain ⟨M2, s2, c2⟩ := mid_parts F hcomp rest (done ++ [q]) (applyPart t q) hdone'
      (fun x hx => hrest x (by simp [hx])) hnd' hflat.2 M1
    have e : applyParts t (q :: rest) = applyParts (applyPart t q) rest := rfl
    rw [e]
    refine ⟨by simpa using M2, fun k h => s2 k (s1 k h), fun k h => c2 k (c1 k h)⟩

end Fold
section Reports
variable {p p' : Core}

theorem descrParts_nil : descrParts [] = [] := rfl

theorem descrParts_cons (r : Report) (rs : List Report) :
    descrParts (r :: rs) = (if r.kind = .description then r.parts else []) ++ descrParts rs := by
  unfold descrParts
  by_cases h : r.kind = .description
  · simp [List.filter_cons, h]
  · have : (r.kind == ReportKind.description) = false := by simpa using h
    simp [List.filter_cons, this, h]

theorem mem_descrParts {rs : List Report} {r : Report} (hr : r ∈ rs) (hk : r.kind = .description) {q : DescrPart}
    (hq : q ∈ r.parts) : q ∈ descrParts rs := by
  unfold descrParts
  rw [List.mem_flatMap]
  exact ⟨r, List.mem_filter.mpr ⟨hr, by simpa using hk⟩, hq⟩

/-- what `reportsDescribe` says, in the form the simulation proof uses -/
structure TxFacts (p p' : Core) (rs : List Report) : Prop where
  parts : PartFacts p p' (descrParts rs)
  comp : DescrComplete p p' (descrParts rs)
  flat : FlatAll p (descrParts rs) [] (descrParts rs)
  distinct : ((descrParts rs).map (·.descr.handle)).Nodup
  nonempty : rs ≠ []
  vg : ∀ r ∈ rs, r.vg = p'.vg
  ver : p.vg.ver ≤ p'.vg.ver
  verlt : p.vg.ver < p'.vg.ver
  seq : p.vg.seq = p'.vg.seq
  inst : p.vg.inst = p'.vg.inst
  sValid : ∀ r ∈ rs, r.kind ≠ .description → r.kind ≠ .context → ∀ x ∈ r.states, ValidNew (·.dh) (·.sv) p.ps p'.ps x
  cValid : ∀ r ∈ rs, r.kind = .context → ∀ x ∈ r.cstates, ValidNew (·.h) (·.sv) p.pc p'.pc x
  dRemoved : ∀ d ∈ p.tabs.descrs, p'.pd d.handle ≠ none ∨
    ∃ b ∈ descrParts rs, b.mod = .delete ∧ b.descr.handle = d.handle
  sComplete : ∀ s ∈ p'.tabs.states, p.ps s.dh = some s ∨
    ∃ r ∈ rs, r.kind ≠ .description ∧ r.kind ≠ .context ∧ s ∈ r.states
  sRemoved : ∀ s ∈ p.tabs.states, p'.ps s.dh ≠ none ∨ ∃ b ∈ descrParts rs, b.mod = .delete ∧ b.descr.handle = s.dh
  cComplete : ∀ s ∈ p'.tabs.cstates, p.pc s.h = some s ∨ ∃ r ∈ rs, r.kind = .context ∧ s ∈ r.cstates
  cRemoved : ∀ s ∈ p.tabs.cstates, p'.pc s.h ≠ none ∨ (∃ b ∈ descrParts rs, b.mod = .delete ∧ b.descr.handle = s.dh) ∨
    ∃ b ∈ descrParts rs, b.mod = .update ∧ b.descr.kind = Kind.context ∧ b.descr.handle = s.dh ∧ s.h ∉ keepOf b

/-- one accepted report -/
theorem mid_report {rs : List Report} (T : TxFacts p p' rs) {r : Report} (hr : r ∈ rs) {done : List DescrPart} {c : Core}
    (hdone : ∀ b ∈ done, b ∈ descrParts rs)
    (hnd : ((done ++ (if r.kind = .description then r.parts else [])).map (·.descr.handle)).Nodup)
    (hflat : FlatAll p (descrParts rs) done (if r.kind = .description then r.parts else []))
    (hver : c.vg.ver ≤ p'.vg.ver) (M : Mid p p' done c.tabs) :
    Mid p p' (done ++ (if r.kind = .description then r.parts else [])) (applyReport c r).1.tabs ∧
    (∀ k, lookupBy (·.dh) c.tabs.states k = p'.ps k → lookupBy (·.dh) (applyReport c r).1.tabs.states k = p'.ps k) ∧
    (∀ k, lookupBy (·.h) c.tabs.cstates k = p'.pc k → lookupBy (·.h) (applyReport c r).1.tabs.cstates k = p'.pc k) ∧
    (r.kind ≠ .description → r.kind ≠ .context →
      ∀ x ∈ r.states, lookupBy (·.dh) (applyReport c r).1.tabs.states x.dh = p'.ps x.dh) ∧
    (r.kind = .context → ∀ x ∈ r.cstates, lookupBy (·.h) (applyReport c r).1.tabs.cstates x.h = p'.pc x.h) ∧
    (applyReport c r).1.vg = p'.vg := by
  have hvg := T.vg r hr
  have hacc : canAccept c r = true := by rw [canAccept_iff, hvg]; exact hver
  have hvg' : (applyReport c r).1.vg = p'.vg := by rw [applyReport_vg, hvg]; simp [hver]
  by_cases hkd : r.kind = .description
  · -- description modification report
    have htab : (applyReport c r).1.tabs = applyParts c.tabs r.parts := by
      unfold applyReport; rw [hacc]; simp [hkd]
    simp only [hkd, if_true] at hnd hflat ⊢
    obtain ⟨M', s', c'⟩ := mid_parts T.parts T.comp r.parts done c.tabs hdone
      (fun q hq => mem_descrParts hr hkd hq) hnd hflat M
    rw [htab]
    exact ⟨M', s', c', fun h => absurd rfl h, (fun h => nomatch h), hvg'⟩
  · simp only [hkd, if_false, List.append_nil] at hnd hflat ⊢
    by_cases hkc : r.kind = .context
    · have hx := T.cValid r hr hkc
      have htab : (applyReport c r).1.tabs =
          { c.tabs with cstates := (gatedPutAll (·.h) (·.sv) true c.tabs.cstates r.cstates).1 } := by
        unfold applyReport; rw [hacc]; simp [hkc]
      rw [htab]
      refine ⟨⟨⟨M.wf.d, M.wf.s, gatedPutAll_nodup _ _ _ M.wf.c⟩, M.d, M.s, gatedPutAll_between _ _ _ _ hx M.c, M.dDone,
        M.dKeep, M.sDel, fun b hb hbm k cs hk hdh => gatedPutAll_at _ _ _ _ hx (M.cDel b hb hbm k cs hk hdh),
        fun b hb hbm hbk k cs hk hdh hnot => gatedPutAll_at _ _ _ _ hx (M.cUpd b hb hbm hbk k cs hk hdh hnot)⟩,
        fun _ h => h, fun k h => gatedPutAll_at _ _ _ _ hx h, fun _ h => absurd hkc h,
        fun _ => gatedPutAll_at_new _ _ _ _ hx M.c, hvg'⟩
    · have hx := T.sValid r hr hkd hkc
      have htab : (applyReport c r).1.tabs =
          { c.tabs with states := (gatedPutAll (·.dh) (·.sv) true c.tabs.states r.states).1 } := by
        unfold applyReport; rw [hacc]; simp only [if_true]
        all_goals (cases hk : r.kind <;> simp_all)
      rw [htab]
      refine ⟨⟨⟨M.wf.d, gatedPutAll_nodup _ _ _ M.wf.s, M.wf.c⟩, M.d, gatedPutAll_between _ _ _ _ hx M.s, M.c, M.dDone,
        M.dKeep, fun b hb hbm => gatedPutAll_at _ _ _ _ hx (M.sDel b hb hbm), M.cDel, M.cUpd⟩,
        fun k h => gatedPutAll_at _ _ _ _ hx h, fun _ h => h,
        fun _ _ => gatedPutAll_at_new _ _ _ _ hx M.s, fun h => absurd h hkc, hvg'⟩

end Reports
section All
variable {p p' : Core}

theorem applyAll_cons (c : Core) (r : Report) (rs : List Report) :
    (applyAll c (r :: rs)).1 = (applyAll (applyReport c r).1 rs).1 := rfl

theorem mid_reports {rs : List Report} (T : TxFacts p p' rs) :
    ∀ (rs2 : List Report) (done : List DescrPart) (c : Core), (∀ r ∈ rs2, r ∈ rs) → (∀ b ∈ done, b ∈ descrParts rs) →
      ((done ++ descrParts rs2).map (·.descr.handle)).Nodup → FlatAll p (descrParts rs) done (descrParts rs2) →
      c.vg.ver ≤ p'.vg.ver → Mid p p' done c.tabs →
      Mid p p' (done ++ descrParts rs2) (applyAll c rs2).1.tabs ∧
      (∀ k, lookupBy (·.dh) c.tabs.states k = p'.ps k → lookupBy (·.dh) (applyAll c rs2).1.tabs.states k = p'.ps k) ∧
      (∀ k, lookupBy (·.h) c.tabs.cstates k = p'.pc k → lookupBy (·.h) (applyAll c rs2).1.tabs.cstates k = p'.pc k) ∧
      (∀ r ∈ rs2, r.kind ≠ .description → r.kind ≠ .context →
        ∀ x ∈ r.states, lookupBy (·.dh) (applyAll c rs2).1.tabs.states x.dh = p'.ps x.dh) ∧
      (∀ r ∈ rs2, r.kind = .context → ∀ x ∈ r.cstates, lookupBy (·.h) (applyAll c rs2).1.tabs.cstates x.h = p'.pc x.h) ∧
      (rs2 ≠ [] → (applyAll c rs2).1.vg = p'.vg)
  | [], done, c, _, _, _, _, _, M => by
    simp only [descrParts_nil, List.append_nil]
    exact ⟨M, fun _ h => h, fun _ h => h, (fun r hr => nomatch hr), (fun r hr => nomatch hr), fun h => absurd rfl h⟩
  | r :: rs2, done, c, hsub, hdone, hnd, hflat, hver, M => by
    have hr : r ∈ rs := hsub r (by simp)
    rw [descrParts_cons] at hnd hflat ⊢
    have hnd1 : ((done ++ (if r.kind = .description then r.parts else [])).map (·.descr.handle)).Nodup := by
      rw [← List.append_assoc, List.map_append] at hnd
      exact (List.nodup_append.mp hnd).1
    obtain ⟨hf1, hf2⟩ := flatAll_append _ _ _ hflat
    obtain ⟨M1, s1, c1, a1, b1, v1⟩ := mid_report T hr hdone hnd1 hf1 hver M
    have hdone' : ∀ b ∈ done ++ (if r.kind = .description then r.parts else []), b ∈ descrParts rs := by
      intro b hb
      rcases List.mem_append.mp hb with h | h
      · exact hdone b h
      · by_cases hk : r.kind = .description
        · simp only [hk, if_true] at h; exact mem_descrParts hr hk h
        · simp only [hk, if_false] at h; cases h
    have hver' : (applyReport c r).1.vg.ver ≤ p'.vg.ver := by rw [v1]; exact Nat.le_refl _
    obtain ⟨M2, s2, c2, a2, b2, v2⟩ := mid_reports T rs2 _ (applyReport c r).1 (fun x hx => hsub x (by simp [hx]))
      hdone' (by rw [List.append_assoc]; exact hnd) hf2 hver' M1
    rw [applyAll_cons]
    refine ⟨by rw [← List.append_assoc]; exact M2, fun k h => s2 k (s1 k h), fun k h => c2 k (c1 k h), ?_, ?_, ?_⟩
    · intro q hq hk1 hk2 x hx
      rcases List.mem_cons.mp hq with rfl | hq
      · exact s2 _ (a1 hk1 hk2 x hx)
      · exact a2 q hq hk1 hk2 x hx
    · intro q hq hk x hx
      rcases List.mem_cons.mp hq with rfl | hq
      · exact c2 _ (b1 hk x hx)
      · exact b2 q hq hk x hx
    · intro _
      by_cases hrs2 : rs2 = []
      · subst hrs2; exact v1
      · exact v2 hrs2

/-- **simulation step**: a consumer that mirrors `p` and processes, in emission order, reports that describe
    `p → p'` mirrors `p'` -/
theorem mirror_of_facts {rs : List Report} (T : TxFacts p p' rs) {c : Core} (hw : c.tabs.Wf) (hM : Mirror c p) :
    Mirror (applyAll c rs).1 p' := by
  have M0 : Mid p p' [] c.tabs :=
    ⟨hw, fun k => Or.inl (hM.d k), fun k => Or.inl (hM.s k), fun k => Or.inl (hM.c k), (fun b hb => nomatch hb),
     fun k _ => hM.d k, (fun b hb => nomatch hb), (fun b hb => nomatch hb), (fun b hb => nomatch hb)⟩
  obtain ⟨M, _, _, a, b, v⟩ := mid_reports T rs [] c (fun _ h => h) (fun b hb => nomatch hb)
    (by simpa using T.distinct) T.flat (by rw [hM.vg]; exact T.ver) M0
  simp only [List.nil_append] at M
  refine ⟨v T.nonempty, ?_, ?_, ?_⟩
  · -- descriptors
    intro k
    show _ = p'.pd k
    rcases M.d k with h | h
    · rw [h]
      cases hp' : p'.pd k with
      | some d =>
        have hd : d ∈ p'.tabs.descrs := (lookupBy_some_mem _ hp').1
        have hk : d.handle = k := (lookupBy_some_mem _ hp').2
        rcases T.comp d hd with h1 | ⟨q, hq, _, hqh⟩
        · rw [hk] at h1; exact h1
        · have := M.dDone q hq
          rw [hqh, hk] at this
          rw [← h, this]; exact hp'
      | none =>
        cases hp : p.pd k with
        | none => rfl
        | some d =>
          have hd : d ∈ p.tabs.descrs := (lookupBy_some_mem _ hp).1
          have hk : d.handle = k := (lookupBy_some_mem _ hp).2
          rcases T.dRemoved d hd with h1 | ⟨q, hq, _, hqh⟩
          · rw [hk] at h1; exact absurd hp' h1
          · have := M.dDone q hq
            rw [hqh, hk] at this
            rw [← hp, ← h, this]; exact hp'
    · exact h
  · -- single states
    intro k
    show _ = p'.ps k
    rcases M.s k with h | h
    · rw [h]
      cases hp' : p'.ps k with
      | some s =>
        have hs : s ∈ p'.tabs.states := (lookupBy_some_mem _ hp').1
        have hk : s.dh = k := (lookupBy_some_mem _ hp').2
        rcases T.sComplete s hs with h1 | ⟨r, hr, hk1, hk2, hsr⟩
        · rw [hk] at h1; exact h1
        · have := a r hr hk1 hk2 s hsr
          rw [hk] at this
          rw [← h, this]; exact hp'
      | none =>
        cases hp : p.ps k with
        | none => rfl
        | some s =>
          have hs : s ∈ p.tabs.states := (lookupBy_some_mem _ hp).1
          have hk : s.dh = k := (lookupBy_some_mem _ hp).2
          rcases T.sRemoved s hs with h1 | ⟨q, hq, hqm, hqh⟩
          · rw [hk] at h1; exact absurd hp' h1
          · have := M.sDel q hq hqm
            rw [hqh, hk] at this
            rw [← hp, ← h, this]; exact hp'
    · exact h
  · -- context states
    intro k
    show _ = p'.pc k
    rcases M.c k with h | h
    · rw [h]
      cases hp' : p'.pc k with
      | some s =>
        have hs : s ∈ p'.tabs.cstates := (lookupBy_some_mem _ hp').1
        have hk : s.h = k := (lookupBy_some_mem _ hp').2
        rcases T.cComplete s hs with h1 | ⟨r, hr, hk1, hsr⟩
        · rw [hk] at h1; exact h1
        · have := b r hr hk1 s hsr
          rw [hk] at this
          rw [← h, this]; exact hp'
      | none =>
        cases hp : p.pc k with
        | none => rfl
        | some s =>
          have hs : s ∈ p.tabs.cstates := (lookupBy_some_mem _ hp).1
          have hk : s.h = k := (lookupBy_some_mem _ hp).2
          rcases T.cRemoved s hs with h1 | ⟨q, hq, hqm, hqh⟩ | ⟨q, hq, hqm, hqk, hqh, hnot⟩
          · rw [hk] at h1; exact absurd hp' h1
          · have := M.cDel q hq hqm k s hp hqh.symm
            rw [← hp, ← h, this]; exact hp'
          · rw [hk] at hnot
            have := M.cUpd q hq hqm hqk k s hp hqh.symm hnot
            rw [← hp, ← h, this]; exact hp'
    · exact h

end All
section Bridge
variable {p p' : Core} {rs : List Report}

theorem mem_stateReportStates {r : Report} (hr : r ∈ rs) (h1 : r.kind ≠ .description) (h2 : r.kind ≠ .context)
    {x : SState} (hx : x ∈ r.states) : x ∈ stateReportStates rs := by
  unfold stateReportStates
  rw [List.mem_flatMap]
  exact ⟨r, List.mem_filter.mpr ⟨hr, by simp [h1, h2]⟩, hx⟩

theorem of_mem_stateReportStates {x : SState} (hx : x ∈ stateReportStates rs) :
    ∃ r ∈ rs, r.kind ≠ .description ∧ r.kind ≠ .context ∧ x ∈ r.states := by
  unfold stateReportStates at hx
  rw [List.mem_flatMap] at hx
  obtain ⟨r, hr, hxr⟩ := hx
  rw [List.mem_filter] at hr
  have := hr.2
  simp only [Bool.and_eq_true, bne_iff_ne, ne_eq] at this
  exact ⟨r, hr.1, this.1, this.2, hxr⟩

theorem mem_contextReportStates {r : Report} (hr : r ∈ rs) (h1 : r.kind = .context)
    {x : CState} (hx : x ∈ r.cstates) : x ∈ contextReportStates rs := by
  unfold contextReportStates
  rw [List.mem_flatMap]
  exact ⟨r, List.mem_filter.mpr ⟨hr, by simp [h1]⟩, hx⟩

theorem of_mem_contextReportStates {x : CState} (hx : x ∈ contextReportStates rs) :
    ∃ r ∈ rs, r.kind = .context ∧ x ∈ r.cstates := by
  unfold contextReportStates at hx
  rw [List.mem_flatMap] at hx
  obtain ⟨r, hr, hxr⟩ := hx
  rw [List.mem_filter] at hr
  exact ⟨r, hr.1, by simpa using hr.2, hxr⟩

theorem mem_partStates {ps : List DescrPart} {q : DescrPart} (hq : q ∈ ps) (hm : q.mod ≠ .delete) {x : SState}
    (hx : x ∈ q.states) : x ∈ partStates ps := by
  unfold partStates
  rw [List.mem_flatMap]
  exact ⟨q, List.mem_filter.mpr ⟨hq, by simp [hm]⟩, hx⟩

theorem mem_partCStates {ps : List DescrPart} {q : DescrPart} (hq : q ∈ ps) (hm : q.mod ≠ .delete) {x : CState}
    (hx : x ∈ q.cstates) : x ∈ partCStates ps := by
  unfold partCStates
  rw [List.mem_flatMap]
  exact ⟨q, List.mem_filter.mpr ⟨hq, by simp [hm]⟩, hx⟩

theorem mem_deletedHandles {ps : List DescrPart} {h : Handle} :
    h ∈ deletedHandles ps ↔ ∃ q ∈ ps, q.mod = .delete ∧ q.descr.handle = h := by
  unfold deletedHandles partHandles
  simp only [List.mem_map, List.mem_filter, beq_iff_eq]
  constructor
  · rintro ⟨q, ⟨hq, hm⟩, rfl⟩; exact ⟨q, hq, hm, rfl⟩
  · rintro ⟨q, hq, hm, rfl⟩; exact ⟨q, ⟨hq, hm⟩, rfl⟩

theorem flatAll_of_flatDeletes {ps : List DescrPart} :
    ∀ (rest done : List DescrPart), (∀ b ∈ ps, b ∈ done ++ rest) → flatDeletes p done rest = true →
      FlatAll p ps done rest
  | [], _, _, _ => trivial
  | q :: rest, done, hall, h => by
    unfold flatDeletes at h
    simp only [Bool.and_eq_true, Bool.or_eq_true, bne_iff_ne, ne_eq, List.all_eq_true, List.any_eq_true,
      beq_iff_eq, decide_eq_true_eq] at h
    refine ⟨?_, flatAll_of_flatDeletes rest (done ++ [q]) (by simpa using hall) h.2⟩
    intro hm
    rcases h.1 with h1 | ⟨h1, h2⟩
    · exact absurd hm h1
    · refine ⟨?_, ?_⟩
      · intro d hd hpar
        rcases h1 d hd with h3 | ⟨b, hb, hbm, hbh⟩
        · exact absurd hpar h3
        · exact ⟨b, hb, hbm, hbh⟩
      · intro b hb hbm
        have hb' := hall b hb
        have : b ∈ done ++ rest := by
          rcases List.mem_append.mp hb' with h3 | h3
          · exact List.mem_append_left _ h3
          · rcases List.mem_cons.mp h3 with rfl | h3
            · exact absurd hm hbm
            · exact List.mem_append_right _ h3
        rcases h2 b this with h3 | h3
        · exact absurd h3 hbm
        · exact h3

theorem txFacts_of_describe (h : ReportsDescribe p p' rs) : TxFacts p p' rs := by
  unfold ReportsDescribe reportsDescribe DescribeClauses.all describeClauses at h
  simp only [Bool.and_eq_true] at h
  obtain ⟨⟨⟨⟨⟨⟨⟨⟨⟨⟨⟨⟨⟨⟨⟨⟨⟨⟨⟨⟨⟨hne, hvg⟩, hids⟩, hwf⟩, hdist⟩, hcr⟩, hup⟩, hdel⟩, hdc⟩, hdr⟩, hflat⟩, hss⟩, hsn⟩, hsc⟩, hsr⟩, hgone⟩, hcs⟩, hcn⟩, hcc⟩, hcr'⟩, hstab⟩, hctx⟩ := h
  simp only [Bool.and_eq_true, keysNodup_iff, and_assoc] at hwf
  obtain ⟨w1, w2, w3, w4, w5, w6⟩ := hwf
  rw [keysNodup_iff] at hdist
  simp only [List.all_eq_true, Bool.or_eq_true, Bool.and_eq_true, bne_iff_ne, ne_eq, beq_iff_eq,
    Option.isNone_iff_eq_none, Option.isSome_iff_ne_none, List.any_eq_true, List.contains_iff_mem,
    decide_eq_true_eq, List.mem_append, Bool.not_eq_true'] at hvg hids hcr hup hdel hdc hdr hss hsn hsc hsr hgone hcs hcn hcc hcr' hstab hctx
  have hS : ∀ x, (x ∈ stateReportStates rs ∨ x ∈ partStates (descrParts rs)) → ValidNew (·.dh) (·.sv) p.ps p'.ps x := by
    intro x hx
    refine ⟨hss x hx, ?_⟩
    intro old ho
    have := hsn x hx
    show old.sv < x.sv
    have ho' : lookupBy (·.dh) p.tabs.states x.dh = some old := ho
    rw [ho'] at this
    simpa using this
  have hC : ∀ x, (x ∈ contextReportStates rs ∨ x ∈ partCStates (descrParts rs)) → ValidNew (·.h) (·.sv) p.pc p'.pc x := by
    intro x hx
    refine ⟨hcs x hx, ?_⟩
    intro old ho
    have := hcn x hx
    show old.sv < x.sv
    have ho' : lookupBy (·.h) p.tabs.cstates x.h = some old := ho
    rw [ho'] at this
    simpa using this
  have hdelmem : ∀ q ∈ descrParts rs, q.mod = .delete → q.descr.handle ∈ deletedHandles (descrParts rs) :=
    fun q hq hm => mem_deletedHandles.mpr ⟨q, hq, hm, rfl⟩
  refine ⟨⟨⟨w1, w2, w3⟩, ⟨w4, w5, w6⟩, ?_, ?_, ?_, ?_, ?_, ?_, ?_, ?_, ?_⟩, ?_, ?_, hdist, ?_, ?_, Nat.le_of_lt hids.1.1, hids.1.1, hids.1.2, hids.2, ?_, ?_, ?_, ?_, ?_, ?_, ?_⟩
  · intro q hq hm
    rcases hcr q hq with h1 | h1
    · exact absurd hm h1
    · exact h1
  · intro q hq hm
    rcases hup q hq with h1 | h1
    · exact absurd hm h1
    · cases ho : lookupBy (·.handle) p.tabs.descrs q.descr.handle with
      | none => rw [ho] at h1; simp at h1
      | some old =>
        rw [ho] at h1
        simp only [Bool.and_eq_true, beq_iff_eq] at h1
        exact ⟨old, ho, h1.1.1, h1.1.2, h1.2⟩
  · intro q hq hm
    rcases hdel q hq with h1 | h1
    · exact absurd hm h1
    · refine ⟨?_, h1.2⟩
      cases ho : lookupBy (·.handle) p.tabs.descrs q.descr.handle with
      | none => exact absurd ho h1.1
      | some old => exact ⟨old, ho⟩
  · exact fun q hq hm x hx => hS x (Or.inr (mem_partStates hq hm hx))
  · exact fun q hq hm x hx => hC x (Or.inr (mem_partCStates hq hm hx))
  · exact fun q hq hm => (hgone _ (hdelmem q hq hm)).1
  · exact fun q hq hm c hc => (hgone _ (hdelmem q hq hm)).2 c hc
  · intro k c c' hk hk'
    have hc' : c' ∈ p'.tabs.cstates := (lookupBy_some_mem _ hk').1
    have hkk : c'.h = k := (lookupBy_some_mem _ hk').2
    have := hstab c' hc'
    have hk2 : lookupBy (·.h) p.tabs.cstates c'.h = some c := by rw [hkk]; exact hk
    rw [hk2] at this
    have h2 : c.dh = c'.dh := by simpa using this
    exact h2.symm
  · intro q hq hm hk c hc hdh
    rcases hctx q hq with h1 | h1
    · rw [hm, hk] at h1; simp at h1
    · rcases h1 c hc with h2 | ⟨x, hx, hxh, hxd⟩
      · exact absurd hdh h2
      · unfold keepOf
        rw [List.mem_map]
        exact ⟨x, List.mem_filter.mpr ⟨hx, by simpa using hxd⟩, hxh⟩
  · intro d hd
    rcases hdc d hd with h1 | ⟨b, hb, hbm, hbh⟩
    · exact Or.inl h1
    · exact Or.inr ⟨b, hb, hbm, hbh⟩
  · exact flatAll_of_flatDeletes _ _ (by simp) hflat
  · intro e; rw [e] at hne; simp at hne
  · exact fun r hr => hvg r hr
  · exact fun r hr h1 h2 x hx => hS x (Or.inl (mem_stateReportStates hr h1 h2 hx))
  · exact fun r hr h1 x hx => hC x (Or.inl (mem_contextReportStates hr h1 hx))
  · intro d hd
    rcases hdr d hd with h1 | h1
    · exact Or.inl h1
    · exact Or.inr (mem_deletedHandles.mp h1)
  · intro s hs
    rcases hsc s hs with h1 | h1
    · exact Or.inl h1
    · exact Or.inr (of_mem_stateReportStates h1)
  · intro s hs
    rcases hsr s hs with h1 | h1
    · exact Or.inl h1
    · exact Or.inr (mem_deletedHandles.mp h1)
  · intro s hs
    rcases hcc s hs with h1 | h1
    · exact Or.inl h1
    · exact Or.inr (of_mem_contextReportStates h1)
  · intro s hs
    rcases hcr' s hs with (h1 | h1) | ⟨q, hq, ⟨⟨hqm, hqk⟩, hqh⟩, hany⟩
    · exact Or.inl h1
    · exact Or.inr (Or.inl (mem_deletedHandles.mp h1))
    · refine Or.inr (Or.inr ⟨q, hq, hqm, hqk, hqh, ?_⟩)
      intro hmem
      unfold keepOf at hmem
      rw [List.mem_map] at hmem
      obtain ⟨x, hx, hxh⟩ := hmem
      rw [List.mem_filter] at hx
      have : (q.cstates.any fun x_1 => x_1.h == s.h && x_1.dh == q.descr.handle) = true := by
        rw [List.any_eq_true]
        exact ⟨x, hx.1, by simp [hxh]; simpa using hx.2⟩
      rw [this] at hany; cases hany

end Bridge
section Notifs
variable {α : Type} (key sv : α → Nat)

/-- relation between the table before (`l0`) and now (`l`), given the keys accepted so far (`acc`) -/
structure NotifInv (l0 l : List α) (acc : List Nat) (k : Nat) : Prop where
  keeps : ∀ a, lookupBy key l0 k = some a → ∃ b, lookupBy key l k = some b ∧ sv a ≤ sv b
  named : k ∈ acc → (lookupBy key l0 k = none ∧ lookupBy key l k ≠ none) ∨
    (∃ a b, lookupBy key l0 k = some a ∧ lookupBy key l k = some b ∧ sv a < sv b)
  unnamed : k ∉ acc → lookupBy key l k = lookupBy key l0 k

theorem gatedPut_flag (am : Bool) (l : List α) (x : α) :
    (gatedPut key sv am l x).2 =
      (match lookupBy key l (key x) with
       | some old => decide (sv old < sv x)
       | none => am) := by
  unfold gatedPut
  cases ho : lookupBy key l (key x) with
  | none => cases am <;> simp
  | some old =>
    by_cases h : sv old < sv x
    · simp [(hasNewUsableVersion_iff _ _).2 h, h]
    · have : hasNewUsableVersion (sv old) (sv x) = false := by
        rw [Bool.eq_false_iff, Ne, hasNewUsableVersion_iff]; exact h
      simp [this, h]

theorem gatedPut_notif (am : Bool) (l0 l : List α) (acc : List Nat) (x : α) (k : Nat)
    (h : NotifInv key sv l0 l acc k) :
    NotifInv key sv l0 (gatedPut key sv am l x).1 (acc ++ (if (gatedPut key sv am l x).2 then [key x] else [])) k := by
  have hflag := gatedPut_flag key sv am l x
  by_cases hk : k = key x
  · subst hk
    cases ho : lookupBy key l (key x) with
    | none =>
      rw [ho] at hflag
      have hl0 : lookupBy key l0 (key x) = none := by
        cases h0 : lookupBy key l0 (key x) with
        | none => rfl
        | some a => obtain ⟨b, hb, _⟩ := h.keeps a h0; rw [ho] at hb; cases hb
      cases am
      · have hnew : lookupBy key (gatedPut key sv false l x).1 (key x) = none := by
          rw [gatedPut_lookup]; simp [ho]
        simp only [hflag, Bool.false_eq_true, if_false, List.append_nil]
        refine ⟨?_, ?_, ?_⟩
        · intro a ha; rw [hl0] at ha; cases ha
        · intro hm
          rcases h.named hm with ⟨_, h2⟩ | ⟨a, b, ha, _⟩
          · exact absurd ho h2
          · rw [hl0] at ha; cases ha
        · intro _; rw [hnew, hl0]
      · have hnew : lookupBy key (gatedPut key sv true l x).1 (key x) = some x := by
          rw [gatedPut_lookup]; simp [ho]
        simp only [hflag, if_true]
        refine ⟨?_, ?_, ?_⟩
        · intro a ha; rw [hl0] at ha; cases ha
        · intro _; exact Or.inl ⟨hl0, by rw [hnew]; simp⟩
        · intro hn; exact absurd (List.mem_append_right _ (List.mem_singleton.mpr rfl)) hn
    | some old =>
      rw [ho] at hflag
      by_cases hlt : sv old < sv x
      · have hnew : lookupBy key (gatedPut key sv am l x).1 (key x) = some x := by
          rw [gatedPut_lookup]; simp [ho, hlt]
        simp only [hflag, hlt, decide_true, if_true]
        refine ⟨?_, ?_, fun hn => absurd (List.mem_append_right _ (List.mem_singleton.mpr rfl)) hn⟩
        · intro a ha
          obtain ⟨b, hb, hab⟩ := h.keeps a ha
          rw [ho] at hb; cases hb
          exact ⟨x, hnew, by omega⟩
        · intro _
          cases h0 : lookupBy key l0 (key x) with
          | none => exact Or.inl ⟨rfl, by rw [hnew]; simp⟩
          | some a =>
            obtain ⟨b, hb, hab⟩ := h.keeps a h0
            rw [ho] at hb; cases hb
            exact Or.inr ⟨a, x, rfl, hnew, by omega⟩
      · have hnew : lookupBy key (gatedPut key sv am l x).1 (key x) = some old := by
          rw [gatedPut_lookup]; simp [ho, hlt]
        simp only [hflag, hlt, decide_false, Bool.false_eq_true, if_false, List.append_nil]
        rw [← ho] at hnew
        refine ⟨?_, ?_, ?_⟩
        · intro a ha; rw [hnew]; exact h.keeps a ha
        · intro hm; rw [hnew]; exact h.named hm
        · intro hn; rw [hnew]; exact h.unnamed hn
  · have hnew : lookupBy key (gatedPut key sv am l x).1 k = lookupBy key l k := by
      rw [gatedPut_lookup]; simp [hk]
    have hmem : k ∈ acc ++ (if (gatedPut key sv am l x).2 then [key x] else []) ↔ k ∈ acc := by
      constructor
      · intro hm
        rcases List.mem_append.mp hm with h3 | h3
        · exact h3
        · split at h3
          · simp only [List.mem_singleton] at h3; exact absurd h3 hk
          · cases h3
      · exact fun h3 => List.mem_append_left _ h3
    refine ⟨?_, ?_, ?_⟩
    · intro a ha; rw [hnew]; exact h.keeps a ha
    · intro hm; rw [hnew]; exact h.named (hmem.mp hm)
    · intro hn; rw [hnew]; exact h.unnamed (fun h3 => hn (hmem.mpr h3))

theorem gatedPutAll_notifInv (am : Bool) (l0 : List α) (k : Nat) :
    ∀ (xs l : List α) (acc : List Nat), NotifInv key sv l0 l acc k →
      NotifInv key sv l0 (gatedPutAll key sv am l xs).1 (acc ++ (gatedPutAll key sv am l xs).2) k
  | [], l, acc, h => by simpa [gatedPutAll_nil] using h
  | x :: xs, l, acc, h => by
    rw [gatedPutAll_cons]
    have := gatedPutAll_notifInv am l0 k xs (gatedPut key sv am l x).1 _ (gatedPut_notif key sv am l0 l acc x k h)
    by_cases hf : (gatedPut key sv am l x).2 = true
    · simp only [hf, if_true, List.append_assoc, List.singleton_append] at this ⊢
      exact this
    · simp only [hf, Bool.false_eq_true, if_false, List.append_nil] at this ⊢
      exact this

/-- **the notification names exactly the changed entries**: a key is in the `*_by_handle` dict iff its table entry
    after the report differs from the entry before -/
theorem gatedPutAll_named_iff_changed (am : Bool) (l xs : List α) (k : Nat) :
    k ∈ (gatedPutAll key sv am l xs).2 ↔ lookupBy key (gatedPutAll key sv am l xs).1 k ≠ lookupBy key l k := by
  have h0 : NotifInv key sv l l [] k :=
    ⟨fun a ha => ⟨a, ha, Nat.le_refl _⟩, (fun hm => nomatch hm), fun _ => rfl⟩
  have h := gatedPutAll_notifInv key sv am l k xs l [] h0
  simp only [List.nil_append] at h
  constructor
  · intro hm
    rcases h.named hm with ⟨h1, h2⟩ | ⟨a, b, ha, hb, hab⟩
    · rw [h1]; exact h2
    · rw [ha, hb]; intro e; cases e; omega
  · intro hne
    by_cases hm : k ∈ (gatedPutAll key sv am l xs).2
    · exact hm
    · exact absurd (h.unnamed hm) hne

end Notifs
end Sdc.Consumer
