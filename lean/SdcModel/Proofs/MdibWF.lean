import SdcModel.Proofs.MdibFind
/-!
# referential well-formedness `WF` of the MDIB tables and its preservation by state / context transactions
-/
set_option linter.unusedSimpArgs false
namespace Sdc.Mdib

/-- "every state refers to an existing descriptor and carries that descriptor's current DescriptorVersion, no descriptor
    has more than one single state, every non-root descriptor has an existing parent" + unique keys of the three tables -/
structure WF (t : Tables) : Prop where
  dKeys : (t.descrs.map (·.handle)).Nodup
  sKeys : (t.states.map (·.dh)).Nodup
  cKeys : (t.ctx.map (·.h)).Nodup
  sRef : ∀ s ∈ t.states, ∃ d ∈ t.descrs, d.handle = s.dh ∧ d.ver = s.dv
  cRef : ∀ c ∈ t.ctx, ∃ d ∈ t.descrs, d.handle = c.dh ∧ d.ver = c.dv
  parent : ∀ d ∈ t.descrs, ∀ p ∈ d.parent, ∃ q ∈ t.descrs, q.handle = p

instance (t : Tables) : Decidable (WF t) :=
  decidable_of_iff
    ((t.descrs.map (·.handle)).Nodup ∧ (t.states.map (·.dh)).Nodup ∧ (t.ctx.map (·.h)).Nodup ∧
     (∀ s ∈ t.states, ∃ d ∈ t.descrs, d.handle = s.dh ∧ d.ver = s.dv) ∧
     (∀ c ∈ t.ctx, ∃ d ∈ t.descrs, d.handle = c.dh ∧ d.ver = c.dv) ∧
     (∀ d ∈ t.descrs, ∀ p ∈ d.parent, ∃ q ∈ t.descrs, q.handle = p))
    ⟨fun ⟨a, b, c, d, e, f⟩ => ⟨a, b, c, d, e, f⟩, fun h => ⟨h.1, h.2, h.3, h.4, h.5, h.6⟩⟩

theorem WF.of_ver {t : Tables} (h : WF t) (v : Nat) : WF { t with ver := v } := ⟨h.1, h.2, h.3, h.4, h.5, h.6⟩

/-- with unique keys a listed state is what the lookup returns -/
theorem WF.findS_of_mem {t : Tables} (h : WF t) {s : SState} (hs : s ∈ t.states) : findS t s.dh = some s :=
  find_of_mem_nodup (fun x : SState => x.dh) h.sKeys hs
theorem WF.findC_of_mem {t : Tables} (h : WF t) {c : CState} (hc : c ∈ t.ctx) : findC t c.h = some c :=
  find_of_mem_nodup (fun x : CState => x.h) h.cKeys hc
theorem WF.findD_of_mem {t : Tables} (h : WF t) {d : Descr} (hd : d ∈ t.descrs) : findD t d.handle = some d :=
  find_of_mem_nodup (fun x : Descr => x.handle) h.dKeys hd

/-! ## replace / insert one single state: `rmState` then `add_object` -/

def putState (t : Tables) (h : Handle) (n : SState) : Tables :=
  { rmState t h with states := (rmState t h).states ++ [n] }

@[simp] theorem putState_descrs (t : Tables) (h : Handle) (n : SState) : (putState t h n).descrs = t.descrs := by simp [putState]
@[simp] theorem putState_ctx (t : Tables) (h : Handle) (n : SState) : (putState t h n).ctx = t.ctx := by simp [putState]
@[simp] theorem putState_dSaved (t : Tables) (h : Handle) (n : SState) : (putState t h n).dSaved = t.dSaved := by simp [putState]
@[simp] theorem putState_cSaved (t : Tables) (h : Handle) (n : SState) : (putState t h n).cSaved = t.cSaved := by simp [putState]
@[simp] theorem putState_sSaved (t : Tables) (h : Handle) (n : SState) : (putState t h n).sSaved = (rmState t h).sSaved := by simp [putState]

theorem findS_putState_self (t : Tables) {h : Handle} {n : SState} (hn : n.dh = h) : findS (putState t h n) h = some n := by
  unfold putState
  rw [findS_append, findS_rmState_self]; simp [hn]
theorem findS_putState_ne (t : Tables) {h h' : Handle} {n : SState} (hn : n.dh = h) (hne : h' ≠ h) :
    findS (putState t h n) h' = findS t h' := by
  unfold putState
  have : ¬ n.dh = h' := fun e => hne (e.symm.trans hn)
  rw [findS_append, findS_rmState_ne _ hne]; simp [this]
@[simp] theorem findD_putState (t : Tables) (h h' : Handle) (n : SState) : findD (putState t h n) h' = findD t h' := by simp [findD]
@[simp] theorem findC_putState (t : Tables) (h h' : Handle) (n : SState) : findC (putState t h n) h' = findC t h' := by simp [findC]

theorem addState_rmState (t : Tables) {h : Handle} {n : SState} (hn : n.dh = h) :
    addState (rmState t h) n = .ok (putState t h n) := by
  rw [addState_ok_iff]; exact ⟨by rw [hn]; exact findS_rmState_self t h, rfl⟩

theorem rmState_of_none {t : Tables} {h : Handle} (hf : findS t h = none) : rmState t h = t := by simp [rmState, hf]

theorem mem_putState {t : Tables} {h : Handle} {n s : SState} (hs : s ∈ (putState t h n).states) :
    s = n ∨ (s ∈ t.states ∧ s.dh ≠ h) := by
  simp only [putState, rmState_states, List.mem_append, List.mem_filter, List.mem_singleton, bne_iff_ne, ne_eq] at hs
  rcases hs with hs | hs
  · exact .inr hs
  · exact .inl hs

theorem WF.putState {t : Tables} (hw : WF t) {h : Handle} {n : SState} (hn : n.dh = h)
    (hd : ∃ d ∈ t.descrs, d.handle = h ∧ d.ver = n.dv) : WF (putState t h n) := by
  refine ⟨by simpa using hw.dKeys, ?_, by simpa using hw.cKeys, ?_, by simpa using hw.cRef, by simpa using hw.parent⟩
  · show (((rmState t h).states ++ [n]).map (·.dh)).Nodup
    rw [rmState_states]
    apply nodup_append_single (fun x : SState => x.dh) (nodup_filter_key _ hw.sKeys _)
    simp only [List.mem_map, List.mem_filter, bne_iff_ne, ne_eq, not_exists, not_and, and_imp]
    intro x _ hx e; exact hx (e.trans hn)
  · intro s hs
    simp only [putState_descrs]
    rcases mem_putState hs with rfl | ⟨hs, _⟩
    · rw [hn]; exact hd
    · exact hw.sRef s hs

/-! ## the single-state part of a commit -/

/-- what `applySItems` needs of an item list over the tables `t` -/
structure SItemsOK (t : Tables) (items : List (Handle × SItem)) : Prop where
  keys : (items.map (·.1)).Nodup
  dh : ∀ p ∈ items, p.2.new.dh = p.1
  old : ∀ p ∈ items, p.2.old = findS t p.1
  ref : ∀ p ∈ items, ∃ d ∈ t.descrs, d.handle = p.1 ∧ d.ver = p.2.new.dv
  /-- the new StateVersion is above the live one, or (no live state) not below the saved one -/
  bump : ∀ p ∈ items, (∀ o, findS t p.1 = some o → o.sv < p.2.new.sv) ∧
    (findS t p.1 = none → savedGet t.sSaved p.1 ≤ some p.2.new.sv)

theorem SItemsOK.nil (t : Tables) : SItemsOK t [] := ⟨by simp, by simp, by simp, by simp, by simp⟩

theorem SItemsOK.tail {t : Tables} {h : Handle} {it : SItem} {rest : List (Handle × SItem)}
    (hi : SItemsOK t ((h, it) :: rest)) : SItemsOK (putState t h it.new) rest := by
  have hk := hi.keys
  simp only [List.map_cons, List.nodup_cons] at hk
  have hdh := hi.dh (h, it) (by simp)
  refine ⟨hk.2, fun p hp => hi.dh p (by simp [hp]), ?_, fun p hp => by simpa using hi.ref p (by simp [hp]), ?_⟩
  · intro p hp
    have hne : p.1 ≠ h := fun e => hk.1 (e ▸ List.mem_map_of_mem hp)
    rw [findS_putState_ne t hdh hne]; exact hi.old p (by simp [hp])
  · intro p hp
    have hne : p.1 ≠ h := fun e => hk.1 (e ▸ List.mem_map_of_mem hp)
    rw [findS_putState_ne t hdh hne, putState_sSaved, sSaved_rmState_ne t hne]; exact hi.bump p (by simp [hp])

theorem SItemsOK.of_ver {t : Tables} {items : List (Handle × SItem)} (hi : SItemsOK t items) (v : Nat) :
    SItemsOK { t with ver := v } items := ⟨hi.keys, hi.dh, hi.old, hi.ref, hi.bump⟩

theorem applySItems_cons {t : Tables} {h : Handle} {it : SItem} {rest : List (Handle × SItem)}
    (hi : SItemsOK t ((h, it) :: rest)) :
    applySItems t ((h, it) :: rest) =
      ((applySItems (putState t h it.new) rest).1, it.new :: (applySItems (putState t h it.new) rest).2.1,
       (applySItems (putState t h it.new) rest).2.2) := by
  have hdh : it.new.dh = h := hi.dh (h, it) (by simp)
  have hold : it.old = findS t h := hi.old (h, it) (by simp)
  rw [applySItems, hold]
  cases hf : findS t h with
  | none =>
    simp only []
    conv => lhs; rw [← rmState_of_none hf, addState_rmState t hdh]
  | some o =>
    simp only [(findS_some hf).1, addState_rmState t hdh]

/-- a state commit over well-formed tables whose items were collected over the same tables cannot fail and keeps `WF` -/
theorem applySItems_ok {t : Tables} {items : List (Handle × SItem)} (hw : WF t) (hi : SItemsOK t items) :
    (applySItems t items).2.2 = none ∧ WF (applySItems t items).1 := by
  induction items generalizing t with
  | nil => exact ⟨rfl, hw⟩
  | cons p rest ih =>
    obtain ⟨h, it⟩ := p
    rw [applySItems_cons hi]
    exact ih (hw.putState (hi.dh (h, it) (by simp)) (hi.ref (h, it) (by simp))) hi.tail

/-! ## the calls of a state transaction build good items -/

theorem forall_dictSet {α : Type} {Q : Handle × α → Prop} {l : List (Handle × α)} (hl : ∀ p ∈ l, Q p) {h : Handle} {v : α}
    (hv : Q (h, v)) : ∀ p ∈ dictSet l h v, Q p := by
  intro p hp
  rcases mem_dictSet hp with rfl | ⟨_, hp⟩
  · exact hv
  · exact hl p hp

theorem forall_dictDel {α : Type} {Q : Handle × α → Prop} {l : List (Handle × α)} (hl : ∀ p ∈ l, Q p) (h : Handle) :
    ∀ p ∈ dictDel l h, Q p := fun p hp => hl p (mem_dictDel.1 hp).1

theorem SItemsOK.set {t : Tables} {items : List (Handle × SItem)} (hi : SItemsOK t items) {h : Handle} {it : SItem}
    (h1 : it.new.dh = h) (h2 : it.old = findS t h) (h3 : ∃ d ∈ t.descrs, d.handle = h ∧ d.ver = it.new.dv)
    (h4 : (∀ o, findS t h = some o → o.sv < it.new.sv) ∧ (findS t h = none → savedGet t.sSaved h ≤ some it.new.sv)) :
    SItemsOK t (dictSet items h it) :=
  ⟨dictSet_keys_nodup hi.keys h it, forall_dictSet hi.dh h1, forall_dictSet hi.old h2, forall_dictSet hi.ref h3,
   forall_dictSet hi.bump h4⟩

theorem SItemsOK.del {t : Tables} {items : List (Handle × SItem)} (hi : SItemsOK t items) (h : Handle) :
    SItemsOK t (dictDel items h) :=
  ⟨dictDel_keys_nodup hi.keys h, forall_dictDel hi.dh h, forall_dictDel hi.old h, forall_dictDel hi.ref h,
   forall_dictDel hi.bump h⟩

theorem runCalls_inv_of {σ κ : Type} {f : σ → κ → Except Err σ} (P : σ → Prop) (G : κ → Prop)
    (hf : ∀ s c s', G c → P s → f s c = .ok s' → P s') (ce : Bool) :
    ∀ (cs : List κ) (s s' : σ), (∀ c ∈ cs, G c) → P s → runCalls f ce s cs = .ok s' → P s' := by
  intro cs
  induction cs with
  | nil => intro s s' _ hp h; simp only [runCalls, Except.ok.injEq] at h; exact h ▸ hp
  | cons c cs ih =>
    intro s s' hg hp h
    have hg' : ∀ c ∈ cs, G c := fun c hc => hg c (by simp [hc])
    simp only [runCalls] at h
    split at h
    · rename_i s1 hs1; exact ih s1 s' hg' (hf s c s1 (hg c (by simp)) hp hs1) h
    · split at h
      · exact ih s s' hg' hp h
      · cases h

theorem runCalls_inv {σ κ : Type} {f : σ → κ → Except Err σ} (P : σ → Prop)
    (hf : ∀ s c s', P s → f s c = .ok s' → P s') (ce : Bool) (cs : List κ) (s s' : σ) (hp : P s)
    (h : runCalls f ce s cs = .ok s') : P s' :=
  runCalls_inv_of P (fun _ => True) (fun s c s' _ => hf s c s') ce cs s s' (fun _ _ => trivial) hp h

theorem sCall_ok {t : Tables} (hw : WF t) {tx tx' : STx} {c : SCall} (hi : SItemsOK t tx.items)
    (h : sCall t tx c = .ok tx') : SItemsOK t tx'.items := by
  cases c with
  | get h0 =>
    simp only [sCall] at h
    split at h; · cases h
    split at h; · cases h
    rename_i s hs
    split at h; · cases h
    cases h
    have hs' := findS_some hs
    refine hi.set hs'.1 hs.symm ?_ ?_
    · obtain ⟨d, hd, e1, e2⟩ := hw.sRef s hs'.2
      exact ⟨d, hd, e1.trans hs'.1, e2⟩
    · simp [hs]
  | unget h0 =>
    simp only [sCall, Except.ok.injEq] at h; cases h
    exact hi.del h0
  | setBody h0 b =>
    simp only [sCall] at h
    split at h; · cases h
    rename_i it hit
    cases h
    have hm := dictGet_some_mem hit
    exact hi.set (hi.dh _ hm) (hi.old _ hm) (hi.ref _ hm) (hi.bump _ hm)
  | write h0 kind sv b multi =>
    simp only [sCall] at h
    split at h; · cases h
    split at h; · cases h
    split at h; · cases h
    rename_i d hd
    cases h
    have hd' := findD_some hd
    refine hi.set rfl rfl ⟨d, hd'.2, hd'.1, rfl⟩ ⟨?_, ?_⟩
    · intro o ho; simp [ho]
    · intro ho; simp only [ho]
      cases savedGet t.sSaved h0 <;> simp

theorem sCalls_ok {t : Tables} (hw : WF t) {s : SScript} {tx : STx}
    (h : runCalls (sCall t) s.catchErrors { kind := s.kind } s.calls = .ok tx) : SItemsOK t tx.items :=
  runCalls_inv (fun tx : STx => SItemsOK t tx.items) (fun _ _ _ hp hc => sCall_ok hw hp hc) _ _ _ _ (SItemsOK.nil t) h

/-- a state commit on well-formed tables never dies half-way and keeps the tables well-formed -/
theorem commitS_ok {t : Tables} (hw : WF t) {tx : STx} (hi : SItemsOK t tx.items) :
    (commitS t tx).2.2 = none ∧ WF (commitS t tx).1 := by
  unfold commitS
  split
  · exact ⟨rfl, hw⟩
  · exact applySItems_ok (hw.of_ver _) (hi.of_ver _)

theorem runS_ok {t : Tables} (hw : WF t) (s : SScript) : (runS t s).2.2 ≠ .commitFailed ∧ WF (runS t s).1 := by
  unfold runS
  split
  · exact ⟨by simp, hw⟩
  · rename_i tx htx
    split
    · exact ⟨by simp, hw⟩
    · have := commitS_ok hw (sCalls_ok hw htx)
      split
      · rename_i t' r e heq
        rw [heq] at this; simp at this
      · rename_i t' r heq
        rw [heq] at this
        refine ⟨?_, this.2⟩
        split <;> simp

/-! ## context states -/

/-- `rmCtx` then (unless the item deletes the state) `add_object` -/
def putCtx (t : Tables) (h : Handle) : Option CState → Tables
  | none => rmCtx t h
  | some n => { rmCtx t h with ctx := (rmCtx t h).ctx ++ [n] }

@[simp] theorem putCtx_descrs (t : Tables) (h : Handle) (n : Option CState) : (putCtx t h n).descrs = t.descrs := by
  cases n <;> simp [putCtx]
@[simp] theorem putCtx_states (t : Tables) (h : Handle) (n : Option CState) : (putCtx t h n).states = t.states := by
  cases n <;> simp [putCtx]
@[simp] theorem putCtx_dSaved (t : Tables) (h : Handle) (n : Option CState) : (putCtx t h n).dSaved = t.dSaved := by
  cases n <;> simp [putCtx]
@[simp] theorem putCtx_sSaved (t : Tables) (h : Handle) (n : Option CState) : (putCtx t h n).sSaved = t.sSaved := by
  cases n <;> simp [putCtx]
@[simp] theorem putCtx_cSaved (t : Tables) (h : Handle) (n : Option CState) : (putCtx t h n).cSaved = (rmCtx t h).cSaved := by
  cases n <;> simp [putCtx]

theorem findC_putCtx_self (t : Tables) {h : Handle} {n : Option CState} (hn : ∀ x ∈ n, x.h = h) : findC (putCtx t h n) h = n := by
  cases n with
  | none => exact findC_rmCtx_self t h
  | some x =>
    have := hn x rfl
    unfold putCtx
    rw [findC_append, findC_rmCtx_self]; simp [this]
theorem findC_putCtx_ne (t : Tables) {h h' : Handle} {n : Option CState} (hn : ∀ x ∈ n, x.h = h) (hne : h' ≠ h) :
    findC (putCtx t h n) h' = findC t h' := by
  cases n with
  | none => exact findC_rmCtx_ne t hne
  | some x =>
    have : ¬ x.h = h' := fun e => hne (e.symm.trans (hn x rfl))
    unfold putCtx
    rw [findC_append, findC_rmCtx_ne _ hne]; simp [this]
@[simp] theorem findD_putCtx (t : Tables) (h h' : Handle) (n : Option CState) : findD (putCtx t h n) h' = findD t h' := by simp [findD]
@[simp] theorem findS_putCtx (t : Tables) (h h' : Handle) (n : Option CState) : findS (putCtx t h n) h' = findS t h' := by simp [findS]

theorem addCtx_rmCtx (t : Tables) {h : Handle} {n : CState} (hn : n.h = h) :
    addCtx (rmCtx t h) n = .ok (putCtx t h (some n)) := by
  rw [addCtx_ok_iff]; exact ⟨by rw [hn]; exact findC_rmCtx_self t h, rfl⟩

theorem rmCtx_of_none {t : Tables} {h : Handle} (hf : findC t h = none) : rmCtx t h = t := by simp [rmCtx, hf]

theorem mem_putCtx {t : Tables} {h : Handle} {n : Option CState} {c : CState} (hc : c ∈ (putCtx t h n).ctx) :
    some c = n ∨ (c ∈ t.ctx ∧ c.h ≠ h) := by
  cases n with
  | none =>
    simp only [putCtx, rmCtx_ctx, List.mem_filter, bne_iff_ne, ne_eq] at hc
    exact .inr hc
  | some x =>
    simp only [putCtx, rmCtx_ctx, List.mem_append, List.mem_filter, List.mem_singleton, bne_iff_ne, ne_eq] at hc
    rcases hc with hc | hc
    · exact .inr hc
    · exact .inl (by rw [hc])

theorem WF.putCtx {t : Tables} (hw : WF t) {h : Handle} {n : Option CState} (hn : ∀ x ∈ n, x.h = h)
    (hd : ∀ x ∈ n, ∃ d ∈ t.descrs, d.handle = x.dh ∧ d.ver = x.dv) : WF (putCtx t h n) := by
  refine ⟨by simpa using hw.dKeys, by simpa using hw.sKeys, ?_, by simpa using hw.sRef, ?_, by simpa using hw.parent⟩
  · cases n with
    | none =>
      show ((rmCtx t h).ctx.map (·.h)).Nodup
      rw [rmCtx_ctx]; exact nodup_filter_key _ hw.cKeys _
    | some x =>
      show (((rmCtx t h).ctx ++ [x]).map (·.h)).Nodup
      rw [rmCtx_ctx]
      apply nodup_append_single (fun x : CState => x.h) (nodup_filter_key _ hw.cKeys _)
      simp only [List.mem_map, List.mem_filter, bne_iff_ne, ne_eq, not_exists, not_and, and_imp]
      intro y _ hy e; exact hy (e.trans (hn x rfl))
  · intro c hc
    simp only [putCtx_descrs]
    rcases mem_putCtx hc with e | ⟨hc, _⟩
    · exact hd c e.symm
    · exact hw.cRef c hc

/-- what `applyCItems` needs of an item list over `t`; `strict = false` also allows items `(None, new)` for a handle that is
    in the table (a `mk_context_state` whose generated uuid collides) -/
structure CItemsOK (strict : Bool) (t : Tables) (items : List (Handle × CItem)) : Prop where
  keys : (items.map (·.1)).Nodup
  h : ∀ p ∈ items, ∀ n ∈ p.2.new, n.h = p.1
  old : ∀ p ∈ items, p.2.old = findC t p.1 ∨ (strict = false ∧ p.2.old = none)
  ref : ∀ p ∈ items, ∀ n ∈ p.2.new, ∃ d ∈ t.descrs, d.handle = n.dh ∧ d.ver = n.dv
  bump : strict = true → ∀ p ∈ items, ∀ n ∈ p.2.new, (∀ o, findC t p.1 = some o → o.sv < n.sv) ∧
    (findC t p.1 = none → savedGet t.cSaved p.1 ≤ some n.sv)

theorem CItemsOK.nil (strict : Bool) (t : Tables) : CItemsOK strict t [] := ⟨by simp, by simp, by simp, by simp, by simp⟩

theorem CItemsOK.exact {t : Tables} {items : List (Handle × CItem)} (hi : CItemsOK true t items) :
    ∀ p ∈ items, p.2.old = findC t p.1 := by
  intro p hp; rcases hi.old p hp with h | h
  · exact h
  · simp at h

theorem CItemsOK.tail {strict : Bool} {t : Tables} {h : Handle} {it : CItem} {rest : List (Handle × CItem)}
    (hi : CItemsOK strict t ((h, it) :: rest)) : CItemsOK strict (putCtx t h it.new) rest := by
  have hk := hi.keys
  simp only [List.map_cons, List.nodup_cons] at hk
  have hh := hi.h (h, it) (by simp)
  refine ⟨hk.2, fun p hp => hi.h p (by simp [hp]), ?_, fun p hp => by simpa using hi.ref p (by simp [hp]), ?_⟩
  · intro p hp
    have hne : p.1 ≠ h := fun e => hk.1 (e ▸ List.mem_map_of_mem hp)
    rw [findC_putCtx_ne t hh hne]; exact hi.old p (by simp [hp])
  · intro hs p hp
    have hne : p.1 ≠ h := fun e => hk.1 (e ▸ List.mem_map_of_mem hp)
    rw [findC_putCtx_ne t hh hne, putCtx_cSaved, cSaved_rmCtx_ne t hne]; exact hi.bump hs p (by simp [hp])

theorem CItemsOK.tail_same {strict : Bool} {t : Tables} {p : Handle × CItem} {rest : List (Handle × CItem)}
    (hi : CItemsOK strict t (p :: rest)) : CItemsOK strict t rest := by
  have hk := hi.keys
  simp only [List.map_cons, List.nodup_cons] at hk
  exact ⟨hk.2, fun p hp => hi.h p (by simp [hp]), fun p hp => hi.old p (by simp [hp]), fun p hp => hi.ref p (by simp [hp]),
    fun hs p hp => hi.bump hs p (by simp [hp])⟩

theorem applyCItems_cons {t : Tables} {h : Handle} {it : CItem} {rest : List (Handle × CItem)}
    (hh : ∀ n ∈ it.new, n.h = h) (hold : it.old = findC t h) :
    applyCItems t ((h, it) :: rest) =
      ((applyCItems (putCtx t h it.new) rest).1,
       (match it.new with | none => [] | some n => [n]) ++ (applyCItems (putCtx t h it.new) rest).2.1,
       (applyCItems (putCtx t h it.new) rest).2.2) := by
  rw [applyCItems, hold]
  cases hf : findC t h with
  | none =>
    simp only []
    cases hn : it.new with
    | none => simp [putCtx, rmCtx_of_none hf]
    | some n =>
      simp only []
      conv => lhs; rw [← rmCtx_of_none hf, addCtx_rmCtx t (hh n hn)]
      simp
  | some o =>
    simp only [(findC_some hf).1]
    cases hn : it.new with
    | none => simp [putCtx]
    | some n => simp only [addCtx_rmCtx t (hh n hn), List.singleton_append]

/-- whatever happens (also a commit that dies on a colliding uuid) the tables stay well-formed -/
theorem applyCItems_wf {strict : Bool} {t : Tables} {items : List (Handle × CItem)} (hw : WF t) (hi : CItemsOK strict t items) :
    WF (applyCItems t items).1 := by
  induction items generalizing t with
  | nil => exact hw
  | cons p rest ih =>
    obtain ⟨h, it⟩ := p
    have hh := hi.h (h, it) (by simp)
    by_cases hex : it.old = findC t h
    · rw [applyCItems_cons hh hex]
      exact ih (hw.putCtx hh (hi.ref (h, it) (by simp))) hi.tail
    · have hold : it.old = none := ((hi.old (h, it) (by simp)).resolve_left hex).2
      obtain ⟨c, hf⟩ : ∃ c, findC t h = some c := by
        cases hf : findC t h with
        | none => exact absurd (hold.trans hf.symm) hex
        | some c => exact ⟨c, rfl⟩
      rw [applyCItems, hold]
      simp only []
      split
      · exact ih hw hi.tail_same
      · rename_i n hn
        have : addCtx t n = .error .keyError := by
          have hnh : n.h = h := hh n hn
          simp [addCtx, hnh, hf]
        rw [this]; exact hw

theorem applyCItems_ok {t : Tables} {items : List (Handle × CItem)} (hw : WF t) (hi : CItemsOK true t items) :
    (applyCItems t items).2.2 = none := by
  induction items generalizing t with
  | nil => rfl
  | cons p rest ih =>
    obtain ⟨h, it⟩ := p
    have hh := hi.h (h, it) (by simp)
    rw [applyCItems_cons hh (hi.exact (h, it) (by simp))]
    exact ih (hw.putCtx hh (hi.ref (h, it) (by simp))) hi.tail

theorem CItemsOK.set {strict : Bool} {t : Tables} {items : List (Handle × CItem)} (hi : CItemsOK strict t items) {h : Handle} {it : CItem}
    (h1 : ∀ n ∈ it.new, n.h = h) (h2 : it.old = findC t h ∨ (strict = false ∧ it.old = none))
    (h3 : ∀ n ∈ it.new, ∃ d ∈ t.descrs, d.handle = n.dh ∧ d.ver = n.dv)
    (h4 : strict = true → ∀ n ∈ it.new, (∀ o, findC t h = some o → o.sv < n.sv) ∧ (findC t h = none → savedGet t.cSaved h ≤ some n.sv)) :
    CItemsOK strict t (dictSet items h it) :=
  ⟨dictSet_keys_nodup hi.keys h it, forall_dictSet hi.h h1, forall_dictSet hi.old h2, forall_dictSet hi.ref h3,
   fun hs => forall_dictSet (hi.bump hs) (h4 hs)⟩

/-- the uuid handed to `mk_context_state(..., handle=None)` is fresh: no live context state and no saved version has it -/
def freshCall (t : Tables) : CCall → Bool
  | .mk _ h false _ _ _ => (findC t h).isNone && (savedGet t.cSaved h).isNone
  | _ => true

def FreshUuids (t : Tables) (s : CScript) : Prop := ∀ c ∈ s.calls, freshCall t c = true
instance (t : Tables) (s : CScript) : Decidable (FreshUuids t s) := by unfold FreshUuids; infer_instance

theorem cGet_ok {strict : Bool} {t : Tables} (hw : WF t) {tx tx1 : CTx} {h : Handle} {c1 : CState} (hi : CItemsOK strict t tx.items)
    (hg : cGet t tx h = .ok (tx1, c1)) :
    CItemsOK strict t tx1.items ∧ tx1.newVer = tx.newVer ∧ ∃ c, findC t h = some c ∧ c1 = { c with sv := c.sv + 1 } := by
  simp only [cGet] at hg
  split at hg; · cases hg
  split at hg; · cases hg
  rename_i c hc
  simp only [Except.ok.injEq, Prod.mk.injEq] at hg
  obtain ⟨rfl, rfl⟩ := hg
  have hc' := findC_some hc
  refine ⟨hi.set ?_ (.inl hc.symm) ?_ ?_, rfl, c, hc, rfl⟩
  · intro n hn; cases hn; exact hc'.1
  · intro n hn; cases hn; exact hw.cRef c hc'.2
  · intro _ n hn; cases hn; simp [hc]

theorem disassocLoop_ok {strict : Bool} {t : Tables} (hw : WF t) (now : Nat) (ignored : Option Handle) :
    ∀ (cs : List CState) (tx tx' : CTx), (∀ c ∈ cs, c ∈ t.ctx) → CItemsOK strict t tx.items →
      disassocLoop t now ignored tx cs = .ok tx' → CItemsOK strict t tx'.items := by
  intro cs
  induction cs with
  | nil => intro tx tx' _ hi h; simp only [disassocLoop, Except.ok.injEq] at h; exact h ▸ hi
  | cons c rest ih =>
    intro tx tx' hm hi h
    have hm' : ∀ c ∈ rest, c ∈ t.ctx := fun x hx => hm x (by simp [hx])
    have hc : c ∈ t.ctx := hm c (by simp)
    simp only [disassocLoop] at h
    split at h
    · exact ih tx tx' hm' hi h
    · split at h
      · split at h; · cases h
        rename_i tx1 c1 hg
        obtain ⟨hi1, _, c0, hc0, rfl⟩ := cGet_ok hw hi hg
        have e0 : c0 = c := by
          have := hw.findC_of_mem hc; rw [hc0] at this; exact Option.some.inj this
        subst e0
        refine ih _ tx' hm' ?_ h
        refine hi1.set ?_ (.inl (hw.findC_of_mem hc).symm) ?_ ?_
        · intro n hn
          simp only [Option.mem_def, Option.some.injEq] at hn
          subst hn; split <;> rfl
        · intro n hn
          simp only [Option.mem_def, Option.some.injEq] at hn
          subst hn
          obtain ⟨d, hd, e1, e2⟩ := hw.cRef c0 hc
          refine ⟨d, hd, ?_, ?_⟩ <;> split <;> assumption
        · intro _ n hn
          simp only [Option.mem_def, Option.some.injEq] at hn
          subst hn
          rw [hw.findC_of_mem hc]
          refine ⟨?_, by simp⟩
          intro o ho; cases ho
          split <;> simp
      · exact ih tx tx' hm' hi h

theorem cCall_ok {strict : Bool} {t : Tables} (hw : WF t) {tx tx' : CTx} {c : CCall} (hf : strict = true → freshCall t c = true) (hi : CItemsOK strict t tx.items)
    (h : cCall t tx c = .ok tx') : CItemsOK strict t tx'.items := by
  cases c with
  | get h0 =>
    simp only [cCall] at h
    cases hg : cGet t tx h0 with
    | error e => simp [hg, Except.map] at h
    | ok r =>
      obtain ⟨tx1, c1⟩ := r
      simp only [hg, Except.map, Except.ok.injEq] at h
      subst h
      exact (cGet_ok hw hi hg).1
  | mk dh h0 explicit assoc body now =>
    simp only [cCall] at h
    split at h; · cases h
    split at h; · cases h
    rename_i d hd
    split at h; · cases h
    split at h; · cases h
    rename_i hex
    cases h
    have hd' := findD_some hd
    have hnone : none = findC t h0 ∨ (strict = false ∧ (none : Option CState) = none) := by
      cases explicit with
      | true => left; symm; simpa using hex
      | false =>
        cases strict with
        | false => exact .inr ⟨rfl, rfl⟩
        | true =>
          have hf := hf rfl
          simp only [freshCall, Bool.and_eq_true, Option.isNone_iff_eq_none] at hf; exact .inl hf.1.symm
    refine hi.set ?_ hnone ?_ ?_
    · intro n hn; simp only [Option.mem_def, Option.some.injEq] at hn; subst hn; rfl
    · intro n hn; simp only [Option.mem_def, Option.some.injEq] at hn; subst hn; exact ⟨d, hd'.2, hd'.1, rfl⟩
    · intro hs n hn
      simp only [Option.mem_def, Option.some.injEq] at hn; subst hn
      have hno : findC t h0 = none := by
        rcases hnone with e | ⟨e, _⟩
        · exact e.symm
        · rw [hs] at e; cases e
      refine ⟨by simp [hno], fun _ => ?_⟩
      cases explicit with
      | true => simp only [if_true]; cases savedGet t.cSaved h0 <;> simp
      | false =>
        have hf := hf hs
        simp only [freshCall, Bool.and_eq_true, Option.isNone_iff_eq_none] at hf
        simp [hf.2]
  | setBody h0 b =>
    simp only [cCall] at h
    split at h
    · rename_i o c hit
      cases h
      have hm := dictGet_some_mem hit
      refine hi.set ?_ (hi.old _ hm) ?_ ?_
      · intro n hn; simp only [Option.mem_def, Option.some.injEq] at hn; subst hn; exact hi.h _ hm c rfl
      · intro n hn; simp only [Option.mem_def, Option.some.injEq] at hn; subst hn; exact hi.ref _ hm c rfl
      · intro hs n hn; simp only [Option.mem_def, Option.some.injEq] at hn; subst hn; exact hi.bump hs _ hm c rfl
    · cases h
  | setAssoc h0 a =>
    simp only [cCall] at h
    split at h
    · rename_i o c hit
      cases h
      have hm := dictGet_some_mem hit
      refine hi.set ?_ (hi.old _ hm) ?_ ?_
      · intro n hn; simp only [Option.mem_def, Option.some.injEq] at hn; subst hn; exact hi.h _ hm c rfl
      · intro n hn; simp only [Option.mem_def, Option.some.injEq] at hn; subst hn; exact hi.ref _ hm c rfl
      · intro hs n hn; simp only [Option.mem_def, Option.some.injEq] at hn; subst hn; exact hi.bump hs _ hm c rfl
    · cases h
  | disassociateAll dh ignored now =>
    simp only [cCall] at h
    refine disassocLoop_ok hw now ignored _ tx tx' ?_ hi h
    intro c hc; simp only [ctxOf, List.mem_filter] at hc; exact hc.1
  | del h0 =>
    simp only [cCall] at h
    split at h; · cases h
    rename_i c hc
    cases h
    exact hi.set (by simp) (.inl hc.symm) (by simp) (by simp)

theorem cCalls_ok {t : Tables} (hw : WF t) {s : CScript} (hf : FreshUuids t s) {tx : CTx}
    (h : runCalls (cCall t) s.catchErrors { newVer := t.ver + 1 } s.calls = .ok tx) : CItemsOK true t tx.items :=
  runCalls_inv_of (fun tx : CTx => CItemsOK true t tx.items) (fun c => freshCall t c = true)
    (fun _ _ _ hg hp hc => cCall_ok hw (fun _ => hg) hp hc) _ _ _ _ hf (CItemsOK.nil true t) h

theorem cCalls_wk {t : Tables} (hw : WF t) {s : CScript} {tx : CTx}
    (h : runCalls (cCall t) s.catchErrors { newVer := t.ver + 1 } s.calls = .ok tx) : CItemsOK false t tx.items :=
  runCalls_inv (fun tx : CTx => CItemsOK false t tx.items)
    (fun _ _ _ hp hc => cCall_ok hw (by simp) hp hc) _ _ _ _ (CItemsOK.nil false t) h

theorem CItemsOK.of_ver {strict : Bool} {t : Tables} {items : List (Handle × CItem)} (hi : CItemsOK strict t items) (v : Nat) :
    CItemsOK strict { t with ver := v } items := ⟨hi.keys, hi.h, hi.old, hi.ref, hi.bump⟩

theorem commitC_wf {strict : Bool} {t : Tables} (hw : WF t) {tx : CTx} (hi : CItemsOK strict t tx.items) : WF (commitC t tx).1 := by
  unfold commitC
  split
  · exact hw
  · exact applyCItems_wf (hw.of_ver _) (hi.of_ver _)

theorem commitC_ok {t : Tables} (hw : WF t) {tx : CTx} (hi : CItemsOK true t tx.items) : (commitC t tx).2.2 = none := by
  unfold commitC
  split
  · rfl
  · exact applyCItems_ok (hw.of_ver _) (hi.of_ver _)

theorem runC_wf {t : Tables} (hw : WF t) (s : CScript) : WF (runC t s).1 := by
  unfold runC
  split
  · exact hw
  · rename_i tx htx
    split
    · exact hw
    · have := commitC_wf hw (cCalls_wk hw htx)
      split
      · rename_i t' r e heq; rw [heq] at this; exact this
      · rename_i t' r heq; rw [heq] at this; exact this

theorem runC_ok {t : Tables} (hw : WF t) (s : CScript) (hf : FreshUuids t s) : (runC t s).2.2 ≠ .commitFailed := by
  unfold runC
  split
  · simp
  · rename_i tx htx
    split
    · simp
    · have := commitC_ok hw (cCalls_ok hw hf htx)
      split
      · rename_i t' r e heq
        rw [heq] at this; simp at this
      · split <;> simp

end Sdc.Mdib
