import SdcModel.Scalars
/-! enum and boolean converters (core Lean only) -/
namespace Sdc.Scalars

theorem findLit_some (lits : List Str) (s : Str) (i : Nat) (h : findLit lits s = some i) : lits[i]? = some s := by
  induction lits generalizing i with
  | nil => cases h
  | cons l ls ih =>
    unfold findLit at h
    split at h
    · rename_i hl; injection h with h; subst h; simp [hl]
    · cases hf : findLit ls s with
      | none => rw [hf] at h; cases h
      | some j =>
        rw [hf] at h; simp at h; subst h
        simpa using ih j hf

theorem findLit_none (lits : List Str) (s : Str) (h : s ∉ lits) : findLit lits s = none := by
  induction lits with
  | nil => rfl
  | cons l ls ih =>
    unfold findLit
    have h1 : ¬ l = s := fun e => h (by simp [e])
    have h2 : s ∉ ls := fun e => h (by simp [e])
    simp [h1, ih h2]

theorem findLit_getElem (lits : List Str) (hnd : lits.Nodup) (i : Nat) (hi : i < lits.length) :
    findLit lits lits[i] = some i := by
  induction lits generalizing i with
  | nil => simp at hi
  | cons l ls ih =>
    rw [List.nodup_cons] at hnd
    cases i with
    | zero => simp [findLit]
    | succ j =>
      have hj : j < ls.length := by simpa using hi
      have hne : ¬ l = ls[j] := fun e => hnd.1 (by rw [e]; exact List.getElem_mem hj)
      simp only [List.getElem_cons_succ, findLit, hne, if_false, ih hnd.2 j hj]
      rfl

/-- a string that is not a literal of the enum is rejected -/
theorem enumToPy_reject (lits : List Str) (s : Str) (h : s ∉ lits) : enumToPy lits s = .error .value := by
  unfold enumToPy; rw [findLit_none lits s h]

/-- an accepted string is the literal of the member returned -/
theorem enumToPy_ok (lits : List Str) (s : Str) (i : Nat) (h : enumToPy lits s = .ok i) : lits[i]? = some s := by
  unfold enumToPy at h
  cases hf : findLit lits s with
  | none => rw [hf] at h; cases h
  | some j => rw [hf] at h; injection h with h; subst h; exact findLit_some lits s j hf

theorem enumToXml_enumToPy (lits : List Str) (s : Str) (i : Nat) (h : enumToPy lits s = .ok i) : enumToXml lits i = s := by
  have := enumToPy_ok lits s i h
  unfold enumToXml
  simp [List.getD, this]

theorem enumToPy_enumToXml (lits : List Str) (hnd : lits.Nodup) (i : Nat) (hi : i < lits.length) :
    enumToPy lits (enumToXml lits i) = .ok i := by
  have hx : enumToXml lits i = lits[i] := by
    unfold enumToXml; simp [List.getD, List.getElem?_eq_getElem hi]
  unfold enumToPy
  rw [hx, findLit_getElem lits hnd i hi]

/-! booleans -/

/-- lexical space of xsd:boolean -/
def BooleanLex (t : Str) : Prop := t = litTrue ∨ t = litFalse ∨ t = [49] ∨ t = [48]

theorem boolToPy_lex (t : Str) (h : BooleanLex t) : boolToPy t = .ok (decide (t = litTrue ∨ t = [49])) := by
  rcases h with rfl | rfl | rfl | rfl <;> rfl

theorem boolToPy_boolToXml (b : Bool) : boolToPy (boolToXml b) = .ok b := by
  cases b <;> rfl

theorem boolToXml_lex (b : Bool) : BooleanLex (boolToXml b) := by
  cases b
  · right; left; rfl
  · left; rfl

end Sdc.Scalars
