import SdcModel.Scalars
import SdcModel.Proofs.ScalarsDec
/-! `parse_duration (duration_string …)`: string level (core Lean + `set`) -/
namespace Sdc.Scalars

/-! ### component readers -/

theorem takeComp_hit (t : Nat) (d rest : Str) (hne : d ≠ []) (hd : ∀ c ∈ d, isDigit c = true) (ht : isDigit t = false) :
    takeComp t (d ++ t :: rest) = some (d, rest) := by
  unfold takeComp
  have := takeWhile_append_stop (p := isDigit) d t rest hd ht
  simp only [this.1, this.2]
  cases d with
  | nil => exact absurd rfl hne
  | cons _ _ => simp

theorem takeComp_miss (t c : Nat) (d rest : Str) (hd : ∀ c ∈ d, isDigit c = true) (hc : isDigit c = false)
    (hct : c ≠ t) : takeComp t (d ++ c :: rest) = none := by
  unfold takeComp
  have := takeWhile_append_stop (p := isDigit) d c rest hd hc
  simp only [this.1, this.2]
  simp [hct]

theorem takeComp_nil (t : Nat) : takeComp t [] = none := rfl

theorem takeSeconds_nil : takeSeconds [] = none := rfl

theorem takeSeconds_int (d rest : Str) (hne : d ≠ []) (hd : ∀ c ∈ d, isDigit c = true) :
    takeSeconds (d ++ 83 :: rest) = some (d, [], rest) := by
  unfold takeSeconds
  have := takeWhile_append_stop (p := isDigit) d 83 rest hd (by decide)
  simp only [this.1, this.2]
  cases d with
  | nil => exact absurd rfl hne
  | cons _ _ => simp

theorem takeSeconds_frac (d f rest : Str) (hne : d ≠ []) (hd : ∀ c ∈ d, isDigit c = true)
    (hfne : f ≠ []) (hf : ∀ c ∈ f, isDigit c = true) :
    takeSeconds (d ++ 46 :: (f ++ 83 :: rest)) = some (d, f, rest) := by
  unfold takeSeconds
  have := takeWhile_append_stop (p := isDigit) d 46 (f ++ 83 :: rest) hd (by decide)
  simp only [this.1, this.2]
  rw [takeComp_hit 83 f rest hfne hf (by decide)]
  cases d with
  | nil => exact absurd rfl hne
  | cons _ _ => simp

/-! ### rendering of the groups -/

def renderH (o : Option Str) : Str := match o with | some d => d ++ [72] | none => []
def renderM (o : Option Str) : Str := match o with | some d => d ++ [77] | none => []
def renderS (o : Option (Str × Str)) : Str :=
  match o with
  | some (d, f) => d ++ (if f = [] then [83] else 46 :: (f ++ [83]))
  | none => []

def DigitsNE (d : Str) : Prop := d ≠ [] ∧ ∀ c ∈ d, isDigit c = true

/-- first character of a rendered tail is a digit, or the tail is a digit string followed by a non-digit terminator -/
theorem takeComp_renderM_S_miss (om : Option Str) (os : Option (Str × Str))
    (hm : ∀ d, om = some d → DigitsNE d) (hs : ∀ d f, os = some (d, f) → DigitsNE d ∧ ∀ c ∈ f, isDigit c = true) :
    takeComp 72 (renderM om ++ renderS os) = none := by
  cases om with
  | some d =>
    have := hm d rfl
    simp only [renderM, List.append_assoc, List.singleton_append]
    exact takeComp_miss 72 77 d _ this.2 (by decide) (by decide)
  | none =>
    simp only [renderM, List.nil_append]
    cases os with
    | none => rfl
    | some df =>
      obtain ⟨d, f⟩ := df
      have := (hs d f rfl).1
      simp only [renderS]
      by_cases hf : f = []
      · simp only [hf, if_true]
        exact takeComp_miss 72 83 d _ this.2 (by decide) (by decide)
      · simp only [hf, if_false]
        exact takeComp_miss 72 46 d _ this.2 (by decide) (by decide)

theorem takeComp_renderS_miss (os : Option (Str × Str))
    (hs : ∀ d f, os = some (d, f) → DigitsNE d ∧ ∀ c ∈ f, isDigit c = true) :
    takeComp 77 (renderS os) = none := by
  cases os with
  | none => rfl
  | some df =>
    obtain ⟨d, f⟩ := df
    have := (hs d f rfl).1
    simp only [renderS]
    by_cases hf : f = []
    · simp only [hf, if_true]
      exact takeComp_miss 77 83 d _ this.2 (by decide) (by decide)
    · simp only [hf, if_false]
      exact takeComp_miss 77 46 d _ this.2 (by decide) (by decide)

theorem optSeconds_renderS (os : Option (Str × Str))
    (hs : ∀ d f, os = some (d, f) → DigitsNE d ∧ ∀ c ∈ f, isDigit c = true) :
    optSeconds (renderS os) = (os, []) := by
  unfold optSeconds
  cases os with
  | none => rfl
  | some df =>
    obtain ⟨d, f⟩ := df
    have h := hs d f rfl
    simp only [renderS]
    by_cases hf : f = []
    · subst hf
      simp only [if_true]
      rw [takeSeconds_int d [] h.1.1 h.1.2]
    · simp only [hf, if_false]
      rw [takeSeconds_frac d f [] h.1.1 h.1.2 hf h.2]

theorem optComp_H (oh om : Option Str) (os : Option (Str × Str))
    (hh : ∀ d, oh = some d → DigitsNE d) (hm : ∀ d, om = some d → DigitsNE d)
    (hs : ∀ d f, os = some (d, f) → DigitsNE d ∧ ∀ c ∈ f, isDigit c = true) :
    optComp 72 (renderH oh ++ (renderM om ++ renderS os)) = (oh, renderM om ++ renderS os) := by
  unfold optComp
  cases oh with
  | some d =>
    have := hh d rfl
    simp only [renderH, List.append_assoc, List.singleton_append]
    rw [takeComp_hit 72 d _ this.1 this.2 (by decide)]
  | none =>
    simp only [renderH, List.nil_append]
    rw [takeComp_renderM_S_miss om os hm hs]

theorem optComp_M (om : Option Str) (os : Option (Str × Str))
    (hm : ∀ d, om = some d → DigitsNE d)
    (hs : ∀ d f, os = some (d, f) → DigitsNE d ∧ ∀ c ∈ f, isDigit c = true) :
    optComp 77 (renderM om ++ renderS os) = (om, renderS os) := by
  unfold optComp
  cases om with
  | some d =>
    have := hm d rfl
    simp only [renderM, List.append_assoc, List.singleton_append]
    rw [takeComp_hit 77 d _ this.1 this.2 (by decide)]
  | none =>
    simp only [renderM, List.nil_append]
    rw [takeComp_renderS_miss os hs]

theorem getLast_cons_cons (a b : Nat) (r : Str) (c : Nat) (h : r.getLast? = some c) : (a :: b :: r).getLast? = some c := by
  cases r with
  | nil => cases h
  | cons x r => simpa [List.getLast?_cons_cons] using h

/-- the groups read back from a rendered duration -/
theorem durationGroups_render (oh om : Option Str) (os : Option (Str × Str))
    (hh : ∀ d, oh = some d → DigitsNE d) (hm : ∀ d, om = some d → DigitsNE d)
    (hs : ∀ d f, os = some (d, f) → DigitsNE d ∧ ∀ c ∈ f, isDigit c = true)
    (hsome : oh.isSome ∨ om.isSome ∨ os.isSome) :
    durationGroups (80 :: 84 :: (renderH oh ++ (renderM om ++ renderS os))) = some (oh, om, os) := by
  -- the string is not empty behind PT and does not end in a newline
  have hlast : ∃ c, (renderH oh ++ (renderM om ++ renderS os)).getLast? = some c ∧ c ≠ 10 := by
    cases os with
    | some df =>
      obtain ⟨d, f⟩ := df
      refine ⟨83, ?_, by decide⟩
      simp only [renderS]
      by_cases hf : f = []
      · simp [hf, List.getLast?_append]
      · have : (46 :: (f ++ [83])).getLast? = some 83 := by
          have : 46 :: (f ++ [83]) = (46 :: f) ++ [83] := by simp
          rw [this, List.getLast?_append]; simp
        simp [hf, List.getLast?_append, this]
    | none =>
      cases om with
      | some d => exact ⟨77, by simp [renderS, renderM, List.getLast?_append], by decide⟩
      | none =>
        cases oh with
        | some d => exact ⟨72, by simp [renderS, renderM, renderH, List.getLast?_append], by decide⟩
        | none => simp at hsome
  obtain ⟨c, hc, hc10⟩ := hlast
  have hne : renderH oh ++ (renderM om ++ renderS os) ≠ [] := by
    intro h0; rw [h0] at hc; cases hc
  have hbody : durationBody (80 :: 84 :: (renderH oh ++ (renderM om ++ renderS os)))
      = some (renderH oh ++ (renderM om ++ renderS os)) := by
    have hl : (80 :: 84 :: (renderH oh ++ (renderM om ++ renderS os))).getLast? ≠ some 10 := by
      rw [getLast_cons_cons _ _ _ c hc]; intro h; injection h with h; exact hc10 h
    have hd : dropNewline (80 :: 84 :: (renderH oh ++ (renderM om ++ renderS os)))
        = 80 :: 84 :: (renderH oh ++ (renderM om ++ renderS os)) := by
      unfold dropNewline; rw [if_neg hl]
    unfold durationBody
    rw [hd]
    simp
  unfold durationGroups
  rw [hbody]
  simp only
  rw [optComp_H oh om os hh hm hs]
  simp only
  rw [optComp_M om os hm hs]
  simp only
  rw [optSeconds_renderS os hs]
  have : (renderH oh ++ (renderM om ++ renderS os)).isEmpty = false := by
    cases hx : renderH oh ++ (renderM om ++ renderS os) with
    | nil => exact absurd hx hne
    | cons _ _ => rfl
  simp [this]

/-! ### `duration_string` as a rendering -/

def ohOf (h : Nat) : Option Str := if h > 0 then some (natStr h) else none

/-- `str(us).zfill(6).rstrip('0')` -/
def fracDigits (us : Nat) : Str := rstrip0 (zfill6 (natStr us))

def osOf (sec us : Nat) : Option (Str × Str) :=
  if us > 0 then some (natStr sec, fracDigits us) else if sec > 0 then some (natStr sec, []) else none

theorem digitsNE_natStr (n : Nat) : DigitsNE (natStr n) := ⟨natStr_ne_nil n, natStr_digits n⟩

theorem zfill6_digits (us : Nat) : ∀ c ∈ zfill6 (natStr us), isDigit c = true := by
  intro c hc
  unfold zfill6 at hc
  rw [List.mem_append] at hc
  rcases hc with hc | hc
  · rw [List.mem_replicate] at hc; rw [hc.2]; rfl
  · exact natStr_digits us c hc

theorem digitsVal_zfill6 (us : Nat) : digitsVal (zfill6 (natStr us)) = us := by
  unfold zfill6; rw [digitsVal_zeros_append, digitsVal_natStr]

theorem zfill6_length (us : Nat) (h : us < 1000000) : (zfill6 (natStr us)).length = 6 := by
  unfold zfill6
  have := natStr_length_le us 6 (by omega) (by omega)
  rw [List.length_append, List.length_replicate]; omega

theorem fracDigits_digits (us : Nat) : ∀ c ∈ fracDigits us, isDigit c = true :=
  rstrip0_digits _ (zfill6_digits us)

theorem fracDigits_ne_nil (us : Nat) (h : 0 < us) : fracDigits us ≠ [] := by
  intro h0
  obtain ⟨j, hj⟩ := rstrip0_spec (zfill6 (natStr us))
  unfold fracDigits at h0
  rw [h0] at hj
  have := digitsVal_zfill6 us
  rw [hj] at this
  simp only [List.nil_append] at this
  rw [digitsVal_zeros] at this
  omega

theorem render_aux (h mi sec us : Nat) :
    (let r : Str := [80, 84]
        ++ (if h > 0 then natStr h ++ [72] else [])
        ++ (if mi > 0 then natStr mi ++ [77] else [])
        ++ (if sec > 0 then natStr sec else [])
        ++ (if us > 0 then (if sec = 0 then [48] else []) ++ [46] ++ rstrip0 (zfill6 (natStr us)) ++ [83]
            else if sec > 0 then [83] else [])
      if r = [80, 84] then [80, 84, 48, 83] else r) =
      if h = 0 ∧ mi = 0 ∧ sec = 0 ∧ us = 0 then [80, 84, 48, 83]
      else 80 :: 84 :: (renderH (ohOf h) ++ (renderM (ohOf mi) ++ renderS (osOf sec us))) := by
  have hH := natStr_ne_nil h
  have hM := natStr_ne_nil mi
  have hS := natStr_ne_nil sec
  have hF := fracDigits_ne_nil us
  unfold fracDigits at hF
  rcases Nat.eq_zero_or_pos h with rfl | hh0 <;> rcases Nat.eq_zero_or_pos mi with rfl | hm0 <;>
    rcases Nat.eq_zero_or_pos sec with rfl | hs0 <;> rcases Nat.eq_zero_or_pos us with rfl | hu0 <;>
    simp [ohOf, osOf, renderH, renderM, renderS, fracDigits, *, Nat.ne_of_gt, natStr_zero]

theorem durationStringUs_render (total : Nat) :
    durationStringUs total =
      if total / usPerSec / 60 / 60 = 0 ∧ total / usPerSec / 60 % 60 = 0 ∧ total / usPerSec % 60 = 0 ∧ total % usPerSec = 0
      then [80, 84, 48, 83]
      else 80 :: 84 :: (renderH (ohOf (total / usPerSec / 60 / 60)) ++ (renderM (ohOf (total / usPerSec / 60 % 60)) ++
        renderS (osOf (total / usPerSec % 60) (total % usPerSec)))) :=
  render_aux _ _ _ _

/-- the float steps of `float('s.f')` + `timedelta(seconds=<float>)` give the exact microsecond count for a value
    with seconds below 60 and at most six fraction digits -/
def FloatStepExact : Prop :=
  ∀ (h m s f : Nat), s < 60 → f < 1000000 →
    timedeltaUs h m (floatOfDecimal (natStr s) (if f = 0 then [48] else fracDigits f)) =
      if (h * 3600 * usPerSec + m * 60 * usPerSec + (s * usPerSec + f)) / usPerDay ≤ maxDays
      then .ok (h * 3600 * usPerSec + m * 60 * usPerSec + (s * usPerSec + f)) else .error .overflow

theorem ohOf_wf (n : Nat) : ∀ d, ohOf n = some d → DigitsNE d := by
  intro d hd
  unfold ohOf at hd
  split at hd
  · injection hd with hd; subst hd; exact digitsNE_natStr n
  · cases hd

theorem osOf_wf (sec us : Nat) : ∀ d f, osOf sec us = some (d, f) → DigitsNE d ∧ ∀ c ∈ f, isDigit c = true := by
  intro d f hd
  unfold osOf at hd
  split at hd
  · injection hd with hd; injection hd with h1 h2; subst h1 h2
    exact ⟨digitsNE_natStr sec, fracDigits_digits us⟩
  · split at hd
    · injection hd with hd; injection hd with h1 h2; subst h1 h2
      exact ⟨digitsNE_natStr sec, by intro c hc; cases hc⟩
    · cases hd

theorem ohOf_val (n : Nat) : ((ohOf n).map digitsVal).getD 0 = n := by
  unfold ohOf
  split
  · simp [digitsVal_natStr]
  · simp; omega

/-- `parse_duration(duration_string(total_us))` yields `total_us` again (microsecond level) -/
theorem parseDurationUs_durationStringUs (hfs : FloatStepExact) (total : Nat) (hmax : total / usPerDay ≤ maxDays) :
    parseDurationUs (durationStringUs total) = .ok total := by
  rw [durationStringUs_render]
  have hs60 : total / usPerSec % 60 < 60 := Nat.mod_lt _ (by omega)
  have hus : total % usPerSec < 1000000 := Nat.mod_lt _ (by unfold usPerSec; omega)
  have htotal : total / usPerSec / 60 / 60 * 3600 * usPerSec + total / usPerSec / 60 % 60 * 60 * usPerSec
      + (total / usPerSec % 60 * usPerSec + total % usPerSec) = total := by
    unfold usPerSec; omega
  split
  · rename_i hz
    have ht0 : total = 0 := by rw [← htotal]; simp [hz.1, hz.2.1, hz.2.2.1, hz.2.2.2]
    have hg : durationGroups [80, 84, 48, 83] = some (none, none, some ([48], [])) := by decide
    unfold parseDurationUs
    rw [hg]
    simp only
    have := hfs 0 0 0 0 (by omega) (by omega)
    simp only [natStr_zero, if_true] at this
    simp only [List.isEmpty_nil, if_true, Option.map_none, Option.getD_none]
    rw [this, ht0]
    simp [usPerDay, usPerSec, maxDays]
  · rename_i hnz
    set h := total / usPerSec / 60 / 60 with hh
    set mi := total / usPerSec / 60 % 60 with hmi
    set sec := total / usPerSec % 60 with hsec
    set us := total % usPerSec with husd
    have hsome : (ohOf h).isSome ∨ (ohOf mi).isSome ∨ (osOf sec us).isSome := by
      unfold ohOf osOf
      by_cases h1 : h > 0
      · left; simp [h1]
      · by_cases h2 : mi > 0
        · right; left; simp [h2]
        · right; right
          by_cases h3 : us > 0
          · simp [h3]
          · have : sec > 0 := Nat.pos_of_ne_zero (fun h0 => hnz ⟨Nat.eq_zero_of_not_pos h1, Nat.eq_zero_of_not_pos h2, h0, Nat.eq_zero_of_not_pos h3⟩)
            simp [h3, this]
    unfold parseDurationUs
    rw [durationGroups_render (ohOf h) (ohOf mi) (osOf sec us) (ohOf_wf h) (ohOf_wf mi) (osOf_wf sec us) hsome]
    simp only
    rw [ohOf_val, ohOf_val]
    have key := hfs h mi sec us hs60 hus
    rw [htotal, if_pos hmax] at key
    -- the float argument is the one of the hypothesis in each shape of the seconds group
    unfold osOf
    by_cases hu0 : us > 0
    · have hne : us ≠ 0 := by omega
      have hfd : (fracDigits us).isEmpty = false := by
        cases hx : fracDigits us with
        | nil => exact absurd hx (fracDigits_ne_nil us hu0)
        | cons _ _ => rfl
      simp only [hu0, if_true, hfd, Bool.false_eq_true, if_false]
      simp only [hne, if_false] at key
      exact key
    · have he : us = 0 := by omega
      simp only [he, if_true] at key
      by_cases hs0 : sec > 0
      · simp only [hu0, if_false, hs0, if_true, List.isEmpty_nil]
        exact key
      · have hse : sec = 0 := by omega
        simp only [hu0, if_false, hs0]
        rw [hse, natStr_zero] at key
        exact key

end Sdc.Scalars
