import SdcModel.ObjGraph
/-!
Helper lemmas for M2 `ObjGraph`: fresh copies, in-place updates, the separation invariant and its preservation by
every operation. Core Lean only.
-/
namespace Sdc.ObjGraph

theorem maxId_ge {l : List Nat} {x : Nat} (h : x ∈ l) : x ≤ maxId l := by
  induction l with
  | nil => cases h
  | cons y ys ih =>
    simp only [maxId]
    rcases List.mem_cons.mp h with h | h
    · subst h; omega
    · have := ih h; omega

/-! ### fresh copies -/

mutual
theorem fresh_le (t : Tree) (n : Nat) : n ≤ (t.fresh n).2 := by
  cases t with
  | imm v => simp [Tree.fresh]
  | obj id ks => simp only [Tree.fresh]; have := freshL_le ks (n+1); omega
theorem freshL_le (ts : List Tree) (n : Nat) : n ≤ (freshL n ts).2 := by
  cases ts with
  | nil => simp [freshL]
  | cons t ts => simp only [freshL]; have := fresh_le t n; have := freshL_le ts (t.fresh n).2; omega
end

mutual
theorem fresh_ids (t : Tree) (n x : Nat) (h : x ∈ (t.fresh n).1.ids) : n ≤ x ∧ x < (t.fresh n).2 := by
  cases t with
  | imm v => simp [Tree.fresh, Tree.ids] at h
  | obj id ks =>
    simp only [Tree.fresh, Tree.ids, List.mem_cons] at h ⊢
    have hl := freshL_le ks (n+1)
    rcases h with h | h
    · omega
    · have := freshL_ids ks (n+1) x h; omega
theorem freshL_ids (ts : List Tree) (n x : Nat) (h : x ∈ idsL (freshL n ts).1) : n ≤ x ∧ x < (freshL n ts).2 := by
  cases ts with
  | nil => simp [freshL, idsL] at h
  | cons t ts =>
    simp only [freshL, idsL, List.mem_append] at h ⊢
    have h1 := fresh_le t n
    have h2 := freshL_le ts (t.fresh n).2
    rcases h with h | h
    · have := fresh_ids t n x h; omega
    · have := freshL_ids ts _ x h; omega
end

mutual
theorem strip_fresh (t : Tree) (n : Nat) : (t.fresh n).1.strip = t.strip := by
  cases t with
  | imm v => simp [Tree.fresh, Tree.strip]
  | obj id ks => simp only [Tree.fresh, Tree.strip]; rw [stripL_freshL ks (n+1)]
theorem stripL_freshL (ts : List Tree) (n : Nat) : stripL (freshL n ts).1 = stripL ts := by
  cases ts with
  | nil => simp [freshL, stripL]
  | cons t ts => simp only [freshL, stripL]; rw [strip_fresh t n, stripL_freshL ts _]
end

/-! ### membership in `idsL` -/

theorem mem_idsL {ts : List Tree} {x : Nat} : x ∈ idsL ts ↔ ∃ t ∈ ts, x ∈ t.ids := by
  induction ts with
  | nil => simp [idsL]
  | cons t ts ih => simp [idsL, ih]

theorem idsL_set {ks : List Tree} {k : Nat} {t : Tree} {x : Nat} (h : x ∈ idsL (ks.set k t)) :
    x ∈ idsL ks ∨ x ∈ t.ids := by
  rcases mem_idsL.mp h with ⟨u, hu, hx⟩
  rcases List.mem_or_eq_of_mem_set hu with hu | hu
  · exact Or.inl (mem_idsL.mpr ⟨u, hu, hx⟩)
  · subst hu; exact Or.inr hx

theorem idsL_append {ks : List Tree} {t : Tree} {x : Nat} (h : x ∈ idsL (ks ++ [t])) :
    x ∈ idsL ks ∨ x ∈ t.ids := by
  rcases mem_idsL.mp h with ⟨u, hu, hx⟩
  rcases List.mem_append.mp hu with hu | hu
  · exact Or.inl (mem_idsL.mpr ⟨u, hu, hx⟩)
  · simp at hu; subst hu; exact Or.inr hx

theorem at_ids : ∀ (p : List Nat) (t u : Tree), t.at p = some u → ∀ x ∈ u.ids, x ∈ t.ids
  | [], t, u, h, x, hx => by simp [Tree.at] at h; subst h; exact hx
  | k :: p, .imm v, u, h, x, hx => by simp [Tree.at] at h
  | k :: p, .obj id ks, u, h, x, hx => by
    simp only [Tree.at] at h
    split at h
    · rename_i c hc
      have := at_ids p c u h x hx
      simp only [Tree.ids, List.mem_cons]
      exact Or.inr (mem_idsL.mpr ⟨c, List.mem_of_getElem? hc, this⟩)
    · cases h

theorem root_mem {t : Tree} {r : Nat} (h : rootId t = some r) : r ∈ t.ids := by
  cases t with
  | imm v => simp [rootId] at h
  | obj id ks => simp [rootId] at h; subst h; simp [Tree.ids]

theorem kids_ids {t : Tree} {x : Nat} (h : x ∈ idsL (kidsOf t)) : x ∈ t.ids := by
  cases t with
  | imm v => simp [kidsOf, idsL] at h
  | obj id ks => simp [kidsOf] at h; simp [Tree.ids, h]

/-! ### in-place updates -/

mutual
theorem mapNode_of_not_mem (tgt : Nat) (f : List Tree → List Tree) (t : Tree) (h : tgt ∉ t.ids) :
    t.mapNode tgt f = t := by
  cases t with
  | imm v => simp [Tree.mapNode]
  | obj id ks =>
    simp only [Tree.ids, List.mem_cons, not_or] at h
    simp only [Tree.mapNode]
    rw [if_neg (fun e => h.1 e.symm), mapNodeL_of_not_mem tgt f ks h.2]
theorem mapNodeL_of_not_mem (tgt : Nat) (f : List Tree → List Tree) (ts : List Tree) (h : tgt ∉ idsL ts) :
    mapNodeL tgt f ts = ts := by
  cases ts with
  | nil => simp [mapNodeL]
  | cons t ts =>
    simp only [idsL, List.mem_append, not_or] at h
    simp only [mapNodeL]
    rw [mapNode_of_not_mem tgt f t h.1, mapNodeL_of_not_mem tgt f ts h.2]
end

mutual
theorem ids_mapNode (tgt : Nat) (f : List Tree → List Tree) (P : Nat → Prop)
    (hf : ∀ ks x, x ∈ idsL (f ks) → x ∈ idsL ks ∨ P x) (t : Tree) (x : Nat)
    (h : x ∈ (t.mapNode tgt f).ids) : x ∈ t.ids ∨ P x := by
  cases t with
  | imm v => simp [Tree.mapNode, Tree.ids] at h
  | obj id ks =>
    simp only [Tree.mapNode] at h
    split at h
    · simp only [Tree.ids, List.mem_cons] at h ⊢
      rcases h with h | h
      · exact Or.inl (Or.inl h)
      · rcases hf ks x h with h | h
        · exact Or.inl (Or.inr h)
        · exact Or.inr h
    · simp only [Tree.ids, List.mem_cons] at h ⊢
      rcases h with h | h
      · exact Or.inl (Or.inl h)
      · rcases ids_mapNodeL tgt f P hf ks x h with h | h
        · exact Or.inl (Or.inr h)
        · exact Or.inr h
theorem ids_mapNodeL (tgt : Nat) (f : List Tree → List Tree) (P : Nat → Prop)
    (hf : ∀ ks x, x ∈ idsL (f ks) → x ∈ idsL ks ∨ P x) (ts : List Tree) (x : Nat)
    (h : x ∈ idsL (mapNodeL tgt f ts)) : x ∈ idsL ts ∨ P x := by
  cases ts with
  | nil => simp [mapNodeL, idsL] at h
  | cons t ts =>
    simp only [mapNodeL, idsL, List.mem_append] at h ⊢
    rcases h with h | h
    · rcases ids_mapNode tgt f P hf t x h with h | h
      · exact Or.inl (Or.inl h)
      · exact Or.inr h
    · rcases ids_mapNodeL tgt f P hf ts x h with h | h
      · exact Or.inl (Or.inr h)
      · exact Or.inr h
end

theorem rootId_mapNode (tgt : Nat) (f : List Tree → List Tree) (t : Tree) :
    rootId (t.mapNode tgt f) = rootId t := by
  cases t with
  | imm v => simp [Tree.mapNode]
  | obj id ks => simp only [Tree.mapNode]; split <;> simp [rootId]

/-! ### construction from the table -/

theorem applyMode_le (D : List Tree) (n d : Nat) (m : Mode) : n ≤ (applyMode D n d m).2 := by
  cases m <;> simp only [applyMode] <;> first | exact Nat.le_refl _ | exact fresh_le _ _

theorem applyMode_ids (D : List Tree) (n d : Nat) (m : Mode) (hm : m.ok = true) (x : Nat)
    (h : x ∈ (applyMode D n d m).1.ids) : n ≤ x ∧ x < (applyMode D n d m).2 := by
  cases m with
  | imm v => simp [applyMode, Tree.ids] at h
  | fresh t => exact fresh_ids _ _ _ h
  | copyDefault => exact fresh_ids _ _ _ h
  | theDefault => simp [Mode.ok] at hm

theorem applyMode_strip (D : List Tree) (n n' d : Nat) (m : Mode) :
    (applyMode D n d m).1.strip = (applyMode D n' d m).1.strip := by
  cases m <;> simp only [applyMode, strip_fresh]

theorem buildProps_le (D : List Tree) : ∀ (ps : List PropE) (n : Nat), n ≤ (buildProps D n ps).2
  | [], n => by simp [buildProps]
  | p :: ps, n => by
    simp only [buildProps]
    have := applyMode_le D n p.desc p.ctor
    have := buildProps_le D ps (applyMode D n p.desc p.ctor).2
    omega

theorem buildProps_ids (D : List Tree) : ∀ (ps : List PropE) (n : Nat), (∀ p ∈ ps, p.ctor.ok = true) →
    ∀ x, x ∈ idsL (buildProps D n ps).1 → n ≤ x ∧ x < (buildProps D n ps).2
  | [], n, _, x, h => by simp [buildProps, idsL] at h
  | p :: ps, n, hok, x, h => by
    simp only [buildProps, idsL, List.mem_append] at h ⊢
    have h1 := applyMode_le D n p.desc p.ctor
    have h2 := buildProps_le D ps (applyMode D n p.desc p.ctor).2
    rcases h with h | h
    · have := applyMode_ids D n p.desc p.ctor (hok p (List.mem_cons_self ..)) x h; omega
    · have := buildProps_ids D ps _ (fun q hq => hok q (List.mem_cons_of_mem _ hq)) x h; omega

theorem buildProps_strip (D : List Tree) : ∀ (ps : List PropE) (n n' : Nat),
    stripL (buildProps D n ps).1 = stripL (buildProps D n' ps).1
  | [], n, n' => by simp [buildProps]
  | p :: ps, n, n' => by
    simp only [buildProps, stripL]
    rw [applyMode_strip D n n' p.desc p.ctor, buildProps_strip D ps _ (applyMode D n' p.desc p.ctor).2]

theorem tableOK_cls {T : Table} (hT : tableOK T = true) {c : Nat} {ce : ClsE} (h : T[c]? = some ce) :
    ce.ok = true := by
  simp only [tableOK, List.all_eq_true] at hT
  exact hT ce (List.mem_of_getElem? h)

theorem clsOK_props {ce : ClsE} (h : ce.ok = true) : ∀ p ∈ ce.props, p.ok = true := by
  simp only [ClsE.ok, Bool.and_eq_true, List.all_eq_true] at h
  exact h.1.1

theorem propOK {p : PropE} (h : p.ok = true) : p.ctor.ok = true ∧ p.absent.ok = true ∧ p.get.ok = true := by
  simp only [PropE.ok, Bool.and_eq_true] at h
  exact ⟨h.1.1, h.1.2, h.2⟩

theorem construct_fresh {T : Table} (hT : tableOK T = true) {D : List Tree} {n c : Nat} {t : Tree} {n' : Nat}
    (h : construct T D n c = some (t, n')) : n ≤ n' ∧ ∀ x ∈ t.ids, n ≤ x ∧ x < n' := by
  simp only [construct] at h
  split at h
  · cases h
  · rename_i ce hce
    simp only [Option.some.injEq, Prod.mk.injEq] at h
    obtain ⟨ht, hn⟩ := h
    subst ht; subst hn
    have hle := buildProps_le D ce.props (n+1)
    refine ⟨by omega, ?_⟩
    intro x hx
    simp only [Tree.ids, List.mem_cons] at hx
    rcases hx with hx | hx
    · omega
    · have := buildProps_ids D ce.props (n+1)
        (fun p hp => (propOK (clsOK_props (tableOK_cls hT hce) p hp)).1) x hx
      omega

theorem construct_strip (T : Table) (D : List Tree) (n n' c : Nat) :
    (construct T D n c).map (·.1.strip) = (construct T D n' c).map (·.1.strip) := by
  simp only [construct]
  split
  · rfl
  · simp only [Option.map_some, Tree.strip]
    rw [buildProps_strip D _ (n+1) (n'+1)]

/-! ### parsing -/

mutual
theorem build_le (T : Table) (D : List Tree) (n : Nat) (m : Mode) (d : Nat) (s : Shape) :
    n ≤ (s.build T D n m d).2 := by
  cases s with
  | absent => simp only [Shape.build]; exact applyMode_le ..
  | imm v => simp [Shape.build]
  | obj c kids => simp only [Shape.build]; have := buildKids_le T D (n+1) (propsOf T c) kids; omega
  | list kids => simp only [Shape.build]; have := buildItems_le T D (n+1) kids; omega
theorem buildKids_le (T : Table) (D : List Tree) (n : Nat) (ps : List PropE) (ks : List Shape) :
    n ≤ (buildKids T D n ps ks).2 := by
  cases ks with
  | nil => simp [buildKids]
  | cons k ks =>
    cases ps with
    | nil => simp [buildKids]
    | cons p ps =>
      simp only [buildKids]
      have := build_le T D n p.absent p.desc k
      have := buildKids_le T D (k.build T D n p.absent p.desc).2 ps ks
      omega
theorem buildItems_le (T : Table) (D : List Tree) (n : Nat) (ks : List Shape) :
    n ≤ (buildItems T D n ks).2 := by
  cases ks with
  | nil => simp [buildItems]
  | cons k ks =>
    simp only [buildItems]
    have := build_le T D n (.imm 0) 0 k
    have := buildItems_le T D (k.build T D n (.imm 0) 0).2 ks
    omega
end

mutual
theorem build_ids (T : Table) (hT : tableOK T = true) (D : List Tree) (n : Nat) (m : Mode) (hm : m.ok = true)
    (d : Nat) (s : Shape) (x : Nat) (h : x ∈ (s.build T D n m d).1.ids) :
    n ≤ x ∧ x < (s.build T D n m d).2 := by
  cases s with
  | absent => simp only [Shape.build] at h ⊢; exact applyMode_ids D n d m hm x h
  | imm v => simp [Shape.build, Tree.ids] at h
  | obj c kids =>
    simp only [Shape.build, Tree.ids, List.mem_cons] at h ⊢
    have hle := buildKids_le T D (n+1) (propsOf T c) kids
    rcases h with h | h
    · omega
    · have hp : ∀ p ∈ propsOf T c, p.absent.ok = true := by
        intro p hp
        unfold propsOf at hp
        split at hp
        · rename_i ce hce
          exact (propOK (clsOK_props (tableOK_cls hT hce) p hp)).2.1
        · cases hp
      have := buildKids_ids T hT D (n+1) _ hp kids x h
      omega
  | list kids =>
    simp only [Shape.build, Tree.ids, List.mem_cons] at h ⊢
    have hle := buildItems_le T D (n+1) kids
    rcases h with h | h
    · omega
    · have := buildItems_ids T hT D (n+1) kids x h; omega
theorem buildKids_ids (T : Table) (hT : tableOK T = true) (D : List Tree) (n : Nat) (ps : List PropE)
    (hp : ∀ p ∈ ps, p.absent.ok = true) (ks : List Shape) (x : Nat)
    (h : x ∈ idsL (buildKids T D n ps ks).1) : n ≤ x ∧ x < (buildKids T D n ps ks).2 := by
  cases ks with
  | nil => simp [buildKids, idsL] at h
  | cons k ks =>
    cases ps with
    | nil => simp [buildKids, idsL] at h
    | cons p ps =>
      simp only [buildKids, idsL, List.mem_append] at h ⊢
      have h1 := build_le T D n p.absent p.desc k
      have h2 := buildKids_le T D (k.build T D n p.absent p.desc).2 ps ks
      rcases h with h | h
      · have := build_ids T hT D n p.absent (hp p (List.mem_cons_self ..)) p.desc k x h; omega
      · have := buildKids_ids T hT D _ ps (fun q hq => hp q (List.mem_cons_of_mem _ hq)) ks x h; omega
theorem buildItems_ids (T : Table) (hT : tableOK T = true) (D : List Tree) (n : Nat) (ks : List Shape) (x : Nat)
    (h : x ∈ idsL (buildItems T D n ks).1) : n ≤ x ∧ x < (buildItems T D n ks).2 := by
  cases ks with
  | nil => simp [buildItems, idsL] at h
  | cons k ks =>
    simp only [buildItems, idsL, List.mem_append] at h ⊢
    have h1 := build_le T D n (.imm 0) 0 k
    have h2 := buildItems_le T D (k.build T D n (.imm 0) 0).2 ks
    rcases h with h | h
    · have := build_ids T hT D n (.imm 0) rfl 0 k x h; omega
    · have := buildItems_ids T hT D _ ks x h; omega
end

end Sdc.ObjGraph
