import SdcModel.Proofs.MdibLinkFacts
/-!
# `PFacts` ⇒ the 22 clauses of `reportsDescribe`
-/
set_option linter.unusedSimpArgs false
set_option linter.unusedSectionVars false
namespace Sdc.Mdib
open Sdc.Consumer

theorem keysNodup_iff {α : Type} (key : α → Nat) (l : List α) : keysNodup key l = true ↔ (l.map key).Nodup := by
  simp [keysNodup]

@[simp] theorem flat_mod (r : TxResult) (m : ModType) (d : Descr) : (mkDPart r m d).flat.mod = m := rfl
@[simp] theorem flat_descr (r : TxResult) (m : ModType) (d : Descr) : (mkDPart r m d).flat.descr = d := rfl
theorem flat_cstates (r : TxResult) (m : ModType) (d : Descr) :
    (mkDPart r m d).flat.cstates = r.ctx.filter (fun c => c.dh == d.handle) := rfl

section
variable {t t' : Mdib.Tables} {r : TxResult} (F : PFacts t t' r) (q : Nat) (i : Option Nat)

local notation "P" => absCore t q i
local notation "P'" => absCore t' q i
local notation "RS" => toReports t' (VersionGroup.mk t'.ver q i) r

include F

theorem cl_nonempty : (describeClauses P P' RS).nonempty = true := by
  simp only [describeClauses, Bool.not_eq_true', List.isEmpty_eq_false_iff]
  exact toReports_nonempty _ _ _ F.some_

theorem cl_vg : (describeClauses P P' RS).vg = true := by
  simp only [describeClauses, List.all_eq_true, beq_iff_eq]
  intro x hx; exact toReports_vg _ _ _ x hx

theorem cl_ids : (describeClauses P P' RS).ids = true := by
  simp [describeClauses, absCore, F.ver]

theorem cl_wf : (describeClauses P P' RS).wf = true := by
  simp only [describeClauses, Bool.and_eq_true, keysNodup_iff]
  exact ⟨⟨⟨⟨⟨F.wf.dKeys, F.wf.sKeys⟩, F.wf.cKeys⟩, F.wf'.dKeys⟩, F.wf'.sKeys⟩, F.wf'.cKeys⟩

theorem cl_partsDistinct : (describeClauses P P' RS).partsDistinct = true := by
  simp only [describeClauses, toReports_parts, keysNodup_iff, resParts_handles]
  exact F.partsDistinct

theorem cl_created : (describeClauses P P' RS).created = true := by
  simp only [describeClauses, toReports_parts, lookD, List.all_eq_true]
  intro p hp
  rcases mem_resParts.1 hp with ⟨d, hd, rfl⟩ | ⟨d, hd, rfl⟩ | ⟨d, hd, rfl⟩
  · simp
  · obtain ⟨a, b⟩ := F.created d hd; simp [a, b]
  · simp

theorem cl_updated : (describeClauses P P' RS).updated = true := by
  simp only [describeClauses, toReports_parts, lookD, List.all_eq_true]
  intro p hp
  rcases mem_resParts.1 hp with ⟨d, hd, rfl⟩ | ⟨d, hd, rfl⟩ | ⟨d, hd, rfl⟩
  · obtain ⟨old, a, b, c, e⟩ := F.updated d hd; simp [a, b, c, e]
  · simp
  · simp

theorem cl_deleted : (describeClauses P P' RS).deleted = true := by
  simp only [describeClauses, toReports_parts, lookD, List.all_eq_true]
  intro p hp
  rcases mem_resParts.1 hp with ⟨d, hd, rfl⟩ | ⟨d, hd, rfl⟩ | ⟨d, hd, rfl⟩
  · simp
  · simp
  · obtain ⟨a, b⟩ := F.deleted d hd; simp [a, b]

theorem cl_descrComplete : (describeClauses P P' RS).descrComplete = true := by
  simp only [describeClauses, toReports_parts, lookD, List.all_eq_true, Bool.or_eq_true, beq_iff_eq, List.any_eq_true,
    Bool.and_eq_true, bne_iff_ne, ne_eq]
  intro d hd
  rcases F.descrComplete d hd with a | a
  · exact .inl a
  · right
    simp only [List.map_append, List.mem_append, List.mem_map] at a
    rcases a with ⟨x, hx, e⟩ | ⟨x, hx, e⟩
    · exact ⟨_, mem_resParts.2 (.inl ⟨x, hx, rfl⟩), by simp, e⟩
    · exact ⟨_, mem_resParts.2 (.inr (.inl ⟨x, hx, rfl⟩)), by simp, e⟩

theorem cl_descrRemoved : (describeClauses P P' RS).descrRemoved = true := by
  simp only [describeClauses, toReports_parts, lookD, resParts_deleted, List.all_eq_true, Bool.or_eq_true, List.contains_eq_mem,
    decide_eq_true_eq]
  intro d hd; exact F.descrRemoved d hd

theorem cl_flat : (describeClauses P P' RS).flat = true := by
  simp only [describeClauses, toReports_parts]
  exact F.flat q i

theorem cl_stateSound : (describeClauses P P' RS).stateSound = true := by
  simp only [describeClauses, toReports_parts, lookS, List.all_eq_true, List.mem_append, beq_iff_eq]
  rintro s (hs | hs)
  · exact F.stateSound s ((toReports_states _ _ _ s).1 hs)
  · exact F.stateSound s ((partStates_sub r).1 s hs)

theorem cl_stateNewer : (describeClauses P P' RS).stateNewer = true := by
  simp only [describeClauses, toReports_parts, lookS, List.all_eq_true, List.mem_append]
  intro s hs
  have hs' : s ∈ r.allS := by
    rcases hs with hs | hs
    · exact (toReports_states _ _ _ s).1 hs
    · exact (partStates_sub r).1 s hs
  cases hf : findS t s.dh with
  | none => rfl
  | some old => simpa using F.stateNewer s hs' old hf

theorem cl_stateComplete : (describeClauses P P' RS).stateComplete = true := by
  simp only [describeClauses, lookS, List.all_eq_true, Bool.or_eq_true, beq_iff_eq, List.contains_eq_mem, decide_eq_true_eq]
  intro s hs
  rcases F.stateComplete s hs with a | a
  · exact .inl a
  · exact .inr ((toReports_states _ _ _ s).2 a)

theorem cl_stateRemoved : (describeClauses P P' RS).stateRemoved = true := by
  simp only [describeClauses, toReports_parts, lookS, resParts_deleted, List.all_eq_true, Bool.or_eq_true, List.contains_eq_mem,
    decide_eq_true_eq]
  intro s hs; exact F.stateRemoved s hs

theorem cl_deletedStatesGone : (describeClauses P P' RS).deletedStatesGone = true := by
  simp only [describeClauses, toReports_parts, lookS, resParts_deleted, List.all_eq_true, Bool.and_eq_true, Option.isNone_iff_eq_none,
    bne_iff_ne, ne_eq, List.mem_map]
  rintro h ⟨d, hd, rfl⟩
  have hnone := (F.deleted d hd).2
  have hnot : d.handle ∉ t'.descrs.map (·.handle) := (find_none_iff (fun x : Descr => x.handle)).1 hnone
  constructor
  · cases hf : findS t' d.handle with
    | none => rfl
    | some s =>
      obtain ⟨e, hs⟩ := findS_some hf
      obtain ⟨x, hx, e1, _⟩ := F.wf'.sRef s hs
      exact absurd (by rw [← e, ← e1]; exact List.mem_map_of_mem hx) hnot
  · intro c hc e
    obtain ⟨x, hx, e1, _⟩ := F.wf'.cRef c hc
    exact hnot (by rw [← e, ← e1]; exact List.mem_map_of_mem hx)

theorem cl_cstateSound : (describeClauses P P' RS).cstateSound = true := by
  simp only [describeClauses, toReports_parts, lookC, List.all_eq_true, List.mem_append, beq_iff_eq]
  rintro s (hs | hs)
  · exact F.cstateSound s ((toReports_ctx _ _ _ s).1 hs)
  · exact F.cstateSound s ((partStates_sub r).2 s hs)

theorem cl_cstateNewer : (describeClauses P P' RS).cstateNewer = true := by
  simp only [describeClauses, toReports_parts, lookC, List.all_eq_true, List.mem_append]
  intro s hs
  have hs' : s ∈ r.ctx := by
    rcases hs with hs | hs
    · exact (toReports_ctx _ _ _ s).1 hs
    · exact (partStates_sub r).2 s hs
  cases hf : findC t s.h with
  | none => rfl
  | some old => simpa using F.cstateNewer s hs' old hf

theorem cl_cstateComplete : (describeClauses P P' RS).cstateComplete = true := by
  simp only [describeClauses, lookC, List.all_eq_true, Bool.or_eq_true, beq_iff_eq, List.contains_eq_mem, decide_eq_true_eq]
  intro s hs
  rcases F.cstateComplete s hs with a | a
  · exact .inl a
  · exact .inr ((toReports_ctx _ _ _ s).2 a)

theorem cl_cstateRemoved : (describeClauses P P' RS).cstateRemoved = true := by
  simp only [describeClauses, toReports_parts, lookC, resParts_deleted, List.all_eq_true, Bool.or_eq_true, List.contains_eq_mem,
    decide_eq_true_eq]
  intro s hs; exact .inl (F.cstateRemoved s hs)

theorem cl_cstateStable : (describeClauses P P' RS).cstateStable = true := by
  simp only [describeClauses, lookC, List.all_eq_true]
  intro s hs
  cases hf : findC t s.h with
  | none => rfl
  | some old => simpa using F.cstateStable s hs old hf

theorem cl_ctxUpdateLists : (describeClauses P P' RS).ctxUpdateLists = true := by
  simp only [describeClauses, toReports_parts, List.all_eq_true]
  intro p hp
  rcases mem_resParts.1 hp with ⟨d, hd, rfl⟩ | ⟨d, hd, rfl⟩ | ⟨d, hd, rfl⟩
  · by_cases hk : d.kind = .context
    · simp only [flat_mod, flat_descr, hk, beq_self_eq_true, Bool.and_self, Bool.not_true, Bool.false_or, List.all_eq_true,
        Bool.or_eq_true, bne_iff_ne, ne_eq, List.any_eq_true, Bool.and_eq_true, beq_iff_eq]
      intro c hc
      by_cases e : c.dh = d.handle
      · right
        obtain ⟨x, hx, e1, e2⟩ := F.ctxUpdateLists d hd hk c (List.mem_append_right _ hc) e
        exact ⟨x, by rw [flat_cstates]; exact List.mem_filter.2 ⟨hx, by simpa using e2⟩, e1, e2⟩
      · exact .inl e
    · simp [hk]
  · simp
  · simp

theorem describe_of_facts : ReportsDescribe P P' RS := by
  unfold ReportsDescribe reportsDescribe DescribeClauses.all
  rw [cl_nonempty F q i, cl_vg F q i, cl_ids F q i, cl_wf F q i, cl_partsDistinct F q i, cl_created F q i, cl_updated F q i,
    cl_deleted F q i, cl_descrComplete F q i, cl_descrRemoved F q i, cl_flat F q i, cl_stateSound F q i, cl_stateNewer F q i,
    cl_stateComplete F q i, cl_stateRemoved F q i, cl_deletedStatesGone F q i, cl_cstateSound F q i, cl_cstateNewer F q i,
    cl_cstateComplete F q i, cl_cstateRemoved F q i, cl_cstateStable F q i, cl_ctxUpdateLists F q i]
  rfl

end

end Sdc.Mdib
