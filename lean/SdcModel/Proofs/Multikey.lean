import SdcModel.Multikey
/-!
Helper lemmas for C11 (`Properties/C11.lean`): what the primitive table operations do to every index list,
and the invariants they preserve. Core Lean only.
-/
namespace Sdc.Multikey

/-! ### primitive steps -/

@[simp] theorem append_objs (t : Table) (i k o) : (t.append i k o).objs = t.objs := rfl
@[simp] theorem append_refs (t : Table) (i k o) : (t.append i k o).refs = t.refs := rfl
@[simp] theorem rmKey_objs (t : Table) (i k o) : (t.rmKey i k o).objs = t.objs := rfl
@[simp] theorem rmKey_refs (t : Table) (i k o) : (t.rmKey i k o).refs = t.refs := rfl
@[simp] theorem setRefs_objs (t : Table) (o r) : (t.setRefs o r).objs = t.objs := rfl
@[simp] theorem setRefs_idx (t : Table) (o r) : (t.setRefs o r).idx = t.idx := rfl

theorem count_pair_cons (i0 : Nat) (k0 : Key) (rest : List (Nat × Key)) (i : Nat) (k : Key) :
    ((i0, k0) :: rest).count (i, k) = rest.count (i, k) + if i = i0 ∧ k = k0 then 1 else 0 := by
  rw [List.count_cons]
  by_cases h : i = i0 ∧ k = k0
  · obtain ⟨rfl, rfl⟩ := h; simp
  · have : ((i0, k0) == (i, k)) = false := by
      simp only [beq_eq_false_iff_ne, ne_eq, Prod.mk.injEq]
      intro ⟨a, b⟩; exact h ⟨a.symm, b.symm⟩
    simp [this, h]

theorem appendAll_spec (o : ObjId) : ∀ (refs : List (Nat × Key)) (t : Table),
    (appendAll t o refs).objs = t.objs ∧ (appendAll t o refs).refs = t.refs ∧
    ∀ i k, (appendAll t o refs).idx i k = t.idx i k ++ List.replicate (refs.count (i, k)) o := by
  intro refs
  induction refs with
  | nil => intro t; simp [appendAll]
  | cons ik rest ih =>
    intro t
    obtain ⟨i0, k0⟩ := ik
    have h := ih (t.append i0 k0 o)
    simp only [appendAll, List.foldl_cons] at h ⊢
    refine ⟨h.1, h.2.1, ?_⟩
    intro i k
    rw [h.2.2 i k, count_pair_cons]
    by_cases hc : i = i0 ∧ k = k0
    · simp only [Table.append, hc, and_self, if_true, List.append_assoc]
      congr 1
    · simp [Table.append, hc]

theorem rmAll_fields (o : ObjId) : ∀ (refs : List (Nat × Key)) (t : Table),
    (rmAll t o refs).objs = t.objs ∧ (rmAll t o refs).refs = t.refs := by
  intro refs
  induction refs with
  | nil => intro t; simp [rmAll]
  | cons ik rest ih =>
    intro t
    have h := ih (t.rmKey ik.1 ik.2 o)
    simp only [rmAll, List.foldl_cons] at h ⊢
    exact ⟨h.1, h.2⟩

/-- roll-back: removing what was appended gives back the lists as they were (needs: `o` was in none of them) -/
theorem rmAll_restores (o : ObjId) (base : Nat → Key → List ObjId) (hb : ∀ i k, o ∉ base i k) :
    ∀ (refs : List (Nat × Key)) (t : Table),
    (∀ i k, t.idx i k = base i k ++ List.replicate (refs.count (i, k)) o) →
    ∀ i k, (rmAll t o refs).idx i k = base i k := by
  intro refs
  induction refs with
  | nil => intro t h i k; simpa [rmAll] using h i k
  | cons ik rest ih =>
    intro t h i k
    obtain ⟨i0, k0⟩ := ik
    simp only [rmAll, List.foldl_cons]
    apply ih (t.rmKey i0 k0 o)
    intro i k
    have hik := h i k
    rw [count_pair_cons] at hik
    by_cases hc : i = i0 ∧ k = k0
    · simp only [Table.rmKey, hc, and_self, if_true]
      obtain ⟨rfl, rfl⟩ := hc
      simp only [and_self, if_true] at hik
      rw [hik, List.erase_append_right _ (hb i k), List.replicate_succ, List.erase_cons_head]
    · simp only [hc, if_false, Nat.add_zero] at hik
      simp [Table.rmKey, hc, hik]

/-- `_rm_indices`: every recorded reference removes one occurrence -/
theorem rmAll_count (o : ObjId) : ∀ (refs : List (Nat × Key)) (t : Table) (i : Nat) (k : Key) (o' : ObjId),
    ((rmAll t o refs).idx i k).count o' = (t.idx i k).count o' - if o' = o then refs.count (i, k) else 0 := by
  intro refs
  induction refs with
  | nil => intro t i k o'; simp [rmAll]
  | cons ik rest ih =>
    intro t i k o'
    obtain ⟨i0, k0⟩ := ik
    simp only [rmAll, List.foldl_cons]
    have h := ih (t.rmKey i0 k0 o) i k o'
    simp only [rmAll] at h
    rw [h, count_pair_cons]
    by_cases hc : i = i0 ∧ k = k0
    · simp only [Table.rmKey, hc, and_self, if_true, List.count_erase]
      by_cases ho : o' = o
      · subst ho; simp; omega
      · have : (o == o') = false := by simp; exact fun e => ho e.symm
        simp [ho, this]
    · simp [Table.rmKey, hc]

theorem rmAll_length_le (o : ObjId) : ∀ (refs : List (Nat × Key)) (t : Table) (i : Nat) (k : Key),
    ((rmAll t o refs).idx i k).length ≤ (t.idx i k).length := by
  intro refs
  induction refs with
  | nil => intro t i k; simp [rmAll]
  | cons ik rest ih =>
    intro t i k
    simp only [rmAll, List.foldl_cons]
    have h := ih (t.rmKey ik.1 ik.2 o) i k
    simp only [rmAll] at h
    refine Nat.le_trans h ?_
    simp only [Table.rmKey]
    split
    · exact List.erase_sublist.length_le
    · exact Nat.le_refl _

theorem Table.ext' {t t' : Table} (h1 : t.objs = t'.objs) (h2 : ∀ i k, t.idx i k = t'.idx i k)
    (h3 : ∀ o, t.refs o = t'.refs o) : t = t' := by
  cases t; cases t'
  simp only [Table.mk.injEq] at *
  exact ⟨h1, funext fun i => funext fun k => h2 i k, funext h3⟩

/-! ### `mk_keys`, the loop of `_mk_indices` -/

theorem resolve_many_oneN {d : IdxDef} {r : KeyRes} {ks : List Key} (h : resolve d r = .many ks) : d.kind = .oneN := by
  cases r <;> simp only [resolve] at h <;> (try split at h) <;> (try split at h) <;> simp_all

theorem count_map_pair (i : Nat) (ks : List Key) (i' : Nat) (k' : Key) :
    (ks.map (fun k => (i, k))).count (i', k') = if i' = i then ks.count k' else 0 := by
  induction ks with
  | nil => simp
  | cons k ks ih =>
    rw [List.map_cons, count_pair_cons, ih, List.count_cons]
    by_cases h : i' = i
    · by_cases hk : k' = k
      · subst hk; simp [h]
      · have : (k == k') = false := by simp; exact fun e => hk e.symm
        simp [h, hk, this]
    · simp [h]

theorem isUnique_of_get {defs : List IdxDef} {i : Nat} {d : IdxDef} (h : defs[i]? = some d) :
    isUnique defs i = true ↔ d.kind = .unique := by
  simp [isUnique, h]

theorem mkKeys_ok {d : IdxDef} {t t' : Table} {i : Nat} {o : ObjId} {r : KeyRes} {ks : List Key}
    (h : mkKeys d t i o r = .ok (t', ks)) :
    ks = keysOfRes d r ∧ t'.objs = t.objs ∧ t'.refs = t.refs ∧
    (∀ i' k', t'.idx i' k' = t.idx i' k' ++ List.replicate ((ks.map (fun k => (i, k))).count (i', k')) o) ∧
    (d.kind = .unique → ∀ k', (t.idx i k').length ≤ 1 → (t'.idx i k').length ≤ 1) := by
  unfold mkKeys at h
  unfold keysOfRes
  split at h
  · -- skip
    rename_i hr
    injection h with h; injection h with h1 h2; subst h1; subst h2
    simp [hr]
  · cases h
  · rename_i k hr
    have hone : ∀ (t2 : Table), t2 = t.append i k o →
        (∀ i' k', t2.idx i' k' = t.idx i' k' ++ List.replicate (([k].map (fun k => (i, k))).count (i', k')) o) := by
      intro t2 e i' k'
      subst e
      rw [count_map_pair]
      by_cases hc : i' = i ∧ k' = k
      · obtain ⟨rfl, rfl⟩ := hc; simp [Table.append]
      · simp only [Table.append, hc, if_false]
        by_cases hi : i' = i
        · have : ¬ k' = k := fun e => hc ⟨hi, e⟩
          have hb : (k == k') = false := by simp; exact fun e => this e.symm
          simp [hi, List.count_cons, hb]
        · simp [hi]
    split at h
    · rename_i hu
      split at h
      · cases h
      · rename_i hempty
        injection h with h; injection h with h1 h2; subst h1; subst h2
        refine ⟨by simp [hr], rfl, rfl, hone _ rfl, ?_⟩
        intro _ k' hle
        by_cases hk : k' = k
        · subst hk
          have : t.idx i k' = [] := by simpa using hempty
          simp [Table.append, this]
        · simpa [Table.append, hk] using hle
    · rename_i hu
      injection h with h; injection h with h1 h2; subst h1; subst h2
      exact ⟨by simp [hr], rfl, rfl, hone _ rfl, fun hk => absurd hk hu⟩
  · rename_i ks' hr
    injection h with h; injection h with h1 h2; subst h1; subst h2
    have hs := appendAll_spec o (ks'.map (fun k => (i, k))) t
    refine ⟨by simp [hr], hs.1, hs.2.1, hs.2.2, ?_⟩
    intro hu
    rw [resolve_many_oneN hr] at hu
    cases hu

theorem allKeysFrom_out (defs : List IdxDef) (rs : List KeyRes) : ∀ n i, defs.length ≤ i → allKeysFrom defs rs n i = [] := by
  intro n
  induction n with
  | zero => intro i _; rfl
  | succ n ih =>
    intro i hi
    have : defs[i]? = none := List.getElem?_eq_none hi
    simp [allKeysFrom, keysOf, this, ih (i+1) (by omega)]

theorem mkLoop_spec (defs : List IdxDef) (o : ObjId) (rs : List KeyRes) : ∀ (n i : Nat) (t : Table),
    (mkLoop defs o rs n i t).1.objs = t.objs ∧ (mkLoop defs o rs n i t).1.refs = t.refs ∧
    (∀ i' k', (mkLoop defs o rs n i t).1.idx i' k' =
        t.idx i' k' ++ List.replicate ((mkLoop defs o rs n i t).2.1.count (i', k')) o) ∧
    ((mkLoop defs o rs n i t).2.2 = none → (mkLoop defs o rs n i t).2.1 = allKeysFrom defs rs n i) ∧
    ((∀ i' k', isUnique defs i' = true → (t.idx i' k').length ≤ 1) →
      ∀ i' k', isUnique defs i' = true → ((mkLoop defs o rs n i t).1.idx i' k').length ≤ 1) := by
  intro n
  induction n with
  | zero => intro i t; simp [mkLoop, allKeysFrom]
  | succ n ih =>
    intro i t
    unfold mkLoop
    split
    · rename_i hnone
      have hi : defs.length ≤ i := by
        rcases Nat.lt_or_ge i defs.length with h | h
        · rw [List.getElem?_eq_getElem h] at hnone; cases hnone
        · exact h
      simp [allKeysFrom_out defs rs (n+1) i hi]
    · rename_i d hd
      split
      · -- error
        simp
      · rename_i t' ks hk
        obtain ⟨hks, ho, hr, hidx, hun⟩ := mkKeys_ok hk
        obtain ⟨io, ir, iidx, iall, iun⟩ := ih (i+1) t'
        refine ⟨by simp [io, ho], by simp [ir, hr], ?_, ?_, ?_⟩
        · intro i' k'
          simp only [iidx i' k', hidx i' k', List.count_append, List.append_assoc, List.replicate_append_replicate]
        · intro he
          simp only at he
          simp only [allKeysFrom, iall he, keysOf, hd, hks]
        · intro hu i' k' hi'
          apply iun _ i' k' hi'
          intro i2 k2 h2
          by_cases e : i2 = i
          · subst e
            exact hun ((isUnique_of_get hd).mp h2) k2 (hu _ k2 h2)
          · rw [hidx i2 k2, count_map_pair]
            simpa [e] using hu i2 k2 h2

/-! ### `_mk_indices` with roll-back -/

theorem mkIndices_ok {defs : List IdxDef} {t t' : Table} {o : ObjId} {rs : List KeyRes}
    (h : mkIndices defs t o rs = (t', none)) :
    t'.objs = t.objs ∧
    (∀ i k, t'.idx i k = t.idx i k ++ List.replicate ((allKeys defs rs).count (i, k)) o) ∧
    (∀ o', t'.refs o' = if o' = o then some ((t.refs o).getD [] ++ allKeys defs rs) else t.refs o') ∧
    ((∀ i k, isUnique defs i = true → (t.idx i k).length ≤ 1) →
      ∀ i k, isUnique defs i = true → (t'.idx i k).length ≤ 1) := by
  unfold mkIndices at h
  have spec := mkLoop_spec defs o rs defs.length 0 t
  generalize mkLoop defs o rs defs.length 0 t = r at h spec
  obtain ⟨t1, refs, e⟩ := r
  cases e with
  | some e => simp at h
  | none =>
    simp only [Prod.mk.injEq, and_true] at h
    subst h
    obtain ⟨ho, hr, hidx, hall, hun⟩ := spec
    simp only at ho hr hidx hall hun
    have hall := hall trivial
    subst hall
    refine ⟨ho, hidx, ?_, hun⟩
    intro o'
    simp [Table.setRefs, hr, allKeys]

theorem mkIndices_err {defs : List IdxDef} {t t' : Table} {o : ObjId} {rs : List KeyRes} {e : Err}
    (hno : ∀ i k, o ∉ t.idx i k) (h : mkIndices defs t o rs = (t', some e)) : t' = t := by
  unfold mkIndices at h
  have spec := mkLoop_spec defs o rs defs.length 0 t
  generalize mkLoop defs o rs defs.length 0 t = r at h spec
  obtain ⟨t1, refs, e'⟩ := r
  cases e' with
  | none => simp at h
  | some e' =>
    simp only [Prod.mk.injEq] at h
    obtain ⟨h, _⟩ := h
    subst h
    obtain ⟨ho, hr, hidx, _, _⟩ := spec
    simp only at ho hr hidx
    have hf := rmAll_fields o refs t1
    apply Table.ext'
    · rw [hf.1, ho]
    · exact rmAll_restores o t.idx hno refs t1 hidx
    · intro o'; rw [hf.2, hr]

/-! ### the table invariant -/

structure TInv (defs : List IdxDef) (t : Table) : Prop where
  /-- every index list holds exactly the recorded references of the stored objects, with multiplicity -/
  count_eq : ∀ i k o, (t.idx i k).count o = if o ∈ t.objs then ((t.refs o).getD []).count (i, k) else 0
  /-- `_object_ids` has an entry exactly for the stored objects -/
  refs_none : ∀ o, t.refs o = none ↔ o ∉ t.objs
  objsNodup : t.objs.Nodup
  uniq : ∀ i k, isUnique defs i = true → (t.idx i k).length ≤ 1

theorem tinv_empty (defs : List IdxDef) : TInv defs Table.empty := by
  constructor <;> simp [Table.empty]

theorem TInv.not_mem_idx {defs : List IdxDef} {t : Table} (h : TInv defs t) {o : ObjId} (ho : o ∉ t.objs) :
    ∀ i k, o ∉ t.idx i k := by
  intro i k
  have := h.count_eq i k o
  simp only [ho, if_false] at this
  exact List.count_eq_zero.mp this

theorem count_replicate_obj (n : Nat) (o o' : ObjId) :
    (List.replicate n o).count o' = if o' = o then n else 0 := by
  rw [List.count_replicate]
  by_cases h : o' = o
  · subst h; simp
  · have : (o == o') = false := by simp; exact fun e => h e.symm
    simp [h, this]

/-- filing a member `o` that currently has no references and occurs in no list -/
theorem tinv_file {defs : List IdxDef} {t t' : Table} {o : ObjId} {ks : List (Nat × Key)}
    (hm : o ∈ t.objs) (hnd : t.objs.Nodup)
    (hcnt : ∀ i k o', o' ≠ o → (t.idx i k).count o' = if o' ∈ t.objs then ((t.refs o').getD []).count (i, k) else 0)
    (hzero : ∀ i k, (t.idx i k).count o = 0)
    (hrn : ∀ o', o' ≠ o → (t.refs o' = none ↔ o' ∉ t.objs))
    (ho : t'.objs = t.objs)
    (hidx : ∀ i k, t'.idx i k = t.idx i k ++ List.replicate (ks.count (i, k)) o)
    (hrefs : ∀ o', t'.refs o' = if o' = o then some ks else t.refs o')
    (hun : ∀ i k, isUnique defs i = true → (t'.idx i k).length ≤ 1) : TInv defs t' := by
  constructor
  · intro i k o'
    rw [hidx, List.count_append, count_replicate_obj, hrefs, ho]
    by_cases e : o' = o
    · subst e; simp [hm, hzero]
    · simp [e, hcnt i k o' e]
  · intro o'
    rw [hrefs, ho]
    by_cases e : o' = o
    · subst e; simp [hm]
    · simp [e, hrn o' e]
  · rw [ho]; exact hnd
  · exact hun

theorem erase_append_self (l : List ObjId) (o : ObjId) (h : o ∉ l) : (l ++ [o]).erase o = l := by
  rw [List.erase_append_right _ h]; simp

/-- `add_object`: accepted ⇒ invariant, `o` filed under exactly its keys; rejected ⇒ the table is unchanged -/
theorem add_spec {defs : List IdxDef} {t : Table} (h : TInv defs t) (o : ObjId) (rs : List KeyRes) :
    ((add defs t o rs).2 = none → TInv defs (add defs t o rs).1 ∧
        (o ∉ t.objs → (add defs t o rs).1.refs o = some (allKeys defs rs)) ∧
        (∀ o', o' ∈ (add defs t o rs).1.objs ↔ o' ∈ t.objs ∨ o' = o) ∧
        (∀ o', o' ≠ o → (add defs t o rs).1.refs o' = t.refs o')) ∧
    (∀ e, (add defs t o rs).2 = some e → (add defs t o rs).1 = t) := by
  unfold add
  split
  · rename_i hm
    refine ⟨fun _ => ⟨h, fun hn => absurd hm hn, ?_, fun _ _ => rfl⟩, fun e he => by cases he⟩
    intro o'; constructor
    · exact Or.inl
    · rintro (h1 | h1); exact h1; exact h1 ▸ hm
  · rename_i hno
    unfold addNew
    have hno1 : ∀ i k, o ∉ ({ t with objs := t.objs ++ [o] } : Table).idx i k := h.not_mem_idx hno
    have hrefo : t.refs o = none := (h.refs_none o).mpr hno
    generalize hr : mkIndices defs { t with objs := t.objs ++ [o] } o rs = r
    obtain ⟨t2, e⟩ := r
    cases e with
    | none =>
      obtain ⟨ho, hidx, hrefs, hun⟩ := mkIndices_ok hr
      simp only [hrefo, Option.getD_none, List.nil_append] at hrefs
      refine ⟨fun _ => ⟨?_, ?_, ?_, ?_⟩, fun e he => by cases he⟩
      · apply tinv_file (t := { t with objs := t.objs ++ [o] }) (o := o) (ks := allKeys defs rs)
        · simp
        · simp only
          rw [List.nodup_append]
          refine ⟨h.objsNodup, by simp, ?_⟩
          intro a ha b hb
          simp at hb; subst hb
          intro e; subst e; exact hno ha
        · intro i k o' hne
          simp only [List.mem_append, List.mem_singleton, hne, or_false]
          exact h.count_eq i k o'
        · intro i k
          exact List.count_eq_zero.mpr (hno1 i k)
        · intro o' hne
          simp only [List.mem_append, List.mem_singleton, hne, or_false]
          exact h.refs_none o'
        · exact ho
        · exact hidx
        · exact hrefs
        · exact hun h.uniq
      · intro _; simp [hrefs]
      · intro o'; simp only [ho, List.mem_append, List.mem_singleton]
      · intro o' hne; simp [hrefs, hne]
    | some e =>
      have := mkIndices_err hno1 hr
      subst this
      refine ⟨fun he => (by cases he), fun e' _ => ?_⟩
      simp only [erase_append_self _ _ hno]

theorem TInv.mem_of_refs {defs : List IdxDef} {t : Table} (h : TInv defs t) {o : ObjId} {old : List (Nat × Key)}
    (hr : t.refs o = some old) : o ∈ t.objs := by
  apply Decidable.byContradiction
  intro hn
  have := (h.refs_none o).mpr hn
  rw [hr] at this; cases this

theorem rmIndices_spec {defs : List IdxDef} {t : Table} (h : TInv defs t) {o : ObjId} {old : List (Nat × Key)}
    (hr : t.refs o = some old) :
    (rmIndices t o).objs = t.objs ∧
    (∀ o', (rmIndices t o).refs o' = if o' = o then none else t.refs o') ∧
    (∀ i k o', ((rmIndices t o).idx i k).count o' = if o' = o then 0 else (t.idx i k).count o') ∧
    (∀ i k, ((rmIndices t o).idx i k).length ≤ (t.idx i k).length) := by
  have hm := h.mem_of_refs hr
  have hf := rmAll_fields o old t
  simp only [rmIndices, hr, Option.getD_some]
  refine ⟨by simp [hf.1], ?_, ?_, ?_⟩
  · intro o'; simp [Table.setRefs, hf.2]
  · intro i k o'
    simp only [setRefs_idx, rmAll_count]
    by_cases e : o' = o
    · subst e
      have := h.count_eq i k o'
      simp only [hm, if_true, hr, Option.getD_some] at this
      simp [this]
    · simp [e]
  · intro i k
    simp only [setRefs_idx]
    exact rmAll_length_le o old t i k

/-- `remove_object`: never raises on a consistent table; unknown object ⇒ no-op -/
theorem remove_spec {defs : List IdxDef} {t : Table} (h : TInv defs t) (o : ObjId) :
    (remove t o).2 = none ∧ TInv defs (remove t o).1 ∧
    (∀ o', o' ∈ (remove t o).1.objs ↔ o' ∈ t.objs ∧ o' ≠ o) ∧
    (∀ o', o' ≠ o → (remove t o).1.refs o' = t.refs o') ∧
    (o ∉ t.objs → (remove t o).1 = t) := by
  unfold remove
  split
  · rename_i hr
    have hn := (h.refs_none o).mp hr
    refine ⟨rfl, h, ?_, fun _ _ => rfl, fun _ => rfl⟩
    intro o'; constructor
    · intro hm; exact ⟨hm, fun e => hn (e ▸ hm)⟩
    · exact fun hm => hm.1
  · rename_i old hr
    have hm := h.mem_of_refs hr
    obtain ⟨ho, hrefs, hcnt, hlen⟩ := rmIndices_spec h hr
    have hm' : o ∈ (rmIndices t o).objs := ho ▸ hm
    rw [if_pos hm']
    simp only [ho]
    refine ⟨trivial, ?_, ?_, ?_, fun hn => absurd hm hn⟩
    · constructor
      · intro i k o'
        simp only [hcnt, hrefs, h.objsNodup.mem_erase_iff]
        by_cases e : o' = o
        · simp [e]
        · simp [e, h.count_eq i k o']
      · intro o'
        simp only [hrefs, h.objsNodup.mem_erase_iff]
        by_cases e : o' = o
        · simp [e]
        · simp [e, h.refs_none o']
      · exact h.objsNodup.erase o
      · intro i k hu
        exact Nat.le_trans (hlen i k) (h.uniq i k hu)
    · intro o'
      simp only [h.objsNodup.mem_erase_iff]
      exact ⟨fun ⟨a, b⟩ => ⟨b, a⟩, fun ⟨a, b⟩ => ⟨b, a⟩⟩
    · intro o' hne; simp [hrefs, hne]

/-- `update_object` -/
theorem update_spec {defs : List IdxDef} {t : Table} (h : TInv defs t) (o : ObjId) (rs : List KeyRes) :
    ((update defs t o rs).2 = none → TInv defs (update defs t o rs).1 ∧ o ∈ t.objs ∧
        (update defs t o rs).1.objs = t.objs ∧
        (update defs t o rs).1.refs o = some (allKeys defs rs) ∧
        (∀ o', o' ≠ o → (update defs t o rs).1.refs o' = t.refs o')) ∧
    (∀ e, (update defs t o rs).2 = some e → TInv defs (update defs t o rs).1 ∧
        (update defs t o rs).1.objs = t.objs ∧
        (∀ o', (update defs t o rs).1.refs o' = t.refs o') ∧
        (∀ i k, ((update defs t o rs).1.idx i k).Perm (t.idx i k))) ∧
    (o ∉ t.objs → update defs t o rs = (t, some .valueError)) := by
  unfold update
  split
  · rename_i hn
    exact ⟨fun he => (by cases he), fun e _ => ⟨h, rfl, fun _ => rfl, fun _ _ => List.Perm.refl _⟩, fun _ => rfl⟩
  · rename_i hm
    have hm : o ∈ t.objs := Decidable.not_not.mp hm
    split
    · rename_i hr
      exact absurd hm ((h.refs_none o).mp hr)
    · rename_i old hr
      obtain ⟨ho1, hrefs1, hcnt1, hlen1⟩ := rmIndices_spec h hr
      have hno1 : ∀ i k, o ∉ (rmIndices t o).idx i k := by
        intro i k
        apply List.count_eq_zero.mp
        simp [hcnt1]
      generalize hmk : mkIndices defs (rmIndices t o) o rs = r
      obtain ⟨t2, e⟩ := r
      cases e with
      | none =>
        obtain ⟨ho, hidx, hrefs, hun⟩ := mkIndices_ok hmk
        have hro : (rmIndices t o).refs o = none := by simp [hrefs1]
        simp only [hro, Option.getD_none, List.nil_append] at hrefs
        refine ⟨fun _ => ⟨?_, hm, by simp [ho, ho1], by simp [hrefs], ?_⟩, fun e he => (by cases he),
          fun hn => absurd hm hn⟩
        · apply tinv_file (t := rmIndices t o) (o := o) (ks := allKeys defs rs)
          · rw [ho1]; exact hm
          · rw [ho1]; exact h.objsNodup
          · intro i k o' hne
            simp only [hcnt1, hne, if_false, ho1, hrefs1]
            exact h.count_eq i k o'
          · intro i k; simp [hcnt1]
          · intro o' hne
            simp only [hrefs1, hne, if_false, ho1]
            exact h.refs_none o'
          · exact ho
          · exact hidx
          · exact hrefs
          · exact hun (fun i k hu => Nat.le_trans (hlen1 i k) (h.uniq i k hu))
        · intro o' hne; simp [hrefs, hne, hrefs1]
      | some e =>
        have := mkIndices_err hno1 hmk
        subst this
        have hs := appendAll_spec o old (rmIndices t o)
        have hcnt : ∀ i k o', (((appendAll (rmIndices t o) o old).setRefs o (some old)).idx i k).count o'
            = (t.idx i k).count o' := by
          intro i k o'
          simp only [setRefs_idx, hs.2.2, List.count_append, hcnt1, count_replicate_obj]
          by_cases e' : o' = o
          · subst e'
            have := h.count_eq i k o'
            simp only [hm, if_true, hr, Option.getD_some] at this
            simp [this]
          · simp [e']
        have hperm : ∀ i k, (((appendAll (rmIndices t o) o old).setRefs o (some old)).idx i k).Perm (t.idx i k) :=
          fun i k => List.perm_iff_count.mpr (hcnt i k)
        have hobjs : ((appendAll (rmIndices t o) o old).setRefs o (some old)).objs = t.objs := by
          simp [hs.1, ho1]
        have hrefs : ∀ o', ((appendAll (rmIndices t o) o old).setRefs o (some old)).refs o' = t.refs o' := by
          intro o'
          simp only [Table.setRefs, hs.2.1, hrefs1]
          by_cases e' : o' = o
          · simp [e', hr]
          · simp [e']
        refine ⟨fun he => (by cases he), fun e' _ => ⟨?_, hobjs, hrefs, hperm⟩, fun hn => absurd hm hn⟩
        constructor
        · intro i k o'
          rw [hcnt, hobjs, hrefs]; exact h.count_eq i k o'
        · intro o'; rw [hobjs, hrefs]; exact h.refs_none o'
        · rw [hobjs]; exact h.objsNodup
        · intro i k hu
          rw [(hperm i k).length_eq]; exact h.uniq i k hu

/-! ### references recorded = keys a scan computes -/

theorem allKeysFrom_count (defs : List IdxDef) (rs : List KeyRes) (i : Nat) (k : Key) : ∀ n i0,
    (allKeysFrom defs rs n i0).count (i, k) = if i0 ≤ i ∧ i < i0 + n then (keysOf defs i rs).count k else 0 := by
  intro n
  induction n with
  | zero => intro i0; simp [allKeysFrom]; omega
  | succ n ih =>
    intro i0
    simp only [allKeysFrom, List.count_append, count_map_pair, ih]
    by_cases h : i = i0
    · subst h
      have : ¬ (i + 1 ≤ i ∧ i < i + 1 + n) := by omega
      simp [this]
    · by_cases h2 : i0 ≤ i ∧ i < i0 + (n + 1)
      · have : i0 + 1 ≤ i ∧ i < i0 + 1 + n := by omega
        simp [h, h2, this]
      · have : ¬ (i0 + 1 ≤ i ∧ i < i0 + 1 + n) := by omega
        simp [h, h2, this]

theorem allKeys_count (defs : List IdxDef) (rs : List KeyRes) (i : Nat) (k : Key) :
    (allKeys defs rs).count (i, k) = (keysOf defs i rs).count k := by
  simp only [allKeys, allKeysFrom_count, Nat.zero_le, true_and, Nat.zero_add]
  split
  · rfl
  · rename_i h
    have : defs[i]? = none := List.getElem?_eq_none (by omega)
    simp [keysOf, this]

/-! ### objects + table -/

structure Consistent (defs : List IdxDef) (w : World) : Prop where
  tinv : TInv defs w.tab
  /-- the `_object_ids` entry of a stored object is the key list of its last (re-)indexing -/
  refs_snap : ∀ o, o ∈ w.tab.objs → w.tab.refs o = some (allKeys defs (w.snap o))
  /-- no attribute write since the last (re-)indexing ⇒ that key list is the current one -/
  fresh : ∀ o, o ∈ w.tab.objs → w.pending o = false → ∀ i, keyResAt (w.snap o) i = keyResAt (w.cur o) i

theorem consistent_init (defs : List IdxDef) : Consistent defs World.init := by
  constructor
  · exact tinv_empty defs
  · intro o h; simp [World.init, Table.empty] at h
  · intro o h; simp [World.init, Table.empty] at h

theorem stepAdd_consistent {defs : List IdxDef} {w : World} (h : Consistent defs w) (o : ObjId) :
    Consistent defs (stepAdd defs w o).1 := by
  unfold stepAdd
  split
  · exact h
  · rename_i hno
    have hs := add_spec h.tinv o (w.cur o)
    generalize add defs w.tab o (w.cur o) = r at hs
    obtain ⟨t, e⟩ := r
    cases e with
    | none =>
      obtain ⟨hti, hro, hmem, hoth⟩ := hs.1 rfl
      simp only at hti hro hmem hoth
      constructor
      · exact hti
      · intro o' ho'
        simp only [World.synced] at ho' ⊢
        by_cases e : o' = o
        · subst e; simp [hro hno]
        · have : o' ∈ w.tab.objs := by
            rcases (hmem o').mp ho' with h1 | h1
            · exact h1
            · exact absurd h1 e
          simp [e, hoth o' e, h.refs_snap o' this]
      · intro o' ho' hp
        simp only [World.synced] at ho' hp ⊢
        by_cases e : o' = o
        · simp [e]
        · have : o' ∈ w.tab.objs := by
            rcases (hmem o').mp ho' with h1 | h1
            · exact h1
            · exact absurd h1 e
          simp only [e, if_false] at hp ⊢
          exact h.fresh o' this hp
    | some e =>
      have := hs.2 e rfl
      simp only at this
      subst this
      exact h

theorem stepRemove_consistent {defs : List IdxDef} {w : World} (h : Consistent defs w) (o : ObjId) :
    Consistent defs (stepRemove w o).1 := by
  unfold stepRemove
  obtain ⟨_, hti, hmem, hoth, _⟩ := remove_spec h.tinv o
  constructor
  · exact hti
  · intro o' ho'
    simp only at ho' ⊢
    obtain ⟨hm, hne⟩ := (hmem o').mp ho'
    rw [hoth o' hne]; exact h.refs_snap o' hm
  · intro o' ho' hp
    simp only at ho' hp ⊢
    exact h.fresh o' ((hmem o').mp ho').1 hp

theorem stepUpdate_consistent {defs : List IdxDef} {w : World} (h : Consistent defs w) (o : ObjId) :
    Consistent defs (stepUpdate defs w o).1 := by
  unfold stepUpdate
  have hs := update_spec h.tinv o (w.cur o)
  generalize update defs w.tab o (w.cur o) = r at hs
  obtain ⟨t, e⟩ := r
  cases e with
  | none =>
    obtain ⟨hti, hm, hobjs, hro, hoth⟩ := hs.1 rfl
    simp only at hti hobjs hro hoth
    constructor
    · exact hti
    · intro o' ho'
      simp only [World.synced, hobjs] at ho' ⊢
      by_cases e : o' = o
      · subst e; simp [hro]
      · simp [e, hoth o' e, h.refs_snap o' ho']
    · intro o' ho' hp
      simp only [World.synced, hobjs] at ho' hp ⊢
      by_cases e : o' = o
      · simp [e]
      · simp only [e, if_false] at hp ⊢
        exact h.fresh o' ho' hp
  | some e =>
    obtain ⟨hti, hobjs, hrefs, _⟩ := hs.2.1 e rfl
    simp only at hti hobjs hrefs
    constructor
    · exact hti
    · intro o' ho'
      simp only [hobjs] at ho' ⊢
      rw [hrefs]; exact h.refs_snap o' ho'
    · intro o' ho' hp
      simp only [hobjs] at ho' hp ⊢
      exact h.fresh o' ho' hp

theorem stepMany_consistent {defs : List IdxDef} (f : World → ObjId → World × Option Err)
    (hf : ∀ w o, Consistent defs w → Consistent defs (f w o).1) :
    ∀ (os : List ObjId) (w : World), Consistent defs w → Consistent defs (stepMany f w os).1 := by
  intro os
  induction os with
  | nil => intro w h; exact h
  | cons o os ih =>
    intro w h
    unfold stepMany
    have := hf w o h
    generalize f w o = r at this
    obtain ⟨w', e⟩ := r
    cases e with
    | none => exact ih w' this
    | some e => exact this

theorem step_consistent {defs : List IdxDef} {w : World} (h : Consistent defs w) (op : Op) :
    Consistent defs (step defs w op).1 := by
  cases op with
  | setAttrs o rs =>
    simp only [step]
    constructor
    · exact h.tinv
    · exact h.refs_snap
    · intro o' ho' hp
      simp only at ho' hp ⊢
      by_cases e : o' = o
      · simp [e] at hp
      · simp only [e, if_false] at hp ⊢
        exact h.fresh o' ho' hp
  | add o => exact stepAdd_consistent h o
  | remove o => exact stepRemove_consistent h o
  | update o => exact stepUpdate_consistent h o
  | clear =>
    simp only [step, clear]
    constructor
    · exact tinv_empty defs
    · intro o ho; simp [Table.empty] at ho
    · intro o ho; simp [Table.empty] at ho
  | addMany os => exact stepMany_consistent _ (fun w o hw => stepAdd_consistent hw o) os w h
  | removeMany os => exact stepMany_consistent _ (fun w o hw => stepRemove_consistent hw o) os w h
  | updateMany os => exact stepMany_consistent _ (fun w o hw => stepUpdate_consistent hw o) os w h

theorem foldl_consistent (defs : List IdxDef) : ∀ (ops : List Op) (w : World), Consistent defs w →
    Consistent defs (ops.foldl (fun w op => (step defs w op).1) w) := by
  intro ops
  induction ops with
  | nil => intro w h; exact h
  | cons op ops ih => intro w h; exact ih _ (step_consistent h op)

theorem run_consistent (defs : List IdxDef) (ops : List Op) : Consistent defs (run defs ops) :=
  foldl_consistent defs ops _ (consistent_init defs)

/-- index list = the stored objects whose last-indexed key list contains the key, with multiplicity -/
theorem Consistent.count_scan {defs : List IdxDef} {w : World} (h : Consistent defs w) (i : Nat) (k : Key) (o : ObjId) :
    (w.tab.idx i k).count o = if o ∈ w.tab.objs then (keysOf defs i (w.snap o)).count k else 0 := by
  rw [h.tinv.count_eq]
  split
  · rename_i hm
    rw [h.refs_snap o hm, Option.getD_some, allKeys_count]
  · rfl

theorem count_scan_list (defs : List IdxDef) (attrs : ObjId → List KeyRes) (i : Nat) (k : Key) (o : ObjId) :
    ∀ (objs : List ObjId), objs.Nodup →
    (scan defs objs attrs i k).count o = if o ∈ objs then (keysOf defs i (attrs o)).count k else 0 := by
  intro objs
  induction objs with
  | nil => intro _; simp [scan]
  | cons a objs ih =>
    intro hnd
    have hnd' := List.nodup_cons.mp hnd
    have ih := ih hnd'.2
    simp only [scan, List.flatMap_cons, List.count_append, count_replicate_obj] at ih ⊢
    rw [ih]
    by_cases e : o = a
    · subst e; simp [hnd'.1]
    · simp [e]

/-- `get` (as a multiset) is what the scan returns -/
theorem Consistent.perm_scan {defs : List IdxDef} {w : World} (h : Consistent defs w) (i : Nat) (k : Key) :
    (w.tab.idx i k).Perm (scan defs w.tab.objs w.snap i k) := by
  apply List.perm_iff_count.mpr
  intro o
  rw [h.count_scan, count_scan_list defs w.snap i k o w.tab.objs h.tinv.objsNodup]

/-! ### why an insertion is rejected -/

theorem resolve_error {d : IdxDef} {r : KeyRes} {e : Err} (h : resolve d r = .error e) : e = .valueError := by
  cases r <;> simp only [resolve] at h <;> (try split at h) <;> (try split at h) <;> simp_all

/-- why `mk_keys` raises -/
theorem mkKeys_err {d : IdxDef} {t : Table} {i : Nat} {o : ObjId} {r : KeyRes} {e : Err}
    (h : mkKeys d t i o r = .error e) :
    (e = .valueError ∧ resolve d r = .error .valueError) ∨
    (e = .keyError ∧ d.kind = .unique ∧ ∃ k, resolve d r = .one k ∧ t.idx i k ≠ []) := by
  unfold mkKeys at h
  split at h
  · cases h
  · rename_i e' hr
    injection h with h; subst h
    have := resolve_error hr; subst this
    exact Or.inl ⟨rfl, hr⟩
  · rename_i k hr
    split at h
    · rename_i hu
      split at h
      · rename_i hne
        injection h with h; subst h
        exact Or.inr ⟨rfl, hu, k, hr, hne⟩
      · cases h
    · cases h
  · cases h

/-- why the loop of `_mk_indices` raises: some index `j` rejects the object, judged on the table as it was before -/
theorem mkLoop_err (defs : List IdxDef) (o : ObjId) (rs : List KeyRes) : ∀ (n i : Nat) (t : Table) (e : Err),
    (mkLoop defs o rs n i t).2.2 = some e →
    ∃ j d, i ≤ j ∧ defs[j]? = some d ∧
      ((e = .valueError ∧ resolve d (keyResAt rs j) = .error .valueError) ∨
       (e = .keyError ∧ d.kind = .unique ∧ ∃ k, resolve d (keyResAt rs j) = .one k ∧ t.idx j k ≠ [])) := by
  intro n
  induction n with
  | zero => intro i t e h; simp [mkLoop] at h
  | succ n ih =>
    intro i t e h
    unfold mkLoop at h
    split at h
    · simp at h
    · rename_i d hd
      split at h
      · rename_i e' hk
        simp only [Option.some.injEq] at h
        subst h
        exact ⟨i, d, Nat.le_refl _, hd, mkKeys_err hk⟩
      · rename_i t' ks hk
        obtain ⟨_, _, _, hidx, _⟩ := mkKeys_ok hk
        obtain ⟨j, d', hij, hd', hcase⟩ := ih (i+1) t' e h
        refine ⟨j, d', by omega, hd', ?_⟩
        rcases hcase with hv | ⟨he, hu, k, hr, hne⟩
        · exact Or.inl hv
        · refine Or.inr ⟨he, hu, k, hr, ?_⟩
          have hji : j ≠ i := by omega
          rw [hidx j k, count_map_pair] at hne
          simpa [hji] using hne

theorem mkIndices_err_reason {defs : List IdxDef} {t t' : Table} {o : ObjId} {rs : List KeyRes} {e : Err}
    (h : mkIndices defs t o rs = (t', some e)) :
    ∃ j d, defs[j]? = some d ∧
      ((e = .valueError ∧ resolve d (keyResAt rs j) = .error .valueError) ∨
       (e = .keyError ∧ d.kind = .unique ∧ ∃ k, resolve d (keyResAt rs j) = .one k ∧ t.idx j k ≠ [])) := by
  unfold mkIndices at h
  have spec := mkLoop_err defs o rs defs.length 0 t
  generalize mkLoop defs o rs defs.length 0 t = r at h spec
  obtain ⟨t1, refs, e'⟩ := r
  cases e' with
  | none => simp at h
  | some e' =>
    simp only [Prod.mk.injEq, Option.some.injEq] at h
    obtain ⟨_, he⟩ := h
    subst he
    obtain ⟨j, d, _, hd, hc⟩ := spec e' rfl
    exact ⟨j, d, hd, hc⟩

/-- `add_object` raises only for a reason: a key of the object in a unique index is taken (`KeyError`), or the key
function of a unique index returned a list (`ValueError`) -/
theorem add_err_reason {defs : List IdxDef} {t : Table} {o : ObjId} {rs : List KeyRes} {e : Err}
    (h : (add defs t o rs).2 = some e) :
    o ∉ t.objs ∧
    ((e = .keyError ∧ ∃ i k, isUnique defs i = true ∧ k ∈ keysOf defs i rs ∧ t.idx i k ≠ []) ∨
     (e = .valueError ∧ ∃ i d, defs[i]? = some d ∧ d.kind = .unique ∧ ∃ ks, keyResAt rs i = .many ks)) := by
  unfold add at h
  split at h
  · cases h
  · rename_i hno
    refine ⟨hno, ?_⟩
    unfold addNew at h
    generalize hr : mkIndices defs { t with objs := t.objs ++ [o] } o rs = r at h
    obtain ⟨t2, e'⟩ := r
    cases e' with
    | none => simp at h
    | some e' =>
      simp only [Option.some.injEq] at h
      subst h
      obtain ⟨j, d, hd, hc⟩ := mkIndices_err_reason hr
      rcases hc with ⟨he, hres⟩ | ⟨he, hu, k, hres, hne⟩
      · refine Or.inr ⟨he, j, d, hd, ?_⟩
        generalize keyResAt rs j = kr at hres
        cases kr <;> simp only [resolve] at hres <;> (try split at hres) <;> (try split at hres) <;> simp_all
      · refine Or.inl ⟨he, j, k, (isUnique_of_get hd).mpr hu, ?_, hne⟩
        simp [keysOf, hd, keysOfRes, hres]

/-! ### `add_index` at run time -/

theorem keyResAt_setAt (rs : List KeyRes) (n : Nat) (v : KeyRes) (i : Nat) :
    keyResAt (setAt rs n v) i = if i = n then v else keyResAt rs i := by
  induction rs generalizing n i with
  | nil =>
    induction n generalizing i with
    | zero => cases i <;> simp [setAt, keyResAt]
    | succ n ih =>
      cases i with
      | zero => simp [setAt, keyResAt]
      | succ i =>
        have := ih i
        simp only [keyResAt, List.getD_eq_getElem?_getD] at this ⊢
        simpa [setAt] using this
  | cons r rs ih =>
    cases n with
    | zero => cases i <;> simp [setAt, keyResAt]
    | succ n =>
      cases i with
      | zero => simp [setAt, keyResAt]
      | succ i =>
        have := ih n i
        simp only [keyResAt, List.getD_eq_getElem?_getD] at this ⊢
        simpa [setAt] using this

theorem keysOf_congr (defs : List IdxDef) (i : Nat) (rs rs' : List KeyRes) (h : keyResAt rs' i = keyResAt rs i) :
    keysOf defs i rs' = keysOf defs i rs := by
  simp [keysOf, h]

theorem keysOf_append_lt (defs : List IdxDef) (d : IdxDef) (i : Nat) (rs : List KeyRes) (h : i < defs.length) :
    keysOf (defs ++ [d]) i rs = keysOf defs i rs := by
  simp [keysOf, List.getElem?_append_left h]

theorem keysOf_append_eq (defs : List IdxDef) (d : IdxDef) (rs : List KeyRes) :
    keysOf (defs ++ [d]) defs.length rs = keysOfRes d (keyResAt rs defs.length) := by
  simp [keysOf]

theorem keysOf_out (defs : List IdxDef) (i : Nat) (rs : List KeyRes) (h : defs.length ≤ i) : keysOf defs i rs = [] := by
  simp [keysOf, List.getElem?_eq_none h]

theorem allKeysFrom_snoc (D : List IdxDef) (R : List KeyRes) : ∀ m i,
    allKeysFrom D R (m+1) i = allKeysFrom D R m i ++ (keysOf D (i+m) R).map (fun k => (i+m, k)) := by
  intro m
  induction m with
  | zero => intro i; simp [allKeysFrom]
  | succ m ih =>
    intro i
    rw [allKeysFrom, ih (i+1), allKeysFrom]
    simp only [List.append_assoc]
    have : i + 1 + m = i + (m + 1) := by omega
    rw [this]

theorem allKeysFrom_congr (D D' : List IdxDef) (R R' : List KeyRes) : ∀ m i,
    (∀ j, i ≤ j → j < i + m → keysOf D' j R' = keysOf D j R) → allKeysFrom D' R' m i = allKeysFrom D R m i := by
  intro m
  induction m with
  | zero => intro i _; rfl
  | succ m ih =>
    intro i h
    rw [allKeysFrom, allKeysFrom, h i (Nat.le_refl _) (by omega), ih (i+1) (fun j h1 h2 => h j (by omega) (by omega))]

/-- the back references after `add_index`: the old ones followed by those of the new index -/
theorem allKeys_append (defs : List IdxDef) (d : IdxDef) (rs rs' : List KeyRes)
    (h : ∀ i, i < defs.length → keyResAt rs' i = keyResAt rs i) :
    allKeys (defs ++ [d]) rs' =
      allKeys defs rs ++ (keysOfRes d (keyResAt rs' defs.length)).map (fun k => (defs.length, k)) := by
  simp only [allKeys, List.length_append, List.length_singleton]
  rw [allKeysFrom_snoc]
  simp only [Nat.zero_add, keysOf_append_eq]
  congr 1
  apply allKeysFrom_congr
  intro j _ hj
  rw [keysOf_append_lt _ _ _ _ (by omega)]
  exact keysOf_congr defs j rs rs' (h j (by omega))

theorem isUnique_append (defs : List IdxDef) (d : IdxDef) (i : Nat) :
    isUnique (defs ++ [d]) i = if i < defs.length then isUnique defs i else if i = defs.length then (d.kind == .unique) else false := by
  unfold isUnique
  by_cases h : i < defs.length
  · simp [h, List.getElem?_append_left h]
  · by_cases h2 : i = defs.length
    · subst h2; simp
    · have : (defs ++ [d])[i]? = none := List.getElem?_eq_none (by simp; omega)
      simp [h, h2, this]

/-- the loop of `add_index`: only index `n` grows, every object of `os` is filed under its current keys -/
theorem addIdxLoop_spec (d : IdxDef) (n : Nat) (cur : ObjId → List KeyRes) : ∀ (os : List ObjId) (t : Table), os.Nodup →
    (addIdxLoop d n cur os t).1.objs = t.objs ∧ (addIdxLoop d n cur os t).1.refs = t.refs ∧
    (∀ i k, i ≠ n → (addIdxLoop d n cur os t).1.idx i k = t.idx i k) ∧
    ((addIdxLoop d n cur os t).2 = none → ∀ k o', ((addIdxLoop d n cur os t).1.idx n k).count o' =
        (t.idx n k).count o' + if o' ∈ os then (keysOfRes d (keyResAt (cur o') n)).count k else 0) ∧
    (d.kind = .unique → (∀ k, (t.idx n k).length ≤ 1) → ∀ k, ((addIdxLoop d n cur os t).1.idx n k).length ≤ 1) := by
  intro os
  induction os with
  | nil => intro t _; simp [addIdxLoop]
  | cons o os ih =>
    intro t hnd
    have hnd' := List.nodup_cons.mp hnd
    unfold addIdxLoop
    split
    · refine ⟨rfl, rfl, fun _ _ _ => rfl, fun h => by simp at h, fun _ h => h⟩
    · rename_i t' ks hk
      obtain ⟨hks, ho, hr, hidx, hun⟩ := mkKeys_ok hk
      obtain ⟨io, ir, iother, icnt, iun⟩ := ih t' hnd'.2
      refine ⟨by rw [io, ho], by rw [ir, hr], ?_, ?_, ?_⟩
      · intro i k hi
        rw [iother i k hi, hidx i k, count_map_pair]
        simp [hi]
      · intro he k o'
        rw [icnt he k o', hidx n k, List.count_append, count_map_pair, count_replicate_obj]
        simp only [if_true, List.mem_cons]
        by_cases e : o' = o
        · subst e
          simp [hnd'.1, hks]
        · simp [e]
      · intro hu h k
        exact iun hu (fun k => hun hu k (h k)) k





theorem insertByPos_perm (order : List ObjId) (a : ObjId) : ∀ l, (insertByPos order a l).Perm (a :: l) := by
  intro l
  induction l with
  | nil => exact List.Perm.refl _
  | cons b l ih =>
    unfold insertByPos
    split
    · exact List.Perm.refl _
    · exact ((List.Perm.cons b ih).trans (List.Perm.swap a b l))

theorem iterOrder_perm (objs order : List ObjId) : (iterOrder objs order).Perm objs := by
  induction objs with
  | nil => exact List.Perm.refl _
  | cons a l ih =>
    unfold iterOrder
    exact (insertByPos_perm order a _).trans (List.Perm.cons a ih)

theorem Consistent.idx_out {defs : List IdxDef} {w : World} (h : Consistent defs w) (i : Nat) (hi : defs.length ≤ i)
    (k : Key) : w.tab.idx i k = [] := by
  apply List.eq_nil_iff_forall_not_mem.mpr
  intro o hm
  have := h.count_scan i k o
  rw [keysOf_out _ _ _ hi] at this
  have hpos := List.count_pos_iff.mpr hm
  have h0 : (w.tab.idx i k).count o = 0 := by rw [this]; split <;> simp
  omega

theorem Consistent.refs_out {defs : List IdxDef} {w : World} (h : Consistent defs w) (o : ObjId) (hm : o ∈ w.tab.objs)
    (i : Nat) (hi : defs.length ≤ i) (k : Key) : ((w.tab.refs o).getD []).count (i, k) = 0 := by
  rw [h.refs_snap o hm, Option.getD_some, allKeys_count, keysOf_out _ _ _ hi]; rfl

/-- `add_index` on a populated table: accepted ⇒ the table is consistent for the extended list of index definitions;
rejected ⇒ nothing has changed -/
theorem addIndex_spec {defs : List IdxDef} {w : World} (h : Consistent defs w) (d : IdxDef) (order : List ObjId) :
    ((addIndex defs w d order).2 = none → Consistent (defs ++ [d]) (addIndex defs w d order).1) ∧
    (∀ e, (addIndex defs w d order).2 = some e → (addIndex defs w d order).1 = w) := by
  unfold addIndex
  dsimp only
  have hperm := iterOrder_perm w.tab.objs order
  have hnd : (iterOrder w.tab.objs order).Nodup := hperm.nodup_iff.mpr h.tinv.objsNodup
  have hmem : ∀ o, o ∈ iterOrder w.tab.objs order ↔ o ∈ w.tab.objs := fun o => hperm.mem_iff
  have spec := addIdxLoop_spec d defs.length w.cur (iterOrder w.tab.objs order) w.tab hnd
  generalize addIdxLoop d defs.length w.cur (iterOrder w.tab.objs order) w.tab = r at spec ⊢
  obtain ⟨t, e⟩ := r
  obtain ⟨so, sr, sother, scnt, sun⟩ := spec
  simp only at so sr sother scnt sun
  cases e with
  | some e =>
    refine ⟨fun he => (by cases he), fun e' _ => ?_⟩
    have : ({ t with idx := fun i k => if i = defs.length then [] else t.idx i k } : Table) = w.tab := by
      apply Table.ext'
      · exact so
      · intro i k
        by_cases hi : i = defs.length
        · simp [hi, h.idx_out defs.length (Nat.le_refl _) k]
        · simp [hi, sother i k hi]
      · intro o; simp [sr]
    simp only [this]
  | none =>
    have scnt := scnt rfl
    refine ⟨fun _ => ?_, fun e he => (by cases he)⟩
    constructor
    · constructor
      · intro i k o
        simp only [hmem, so, sr]
        by_cases hm : o ∈ w.tab.objs
        · simp only [hm, if_true, Option.getD_some, List.count_append, count_map_pair]
          by_cases hi : i = defs.length
          · rw [hi, scnt k o]
            simp [hmem, hm, h.idx_out defs.length (Nat.le_refl _) k, h.refs_out o hm defs.length (Nat.le_refl _) k]
          · rw [sother i k hi]
            have := h.tinv.count_eq i k o
            simp [hm] at this
            simp [hi, this]
        · simp only [hm, if_false]
          by_cases hi : i = defs.length
          · rw [hi, scnt k o]
            simp [hmem, hm, h.idx_out defs.length (Nat.le_refl _) k]
          · rw [sother i k hi]
            have := h.tinv.count_eq i k o
            simpa [hm] using this
      · intro o
        simp only [hmem, so, sr]
        by_cases hm : o ∈ w.tab.objs
        · simp [hm]
        · simp [hm, (h.tinv.refs_none o).mpr hm]
      · simp only [so]; exact h.tinv.objsNodup
      · intro i k hu
        rw [isUnique_append] at hu
        by_cases hi : i < defs.length
        · simp only [hi, if_true] at hu
          rw [sother i k (by omega)]; exact h.tinv.uniq i k hu
        · by_cases hi2 : i = defs.length
          · rw [hi2] at hu
            simp at hu
            rw [hi2]
            exact sun hu (fun k => by simp [h.idx_out defs.length (Nat.le_refl _) k]) k
          · simp [hi, hi2] at hu
    · intro o ho
      simp only [so] at ho
      simp only [hmem, ho, if_true, sr, h.refs_snap o ho, Option.getD_some]
      rw [allKeys_append defs d (w.snap o)]
      · simp [keyResAt_setAt]
      · intro i hi
        rw [keyResAt_setAt]; simp [Nat.ne_of_lt hi]
    · intro o ho hp i
      simp only [so] at ho
      simp only at hp
      rw [keyResAt_setAt]
      by_cases hi : i = defs.length
      · simp [hi]
      · simp [hi, h.fresh o ho hp i]

theorem xstep_consistent {x : XWorld} (h : Consistent x.defs x.w) (op : XOp) :
    Consistent (xstep x op).1.defs (xstep x op).1.w := by
  cases op with
  | op o => exact step_consistent h o
  | addIndex d order =>
    have hs := addIndex_spec h d order
    simp only [xstep]
    generalize addIndex x.defs x.w d order = r at hs
    obtain ⟨w', e⟩ := r
    cases e with
    | none => exact hs.1 rfl
    | some e => have := hs.2 e rfl; simp only at this; subst this; exact h

theorem xrun_consistent (defs : List IdxDef) (ops : List XOp) : Consistent (xrun defs ops).defs (xrun defs ops).w := by
  unfold xrun
  suffices ∀ (ops : List XOp) (x : XWorld), Consistent x.defs x.w →
      Consistent (ops.foldl (fun x op => (xstep x op).1) x).defs (ops.foldl (fun x op => (xstep x op).1) x).w from
    this ops _ (consistent_init defs)
  intro ops
  induction ops with
  | nil => intro x h; exact h
  | cons op ops ih => intro x h; exact ih _ (xstep_consistent h op)

end Sdc.Multikey
