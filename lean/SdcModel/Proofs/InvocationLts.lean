import SdcModel.Invocation
/-!
Helper lemmas for C09: invariant of the interleaving semantics of `generate_transaction_id` under its lock
(any number of threads, any schedule).
-/
set_option linter.unusedSimpArgs false
namespace Sdc.Invocation.Lts

@[simp] theorem upd_same (f : Nat → Thr) (i : Nat) (t : Thr) : upd f i t i = t := by simp [upd]
@[simp] theorem upd_other (f : Nat → Thr) (i j : Nat) (t : Thr) (h : j ≠ i) : upd f i t j = f j := by simp [upd, h]

def inside (t : Thr) : Prop := 1 ≤ t.pc ∧ t.pc ≤ 4

structure Good (c0 : Nat) (c : Cfg) : Prop where
  ids : ∀ k e, c.issued[k]? = some e → e.2 = c0 + 1 + k
  pcs : ∀ j, (c.thr j).pc ≤ 5
  own : ∀ j, inside (c.thr j) ↔ c.owner = some j
  free : c.owner = none → c.counter = c0 + c.issued.length
  p1 : ∀ i, c.owner = some i → (c.thr i).pc = 1 → c.counter = c0 + c.issued.length
  p2 : ∀ i, c.owner = some i → (c.thr i).pc = 2 → c.counter = c0 + c.issued.length ∧ (c.thr i).tmp = c.counter
  p3 : ∀ i, c.owner = some i → (c.thr i).pc = 3 → c.counter = c0 + c.issued.length + 1
  p4 : ∀ i, c.owner = some i → (c.thr i).pc = 4 → c.counter = c0 + c.issued.length
  res : ∀ j a, (c.thr j).res = some a → (j, a) ∈ c.issued
  back : ∀ j a, (j, a) ∈ c.issued → (c.thr j).res ≠ none
  fin : ∀ j, 4 ≤ (c.thr j).pc → (c.thr j).res ≠ none

theorem good_init (c0 : Nat) : Good c0 (Cfg.init c0) := by
  refine ⟨?_, ?_, ?_, ?_, ?_, ?_, ?_, ?_, ?_, ?_, ?_⟩ <;> simp [Cfg.init, inside]

theorem lockedProg_get (n : Nat) : lockedProg[n]? =
    if n = 0 then some .acq else if n = 1 then some .load else if n = 2 then some .store
    else if n = 3 then some .ret else if n = 4 then some .rel else none := by
  match n with
  | 0 | 1 | 2 | 3 | 4 => rfl
  | n + 5 => simp [lockedProg]

theorem good_step (c0 : Nat) (c c' : Cfg) (i : Nat) (hg : Good c0 c) (hs : stepFn lockedProg c i = some c') :
    Good c0 c' := by
  have hpc := hg.pcs i
  have hown := hg.own i
  unfold stepFn at hs
  simp only [lockedProg_get] at hs
  have hcases : (c.thr i).pc = 0 ∨ (c.thr i).pc = 1 ∨ (c.thr i).pc = 2 ∨ (c.thr i).pc = 3 ∨ (c.thr i).pc = 4 ∨
      (c.thr i).pc = 5 := by omega
  rcases hcases with h | h | h | h | h | h
  · -- acq
    simp only [h, if_true] at hs
    split at hs
    · rename_i hfree
      injection hs with hs; subst hs
      have hothers : ∀ j, j ≠ i → ¬ inside (c.thr j) := by
        intro j _ hin
        have := (hg.own j).mp hin
        rw [hfree] at this; cases this
      refine ⟨hg.ids, ?_, ?_, ?_, ?_, ?_, ?_, ?_, ?_, ?_, ?_⟩
      · intro j; by_cases hj : j = i
        · subst hj; simp <;> omega
        · simp [hj]; exact hg.pcs j
      · intro j; by_cases hj : j = i
        · subst hj; simp [inside, h]
        · simp only [upd_other _ _ _ _ hj]
          constructor
          · intro hin; exact absurd hin (hothers j hj)
          · intro ho; injection ho with ho; exact absurd ho.symm hj
      · intro ho; cases ho
      · intro j ho _; exact hg.free hfree
      · intro j ho hp; injection ho with ho; subst ho; simp [h] at hp
      · intro j ho hp; injection ho with ho; subst ho; simp [h] at hp
      · intro j ho hp; injection ho with ho; subst ho; simp [h] at hp
      · intro j a hr; by_cases hj : j = i
        · subst hj; simp at hr; exact hg.res _ a hr
        · simp [hj] at hr; exact hg.res j a hr
      · intro j a hm; by_cases hj : j = i
        · subst hj; simp; exact hg.back _ a hm
        · simp [hj]; exact hg.back j a hm
      · intro j hp; by_cases hj : j = i
        · subst hj; simp [h] at hp
        · simp [hj] at hp ⊢; exact hg.fin j hp
    · cases hs
  · -- load
    have ho : c.owner = some i := hown.mp (by simp [inside, h])
    simp only [h] at hs
    simp at hs; subst hs
    have hcnt := hg.p1 i ho h
    refine ⟨hg.ids, ?_, ?_, ?_, ?_, ?_, ?_, ?_, ?_, ?_, ?_⟩
    · intro j; by_cases hj : j = i
      · subst hj; simp <;> omega
      · simp [hj]; exact hg.pcs j
    · intro j; by_cases hj : j = i
      · subst hj; simp [inside, h, ho]
      · simp only [upd_other _ _ _ _ hj]; exact hg.own j
    · intro hn; rw [ho] at hn; cases hn
    · intro j _ _; exact hcnt
    · intro j hoj _; rw [ho] at hoj; injection hoj with hoj; subst hoj; simpa using hcnt
    · intro j hoj hp; rw [ho] at hoj; injection hoj with hoj; subst hoj; simp [h] at hp
    · intro j _ _; exact hcnt
    · intro j a hr; by_cases hj : j = i
      · subst hj; simp at hr; exact hg.res _ a hr
      · simp [hj] at hr; exact hg.res j a hr
    · intro j a hm; by_cases hj : j = i
      · subst hj; simp; exact hg.back _ a hm
      · simp [hj]; exact hg.back j a hm
    · intro j hp; by_cases hj : j = i
      · subst hj; simp [h] at hp
      · simp [hj] at hp ⊢; exact hg.fin j hp
  · -- store
    have ho : c.owner = some i := hown.mp (by simp [inside, h])
    simp only [h] at hs
    simp at hs; subst hs
    obtain ⟨hcnt, htmp⟩ := hg.p2 i ho h
    refine ⟨hg.ids, ?_, ?_, ?_, ?_, ?_, ?_, ?_, ?_, ?_, ?_⟩
    · intro j; by_cases hj : j = i
      · subst hj; simp <;> omega
      · simp [hj]; exact hg.pcs j
    · intro j; by_cases hj : j = i
      · subst hj; simp [inside, h, ho]
      · simp only [upd_other _ _ _ _ hj]; exact hg.own j
    · intro hn; rw [ho] at hn; cases hn
    · intro j hoj hp; rw [ho] at hoj; injection hoj with hoj; subst hoj; simp [h] at hp
    · intro j hoj hp; rw [ho] at hoj; injection hoj with hoj; subst hoj; simp [h] at hp
    · intro j hoj _; rw [ho] at hoj; injection hoj with hoj; subst hoj; simp <;> omega
    · intro j hoj hp; rw [ho] at hoj; injection hoj with hoj; subst hoj; simp [h] at hp
    · intro j a hr; by_cases hj : j = i
      · subst hj; simp at hr; exact hg.res _ a hr
      · simp [hj] at hr; exact hg.res j a hr
    · intro j a hm; by_cases hj : j = i
      · subst hj; simp; exact hg.back _ a hm
      · simp [hj]; exact hg.back j a hm
    · intro j hp; by_cases hj : j = i
      · subst hj; simp [h] at hp
      · simp [hj] at hp ⊢; exact hg.fin j hp
  · -- ret
    have ho : c.owner = some i := hown.mp (by simp [inside, h])
    simp only [h] at hs
    simp at hs; subst hs
    have hcnt := hg.p3 i ho h
    refine ⟨?_, ?_, ?_, ?_, ?_, ?_, ?_, ?_, ?_, ?_, ?_⟩
    · intro k e hk
      simp only at hk
      rcases Nat.lt_or_ge k c.issued.length with hlt | hge
      · rw [List.getElem?_append_left hlt] at hk; exact hg.ids k e hk
      · rw [List.getElem?_append_right hge] at hk
        have : k - c.issued.length = 0 := by
          rcases Nat.eq_zero_or_pos (k - c.issued.length) with h0 | hpos
          · exact h0
          · have : [(i, c.counter)][k - c.issued.length]? = none := by
              apply List.getElem?_eq_none; simp; omega
            rw [this] at hk; cases hk
        rw [this] at hk
        simp at hk; subst hk
        simp; omega
    · intro j; by_cases hj : j = i
      · subst hj; simp <;> omega
      · simp [hj]; exact hg.pcs j
    · intro j; by_cases hj : j = i
      · subst hj; simp [inside, h, ho]
      · simp only [upd_other _ _ _ _ hj]; exact hg.own j
    · intro hn; rw [ho] at hn; cases hn
    · intro j hoj hp; rw [ho] at hoj; injection hoj with hoj; subst hoj; simp [h] at hp
    · intro j hoj hp; rw [ho] at hoj; injection hoj with hoj; subst hoj; simp [h] at hp
    · intro j hoj hp; rw [ho] at hoj; injection hoj with hoj; subst hoj; simp [h] at hp
    · intro j hoj _; rw [ho] at hoj; injection hoj with hoj; subst hoj; simp <;> omega
    · intro j a hr; by_cases hj : j = i
      · subst hj; simp at hr; subst hr; simp
      · simp [hj] at hr; simp; exact Or.inl (hg.res j a hr)
    · intro j a hm; by_cases hj : j = i
      · subst hj; simp
      · simp [hj] at hm ⊢
        exact hg.back j a hm
    · intro j hp; by_cases hj : j = i
      · subst hj; simp
      · simp [hj] at hp ⊢; exact hg.fin j hp
  · -- rel
    have ho : c.owner = some i := hown.mp (by simp [inside, h])
    simp only [h] at hs
    simp [ho] at hs; subst hs
    have hcnt := hg.p4 i ho h
    refine ⟨hg.ids, ?_, ?_, ?_, ?_, ?_, ?_, ?_, ?_, ?_, ?_⟩
    · intro j; by_cases hj : j = i
      · subst hj; simp <;> omega
      · simp [hj]; exact hg.pcs j
    · intro j; by_cases hj : j = i
      · subst hj; simp [inside, h]
      · simp only [upd_other _ _ _ _ hj]
        constructor
        · intro hin
          have := (hg.own j).mp hin
          rw [ho] at this; injection this with this; exact absurd this.symm hj
        · intro hn; cases hn
    · intro _; exact hcnt
    · intro j hoj; cases hoj
    · intro j hoj; cases hoj
    · intro j hoj; cases hoj
    · intro j hoj; cases hoj
    · intro j a hr; by_cases hj : j = i
      · subst hj; simp at hr; exact hg.res _ a hr
      · simp [hj] at hr; exact hg.res j a hr
    · intro j a hm; by_cases hj : j = i
      · subst hj; simp; exact hg.back _ a hm
      · simp [hj]; exact hg.back j a hm
    · intro j hp; by_cases hj : j = i
      · subst hj; simp; exact hg.fin _ (by omega)
      · simp [hj] at hp ⊢; exact hg.fin j hp
  · simp [h] at hs

theorem good_reach (c0 : Nat) (c : Cfg) (hr : Reach lockedProg (Cfg.init c0) c) : Good c0 c := by
  induction hr with
  | refl => exact good_init c0
  | step _ hs ih => exact good_step c0 _ _ _ ih hs

/-- the list of issued ids only grows -/
theorem issued_prefix_step (prog : List Act) (c c' : Cfg) (i : Nat) (hs : stepFn prog c i = some c') :
    ∃ l, c'.issued = c.issued ++ l := by
  unfold stepFn at hs
  simp only at hs
  cases h : prog[(c.thr i).pc]? with
  | none => rw [h] at hs; cases hs
  | some a =>
    rw [h] at hs
    cases a with
    | acq =>
      simp only at hs
      split at hs
      · injection hs with hs; subst hs; exact ⟨[], by simp⟩
      · cases hs
    | rel =>
      simp only at hs
      split at hs
      · injection hs with hs; subst hs; exact ⟨[], by simp⟩
      · cases hs
    | load => injection hs with hs; subst hs; exact ⟨[], by simp⟩
    | store => injection hs with hs; subst hs; exact ⟨[], by simp⟩
    | ret => injection hs with hs; subst hs; exact ⟨_, rfl⟩

theorem issued_prefix_reach (prog : List Act) (c c' : Cfg) (hr : Reach prog c c') : ∃ l, c'.issued = c.issued ++ l := by
  induction hr with
  | refl => exact ⟨[], by simp⟩
  | step _ hs ih =>
    obtain ⟨l, hl⟩ := ih
    obtain ⟨l', hl'⟩ := issued_prefix_step _ _ _ _ hs
    exact ⟨l ++ l', by rw [hl', hl, List.append_assoc]⟩

theorem reach_trans (prog : List Act) (a b c : Cfg) (h1 : Reach prog a b) (h2 : Reach prog b c) : Reach prog a c := by
  induction h2 with
  | refl => exact h1
  | step _ hs ih => exact .step ih hs

end Sdc.Invocation.Lts

namespace Sdc.Invocation.Lts

theorem runSched_reach (prog : List Act) (c : Cfg) (sched : List Nat) : Reach prog c (runSched prog c sched) := by
  induction sched generalizing c with
  | nil => exact .refl
  | cons i is ih =>
    simp only [runSched]
    cases h : stepFn prog c i with
    | none => simpa [h] using ih c
    | some c' =>
      simp only [Option.getD_some]
      exact reach_trans prog c c' _ (.step .refl h) (ih c')

/-- ids in issue order are strictly increasing -/
theorem issued_increasing (c0 : Nat) (c : Cfg) (hg : Good c0 c) : (c.issued.map (·.2)).Pairwise (· < ·) := by
  rw [List.pairwise_iff_getElem]
  intro i j hi hj hij
  simp only [List.length_map] at hi hj
  simp only [List.getElem_map]
  have h1 := hg.ids i c.issued[i] (List.getElem?_eq_getElem hi)
  have h2 := hg.ids j c.issued[j] (List.getElem?_eq_getElem hj)
  omega

end Sdc.Invocation.Lts
