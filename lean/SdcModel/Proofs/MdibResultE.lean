import SdcModel.Proofs.MdibResultS
/-!
# more about the TransactionResult of a descriptor commit: what the consumer contract needs
(versions of updated descriptors strictly larger, reported record = table record when the script keeps parent / source mds,
 removed states belong to reported deletions, order of the deleted descriptors)
-/
set_option linter.unusedSimpArgs false
namespace Sdc.Mdib

def isDelItem (p : Handle × DItem) : Bool := p.2.old.isSome && p.2.new.isNone

/-- the old descriptor of a delete item -/
def delOld (p : Handle × DItem) : Option Descr := if p.2.new.isNone then p.2.old else none

/-- in item order, every child (in `t`) of a removed descriptor is removed by an earlier item: the transaction removes
    subtrees bottom-up, one `remove_descriptor` per descriptor -/
def DeletesFlatFrom (t : Tables) : List (Handle × DItem) → List (Handle × DItem) → Prop
  | _, [] => True
  | pre, p :: rest =>
    (isDelItem p = true → ∀ c ∈ t.descrs, c.parent = some p.1 → ∃ q ∈ pre, isDelItem q = true ∧ q.1 = c.handle) ∧
    DeletesFlatFrom t (pre ++ [p]) rest

instance (t : Tables) : ∀ (pre rest : List (Handle × DItem)), Decidable (DeletesFlatFrom t pre rest)
  | _, [] => isTrue trivial
  | pre, p :: rest =>
    have := instDecidableDeletesFlatFrom t (pre ++ [p]) rest
    by unfold DeletesFlatFrom; infer_instance

/-- updated descriptors keep parent and source mds (true for `get_descriptor`; for `write_entity` it says that the entity's
    descriptor has the parent / source mds of the table's descriptor) -/
def KeepsParent (tx : DTx) : Prop := ∀ p ∈ tx.descr, ∀ o ∈ p.2.old, ∀ n ∈ p.2.new, n.parent = o.parent ∧ n.mds = o.mds
instance (tx : DTx) : Decidable (KeepsParent tx) := by unfold KeepsParent; infer_instance

variable {t₀ : Tables} {tx₀ : DTx} {del : List Handle} {flat keepP : Prop}

structure RExt (t₀ : Tables) (tx₀ : DTx) (flat keepP : Prop) (done : List (Handle × DItem)) (T : Tables) (R : TxResult) : Prop where
  updV : ∀ d ∈ R.descrUpdated, ∀ d0 ∈ t₀.descrs, d0.handle = d.handle → d0.ver < d.ver
  updIn : ∀ d ∈ R.descrUpdated, d.handle ∈ t₀.descrs.map (·.handle)
  updEq : keepP → ∀ d ∈ R.descrUpdated, findD T d.handle = some d
  sGone : ∀ h a, findS t₀ h = some a → findS T h = some a ∨ h ∈ R.descrDeleted.map (·.handle)
  cGone : ∀ k x, findC t₀ k = some x → findC T k = some x ∨ x.dh ∈ R.descrDeleted.map (·.handle)
  rootsGone : ∀ p ∈ done, isDelItem p = true → findD T p.1 = none
  delEq : flat → R.descrDeleted = done.filterMap delOld
  nodupC : (R.descrCreated.map (·.handle)).Nodup
  nodupU : (R.descrUpdated.map (·.handle)).Nodup
  ne : done ≠ [] → R.descrCreated ++ R.descrUpdated ++ R.descrDeleted ≠ []

theorem RExt.init (t : Tables) (tx : DTx) (flat keepP : Prop) (v : Nat) : RExt t tx flat keepP [] { t with ver := v } {} :=
  ⟨by simp, by simp, by simp, fun _ _ h => .inl h, fun _ _ h => .inl h, by simp, by simp, by simp, by simp, by simp⟩

variable {done : List (Handle × DItem)} {T : Tables} {R : TxResult}

/-- a created descriptor is added and reported -/
theorem RExt.add (h : RExt t₀ tx₀ flat keepP done T R) {n : Descr} (hfresh : findD T n.handle = none)
    (hnc : ∀ d ∈ R.descrCreated, d.handle ≠ n.handle) (hroot : ∀ p ∈ done, isDelItem p = true → p.1 ≠ n.handle) :
    RExt t₀ tx₀ flat keepP done { T with descrs := T.descrs ++ [n] } { R with descrCreated := R.descrCreated ++ [n] } := by
  have hf : ∀ k, k ≠ n.handle → findD { T with descrs := T.descrs ++ [n] } k = findD T k := by
    intro k hk
    rw [findD_append]
    have : ¬ n.handle = k := fun e => hk e.symm
    simp [this]
  refine ⟨h.updV, h.updIn, ?_, h.sGone, h.cGone, ?_, h.delEq, ?_, h.nodupU, by simp⟩
  · intro hk d hd
    have := h.updEq hk d hd
    rw [hf _ (fun e => by rw [e, hfresh] at this; cases this)]; exact this
  · intro p hp hd
    rw [hf _ (hroot p hp hd)]; exact h.rootsGone p hp hd
  · simp only [List.map_append, List.map_cons, List.map_nil]
    rw [List.nodup_append]
    refine ⟨h.nodupC, by simp, ?_⟩
    intro a ha b hb
    simp only [List.mem_singleton] at hb; subst hb
    obtain ⟨d, hd, rfl⟩ := List.mem_map.1 ha
    exact hnc d hd

/-- the descriptor `d` of the table is replaced by `d'`, reported as `r` -/
theorem RExt.repl (h : RExt t₀ tx₀ flat keepP done T R) (hn : (T.descrs.map (·.handle)).Nodup) {d d' r : Descr} (hd : d ∈ T.descrs)
    (e1 : d'.handle = d.handle) (er : r.handle = d.handle) (hv : ∀ d0 ∈ t₀.descrs, d0.handle = d.handle → d0.ver < r.ver)
    (hin : d.handle ∈ t₀.descrs.map (·.handle)) (heq : keepP → d' = r) (hq3 : ∀ x ∈ R.descrUpdated, x.handle ≠ d.handle) :
    RExt t₀ tx₀ flat keepP done (replaceDescr T d') { R with descrUpdated := R.descrUpdated ++ [r] } := by
  have hf := findD_replaceDescr hn hd e1
  have hdq : findD T d.handle = some d := find_of_mem_nodup (fun x : Descr => x.handle) hn hd
  refine ⟨?_, ?_, ?_, h.sGone, h.cGone, ?_, h.delEq, h.nodupC, ?_, by simp⟩
  · intro x hx d0 hd0 e
    simp only [List.mem_append, List.mem_singleton] at hx
    rcases hx with hx | rfl
    · exact h.updV x hx d0 hd0 e
    · exact hv d0 hd0 (e.trans er)
  · intro x hx
    simp only [List.mem_append, List.mem_singleton] at hx
    rcases hx with hx | rfl
    · exact h.updIn x hx
    · rw [er]; exact hin
  · intro hk x hx
    simp only [List.mem_append, List.mem_singleton] at hx
    rcases hx with hx | rfl
    · rw [hf, if_neg (hq3 x hx)]; exact h.updEq hk x hx
    · rw [hf, er, if_pos rfl, heq hk]
  · intro p hp hdel
    have := h.rootsGone p hp hdel
    have hne : p.1 ≠ d.handle := fun e => by rw [e, hdq] at this; cases this
    rw [hf, if_neg hne]; exact this
  · simp only [List.map_append, List.map_cons, List.map_nil]
    rw [List.nodup_append]
    refine ⟨h.nodupU, by simp, ?_⟩
    intro a ha b hb
    simp only [List.mem_singleton] at hb; subst hb
    obtain ⟨x, hx, rfl⟩ := List.mem_map.1 ha
    rw [er]; exact hq3 x hx

theorem RExt.congr (h : RExt t₀ tx₀ flat keepP done T R) {L : List Descr}
    (hm : ∀ x, x ∈ L ↔ x ∈ T.descrs) (hn : (L.map (·.handle)).Nodup) : RExt t₀ tx₀ flat keepP done { T with descrs := L } R := by
  have hf := findD_congr_mem hm hn
  refine { h with updEq := ?_, rootsGone := ?_ }
  · intro hk d hd; rw [hf]; exact h.updEq hk d hd
  · intro p hp hd; rw [hf]; exact h.rootsGone p hp hd

/-- one more item is done (no change of tables and result) -/
theorem RExt.push (h : RExt t₀ tx₀ flat keepP done T R) (p : Handle × DItem)
    (hdel : isDelItem p = true → findD T p.1 = none ∧ (flat → False))
    (hne : R.descrCreated ++ R.descrUpdated ++ R.descrDeleted ≠ []) : RExt t₀ tx₀ flat keepP (done ++ [p]) T R := by
  refine { h with rootsGone := ?_, delEq := ?_, ne := fun _ => hne }
  · intro q hq hd
    simp only [List.mem_append, List.mem_singleton] at hq
    rcases hq with hq | rfl
    · exact h.rootsGone q hq hd
    · exact (hdel hd).1
  · intro hfl
    rw [List.filterMap_append, h.delEq hfl]
    have : delOld p = none := by
      by_cases hd : isDelItem p = true
      · exact absurd hfl (hdel hd).2
      · unfold delOld; unfold isDelItem at hd
        cases hn : p.2.new with
        | some n => simp
        | none => cases ho : p.2.old with
          | none => simp
          | some o => simp [hn, ho] at hd
    simp [this]

/-- a delete item: `all` is removed and reported (with `flat`, `all = [o]`) -/
theorem RExt.rmPush (h : RExt t₀ tx₀ flat keepP done T R) (hn : (T.descrs.map (·.handle)).Nodup) (hc : (T.ctx.map (·.h)).Nodup)
    {k : Handle} {o : Descr} (all : List Descr) (hall : flat → all = [o]) (hk : o.handle = k)
    (hmem : o ∈ all) (hud : ∀ d ∈ R.descrUpdated, d.handle ∉ all.map (·.handle)) :
    RExt t₀ tx₀ flat keepP (done ++ [(k, ⟨some o, none⟩)]) (all.foldl rmDescrAndStates T) { R with descrDeleted := R.descrDeleted ++ all } := by
  have Rm := removed_foldl all hc
  refine ⟨h.updV, h.updIn, ?_, ?_, ?_, ?_, ?_, h.nodupC, h.nodupU, ?_⟩
  · intro hkp d hd
    rw [(Rm.findD hn _).2 (hud d hd)]; exact h.updEq hkp d hd
  · intro x a ha
    rcases h.sGone x a ha with hsome | hdel
    · by_cases hx : x ∈ all.map (·.handle)
      · right; simp only [List.map_append, List.mem_append]; exact .inr hx
      · left; rw [Rm.findS x hx]; exact hsome
    · right; simp only [List.map_append, List.mem_append]; exact .inl hdel
  · intro x c hc'
    rcases h.cGone x c hc' with hsome | hdel
    · by_cases hx : c.dh ∈ all.map (·.handle)
      · right; simp only [List.map_append, List.mem_append]; exact .inr hx
      · left; exact Rm.findC x c hsome hx
    · right; simp only [List.map_append, List.mem_append]; exact .inl hdel
  · intro q hq hd
    simp only [List.mem_append, List.mem_singleton] at hq
    rcases hq with hq | rfl
    · have := h.rootsGone q hq hd
      by_cases hx : q.1 ∈ all.map (·.handle)
      · exact (Rm.findD hn _).1 hx
      · rw [(Rm.findD hn _).2 hx]; exact this
    · exact (Rm.findD hn _).1 (List.mem_map.2 ⟨o, hmem, hk⟩)
  · intro hfl
    rw [List.filterMap_append, h.delEq hfl, hall hfl]
    simp [delOld]
  · intro _ he
    simp only [List.append_eq_nil_iff] at he
    rw [he.2.2] at hmem; cases hmem


theorem RExt.incPar {c : DCommit} {pend : List (Handle × DItem)} {st : Handle → Prop} (he : RExt t₀ tx₀ flat keepP done c.t c.res)
    (hr : RInv t₀ tx₀ del pend c.t c.res) (h : CInv t₀ tx₀ del pend st c.t c.tx) {q : Handle}
    (hq1 : q ∉ toCreateOf tx₀) :
    RExt t₀ tx₀ flat keepP done (Sdc.Mdib.incParent c q).t (Sdc.Mdib.incParent c q).res := by
  unfold Sdc.Mdib.incParent
  split
  · exact he
  · rename_i p hp
    obtain ⟨hph, hpm⟩ := findD_some hp
    split
    · exact he
    · rename_i hany
      rw [updCorresponding_t, updCorresponding_res]
      have hq3 : ∀ x ∈ c.res.descrUpdated, x.handle ≠ p.handle := by
        intro x hx e
        apply hany
        simp only [List.any_eq_true, beq_iff_eq]
        exact ⟨x, hx, e.trans hph⟩
      -- `q` is a descriptor of the original tables
      have hin : p.handle ∈ t₀.descrs.map (·.handle) := by
        cases hf : findD t₀ p.handle with
        | some d0 => obtain ⟨e, hd0⟩ := findD_some hf; exact e ▸ List.mem_map_of_mem hd0
        | none =>
          have hne : findD c.t p.handle ≠ findD t₀ p.handle := by rw [hph, hp, ← hph, hf]; simp
          have := hr.comp _ hne
          simp only [List.map_append, List.mem_append, List.mem_map] at this
          rcases this with (⟨x, hx, e⟩ | ⟨x, hx, e⟩) | ⟨x, hx, e⟩
          · exact absurd ((hph ▸ e) ▸ (hr.cre x hx).2) hq1
          · exact absurd e (hq3 x hx)
          · have := (hr.delr x hx).1; rw [e, hph, hp] at this; cases this
      refine he.repl h.dKeys (d := p) (d' := { p with ver := p.ver + 1 }) (r := { p with ver := p.ver + 1 }) hpm rfl rfl ?_ hin
        (fun _ => rfl) hq3
      intro d0 hd0 e
      rcases h.seen.dChg p hpm d0 hd0 e with rfl | hlt
      · simp
      · simp; omega

theorem subtree_empty {T : Tables} {k : Handle} (h : childrenOf T k = []) (n : Nat) : subtreeBelow T n k = [] := by
  cases n with
  | zero => rfl
  | succ n => simp [subtreeBelow, h]

theorem commitDItem_ext {pend : List (Handle × DItem)} {st : Handle → Prop} (hw : WF t₀) (hi : DTxOK t₀ tx₀) (hs : DStatic t₀ tx₀ del)
    {c : DCommit} {k : Handle} {it : DItem} (hsplit : tx₀.descr = done ++ (k, it) :: pend)
    (h : CInv t₀ tx₀ del ((k, it) :: pend) st c.t c.tx) (hr : RInv t₀ tx₀ del ((k, it) :: pend) c.t c.res)
    (he : RExt t₀ tx₀ flat keepP done c.t c.res) (hflat : flat → DeletesFlatFrom t₀ done ((k, it) :: pend))
    (hkeep : keepP → KeepsParent tx₀) :
    RExt t₀ tx₀ flat keepP (done ++ [(k, it)]) (commitDItem del (toCreateOf tx₀) (toUpdateOf tx₀) c it).1.t
      (commitDItem del (toCreateOf tx₀) (toUpdateOf tx₀) c it).1.res := by
  have hmem : (k, it) ∈ tx₀.descr := by rw [hsplit]; simp
  have hdone : ∀ p ∈ done, p ∈ tx₀.descr := fun p hp => by rw [hsplit]; simp [hp]
  have hkeysAll := hi.dKeys
  rw [hsplit, List.map_append, List.nodup_append] at hkeysAll
  have hkeys : (((k, it) :: pend).map (·.1)).Nodup := hkeysAll.2.1
  have hkdone : ∀ p ∈ done, p.1 ≠ k := fun p hp e =>
    hkeysAll.2.2 p.1 (List.mem_map_of_mem hp) k (by simp) e
  have hcre : ∀ k' ∈ toCreateOf tx₀, k' ∉ t₀.descrs.map (·.handle) := fun k' hk' => created_not_in_t0 hi hk'
  have hrootIn : ∀ p ∈ done, isDelItem p = true → p.1 ∈ t₀.descrs.map (·.handle) := by
    intro p hp hd
    have := hi.dOld p (hdone p hp)
    unfold isDelItem at hd
    cases ho : p.2.old with
    | none => simp [ho] at hd
    | some o =>
      rw [ho] at this
      obtain ⟨e, hm⟩ := findD_some this.symm
      exact e ▸ List.mem_map_of_mem hm
  obtain ⟨old, new⟩ := it
  cases old with
  | none =>
    cases new with
    | none => exact absurd rfl (hi.dSome _ hmem rfl)
    | some n =>
      obtain ⟨hadd, h1⟩ := h.add hi hs hmem hkeys
      have hnh : n.handle = k := hi.dNew _ hmem n rfl
      have hkc : k ∈ toCreateOf tx₀ := mem_toCreateOf.2 ⟨_, hmem, n, rfl, hnh⟩
      have hfresh : findD c.t n.handle = none := (addDescr_ok_iff.1 hadd).1
      have hr1 := hr.drop.add hfresh (hnh ▸ hkc) (by
        intro hd
        obtain ⟨d, hd', e⟩ := hs.delSub _ hd
        exact hcre k hkc (hnh ▸ e ▸ List.mem_map_of_mem hd'))
      have he1 := he.add hfresh
        (fun d hd e => by have := (hr.cre d hd).1; rw [e, hfresh] at this; cases this)
        (fun p hp hd e => hcre k hkc (hnh ▸ e ▸ hrootIn p hp hd))
      simp only [commitDItem, hadd]
      rw [updCorresponding_t, updCorresponding_res]
      have fin : ∀ {T : Tables} {R : TxResult}, RExt t₀ tx₀ flat keepP done T R → R.descrCreated ≠ [] →
          RExt t₀ tx₀ flat keepP (done ++ [(k, ⟨none, some n⟩)]) T R := by
        intro T R hx hne
        refine hx.push _ (by simp [isDelItem]) ?_
        intro e; simp only [List.append_eq_nil_iff] at e; exact hne e.1.1
      cases hp : n.parent with
      | none => exact fin he1 (by simp)
      | some p =>
        simp only
        split
        · exact fin he1 (by simp)
        · rename_i hcond
          simp only [Bool.or_eq_true, List.contains_eq_mem, decide_eq_true_eq, not_or] at hcond
          refine fin (RExt.incPar (c := ⟨_, _, _⟩) he1 hr1 h1 hcond.1) ?_
          -- the created list only grows
          unfold Sdc.Mdib.incParent
          split
          · simp
          · split
            · simp
            · rw [updCorresponding_res]; simp
  | some o =>
    have hok := hi.dOld _ hmem
    simp only at hok
    obtain ⟨hoh, hot⟩ := findD_some hok.symm
    have hkt : k ∉ toCreateOf tx₀ := fun hc => hcre k hc (hoh ▸ List.mem_map_of_mem hot)
    cases new with
    | none =>
      have hod : o.handle ∈ del := by rw [hoh]; exact hs.delRoot _ hmem o rfl
      have h0 := h.drop (.inl (by simp)) hi hmem
      simp only [commitDItem]
      split
      · -- already gone: with `flat` this cannot happen
        rename_i hgone
        have hgone' : findD c.t k = none := by simpa [hoh] using hgone
        have hne' : findD c.t k ≠ findD t₀ k := by rw [hgone', ← hok]; simp
        have hin := hr.comp k hne'
        refine he.push _ (fun _ => ⟨hgone', fun hfl => ?_⟩) ?_
        · simp only [List.map_append, List.mem_append, List.mem_map] at hin
          rcases hin with (⟨x, hx, e⟩ | ⟨x, hx, e⟩) | ⟨x, hx, e⟩
          · exact hkt (e ▸ (hr.cre x hx).2)
          · obtain ⟨⟨d', a, _⟩, _⟩ := hr.upd x hx
            rw [e, hgone'] at a; cases a
          · rw [he.delEq hfl] at hx
            obtain ⟨q, hq, hqo⟩ := List.mem_filterMap.1 hx
            have hqold : q.2.old = some x := by
              unfold delOld at hqo; split at hqo
              · exact hqo
              · cases hqo
            have := hi.dOld q (hdone q hq)
            rw [hqold] at this
            exact hkdone q hq (((findD_some this.symm).1).symm.trans e)
        · intro e
          rw [e] at hin; simp at hin
      · have hD : ∀ x ∈ subtreeBelow c.t (c.t.descrs.length + 1) o.handle ++ [o], x.handle ∈ del := by
          intro x hx
          simp only [List.mem_append, List.mem_singleton] at hx
          rcases hx with hx | rfl
          · exact h.sub_del _ _ hod x hx
          · exact hod
        have hcre' : ∀ k' ∈ toCreateOf tx₀, k' ∉ del := by
          intro k' hk' hd
          obtain ⟨d, hd', e⟩ := hs.delSub _ hd
          exact hcre k' hk' (e ▸ List.mem_map_of_mem hd')
        have hr1 := hr.drop.rm h.dKeys h.cKeys _ hD hcre'
        have h1 := h0.delete hi hs hod
        -- with `flat` the subtree below `o` is already gone
        have hall : flat → subtreeBelow c.t (c.t.descrs.length + 1) o.handle ++ [o] = [o] := by
          intro hfl
          have hch : childrenOf c.t o.handle = [] := by
            apply List.eq_nil_iff_forall_not_mem.2
            intro x hx
            obtain ⟨hxm, hxp⟩ := mem_childrenOf.1 hx
            by_cases hxt : x.handle ∈ t₀.descrs.map (·.handle)
            · obtain ⟨d0, hd0, e0⟩ := List.mem_map.1 hxt
              have hpar := (h.dOld x hxm d0 hd0 e0).1
              obtain ⟨q, hq, hqd, hqk⟩ := (hflat hfl).1 (by simp [isDelItem]) d0 hd0 (by rw [hpar, hxp, hoh])
              have := he.rootsGone q hq hqd
              rw [hqk, e0] at this
              have hx' := find_of_mem_nodup (fun d : Descr => d.handle) h.dKeys hxm
              rw [show findD c.t x.handle = some x from hx'] at this; cases this
            · -- a created descriptor below a removed one: excluded by the consistency check
              have hnd : x.handle ∉ del := fun hd => by
                obtain ⟨d, hd', e⟩ := hs.delSub _ hd
                exact hxt (e ▸ List.mem_map_of_mem hd')
              exact h.dUp x hxm hnd o.handle hxp hod
          rw [subtree_empty hch]; rfl
        have he1 := he.rmPush h.dKeys h.cKeys (k := k) (o := o) _ hall hoh (by simp)
          (fun d hd hx => (hr.upd d hd).2.1 (by
            obtain ⟨x, hx', e⟩ := List.mem_map.1 hx
            exact e ▸ hD x hx'))
        cases hp : o.parent with
        | none => exact he1
        | some p =>
          simp only
          split
          · exact he1
          · rename_i hcond
            simp only [Bool.or_eq_true, List.contains_eq_mem, decide_eq_true_eq, not_or] at hcond
            refine RExt.incPar (c := ⟨_, _, _⟩) he1 hr1 h1 ?_
            intro hc
            obtain ⟨q, hq, e⟩ := hw.parent o hot p hp
            exact hcre p hc (e ▸ List.mem_map_of_mem hq)
    | some n =>
      have hnd : k ∉ del := hs.updNotDel _ hmem o n rfl
      have hpres := h.dSurv o hot (by rw [hoh]; exact hnd)
      obtain ⟨x, hx, hxh⟩ := List.mem_map.1 hpres
      have hfx : findD c.t o.handle = some x := by
        have := find_of_mem_nodup (fun d : Descr => d.handle) h.dKeys hx
        simp only [hxh] at this; exact this
      have hxk : x.handle = k := hxh.trans hoh
      have hku : k ∈ toUpdateOf tx₀ := mem_toUpdateOf.2 ⟨_, hmem, o, n, rfl, hi.dNew _ hmem n rfl⟩
      have hnk : n.handle = k := hi.dNew _ hmem n rfl
      have hu := hi.dUpd _ hmem o rfl n rfl
      have hq3 : ∀ y ∈ c.res.descrUpdated, y.handle ≠ x.handle := by
        intro y hy e
        rw [hxk] at e
        rcases (hr.upd y hy).2.2 with ⟨o', n', m1, m2⟩ | hnu
        · rw [e] at m1 m2
          have a := dictGet_of_mem_nodup hi.dKeys m1
          have b := dictGet_of_mem_nodup hi.dKeys hmem
          rw [a] at b; cases b
          exact m2 (by simp)
        · exact hnu (e ▸ hku)
      have he1 := he.repl h.dKeys (d := x) (d' := { o with ver := n.ver, body := n.body }) (r := n) hx hxh.symm (hnk.trans hxk.symm)
        (by
          intro d0 hd0 e
          have : d0 = o := mem_unique hw.dKeys hd0 hot (e.trans hxh)
          subst this; omega)
        (by rw [hxk, ← hoh]; exact List.mem_map_of_mem hot)
        (by
          intro hkp
          obtain ⟨ep, em⟩ := hkeep hkp _ hmem o rfl n rfl
          cases n; cases o
          simp only at ep em hnk hoh hu ⊢
          simp [ep, em, hnk, hoh, hu.1])
        hq3
      simp only [commitDItem, hfx]
      rw [updCorresponding_t, updCorresponding_res]
      have hn1 : ((replaceDescr c.t { o with ver := n.ver, body := n.body }).descrs.map (·.handle)).Nodup := by
        rw [replaceDescr_handles]; exact h.dKeys
      have hm1 : ({ o with ver := n.ver, body := n.body } : Descr) ∈ (replaceDescr c.t { o with ver := n.ver, body := n.body }).descrs :=
        mem_replaceDescr.2 (.inl ⟨rfl, hpres⟩)
      refine (he1.congr (fun _ => mem_reindexDescr hn1 hm1) (reindexDescr_nodup hn1 _)).push _ (by simp [isDelItem]) ?_
      simp


theorem commitDItems_ext (hw : WF t₀) (hi : DTxOK t₀ tx₀) (hs : DStatic t₀ tx₀ del) (hkeep : keepP → KeepsParent tx₀) :
    ∀ (pend done : List (Handle × DItem)) (c : DCommit), tx₀.descr = done ++ pend →
      CInv t₀ tx₀ del pend (pendUpd pend) c.t c.tx → RInv t₀ tx₀ del pend c.t c.res → RExt t₀ tx₀ flat keepP done c.t c.res →
      (flat → DeletesFlatFrom t₀ done pend) →
      RExt t₀ tx₀ flat keepP tx₀.descr (commitDItems del (toCreateOf tx₀) (toUpdateOf tx₀) c pend).1.t
        (commitDItems del (toCreateOf tx₀) (toUpdateOf tx₀) c pend).1.res := by
  intro pend
  induction pend with
  | nil => intro done c hsp _ _ he _; simp only [List.append_nil] at hsp; rw [hsp]; exact he
  | cons p rest ih =>
    intro done c hsp h hr he hfl
    obtain ⟨k, it⟩ := p
    have hmemAll : ∀ q ∈ (k, it) :: rest, q ∈ tx₀.descr := fun q hq => by rw [hsp]; simp only [List.mem_append]; exact .inr hq
    have hkeys : (((k, it) :: rest).map (·.1)).Nodup := by
      have := hi.dKeys; rw [hsp, List.map_append, List.nodup_append] at this; exact this.2.1
    obtain ⟨e1, h1⟩ := commitDItem_ok hw hi hs (hmemAll _ (by simp)) hkeys h
    have r1 := commitDItem_res hw hi hs (hmemAll _ (by simp)) hkeys h hr
    have x1 := commitDItem_ext hw hi hs hsp h hr he hfl hkeep
    simp only [commitDItems]
    generalize commitDItem del (toCreateOf tx₀) (toUpdateOf tx₀) c it = r at e1 h1 r1 x1
    obtain ⟨c1, e⟩ := r
    simp only at e1; subst e1
    simp only
    exact ih (done ++ [(k, it)]) c1 (by rw [hsp]; simp) h1 r1 x1 (fun f => (hfl f).2)

end Sdc.Mdib
