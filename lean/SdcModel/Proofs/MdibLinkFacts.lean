import SdcModel.Proofs.MdibLink
/-!
# from facts about a committed provider transaction to the consumer contract `ReportsDescribe`
-/
set_option linter.unusedSimpArgs false
namespace Sdc.Mdib
open Sdc.Consumer

theorem lookD (t : Mdib.Tables) (q : Nat) (i : Option Nat) (k : Handle) :
    lookupBy (·.handle) (absCore t q i).tabs.descrs k = findD t k := rfl
theorem lookS (t : Mdib.Tables) (q : Nat) (i : Option Nat) (k : Handle) :
    lookupBy (·.dh) (absCore t q i).tabs.states k = findS t k := rfl
theorem lookC (t : Mdib.Tables) (q : Nat) (i : Option Nat) (k : Handle) :
    lookupBy (·.h) (absCore t q i).tabs.cstates k = findC t k := rfl

/-- what has to be known about a committed transaction `t → t'` with result `r` -/
structure PFacts (t t' : Mdib.Tables) (r : TxResult) : Prop where
  ver : t.ver < t'.ver
  wf : WF t
  wf' : WF t'
  some_ : r.allS ≠ [] ∨ r.ctx ≠ [] ∨ r.descrUpdated ≠ [] ∨ r.descrCreated ≠ [] ∨ r.descrDeleted ≠ []
  partsDistinct : ((r.descrUpdated ++ r.descrCreated ++ r.descrDeleted).map (·.handle)).Nodup
  created : ∀ d ∈ r.descrCreated, findD t d.handle = none ∧ findD t' d.handle = some d
  updated : ∀ d ∈ r.descrUpdated, ∃ old, findD t d.handle = some old ∧ old.parent = d.parent ∧ old.mds = d.mds ∧
    findD t' d.handle = some d
  deleted : ∀ d ∈ r.descrDeleted, (findD t d.handle).isSome ∧ findD t' d.handle = none
  descrComplete : ∀ d ∈ t'.descrs, findD t d.handle = some d ∨ d.handle ∈ (r.descrUpdated ++ r.descrCreated).map (·.handle)
  descrRemoved : ∀ d ∈ t.descrs, (findD t' d.handle).isSome ∨ d.handle ∈ r.descrDeleted.map (·.handle)
  flat : ∀ q i, flatDeletes (absCore t q i) [] (resParts r) = true
  stateSound : ∀ s ∈ r.allS, findS t' s.dh = some s
  stateNewer : ∀ s ∈ r.allS, ∀ old, findS t s.dh = some old → old.sv < s.sv
  stateComplete : ∀ s ∈ t'.states, findS t s.dh = some s ∨ s ∈ r.allS
  stateRemoved : ∀ s ∈ t.states, (findS t' s.dh).isSome ∨ s.dh ∈ r.descrDeleted.map (·.handle)
  cstateSound : ∀ c ∈ r.ctx, findC t' c.h = some c
  cstateNewer : ∀ c ∈ r.ctx, ∀ old, findC t c.h = some old → old.sv < c.sv
  cstateComplete : ∀ c ∈ t'.ctx, findC t c.h = some c ∨ c ∈ r.ctx
  cstateRemoved : ∀ c ∈ t.ctx, (findC t' c.h).isSome ∨ c.dh ∈ r.descrDeleted.map (·.handle)
  cstateStable : ∀ c ∈ t'.ctx, ∀ old, findC t c.h = some old → old.dh = c.dh
  ctxUpdateLists : ∀ d ∈ r.descrUpdated, d.kind = .context → ∀ c ∈ t.ctx ++ t'.ctx, c.dh = d.handle →
    ∃ x ∈ r.ctx, x.h = c.h ∧ x.dh = d.handle

/-! ## the parts -/

theorem mem_resParts {r : TxResult} {p : DescrPart} :
    p ∈ resParts r ↔ (∃ d ∈ r.descrUpdated, p = (mkDPart r .update d).flat) ∨ (∃ d ∈ r.descrCreated, p = (mkDPart r .create d).flat) ∨
      (∃ d ∈ r.descrDeleted, p = (mkDPart r .delete d).flat) := by
  simp only [resParts, List.map_append, List.map_map, List.mem_append, List.mem_map, Function.comp]
  constructor
  · rintro ((⟨d, hd, rfl⟩ | ⟨d, hd, rfl⟩) | ⟨d, hd, rfl⟩)
    · exact .inl ⟨d, hd, rfl⟩
    · exact .inr (.inl ⟨d, hd, rfl⟩)
    · exact .inr (.inr ⟨d, hd, rfl⟩)
  · rintro (⟨d, hd, rfl⟩ | ⟨d, hd, rfl⟩ | ⟨d, hd, rfl⟩)
    · exact .inl (.inl ⟨d, hd, rfl⟩)
    · exact .inl (.inr ⟨d, hd, rfl⟩)
    · exact .inr ⟨d, hd, rfl⟩

theorem resParts_handles (r : TxResult) :
    (resParts r).map (·.descr.handle) = (r.descrUpdated ++ r.descrCreated ++ r.descrDeleted).map (·.handle) := by
  simp only [resParts, List.map_append, List.map_map]
  rfl

theorem resParts_deleted (r : TxResult) : Consumer.deletedHandles (resParts r) = r.descrDeleted.map (·.handle) := by
  simp only [Consumer.deletedHandles, partHandles, resParts, List.map_append, List.filter_append, List.map_map]
  have h1 : ∀ (l : List Descr) (m : ModType), (l.map (DPart.flat ∘ mkDPart r m)).filter (fun p => p.mod == ModType.delete) =
      if m = .delete then l.map (DPart.flat ∘ mkDPart r m) else [] := by
    intro l m
    induction l with
    | nil => simp
    | cons d ds ih => cases m <;> simp_all [DPart.flat, mkDPart]
  rw [h1, h1, h1]
  simp [List.map_map, Function.comp, DPart.flat, mkDPart]

theorem part_states_sub (r : TxResult) (m : ModType) (d : Descr) :
    (∀ s ∈ (mkDPart r m d).flat.states, s ∈ r.allS) ∧ (∀ c ∈ (mkDPart r m d).flat.cstates, c ∈ r.ctx) := by
  simp only [DPart.flat, mkDPart, List.mem_filter]
  exact ⟨fun s h => h.1, fun c h => h.1⟩

theorem partStates_sub (r : TxResult) : (∀ s ∈ partStates (resParts r), s ∈ r.allS) ∧ (∀ c ∈ partCStates (resParts r), c ∈ r.ctx) := by
  constructor
  · intro s hs
    simp only [partStates, List.mem_flatMap, List.mem_filter] at hs
    obtain ⟨p, ⟨hp, _⟩, hs⟩ := hs
    rcases mem_resParts.1 hp with ⟨d, _, rfl⟩ | ⟨d, _, rfl⟩ | ⟨d, _, rfl⟩ <;> exact (part_states_sub r _ d).1 s hs
  · intro s hs
    simp only [partCStates, List.mem_flatMap, List.mem_filter] at hs
    obtain ⟨p, ⟨hp, _⟩, hs⟩ := hs
    rcases mem_resParts.1 hp with ⟨d, _, rfl⟩ | ⟨d, _, rfl⟩ | ⟨d, _, rfl⟩ <;> exact (part_states_sub r _ d).2 s hs

end Sdc.Mdib
