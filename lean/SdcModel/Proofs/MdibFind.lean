import SdcModel.MdibDescr
import SdcModel.Proofs.MdibVer
/-!
# helper lemmas: lookups in the keyed tables / saved-version lookups / insertion ordered dicts
(`find?` over `filter`, `append`, `map`; `rmX` / `addX`; `dictGet` / `dictSet` / `dictDel`)
-/
set_option linter.unusedSimpArgs false
namespace Sdc.Mdib

/-! ## order on `Option Nat` (core: `none ≤ x`, `some a ≤ some b ↔ a ≤ b`) -/

theorem optLe_refl (a : Option Nat) : a ≤ a := by cases a <;> simp
theorem optLe_trans {a b c : Option Nat} (h1 : a ≤ b) (h2 : b ≤ c) : a ≤ c := by
  cases a <;> cases b <;> cases c <;> simp_all <;> omega

/-! ## generic: `find?` by key -/

section generic
variable {α : Type} (key : α → Handle)

theorem find_filter_ne (l : List α) {h h' : Handle} (hne : h' ≠ h) :
    (l.filter (fun x => key x != h)).find? (fun x => key x == h') = l.find? (fun x => key x == h') := by
  induction l with
  | nil => rfl
  | cons a l ih =>
    simp only [List.filter_cons]
    by_cases ha : key a = h
    · subst ha
      have : (key a == h') = false := by simp; exact fun e => hne e.symm
      simp [List.find?_cons, ih, this]
    · simp [ha, List.find?_cons, ih]

theorem find_filter_self (l : List α) (h : Handle) :
    (l.filter (fun x => key x != h)).find? (fun x => key x == h) = none := by
  simp [List.find?_eq_none]

theorem find_some_key {l : List α} {h : Handle} {a : α} (hf : l.find? (fun x => key x == h) = some a) :
    key a = h ∧ a ∈ l := by
  have h1 := List.find?_some hf
  exact ⟨by simpa using h1, List.mem_of_find?_eq_some hf⟩

theorem find_none_iff {l : List α} {h : Handle} :
    l.find? (fun x => key x == h) = none ↔ h ∉ l.map key := by
  simp [List.find?_eq_none]

theorem find_isSome_iff {l : List α} {h : Handle} :
    (l.find? (fun x => key x == h)).isSome = true ↔ h ∈ l.map key := by
  cases hf : l.find? (fun x => key x == h) with
  | none => simpa using (find_none_iff key).1 hf
  | some a =>
    have := find_some_key key hf
    simp only [Option.isSome_some, true_iff, List.mem_map]
    exact ⟨a, this.2, this.1⟩

/-- with unique keys a member is what `find?` returns -/
theorem find_of_mem_nodup {l : List α} (hn : (l.map key).Nodup) {a : α} (ha : a ∈ l) :
    l.find? (fun x => key x == key a) = some a := by
  induction l with
  | nil => cases ha
  | cons b l ih =>
    simp only [List.map_cons, List.nodup_cons] at hn
    rcases List.mem_cons.1 ha with rfl | ha'
    · simp [List.find?_cons]
    · have : key b ≠ key a := fun e => hn.1 (e ▸ List.mem_map_of_mem ha')
      simp [List.find?_cons, this, ih hn.2 ha']

theorem nodup_filter_key {l : List α} (hn : (l.map key).Nodup) (p : α → Bool) : ((l.filter p).map key).Nodup :=
  (List.filter_sublist.map key).nodup hn

theorem nodup_append_single {l : List α} (hn : (l.map key).Nodup) {a : α} (ha : key a ∉ l.map key) :
    ((l ++ [a]).map key).Nodup := by
  rw [List.map_append, List.nodup_append]
  refine ⟨hn, by simp, ?_⟩
  intro x hx y hy
  simp only [List.map_cons, List.map_nil, List.mem_singleton] at hy
  subst hy; intro e; exact ha (e ▸ hx)

theorem find_append_single (l : List α) (a : α) (h : Handle) :
    (l ++ [a]).find? (fun x => key x == h) =
      (l.find? (fun x => key x == h)).or (if key a = h then some a else none) := by
  by_cases e : key a = h <;> simp [List.find?_append, List.find?_cons, e]

end generic

/-! ## saved-version lookups -/

theorem savedGet_savedSet_self (l : List (Handle × Nat)) (h : Handle) (v : Nat) : savedGet (savedSet l h v) h = some v := by
  simp [savedGet, savedSet]

theorem savedGet_savedSet_ne (l : List (Handle × Nat)) {h h' : Handle} (v : Nat) (hne : h' ≠ h) :
    savedGet (savedSet l h v) h' = savedGet l h' := by
  have : ((h, v).1 == h') = false := by simp; exact fun e => hne e.symm
  simp only [savedGet, savedSet, List.find?_cons, this]
  rw [find_filter_ne (fun p : Handle × Nat => p.1) l hne]

/-! ## single states -/

@[simp] theorem findS_ver (t : Tables) (v : Nat) (h : Handle) : findS { t with ver := v } h = findS t h := rfl
@[simp] theorem findC_ver (t : Tables) (v : Nat) (h : Handle) : findC { t with ver := v } h = findC t h := rfl
@[simp] theorem findD_ver (t : Tables) (v : Nat) (h : Handle) : findD { t with ver := v } h = findD t h := rfl

theorem findS_some {t : Tables} {h : Handle} {s : SState} (hf : findS t h = some s) : s.dh = h ∧ s ∈ t.states :=
  find_some_key (fun x : SState => x.dh) hf
theorem findC_some {t : Tables} {h : Handle} {c : CState} (hf : findC t h = some c) : c.h = h ∧ c ∈ t.ctx :=
  find_some_key (fun x : CState => x.h) hf
theorem findD_some {t : Tables} {h : Handle} {d : Descr} (hf : findD t h = some d) : d.handle = h ∧ d ∈ t.descrs :=
  find_some_key (fun x : Descr => x.handle) hf

theorem rmState_states (t : Tables) (h : Handle) : (rmState t h).states = t.states.filter (fun x => x.dh != h) := by
  unfold rmState
  split
  · rename_i hf
    have := (find_none_iff (fun x : SState => x.dh)).1 hf
    symm; rw [List.filter_eq_self]
    intro a ha; simp only [bne_iff_ne, ne_eq]
    intro e; exact this (e ▸ List.mem_map_of_mem ha)
  · rfl
theorem rmCtx_ctx (t : Tables) (h : Handle) : (rmCtx t h).ctx = t.ctx.filter (fun x => x.h != h) := by
  unfold rmCtx
  split
  · rename_i hf
    have := (find_none_iff (fun x : CState => x.h)).1 hf
    symm; rw [List.filter_eq_self]
    intro a ha; simp only [bne_iff_ne, ne_eq]
    intro e; exact this (e ▸ List.mem_map_of_mem ha)
  · rfl
theorem rmDescr_descrs (t : Tables) (h : Handle) : (rmDescr t h).descrs = t.descrs.filter (fun x => x.handle != h) := by
  unfold rmDescr
  split
  · rename_i hf
    have := (find_none_iff (fun x : Descr => x.handle)).1 hf
    symm; rw [List.filter_eq_self]
    intro a ha; simp only [bne_iff_ne, ne_eq]
    intro e; exact this (e ▸ List.mem_map_of_mem ha)
  · rfl

@[simp] theorem rmState_descrs (t : Tables) (h : Handle) : (rmState t h).descrs = t.descrs := by unfold rmState; split <;> rfl
@[simp] theorem rmState_ctx (t : Tables) (h : Handle) : (rmState t h).ctx = t.ctx := by unfold rmState; split <;> rfl
@[simp] theorem rmState_dSaved (t : Tables) (h : Handle) : (rmState t h).dSaved = t.dSaved := by unfold rmState; split <;> rfl
@[simp] theorem rmState_cSaved (t : Tables) (h : Handle) : (rmState t h).cSaved = t.cSaved := by unfold rmState; split <;> rfl
@[simp] theorem rmCtx_descrs (t : Tables) (h : Handle) : (rmCtx t h).descrs = t.descrs := by unfold rmCtx; split <;> rfl
@[simp] theorem rmCtx_states (t : Tables) (h : Handle) : (rmCtx t h).states = t.states := by unfold rmCtx; split <;> rfl
@[simp] theorem rmCtx_dSaved (t : Tables) (h : Handle) : (rmCtx t h).dSaved = t.dSaved := by unfold rmCtx; split <;> rfl
@[simp] theorem rmCtx_sSaved (t : Tables) (h : Handle) : (rmCtx t h).sSaved = t.sSaved := by unfold rmCtx; split <;> rfl
@[simp] theorem rmDescr_states (t : Tables) (h : Handle) : (rmDescr t h).states = t.states := by unfold rmDescr; split <;> rfl
@[simp] theorem rmDescr_ctx (t : Tables) (h : Handle) : (rmDescr t h).ctx = t.ctx := by unfold rmDescr; split <;> rfl
@[simp] theorem rmDescr_sSaved (t : Tables) (h : Handle) : (rmDescr t h).sSaved = t.sSaved := by unfold rmDescr; split <;> rfl
@[simp] theorem rmDescr_cSaved (t : Tables) (h : Handle) : (rmDescr t h).cSaved = t.cSaved := by unfold rmDescr; split <;> rfl

theorem findS_rmState_self (t : Tables) (h : Handle) : findS (rmState t h) h = none := by
  unfold findS; rw [rmState_states]; exact find_filter_self (fun x : SState => x.dh) _ _
theorem findS_rmState_ne (t : Tables) {h h' : Handle} (hne : h' ≠ h) : findS (rmState t h) h' = findS t h' := by
  unfold findS; rw [rmState_states]; exact find_filter_ne (fun x : SState => x.dh) _ hne
theorem findC_rmCtx_self (t : Tables) (h : Handle) : findC (rmCtx t h) h = none := by
  unfold findC; rw [rmCtx_ctx]; exact find_filter_self (fun x : CState => x.h) _ _
theorem findC_rmCtx_ne (t : Tables) {h h' : Handle} (hne : h' ≠ h) : findC (rmCtx t h) h' = findC t h' := by
  unfold findC; rw [rmCtx_ctx]; exact find_filter_ne (fun x : CState => x.h) _ hne
theorem findD_rmDescr_self (t : Tables) (h : Handle) : findD (rmDescr t h) h = none := by
  unfold findD; rw [rmDescr_descrs]; exact find_filter_self (fun x : Descr => x.handle) _ _
theorem findD_rmDescr_ne (t : Tables) {h h' : Handle} (hne : h' ≠ h) : findD (rmDescr t h) h' = findD t h' := by
  unfold findD; rw [rmDescr_descrs]; exact find_filter_ne (fun x : Descr => x.handle) _ hne

@[simp] theorem findS_rmCtx (t : Tables) (h h' : Handle) : findS (rmCtx t h) h' = findS t h' := by simp [findS]
@[simp] theorem findS_rmDescr (t : Tables) (h h' : Handle) : findS (rmDescr t h) h' = findS t h' := by simp [findS]
@[simp] theorem findC_rmState (t : Tables) (h h' : Handle) : findC (rmState t h) h' = findC t h' := by simp [findC]
@[simp] theorem findC_rmDescr (t : Tables) (h h' : Handle) : findC (rmDescr t h) h' = findC t h' := by simp [findC]
@[simp] theorem findD_rmState (t : Tables) (h h' : Handle) : findD (rmState t h) h' = findD t h' := by simp [findD]
@[simp] theorem findD_rmCtx (t : Tables) (h h' : Handle) : findD (rmCtx t h) h' = findD t h' := by simp [findD]

theorem sSaved_rmState_self (t : Tables) (h : Handle) :
    savedGet (rmState t h).sSaved h = match findS t h with | some s => some s.sv | none => savedGet t.sSaved h := by
  cases hf : findS t h <;> simp [rmState, hf, savedGet_savedSet_self]
theorem sSaved_rmState_ne (t : Tables) {h h' : Handle} (hne : h' ≠ h) : savedGet (rmState t h).sSaved h' = savedGet t.sSaved h' := by
  cases hf : findS t h <;> simp [rmState, hf, savedGet_savedSet_ne _ _ hne]
theorem cSaved_rmCtx_self (t : Tables) (h : Handle) :
    savedGet (rmCtx t h).cSaved h = match findC t h with | some s => some s.sv | none => savedGet t.cSaved h := by
  cases hf : findC t h <;> simp [rmCtx, hf, savedGet_savedSet_self]
theorem cSaved_rmCtx_ne (t : Tables) {h h' : Handle} (hne : h' ≠ h) : savedGet (rmCtx t h).cSaved h' = savedGet t.cSaved h' := by
  cases hf : findC t h <;> simp [rmCtx, hf, savedGet_savedSet_ne _ _ hne]
theorem dSaved_rmDescr_self (t : Tables) (h : Handle) :
    savedGet (rmDescr t h).dSaved h = match findD t h with | some s => some s.ver | none => savedGet t.dSaved h := by
  cases hf : findD t h <;> simp [rmDescr, hf, savedGet_savedSet_self]
theorem dSaved_rmDescr_ne (t : Tables) {h h' : Handle} (hne : h' ≠ h) : savedGet (rmDescr t h).dSaved h' = savedGet t.dSaved h' := by
  cases hf : findD t h <;> simp [rmDescr, hf, savedGet_savedSet_ne _ _ hne]

/-! ### add -/

theorem addState_ok_iff {t t' : Tables} {s : SState} :
    addState t s = .ok t' ↔ findS t s.dh = none ∧ t' = { t with states := t.states ++ [s] } := by
  unfold addState
  cases hf : findS t s.dh <;> simp [eq_comm]
theorem addCtx_ok_iff {t t' : Tables} {c : CState} :
    addCtx t c = .ok t' ↔ findC t c.h = none ∧ t' = { t with ctx := t.ctx ++ [c] } := by
  unfold addCtx
  cases hf : findC t c.h <;> simp [eq_comm]
theorem addDescr_ok_iff {t t' : Tables} {d : Descr} :
    addDescr t d = .ok t' ↔ findD t d.handle = none ∧ t' = { t with descrs := t.descrs ++ [d] } := by
  unfold addDescr
  cases hf : findD t d.handle <;> simp [eq_comm]

theorem addState_error {t : Tables} {s : SState} {e : Err} (h : addState t s = .error e) : (findS t s.dh).isSome := by
  unfold addState at h; split at h
  · assumption
  · cases h
theorem addCtx_error {t : Tables} {c : CState} {e : Err} (h : addCtx t c = .error e) : (findC t c.h).isSome := by
  unfold addCtx at h; split at h
  · assumption
  · cases h
theorem addDescr_error {t : Tables} {d : Descr} {e : Err} (h : addDescr t d = .error e) : (findD t d.handle).isSome := by
  unfold addDescr at h; split at h
  · assumption
  · cases h

theorem findS_append (t : Tables) (s : SState) (h : Handle) :
    findS { t with states := t.states ++ [s] } h = (findS t h).or (if s.dh = h then some s else none) :=
  find_append_single (fun x : SState => x.dh) _ _ _
theorem findC_append (t : Tables) (c : CState) (h : Handle) :
    findC { t with ctx := t.ctx ++ [c] } h = (findC t h).or (if c.h = h then some c else none) :=
  find_append_single (fun x : CState => x.h) _ _ _
theorem findD_append (t : Tables) (d : Descr) (h : Handle) :
    findD { t with descrs := t.descrs ++ [d] } h = (findD t h).or (if d.handle = h then some d else none) :=
  find_append_single (fun x : Descr => x.handle) _ _ _

/-! ## insertion ordered dicts -/

section dict
variable {α : Type}

theorem dictGet_some_mem {l : List (Handle × α)} {h : Handle} {v : α} (hg : dictGet l h = some v) : (h, v) ∈ l := by
  unfold dictGet at hg
  cases hf : l.find? (fun p => p.1 == h) with
  | none => simp [hf] at hg
  | some p =>
    simp [hf] at hg
    have := find_some_key (fun p : Handle × α => p.1) hf
    obtain ⟨a, b⟩ := p
    simp at this hg; subst hg; rw [← this.1]; exact this.2

theorem dictGet_isSome_iff {l : List (Handle × α)} {h : Handle} : (dictGet l h).isSome = true ↔ h ∈ l.map (·.1) := by
  unfold dictGet
  rw [Option.isSome_map]
  exact find_isSome_iff (fun p : Handle × α => p.1)

theorem dictGet_none_iff {l : List (Handle × α)} {h : Handle} : dictGet l h = none ↔ h ∉ l.map (·.1) := by
  unfold dictGet
  rw [Option.map_eq_none_iff]
  exact find_none_iff (fun p : Handle × α => p.1)

theorem dictGet_of_mem_nodup {l : List (Handle × α)} (hn : (l.map (·.1)).Nodup) {h : Handle} {v : α} (hm : (h, v) ∈ l) :
    dictGet l h = some v := by
  unfold dictGet
  have := find_of_mem_nodup (fun p : Handle × α => p.1) hn hm
  simp only at this
  rw [this]; rfl

theorem dictSet_keys_of_mem {l : List (Handle × α)} {h : Handle} (hm : h ∈ l.map (·.1)) (v : α) :
    (dictSet l h v).map (·.1) = l.map (·.1) := by
  have hany : l.any (fun p => p.1 == h) = true := by
    simp only [List.any_eq_true, beq_iff_eq]
    simpa [List.mem_map] using hm
  unfold dictSet; rw [if_pos hany, List.map_map]
  apply List.map_congr_left
  intro p _
  by_cases e : p.1 = h <;> simp [e]

theorem dictSet_of_not_mem {l : List (Handle × α)} {h : Handle} (hm : h ∉ l.map (·.1)) (v : α) :
    dictSet l h v = l ++ [(h, v)] := by
  have hany : ¬ l.any (fun p => p.1 == h) = true := by
    simp only [List.any_eq_true, beq_iff_eq, not_exists, not_and]
    intro p hp e; exact hm (e ▸ List.mem_map_of_mem hp)
  unfold dictSet; rw [if_neg hany]

theorem dictSet_keys_nodup {l : List (Handle × α)} (hn : (l.map (·.1)).Nodup) (h : Handle) (v : α) :
    ((dictSet l h v).map (·.1)).Nodup := by
  by_cases hm : h ∈ l.map (·.1)
  · rw [dictSet_keys_of_mem hm]; exact hn
  · rw [dictSet_of_not_mem hm]; exact nodup_append_single (fun p : Handle × α => p.1) hn hm

/-- what is in the dict after an assignment -/
theorem mem_dictSet {l : List (Handle × α)} {h : Handle} {v : α} {p : Handle × α} (hp : p ∈ dictSet l h v) :
    p = (h, v) ∨ (p.1 ≠ h ∧ p ∈ l) := by
  unfold dictSet at hp
  split at hp
  · simp only [List.mem_map] at hp
    obtain ⟨q, hq, e⟩ := hp
    by_cases e' : q.1 = h
    · simp [e'] at e; exact .inl e.symm
    · simp [e'] at e; subst e; exact .inr ⟨e', hq⟩
  · rename_i hany
    simp only [List.mem_append, List.mem_singleton] at hp
    rcases hp with hp | hp
    · refine .inr ⟨?_, hp⟩
      intro e; apply hany
      simp only [List.any_eq_true, beq_iff_eq]; exact ⟨p, hp, e⟩
    · exact .inl hp

theorem mem_dictSet_self (l : List (Handle × α)) (h : Handle) (v : α) : (h, v) ∈ dictSet l h v := by
  by_cases hm : h ∈ l.map (·.1)
  · have hany : l.any (fun p => p.1 == h) = true := by
      simp only [List.any_eq_true, beq_iff_eq]; simpa [List.mem_map] using hm
    unfold dictSet; rw [if_pos hany]
    simp only [List.mem_map] at hm ⊢
    obtain ⟨q, hq, e⟩ := hm
    exact ⟨q, hq, by simp [e]⟩
  · rw [dictSet_of_not_mem hm]; simp

theorem mem_dictSet_of_ne {l : List (Handle × α)} {h : Handle} (v : α) {p : Handle × α} (hp : p ∈ l) (hne : p.1 ≠ h) :
    p ∈ dictSet l h v := by
  unfold dictSet
  split
  · simp only [List.mem_map]; exact ⟨p, hp, by simp [hne]⟩
  · simp [hp]

theorem mem_dictDel {l : List (Handle × α)} {h : Handle} {p : Handle × α} : p ∈ dictDel l h ↔ p ∈ l ∧ p.1 ≠ h := by
  simp [dictDel, List.mem_filter]

theorem dictDel_keys_nodup {l : List (Handle × α)} (hn : (l.map (·.1)).Nodup) (h : Handle) : ((dictDel l h).map (·.1)).Nodup :=
  nodup_filter_key (fun p : Handle × α => p.1) hn _

theorem dictGet_dictSet_self (l : List (Handle × α)) (hn : (l.map (·.1)).Nodup) (h : Handle) (v : α) :
    dictGet (dictSet l h v) h = some v :=
  dictGet_of_mem_nodup (dictSet_keys_nodup hn h v) (mem_dictSet_self l h v)

end dict

end Sdc.Mdib
