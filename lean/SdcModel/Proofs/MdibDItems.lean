import SdcModel.Proofs.MdibDSteps
/-!
# `commitDItems` over good items cannot fail and ends with the commit invariant for an empty pending list
-/
set_option linter.unusedSimpArgs false
namespace Sdc.Mdib

variable {t₀ : Tables} {tx₀ : DTx} {del : List Handle} {pend : List (Handle × DItem)} {st : Handle → Prop}

/-- handles whose descriptor update is still pending: their states count as stale -/
def pendUpd (pend : List (Handle × DItem)) (x : Handle) : Prop := ∃ o n, (x, (⟨some o, some n⟩ : DItem)) ∈ pend

theorem in_create_or_update (hi : DTxOK t₀ tx₀) {q : Handle} {it : DItem} {m : Descr} (hm : (q, it) ∈ tx₀.descr)
    (e : it.new = some m) : q ∈ toCreateOf tx₀ ∨ q ∈ toUpdateOf tx₀ := by
  have hh := hi.dNew _ hm m e
  obtain ⟨old, new⟩ := it
  simp only at e; subst e
  cases old with
  | none => exact .inl (mem_toCreateOf.2 ⟨_, hm, m, rfl, hh⟩)
  | some o => exact .inr (mem_toUpdateOf.2 ⟨_, hm, o, m, rfl, hh⟩)

theorem created_not_in_t0 (hi : DTxOK t₀ tx₀) {q : Handle} (hq : q ∈ toCreateOf tx₀) : q ∉ t₀.descrs.map (·.handle) := by
  obtain ⟨p, hp, n, e, rfl⟩ := mem_toCreateOf.1 hq
  have := hi.dOld p hp
  rw [e] at this
  have hh := hi.dNew p hp n (by rw [e]; rfl)
  rw [hh]
  exact (find_none_iff (fun d : Descr => d.handle)).1 this.symm

theorem mem_incParent_of_ne {c : DCommit} {q : Handle} {x : Descr} (hx : x ∈ c.t.descrs) (hne : x.handle ≠ q) :
    x ∈ (incParent c q).t.descrs := by
  unfold incParent
  split
  · exact hx
  · rename_i p hp
    split
    · exact hx
    · rw [updCorresponding_t]
      exact mem_replaceDescr.2 (.inr ⟨hx, by simpa [(findD_some hp).1] using hne⟩)

/-- the parent bump in the create / delete case -/
theorem CInv.maybeInc {c : DCommit} (h : CInv t₀ tx₀ del pend st c.t c.tx) (hi : DTxOK t₀ tx₀) {q : Handle} (hq : q ∉ del)
    (h1 : q ∉ toCreateOf tx₀) (h2 : q ∉ toUpdateOf tx₀) :
    CInv t₀ tx₀ del pend st (incParent c q).t (incParent c q).tx := by
  refine (h.incPar hq ?_).1
  intro p hp ho n hn e
  obtain ⟨it, m, hm, e', _⟩ := (h.ci p hp).fresh ho n hn
  rcases in_create_or_update hi hm e' with a | a
  · exact h1 (e ▸ a)
  · exact h2 (e ▸ a)

/-- `_update_corresponding_state` for the descriptor of the item being processed -/
theorem CInv.finish {c : DCommit} {k : Handle} {it : DItem} {m d : Descr}
    (h : CInv t₀ tx₀ del pend (fun x => st x ∨ x = k) c.t c.tx) (hi : DTxOK t₀ tx₀) (hmem : (k, it) ∈ tx₀.descr)
    (hnew : it.new = some m) (hd : d ∈ c.t.descrs) (hdh : d.handle = k) (hdv : d.ver = m.ver) (hnd : k ∉ del) :
    CInv t₀ tx₀ del pend st (updCorresponding c d).t (updCorresponding c d).tx := by
  refine (CInv.updCorr (st := st) (by rw [hdh]; exact h) hd (by rw [hdh]; exact hnd) ?_).1
  intro p hp ho n hn e
  obtain ⟨it', m', hm', e', ev⟩ := (h.ci p hp).fresh ho n hn
  rw [e, hdh] at hm'
  have : it' = it := by
    have a := dictGet_of_mem_nodup hi.dKeys hm'
    have b := dictGet_of_mem_nodup hi.dKeys hmem
    rw [a] at b; exact Option.some.inj b
  subst this
  rw [hnew] at e'; cases e'
  rw [ev, hdv]

theorem commitDItem_ok (hw : WF t₀) (hi : DTxOK t₀ tx₀) (hs : DStatic t₀ tx₀ del) {c : DCommit} {k : Handle} {it : DItem}
    (hmem : (k, it) ∈ tx₀.descr) (hkeys : (((k, it) :: pend).map (·.1)).Nodup)
    (h : CInv t₀ tx₀ del ((k, it) :: pend) (pendUpd ((k, it) :: pend)) c.t c.tx) :
    (commitDItem del (toCreateOf tx₀) (toUpdateOf tx₀) c it).2 = none ∧
    CInv t₀ tx₀ del pend (pendUpd pend) (commitDItem del (toCreateOf tx₀) (toUpdateOf tx₀) c it).1.t
      (commitDItem del (toCreateOf tx₀) (toUpdateOf tx₀) c it).1.tx := by
  obtain ⟨old, new⟩ := it
  cases old with
  | none =>
    cases new with
    | none => exact absurd rfl (hi.dSome _ hmem rfl)
    | some n =>
      -- create
      have hst : ∀ x, pendUpd ((k, (⟨none, some n⟩ : DItem)) :: pend) x → pendUpd pend x := by
        rintro x ⟨o, m, hm⟩
        rcases List.mem_cons.1 hm with e | hm
        · cases (Prod.mk.inj e).2
        · exact ⟨o, m, hm⟩
      obtain ⟨hadd, h1⟩ := (h.mono_st hst).add hi hs hmem hkeys
      have hnh : n.handle = k := hi.dNew _ hmem n rfl
      have hnd : k ∉ del := fun hd => by
        obtain ⟨d, hd', e⟩ := hs.delSub _ hd
        have := hi.dOld _ hmem
        exact (find_none_iff (fun d : Descr => d.handle)).1 this.symm (e ▸ List.mem_map_of_mem hd')
      simp only [commitDItem, hadd]
      refine ⟨(by first | rfl | trivial), ?_⟩
      cases hp : n.parent with
      | none =>
        simp only
        exact CInv.finish (it := ⟨none, some n⟩) h1 hi hmem rfl (by simp) hnh rfl hnd
      | some p =>
        simp only
        split
        · exact CInv.finish (it := ⟨none, some n⟩) h1 hi hmem rfl (by simp) hnh rfl hnd
        · rename_i hcond
          simp only [Bool.or_eq_true, List.contains_eq_mem, decide_eq_true_eq, not_or] at hcond
          have hpd : p ∉ del := by
            rcases hs.crePar _ hmem n rfl p hp with ⟨m, hm⟩ | ⟨a, _⟩
            · exact absurd (mem_toCreateOf.2 ⟨_, hm, m, rfl, hi.dNew _ hm m rfl⟩) hcond.1
            · exact a
          refine CInv.finish (it := ⟨none, some n⟩) (CInv.maybeInc (c := ⟨_, _, _⟩) h1 hi hpd hcond.1 hcond.2) hi hmem rfl
            (mem_incParent_of_ne (by simp) ?_) hnh rfl hnd
          intro e
          exact hcond.1 (mem_toCreateOf.2 ⟨_, hmem, n, rfl, e⟩)
  | some o =>
    have hok := hi.dOld _ hmem
    simp only at hok
    obtain ⟨hoh, hot⟩ := findD_some hok.symm
    cases new with
    | none =>
      -- delete
      have hst : ∀ x, pendUpd ((k, (⟨some o, none⟩ : DItem)) :: pend) x → pendUpd pend x := by
        rintro x ⟨o', m, hm⟩
        rcases List.mem_cons.1 hm with e | hm
        · cases (Prod.mk.inj e).2
        · exact ⟨o', m, hm⟩
      have h0 := (h.mono_st hst).drop (.inl (by simp)) hi hmem
      have hod : o.handle ∈ del := by rw [hoh]; exact hs.delRoot _ hmem o rfl
      simp only [commitDItem]
      split
      · exact ⟨rfl, h0⟩
      · refine ⟨?_, ?_⟩
        · cases o.parent <;> simp only <;> (try split) <;> rfl
        · have h1 := h0.delete hi hs hod
          cases hp : o.parent with
          | none => simp only; exact h1
          | some p =>
            simp only
            split
            · exact h1
            · rename_i hcond
              simp only [Bool.or_eq_true, List.contains_eq_mem, decide_eq_true_eq, not_or] at hcond
              refine CInv.maybeInc (c := ⟨_, _, _⟩) h1 hi hcond.1 ?_ hcond.2
              intro hc
              obtain ⟨q, hq, e⟩ := hw.parent o hot p hp
              exact created_not_in_t0 hi hc (e ▸ List.mem_map_of_mem hq)
    | some n =>
      -- update
      have hnd : k ∉ del := hs.updNotDel _ hmem o n rfl
      have hpres := h.dSurv o hot (by rw [hoh]; exact hnd)
      obtain ⟨x, hx, hxh⟩ := List.mem_map.1 hpres
      have hfx : findD c.t o.handle = some x := by
        have := find_of_mem_nodup (fun d : Descr => d.handle) h.dKeys hx
        simp only [hxh] at this; exact this
      have hst : ∀ y, pendUpd ((k, (⟨some o, some n⟩ : DItem)) :: pend) y → pendUpd pend y ∨ y = x.handle := by
        rintro y ⟨o', m, hm⟩
        rcases List.mem_cons.1 hm with e | hm
        · exact .inr ((Prod.mk.inj e).1.trans (hoh.symm.trans hxh.symm))
        · exact .inl ⟨o', m, hm⟩
      have h0 := h.drop (.inl (by simp)) hi hmem
      obtain ⟨ep, ek, em⟩ := h.dOld x hx o hot hxh.symm
      have h1 := h0.replace (d := x) (d' := { o with ver := n.ver, body := n.body }) hx hxh.symm ep ek em
        (by
          intro d0 hd0 e
          have : d0 = o := mem_unique hw.dKeys hd0 hot (e.trans hxh)
          subst this
          have := (hi.dUpd _ hmem d0 rfl n rfl).2
          simp only; omega)
        (by
          intro hnone
          have := (find_none_iff (fun d : Descr => d.handle)).1 hnone
          exact absurd (hxh ▸ List.mem_map_of_mem hot) this)
      have h1' : CInv t₀ tx₀ del pend (fun y => pendUpd pend y ∨ y = k) (replaceDescr c.t { o with ver := n.ver, body := n.body }) c.tx := by
        refine h1.mono_st ?_
        rintro y (hy | hy)
        · rcases hst y hy with a | a
          · exact .inl a
          · exact .inr (a.trans (hxh.trans hoh))
        · exact .inr (hy.trans (hxh.trans hoh))
      have hmem' : ({ o with ver := n.ver, body := n.body } : Descr) ∈ (replaceDescr c.t { o with ver := n.ver, body := n.body }).descrs :=
        mem_replaceDescr.2 (.inl ⟨rfl, hpres⟩)
      simp only [commitDItem, hfx]
      refine ⟨(by first | rfl | trivial), ?_⟩
      refine CInv.reindex (CInv.finish (c := ⟨_, _, _⟩) (it := ⟨some o, some n⟩) (d := { o with ver := n.ver, body := n.body })
        h1' hi hmem rfl hmem' hoh rfl hnd) ?_
      rw [updCorresponding_t]; exact hmem'

end Sdc.Mdib
