import SdcModel.Reports
/-! helper lemmas about `groupBy` (Python defaultdict grouping) -/
namespace Sdc.Mdib

theorem groupInsert_flat {σ} (k : Handle) (x : σ) (g : List (Handle × List σ)) :
    ((groupInsert k x g).flatMap (·.2)).Perm (g.flatMap (·.2) ++ [x]) := by
  induction g with
  | nil => simp [groupInsert]
  | cons p rest ih =>
    obtain ⟨k', xs⟩ := p
    simp only [groupInsert]
    split
    · simp only [List.flatMap_cons, List.append_assoc]
      -- xs ++ [x] ++ rest.flat  ~  xs ++ rest.flat ++ [x]
      apply List.Perm.append_left
      exact List.perm_append_comm
    · simp only [List.flatMap_cons, List.append_assoc]
      exact List.Perm.append_left _ ih

theorem groupBy_flat_aux {σ} (key : σ → Handle) (l : List σ) (acc : List (Handle × List σ)) :
    ((l.foldl (fun acc x => groupInsert (key x) x acc) acc).flatMap (·.2)).Perm (acc.flatMap (·.2) ++ l) := by
  induction l generalizing acc with
  | nil => simp
  | cons x xs ih =>
    simp only [List.foldl]
    refine (ih _).trans ?_
    have := groupInsert_flat (key x) x acc
    refine (List.Perm.append_right xs this).trans ?_
    simp

/-- grouping neither loses nor invents nor duplicates members -/
theorem groupBy_flat {σ} (key : σ → Handle) (l : List σ) : ((groupBy key l).flatMap (·.2)).Perm l := by
  simpa [groupBy] using groupBy_flat_aux key l []

/-- invariant of the grouping: every member sits in the group of its key -/
def KeysOK {σ} (key : σ → Handle) (g : List (Handle × List σ)) : Prop := ∀ p ∈ g, ∀ x ∈ p.2, key x = p.1

theorem groupInsert_keysOK {σ} (key : σ → Handle) (x : σ) (g : List (Handle × List σ)) (h : KeysOK key g) :
    KeysOK key (groupInsert (key x) x g) := by
  induction g with
  | nil =>
    intro p hp y hy
    simp [groupInsert] at hp; subst hp; simp at hy; subst hy; rfl
  | cons q rest ih =>
    obtain ⟨k', xs⟩ := q
    have hrest : KeysOK key rest := fun p hp => h p (List.mem_cons_of_mem _ hp)
    simp only [groupInsert]
    split
    · rename_i heq
      have heq : k' = key x := by simpa using heq
      intro p hp y hy
      rcases List.mem_cons.mp hp with hp | hp
      · subst hp
        simp only [List.mem_append, List.mem_singleton] at hy
        rcases hy with hy | hy
        · exact h (k', xs) (List.mem_cons_self ..) y hy
        · subst hy; exact heq.symm
      · exact hrest p hp y hy
    · intro p hp y hy
      rcases List.mem_cons.mp hp with hp | hp
      · subst hp; exact h (k', xs) (List.mem_cons_self ..) y hy
      · exact ih hrest p hp y hy

theorem groupBy_keysOK_aux {σ} (key : σ → Handle) (l : List σ) (acc : List (Handle × List σ)) (h : KeysOK key acc) :
    KeysOK key (l.foldl (fun acc x => groupInsert (key x) x acc) acc) := by
  induction l generalizing acc with
  | nil => exact h
  | cons x xs ih => exact ih _ (groupInsert_keysOK key x acc h)

theorem groupBy_keysOK {σ} (key : σ → Handle) (l : List σ) : KeysOK key (groupBy key l) :=
  groupBy_keysOK_aux key l [] (fun _ hp => by cases hp)

/-- the group keys are pairwise distinct: all states of one MDS are in ONE part -/
theorem groupInsert_keys {σ} (k : Handle) (x : σ) (g : List (Handle × List σ)) (h : (g.map (·.1)).Nodup) :
    ((groupInsert k x g).map (·.1)).Nodup ∧ ∀ k', k' ∈ (groupInsert k x g).map (·.1) → k' = k ∨ k' ∈ g.map (·.1) := by
  induction g with
  | nil => simp [groupInsert]
  | cons q rest ih =>
    obtain ⟨k', xs⟩ := q
    simp only [List.map_cons, List.nodup_cons] at h
    simp only [groupInsert]
    split
    · simp only [List.map_cons, List.nodup_cons]
      exact ⟨h, fun k'' hk => Or.inr hk⟩
    · rename_i hne
      have hne : ¬ k' = k := by simpa using hne
      obtain ⟨ih1, ih2⟩ := ih h.2
      refine ⟨?_, ?_⟩
      · simp only [List.map_cons, List.nodup_cons]
        refine ⟨fun hm => ?_, ih1⟩
        rcases ih2 k' hm with e | e
        · exact hne e
        · exact h.1 e
      · intro k'' hk
        simp only [List.map_cons, List.mem_cons] at hk ⊢
        rcases hk with e | e
        · exact Or.inr (Or.inl e)
        · rcases ih2 k'' e with e | e
          · exact Or.inl e
          · exact Or.inr (Or.inr e)

theorem groupBy_keys_nodup_aux {σ} (key : σ → Handle) (l : List σ) (acc : List (Handle × List σ))
    (h : (acc.map (·.1)).Nodup) : ((l.foldl (fun acc x => groupInsert (key x) x acc) acc).map (·.1)).Nodup := by
  induction l generalizing acc with
  | nil => exact h
  | cons x xs ih => exact ih _ (groupInsert_keys (key x) x acc h).1

theorem groupBy_keys_nodup {σ} (key : σ → Handle) (l : List σ) : ((groupBy key l).map (·.1)).Nodup :=
  groupBy_keys_nodup_aux key l [] (by simp)

end Sdc.Mdib
