import SdcModel.MdibDescr
/-! helper lemmas: the commit functions never touch `ver` (only the explicit `ver + 1` does) -/
namespace Sdc.Mdib

@[simp] theorem rmState_ver (t : Tables) (h : Handle) : (rmState t h).ver = t.ver := by
  unfold rmState; split <;> rfl
@[simp] theorem rmCtx_ver (t : Tables) (h : Handle) : (rmCtx t h).ver = t.ver := by
  unfold rmCtx; split <;> rfl
@[simp] theorem rmDescr_ver (t : Tables) (h : Handle) : (rmDescr t h).ver = t.ver := by
  unfold rmDescr; split <;> rfl

theorem addState_ver {t t' : Tables} {s : SState} (h : addState t s = .ok t') : t'.ver = t.ver := by
  unfold addState at h; split at h
  · cases h
  · cases h; rfl
theorem addCtx_ver {t t' : Tables} {c : CState} (h : addCtx t c = .ok t') : t'.ver = t.ver := by
  unfold addCtx at h; split at h
  · cases h
  · cases h; rfl
theorem addDescr_ver {t t' : Tables} {d : Descr} (h : addDescr t d = .ok t') : t'.ver = t.ver := by
  unfold addDescr at h; split at h
  · cases h
  · cases h; rfl

theorem applySItems_ver (t : Tables) (items : List (Handle × SItem)) : (applySItems t items).1.ver = t.ver := by
  induction items generalizing t with
  | nil => rfl
  | cons it rest ih =>
    obtain ⟨h, it⟩ := it
    simp only [applySItems]
    split
    · cases hit : it.old <;> simp
    · rename_i t2 hadd
      have h2 := addState_ver hadd
      simp only [ih, h2]
      cases hit : it.old <;> simp

theorem applyCItems_ver (t : Tables) (items : List (Handle × CItem)) : (applyCItems t items).1.ver = t.ver := by
  induction items generalizing t with
  | nil => rfl
  | cons it rest ih =>
    obtain ⟨h, it⟩ := it
    simp only [applyCItems]
    split
    · rw [ih]; cases hit : it.old <;> simp
    · split
      · cases hit : it.old <;> simp
      · rename_i t2 hadd
        have h2 := addCtx_ver hadd
        simp only [ih, h2]
        cases hit : it.old <;> simp

end Sdc.Mdib

namespace Sdc.Mdib

@[simp] theorem updCorresponding_t (c : DCommit) (d : Descr) : (updCorresponding c d).t = c.t := by
  unfold updCorresponding
  split
  · rfl
  · split
    · rfl
    · split <;> rfl

@[simp] theorem replaceDescr_ver (t : Tables) (d : Descr) : (replaceDescr t d).ver = t.ver := rfl
@[simp] theorem reindexDescr_ver (t : Tables) (d : Descr) : (reindexDescr t d).ver = t.ver := rfl

@[simp] theorem incParent_ver (c : DCommit) (p : Handle) : (incParent c p).t.ver = c.t.ver := by
  unfold incParent
  split
  · rfl
  · split
    · rfl
    · simp

theorem foldl_rmCtx_ver (l : List CState) (t : Tables) : (l.foldl (fun t c => rmCtx t c.h) t).ver = t.ver := by
  induction l generalizing t with
  | nil => rfl
  | cons c cs ih => simp [List.foldl, ih]

@[simp] theorem rmDescrAndStates_ver (t : Tables) (d : Descr) : (rmDescrAndStates t d).ver = t.ver := by
  unfold rmDescrAndStates
  simp [foldl_rmCtx_ver]

theorem foldl_rmDescrAndStates_ver (l : List Descr) (t : Tables) : (l.foldl rmDescrAndStates t).ver = t.ver := by
  induction l generalizing t with
  | nil => rfl
  | cons c cs ih => simp [List.foldl, ih]

theorem commitDItem_ver (toDel toCreate toUpdate : List Handle) (c : DCommit) (it : DItem) :
    (commitDItem toDel toCreate toUpdate c it).1.t.ver = c.t.ver := by
  unfold commitDItem
  split
  · -- create
    split
    · rfl
    · rename_i t1 hadd
      have := addDescr_ver hadd
      simp only [updCorresponding_t]
      split
      · split <;> simp [this]
      · simp [this]
  · -- delete
    split
    · rfl
    · simp only
      split
      · split <;> simp [foldl_rmDescrAndStates_ver]
      · simp [foldl_rmDescrAndStates_ver]
  · -- update
    simp only
    split <;> simp
  · rfl

theorem commitDItems_ver (toDel toCreate toUpdate : List Handle) (c : DCommit) (items : List (Handle × DItem)) :
    (commitDItems toDel toCreate toUpdate c items).1.t.ver = c.t.ver := by
  induction items generalizing c with
  | nil => rfl
  | cons it rest ih =>
    obtain ⟨h, it⟩ := it
    simp only [commitDItems]
    have := commitDItem_ver toDel toCreate toUpdate c it
    split
    · rename_i c1 e heq
      rw [heq] at this; exact this
    · rename_i c1 heq
      rw [heq] at this
      rw [ih]; exact this

end Sdc.Mdib

namespace Sdc.Mdib

theorem applyKind_ver (c : DCommit) (k : Kind) : (applyKind c k).1.t.ver = c.t.ver := by
  simp [applyKind, applySItems_ver]

theorem applyKinds_ver (c : DCommit) (ks : List Kind) : (applyKinds c ks).1.t.ver = c.t.ver := by
  induction ks generalizing c with
  | nil => rfl
  | cons k ks ih =>
    simp only [applyKinds]
    have := applyKind_ver c k
    split
    · rename_i c1 e heq; rw [heq] at this; exact this
    · rename_i c1 heq; rw [heq] at this; rw [ih]; exact this

theorem applyCtx_ver (c : DCommit) : (applyCtx c).1.t.ver = c.t.ver := by
  simp [applyCtx, applyCItems_ver]

theorem commitStates_ver (c : DCommit) : (commitStates c).1.t.ver = c.t.ver := by
  unfold commitStates
  have h1 := applyKinds_ver c [.alert, .metric]
  split
  · rename_i c1 e heq; rw [heq] at h1; exact h1
  · rename_i c1 heq
    rw [heq] at h1
    have h2 := applyCtx_ver c1
    split
    · rename_i c2 e heq2; rw [heq2] at h2; exact h2.trans h1
    · rename_i c2 heq2
      rw [heq2] at h2
      rw [applyKinds_ver]; exact h2.trans h1

/-- a descriptor commit that passes the consistency check ends with exactly `ver + 1`, whatever happens inside -/
theorem commitD_ver (t : Tables) (tx : DTx) (hne : tx.descr.isEmpty = false) (hc : consistentD t tx = true) :
    (commitD t tx).1.ver = t.ver + 1 := by
  unfold commitD
  simp only [hne, hc, Bool.false_eq_true, if_false, Bool.not_true]
  have h1 := commitDItems_ver (deletedHandles t tx) (toCreateOf tx) (toUpdateOf tx) { t := { t with ver := t.ver + 1 }, tx := tx } tx.descr
  split
  · rename_i c e heq; rw [heq] at h1; exact h1
  · rename_i c heq
    rw [heq] at h1
    have := commitStates_ver c
    simp only at this ⊢
    rw [this]; exact h1

end Sdc.Mdib
