import SdcModel.Proofs.XmlBindingSelf
/-!
`XmlBinding`, part 4: the class-level round trip by induction over the property list and over the nesting depth.
-/
namespace Sdc.XmlBinding

theorem pairwise_cons {f : Fp} {fs : List Fp} (h : pairwiseIndep (f :: fs) = true) :
    (∀ g ∈ fs, f.indep g = true ∧ g.indep f = true) ∧ pairwiseIndep fs = true := by
  simp only [pairwiseIndep, Bool.and_eq_true, List.all_eq_true] at h
  exact ⟨fun g hg => h.1 g hg, h.2⟩

theorem writeProps_frame (C : Codec) (S : Schema) (wr : Wr) (hwr : ∀ c fs x x', wr c fs x = some x' → x'.tag = x.tag) :
    ∀ (ps : List PropE) (vs : List Val) (x x' : Xml), writeProps C S wr ps vs x = some x' →
      x'.tag = x.tag ∧ ∀ fp : Fp, (∀ p ∈ ps, fp.indep p.kind.fp = true) → Agree fp x x'
  | [], vs, x, x', h => by
    simp only [writeProps, Option.some.injEq] at h; subst h
    exact ⟨rfl, fun fp _ => Agree.refl ..⟩
  | p :: ps, [], x, x', h => by simp [writeProps] at h
  | p :: ps, v :: vs, x, x', h => by
    simp only [writeProps] at h
    split at h
    · rename_i x1 h1
      have f1 := writeKind_frame C S wr hwr p.kind v x x1 h1
      have f2 := writeProps_frame C S wr hwr ps vs x1 x' h
      refine ⟨f2.1.trans f1.1, fun fp hi => ?_⟩
      exact (f1.2 fp (hi p (List.mem_cons_self ..))).trans (f2.2 fp (fun q hq => hi q (List.mem_cons_of_mem _ hq)))
    · cases h

theorem WTprops_length (C : Codec) (S : Schema) (P : Nat → List Val → Prop) :
    ∀ (ps : List PropE) (vs : List Val), WTprops C S P ps vs → vs.length = ps.length
  | [], [], _ => rfl
  | [], _ :: _, h => by simp [WTprops] at h
  | _ :: _, [], h => by simp [WTprops] at h
  | p :: ps, v :: vs, h => by
    simp only [WTprops] at h
    simp [WTprops_length C S P ps vs h.2]

/-- the members of a class do not interfere: reading all of them after writing all of them gives the values back -/
theorem props_roundtrip (C : Codec) (S : Schema) (wr : Wr) (rd : Rd) (P : Nat → List Val → Prop)
    (hP : ∀ c fs, P c fs → RTobj wr rd c fs) (hwr : ∀ c fs x x', wr c fs x = some x' → x'.tag = x.tag) :
    ∀ (ps : List PropE) (vs : List Val) (x : Xml), pairwiseIndep (ps.map (·.kind.fp)) = true →
      (∀ p ∈ ps, Clean p.kind.fp x) → WTprops C S P ps vs →
      ∃ x', writeProps C S wr ps vs x = some x' ∧ readProps C S rd ps x' = some vs
  | [], [], x, _, _, _ => ⟨x, rfl, rfl⟩
  | [], _ :: _, _, _, _, h => by simp [WTprops] at h
  | _ :: _, [], _, _, _, h => by simp [WTprops] at h
  | p :: ps, v :: vs, x, hind, hcl, hwt => by
    simp only [WTprops] at hwt
    simp only [List.map_cons] at hind
    obtain ⟨hpq, hrest⟩ := pairwise_cons hind
    obtain ⟨x1, hw1, hr1⟩ := read_write_kind C S wr rd P hP p.kind v x (hcl p (List.mem_cons_self ..)) hwt.1
    have f1 := writeKind_frame C S wr hwr p.kind v x x1 hw1
    have hcl1 : ∀ q ∈ ps, Clean q.kind.fp x1 := fun q hq =>
      Clean.of_agree (f1.2 q.kind.fp (hpq q.kind.fp (List.mem_map_of_mem hq)).2) (hcl q (List.mem_cons_of_mem _ hq))
    obtain ⟨x', hw, hr⟩ := props_roundtrip C S wr rd P hP hwr ps vs x1 hrest hcl1 hwt.2
    refine ⟨x', by simp only [writeProps, hw1, hw], ?_⟩
    have f2 := writeProps_frame C S wr hwr ps vs x1 x' hw
    have hp : readKind C S rd p.kind x' = some v := by
      rw [← readKind_agree C S rd p.kind x1 x' (f2.2 p.kind.fp (fun q hq => (hpq q.kind.fp (List.mem_map_of_mem hq)).1))]
      exact hr1
    show mapM' (fun (q : PropE) => readKind C S rd q.kind x') (p :: ps) = some (v :: vs)
    have hr' : mapM' (fun (q : PropE) => readKind C S rd q.kind x') ps = some vs := hr
    simp only [mapM', hp, hr']

theorem writeInto_tag (C : Codec) (S : Schema) : ∀ (f c : Nat) (fs : List Val) (x x' : Xml),
    writeInto C S f c fs x = some x' → x'.tag = x.tag
  | 0, _, _, _, _, h => by simp [writeInto] at h
  | f + 1, c, fs, x, x', h => by
    simp only [writeInto] at h
    split at h
    · exact (writeProps_frame C S (writeInto C S f) (writeInto_tag C S f) _ _ _ _ h).1
    · cases h

theorem okCls_props {S : Schema} {c : Nat} (h : S.okCls c = true) :
    pairwiseIndep ((S.props c).map (·.kind.fp)) = true ∧ ∀ p ∈ S.props c, (Fp.attr xsiType).indep p.kind.fp = true := by
  cases hcls : S.cls c with
  | none => simp [Schema.okCls, hcls] at h
  | some e =>
    simp only [Schema.okCls, hcls, ClsE.ok, Bool.and_eq_true, List.all_eq_true] at h
    simpa only [Schema.props, hcls] using h

theorem withXsi_agree (t : Option String) (x : Xml) (fp : Fp) (hi : fp.indep (.attr xsiType) = true) :
    Agree fp x (withXsi t x) := by
  cases t with
  | none => exact Agree.refl ..
  | some q =>
    exact agree_of_attr_update fp hi (by simp [withXsi]) (by simp [withXsi])
      (fun m hm => by simp only [withXsi, attrs_setAttrs]; exact getAttr_setAttr_ne _ _ _ _ hm)

theorem indep_comm_attr (fp : Fp) (n : Nat) : fp.indep (.attr n) = (Fp.attr n).indep fp := by
  cases fp <;> simp [Fp.indep, bne_comm]

theorem readProps_congr (C : Codec) (S : Schema) (rd : Rd) (x y : Xml) :
    ∀ ps : List PropE, (∀ p ∈ ps, Agree p.kind.fp x y) → readProps C S rd ps x = readProps C S rd ps y
  | [], _ => rfl
  | p :: ps, h => by
    have := readProps_congr C S rd x y ps (fun q hq => h q (List.mem_cons_of_mem _ hq))
    simp only [readProps] at this
    simp only [readProps, mapM', readKind_agree C S rd p.kind x y (h p (List.mem_cons_self ..)), this]

/-- **class-level round trip**: a well-typed instance of any class of the table, of any nesting depth below `fuel`,
    written into a new element of any tag, is read back unchanged, with or without an `xsi:type` attribute -/
theorem cls_roundtrip (C : Codec) (S : Schema) : ∀ (fuel c : Nat) (fs : List Val), WT C S fuel c fs →
    RTobj (writeInto C S fuel) (readCls C S fuel) c fs
  | 0, _, _, h => by simp [WT] at h
  | f + 1, c, fs, h => by
    simp only [WT] at h
    obtain ⟨hok, hwt⟩ := h
    obtain ⟨hpw, hx⟩ := okCls_props hok
    intro n
    have hclean : ∀ p ∈ S.props c, Clean p.kind.fp (Xml.empty n) := fun p hp =>
      clean_empty _ (by intro e; have := hx p hp; rw [e] at this; simp [Fp.indep] at this) n
    obtain ⟨ch, hw, hr⟩ := props_roundtrip C S (writeInto C S f) (readCls C S f) (WT C S f)
      (cls_roundtrip C S f) (writeInto_tag C S f) (S.props c) fs (Xml.empty n) hpw hclean hwt
    have hfr := writeProps_frame C S (writeInto C S f) (writeInto_tag C S f) _ _ _ _ hw
    have hxsi : getAttr ch.attrs xsiType = none := by
      have := hfr.2 (.attr xsiType) hx
      simp only [Agree, attrs_empty] at this
      rw [← this]; rfl
    refine ⟨ch, ?_, by rw [hfr.1]; rfl, hxsi, fun t => ?_⟩
    · simp only [writeInto, WTprops_length C S _ _ _ hwt, if_true, hw]
    · have : readProps C S (readCls C S f) (S.props c) (withXsi t ch) = readProps C S (readCls C S f) (S.props c) ch :=
        (readProps_congr C S _ ch (withXsi t ch) (S.props c) (fun p hp =>
          withXsi_agree t ch p.kind.fp (by rw [indep_comm_attr]; exact hx p hp))).symm
      simp only [readCls, this, hr, Option.map_some]

/-! ### absent optional parts -/

/-- the value a member has after reading an element in which its attribute / child element is absent -/
def Kind.absentVal : Kind → Val
  | .attr _ _ _ _ => .none
  | .attrList _ _ _ => .list []
  | .text _ _ _ _ style dflt => match style, dflt with
    | .enumQName, some d => .atom d
    | _, _ => .none
  | .textList _ _ _ => .list []
  | .subTextList _ _ => .list []
  | .sub _ _ _ _ _ _ dflt => dflt.getD .none
  | .subList _ _ _ _ => .list []
  | .raw _ style _ => match style with
    | .any => .none
    | _ => .raw []

theorem read_absent (C : Codec) (S : Schema) (rd : Rd) (k : Kind) (x : Xml)
    (hfp : (∃ n, k.fp = .attr n) ∨ ∃ n, k.fp = .child n) (hc : Clean k.fp x) :
    readKind C S rd k x = some k.absentVal := by
  cases k with
  | attr n conv opt vol => simp only [Kind.fp, Clean] at hc; simp [readKind, hc, Kind.absentVal]
  | attrList n conv opt => simp only [Kind.fp, Clean] at hc; simp [readKind, hc, Kind.absentVal]
  | text sub conv opt minLen style dflt =>
    cases sub with
    | none => rcases hfp with ⟨n, h⟩ | ⟨n, h⟩ <;> simp [Kind.fp] at h
    | some n =>
      simp only [Kind.fp, Clean] at hc
      simp only [readKind, elemOf_clean n x hc, Kind.absentVal]
      cases style <;> cases dflt <;> rfl
  | textList sub conv opt =>
    cases sub with
    | none => rcases hfp with ⟨n, h⟩ | ⟨n, h⟩ <;> simp [Kind.fp] at h
    | some n => simp only [Kind.fp, Clean] at hc; simp [readKind, elemOf_clean n x hc, Kind.absentVal]
  | subTextList n conv => simp only [Kind.fp, Clean] at hc; simp [readKind, hc, mapM', Kind.absentVal]
  | sub name decl opt container skipEmpty dispatch dflt =>
    cases name with
    | none => rcases hfp with ⟨n, h⟩ | ⟨n, h⟩ <;> simp [Kind.fp] at h
    | some n => simp only [Kind.fp, Clean] at hc; simp [readKind, elemOf_clean n x hc, Kind.absentVal]
  | subList n decl container dispatch =>
    simp only [Kind.fp, Clean] at hc; simp [readKind, hc, readItems, Kind.absentVal]
  | raw sub style opt =>
    cases sub with
    | none => rcases hfp with ⟨n, h⟩ | ⟨n, h⟩ <;> simp [Kind.fp] at h
    | some n =>
      simp only [Kind.fp, Clean] at hc
      simp only [readKind, elemOf_clean n x hc, Kind.absentVal]
      cases style <;> rfl

end Sdc.XmlBinding
