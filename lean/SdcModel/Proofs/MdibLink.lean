import SdcModel.Proofs.MdibResultFinal
import SdcModel.Consumer
/-!
# provider tables / TransactionResult → what the consumer model sees (`Core`, flat `Report`s)
-/
set_option linter.unusedSimpArgs false
namespace Sdc.Mdib
open Sdc.Consumer

/-- the provider content as the consumer contract sees it -/
def absCore (t : Mdib.Tables) (seq : Nat) (inst : Option Nat) : Core :=
  ⟨⟨t.ver, seq, inst⟩, { descrs := t.descrs, states := t.states, cstates := t.ctx }⟩

def DPart.flat (p : DPart) : DescrPart := ⟨p.mod, p.descr, p.states, p.cstates⟩

/-- a provider notification as the flat report the consumer takes: the per-MDS parts of a state report concatenated -/
def Rep.flat : Rep → Report
  | .descr vg parts => { kind := .description, vg := vg, parts := parts.map DPart.flat }
  | .states k vg parts => { kind := k, vg := vg, states := parts.flatMap (·.2) }
  | .ctx vg parts => { kind := .context, vg := vg, cstates := parts.flatMap (·.2) }

def toReports (t' : Mdib.Tables) (vg : VersionGroup) (r : TxResult) : List Report := (mkReports t' vg r).map Rep.flat

/-! ## grouping keeps the members -/

theorem mem_groupInsert {σ : Type} (k : Handle) (x : σ) (acc : List (Handle × List σ)) (y : σ) :
    y ∈ (groupInsert k x acc).flatMap (·.2) ↔ y ∈ acc.flatMap (·.2) ∨ y = x := by
  induction acc with
  | nil => simp [groupInsert]
  | cons p rest ih =>
    obtain ⟨k', xs⟩ := p
    simp only [groupInsert]
    split
    · simp only [List.flatMap_cons, List.mem_append, List.mem_singleton]
      constructor
      · rintro ((h | h) | h)
        · exact .inl (.inl h)
        · exact .inr h
        · exact .inl (.inr h)
      · rintro ((h | h) | h)
        · exact .inl (.inl h)
        · exact .inr h
        · exact .inl (.inr h)
    · simp only [List.flatMap_cons, List.mem_append, ih]
      constructor
      · rintro (h | h | h)
        · exact .inl (.inl h)
        · exact .inl (.inr h)
        · exact .inr h
      · rintro ((h | h) | h)
        · exact .inl h
        · exact .inr (.inl h)
        · exact .inr (.inr h)

theorem mem_groupBy {σ : Type} (key : σ → Handle) (l : List σ) (y : σ) : y ∈ (groupBy key l).flatMap (·.2) ↔ y ∈ l := by
  unfold groupBy
  have : ∀ (acc : List (Handle × List σ)), y ∈ (l.foldl (fun acc x => groupInsert (key x) x acc) acc).flatMap (·.2) ↔
      y ∈ acc.flatMap (·.2) ∨ y ∈ l := by
    induction l with
    | nil => intro acc; simp
    | cons x xs ih =>
      intro acc
      simp only [List.foldl_cons, ih, mem_groupInsert, List.mem_cons]
      constructor
      · rintro ((h | h) | h)
        · exact .inl h
        · exact .inr (.inl h)
        · exact .inr (.inr h)
      · rintro (h | h | h)
        · exact .inl (.inl h)
        · exact .inl (.inr h)
        · exact .inr h
  simpa using this []

/-! ## what the reports of a result carry -/

/-- the parts of the description modification report -/
def resParts (r : TxResult) : List DescrPart :=
  (r.descrUpdated.map (mkDPart r .update) ++ r.descrCreated.map (mkDPart r .create) ++ r.descrDeleted.map (mkDPart r .delete)).map DPart.flat

theorem stateReport_flat_states (t : Mdib.Tables) (vg : VersionGroup) (k : ReportKind) (l : List SState)
    (hk : k ≠ .description) (hc : k ≠ .context) (y : SState) :
    y ∈ stateReportStates ((stateReport t vg k l).map Rep.flat) ↔ y ∈ l := by
  unfold stateReport
  split
  · rename_i he; simp [stateReportStates]; intro h; simp [List.isEmpty_iff.1 he] at h
  · have h1 : (k != ReportKind.description && k != ReportKind.context) = true := by
      cases k <;> simp at hk hc ⊢
    simp only [stateReportStates, Rep.flat, List.map_cons, List.map_nil, List.filter_cons, h1, if_true, List.filter_nil,
      List.flatMap_cons, List.flatMap_nil, List.append_nil]
    exact mem_groupBy _ l y

theorem stateReport_flat_other (t : Mdib.Tables) (vg : VersionGroup) (k : ReportKind) (l : List SState)
    (hk : k ≠ .description) (hc : k ≠ .context) :
    contextReportStates ((stateReport t vg k l).map Rep.flat) = [] ∧ descrParts ((stateReport t vg k l).map Rep.flat) = [] := by
  unfold stateReport
  split
  · simp [contextReportStates, descrParts]
  · have h1 : (k == ReportKind.context) = false := by cases k <;> simp at hc ⊢
    have h2 : (k == ReportKind.description) = false := by cases k <;> simp at hk ⊢
    simp [contextReportStates, descrParts, Rep.flat, h1, h2]

theorem stateReportStates_append (a b : List Report) : stateReportStates (a ++ b) = stateReportStates a ++ stateReportStates b := by
  simp [stateReportStates]
theorem contextReportStates_append (a b : List Report) : contextReportStates (a ++ b) = contextReportStates a ++ contextReportStates b := by
  simp [contextReportStates]
theorem descrParts_append (a b : List Report) : descrParts (a ++ b) = descrParts a ++ descrParts b := by
  simp [descrParts]


/-- the description modification report of a result (none when the three lists are empty) -/
def descrRep (vg : VersionGroup) (r : TxResult) : List Rep :=
  if r.descrUpdated.isEmpty && r.descrCreated.isEmpty && r.descrDeleted.isEmpty then [] else
    [.descr vg (r.descrUpdated.map (mkDPart r .update) ++ r.descrCreated.map (mkDPart r .create)
                ++ r.descrDeleted.map (mkDPart r .delete))]

def ctxRep (t : Mdib.Tables) (vg : VersionGroup) (r : TxResult) : List Rep :=
  if r.ctx.isEmpty then [] else [.ctx vg (groupBy (fun c => (mdsOfState t c.dh).getD 0) r.ctx)]

theorem mkReports_eq (t : Mdib.Tables) (vg : VersionGroup) (r : TxResult) :
    mkReports t vg r = descrRep vg r ++ stateReport t vg .metric r.metric ++ stateReport t vg .alert r.alert ++
      stateReport t vg .component r.comp ++ ctxRep t vg r ++ stateReport t vg .operational r.op ++ stateReport t vg .waveform r.rt := rfl

theorem descrRep_facts (vg : VersionGroup) (r : TxResult) :
    stateReportStates ((descrRep vg r).map Rep.flat) = [] ∧ contextReportStates ((descrRep vg r).map Rep.flat) = [] ∧
    descrParts ((descrRep vg r).map Rep.flat) = resParts r := by
  unfold descrRep
  split
  · rename_i he
    simp only [Bool.and_eq_true, List.isEmpty_iff] at he
    simp [stateReportStates, contextReportStates, descrParts, resParts, he.1.1, he.1.2, he.2]
  · simp [stateReportStates, contextReportStates, descrParts, resParts, Rep.flat]

theorem ctxRep_facts (t : Mdib.Tables) (vg : VersionGroup) (r : TxResult) :
    stateReportStates ((ctxRep t vg r).map Rep.flat) = [] ∧ (∀ y, y ∈ contextReportStates ((ctxRep t vg r).map Rep.flat) ↔ y ∈ r.ctx) ∧
    descrParts ((ctxRep t vg r).map Rep.flat) = [] := by
  unfold ctxRep
  split
  · rename_i he
    simp [stateReportStates, contextReportStates, descrParts, List.isEmpty_iff.1 he]
  · refine ⟨by simp [stateReportStates, Rep.flat], ?_, by simp [descrParts, Rep.flat]⟩
    intro y
    simp only [contextReportStates, Rep.flat, List.map_cons, List.map_nil, List.filter_cons, beq_self_eq_true, if_true, List.filter_nil,
      List.flatMap_cons, List.flatMap_nil, List.append_nil]
    exact mem_groupBy _ r.ctx y

theorem toReports_states (t : Mdib.Tables) (vg : VersionGroup) (r : TxResult) (y : SState) :
    y ∈ stateReportStates (toReports t vg r) ↔ y ∈ r.allS := by
  unfold toReports
  rw [mkReports_eq]
  have h1 := stateReport_flat_states t vg .metric r.metric (by decide) (by decide) y
  have h2 := stateReport_flat_states t vg .alert r.alert (by decide) (by decide) y
  have h3 := stateReport_flat_states t vg .component r.comp (by decide) (by decide) y
  have h4 := stateReport_flat_states t vg .operational r.op (by decide) (by decide) y
  have h5 := stateReport_flat_states t vg .waveform r.rt (by decide) (by decide) y
  simp only [List.map_append, stateReportStates_append, List.mem_append, (descrRep_facts vg r).1, (ctxRep_facts t vg r).1,
    h1, h2, h3, h4, h5, TxResult.allS, List.not_mem_nil, false_or, or_false]

theorem toReports_ctx (t : Mdib.Tables) (vg : VersionGroup) (r : TxResult) (y : CState) :
    y ∈ contextReportStates (toReports t vg r) ↔ y ∈ r.ctx := by
  unfold toReports
  rw [mkReports_eq]
  have h1 := (stateReport_flat_other t vg .metric r.metric (by decide) (by decide)).1
  have h2 := (stateReport_flat_other t vg .alert r.alert (by decide) (by decide)).1
  have h3 := (stateReport_flat_other t vg .component r.comp (by decide) (by decide)).1
  have h4 := (stateReport_flat_other t vg .operational r.op (by decide) (by decide)).1
  have h5 := (stateReport_flat_other t vg .waveform r.rt (by decide) (by decide)).1
  simp only [List.map_append, contextReportStates_append, List.mem_append, (descrRep_facts vg r).2.1, (ctxRep_facts t vg r).2.1,
    h1, h2, h3, h4, h5, List.not_mem_nil, false_or, or_false]

theorem toReports_parts (t : Mdib.Tables) (vg : VersionGroup) (r : TxResult) : descrParts (toReports t vg r) = resParts r := by
  unfold toReports
  rw [mkReports_eq]
  have h1 := (stateReport_flat_other t vg .metric r.metric (by decide) (by decide)).2
  have h2 := (stateReport_flat_other t vg .alert r.alert (by decide) (by decide)).2
  have h3 := (stateReport_flat_other t vg .component r.comp (by decide) (by decide)).2
  have h4 := (stateReport_flat_other t vg .operational r.op (by decide) (by decide)).2
  have h5 := (stateReport_flat_other t vg .waveform r.rt (by decide) (by decide)).2
  simp only [List.map_append, descrParts_append, (descrRep_facts vg r).2.2, (ctxRep_facts t vg r).2.2,
    h1, h2, h3, h4, h5, List.append_nil]

theorem toReports_vg (t : Mdib.Tables) (vg : VersionGroup) (r : TxResult) : ∀ rep ∈ toReports t vg r, rep.vg = vg := by
  intro rep hrep
  unfold toReports at hrep
  obtain ⟨x, hx, rfl⟩ := List.mem_map.1 hrep
  rw [mkReports_eq] at hx
  simp only [List.mem_append] at hx
  have hsr : ∀ k l, x ∈ stateReport t vg k l → x.flat.vg = vg := by
    intro k l h; unfold stateReport at h; split at h
    · cases h
    · simp only [List.mem_singleton] at h; subst h; rfl
  rcases hx with (((((h | h) | h) | h) | h) | h) | h
  · unfold descrRep at h; split at h
    · cases h
    · simp only [List.mem_singleton] at h; subst h; rfl
  · exact hsr _ _ h
  · exact hsr _ _ h
  · exact hsr _ _ h
  · unfold ctxRep at h; split at h
    · cases h
    · simp only [List.mem_singleton] at h; subst h; rfl
  · exact hsr _ _ h
  · exact hsr _ _ h

/-- a result that reports something yields at least one notification -/
theorem toReports_nonempty (t : Mdib.Tables) (vg : VersionGroup) (r : TxResult)
    (h : r.allS ≠ [] ∨ r.ctx ≠ [] ∨ r.descrUpdated ≠ [] ∨ r.descrCreated ≠ [] ∨ r.descrDeleted ≠ []) : toReports t vg r ≠ [] := by
  intro he
  rcases h with h | h | h
  · obtain ⟨y, hy⟩ := List.exists_mem_of_ne_nil _ h
    have := (toReports_states t vg r y).2 hy
    rw [he] at this; simp [stateReportStates] at this
  · obtain ⟨y, hy⟩ := List.exists_mem_of_ne_nil _ h
    have := (toReports_ctx t vg r y).2 hy
    rw [he] at this; simp [contextReportStates] at this
  · have := toReports_parts t vg r
    rw [he] at this
    simp only [descrParts, List.filter_nil, List.flatMap_nil, resParts] at this
    have hl := congrArg List.length this
    simp at hl
    rcases h with h | h | h
    · exact h (List.eq_nil_of_length_eq_zero (by omega))
    · exact h (List.eq_nil_of_length_eq_zero (by omega))
    · exact h (List.eq_nil_of_length_eq_zero (by omega))

end Sdc.Mdib
