import SdcModel.Proofs.MdibResultS
/-!
# the TransactionResult of a committed descriptor transaction is true of the tables and complete
-/
set_option linter.unusedSimpArgs false
namespace Sdc.Mdib

/-- what a committed descriptor transaction reports, against the tables before (`t`) and after (`t'`) -/
structure DResultOK (t t' : Tables) (r : TxResult) : Prop where
  created : ∀ d ∈ r.descrCreated, findD t' d.handle = some d
  updated : ∀ d ∈ r.descrUpdated, ∃ d', findD t' d.handle = some d' ∧ d'.ver = d.ver ∧ d'.body = d.body ∧ d'.kind = d.kind
  deleted : ∀ d ∈ r.descrDeleted, findD t' d.handle = none
  states : ∀ x ∈ r.allS, findS t' x.dh = some x
  ctx : ∀ x ∈ r.ctx, findC t' x.h = some x
  completeD : ∀ h, findD t' h ≠ findD t h → h ∈ (r.descrCreated ++ r.descrUpdated ++ r.descrDeleted).map (·.handle)
  completeS : ∀ h, findS t' h ≠ findS t h → (∃ x ∈ r.allS, x.dh = h) ∨ findS t' h = none
  completeC : ∀ h, findC t' h ≠ findC t h → (∃ x ∈ r.ctx, x.h = h) ∨ findC t' h = none

theorem commitD_result {t : Tables} (hw : WF t) (hk : KOK t) {tx : DTx} (hi : DTxOK t tx) (hne : tx.descr.isEmpty = false)
    (hnf : (commitD t tx).2.2 = none) : DResultOK t (commitD t tx).1 (commitD t tx).2.1 := by
  revert hnf
  unfold commitD
  simp only [hne, Bool.false_eq_true, if_false]
  split
  · simp
  · rename_i hc
    have hc' : consistentD t tx = true := by simpa using hc
    have hs := dStatic hw hi hc'
    have h0 := CInv.init hw hk hi hs (t.ver + 1)
    have r0 := RInv.init t tx (deletedHandles t tx) tx.descr (t.ver + 1)
    obtain ⟨e1, h1⟩ := commitDItems_ok hw hi hs tx.descr { t := { t with ver := t.ver + 1 }, tx := tx } (fun _ h => h) hi.dKeys h0
    have r1 := commitDItems_res hw hi hs tx.descr { t := { t with ver := t.ver + 1 }, tx := tx } (fun _ h => h) hi.dKeys h0 r0
    try dsimp only
    split
    · rename_i c e heq
      rw [heq] at e1; cases e1
    · rename_i c heq
      rw [heq] at h1 r1
      simp only at h1 r1
      intro _
      obtain ⟨_, _, _, R⟩ := commitStates_ok h1
      have hS : c.res.allS = [] := by
        obtain ⟨a, b, c', d, e, _⟩ := r1.sl
        simp [TxResult.allS, a, b, c', d, e]
      obtain ⟨s1, s2, s3, s4, fr, _, _⟩ := commitStates_res h1 hS r1.sl.2.2.2.2.2
      have S := h1.seen
      have fD : ∀ k, findD (commitStates c).1.t k = findD c.t k := fun k => by simp [findD, R.descrs]
      refine ⟨?_, ?_, ?_, s1, s3, ?_, ?_, ?_⟩
      · intro d hd; rw [fr.1] at hd; rw [fD]; exact (r1.cre d hd).1
      · intro d hd; rw [fr.2.1] at hd; rw [fD]; exact (r1.upd d hd).1
      · intro d hd; rw [fr.2.2] at hd; rw [fD]; exact (r1.delr d hd).1
      · intro k hk'; rw [fD] at hk'; rw [fr.1, fr.2.1, fr.2.2]; exact r1.comp k hk'
      · intro k hk'
        cases hb : findS (commitStates c).1.t k with
        | none => exact .inr rfl
        | some b =>
          left
          rcases R.srcS k b hb with hcb | hkey
          · exact absurd (hb.trans (S.sSame k b hcb).symm) hk'
          · obtain ⟨p, hp, rfl⟩ := List.mem_map.1 hkey
            exact ⟨p.2.new, s2 p hp, (h1.si p hp).dh⟩
      · intro k hk'
        cases hb : findC (commitStates c).1.t k with
        | none => exact .inr rfl
        | some b =>
          left
          rcases R.srcC k b hb with hcb | ⟨p, hp, rfl, hn⟩
          · exact absurd (hb.trans (S.cSame k b hcb).symm) hk'
          · exact ⟨b, s4 p hp b hn, ((h1.ci p hp).new b hn).1⟩

theorem runD_result {t t' : Tables} {r : TxResult} (hw : WF t) (hk : KOK t) (s : DScript) (hs : DScriptOK t s)
    (h : runD t s = (t', r, .committed)) : DResultOK t t' r := by
  unfold runD at h
  split at h
  · cases h
  · rename_i tx htx
    split at h
    · cases h
    · have hi := dCalls_ok hw hk hs htx
      by_cases he : tx.descr.isEmpty
      · simp [commitD, he] at h
      · have he' : tx.descr.isEmpty = false := by simpa using he
        have key := commitD_result hw hk hi he'
        generalize commitD t tx = q at h key
        obtain ⟨t1, r1, e⟩ := q
        cases e with
        | some e => simp at h
        | none =>
          simp only [Prod.mk.injEq] at h
          obtain ⟨rfl, rfl, _⟩ := h
          exact key rfl

end Sdc.Mdib
