import SdcModel.Proofs.MdibDItems
import SdcModel.Proofs.MdibKinds
/-!
# a descriptor commit over well-formed tables never dies half-way and leaves well-formed tables
-/
set_option linter.unusedSimpArgs false
namespace Sdc.Mdib

variable {t₀ : Tables} {tx₀ : DTx} {del : List Handle}

theorem commitDItems_ok (hw : WF t₀) (hi : DTxOK t₀ tx₀) (hs : DStatic t₀ tx₀ del) :
    ∀ (pend : List (Handle × DItem)) (c : DCommit), (∀ p ∈ pend, p ∈ tx₀.descr) → (pend.map (·.1)).Nodup →
      CInv t₀ tx₀ del pend (pendUpd pend) c.t c.tx →
      (commitDItems del (toCreateOf tx₀) (toUpdateOf tx₀) c pend).2 = none ∧
      CInv t₀ tx₀ del [] (pendUpd []) (commitDItems del (toCreateOf tx₀) (toUpdateOf tx₀) c pend).1.t
        (commitDItems del (toCreateOf tx₀) (toUpdateOf tx₀) c pend).1.tx := by
  intro pend
  induction pend with
  | nil => intro c _ _ h; exact ⟨rfl, h⟩
  | cons p rest ih =>
    intro c hsub hn h
    obtain ⟨k, it⟩ := p
    obtain ⟨e1, h1⟩ := commitDItem_ok hw hi hs (hsub (k, it) (by simp)) hn h
    simp only [commitDItems]
    generalize commitDItem del (toCreateOf tx₀) (toUpdateOf tx₀) c it = r at e1 h1
    obtain ⟨c1, e⟩ := r
    simp only at e1; subst e1
    simp only
    exact ih c1 (fun p hp => hsub p (by simp [hp])) (by simp only [List.map_cons, List.nodup_cons] at hn; exact hn.2) h1

/-! ## the state part of the commit -/

theorem SItemsOK.sub {t : Tables} {L L' : List (Handle × SItem)} (h : SItemsOK t L) (hs : L'.Sublist L) : SItemsOK t L' :=
  ⟨(hs.map _).nodup h.keys, fun p hp => h.dh p (hs.subset hp), fun p hp => h.old p (hs.subset hp),
   fun p hp => h.ref p (hs.subset hp), fun p hp => h.bump p (hs.subset hp)⟩

/-- a stage of the commit that writes only single states (items from `L`) -/
structure SRelS (L : List (Handle × SItem)) (T T' : Tables) : Prop where
  fr : FrS T' T
  seen : ∀ h, seenS T h ≤ seenS T' h
  chg : ∀ h a, findS T h = some a → ∃ b, findS T' h = some b ∧ (a = b ∨ a.sv < b.sv)
  src : ∀ h b, findS T' h = some b → findS T h = some b ∨ h ∈ L.map (·.1)

theorem SRelS.refl (L : List (Handle × SItem)) (T : Tables) : SRelS L T T :=
  ⟨⟨rfl, rfl, rfl, rfl⟩, fun _ => optLe_refl _, fun _ a h => ⟨a, h, .inl rfl⟩, fun _ _ h => .inl h⟩

theorem SRelS.trans {L : List (Handle × SItem)} {A B C : Tables} (h1 : SRelS L A B) (h2 : SRelS L B C) : SRelS L A C := by
  refine ⟨h2.fr.trans h1.fr, fun h => optLe_trans (h1.seen h) (h2.seen h), ?_, ?_⟩
  · intro h a ha
    obtain ⟨b, hb, r1⟩ := h1.chg h a ha
    obtain ⟨c, hc, r2⟩ := h2.chg h b hb
    refine ⟨c, hc, ?_⟩
    rcases r1 with rfl | r1
    · exact r2
    · rcases r2 with rfl | r2
      · exact .inr r1
      · exact .inr (Nat.lt_trans r1 r2)
  · intro h c hc
    rcases h2.src h c hc with hb | hk
    · exact h1.src h c hb
    · exact .inr hk

theorem SRelS.of_apply {L M : List (Handle × SItem)} {T : Tables} (hi : SItemsOK T M) (hsub : ∀ p ∈ M, p ∈ L) :
    SRelS L T (applySItems T M).1 := by
  refine ⟨applySItems_frame T M, applySItems_seenS hi, ?_, ?_⟩
  · intro h a ha
    rw [applySItems_findS hi]
    cases hg : dictGet M h with
    | none => exact ⟨a, ha, .inl rfl⟩
    | some it => exact ⟨it.new, rfl, .inr ((hi.bump (h, it) (dictGet_some_mem hg)).1 a ha)⟩
  · intro h b hb
    rw [applySItems_findS hi] at hb
    cases hg : dictGet M h with
    | none => rw [hg] at hb; exact .inl hb
    | some it => exact .inr (List.mem_map.2 ⟨(h, it), hsub _ (dictGet_some_mem hg), rfl⟩)

/-- the stage that writes the context states -/
structure SRelC (M : List (Handle × CItem)) (T T' : Tables) : Prop where
  fr : FrC T' T
  seen : ∀ h, seenC T h ≤ seenC T' h
  chg : ∀ h a b, findC T h = some a → findC T' h = some b → a = b ∨ a.sv < b.sv
  src : ∀ h b, findC T' h = some b → findC T h = some b ∨ ∃ p ∈ M, p.1 = h ∧ p.2.new = some b
  keep : (∀ p ∈ M, p.2.new ≠ none) → ∀ h a, findC T h = some a → (findC T' h).isSome

theorem SRelC.of_apply {M : List (Handle × CItem)} {T : Tables} (hi : CItemsOK true T M) : SRelC M T (applyCItems T M).1 := by
  refine ⟨applyCItems_frame T M, applyCItems_seenC hi, fun h a b ha hb => applyCItems_change hi ha hb, ?_, ?_⟩
  · intro h b hb
    rw [applyCItems_findC hi] at hb
    cases hg : dictGet M h with
    | none => rw [hg] at hb; exact .inl hb
    | some it => rw [hg] at hb; exact .inr ⟨(h, it), dictGet_some_mem hg, rfl, hb⟩
  · intro hnd h a ha
    rw [applyCItems_findC hi]
    cases hg : dictGet M h with
    | none => simp [ha]
    | some it =>
      simp only
      cases hn : it.new with
      | none => exact absurd hn (hnd _ (dictGet_some_mem hg))
      | some n => rfl

/-- what is known between two of the five single-state dicts: the items `L` whose kind is in `done` have been written -/
structure SB (L : List (Handle × SItem)) (done : List Kind) (C : Handle → Prop) (T : Tables) : Prop where
  wfm : WFm (fun x => ∃ p ∈ L, p.1 = x ∧ p.2.new.kind ∉ done) C T
  ok : SItemsOK T (L.filter (fun p => !done.contains p.2.new.kind))
  kinds : ∀ p ∈ L, p.2.new.kind ≠ .context ∧ ∀ d ∈ T.descrs, d.handle = p.1 → d.kind ≠ .context

theorem SB.kind {L : List (Handle × SItem)} {done : List Kind} {C : Handle → Prop} {c : DCommit} (hb : SB L done C c.t)
    (hL : c.tx.sItems = L) {k : Kind} (hk : k ∉ done) :
    (applyKind c k).2 = none ∧ SB L (k :: done) C (applyKind c k).1.t ∧ (applyKind c k).1.tx = c.tx ∧
      SRelS L c.t (applyKind c k).1.t := by
  have hfil : L.filter (fun p => p.2.new.kind == k) =
      (L.filter (fun p => !done.contains p.2.new.kind)).filter (fun p => p.2.new.kind == k) := by
    rw [List.filter_filter]
    apply List.filter_congr
    intro p _
    by_cases e : p.2.new.kind = k
    · subst e; simp [hk]
    · simp [e]
  have hrest : L.filter (fun p => !(k :: done).contains p.2.new.kind) =
      (L.filter (fun p => !done.contains p.2.new.kind)).filter (fun p => p.2.new.kind != k) := by
    rw [List.filter_filter]
    apply List.filter_congr
    intro p _
    simp only [List.contains_cons, Bool.not_or, bne, Bool.and_comm]
  have hik : SItemsOK c.t (L.filter (fun p => p.2.new.kind == k)) := by rw [hfil]; exact hb.ok.sub List.filter_sublist
  have hkk : ∀ p ∈ L.filter (fun p => p.2.new.kind == k),
      p.2.new.kind ≠ .context ∧ ∀ d ∈ c.t.descrs, d.handle = p.1 → d.kind ≠ .context :=
    fun p hp => hb.kinds p (List.mem_filter.1 hp).1
  have hfr := applySItems_frame c.t (L.filter (fun p => p.2.new.kind == k))
  simp only [applyKind, hL]
  refine ⟨applySItems_noerr hik, ⟨?_, ?_, ?_⟩, (by first | rfl | trivial),
    SRelS.of_apply hik (fun p hp => (List.mem_filter.1 hp).1)⟩
  · refine (applySItems_wfm hb.wfm hik hkk).mono ?_ (fun _ h => h)
    rintro x ⟨⟨p, hp, e, hnd⟩, hx⟩
    refine ⟨p, hp, e, ?_⟩
    simp only [List.mem_cons, not_or]
    refine ⟨fun ek => hx ?_, hnd⟩
    exact List.mem_map.2 ⟨p, List.mem_filter.2 ⟨hp, by simp [ek]⟩, e⟩
  · rw [hrest]
    refine (hb.ok.sub List.filter_sublist).after (by rw [hfil]; exact hb.ok.sub List.filter_sublist) ?_
    intro p hp hx
    obtain ⟨hp1, hp2⟩ := List.mem_filter.1 hp
    obtain ⟨q, hq, e⟩ := List.mem_map.1 hx
    rw [hfil] at hq
    obtain ⟨hq1, hq2⟩ := List.mem_filter.1 hq
    have hpq : q = p := by
      have a := dictGet_of_mem_nodup hb.ok.keys (show (q.1, q.2) ∈ _ from hq1)
      have b := dictGet_of_mem_nodup hb.ok.keys (show (p.1, p.2) ∈ _ from hp1)
      rw [e, b] at a
      exact Prod.ext e (Option.some.inj a).symm
    subst hpq
    simp only [bne_iff_ne, ne_eq, beq_iff_eq] at hp2 hq2
    exact hp2 hq2
  · intro p hp
    obtain ⟨a, b⟩ := hb.kinds p hp
    exact ⟨a, by rw [hfr.1]; exact b⟩

theorem SB.kindsAll {L : List (Handle × SItem)} {C : Handle → Prop} :
    ∀ (ks : List Kind) (done : List Kind) (c : DCommit), SB L done C c.t → c.tx.sItems = L → ks.Nodup → (∀ k ∈ ks, k ∉ done) →
      (applyKinds c ks).2 = none ∧ SB L (ks.reverse ++ done) C (applyKinds c ks).1.t ∧ (applyKinds c ks).1.tx = c.tx ∧
        SRelS L c.t (applyKinds c ks).1.t := by
  intro ks
  induction ks with
  | nil => intro done c hb _ _ _; exact ⟨rfl, by simpa [applyKinds] using hb, rfl, SRelS.refl _ _⟩
  | cons k ks ih =>
    intro done c hb hL hn hd
    simp only [List.nodup_cons] at hn
    obtain ⟨e1, b1, t1, f1⟩ := hb.kind hL (hd k (by simp))
    simp only [applyKinds]
    generalize applyKind c k = r at e1 b1 t1 f1
    obtain ⟨c1, e⟩ := r
    simp only at e1 b1 t1 f1; subst e1
    simp only
    obtain ⟨e2, b2, t2, f2⟩ := ih (k :: done) c1 b1 (t1 ▸ hL) hn.2 (by
      intro k' hk' hx
      rcases List.mem_cons.1 hx with rfl | hx
      · exact hn.1 hk'
      · exact hd k' (by simp [hk']) hx)
    refine ⟨e2, ?_, t2.trans t1, f1.trans f2⟩
    simpa [List.reverse_cons, List.append_assoc] using b2

theorem SB.ctx {L : List (Handle × SItem)} {done : List Kind} {C : Handle → Prop} {c : DCommit} (hb : SB L done C c.t)
    (hc : CItemsOK true c.t c.tx.cItems)
    (hck : ∀ p ∈ c.tx.cItems, ∀ n ∈ p.2.new, ∀ d ∈ c.t.descrs, d.handle = n.dh → d.kind = .context) :
    (applyCtx c).2 = none ∧ SB L done (fun x => C x ∧ x ∉ c.tx.cItems.map (·.1)) (applyCtx c).1.t ∧ (applyCtx c).1.tx = c.tx ∧
      SRelC c.tx.cItems c.t (applyCtx c).1.t := by
  have hfr := applyCItems_frame c.t c.tx.cItems
  simp only [applyCtx]
  refine ⟨applyCItems_noerr hc, ⟨applyCItems_wfm hb.wfm hc hck, hb.ok.congr hfr.2.1 hfr.2.2.2 hfr.1, ?_⟩, (by first | rfl | trivial),
    SRelC.of_apply hc⟩
  intro p hp
  obtain ⟨a, b⟩ := hb.kinds p hp
  exact ⟨a, by rw [hfr.1]; exact b⟩


/-- what the state part of the commit does to the tables: descriptors untouched, counters of the states only grow, a
    changed state has a larger version, a new state comes from an item of the transaction -/
structure CommitRel (X : DTx) (T T' : Tables) : Prop where
  descrs : T'.descrs = T.descrs
  dSaved : T'.dSaved = T.dSaved
  seenS : ∀ h, seenS T h ≤ seenS T' h
  seenC : ∀ h, seenC T h ≤ seenC T' h
  chgS : ∀ h a, findS T h = some a → ∃ b, findS T' h = some b ∧ (a = b ∨ a.sv < b.sv)
  srcS : ∀ h b, findS T' h = some b → findS T h = some b ∨ h ∈ X.sItems.map (·.1)
  chgC : ∀ h a b, findC T h = some a → findC T' h = some b → a = b ∨ a.sv < b.sv
  srcC : ∀ h b, findC T' h = some b → findC T h = some b ∨ ∃ p ∈ X.cItems, p.1 = h ∧ p.2.new = some b
  keepC : (∀ p ∈ X.cItems, p.2.new ≠ none) → ∀ h a, findC T h = some a → (findC T' h).isSome

theorem CommitRel.mk3 {X : DTx} {A B C D : Tables} (r1 : SRelS X.sItems A B) (r2 : SRelC X.cItems B C) (r3 : SRelS X.sItems C D) :
    CommitRel X A D := by
  have fSB : ∀ h, findS C h = findS B h := fun h => by simp [findS, r2.fr.2.1]
  have fCA : ∀ h, findC B h = findC A h := fun h => by simp [findC, r1.fr.2.1]
  have fCD : ∀ h, findC D h = findC C h := fun h => by simp [findC, r3.fr.2.1]
  refine ⟨r3.fr.1.trans (r2.fr.1.trans r1.fr.1), r3.fr.2.2.1.trans (r2.fr.2.2.1.trans r1.fr.2.2.1), ?_, ?_, ?_, ?_, ?_, ?_, ?_⟩
  · intro h
    refine optLe_trans (r1.seen h) (optLe_trans ?_ (r3.seen h))
    rw [seenS_congr r2.fr.2.1 r2.fr.2.2.2]; exact optLe_refl _
  · intro h
    rw [seenC_congr r3.fr.2.1 r3.fr.2.2.2, ← seenC_congr r1.fr.2.1 r1.fr.2.2.2 h]
    exact r2.seen h
  · intro h a ha
    obtain ⟨b, hb, q1⟩ := r1.chg h a ha
    obtain ⟨c, hc, q2⟩ := r3.chg h b (by rw [fSB]; exact hb)
    refine ⟨c, hc, ?_⟩
    rcases q1 with rfl | q1
    · exact q2
    · rcases q2 with rfl | q2
      · exact .inr q1
      · exact .inr (Nat.lt_trans q1 q2)
  · intro h b hb
    rcases r3.src h b hb with hc | hk
    · rw [fSB] at hc; exact r1.src h b hc
    · exact .inr hk
  · intro h a b ha hb
    rw [fCD] at hb; rw [← fCA] at ha
    exact r2.chg h a b ha hb
  · intro h b hb
    rw [fCD] at hb
    rcases r2.src h b hb with hc | hk
    · rw [fCA] at hc; exact .inl hc
    · exact .inr hk
  · intro hnd h a ha
    rw [fCD]; rw [← fCA] at ha
    exact r2.keep hnd h a ha

theorem pendUpd_nil (x : Handle) : ¬ pendUpd [] x := by rintro ⟨o, n, h⟩; cases h

/-- after the descriptor items: the six state dicts go through without error and the tables are well-formed again -/
theorem commitStates_ok {c : DCommit} (h : CInv t₀ tx₀ del [] (pendUpd []) c.t c.tx) :
    (commitStates c).2 = none ∧ WF (commitStates c).1.t ∧ KOK (commitStates c).1.t ∧
      CommitRel c.tx c.t (commitStates c).1.t := by
  have hnp : ∀ x, ¬ pendUpd [] x := pendUpd_nil
  have huniq : ∀ d ∈ c.t.descrs, ∀ d' ∈ c.t.descrs, d.handle = d'.handle → d = d' := fun d hd d' hd' e => mem_unique h.dKeys hd hd' e
  -- the bundle before the first dict
  have hsi : SItemsOK c.t c.tx.sItems := by
    refine ⟨h.siKeys, fun p hp => (h.si p hp).dh, fun p hp => (h.si p hp).old, ?_, fun p hp => (h.si p hp).bump⟩
    intro p hp
    rcases (h.si p hp).ref with ⟨d, hd, e1, _, e3⟩ | ⟨n, hn, _⟩
    · exact ⟨d, hd, e1, e3 (hnp _)⟩
    · cases hn
  have hkinds : ∀ p ∈ c.tx.sItems, p.2.new.kind ≠ .context ∧ ∀ d ∈ c.t.descrs, d.handle = p.1 → d.kind ≠ .context := by
    intro p hp
    refine ⟨(h.si p hp).kind, ?_⟩
    intro d hd e
    rcases (h.si p hp).ref with ⟨d', hd', e1, e2, _⟩ | ⟨n, hn, _⟩
    · rw [huniq d hd d' hd' (e.trans e1.symm)]; exact e2
    · cases hn
  have hb0 : SB c.tx.sItems [] (fun x => x ∈ c.tx.cItems.map (·.1)) c.t := by
    refine ⟨⟨h.dKeys, h.sKeys, h.cKeys, ?_, ?_, ?_⟩, ?_, hkinds⟩
    · intro s hs
      obtain ⟨k, d, hd, e1, e2, e3⟩ := h.sRef s hs
      refine ⟨k, d, hd, e1, e2, fun hS => e3 (fun hx => hS ?_) (hnp _)⟩
      obtain ⟨p, hp, e⟩ := List.mem_map.1 hx
      exact ⟨p, hp, e, by simp⟩
    · intro x hx
      obtain ⟨d, hd, e1, e2, e3⟩ := h.cRef x hx
      exact ⟨d, hd, e1, e2, fun hC => e3 hC (hnp _)⟩
    · intro d hd p hp
      rcases h.dPar d hd p hp with a | ⟨n, hn⟩
      · obtain ⟨q, hq, e⟩ := List.mem_map.1 a; exact ⟨q, hq, e⟩
      · cases hn
    · rw [List.filter_eq_self.2 (fun _ _ => by simp)]; exact hsi
  have hci : CItemsOK true c.t c.tx.cItems := by
    refine ⟨h.ciKeys, ?_, fun p hp => .inl (h.ci p hp).old, ?_, ?_⟩
    · intro p hp n hn; exact ((h.ci p hp).new n hn).1
    · intro p hp n hn
      obtain ⟨_, _, _, _, f⟩ := (h.ci p hp).new n hn
      rcases f with ⟨d, hd, e1, _, e3⟩ | ⟨m, hm, _⟩
      · exact ⟨d, hd, e1, e3 (hnp _)⟩
      · cases hm
    · intro _ p hp n hn; exact ((h.ci p hp).new n hn).2.2.2.1
  have hck : ∀ p ∈ c.tx.cItems, ∀ n ∈ p.2.new, ∀ d ∈ c.t.descrs, d.handle = n.dh → d.kind = .context := by
    intro p hp n hn d hd e
    obtain ⟨_, _, _, _, f⟩ := (h.ci p hp).new n hn
    rcases f with ⟨d', hd', e1, e2, _⟩ | ⟨m, hm, _⟩
    · rw [huniq d hd d' hd' (e.trans e1.symm)]; exact e2
    · cases hm
  -- alert, metric
  obtain ⟨e1, b1, t1, f1⟩ := SB.kindsAll [.alert, .metric] [] c hb0 rfl (by decide) (by simp)
  unfold commitStates
  generalize applyKinds c [.alert, .metric] = r1 at e1 b1 t1 f1
  obtain ⟨c1, x1⟩ := r1
  simp only at e1 b1 t1 f1; subst e1
  simp only
  -- context
  have hci1 : CItemsOK true c1.t c1.tx.cItems := by rw [t1]; exact hci.congr f1.fr.2.1 f1.fr.2.2.2 f1.fr.1
  have hck1 : ∀ p ∈ c1.tx.cItems, ∀ n ∈ p.2.new, ∀ d ∈ c1.t.descrs, d.handle = n.dh → d.kind = .context := by
    rw [t1, f1.fr.1]; exact hck
  obtain ⟨e2, b2, t2, f2⟩ := b1.ctx hci1 hck1
  generalize applyCtx c1 = r2 at e2 b2 t2 f2
  obtain ⟨c2, x2⟩ := r2
  simp only at e2 b2 t2 f2; subst e2
  simp only
  -- component, operational, rt
  obtain ⟨e3, b3, _, f3⟩ := SB.kindsAll [.component, .operational, .rt] _ c2 b2 (by rw [t2, t1]) (by decide) (by decide)
  refine ⟨e3, ?_⟩
  have hwk := b3.wfm.wf (S := _) (C := _) (by
    rintro x ⟨p, hp, _, hk⟩
    have := (hkinds p hp).1
    revert hk this
    cases p.2.new.kind <;> simp) (by
    rintro x ⟨hx, hnx⟩
    exact hnx (by rw [t1]; exact hx))
  refine ⟨hwk.1, hwk.2, ?_⟩
  rw [t1] at f2
  exact CommitRel.mk3 f1 f2 f3

/-- the whole descriptor commit: refused by the consistency check (tables untouched) or complete -/
theorem commitD_ok {t : Tables} (hw : WF t) (hk : KOK t) {tx : DTx} (hi : DTxOK t tx) :
    ((commitD t tx).2.2 ≠ none → consistentD t tx = false ∧ (commitD t tx).1 = t) ∧ WF (commitD t tx).1 ∧ KOK (commitD t tx).1 := by
  unfold commitD
  split
  · exact ⟨fun h => absurd rfl h, hw, hk⟩
  · split
    · rename_i hc
      exact ⟨fun _ => ⟨by simpa using hc, rfl⟩, hw, hk⟩
    · rename_i hc
      have hc' : consistentD t tx = true := by simpa using hc
      have hs := dStatic hw hi hc'
      have h0 := CInv.init hw hk hi hs (t.ver + 1)
      obtain ⟨e1, h1⟩ := commitDItems_ok hw hi hs tx.descr { t := { t with ver := t.ver + 1 }, tx := tx } (fun _ h => h) hi.dKeys
        h0
      dsimp only
      split
      · rename_i c e heq
        rw [heq] at e1; cases e1
      · rename_i c heq
        rw [heq] at h1
        obtain ⟨e2, w, k, _⟩ := commitStates_ok h1
        exact ⟨fun h => absurd e2 h, w, k⟩

theorem runD_ok {t : Tables} (hw : WF t) (hk : KOK t) (s : DScript) (hs : DScriptOK t s) :
    ((runD t s).2.2 = .commitFailed → (runD t s).1 = t) ∧ WF (runD t s).1 ∧ KOK (runD t s).1 := by
  unfold runD
  split
  · exact ⟨fun _ => rfl, hw, hk⟩
  · rename_i tx htx
    split
    · exact ⟨fun _ => rfl, hw, hk⟩
    · obtain ⟨a, b, c⟩ := commitD_ok hw hk (dCalls_ok hw hk hs htx)
      generalize commitD t tx = r at a b c
      obtain ⟨t', res, e⟩ := r
      cases e with
      | none => exact ⟨by simp; split <;> simp, b, c⟩
      | some e => exact ⟨fun _ => (a (by simp)).2, b, c⟩


/-! ## version counters over a descriptor transaction -/

/-- counters never go down, and whatever differs afterwards has a larger version -/
structure DMono (t T' : Tables) : Prop where
  seenD : ∀ h, seenD t h ≤ seenD T' h
  seenS : ∀ h, seenS t h ≤ seenS T' h
  seenC : ∀ h, seenC t h ≤ seenC T' h
  chgD : ∀ h a b, findD t h = some a → findD T' h = some b → a = b ∨ a.ver < b.ver
  chgS : ∀ h a b, findS t h = some a → findS T' h = some b → a = b ∨ a.sv < b.sv
  chgC : ∀ h a b, findC t h = some a → findC T' h = some b → a = b ∨ a.sv < b.sv

theorem DMono.refl (t : Tables) : DMono t t :=
  ⟨fun _ => optLe_refl _, fun _ => optLe_refl _, fun _ => optLe_refl _,
   fun _ _ _ ha hb => .inl (Option.some.inj (ha.symm.trans hb)), fun _ _ _ ha hb => .inl (Option.some.inj (ha.symm.trans hb)),
   fun _ _ _ ha hb => .inl (Option.some.inj (ha.symm.trans hb))⟩

theorem commitD_mono {t : Tables} (hw : WF t) (hk : KOK t) {tx : DTx} (hi : DTxOK t tx) : DMono t (commitD t tx).1 := by
  unfold commitD
  split
  · exact DMono.refl t
  · split
    · exact DMono.refl t
    · rename_i hc
      have hc' : consistentD t tx = true := by simpa using hc
      have hs := dStatic hw hi hc'
      have h0 := CInv.init hw hk hi hs (t.ver + 1)
      obtain ⟨e1, h1⟩ := commitDItems_ok hw hi hs tx.descr { t := { t with ver := t.ver + 1 }, tx := tx } (fun _ h => h) hi.dKeys
        h0
      dsimp only
      split
      · rename_i c e heq
        rw [heq] at e1; cases e1
      · rename_i c heq
        rw [heq] at h1
        obtain ⟨_, _, _, R⟩ := commitStates_ok h1
        simp only at h1
        generalize (commitStates c).1.t = T' at R
        have S := h1.seen
        refine ⟨?_, ?_, ?_, ?_, ?_, ?_⟩
        · intro h; rw [seenD_congr R.descrs R.dSaved]; exact S.monoD h
        · intro h; rw [← S.seenSeq h]; exact R.seenS h
        · intro h; rw [← S.seenCeq h]; exact R.seenC h
        · intro h a b ha hb
          obtain ⟨ea, hma⟩ := findD_some ha
          obtain ⟨eb, hmb⟩ := findD_some hb
          rw [R.descrs] at hmb
          exact S.dChg b hmb a hma (ea.trans eb.symm)
        · intro h a b ha hb
          rcases R.srcS h b hb with hcb | hkey
          · have := S.sSame h b hcb
            rw [ha] at this; exact .inl (Option.some.inj this)
          · obtain ⟨p, hp, rfl⟩ := List.mem_map.1 hkey
            cases hf : findS c.t p.1 with
            | none =>
              have := h1.siOld0 p hp (by rw [(h1.si p hp).old, hf])
              rw [ha] at this; cases this
            | some a' =>
              have := S.sSame _ a' hf
              rw [ha] at this; cases this
              obtain ⟨b', hb', r⟩ := R.chgS _ a hf
              rw [hb] at hb'; cases hb'; exact r
        · intro h a b ha hb
          rcases R.srcC h b hb with hcb | hkey
          · have := S.cSame h b hcb
            rw [ha] at this; exact .inl (Option.some.inj this)
          · obtain ⟨p, hp, rfl, _⟩ := hkey
            cases hf : findC c.t p.1 with
            | none =>
              have := h1.ciOld0 p hp (by rw [(h1.ci p hp).old, hf])
              rw [ha] at this; cases this
            | some a' =>
              have := S.cSame _ a' hf
              rw [ha] at this; cases this
              exact R.chgC _ a b hf hb

theorem runD_mono {t : Tables} (hw : WF t) (hk : KOK t) (s : DScript) (hs : DScriptOK t s) : DMono t (runD t s).1 := by
  unfold runD
  split
  · exact DMono.refl t
  · rename_i tx htx
    split
    · exact DMono.refl t
    · have := commitD_mono hw hk (dCalls_ok hw hk hs htx)
      generalize commitD t tx = r at this
      obtain ⟨t', res, e⟩ := r
      cases e <;> exact this

end Sdc.Mdib
