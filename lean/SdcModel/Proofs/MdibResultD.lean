import SdcModel.Proofs.MdibResult
/-!
# the descriptor lists of the TransactionResult during `commitDItems`
-/
set_option linter.unusedSimpArgs false
namespace Sdc.Mdib

variable {t₀ : Tables} {tx₀ : DTx} {del : List Handle} {pend : List (Handle × DItem)}

/-- what the result says about descriptors is true of the tables, and every changed handle is in the result -/
structure RInv (t₀ : Tables) (tx₀ : DTx) (del : List Handle) (pend : List (Handle × DItem)) (T : Tables) (R : TxResult) : Prop where
  cre : ∀ d ∈ R.descrCreated, findD T d.handle = some d ∧ d.handle ∈ toCreateOf tx₀
  upd : ∀ d ∈ R.descrUpdated, (∃ d', findD T d.handle = some d' ∧ d'.ver = d.ver ∧ d'.body = d.body ∧ d'.kind = d.kind) ∧
    d.handle ∉ del ∧ ((∃ o n, (d.handle, (⟨some o, some n⟩ : DItem)) ∈ tx₀.descr ∧ (d.handle, (⟨some o, some n⟩ : DItem)) ∉ pend) ∨
      d.handle ∉ toUpdateOf tx₀)
  delr : ∀ d ∈ R.descrDeleted, findD T d.handle = none ∧ d.handle ∈ del
  comp : ∀ h, findD T h ≠ findD t₀ h → h ∈ (R.descrCreated ++ R.descrUpdated ++ R.descrDeleted).map (·.handle)
  sl : R.metric = [] ∧ R.alert = [] ∧ R.comp = [] ∧ R.op = [] ∧ R.rt = [] ∧ R.ctx = []

theorem RInv.init (t : Tables) (tx : DTx) (del : List Handle) (pend : List (Handle × DItem)) (v : Nat) :
    RInv t tx del pend { t with ver := v } {} :=
  ⟨by simp, by simp, by simp, fun h hne => absurd rfl hne, ⟨rfl, rfl, rfl, rfl, rfl, rfl⟩⟩

theorem RInv.drop {T : Tables} {R : TxResult} {p : Handle × DItem} (h : RInv t₀ tx₀ del (p :: pend) T R) : RInv t₀ tx₀ del pend T R := by
  refine { h with upd := ?_ }
  intro d hd
  obtain ⟨a, b, c⟩ := h.upd d hd
  refine ⟨a, b, ?_⟩
  rcases c with ⟨o, n, h1, h2⟩ | c
  · exact .inl ⟨o, n, h1, fun hm => h2 (by simp [hm])⟩
  · exact .inr c

theorem updCorresponding_res (c : DCommit) (d : Descr) : (updCorresponding c d).res = c.res := by
  rw [updCorresponding_eq]
  split
  · rfl
  · unfold ucSingle
    split
    · rfl
    · split <;> rfl

theorem mem_lists_mono {R : TxResult} {h : Handle} {a b c : List Descr}
    (hm : h ∈ (R.descrCreated ++ R.descrUpdated ++ R.descrDeleted).map (·.handle)) :
    h ∈ ((R.descrCreated ++ a) ++ (R.descrUpdated ++ b) ++ (R.descrDeleted ++ c)).map (·.handle) := by
  simp only [List.map_append, List.mem_append] at hm ⊢
  rcases hm with (hm | hm) | hm
  · exact .inl (.inl (.inl hm))
  · exact .inl (.inr (.inl hm))
  · exact .inr (.inl hm)

/-- `add_object_no_lock(n)` + report as created -/
theorem RInv.add {T : Tables} {R : TxResult} (h : RInv t₀ tx₀ del pend T R) {n : Descr} (hfresh : findD T n.handle = none)
    (hc : n.handle ∈ toCreateOf tx₀) (hnd : n.handle ∉ del) :
    RInv t₀ tx₀ del pend { T with descrs := T.descrs ++ [n] } { R with descrCreated := R.descrCreated ++ [n] } := by
  have hf : ∀ k, k ≠ n.handle → findD { T with descrs := T.descrs ++ [n] } k = findD T k := by
    intro k hk
    rw [findD_append]
    have : ¬ n.handle = k := fun e => hk e.symm
    simp [this]
  have hf' : findD { T with descrs := T.descrs ++ [n] } n.handle = some n := by
    rw [findD_append, hfresh]; simp
  have hpres : ∀ k x, findD T k = some x → k ≠ n.handle := by
    intro k x hx e; rw [e, hfresh] at hx; cases hx
  refine ⟨?_, ?_, ?_, ?_, h.sl⟩
  · intro d hd
    simp only [List.mem_append, List.mem_singleton] at hd
    rcases hd with hd | rfl
    · obtain ⟨a, b⟩ := h.cre d hd
      exact ⟨by rw [hf _ (hpres _ _ a)]; exact a, b⟩
    · exact ⟨hf', hc⟩
  · intro d hd
    obtain ⟨⟨d', a1, a2⟩, b, c⟩ := h.upd d hd
    exact ⟨⟨d', by rw [hf _ (hpres _ _ a1)]; exact a1, a2⟩, b, c⟩
  · intro d hd
    obtain ⟨a, b⟩ := h.delr d hd
    exact ⟨by rw [hf _ (fun e => hnd (e ▸ b))]; exact a, b⟩
  · intro k hk
    by_cases e : k = n.handle
    · subst e; simp
    · rw [hf k e] at hk
      have := mem_lists_mono (a := [n]) (b := []) (c := []) (h.comp k hk)
      simpa using this

/-- the descriptor with handle `q` is replaced by `d'` and `r` (same handle, version, body, kind) is reported as updated -/
theorem RInv.repl {T : Tables} {R : TxResult} (h : RInv t₀ tx₀ del pend T R) (hn : (T.descrs.map (·.handle)).Nodup)
    {d d' r : Descr} (hd : d ∈ T.descrs) (e1 : d'.handle = d.handle) (er : r.handle = d.handle ∧ d'.ver = r.ver ∧ d'.body = r.body ∧ d'.kind = r.kind)
    (hq1 : d.handle ∉ toCreateOf tx₀) (hq2 : d.handle ∉ del) (hq3 : ∀ x ∈ R.descrUpdated, x.handle ≠ d.handle)
    (hq4 : (∃ o n, (d.handle, (⟨some o, some n⟩ : DItem)) ∈ tx₀.descr ∧ (d.handle, (⟨some o, some n⟩ : DItem)) ∉ pend) ∨
      d.handle ∉ toUpdateOf tx₀) :
    RInv t₀ tx₀ del pend (replaceDescr T d') { R with descrUpdated := R.descrUpdated ++ [r] } := by
  have hf := findD_replaceDescr hn hd e1
  have hdq : findD T d.handle = some d := find_of_mem_nodup (fun x : Descr => x.handle) hn hd
  refine ⟨?_, ?_, ?_, ?_, h.sl⟩
  · intro x hx
    obtain ⟨a, b⟩ := h.cre x hx
    have : x.handle ≠ d.handle := fun e => hq1 (e ▸ b)
    exact ⟨by rw [hf, if_neg this]; exact a, b⟩
  · intro x hx
    simp only [List.mem_append, List.mem_singleton] at hx
    rcases hx with hx | rfl
    · obtain ⟨⟨x', a1, a2⟩, b, c⟩ := h.upd x hx
      exact ⟨⟨x', by rw [hf, if_neg (hq3 x hx)]; exact a1, a2⟩, b, c⟩
    · refine ⟨⟨d', by rw [hf, er.1, if_pos rfl], er.2⟩, by rw [er.1]; exact hq2, by rw [er.1]; exact hq4⟩
  · intro x hx
    obtain ⟨a, b⟩ := h.delr x hx
    have : x.handle ≠ d.handle := fun e => by rw [e, hdq] at a; cases a
    exact ⟨by rw [hf, if_neg this]; exact a, b⟩
  · intro k hk
    by_cases e : k = d.handle
    · subst e; simp [er.1]
    · rw [hf, if_neg e] at hk
      have := mem_lists_mono (a := []) (b := [r]) (c := []) (h.comp k hk)
      simpa using this

/-- only the order of the descriptor list changes -/
theorem RInv.congr {T : Tables} {R : TxResult} (h : RInv t₀ tx₀ del pend T R) {L : List Descr}
    (hm : ∀ x, x ∈ L ↔ x ∈ T.descrs) (hn : (L.map (·.handle)).Nodup) : RInv t₀ tx₀ del pend { T with descrs := L } R := by
  have hf := findD_congr_mem hm hn
  refine ⟨?_, ?_, ?_, ?_, h.sl⟩
  · intro d hd; rw [hf]; exact h.cre d hd
  · intro d hd; rw [hf]; exact h.upd d hd
  · intro d hd; rw [hf]; exact h.delr d hd
  · intro k; rw [hf]; exact h.comp k

theorem Removed.findD {D : Handle → Prop} {T T1 : Tables} (R : Removed D T T1) (hn : (T.descrs.map (·.handle)).Nodup) (k : Handle) :
    (D k → Sdc.Mdib.findD T1 k = none) ∧ (¬ D k → Sdc.Mdib.findD T1 k = Sdc.Mdib.findD T k) := by
  have hn1 : (T1.descrs.map (·.handle)).Nodup := (R.dSub.map _).nodup hn
  constructor
  · intro hk
    apply (find_none_iff (fun d : Descr => d.handle)).2
    intro hm
    obtain ⟨x, hx, e⟩ := List.mem_map.1 hm
    exact ((R.descrs x).1 hx).2 (e ▸ hk)
  · intro hk
    cases hf : Sdc.Mdib.findD T k with
    | none =>
      apply (find_none_iff (fun d : Descr => d.handle)).2
      intro hm
      obtain ⟨x, hx, e⟩ := List.mem_map.1 hm
      exact (find_none_iff (fun d : Descr => d.handle)).1 hf (List.mem_map.2 ⟨x, ((R.descrs x).1 hx).1, e⟩)
    | some x =>
      obtain ⟨e, hx⟩ := findD_some hf
      have := find_of_mem_nodup (fun d : Descr => d.handle) hn1 ((R.descrs x).2 ⟨hx, by rw [e]; exact hk⟩)
      simp only [e] at this
      exact this

/-- `rm_descriptors_and_states(all)` + report as deleted -/
theorem RInv.rm {T : Tables} {R : TxResult} (h : RInv t₀ tx₀ del pend T R) (hn : (T.descrs.map (·.handle)).Nodup)
    (hc : (T.ctx.map (·.h)).Nodup) (all : List Descr) (hD : ∀ x ∈ all, x.handle ∈ del)
    (hcre : ∀ k ∈ toCreateOf tx₀, k ∉ del) :
    RInv t₀ tx₀ del pend (all.foldl rmDescrAndStates T) { R with descrDeleted := R.descrDeleted ++ all } := by
  have Rm := removed_foldl all hc
  have hD' : ∀ k, k ∈ all.map (·.handle) → k ∈ del := by
    intro k hk; obtain ⟨x, hx, rfl⟩ := List.mem_map.1 hk; exact hD x hx
  refine ⟨?_, ?_, ?_, ?_, h.sl⟩
  · intro d hd
    obtain ⟨a, b⟩ := h.cre d hd
    exact ⟨by rw [(Rm.findD hn _).2 (fun hk => hcre _ b (hD' _ hk))]; exact a, b⟩
  · intro d hd
    obtain ⟨⟨d', a1, a2⟩, b, c⟩ := h.upd d hd
    exact ⟨⟨d', by rw [(Rm.findD hn _).2 (fun hk => b (hD' _ hk))]; exact a1, a2⟩, b, c⟩
  · intro d hd
    simp only [List.mem_append] at hd
    rcases hd with hd | hd
    · obtain ⟨a, b⟩ := h.delr d hd
      refine ⟨?_, b⟩
      by_cases hk : d.handle ∈ all.map (·.handle)
      · exact (Rm.findD hn _).1 hk
      · rw [(Rm.findD hn _).2 hk]; exact a
    · exact ⟨(Rm.findD hn _).1 (List.mem_map_of_mem hd), hD d hd⟩
  · intro k hk
    by_cases hkD : k ∈ all.map (·.handle)
    · simp only [List.map_append, List.mem_append]; exact .inr (.inr hkD)
    · rw [(Rm.findD hn _).2 hkD] at hk
      have := mem_lists_mono (a := []) (b := []) (c := all) (h.comp k hk)
      simpa using this


theorem RInv.incPar {c : DCommit} (hr : RInv t₀ tx₀ del pend c.t c.res) (hn : (c.t.descrs.map (·.handle)).Nodup) {q : Handle}
    (hq1 : q ∉ toCreateOf tx₀) (hq2 : q ∉ del) (hq3 : q ∉ toUpdateOf tx₀) :
    RInv t₀ tx₀ del pend (Sdc.Mdib.incParent c q).t (Sdc.Mdib.incParent c q).res := by
  unfold Sdc.Mdib.incParent
  split
  · exact hr
  · rename_i p hp
    obtain ⟨hph, hpm⟩ := findD_some hp
    split
    · exact hr
    · rename_i hany
      rw [updCorresponding_t, updCorresponding_res]
      refine hr.repl hn (d := p) (d' := { p with ver := p.ver + 1 }) (r := { p with ver := p.ver + 1 }) hpm rfl ⟨rfl, rfl, rfl, rfl⟩
        (by rw [hph]; exact hq1) (by rw [hph]; exact hq2) ?_ (.inr (by rw [hph]; exact hq3))
      intro x hx e
      apply hany
      simp only [List.any_eq_true, beq_iff_eq]
      exact ⟨x, hx, e.trans hph⟩

theorem commitDItem_res {st : Handle → Prop} (hw : WF t₀) (hi : DTxOK t₀ tx₀) (hs : DStatic t₀ tx₀ del) {c : DCommit} {k : Handle}
    {it : DItem} (hmem : (k, it) ∈ tx₀.descr) (hkeys : (((k, it) :: pend).map (·.1)).Nodup)
    (h : CInv t₀ tx₀ del ((k, it) :: pend) st c.t c.tx) (hr : RInv t₀ tx₀ del ((k, it) :: pend) c.t c.res) :
    RInv t₀ tx₀ del pend (commitDItem del (toCreateOf tx₀) (toUpdateOf tx₀) c it).1.t
      (commitDItem del (toCreateOf tx₀) (toUpdateOf tx₀) c it).1.res := by
  have hcre : ∀ k' ∈ toCreateOf tx₀, k' ∉ del := by
    intro k' hk' hd
    obtain ⟨d, hd', e⟩ := hs.delSub _ hd
    exact created_not_in_t0 hi hk' (e ▸ List.mem_map_of_mem hd')
  have hr0 := hr.drop
  obtain ⟨old, new⟩ := it
  cases old with
  | none =>
    cases new with
    | none => exact absurd rfl (hi.dSome _ hmem rfl)
    | some n =>
      obtain ⟨hadd, h1⟩ := h.add hi hs hmem hkeys
      have hnh : n.handle = k := hi.dNew _ hmem n rfl
      have hkc : k ∈ toCreateOf tx₀ := mem_toCreateOf.2 ⟨_, hmem, n, rfl, hnh⟩
      have hfresh : findD c.t n.handle = none := (addDescr_ok_iff.1 hadd).1
      have hr1 := hr0.add hfresh (hnh ▸ hkc) (hnh ▸ hcre k hkc)
      simp only [commitDItem, hadd]
      rw [updCorresponding_t, updCorresponding_res]
      cases hp : n.parent with
      | none => exact hr1
      | some p =>
        simp only
        split
        · exact hr1
        · rename_i hcond
          simp only [Bool.or_eq_true, List.contains_eq_mem, decide_eq_true_eq, not_or] at hcond
          have hpd : p ∉ del := by
            rcases hs.crePar _ hmem n rfl p hp with ⟨m, hm⟩ | ⟨a, _⟩
            · exact absurd (mem_toCreateOf.2 ⟨_, hm, m, rfl, hi.dNew _ hm m rfl⟩) hcond.1
            · exact a
          exact RInv.incPar (c := ⟨_, _, _⟩) hr1 h1.dKeys hcond.1 hpd hcond.2
  | some o =>
    have hok := hi.dOld _ hmem
    simp only at hok
    obtain ⟨hoh, hot⟩ := findD_some hok.symm
    have hkt : k ∉ toCreateOf tx₀ := fun hc => created_not_in_t0 hi hc (hoh ▸ List.mem_map_of_mem hot)
    cases new with
    | none =>
      have hod : o.handle ∈ del := by rw [hoh]; exact hs.delRoot _ hmem o rfl
      have h0 := h.drop (.inl (by simp)) hi hmem
      simp only [commitDItem]
      split
      · exact hr0
      · have hD : ∀ x ∈ subtreeBelow c.t (c.t.descrs.length + 1) o.handle ++ [o], x.handle ∈ del := by
          intro x hx
          simp only [List.mem_append, List.mem_singleton] at hx
          rcases hx with hx | rfl
          · exact h.sub_del _ _ hod x hx
          · exact hod
        have hr1 := hr0.rm h.dKeys h.cKeys _ hD hcre
        have h1 := h0.delete hi hs hod
        cases hp : o.parent with
        | none => exact hr1
        | some p =>
          simp only
          split
          · exact hr1
          · rename_i hcond
            simp only [Bool.or_eq_true, List.contains_eq_mem, decide_eq_true_eq, not_or] at hcond
            refine RInv.incPar (c := ⟨_, _, _⟩) hr1 h1.dKeys ?_ hcond.1 hcond.2
            intro hc
            obtain ⟨q, hq, e⟩ := hw.parent o hot p hp
            exact created_not_in_t0 hi hc (e ▸ List.mem_map_of_mem hq)
    | some n =>
      have hnd : k ∉ del := hs.updNotDel _ hmem o n rfl
      have hpres := h.dSurv o hot (by rw [hoh]; exact hnd)
      obtain ⟨x, hx, hxh⟩ := List.mem_map.1 hpres
      have hfx : findD c.t o.handle = some x := by
        have := find_of_mem_nodup (fun d : Descr => d.handle) h.dKeys hx
        simp only [hxh] at this; exact this
      have hxk : x.handle = k := hxh.trans hoh
      have hku : k ∈ toUpdateOf tx₀ := mem_toUpdateOf.2 ⟨_, hmem, o, n, rfl, hi.dNew _ hmem n rfl⟩
      have hr1 := hr0.repl h.dKeys (d := x) (d' := { o with ver := n.ver, body := n.body }) (r := n) hx hxh.symm
        ⟨(hi.dNew _ hmem n rfl).trans hxk.symm, rfl, rfl, (hi.dUpd _ hmem o rfl n rfl).1.symm⟩
        (by rw [hxk]; exact hkt) (by rw [hxk]; exact hnd)
        (by
          intro y hy e
          rw [hxk] at e
          rcases (hr.upd y hy).2.2 with ⟨o', n', m1, m2⟩ | hnu
          · rw [e] at m1 m2
            have a := dictGet_of_mem_nodup hi.dKeys m1
            have b := dictGet_of_mem_nodup hi.dKeys hmem
            rw [a] at b; cases b
            exact m2 (by simp)
          · exact hnu (e ▸ hku))
        (.inl ⟨o, n, hxk ▸ hmem, by
          rw [hxk]; intro hm
          simp only [List.map_cons, List.nodup_cons] at hkeys
          exact hkeys.1 (List.mem_map.2 ⟨_, hm, rfl⟩)⟩)
      simp only [commitDItem, hfx]
      rw [updCorresponding_t, updCorresponding_res]
      have hn1 : ((replaceDescr c.t { o with ver := n.ver, body := n.body }).descrs.map (·.handle)).Nodup := by
        rw [replaceDescr_handles]; exact h.dKeys
      have hm1 : ({ o with ver := n.ver, body := n.body } : Descr) ∈ (replaceDescr c.t { o with ver := n.ver, body := n.body }).descrs :=
        mem_replaceDescr.2 (.inl ⟨rfl, hpres⟩)
      exact hr1.congr (fun _ => mem_reindexDescr hn1 hm1) (reindexDescr_nodup hn1 _)

theorem commitDItems_res (hw : WF t₀) (hi : DTxOK t₀ tx₀) (hs : DStatic t₀ tx₀ del) :
    ∀ (pend : List (Handle × DItem)) (c : DCommit), (∀ p ∈ pend, p ∈ tx₀.descr) → (pend.map (·.1)).Nodup →
      CInv t₀ tx₀ del pend (pendUpd pend) c.t c.tx → RInv t₀ tx₀ del pend c.t c.res →
      RInv t₀ tx₀ del [] (commitDItems del (toCreateOf tx₀) (toUpdateOf tx₀) c pend).1.t
        (commitDItems del (toCreateOf tx₀) (toUpdateOf tx₀) c pend).1.res := by
  intro pend
  induction pend with
  | nil => intro c _ _ _ hr; exact hr
  | cons p rest ih =>
    intro c hsub hn h hr
    obtain ⟨k, it⟩ := p
    obtain ⟨e1, h1⟩ := commitDItem_ok hw hi hs (hsub (k, it) (by simp)) hn h
    have r1 := commitDItem_res hw hi hs (hsub (k, it) (by simp)) hn h hr
    simp only [commitDItems]
    generalize commitDItem del (toCreateOf tx₀) (toUpdateOf tx₀) c it = r at e1 h1 r1
    obtain ⟨c1, e⟩ := r
    simp only at e1; subst e1
    simp only
    exact ih c1 (fun p hp => hsub p (by simp [hp])) (by simp only [List.map_cons, List.nodup_cons] at hn; exact hn.2) h1 r1

end Sdc.Mdib
