import SdcModel.Proofs.MdibLinkFlat
/-!
# descriptor transactions satisfy the consumer contract (under `TxLinkOK`)
-/
set_option linter.unusedSimpArgs false
namespace Sdc.Mdib
open Sdc.Consumer

/-- what the consumer contract needs of the transaction the script collected: subtrees are removed bottom-up with one
    `remove_descriptor` per descriptor, updated descriptors keep parent / source mds, `write_entity` deletes no context state -/
def TxLinkOK (t : Mdib.Tables) (tx : DTx) : Prop :=
  DeletesFlatFrom t [] tx.descr ∧ KeepsParent tx ∧ ∀ p ∈ tx.cItems, p.2.new ≠ none
instance (t : Mdib.Tables) (tx : DTx) : Decidable (TxLinkOK t tx) := by unfold TxLinkOK; infer_instance

theorem delOld_handles_sublist : ∀ (l : List (Handle × DItem)), (∀ p ∈ l, ∀ d, delOld p = some d → d.handle = p.1) →
    ((l.filterMap delOld).map (·.handle)).Sublist (l.map (·.1)) := by
  intro l
  induction l with
  | nil => intro _; simp
  | cons p rest ih =>
    intro hl
    have ih' := ih (fun q hq => hl q (by simp [hq]))
    simp only [List.filterMap_cons]
    cases hn : delOld p with
    | none => simp only [List.map_cons]; exact ih'.cons _
    | some n =>
      simp only [List.map_cons]
      rw [hl p (by simp) n hn]
      exact ih'.cons_cons _

theorem pfacts_commitD {t : Mdib.Tables} (hw : WF t) (hk : KOK t) {tx : DTx} (hi : DTxOK t tx) (hl : TxLinkOK t tx)
    (hne : tx.descr.isEmpty = false) (hnf : (commitD t tx).2.2 = none) : PFacts t (commitD t tx).1 (commitD t tx).2.1 := by
  have hok := commitD_ok hw hk hi
  by_cases hc : consistentD t tx = true
  case neg =>
    exfalso; revert hnf
    unfold commitD; simp [hne, hc]
  have hver := commitD_ver t tx hne hc
  have hwf' := hok.2.1
  revert hnf hver hwf'
  unfold commitD
  simp only [hne, Bool.false_eq_true, if_false, hc, Bool.not_true]
  have hs := dStatic hw hi hc
  have h0 := CInv.init hw hk hi hs (t.ver + 1)
  have r0 := RInv.init t tx (deletedHandles t tx) tx.descr (t.ver + 1)
  have x0 := RExt.init t tx True True (t.ver + 1)
  obtain ⟨e1, h1⟩ := commitDItems_ok hw hi hs tx.descr { t := { t with ver := t.ver + 1 }, tx := tx } (fun _ h => h) hi.dKeys h0
  have r1 := commitDItems_res hw hi hs tx.descr { t := { t with ver := t.ver + 1 }, tx := tx } (fun _ h => h) hi.dKeys h0 r0
  have x1 := commitDItems_ext (flat := True) (keepP := True) hw hi hs (fun _ => hl.2.1) tx.descr []
    { t := { t with ver := t.ver + 1 }, tx := tx } rfl h0 r0 x0 (fun _ => hl.1)
  try dsimp only
  split
  · rename_i c e heq
    rw [heq] at e1; cases e1
  · rename_i c heq
    rw [heq] at h1 r1 x1
    simp only at h1 r1 x1
    intro _ hver hwf'
    obtain ⟨_, _, _, R⟩ := commitStates_ok h1
    have hS : c.res.allS = [] := by
      obtain ⟨a, b, c', d, e, _⟩ := r1.sl
      simp [TxResult.allS, a, b, c', d, e]
    obtain ⟨s1, s2, s3, s4, fr, s6, s7⟩ := commitStates_res h1 hS r1.sl.2.2.2.2.2
    have S := h1.seen
    have hnd := h1.ciNoDel hl.2.2
    generalize (commitStates c).1.t = T' at R s1 s3 hver hwf'
    generalize (commitStates c).1.res = R' at s1 s2 s3 s4 fr s6 s7
    obtain ⟨f1, f2, f3⟩ := fr
    have fD : ∀ k, findD T' k = findD c.t k := fun k => by simp [findD, R.descrs]
    have hdelH : ∀ k ∈ deletedHandles t tx, k ∈ t.descrs.map (·.handle) := fun k hk' => by
      obtain ⟨d, hd, e⟩ := hs.delSub k hk'; exact e ▸ List.mem_map_of_mem hd
    have hcreN : ∀ d ∈ c.res.descrCreated, d.handle ∉ t.descrs.map (·.handle) := fun d hd => created_not_in_t0 hi (r1.cre d hd).2
    have hdold : ∀ (p : Handle × DItem), p ∈ tx.descr → ∀ d, delOld p = some d → d.handle = p.1 := by
      intro p hp d hd
      have := hi.dOld p hp
      rw [(delOld_isDel hd).2] at this
      exact (findD_some this.symm).1
    have hDeq : c.res.descrDeleted = tx.descr.filterMap delOld := x1.delEq trivial
    -- facts about states used several times
    have cRemoved : ∀ x ∈ t.ctx, (findC T' x.h).isSome ∨ x.dh ∈ c.res.descrDeleted.map (·.handle) := by
      intro x hx
      rcases x1.cGone x.h x (hw.findC_of_mem hx) with hsome | hdel
      · exact .inl (R.keepC hnd x.h x hsome)
      · exact .inr hdel
    have cStable : ∀ x ∈ T'.ctx, ∀ old, findC t x.h = some old → old.dh = x.dh := by
      intro x hx old ho
      have hx' := hwf'.findC_of_mem hx
      rcases R.srcC x.h x hx' with hcb | ⟨p, hp, e, hn⟩
      · have := S.cSame x.h x hcb
        rw [ho] at this; cases this; rfl
      · obtain ⟨_, _, hdh, _⟩ := (h1.ci p hp).new x hn
        cases hf : findC c.t p.1 with
        | none =>
          have := h1.ciOld0 p hp (by rw [(h1.ci p hp).old, hf])
          rw [e, ho] at this; cases this
        | some o =>
          have := S.cSame _ o hf
          rw [e, ho] at this; cases this
          exact hdh old (by rw [(h1.ci p hp).old, hf]; rfl)
    have cComplete : ∀ x ∈ T'.ctx, findC t x.h = some x ∨ x ∈ R'.ctx := by
      intro x hx
      have hx' := hwf'.findC_of_mem hx
      rcases R.srcC x.h x hx' with hcb | ⟨p, hp, e, hn⟩
      · exact .inl (S.cSame x.h x hcb)
      · exact .inr (s4 p hp x hn)
    have updFacts : ∀ d ∈ c.res.descrUpdated, findD T' d.handle = some d ∧ ∃ old, findD t d.handle = some old ∧
        old.parent = d.parent ∧ old.mds = d.mds ∧ old.ver < d.ver := by
      intro d hd
      have hfd := x1.updEq trivial d hd
      obtain ⟨d0, hd0, e0⟩ := List.mem_map.1 (x1.updIn d hd)
      have hdm := (findD_some hfd).2
      obtain ⟨a, _, b⟩ := h1.dOld d hdm d0 hd0 e0
      refine ⟨by rw [fD]; exact hfd, d0, ?_, a, b, x1.updV d hd d0 hd0 e0⟩
      rw [← e0]; exact hw.findD_of_mem hd0
    have hver' : T'.ver = t.ver + 1 := hver
    refine ⟨by show t.ver < T'.ver; omega, hw, hwf', ?_, ?_, ?_, ?_, ?_, ?_, ?_, ?_, s1, ?_, ?_, ?_, s3, ?_, cComplete, ?_, cStable, ?_⟩
    · -- something is reported
      have := x1.ne (by intro e; simp [e] at hne)
      rw [f1, f2, f3]
      by_cases a : c.res.descrUpdated = []
      · by_cases b : c.res.descrCreated = []
        · exact .inr (.inr (.inr (.inr (by simpa [a, b] using this))))
        · exact .inr (.inr (.inr (.inl b)))
      · exact .inr (.inr (.inl a))
    · -- partsDistinct
      rw [f1, f2, f3, List.map_append, List.map_append, List.nodup_append, List.nodup_append]
      refine ⟨⟨x1.nodupU, x1.nodupC, ?_⟩, ?_, ?_⟩
      · intro a ha b hb e
        obtain ⟨u, hu, rfl⟩ := List.mem_map.1 ha
        obtain ⟨cr, hcr, rfl⟩ := List.mem_map.1 hb
        exact hcreN cr hcr (e ▸ x1.updIn u hu)
      · rw [hDeq]
        exact (delOld_handles_sublist tx.descr hdold).nodup hi.dKeys
      · intro a ha b hb e
        obtain ⟨dl, hdl, rfl⟩ := List.mem_map.1 hb
        have hbd := (r1.delr dl hdl).2
        simp only [List.mem_append, List.mem_map] at ha
        rcases ha with ⟨u, hu, rfl⟩ | ⟨cr, hcr, rfl⟩
        · exact (r1.upd u hu).2.1 (e ▸ hbd)
        · exact hcreN cr hcr (e ▸ hdelH _ hbd)
    · -- created
      intro d hd; rw [f1] at hd
      exact ⟨(find_none_iff (fun d : Descr => d.handle)).2 (hcreN d hd), by rw [fD]; exact (r1.cre d hd).1⟩
    · -- updated
      intro d hd; rw [f2] at hd
      obtain ⟨a, old, b, c1, c2, _⟩ := updFacts d hd
      exact ⟨old, b, c1, c2, a⟩
    · -- deleted
      intro d hd; rw [f3] at hd
      obtain ⟨a, b⟩ := r1.delr d hd
      refine ⟨?_, by rw [fD]; exact a⟩
      obtain ⟨d0, hd0, e⟩ := hs.delSub _ b
      rw [← e, hw.findD_of_mem hd0]; rfl
    · -- descrComplete
      intro d hd
      have hd' := hwf'.findD_of_mem hd
      by_cases e : findD t d.handle = some d
      · exact .inl e
      · right
        have := r1.comp d.handle (by rw [← fD, hd']; exact fun e' => e e'.symm)
        rw [f1, f2]
        simp only [List.map_append, List.mem_append] at this ⊢
        rcases this with (a | a) | a
        · exact .inr a
        · exact .inl a
        · obtain ⟨x, hx, ex⟩ := List.mem_map.1 a
          have := (r1.delr x hx).1
          rw [ex, ← fD, hd'] at this; cases this
    · -- descrRemoved
      intro d hd
      cases hf : findD T' d.handle with
      | some _ => exact .inl rfl
      | none =>
        right
        have := r1.comp d.handle (by rw [← fD, hf, hw.findD_of_mem hd]; simp)
        rw [f3]
        simp only [List.map_append, List.mem_append] at this
        rcases this with (a | a) | a
        · obtain ⟨x, hx, ex⟩ := List.mem_map.1 a
          have := (r1.cre x hx).1
          rw [ex, ← fD, hf] at this; cases this
        · obtain ⟨x, hx, ex⟩ := List.mem_map.1 a
          have := (updFacts x hx).1
          rw [ex, hf] at this; cases this
        · exact a
    · -- flat
      intro q i
      have hUCpar : ∀ (p : Handle × DItem), p ∈ tx.descr → isDelItem p = true →
          ∀ b ∈ (c.res.descrUpdated.map (mkDPart R' .update) ++ c.res.descrCreated.map (mkDPart R' .create)).map DPart.flat,
            b.descr.parent ≠ some p.1 := by
        intro p hp hpd b hb hpar
        have hroot : p.1 ∈ deletedHandles t tx := by
          unfold isDelItem at hpd
          cases ho : p.2.old with
          | none => simp [ho] at hpd
          | some o =>
            have hn : p.2.new = none := by simpa [ho] using hpd
            exact hs.delRoot p hp o (by cases p with | mk k it => cases it; simp_all)
        simp only [List.map_append, List.map_map, List.mem_append, List.mem_map, Function.comp] at hb
        have key : ∀ x ∈ c.t.descrs, x.handle ∉ deletedHandles t tx → x.parent ≠ some p.1 :=
          fun x hx hnd' e => h1.dUp x hx hnd' p.1 e hroot
        rcases hb with ⟨u, hu, rfl⟩ | ⟨cr, hcr, rfl⟩
        · exact key u (findD_some (x1.updEq trivial u hu)).2 (r1.upd u hu).2.1 hpar
        · exact key cr (findD_some (r1.cre cr hcr).1).2 (fun hd' => hcreN cr hcr (hdelH _ hd')) hpar
      have := flatDeletes_items (t := t) R' q i
        ((c.res.descrUpdated.map (mkDPart R' .update) ++ c.res.descrCreated.map (mkDPart R' .create)).map DPart.flat) tx.descr
        hdold hUCpar tx.descr [] hl.1 (fun p hp => by simpa using hp)
      simp only [List.filterMap_nil, List.map_nil, List.append_nil] at this
      unfold resParts
      rw [f1, f2, f3, hDeq, List.map_append, flatDeletes_nondel _ _ [] _ ?_]
      · simpa using this
      · intro a ha
        simp only [List.map_append, List.map_map, List.mem_append, List.mem_map, Function.comp] at ha
        rcases ha with ⟨u, _, rfl⟩ | ⟨cr, _, rfl⟩ <;> simp
    · -- stateNewer
      intro x hx old ho
      obtain ⟨p, hp, rfl⟩ := s6 x hx
      have hdh := (h1.si p hp).dh
      rw [hdh] at ho
      cases hf : findS c.t p.1 with
      | none =>
        have := h1.siOld0 p hp (by rw [(h1.si p hp).old, hf])
        rw [ho] at this; cases this
      | some o =>
        have := S.sSame _ o hf
        rw [ho] at this; cases this
        exact (h1.si p hp).bump.1 old hf
    · -- stateComplete
      intro x hx
      have hx' := hwf'.findS_of_mem hx
      rcases R.srcS x.dh x hx' with hcb | hkey
      · exact .inl (S.sSame x.dh x hcb)
      · right
        obtain ⟨p, hp, e⟩ := List.mem_map.1 hkey
        have hin := s2 p hp
        have := s1 _ hin
        rw [(h1.si p hp).dh, e, hx'] at this
        exact (Option.some.inj this) ▸ hin
    · -- stateRemoved
      intro x hx
      rcases x1.sGone x.dh x (hw.findS_of_mem hx) with hsome | hdel
      · obtain ⟨b, hb, _⟩ := R.chgS x.dh x hsome
        exact .inl (by rw [hb]; rfl)
      · exact .inr (f3 ▸ hdel)
    · -- cstateNewer
      intro x hx old ho
      obtain ⟨p, hp, hn⟩ := s7 x hx
      obtain ⟨hh, _, _, hb, _⟩ := (h1.ci p hp).new x hn
      rw [hh] at ho
      cases hf : findC c.t p.1 with
      | none =>
        have := h1.ciOld0 p hp (by rw [(h1.ci p hp).old, hf])
        rw [ho] at this; cases this
      | some o =>
        have := S.cSame _ o hf
        rw [ho] at this; cases this
        exact hb.1 old hf
    · -- cstateRemoved
      intro x hx; rw [f3]; exact cRemoved x hx
    · -- ctxUpdateLists
      intro d hd hkind x hx hxd
      rw [f2] at hd
      obtain ⟨hfd, old, hfo, _, _, hlt⟩ := updFacts d hd
      -- a context state of `d` in the new tables is reported: its DescriptorVersion changed
      have hnew : ∀ y ∈ T'.ctx, y.dh = d.handle → y ∈ R'.ctx := by
        intro y hy hyd
        rcases cComplete y hy with hsame | hrep
        · exfalso
          obtain ⟨e, hyt⟩ := findC_some hsame
          obtain ⟨d1, hd1, e1, v1⟩ := hw.cRef y hyt
          obtain ⟨d2, hd2, e2, v2⟩ := hwf'.cRef y hy
          have a1 := hw.findD_of_mem hd1
          have a2 := hwf'.findD_of_mem hd2
          rw [e1, hyd, hfo] at a1; rw [e2, hyd, hfd] at a2
          cases a1; cases a2
          omega
        · exact hrep
      simp only [List.mem_append] at hx
      rcases hx with hx | hx
      · rcases cRemoved x hx with hsome | hdel
        · cases hf : findC T' x.h with
          | none => rw [hf] at hsome; cases hsome
          | some y =>
            obtain ⟨ey, hy⟩ := findC_some hf
            have hyd : y.dh = d.handle := by
              have := cStable y hy x (by rw [ey]; exact hw.findC_of_mem hx)
              rw [← this]; exact hxd
            exact ⟨y, hnew y hy hyd, ey, hyd⟩
        · exfalso
          obtain ⟨dl, hdl, e⟩ := List.mem_map.1 hdel
          have := (r1.delr dl hdl).1
          rw [e, hxd, ← fD, hfd] at this; cases this
      · exact ⟨x, hnew x hx hxd, rfl, hxd⟩

end Sdc.Mdib

namespace Sdc.Mdib
open Sdc.Consumer

/-- the transaction the script collects satisfies `TxLinkOK` (decidable: the calls are run against the tables) -/
def DLinkOK (t : Mdib.Tables) (s : DScript) : Prop :=
  match runCalls (dCall t) s.catchErrors { newVer := t.ver + 1 } s.calls with
  | .ok tx => TxLinkOK t tx
  | .error _ => True

instance (t : Mdib.Tables) (s : DScript) : Decidable (DLinkOK t s) := by
  unfold DLinkOK; split <;> infer_instance

theorem pfacts_descriptor {t t' : Mdib.Tables} {r : TxResult} (hw : WF t) (hk : KOK t) (s : DScript) (hs : DScriptOK t s)
    (hl : DLinkOK t s) (h : runD t s = (t', r, .committed)) : PFacts t t' r := by
  unfold DLinkOK at hl
  unfold runD at h
  split at h
  · cases h
  · rename_i tx htx
    rw [htx] at hl
    split at h
    · cases h
    · have hi := dCalls_ok hw hk hs htx
      by_cases he : tx.descr.isEmpty
      · simp [commitD, he] at h
      · have he' : tx.descr.isEmpty = false := by simpa using he
        have key := pfacts_commitD hw hk hi hl he'
        generalize commitD t tx = q at h key
        obtain ⟨t1, r1, e⟩ := q
        cases e with
        | some e => simp at h
        | none =>
          simp only [Prod.mk.injEq] at h
          obtain ⟨rfl, rfl, _⟩ := h
          exact key rfl

end Sdc.Mdib
