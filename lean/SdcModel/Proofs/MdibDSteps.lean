import SdcModel.Proofs.MdibDUpd
/-!
# the three kinds of descriptor items (create / delete / update) keep the commit invariant; `commitDItems` cannot fail
-/
set_option linter.unusedSimpArgs false
namespace Sdc.Mdib

variable {t₀ : Tables} {tx₀ : DTx} {del : List Handle} {pend : List (Handle × DItem)} {st : Handle → Prop}

/-- `_increment_parent_descriptor_version` for a descriptor that survives the transaction -/
theorem CInv.incPar {c : DCommit} (h : CInv t₀ tx₀ del pend st c.t c.tx) {q : Handle} (hq : q ∉ del)
    (hfr : ∀ p ∈ c.tx.cItems, p.2.old = none → ∀ n ∈ p.2.new, n.dh ≠ q) :
    CInv t₀ tx₀ del pend st (Sdc.Mdib.incParent c q).t (Sdc.Mdib.incParent c q).tx ∧ (Sdc.Mdib.incParent c q).tx.descr = c.tx.descr := by
  unfold Sdc.Mdib.incParent
  split
  · exact ⟨h, rfl⟩
  · rename_i p hp
    obtain ⟨hph, hpm⟩ := findD_some hp
    split
    · exact ⟨h, rfl⟩
    · have h1 := h.replace (d := p) (d' := { p with ver := p.ver + 1 }) hpm rfl rfl rfl rfl
        (by
          intro d0 hd0 e
          rcases h.seen.dChg p hpm d0 hd0 e with rfl | hlt
          · simp
          · simp; omega)
        (by intro _; simp)
      have hmem : ({ p with ver := p.ver + 1 } : Descr) ∈ (replaceDescr c.t { p with ver := p.ver + 1 }).descrs :=
        mem_replaceDescr.2 (.inl ⟨rfl, List.mem_map_of_mem (f := (·.handle)) hpm⟩)
      have := CInv.updCorr (st := st)
        (c := { c with t := replaceDescr c.t { p with ver := p.ver + 1 },
                       res := { c.res with descrUpdated := c.res.descrUpdated ++ [{ p with ver := p.ver + 1 }] } })
        (d := { p with ver := p.ver + 1 }) h1 hmem (by simpa [hph] using hq)
        (by intro p' hp' ho n hn e; exact absurd (e.trans hph) (hfr p' hp' ho n hn))
      exact ⟨this.1, this.2.1⟩

/-- `add_object_no_lock` of a created descriptor: its (future) states are stale until `_update_corresponding_state` -/
theorem CSeen.add {T : Tables} {hh : Handle} {n : Descr} (h : CSeen t₀ ((hh, ⟨none, some n⟩) :: pend) T)
    (hnh : n.handle = hh) (hfresh : hh ∉ T.descrs.map (·.handle)) (hnot₀ : hh ∉ t₀.descrs.map (·.handle))
    (hver : savedGet t₀.dSaved hh ≤ some n.ver) (hkeys : hh ∉ pend.map (·.1)) :
    CSeen t₀ pend { T with descrs := T.descrs ++ [n] } := by
  have hfn : findD T hh = none := (find_none_iff (fun d : Descr => d.handle)).2 hfresh
  have hs : ∀ k, k ≠ hh → seenD { T with descrs := T.descrs ++ [n] } k = seenD T k := by
    intro k hk
    unfold seenD
    rw [findD_append]
    have : ¬ n.handle = k := fun e => hk (e.symm.trans hnh)
    simp [this]
  have hs' : seenD { T with descrs := T.descrs ++ [n] } hh = some n.ver := by
    unfold seenD
    rw [findD_append, hfn]; simp [hnh]
  refine ⟨?_, ?_, h.seenSeq, h.seenCeq, ?_, h.sSame, h.cSame⟩
  · intro k
    by_cases e : k = hh
    · subst e; rw [hs']
      have : findD t₀ k = none := (find_none_iff (fun d : Descr => d.handle)).2 hnot₀
      simp only [seenD, this]; exact hver
    · rw [hs k e]; exact h.monoD k
  · intro p hp ho
    have hne : p.1 ≠ hh := fun e => hkeys (e ▸ List.mem_map_of_mem hp)
    rw [hs _ hne]; exact h.pendSeen p (by simp [hp]) ho
  · intro d hd d0 hd0 e
    simp only [List.mem_append, List.mem_singleton] at hd
    rcases hd with hd | rfl
    · exact h.dChg d hd d0 hd0 e
    · exact absurd (by rw [← hnh, ← e]; exact List.mem_map_of_mem hd0) hnot₀

theorem CInv.add {T : Tables} {X : DTx} {hh : Handle} {n : Descr}
    (h : CInv t₀ tx₀ del ((hh, ⟨none, some n⟩) :: pend) st T X) (hi : DTxOK t₀ tx₀) (hs : DStatic t₀ tx₀ del)
    (hmem : (hh, (⟨none, some n⟩ : DItem)) ∈ tx₀.descr) (hkeys : (((hh, (⟨none, some n⟩ : DItem)) :: pend).map (·.1)).Nodup) :
    addDescr T n = .ok { T with descrs := T.descrs ++ [n] } ∧
      CInv t₀ tx₀ del pend (fun x => st x ∨ x = hh) { T with descrs := T.descrs ++ [n] } X := by
  have hnh : n.handle = hh := hi.dNew _ hmem n rfl
  have hfresh : hh ∉ T.descrs.map (·.handle) := h.pendFresh (hh, ⟨none, some n⟩) (by simp) rfl
  have hnot₀ : hh ∉ t₀.descrs.map (·.handle) := by
    have := hi.dOld _ hmem
    exact (find_none_iff (fun d : Descr => d.handle)).1 this.symm
  have hnd : hh ∉ del := fun hd => by
    obtain ⟨d, hd', e⟩ := hs.delSub _ hd
    exact hnot₀ (e ▸ List.mem_map_of_mem hd')
  simp only [List.map_cons, List.nodup_cons] at hkeys
  have hmemL : ∀ x, x ∈ T.descrs ++ [n] ↔ x ∈ T.descrs ∨ x = n := by intro x; simp
  have hhL : ∀ a, a ∈ (T.descrs ++ [n]).map (·.handle) ↔ a ∈ T.descrs.map (·.handle) ∨ a = hh := by
    intro a; simp [hnh, eq_comm]
  constructor
  · rw [addDescr_ok_iff]
    exact ⟨(find_none_iff (fun d : Descr => d.handle)).2 (by rw [hnh]; exact hfresh), rfl⟩
  refine ⟨?_, h.sKeys, h.cKeys, ?_, ?_, ?_, ?_, ?_, ?_, ?_, ?_, h.siKeys, ?_, h.ciKeys, ?_,
    h.seen.add hnh hfresh hnot₀ (by
      have := hi.dCre _ hmem rfl n rfl
      exact this) hkeys.1, h.siOld0, h.ciOld0, h.ciNoDel⟩
  · exact nodup_append_single (fun d : Descr => d.handle) h.dKeys (by rw [hnh]; exact hfresh)
  · intro d hd d0 hd0 e
    rcases (hmemL d).1 hd with hd | rfl
    · exact h.dOld d hd d0 hd0 e
    · exact absurd (by rw [← hnh, ← e]; exact List.mem_map_of_mem hd0) hnot₀
  · intro d0 hd0 hnd0; exact (hhL _).2 (.inl (h.dSurv d0 hd0 hnd0))
  · intro d hd hdd p hp
    rcases (hmemL d).1 hd with hd | rfl
    · exact h.dUp d hd hdd p hp
    · rcases hs.crePar _ hmem d rfl p hp with ⟨m, hm⟩ | ⟨hpd, _⟩
      · intro hpd
        obtain ⟨d', hd', e⟩ := hs.delSub _ hpd
        have := hi.dOld _ hm
        exact (find_none_iff (fun d : Descr => d.handle)).1 this.symm (e ▸ List.mem_map_of_mem hd')
      · exact hpd
  · intro d hd p hp
    have key : ∀ m, (p, (⟨none, some m⟩ : DItem)) ∈ (hh, (⟨none, some n⟩ : DItem)) :: pend →
        p ∈ (T.descrs ++ [n]).map (·.handle) ∨ ∃ m, (p, (⟨none, some m⟩ : DItem)) ∈ pend := by
      intro m hm
      rcases List.mem_cons.1 hm with e | hm
      · left; rw [hhL]; right; exact (Prod.mk.inj e).1
      · exact .inr ⟨m, hm⟩
    rcases (hmemL d).1 hd with hd | rfl
    · rcases h.dPar d hd p hp with a | ⟨m, hm⟩
      · exact .inl ((hhL _).2 (.inl a))
      · exact key m hm
    · rcases hs.crePar _ hmem d rfl p hp with ⟨m, hm⟩ | ⟨hpd, d0, hd0, e⟩
      · rcases h.creDone _ hm rfl with a | a
        · exact key m a
        · exact .inl ((hhL _).2 (.inl a))
      · exact .inl ((hhL _).2 (.inl (e ▸ h.dSurv d0 hd0 (e ▸ hpd))))
  · intro p hp ho hx
    rcases (hhL _).1 hx with a | a
    · exact h.pendFresh p (by simp [hp]) ho a
    · exact hkeys.1 (a ▸ List.mem_map_of_mem hp)
  · intro p hp ho
    rcases h.creDone p hp ho with a | a
    · rcases List.mem_cons.1 a with e | a
      · right; rw [hhL]; right; rw [e]
      · exact .inl a
    · exact .inr ((hhL _).2 (.inl a))
  · intro s hs'
    obtain ⟨k, d, hd, e1, e2, e3⟩ := h.sRef s hs'
    exact ⟨k, d, (hmemL d).2 (.inl hd), e1, e2, fun a b => e3 a (fun hx => b (.inl hx))⟩
  · intro x hx
    obtain ⟨d, hd, e1, e2, e3⟩ := h.cRef x hx
    exact ⟨d, (hmemL d).2 (.inl hd), e1, e2, fun a b => e3 a (fun hx => b (.inl hx))⟩
  · intro p hp
    have := h.si p hp
    refine ⟨this.dh, this.old, this.kind, this.nd, this.bump, ?_⟩
    rcases this.ref with ⟨d, hd, e1, e2, e3⟩ | ⟨m, hm, km⟩
    · exact .inl ⟨d, (hmemL d).2 (.inl hd), e1, e2, fun b => e3 (fun hx => b (.inl hx))⟩
    · rcases List.mem_cons.1 hm with e | hm
      · obtain ⟨e1, e2⟩ := Prod.mk.inj e
        have : m = n := by simpa using e2
        subst this
        exact .inl ⟨m, (hmemL m).2 (.inr rfl), hnh.trans e1.symm, km, fun b => absurd (.inr e1) b⟩
      · exact .inr ⟨m, hm, km⟩
  · intro p hp
    have := h.ci p hp
    refine ⟨this.old, this.odh, ?_, this.fresh⟩
    intro n' hn'
    obtain ⟨a, b, c, e, f⟩ := this.new n' hn'
    refine ⟨a, b, c, e, ?_⟩
    rcases f with ⟨d, hd, e1, e2, e3⟩ | ⟨m, hm, km⟩
    · exact .inl ⟨d, (hmemL d).2 (.inl hd), e1, e2, fun b => e3 (fun hx => b (.inl hx))⟩
    · rcases List.mem_cons.1 hm with e' | hm
      · obtain ⟨e1, e2⟩ := Prod.mk.inj e'
        have : m = n := by simpa using e2
        subst this
        exact .inl ⟨m, (hmemL m).2 (.inr rfl), hnh.trans e1.symm, km, fun b => absurd (.inr e1) b⟩
      · exact .inr ⟨m, hm, km⟩


/-- everything below a descriptor that is going to disappear is going to disappear -/
theorem CInv.sub_del {T : Tables} {X : DTx} (h : CInv t₀ tx₀ del pend st T X) :
    ∀ (k : Nat) (q : Handle), q ∈ del → ∀ x ∈ subtreeBelow T k q, x.handle ∈ del := by
  intro k
  induction k with
  | zero => intro q _ x hx; simp [subtreeBelow] at hx
  | succ k ih =>
    intro q hq x hx
    have hchild : ∀ y ∈ childrenOf T q, y.handle ∈ del := by
      intro y hy
      obtain ⟨hy1, hy2⟩ := mem_childrenOf.1 hy
      exact Decidable.byContradiction (fun hn => h.dUp y hy1 hn q hy2 hq)
    rcases mem_subtreeBelow_succ.1 hx with hx | ⟨c, hc, hx⟩
    · exact hchild x hx
    · exact ih c.handle (hchild c hc) x hx

/-- `rm_descriptors_and_states` of the subtree of a deleted descriptor -/
theorem CInv.delete {T : Tables} {X : DTx} (h : CInv t₀ tx₀ del pend st T X) (hi : DTxOK t₀ tx₀) (hs : DStatic t₀ tx₀ del)
    {o : Descr} (hod : o.handle ∈ del) :
    CInv t₀ tx₀ del pend st ((subtreeBelow T (T.descrs.length + 1) o.handle ++ [o]).foldl rmDescrAndStates T) X := by
  have R := removed_foldl (subtreeBelow T (T.descrs.length + 1) o.handle ++ [o]) h.cKeys
  have hD : ∀ a, a ∈ (subtreeBelow T (T.descrs.length + 1) o.handle ++ [o]).map (·.handle) → a ∈ del := by
    intro a ha
    simp only [List.map_append, List.mem_append, List.mem_map, List.map_cons, List.map_nil, List.mem_singleton] at ha
    rcases ha with ⟨x, hx, rfl⟩ | rfl
    · exact h.sub_del _ _ hod x hx
    · exact hod
  have hclosed : ∀ x ∈ T.descrs, ∀ q, x.parent = some q →
      q ∈ (subtreeBelow T (T.descrs.length + 1) o.handle ++ [o]).map (·.handle) →
      x.handle ∈ (subtreeBelow T (T.descrs.length + 1) o.handle ++ [o]).map (·.handle) := by
    intro x hx q hq hqD
    simp only [List.map_append, List.mem_append, List.mem_map, List.map_cons, List.map_nil, List.mem_singleton] at hqD ⊢
    left
    rcases hqD with ⟨q', hq', rfl⟩ | rfl
    · exact ⟨x, subtree_closed h.dKeys o.handle (q := q') (.inr hq') (mem_childrenOf.2 ⟨hx, hq⟩), rfl⟩
    · exact ⟨x, subtree_closed h.dKeys o.handle (q := o) (.inl rfl) (mem_childrenOf.2 ⟨hx, hq⟩), rfl⟩
  have hseen : CSeen t₀ pend ((subtreeBelow T (T.descrs.length + 1) o.handle ++ [o]).foldl rmDescrAndStates T) := by
    have hinv := seen_foldl_rmDescrAndStates (subtreeBelow T (T.descrs.length + 1) o.handle ++ [o]) T
    refine ⟨fun k => by rw [(hinv k).1]; exact h.seen.monoD k, fun p hp ho => by rw [(hinv _).1]; exact h.seen.pendSeen p hp ho,
      fun k => by rw [(hinv k).2.1]; exact h.seen.seenSeq k, fun k => by rw [(hinv k).2.2]; exact h.seen.seenCeq k, ?_, ?_, ?_⟩
    · intro d hd; exact h.seen.dChg d ((R.descrs d).1 hd).1
    · intro k s hs'
      obtain ⟨e, hm⟩ := findS_some hs'
      have := find_of_mem_nodup (fun s : SState => s.dh) h.sKeys ((R.states s).1 hm).1
      simp only [e] at this
      exact h.seen.sSame k s this
    · intro k x hx
      obtain ⟨e, hm⟩ := findC_some hx
      have := find_of_mem_nodup (fun c : CState => c.h) h.cKeys ((R.ctx x).1 hm).1
      simp only [e] at this
      exact h.seen.cSame k x this
  generalize (subtreeBelow T (T.descrs.length + 1) o.handle ++ [o]).foldl rmDescrAndStates T = T1 at R hseen ⊢
  generalize (subtreeBelow T (T.descrs.length + 1) o.handle ++ [o]).map (·.handle) = D at R hD hclosed
  have hpres : ∀ a, a ∈ T.descrs.map (·.handle) → a ∉ D → a ∈ T1.descrs.map (·.handle) := by
    intro a ha hna
    obtain ⟨x, hx, rfl⟩ := List.mem_map.1 ha
    exact List.mem_map_of_mem ((R.descrs x).2 ⟨hx, hna⟩)
  have hsubH : ∀ a, a ∈ T1.descrs.map (·.handle) → a ∈ T.descrs.map (·.handle) := by
    intro a ha
    obtain ⟨x, hx, rfl⟩ := List.mem_map.1 ha
    exact List.mem_map_of_mem ((R.descrs x).1 hx).1
  have hkeep : ∀ d ∈ T.descrs, d.handle ∉ del → d ∈ T1.descrs := fun d hd hnd => (R.descrs d).2 ⟨hd, fun hx => hnd (hD _ hx)⟩
  refine ⟨(R.dSub.map _).nodup h.dKeys, (R.sSub.map _).nodup h.sKeys, (R.cSub.map _).nodup h.cKeys, ?_, ?_, ?_, ?_, ?_, ?_, ?_, ?_,
    h.siKeys, ?_, h.ciKeys, ?_, hseen, h.siOld0, h.ciOld0, h.ciNoDel⟩
  · intro d hd; exact h.dOld d ((R.descrs d).1 hd).1
  · intro d0 hd0 hnd; exact hpres _ (h.dSurv d0 hd0 hnd) (fun hx => hnd (hD _ hx))
  · intro d hd; exact h.dUp d ((R.descrs d).1 hd).1
  · intro d hd p hp
    obtain ⟨hdT, hdD⟩ := (R.descrs d).1 hd
    rcases h.dPar d hdT p hp with a | a
    · exact .inl (hpres p a (fun hpD => hdD (hclosed d hdT p hp hpD)))
    · exact .inr a
  · intro p hp ho hx; exact h.pendFresh p hp ho (hsubH _ hx)
  · intro p hp ho
    rcases h.creDone p hp ho with a | a
    · exact .inl a
    · refine .inr (hpres _ a (fun hx => ?_))
      obtain ⟨d, hd, e⟩ := hs.delSub _ (hD _ hx)
      have := hi.dOld p hp
      rw [ho] at this
      exact (find_none_iff (fun d : Descr => d.handle)).1 this.symm (e ▸ List.mem_map_of_mem hd)
  · intro s hs'
    obtain ⟨hsT, hsD⟩ := (R.states s).1 hs'
    obtain ⟨k, d, hd, e1, e2, e3⟩ := h.sRef s hsT
    exact ⟨k, d, (R.descrs d).2 ⟨hd, by rw [e1]; exact hsD⟩, e1, e2, e3⟩
  · intro x hx
    obtain ⟨hxT, hxD⟩ := (R.ctx x).1 hx
    obtain ⟨d, hd, e1, e2, e3⟩ := h.cRef x hxT
    exact ⟨d, (R.descrs d).2 ⟨hd, by rw [e1]; exact hxD⟩, e1, e2, e3⟩
  · intro p hp
    have := h.si p hp
    have hnD : p.1 ∉ D := fun hx => this.nd (hD _ hx)
    refine ⟨this.dh, by rw [R.findS _ hnD]; exact this.old, this.kind, this.nd, by rw [R.findS _ hnD, R.sSaved _ hnD]; exact this.bump, ?_⟩
    rcases this.ref with ⟨d, hd, e1, e2, e3⟩ | r
    · exact .inl ⟨d, hkeep d hd (by rw [e1]; exact this.nd), e1, e2, e3⟩
    · exact .inr r
  · intro p hp
    have := h.ci p hp
    have hfc : findC T1 p.1 = findC T p.1 ∧ (findC T p.1 = none → savedGet T1.cSaved p.1 = savedGet T.cSaved p.1) := by
      cases hf : findC T p.1 with
      | none => exact ⟨(R.findCn _ hf).1, fun _ => (R.findCn _ hf).2⟩
      | some o' =>
        refine ⟨R.findC _ o' hf (fun hx => ?_), fun h => by cases h⟩
        exact this.odh o' (by rw [this.old, hf]; rfl) (hD _ hx)
    refine ⟨by rw [hfc.1]; exact this.old, this.odh, ?_, this.fresh⟩
    intro n hn
    obtain ⟨a, b, c, e, f⟩ := this.new n hn
    refine ⟨a, b, c, ?_, ?_⟩
    · rw [hfc.1]
      exact ⟨e.1, fun hnone => by rw [hfc.2 hnone]; exact e.2 hnone⟩
    · rcases f with ⟨d, hd, e1, e2, e3⟩ | r
      · exact .inl ⟨d, hkeep d hd (by rw [e1]; exact b), e1, e2, e3⟩
      · exact .inr r

/-- an item that is not a create can be dropped from the pending list -/
theorem CInv.drop {T : Tables} {X : DTx} {k : Handle} {it : DItem} (h : CInv t₀ tx₀ del ((k, it) :: pend) st T X)
    (hne : it.old ≠ none ∨ it.new = none) (hi : DTxOK t₀ tx₀) (hmem : (k, it) ∈ tx₀.descr) :
    CInv t₀ tx₀ del pend st T X := by
  have hnc : ∀ q m, (q, (⟨none, some m⟩ : DItem)) ∈ (k, it) :: pend → (q, (⟨none, some m⟩ : DItem)) ∈ pend := by
    intro q m hm
    rcases List.mem_cons.1 hm with e | hm
    · obtain ⟨_, e2⟩ := Prod.mk.inj e
      subst e2
      rcases hne with hne | hne
      · exact absurd rfl hne
      · cases hne
    · exact hm
  refine { h with dPar := ?_, pendFresh := ?_, creDone := ?_, si := ?_, ci := ?_, seen := ?_ }
  rotate_right
  · exact { h.seen with pendSeen := fun p hp => h.seen.pendSeen p (by simp [hp]) }
  · intro d hd p hp
    rcases h.dPar d hd p hp with a | ⟨m, hm⟩
    · exact .inl a
    · exact .inr ⟨m, hnc _ _ hm⟩
  · intro p hp; exact h.pendFresh p (by simp [hp])
  · intro p hp ho
    rcases h.creDone p hp ho with a | a
    · rcases List.mem_cons.1 a with e | a
      · subst e
        rcases hne with hne | hne
        · exact absurd ho hne
        · exact absurd hne (hi.dSome _ hmem ho)
      · exact .inl a
    · exact .inr a
  · intro p hp
    have := h.si p hp
    refine { this with ref := ?_ }
    rcases this.ref with a | ⟨m, hm, km⟩
    · exact .inl a
    · exact .inr ⟨m, hnc _ _ hm, km⟩
  · intro p hp
    have := h.ci p hp
    refine { this with new := ?_ }
    intro n hn
    obtain ⟨a, b, c, e, f⟩ := this.new n hn
    refine ⟨a, b, c, e, ?_⟩
    rcases f with a | ⟨m, hm, km⟩
    · exact .inl a
    · exact .inr ⟨m, hnc _ _ hm, km⟩

end Sdc.Mdib
