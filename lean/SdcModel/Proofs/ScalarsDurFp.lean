import SdcModel.Scalars
import SdcModel.Proofs.Fp64
import SdcModel.Proofs.ScalarsDur
/-! the float steps of `parse_duration` are exact for seconds below 60 with at most six fraction digits:
    `float('s.f')` (correctly rounded), `modf`, `frac * 1e6` (correctly rounded), round-half-even of the leftover -/
namespace Sdc.Scalars
open Sdc.Fp64

/-- core: a float within `60 u` of `s + f / 10^6` whose integral part is `s` converts to exactly `s·10^6 + f` µs -/
theorem timedeltaUs_exact (h m s f : Nat) (x : Fp) (hf : f < 1000000)
    (hx : |x.abs - ((s : ℚ) + (f : ℚ) / 1000000)| ≤ 60 * u) (hfl1 : (s : ℚ) ≤ x.abs) (hfl2 : x.abs < s + 1) :
    timedeltaUs h m x =
      if (h * 3600 * usPerSec + m * 60 * usPerSec + (s * usPerSec + f)) / usPerDay ≤ maxDays
      then .ok (h * 3600 * usPerSec + m * 60 * usPerSec + (s * usPerSec + f)) else .error .overflow := by
  have hfloor := floorNat_eq x s hfl1 hfl2
  have hfrac := frac_ratio x
  rw [hfloor] at hfrac
  set y := fracMul x usPerSec with hy
  have hD : (0:ℚ) < valD x := by exact_mod_cast valD_pos x
  have hyerr : |y.abs - (x.abs - s) * 1000000| ≤ (x.abs - s) * 1000000 * u := by
    have := rnRat_err false ((valN x % valD x) * usPerSec) (valD x) (valD_pos x)
    have e : (((valN x % valD x) * usPerSec : ℕ) : ℚ) / (valD x : ℚ) = (x.abs - s) * 1000000 := by
      rw [← hfrac]; unfold usPerSec; push_cast; ring
    rw [e] at this
    exact this
  have hfq : (f : ℚ) < 1000000 := by exact_mod_cast hf
  have hf0 : (0:ℚ) ≤ f := by positivity
  have hnear : |y.abs - f| < 1 / 2 := by
    unfold u at hx hyerr
    obtain ⟨a1, a2⟩ := abs_le.mp hx
    obtain ⟨b1, b2⟩ := abs_le.mp hyerr
    have hphi : (x.abs - s) * 1000000 ≤ f + 60000000 * (1 / 2 ^ 53) := by linarith
    have hphi0 : 0 ≤ (x.abs - s) * 1000000 := by nlinarith
    have hb : (x.abs - s) * 1000000 * (1 / 2 ^ 53) ≤ (1000000 + 60000000 * (1 / 2 ^ 53)) * (1 / 2 ^ 53) := by
      apply mul_le_mul_of_nonneg_right _ (by positivity); linarith
    have hnum : ((1000000:ℚ) + 60000000 * (1 / 2 ^ 53)) * (1 / 2 ^ 53) + 60000000 * (1 / 2 ^ 53) < 1 / 2 := by norm_num
    rw [abs_lt]; constructor <;> linarith
  have hcases := near_cases_fp y f hnear
  unfold timedeltaUs floatUsParts
  simp only [← hy, hfloor]
  unfold floorNat
  rcases hcases with ⟨c1, c2⟩ | ⟨c1, c2⟩
  · have e : h * 3600 * usPerSec + m * 60 * usPerSec + (s * usPerSec + valN y / valD y)
        = h * 3600 * usPerSec + m * 60 * usPerSec + (s * usPerSec + f) := by rw [c1]
    simp only [c2, if_true, e]
  · have n1 : ¬ (2 * (valN y % valD y) < valD y) := by omega
    have e : h * 3600 * usPerSec + m * 60 * usPerSec + (s * usPerSec + valN y / valD y) + 1
        = h * 3600 * usPerSec + m * 60 * usPerSec + (s * usPerSec + f) := by omega
    simp only [n1, if_false, c2, if_true, e]

/-- digits of a fraction: `f / 10^6 = digitsVal (fracDigits f) / 10^(length)` -/
theorem fracDigits_val (f : Nat) (hf : f < 1000000) :
    ∃ j, (fracDigits f).length + j = 6 ∧ digitsVal (fracDigits f) * 10 ^ j = f := by
  obtain ⟨j, hj⟩ := rstrip0_spec (zfill6 (natStr f))
  refine ⟨j, ?_, ?_⟩
  · have := zfill6_length f hf
    rw [hj] at this
    unfold fracDigits
    simpa using this
  · have := digitsVal_zfill6 f
    rw [hj, digitsVal_append_zeros] at this
    exact this

theorem floatStepExact : FloatStepExact := by
  intro h m s f hs hf
  have hsd := digitsVal_natStr s
  by_cases hf0 : f = 0
  · subst hf0
    simp only [if_true]
    have hx : (floatOfDecimal (natStr s) [48]).abs = s := by
      unfold floatOfDecimal
      apply rnRat_exact false _ _ s (by norm_num)
      · rw [digitsVal_append, hsd]; simp [digitsVal, digitVal]
      · have : (60:ℕ) < 2 ^ 53 := by norm_num
        omega
    refine timedeltaUs_exact h m s 0 _ (by omega) ?_ ?_ ?_
    · rw [hx]; simp [u]
    · rw [hx]
    · rw [hx]; linarith
  · simp only [hf0, if_false]
    obtain ⟨j, hlen, hval⟩ := fracDigits_val f hf
    have hb : 0 < 10 ^ (fracDigits f).length := Nat.pow_pos (by norm_num)
    have herr := rnRat_err false (digitsVal (natStr s ++ fracDigits f)) (10 ^ (fracDigits f).length) hb
    have hq : ((digitsVal (natStr s ++ fracDigits f) : ℕ) : ℚ) / ((10 ^ (fracDigits f).length : ℕ) : ℚ)
        = (s : ℚ) + (f : ℚ) / 1000000 := by
      rw [digitsVal_append, hsd]
      have h6 : (1000000 : ℚ) = 10 ^ (fracDigits f).length * 10 ^ j := by
        rw [← pow_add, hlen]; norm_num
      have hfv : (f : ℚ) = (digitsVal (fracDigits f) : ℚ) * 10 ^ j := by exact_mod_cast hval.symm
      rw [h6, hfv]
      push_cast
      field_simp
    rw [hq] at herr
    have hfpos : (1:ℚ) ≤ f := by
      have : 1 ≤ f := by omega
      exact_mod_cast this
    have hfq : (f:ℚ) ≤ 999999 := by
      have : f ≤ 999999 := by omega
      exact_mod_cast this
    have hsq : (s:ℚ) ≤ 59 := by
      have : s ≤ 59 := by omega
      exact_mod_cast this
    have hs0 : (0:ℚ) ≤ s := by positivity
    have hbound : ((s : ℚ) + (f : ℚ) / 1000000) * u ≤ 60 * u := by
      apply mul_le_mul_of_nonneg_right _ (by unfold u; positivity)
      linarith
    have herr' : |(floatOfDecimal (natStr s) (fracDigits f)).abs - ((s : ℚ) + (f : ℚ) / 1000000)| ≤ 60 * u :=
      le_trans herr hbound
    obtain ⟨a1, a2⟩ := abs_le.mp herr'
    have hu : (60:ℚ) * u < 1 / 1000000 / 2 := by unfold u; norm_num
    apply timedeltaUs_exact h m s f _ hf herr'
    · linarith
    · linarith

end Sdc.Scalars
