import SdcModel.Proofs.MdibDStatic
/-!
# the descriptor part of a descriptor commit (`commitDItems`) keeps the commit invariant `CInv`
-/
set_option linter.unusedSimpArgs false
namespace Sdc.Mdib

/-! ## table surgery: replace / re-index / remove -/

theorem replaceDescr_handles (t : Tables) (d : Descr) :
    (replaceDescr t d).descrs.map (·.handle) = t.descrs.map (·.handle) := by
  simp only [replaceDescr, List.map_map]
  apply List.map_congr_left
  intro x _
  by_cases e : x.handle = d.handle <;> simp [e]

theorem mem_replaceDescr {t : Tables} {d x : Descr} :
    x ∈ (replaceDescr t d).descrs ↔ (x = d ∧ d.handle ∈ t.descrs.map (·.handle)) ∨ (x ∈ t.descrs ∧ x.handle ≠ d.handle) := by
  simp only [replaceDescr, List.mem_map]
  constructor
  · rintro ⟨y, hy, e⟩
    by_cases e' : y.handle = d.handle
    · simp [e'] at e; exact .inl ⟨e.symm, y, hy, e'⟩
    · simp [e'] at e; subst e; exact .inr ⟨hy, e'⟩
  · rintro (⟨rfl, y, hy, e⟩ | ⟨hx, e⟩)
    · exact ⟨y, hy, by simp [e]⟩
    · exact ⟨x, hx, by simp [e]⟩

theorem mem_reindexDescr {t : Tables} (hn : (t.descrs.map (·.handle)).Nodup) {d : Descr} (hd : d ∈ t.descrs) {x : Descr} :
    x ∈ (reindexDescr t d).descrs ↔ x ∈ t.descrs := by
  simp only [reindexDescr, List.mem_append, List.mem_filter, bne_iff_ne, ne_eq, List.mem_singleton]
  constructor
  · rintro (⟨hx, _⟩ | rfl)
    · exact hx
    · exact hd
  · intro hx
    by_cases e : x.handle = d.handle
    · exact .inr (mem_unique hn hx hd e)
    · exact .inl ⟨hx, e⟩

theorem reindexDescr_nodup {t : Tables} (hn : (t.descrs.map (·.handle)).Nodup) (d : Descr) :
    ((reindexDescr t d).descrs.map (·.handle)).Nodup := by
  simp only [reindexDescr]
  apply nodup_append_single (fun x : Descr => x.handle) (nodup_filter_key _ hn _)
  simp [List.mem_map, List.mem_filter]

/-- removal of the descriptors with a handle in `D` together with their states: what is left -/
structure Removed (D : Handle → Prop) (t t1 : Tables) : Prop where
  descrs : ∀ x, x ∈ t1.descrs ↔ x ∈ t.descrs ∧ ¬ D x.handle
  states : ∀ s, s ∈ t1.states ↔ s ∈ t.states ∧ ¬ D s.dh
  ctx : ∀ x, x ∈ t1.ctx ↔ x ∈ t.ctx ∧ ¬ D x.dh
  dSub : t1.descrs.Sublist t.descrs
  sSub : t1.states.Sublist t.states
  cSub : t1.ctx.Sublist t.ctx
  findS : ∀ h, ¬ D h → findS t1 h = findS t h
  sSaved : ∀ h, ¬ D h → savedGet t1.sSaved h = savedGet t.sSaved h
  findC : ∀ k o, Sdc.Mdib.findC t k = some o → ¬ D o.dh → Sdc.Mdib.findC t1 k = some o
  findCn : ∀ k, Sdc.Mdib.findC t k = none → Sdc.Mdib.findC t1 k = none ∧ savedGet t1.cSaved k = savedGet t.cSaved k

theorem Removed.refl (t : Tables) : Removed (fun _ => False) t t :=
  ⟨by simp, by simp, by simp, List.Sublist.refl _, List.Sublist.refl _, List.Sublist.refl _, fun _ _ => rfl, fun _ _ => rfl,
   fun _ _ h _ => h, fun _ h => ⟨h, rfl⟩⟩

theorem Removed.trans {D1 D2 : Handle → Prop} {a b c : Tables} (h1 : Removed D1 a b) (h2 : Removed D2 b c) :
    Removed (fun x => D1 x ∨ D2 x) a c := by
  refine ⟨?_, ?_, ?_, h2.dSub.trans h1.dSub, h2.sSub.trans h1.sSub, h2.cSub.trans h1.cSub, ?_, ?_, ?_, ?_⟩
  · intro x; rw [h2.descrs, h1.descrs]; simp only [not_or]; exact ⟨fun ⟨⟨a, b⟩, c⟩ => ⟨a, b, c⟩, fun ⟨a, b, c⟩ => ⟨⟨a, b⟩, c⟩⟩
  · intro x; rw [h2.states, h1.states]; simp only [not_or]; exact ⟨fun ⟨⟨a, b⟩, c⟩ => ⟨a, b, c⟩, fun ⟨a, b, c⟩ => ⟨⟨a, b⟩, c⟩⟩
  · intro x; rw [h2.ctx, h1.ctx]; simp only [not_or]; exact ⟨fun ⟨⟨a, b⟩, c⟩ => ⟨a, b, c⟩, fun ⟨a, b, c⟩ => ⟨⟨a, b⟩, c⟩⟩
  · intro h hd; simp only [not_or] at hd; rw [h2.findS h hd.2, h1.findS h hd.1]
  · intro h hd; simp only [not_or] at hd; rw [h2.sSaved h hd.2, h1.sSaved h hd.1]
  · intro k o ho hd; simp only [not_or] at hd; exact h2.findC k o (h1.findC k o ho hd.1) hd.2
  · intro k hk
    obtain ⟨a, b⟩ := h1.findCn k hk
    obtain ⟨a', b'⟩ := h2.findCn k a
    exact ⟨a', b'.trans b⟩

theorem foldl_rmCtx_cSaved (l : List CState) (t : Tables) (k : Handle) (hk : k ∉ l.map (·.h)) :
    savedGet (l.foldl (fun t c => rmCtx t c.h) t).cSaved k = savedGet t.cSaved k := by
  induction l generalizing t with
  | nil => rfl
  | cons c cs ih =>
    simp only [List.map_cons, List.mem_cons, not_or] at hk
    simp only [List.foldl_cons]
    rw [ih _ hk.2, cSaved_rmCtx_ne t hk.1]

theorem foldl_rmCtx_spec (l : List CState) (t : Tables) :
    (l.foldl (fun t c => rmCtx t c.h) t).descrs = t.descrs ∧ (l.foldl (fun t c => rmCtx t c.h) t).states = t.states ∧
    (l.foldl (fun t c => rmCtx t c.h) t).sSaved = t.sSaved ∧ (l.foldl (fun t c => rmCtx t c.h) t).dSaved = t.dSaved ∧
    (l.foldl (fun t c => rmCtx t c.h) t).ctx = t.ctx.filter (fun x => !(l.map (·.h)).contains x.h) := by
  induction l generalizing t with
  | nil => simp only [List.foldl_nil, List.map_nil, List.contains_nil, Bool.not_false, true_and]; exact (List.filter_eq_self.2 (fun _ _ => rfl)).symm
  | cons c cs ih =>
    simp only [List.foldl_cons]
    obtain ⟨a, b, c', d, e⟩ := ih (rmCtx t c.h)
    refine ⟨by simpa using a, by simpa using b, by simpa using c', by simpa using d, ?_⟩
    rw [e, rmCtx_ctx, List.filter_filter]
    apply List.filter_congr
    intro x _
    simp only [List.map_cons, List.contains_cons, Bool.not_or, bne, Bool.and_comm]

theorem removed_one {t : Tables} (hc : (t.ctx.map (·.h)).Nodup) (d : Descr) :
    Removed (fun x => x = d.handle) t (rmDescrAndStates t d) := by
  unfold rmDescrAndStates
  simp only
  obtain ⟨e1, e2, e3, _, e5⟩ := foldl_rmCtx_spec (ctxOf (rmState (rmDescr t d.handle) d.handle) d.handle)
    (rmState (rmDescr t d.handle) d.handle)
  have hctx : ∀ x, x ∈ ((ctxOf (rmState (rmDescr t d.handle) d.handle) d.handle).foldl (fun t c => rmCtx t c.h)
      (rmState (rmDescr t d.handle) d.handle)).ctx ↔ x ∈ t.ctx ∧ ¬ x.dh = d.handle := by
    intro x
    rw [e5]
    simp only [rmState_ctx, rmDescr_ctx, ctxOf, List.mem_filter, Bool.not_eq_true', List.contains_eq_mem, List.mem_map,
      decide_eq_false_iff_not, not_exists, not_and, beq_iff_eq]
    constructor
    · rintro ⟨hx, hne⟩
      exact ⟨hx, fun e => hne x ⟨hx, e⟩ rfl⟩
    · rintro ⟨hx, hne⟩
      refine ⟨hx, ?_⟩
      intro y ⟨hy, hyd⟩ e
      have : y = x := by
        have a := find_of_mem_nodup (fun c : CState => c.h) hc hy
        have b := find_of_mem_nodup (fun c : CState => c.h) hc hx
        rw [e, b] at a; exact (Option.some.inj a).symm
      exact hne (this ▸ hyd)
  refine ⟨?_, ?_, hctx, ?_, ?_, ?_, ?_, ?_, ?_, ?_⟩
  · intro x; rw [e1]; simp [rmDescr_descrs, List.mem_filter]
  · intro s; rw [e2]; simp [rmState_states, List.mem_filter]
  · rw [e1]; simp only [rmState_descrs, rmDescr_descrs]; exact List.filter_sublist
  · rw [e2]; simp only [rmState_states, rmDescr_states]; exact List.filter_sublist
  · rw [e5]; simp only [rmState_ctx, rmDescr_ctx]; exact List.filter_sublist
  · intro h hne
    simp only [findS, e2]
    have := findS_rmState_ne (rmDescr t d.handle) hne
    simp only [findS] at this; rw [this]; simp
  · intro h hne
    rw [e3, sSaved_rmState_ne _ hne]; simp
  · intro k o ho hne
    have hm := (findC_some ho)
    have : o ∈ ((ctxOf (rmState (rmDescr t d.handle) d.handle) d.handle).foldl (fun t c => rmCtx t c.h)
      (rmState (rmDescr t d.handle) d.handle)).ctx := (hctx o).2 ⟨hm.2, hne⟩
    have hn' : ((((ctxOf (rmState (rmDescr t d.handle) d.handle) d.handle).foldl (fun t c => rmCtx t c.h)
      (rmState (rmDescr t d.handle) d.handle)).ctx).map (·.h)).Nodup := by
      rw [e5]; exact nodup_filter_key _ (by simpa using hc) _
    have := find_of_mem_nodup (fun c : CState => c.h) hn' this
    simp only [hm.1] at this
    exact this
  · intro k hk
    have hnk : k ∉ t.ctx.map (·.h) := (find_none_iff (fun c : CState => c.h)).1 hk
    constructor
    · apply (find_none_iff (fun c : CState => c.h)).2
      intro hm
      obtain ⟨x, hx, e⟩ := List.mem_map.1 hm
      exact hnk (List.mem_map.2 ⟨x, ((hctx x).1 hx).1, e⟩)
    · rw [foldl_rmCtx_cSaved]
      · simp
      · intro hm
        obtain ⟨x, hx, e⟩ := List.mem_map.1 hm
        simp only [ctxOf, rmState_ctx, rmDescr_ctx, List.mem_filter] at hx
        exact hnk (List.mem_map.2 ⟨x, hx.1, e⟩)

theorem removed_foldl (l : List Descr) {t : Tables} (hc : (t.ctx.map (·.h)).Nodup) :
    Removed (fun x => x ∈ l.map (·.handle)) t (l.foldl rmDescrAndStates t) := by
  induction l generalizing t with
  | nil =>
    have := Removed.refl t
    simpa using this
  | cons d ds ih =>
    simp only [List.foldl_cons]
    have h1 := removed_one hc d
    have hc' : ((rmDescrAndStates t d).ctx.map (·.h)).Nodup := (h1.cSub.map _).nodup hc
    have h2 := ih hc'
    have := h1.trans h2
    refine ⟨?_, ?_, ?_, this.dSub, this.sSub, this.cSub, ?_, ?_, ?_, this.findCn⟩
    · intro x; rw [this.descrs]; simp
    · intro x; rw [this.states]; simp
    · intro x; rw [this.ctx]; simp
    · intro h hd; exact this.findS h (by simpa using hd)
    · intro h hd; exact this.sSaved h (by simpa using hd)
    · intro k o ho hd; exact this.findC k o ho (by simpa using hd)

end Sdc.Mdib

namespace Sdc.Mdib

/-! ## version counters during the descriptor part of the commit -/

/-- relative to the tables `t₀` the commit started from: descriptor versions only grow (a changed descriptor has a larger
    version), the single and context states are still the original ones (or removed, with their version saved) -/
structure CSeen (t₀ : Tables) (pend : List (Handle × DItem)) (T : Tables) : Prop where
  monoD : ∀ h, seenD t₀ h ≤ seenD T h
  pendSeen : ∀ p ∈ pend, p.2.old = none → seenD T p.1 = seenD t₀ p.1
  seenSeq : ∀ h, seenS T h = seenS t₀ h
  seenCeq : ∀ h, seenC T h = seenC t₀ h
  dChg : ∀ d ∈ T.descrs, ∀ d0 ∈ t₀.descrs, d0.handle = d.handle → d0 = d ∨ d0.ver < d.ver
  sSame : ∀ h s, findS T h = some s → findS t₀ h = some s
  cSame : ∀ h x, findC T h = some x → findC t₀ h = some x

theorem CSeen.init (t : Tables) (hn : (t.descrs.map (·.handle)).Nodup) (pend : List (Handle × DItem)) (v : Nat) :
    CSeen t pend { t with ver := v } :=
  ⟨fun _ => optLe_refl _, fun _ _ _ => rfl, fun _ => rfl, fun _ => rfl,
   fun _ hd _ hd0 e => .inl (mem_unique hn hd0 hd e), fun _ _ h => h, fun _ _ h => h⟩

theorem findD_congr_mem {T : Tables} {L : List Descr} (hm : ∀ x, x ∈ L ↔ x ∈ T.descrs) (hn : (L.map (·.handle)).Nodup)
    (h : Handle) : findD { T with descrs := L } h = findD T h := by
  cases hf : findD T h with
  | none =>
    apply (find_none_iff (fun d : Descr => d.handle)).2
    intro hx
    obtain ⟨x, hx, e⟩ := List.mem_map.1 hx
    exact (find_none_iff (fun d : Descr => d.handle)).1 hf (List.mem_map.2 ⟨x, (hm x).1 hx, e⟩)
  | some d =>
    obtain ⟨e, hd⟩ := findD_some hf
    have := find_of_mem_nodup (fun d : Descr => d.handle) hn ((hm d).2 hd)
    simp only [e] at this
    exact this

theorem CSeen.congr_descrs {t₀ : Tables} {pend : List (Handle × DItem)} {T : Tables} (h : CSeen t₀ pend T) {L : List Descr}
    (hm : ∀ x, x ∈ L ↔ x ∈ T.descrs) (hn : (L.map (·.handle)).Nodup) :
    CSeen t₀ pend { T with descrs := L } := by
  have hs : ∀ k, seenD { T with descrs := L } k = seenD T k := by
    intro k; unfold seenD; rw [findD_congr_mem hm hn]
  exact ⟨fun k => by rw [hs]; exact h.monoD k, fun p hp ho => by rw [hs]; exact h.pendSeen p hp ho, h.seenSeq, h.seenCeq,
    fun d hd => h.dChg d ((hm d).1 hd), h.sSame, h.cSame⟩

theorem findD_replaceDescr {T : Tables} (hn : (T.descrs.map (·.handle)).Nodup) {d d' : Descr} (hd : d ∈ T.descrs)
    (e1 : d'.handle = d.handle) (k : Handle) :
    findD (replaceDescr T d') k = if k = d.handle then some d' else findD T k := by
  have hn' : ((replaceDescr T d').descrs.map (·.handle)).Nodup := by rw [replaceDescr_handles]; exact hn
  by_cases e : k = d.handle
  · simp only [e, if_true]
    have hm : d' ∈ (replaceDescr T d').descrs := mem_replaceDescr.2 (.inl ⟨rfl, e1 ▸ List.mem_map_of_mem hd⟩)
    have := find_of_mem_nodup (fun d : Descr => d.handle) hn' hm
    simp only [e1] at this
    exact this
  · simp only [e, if_false]
    cases hf : findD T k with
    | none =>
      apply (find_none_iff (fun d : Descr => d.handle)).2
      rw [replaceDescr_handles]
      exact (find_none_iff (fun d : Descr => d.handle)).1 hf
    | some x =>
      obtain ⟨ex, hx⟩ := findD_some hf
      have hm : x ∈ (replaceDescr T d').descrs := mem_replaceDescr.2 (.inr ⟨hx, by rw [ex, e1]; exact e⟩)
      have := find_of_mem_nodup (fun d : Descr => d.handle) hn' hm
      simp only [ex] at this
      exact this

theorem CSeen.replace {t₀ : Tables} {pend : List (Handle × DItem)} {T : Tables} (h : CSeen t₀ pend T)
    (hn : (T.descrs.map (·.handle)).Nodup) {d d' : Descr} (hd : d ∈ T.descrs) (e1 : d'.handle = d.handle)
    (hv : ∀ d0 ∈ t₀.descrs, d0.handle = d.handle → d0.ver < d'.ver) (hv2 : findD t₀ d.handle = none → d.ver ≤ d'.ver)
    (hp : ∀ p ∈ pend, p.2.old = none → p.1 ≠ d.handle) : CSeen t₀ pend (replaceDescr T d') := by
  have hs : ∀ k, k ≠ d.handle → seenD (replaceDescr T d') k = seenD T k := by
    intro k hk; unfold seenD; rw [findD_replaceDescr hn hd e1, if_neg hk]; rfl
  have hs' : seenD (replaceDescr T d') d.handle = some d'.ver := by
    unfold seenD; rw [findD_replaceDescr hn hd e1, if_pos rfl]
  have hsd : seenD T d.handle = some d.ver := by
    unfold seenD
    have := find_of_mem_nodup (fun d : Descr => d.handle) hn hd
    rw [show findD T d.handle = some d from this]
  refine ⟨?_, ?_, h.seenSeq, h.seenCeq, ?_, h.sSame, h.cSame⟩
  · intro k
    by_cases e : k = d.handle
    · subst e; rw [hs']
      cases hf : findD t₀ d.handle with
      | none =>
        refine optLe_trans (h.monoD _) ?_
        rw [hsd]; simpa using hv2 hf
      | some d0 =>
        obtain ⟨e0, hd0⟩ := findD_some hf
        simp only [seenD, hf, Option.some_le_some]
        exact Nat.le_of_lt (hv d0 hd0 e0)
    · rw [hs k e]; exact h.monoD k
  · intro p hp' ho; rw [hs _ (hp p hp' ho)]; exact h.pendSeen p hp' ho
  · intro x hx d0 hd0 e
    rcases mem_replaceDescr.1 hx with ⟨rfl, _⟩ | ⟨hx, _⟩
    · exact .inr (hv d0 hd0 (e.trans e1))
    · exact h.dChg x hx d0 hd0 e

/-! ## the commit invariant -/

/-- a single-state item of the running commit, seen over the current tables `T`; `st` = descriptors whose version is about to
    change / was just changed and whose states have not been followed up yet; `pend` = descriptor items not yet processed -/
structure SIok (del : List Handle) (pend : List (Handle × DItem)) (st : Handle → Prop) (T : Tables) (p : Handle × SItem) : Prop where
  dh : p.2.new.dh = p.1
  old : p.2.old = findS T p.1
  kind : p.2.new.kind ≠ .context
  nd : p.1 ∉ del
  bump : (∀ o, findS T p.1 = some o → o.sv < p.2.new.sv) ∧ (findS T p.1 = none → savedGet T.sSaved p.1 ≤ some p.2.new.sv)
  ref : (∃ d ∈ T.descrs, d.handle = p.1 ∧ d.kind ≠ .context ∧ (¬ st p.1 → d.ver = p.2.new.dv)) ∨
        (∃ n, (p.1, (⟨none, some n⟩ : DItem)) ∈ pend ∧ n.kind ≠ .context)

structure CIok (tx₀ : DTx) (del : List Handle) (pend : List (Handle × DItem)) (stc : Handle → Handle → Prop) (T : Tables)
    (p : Handle × CItem) : Prop where
  old : p.2.old = findC T p.1
  odh : ∀ o ∈ p.2.old, o.dh ∉ del
  new : ∀ n ∈ p.2.new, n.h = p.1 ∧ n.dh ∉ del ∧ (∀ o ∈ p.2.old, o.dh = n.dh) ∧
    ((∀ o, findC T p.1 = some o → o.sv < n.sv) ∧ (findC T p.1 = none → savedGet T.cSaved p.1 ≤ some n.sv)) ∧
    ((∃ d ∈ T.descrs, d.handle = n.dh ∧ d.kind = .context ∧ (¬ stc n.dh p.1 → d.ver = n.dv)) ∨
     (∃ m, (n.dh, (⟨none, some m⟩ : DItem)) ∈ pend ∧ m.kind = .context))
  /-- a context state that is new in this transaction was written together with its descriptor and has its new version -/
  fresh : p.2.old = none → ∀ n ∈ p.2.new, ∃ it m, (n.dh, it) ∈ tx₀.descr ∧ it.new = some m ∧ n.dv = m.ver

/-- the version link of a context state of the table (`stc dh h`: stale) -/
def CRef (stc : Handle → Handle → Prop) (T : Tables) (X : DTx) (x : CState) : Prop :=
  ∃ d ∈ T.descrs, d.handle = x.dh ∧ d.kind = .context ∧ (x.h ∉ X.cItems.map (·.1) → ¬ stc x.dh x.h → d.ver = x.dv)

structure CInv (t₀ : Tables) (tx₀ : DTx) (del : List Handle) (pend : List (Handle × DItem)) (st : Handle → Prop)
    (T : Tables) (X : DTx) : Prop where
  dKeys : (T.descrs.map (·.handle)).Nodup
  sKeys : (T.states.map (·.dh)).Nodup
  cKeys : (T.ctx.map (·.h)).Nodup
  dOld : ∀ d ∈ T.descrs, ∀ d0 ∈ t₀.descrs, d0.handle = d.handle → d0.parent = d.parent ∧ d0.kind = d.kind ∧ d0.mds = d.mds
  dSurv : ∀ d0 ∈ t₀.descrs, d0.handle ∉ del → d0.handle ∈ T.descrs.map (·.handle)
  dUp : ∀ d ∈ T.descrs, d.handle ∉ del → ∀ p ∈ d.parent, p ∉ del
  dPar : ∀ d ∈ T.descrs, ∀ p ∈ d.parent, p ∈ T.descrs.map (·.handle) ∨ ∃ n, (p, (⟨none, some n⟩ : DItem)) ∈ pend
  pendFresh : ∀ p ∈ pend, p.2.old = none → p.1 ∉ T.descrs.map (·.handle)
  creDone : ∀ p ∈ tx₀.descr, p.2.old = none → p ∈ pend ∨ p.1 ∈ T.descrs.map (·.handle)
  sRef : ∀ s ∈ T.states, s.kind ≠ .context ∧ ∃ d ∈ T.descrs, d.handle = s.dh ∧ d.kind ≠ .context ∧
    (s.dh ∉ X.sItems.map (·.1) → ¬ st s.dh → d.ver = s.dv)
  cRef : ∀ x ∈ T.ctx, CRef (fun a _ => st a) T X x
  siKeys : (X.sItems.map (·.1)).Nodup
  si : ∀ p ∈ X.sItems, SIok del pend st T p
  ciKeys : (X.cItems.map (·.1)).Nodup
  ci : ∀ p ∈ X.cItems, CIok tx₀ del pend (fun a _ => st a) T p
  seen : CSeen t₀ pend T
  /-- an item without old state: there was no such state when the transaction started -/
  siOld0 : ∀ p ∈ X.sItems, p.2.old = none → findS t₀ p.1 = none
  ciOld0 : ∀ p ∈ X.cItems, p.2.old = none → findC t₀ p.1 = none
  /-- no item deletes a context state unless the transaction as collected did (`write_entity` without a state) -/
  ciNoDel : (∀ p ∈ tx₀.cItems, p.2.new ≠ none) → ∀ p ∈ X.cItems, p.2.new ≠ none

variable {t₀ : Tables} {tx₀ : DTx} {del : List Handle} {pend : List (Handle × DItem)} {st : Handle → Prop} {T : Tables} {X : DTx}

/-- a larger stale set is a weaker invariant -/
theorem CInv.mono_st {st' : Handle → Prop} (h : CInv t₀ tx₀ del pend st T X) (hst : ∀ x, st x → st' x) :
    CInv t₀ tx₀ del pend st' T X := by
  refine { h with sRef := ?_, cRef := ?_, si := ?_, ci := ?_ }
  · intro s hs
    obtain ⟨k, d, hd, e1, e2, e3⟩ := h.sRef s hs
    exact ⟨k, d, hd, e1, e2, fun a b => e3 a (fun hx => b (hst _ hx))⟩
  · intro x hx
    obtain ⟨d, hd, e1, e2, e3⟩ := h.cRef x hx
    exact ⟨d, hd, e1, e2, fun a b => e3 a (fun hx => b (hst _ hx))⟩
  · intro p hp
    have := h.si p hp
    refine { this with ref := ?_ }
    rcases this.ref with ⟨d, hd, e1, e2, e3⟩ | r
    · exact .inl ⟨d, hd, e1, e2, fun b => e3 (fun hx => b (hst _ hx))⟩
    · exact .inr r
  · intro p hp
    have := h.ci p hp
    refine { this with new := ?_ }
    intro n hn
    obtain ⟨a, b, c, d, e⟩ := this.new n hn
    refine ⟨a, b, c, d, ?_⟩
    rcases e with ⟨d, hd, e1, e2, e3⟩ | r
    · exact .inl ⟨d, hd, e1, e2, fun b => e3 (fun hx => b (hst _ hx))⟩
    · exact .inr r

/-- only the descriptor list changes, and only in its order -/
theorem CInv.congr_descrs (h : CInv t₀ tx₀ del pend st T X) {L : List Descr} (hm : ∀ x, x ∈ L ↔ x ∈ T.descrs)
    (hn : (L.map (·.handle)).Nodup) : CInv t₀ tx₀ del pend st { T with descrs := L } X := by
  have hh : ∀ a, a ∈ L.map (·.handle) ↔ a ∈ T.descrs.map (·.handle) := by
    intro a; simp only [List.mem_map]
    exact ⟨fun ⟨x, hx, e⟩ => ⟨x, (hm x).1 hx, e⟩, fun ⟨x, hx, e⟩ => ⟨x, (hm x).2 hx, e⟩⟩
  refine ⟨hn, h.sKeys, h.cKeys, ?_, ?_, ?_, ?_, ?_, ?_, ?_, ?_, h.siKeys, ?_, h.ciKeys, ?_, h.seen.congr_descrs hm hn, h.siOld0, h.ciOld0, h.ciNoDel⟩
  · intro d hd; exact h.dOld d ((hm d).1 hd)
  · intro d0 hd0 hnd; exact (hh _).2 (h.dSurv d0 hd0 hnd)
  · intro d hd; exact h.dUp d ((hm d).1 hd)
  · intro d hd p hp
    rcases h.dPar d ((hm d).1 hd) p hp with a | a
    · exact .inl ((hh _).2 a)
    · exact .inr a
  · intro p hp ho hx; exact h.pendFresh p hp ho ((hh _).1 hx)
  · intro p hp ho
    rcases h.creDone p hp ho with a | a
    · exact .inl a
    · exact .inr ((hh _).2 a)
  · intro s hs
    obtain ⟨k, d, hd, r⟩ := h.sRef s hs
    exact ⟨k, d, (hm d).2 hd, r⟩
  · intro x hx
    obtain ⟨d, hd, r⟩ := h.cRef x hx
    exact ⟨d, (hm d).2 hd, r⟩
  · intro p hp
    have := h.si p hp
    refine ⟨this.dh, this.old, this.kind, this.nd, this.bump, ?_⟩
    rcases this.ref with ⟨d, hd, r⟩ | r
    · exact .inl ⟨d, (hm d).2 hd, r⟩
    · exact .inr r
  · intro p hp
    have := h.ci p hp
    refine ⟨this.old, this.odh, ?_, this.fresh⟩
    intro n hn
    obtain ⟨a, b, c, d, e⟩ := this.new n hn
    refine ⟨a, b, c, d, ?_⟩
    rcases e with ⟨d, hd, r⟩ | r
    · exact .inl ⟨d, (hm d).2 hd, r⟩
    · exact .inr r

theorem CInv.reindex (h : CInv t₀ tx₀ del pend st T X) {d : Descr} (hd : d ∈ T.descrs) :
    CInv t₀ tx₀ del pend st (reindexDescr T d) X :=
  h.congr_descrs (fun _ => mem_reindexDescr h.dKeys hd) (reindexDescr_nodup h.dKeys d)

/-- `update_from_other_container` / the version bump of a parent: same handle, parent, kind; the states of the descriptor
    become stale -/
theorem CInv.replace (h : CInv t₀ tx₀ del pend st T X) {d d' : Descr} (hd : d ∈ T.descrs) (e1 : d'.handle = d.handle)
    (e2 : d'.parent = d.parent) (e3 : d'.kind = d.kind) (e4 : d'.mds = d.mds)
    (hv : ∀ d0 ∈ t₀.descrs, d0.handle = d.handle → d0.ver < d'.ver) (hv2 : findD t₀ d.handle = none → d.ver ≤ d'.ver) :
    CInv t₀ tx₀ del pend (fun x => st x ∨ x = d.handle) (replaceDescr T d') X := by
  have hmem : ∀ x, x ∈ (replaceDescr T d').descrs ↔ x = d' ∨ (x ∈ T.descrs ∧ x.handle ≠ d.handle) := by
    intro x; rw [mem_replaceDescr, e1]
    constructor
    · rintro (⟨a, _⟩ | a)
      · exact .inl a
      · exact .inr a
    · rintro (a | a)
      · exact .inl ⟨a, List.mem_map_of_mem hd⟩
      · exact .inr a
  -- every old descriptor has a counterpart with the same handle and kind, and the same version unless it is `d`
  have hcp : ∀ x ∈ T.descrs, ∃ x' ∈ (replaceDescr T d').descrs, x'.handle = x.handle ∧ x'.kind = x.kind ∧
      (x.handle ≠ d.handle → x'.ver = x.ver) := by
    intro x hx
    by_cases e : x.handle = d.handle
    · refine ⟨d', (hmem _).2 (.inl rfl), e1.trans e.symm, ?_, fun hne => absurd e hne⟩
      rw [e3, mem_unique h.dKeys hx hd e]
    · exact ⟨x, (hmem _).2 (.inr ⟨hx, e⟩), rfl, rfl, fun _ => rfl⟩
  have hh := replaceDescr_handles T d'
  refine ⟨by rw [hh]; exact h.dKeys, h.sKeys, h.cKeys, ?_, by rw [hh]; exact h.dSurv, ?_, ?_, by rw [hh]; exact h.pendFresh,
    by rw [hh]; exact h.creDone, ?_, ?_, h.siKeys, ?_, h.ciKeys, ?_,
    h.seen.replace h.dKeys hd e1 hv hv2 (fun p hp ho e => h.pendFresh p hp ho (e ▸ List.mem_map_of_mem hd)), h.siOld0, h.ciOld0, h.ciNoDel⟩
  · intro x hx d0 hd0 e
    rcases (hmem x).1 hx with rfl | ⟨hx, _⟩
    · rw [e2, e3, e4]; exact h.dOld d hd d0 hd0 (e.trans e1)
    · exact h.dOld x hx d0 hd0 e
  · intro x hx hnd p hp
    rcases (hmem x).1 hx with rfl | ⟨hx, _⟩
    · rw [e2] at hp; rw [e1] at hnd; exact h.dUp d hd hnd p hp
    · exact h.dUp x hx hnd p hp
  · intro x hx p hp
    rw [hh]
    rcases (hmem x).1 hx with rfl | ⟨hx, _⟩
    · rw [e2] at hp; exact h.dPar d hd p hp
    · exact h.dPar x hx p hp
  · intro s hs
    obtain ⟨k, x, hx, a, b, c⟩ := h.sRef s hs
    obtain ⟨x', hx', a', b', c'⟩ := hcp x hx
    refine ⟨k, x', hx', a'.trans a, by rw [b']; exact b, ?_⟩
    intro hk hst
    have : ¬ st s.dh ∧ s.dh ≠ d.handle := by simpa [not_or] using hst
    rw [c' (by rw [a]; exact this.2)]; exact c hk this.1
  · intro y hy
    obtain ⟨x, hx, a, b, c⟩ := h.cRef y hy
    obtain ⟨x', hx', a', b', c'⟩ := hcp x hx
    refine ⟨x', hx', a'.trans a, by rw [b']; exact b, ?_⟩
    intro hk hst
    have : ¬ st y.dh ∧ y.dh ≠ d.handle := by simpa [not_or] using hst
    rw [c' (by rw [a]; exact this.2)]; exact c hk this.1
  · intro p hp
    have := h.si p hp
    refine ⟨this.dh, this.old, this.kind, this.nd, this.bump, ?_⟩
    rcases this.ref with ⟨x, hx, a, b, c⟩ | r
    · obtain ⟨x', hx', a', b', c'⟩ := hcp x hx
      refine .inl ⟨x', hx', a'.trans a, by rw [b']; exact b, ?_⟩
      intro hst
      have : ¬ st p.1 ∧ p.1 ≠ d.handle := by simpa [not_or] using hst
      rw [c' (by rw [a]; exact this.2)]; exact c this.1
    · exact .inr r
  · intro p hp
    have := h.ci p hp
    refine ⟨this.old, this.odh, ?_, this.fresh⟩
    intro n hn
    obtain ⟨a0, b0, c0, d0, e0⟩ := this.new n hn
    refine ⟨a0, b0, c0, d0, ?_⟩
    rcases e0 with ⟨x, hx, a, b, c⟩ | r
    · obtain ⟨x', hx', a', b', c'⟩ := hcp x hx
      refine .inl ⟨x', hx', a'.trans a, by rw [b']; exact b, ?_⟩
      intro hst
      have : ¬ st n.dh ∧ n.dh ≠ d.handle := by simpa [not_or] using hst
      rw [c' (by rw [a]; exact this.2)]; exact c this.1
    · exact .inr r

end Sdc.Mdib

namespace Sdc.Mdib

theorem hasNew_not_del {t : Tables} {tx : DTx} {del : List Handle} (hi : DTxOK t tx) (hs : DStatic t tx del) {H : Handle}
    {Q : Descr → Prop} (h : HasNew tx.descr H Q) : H ∉ del := by
  obtain ⟨it, m, hm, e, _⟩ := h
  obtain ⟨old, new⟩ := it
  simp only at e; subst e
  cases old with
  | none =>
    intro hd
    obtain ⟨d, hd', e⟩ := hs.delSub _ hd
    have := hi.dOld _ hm
    exact (find_none_iff (fun d : Descr => d.handle)).1 this.symm (e ▸ List.mem_map_of_mem hd')
  | some o => exact hs.updNotDel _ hm o m rfl

/-- where the descriptor of an item of the transaction is: in the table (update pending, hence stale) or still to be created -/
theorem hasNew_ref {t : Tables} {tx : DTx} (hi : DTxOK t tx) {H : Handle} {Q : Descr → Prop} (h : HasNew tx.descr H Q) {v : Nat}
    {K : Kind → Prop} (hK : ∀ m, Q m → K m.kind) :
    (∃ d ∈ t.descrs, d.handle = H ∧ K d.kind ∧ (¬ (∃ o n, (H, (⟨some o, some n⟩ : DItem)) ∈ tx.descr) → d.ver = v)) ∨
    (∃ m, (H, (⟨none, some m⟩ : DItem)) ∈ tx.descr ∧ K m.kind) := by
  obtain ⟨it, m, hm, e, q⟩ := h
  obtain ⟨old, new⟩ := it
  simp only at e; subst e
  cases old with
  | none => exact .inr ⟨m, hm, hK m q⟩
  | some o =>
    left
    have := hi.dOld _ hm
    obtain ⟨eh, hod⟩ := findD_some this.symm
    refine ⟨o, hod, eh, ?_, fun hn => absurd ⟨o, m, hm⟩ hn⟩
    rw [← (hi.dUpd _ hm o rfl m rfl).1]; exact hK m q

/-- the invariant holds when the commit starts -/
theorem CInv.init {t : Tables} (hw : WF t) (hk : KOK t) {tx : DTx} (hi : DTxOK t tx) {del : List Handle}
    (hs : DStatic t tx del) (v : Nat) :
    CInv t tx del tx.descr (fun x => ∃ o n, (x, (⟨some o, some n⟩ : DItem)) ∈ tx.descr) { t with ver := v } tx := by
  refine ⟨hw.dKeys, hw.sKeys, hw.cKeys, ?_, ?_, ?_, ?_, ?_, ?_, ?_, ?_, hi.sKeys, ?_, hi.cKeys, ?_, CSeen.init t hw.dKeys _ v,
    fun p hp ho => by rw [← hi.sOld p hp]; exact ho, fun p hp ho => by rw [← hi.cOld p hp]; exact ho, fun h => h⟩
  · intro d hd d0 hd0 e
    rw [mem_unique hw.dKeys hd0 hd e]; exact ⟨rfl, rfl, rfl⟩
  · intro d0 hd0 _; exact List.mem_map_of_mem hd0
  · intro d hd hnd p hp hpd
    exact hnd (hs.delClosed p hpd d hd hp)
  · intro d hd p hp
    obtain ⟨q, hq, e⟩ := hw.parent d hd p hp
    exact .inl (e ▸ List.mem_map_of_mem hq)
  · intro p hp ho
    have := hi.dOld p hp
    rw [ho] at this
    exact (find_none_iff (fun d : Descr => d.handle)).1 this.symm
  · intro p hp _; exact .inl hp
  · intro s hs'
    obtain ⟨d, hd, e1, e2⟩ := hw.sRef s hs'
    exact ⟨hk.kS s hs', d, hd, e1, hk.kSD s hs' d hd e1, fun _ _ => e2⟩
  · intro x hx
    obtain ⟨d, hd, e1, e2⟩ := hw.cRef x hx
    exact ⟨d, hd, e1, hk.kCD x hx d hd e1, fun _ _ => e2⟩
  · intro p hp
    exact ⟨hi.sDh p hp, hi.sOld p hp, hi.sKind p hp, hasNew_not_del hi hs (hi.sDescr p hp), hi.sBump p hp,
      hasNew_ref hi (hi.sDescr p hp) (K := fun k => k ≠ .context) (fun _ q => q)⟩
  · intro p hp
    refine ⟨hi.cOld p hp, fun o ho => hasNew_not_del hi hs (hi.cOdh p hp o ho), ?_, ?_⟩
    · intro n hn
      obtain ⟨a, b, c, e⟩ := hi.cNew p hp n hn
      exact ⟨a, hasNew_not_del hi hs e, b, c, hasNew_ref hi e (K := fun k => k = .context) (fun _ q => q.1)⟩
    · intro _ n hn
      obtain ⟨_, _, _, it, m, hm, e, q⟩ := hi.cNew p hp n hn
      exact ⟨it, m, hm, e, q.2⟩

end Sdc.Mdib
