import SdcModel.Invocation
/-!
Helper lemmas for C09, provider side: every transaction id has exactly one of three statuses
(in flight / queued in one SCO / done) and the messages about it are determined by the status.
-/
namespace Sdc.Invocation

/-- the entries of an id-keyed list that carry the id `tx` -/
def occ {α : Type} (tx : Nat) (l : List (Nat × α)) : List (Nat × α) := l.filter (fun e => e.1 = tx)

@[simp] theorem occ_nil {α : Type} (tx : Nat) : occ tx ([] : List (Nat × α)) = [] := rfl

theorem occ_append {α : Type} (tx : Nat) (a b : List (Nat × α)) : occ tx (a ++ b) = occ tx a ++ occ tx b := by
  simp [occ]

theorem occ_single_ne {α : Type} (tx t : Nat) (v : α) (h : t ≠ tx) : occ tx [(t, v)] = [] := by
  simp [occ, h]

theorem occ_single_eq {α : Type} (tx : Nat) (v : α) : occ tx [(tx, v)] = [(tx, v)] := by
  simp [occ]

theorem occ_cons {α : Type} (tx : Nat) (e : Nat × α) (l : List (Nat × α)) :
    occ tx (e :: l) = if e.1 = tx then e :: occ tx l else occ tx l := by
  simp only [occ, List.filter_cons]
  by_cases h : e.1 = tx <;> simp [h]

theorem occ_nil_of_bound {α : Type} (tx n : Nat) (l : List (Nat × α)) (h : ∀ e ∈ l, e.1 ≤ n) (hn : n < tx) :
    occ tx l = [] := by
  simp only [occ, List.filter_eq_nil_iff]
  intro e he
  have := h e he
  simp; omega

/-- removing position `k`: if the removed entry has another id nothing changes for `tx` -/
theorem occ_eraseIdx_ne {α : Type} (tx : Nat) (l : List (Nat × α)) (k : Nat) (e : Nat × α)
    (hk : l[k]? = some e) (hne : e.1 ≠ tx) : occ tx (l.eraseIdx k) = occ tx l := by
  induction l generalizing k with
  | nil => simp at hk
  | cons a t ih =>
    cases k with
    | zero =>
      simp at hk; subst hk
      simp [occ_cons, hne]
    | succ k =>
      simp at hk
      simp only [List.eraseIdx_cons_succ, occ_cons]
      rw [ih k hk]

/-- removing position `k`: if `tx` occurs exactly once and position `k` carries it, nothing is left -/
theorem occ_eraseIdx_eq {α : Type} (tx : Nat) (l : List (Nat × α)) (k : Nat) (e v : Nat × α)
    (hk : l[k]? = some e) (he : e.1 = tx) (hone : occ tx l = [v]) : e = v ∧ occ tx (l.eraseIdx k) = [] := by
  induction l generalizing k with
  | nil => simp at hk
  | cons a t ih =>
    cases k with
    | zero =>
      simp at hk; subst hk
      simp only [occ_cons, he, if_true] at hone
      simp only [List.eraseIdx_cons_zero]
      injection hone with h1 h2
      exact ⟨h1, h2⟩
    | succ k =>
      simp at hk
      simp only [List.eraseIdx_cons_succ, occ_cons] at hone ⊢
      by_cases ha : a.1 = tx
      · simp only [ha, if_true] at hone
        injection hone with h1 h2
        -- the tail has no entry with tx, but position k of the tail has one
        have : e ∈ occ tx t := by
          simp only [occ, List.mem_filter]
          exact ⟨List.mem_of_getElem? hk, by simp [he]⟩
        rw [h2] at this; cases this
      · simp only [ha, if_false] at hone ⊢
        exact ih k hk hone

theorem msgsOf_append (tx : Nat) (a b : List Msg) : msgsOf tx (a ++ b) = msgsOf tx a ++ msgsOf tx b := by
  simp [msgsOf]

theorem run_append (p : Prov) (a b : List Ev) :
    run p (a ++ b) = ((run (run p a).1 b).1, (run p a).2 ++ (run (run p a).1 b).2) := by
  induction a generalizing p with
  | nil => simp [run]
  | cons e es ih => simp [run, ih, List.append_assoc]

/-- complete message lists of a transaction -/
def Complete (r : Req) (tx : Nat) (m : List Msg) : Prop :=
  (r.sco = none ∧ m = [.resp ⟨tx, .fail, true⟩]) ∨
  (r.sco ≠ none ∧ r.direct = true ∧
      m = [.report (finalInfo tx r.outcome), .resp ⟨tx, (finalInfo tx r.outcome).st, false⟩]) ∨
  (r.sco ≠ none ∧ r.direct = false ∧
      m = [.resp ⟨tx, .wait, false⟩, .report ⟨tx, .wait, false⟩, .report ⟨tx, .start, false⟩,
           .report (finalInfo tx r.outcome)]) ∨
  (r.sco ≠ none ∧ r.direct = false ∧ m = [.report ⟨tx, .fail, true⟩, .resp ⟨tx, .fail, false⟩])

/-- where transaction `tx` (created for request `r`) is, and what has been said about it (`m`) -/
inductive Status (p : Prov) (tx : Nat) (r : Req) (m : List Msg) : Prop
  | inflight : occ tx p.inflight = [(tx, r)] → (∀ s, occ tx (p.queues s) = []) → m = [] → Status p tx r m
  | queued (s : Nat) : r.sco = some s → r.direct = false → occ tx p.inflight = [] →
      occ tx (p.queues s) = [(tx, r.outcome)] → (∀ s', s' ≠ s → occ tx (p.queues s') = []) →
      m = [.resp ⟨tx, .wait, false⟩] → Status p tx r m
  | done : occ tx p.inflight = [] → (∀ s, occ tx (p.queues s) = []) → Complete r tx m → Status p tx r m

@[simp] theorem finalInfo_tx (tx : Nat) (o : Outcome) : (finalInfo tx o).tx = tx := by
  cases o <;> rfl

theorem msgsOf_other (tx t : Nat) (h : t ≠ tx) (l : List Msg) (hl : ∀ m ∈ l, m.info.tx = t) : msgsOf tx l = [] := by
  simp only [msgsOf, List.filter_eq_nil_iff]
  intro m hm
  have := hl m hm
  simp; omega

theorem msgsOf_self (tx : Nat) (l : List Msg) (hl : ∀ m ∈ l, m.info.tx = tx) : msgsOf tx l = l := by
  simp only [msgsOf, List.filter_eq_self]
  intro m hm
  simp [hl m hm]

/-- messages produced by `dispatch` all carry the dispatched id -/
theorem dispatch_msgs_tx (p : Prov) (t : Nat) (r : Req) : ∀ m ∈ (dispatch p t r).2, m.info.tx = t := by
  intro m hm
  unfold dispatch at hm
  split at hm
  · simp at hm; subst hm; rfl
  · split at hm
    · simp at hm; rcases hm with h | h <;> subst h <;> simp [Msg.info]
    · split at hm
      · simp at hm; subst hm; rfl
      · simp at hm; rcases hm with h | h <;> subst h <;> rfl

theorem dispatch_counter (p : Prov) (t : Nat) (r : Req) : (dispatch p t r).1.counter = p.counter := by
  unfold dispatch
  split
  · rfl
  · split
    · rfl
    · split <;> rfl

theorem dispatch_inflight (p : Prov) (t : Nat) (r : Req) : (dispatch p t r).1.inflight = p.inflight := by
  unfold dispatch
  split
  · rfl
  · split
    · rfl
    · split <;> rfl

/-- dispatching another id leaves the queues' entries for `tx` alone -/
theorem dispatch_queues_other (p : Prov) (t tx : Nat) (r : Req) (h : t ≠ tx) (s : Nat) :
    occ tx ((dispatch p t r).1.queues s) = occ tx (p.queues s) := by
  unfold dispatch
  split
  · rfl
  · split
    · rfl
    · split
      · rename_i s0 _ _ _
        simp only [setQ]
        by_cases hs : s = s0
        · subst hs; simp [occ_append, occ_single_ne _ _ _ h]
        · simp [hs]
      · rfl

theorem setQ_same (f : Nat → List (Nat × Outcome)) (s : Nat) (q : List (Nat × Outcome)) : setQ f s q s = q := by
  simp [setQ]

theorem setQ_other (f : Nat → List (Nat × Outcome)) (s s' : Nat) (q : List (Nat × Outcome)) (h : s' ≠ s) :
    setQ f s q s' = f s' := by
  simp [setQ, h]

/-- dispatch of the observed id itself, starting from "nowhere queued" -/
theorem dispatch_self (p : Prov) (tx : Nat) (r : Req)
    (hi : occ tx p.inflight = []) (hq : ∀ s, occ tx (p.queues s) = []) :
    Status (dispatch p tx r).1 tx r (dispatch p tx r).2 := by
  unfold dispatch
  split
  · rename_i hs
    exact .done hi hq (Or.inl ⟨hs, rfl⟩)
  · rename_i s0 hs
    have hne : r.sco ≠ none := by simp [hs]
    split
    · rename_i hd
      exact .done hi hq (Or.inr (Or.inl ⟨hne, hd, rfl⟩))
    · rename_i hd
      have hd' : r.direct = false := by simpa using hd
      split
      · refine .queued s0 hs hd' hi ?_ ?_ rfl
        · simp [setQ_same, occ_append, hq s0, occ_single_eq]
        · intro s' hs'
          simp only [setQ_other _ _ _ _ hs']
          exact hq s'
      · exact .done hi hq (Or.inr (Or.inr (Or.inr ⟨hne, hd', rfl⟩)))

/-- one event keeps the status relation; `m` grows by the messages about `tx` -/
theorem status_step (p : Prov) (tx : Nat) (r : Req) (m : List Msg) (e : Ev)
    (hs : Status p tx r m) (hb : tx ≤ p.counter) :
    Status (step p e).1 tx r (m ++ msgsOf tx (step p e).2) ∧ tx ≤ (step p e).1.counter := by
  cases e with
  | recv r' =>
    have hne : p.counter + 1 ≠ tx := by omega
    simp only [step, msgsOf, List.filter_nil, List.append_nil]
    refine ⟨?_, by omega⟩
    cases hs with
    | inflight h1 h2 h3 => exact .inflight (by simp [occ_append, h1, occ_single_ne _ _ _ hne]) h2 h3
    | queued s a b h1 h2 h3 h4 => exact .queued s a b (by simp [occ_append, h1, occ_single_ne _ _ _ hne]) h2 h3 h4
    | done h1 h2 h3 => exact .done (by simp [occ_append, h1, occ_single_ne _ _ _ hne]) h2 h3
  | handle k =>
    simp only [step]
    cases hk : p.inflight[k]? with
    | none => simp only [msgsOf, List.filter_nil, List.append_nil]; exact ⟨hs, hb⟩
    | some e =>
      obtain ⟨t, r'⟩ := e
      simp only
      refine ⟨?_, by rw [dispatch_counter]; exact hb⟩
      by_cases ht : t = tx
      · -- the observed request itself is dispatched: it must be in flight
        subst ht
        cases hs with
        | inflight h1 h2 h3 =>
          obtain ⟨he, herase⟩ := occ_eraseIdx_eq t p.inflight k (t, r') (t, r) hk rfl h1
          have hr : r' = r := by injection he
          subst hr h3
          rw [msgsOf_self _ _ (dispatch_msgs_tx _ _ _)]
          simpa using dispatch_self { p with inflight := p.inflight.eraseIdx k } t r' herase h2
        | queued s a b h1 h2 h3 h4 =>
          have : (t, r') ∈ occ t p.inflight := by
            simp only [occ, List.mem_filter]; exact ⟨List.mem_of_getElem? hk, by simp⟩
          rw [h1] at this; cases this
        | done h1 h2 h3 =>
          have : (t, r') ∈ occ t p.inflight := by
            simp only [occ, List.mem_filter]; exact ⟨List.mem_of_getElem? hk, by simp⟩
          rw [h1] at this; cases this
      · -- another request
        rw [msgsOf_other tx t ht _ (dispatch_msgs_tx _ _ _), List.append_nil]
        have hinf : occ tx (dispatch { p with inflight := p.inflight.eraseIdx k } t r').1.inflight = occ tx p.inflight := by
          rw [dispatch_inflight]; exact occ_eraseIdx_ne tx p.inflight k (t, r') hk ht
        have hq : ∀ s, occ tx ((dispatch { p with inflight := p.inflight.eraseIdx k } t r').1.queues s) = occ tx (p.queues s) :=
          fun s => dispatch_queues_other _ t tx r' ht s
        cases hs with
        | inflight h1 h2 h3 => exact .inflight (by rw [hinf]; exact h1) (fun s => by rw [hq]; exact h2 s) h3
        | queued s a b h1 h2 h3 h4 =>
          exact .queued s a b (by rw [hinf]; exact h1) (by rw [hq]; exact h2) (fun s' h => by rw [hq]; exact h3 s' h) h4
        | done h1 h2 h3 => exact .done (by rw [hinf]; exact h1) (fun s => by rw [hq]; exact h2 s) h3
  | tick s =>
    simp only [step]
    cases hq : p.queues s with
    | nil => simp only [msgsOf, List.filter_nil, List.append_nil]; exact ⟨hs, hb⟩
    | cons hd rest =>
      obtain ⟨t, o⟩ := hd
      simp only
      refine ⟨?_, hb⟩
      have hmsgs : ∀ m ∈ [Msg.report ⟨t, .wait, false⟩, .report ⟨t, .start, false⟩, .report (finalInfo t o)], m.info.tx = t := by
        intro m hm; simp at hm; rcases hm with h | h | h <;> subst h <;> simp [Msg.info]
      by_cases ht : t = tx
      · subst ht
        have hin : (t, o) ∈ occ t (p.queues s) := by rw [hq]; simp [occ]
        cases hs with
        | inflight h1 h2 h3 => rw [h2 s] at hin; cases hin
        | done h1 h2 h3 => rw [h2 s] at hin; cases hin
        | queued s0 a b h1 h2 h3 h4 =>
          have hs0 : s = s0 := by
            apply Decidable.byContradiction; intro hne
            rw [h3 s hne] at hin; cases hin
          subst hs0
          rw [hq, occ_cons] at h2
          simp only [if_true] at h2
          injection h2 with h2a h2b
          have ho : o = r.outcome := by injection h2a
          subst ho h4
          rw [msgsOf_self _ _ hmsgs]
          refine .done h1 ?_ (Or.inr (Or.inr (Or.inl ⟨by simp [a], b, rfl⟩)))
          intro s'
          by_cases hs' : s' = s
          · subst hs'; simp only [setQ_same]; exact h2b
          · simp only [setQ_other _ _ _ _ hs']; exact h3 s' hs'
      · rw [msgsOf_other tx t ht _ hmsgs, List.append_nil]
        have hq' : ∀ s', occ tx (setQ p.queues s rest s') = occ tx (p.queues s') := by
          intro s'
          by_cases hs' : s' = s
          · subst hs'; simp only [setQ_same]; rw [hq, occ_cons]; simp [ht]
          · simp only [setQ_other _ _ _ _ hs']
        cases hs with
        | inflight h1 h2 h3 => exact .inflight h1 (fun s' => by rw [hq']; exact h2 s') h3
        | queued s0 a b h1 h2 h3 h4 =>
          exact .queued s0 a b h1 (by rw [hq']; exact h2) (fun s' h => by rw [hq']; exact h3 s' h) h4
        | done h1 h2 h3 => exact .done h1 (fun s' => by rw [hq']; exact h2 s') h3

theorem status_run (evs : List Ev) (p : Prov) (tx : Nat) (r : Req) (m : List Msg)
    (hs : Status p tx r m) (hb : tx ≤ p.counter) :
    Status (run p evs).1 tx r (m ++ msgsOf tx (run p evs).2) := by
  induction evs generalizing p m with
  | nil => simpa [run, msgsOf] using hs
  | cons e es ih =>
    obtain ⟨h1, h2⟩ := status_step p tx r m e hs hb
    have := ih (step p e).1 (m ++ msgsOf tx (step p e).2) h1 h2
    simpa [run, msgsOf_append, List.append_assoc] using this

/-- nothing in the state or in the log carries an id above the counter -/
def Bounded (p : Prov) (log : List Msg) : Prop :=
  (∀ e ∈ p.inflight, e.1 ≤ p.counter) ∧ (∀ s, ∀ e ∈ p.queues s, e.1 ≤ p.counter) ∧ (∀ m ∈ log, m.info.tx ≤ p.counter)

theorem bounded_init (cap : Nat) : Bounded (Prov.init cap) [] := by
  simp [Bounded, Prov.init]

theorem bounded_step (p : Prov) (log : List Msg) (e : Ev) (h : Bounded p log) :
    Bounded (step p e).1 (log ++ (step p e).2) := by
  obtain ⟨h1, h2, h3⟩ := h
  cases e with
  | recv r =>
    simp only [step, List.append_nil]
    refine ⟨?_, ?_, ?_⟩
    · intro e he
      simp at he
      rcases he with he | he
      · have := h1 e he; show e.1 ≤ p.counter + 1; omega
      · subst he; simp
    · intro s e he; have := h2 s e he; simp; omega
    · intro m hm; have := h3 m hm; simp; omega
  | handle k =>
    simp only [step]
    cases hk : p.inflight[k]? with
    | none => simpa using ⟨h1, h2, h3⟩
    | some e =>
      obtain ⟨t, r⟩ := e
      have ht : t ≤ p.counter := h1 (t, r) (List.mem_of_getElem? hk)
      simp only
      refine ⟨?_, ?_, ?_⟩
      · rw [dispatch_inflight, dispatch_counter]
        intro e he
        exact h1 e (List.mem_of_mem_eraseIdx he)
      · rw [dispatch_counter]
        intro s e he
        unfold dispatch at he
        split at he
        · exact h2 s e he
        · split at he
          · exact h2 s e he
          · split at he
            · rename_i s0 _ _ _
              simp only [setQ] at he
              by_cases hs : s = s0
              · subst hs
                simp at he
                rcases he with he | he
                · exact h2 s e he
                · subst he; exact ht
              · simp [hs] at he; exact h2 s e he
            · exact h2 s e he
      · rw [dispatch_counter]
        intro m hm
        simp only [List.mem_append] at hm
        rcases hm with hm | hm
        · exact h3 m hm
        · rw [dispatch_msgs_tx _ _ _ m hm]; exact ht
  | tick s =>
    simp only [step]
    cases hq : p.queues s with
    | nil => simpa using ⟨h1, h2, h3⟩
    | cons hd rest =>
      obtain ⟨t, o⟩ := hd
      have ht : t ≤ p.counter := h2 s (t, o) (by rw [hq]; simp)
      simp only
      refine ⟨h1, ?_, ?_⟩
      · intro s' e he
        simp only [setQ] at he
        by_cases hs : s' = s
        · subst hs; simp at he; exact h2 s' e (by rw [hq]; exact List.mem_cons_of_mem _ he)
        · simp [hs] at he; exact h2 s' e he
      · intro m hm
        simp only [List.mem_append] at hm
        rcases hm with hm | hm
        · exact h3 m hm
        · simp at hm; rcases hm with h | h | h <;> subst h <;> simpa [Msg.info] using ht

theorem bounded_run (evs : List Ev) (p : Prov) (log : List Msg) (h : Bounded p log) :
    Bounded (run p evs).1 (log ++ (run p evs).2) := by
  induction evs generalizing p log with
  | nil => simpa [run] using h
  | cons e es ih =>
    have := ih (step p e).1 (log ++ (step p e).2) (bounded_step p log e h)
    simpa [run, List.append_assoc] using this

/-- the central fact: the request received after `pre` gets the id `counter + 1`, and whatever happens afterwards its
    messages are determined by where it is -/
theorem status_of_request (cap : Nat) (pre post : List Ev) (r : Req) :
    let tx := (run (Prov.init cap) pre).1.counter + 1
    let res := run (Prov.init cap) (pre ++ .recv r :: post)
    Status res.1 tx r (msgsOf tx res.2) := by
  intro tx res
  have hb := bounded_run pre (Prov.init cap) [] (bounded_init cap)
  simp only [List.nil_append] at hb
  obtain ⟨h1, h2, h3⟩ := hb
  have hres : res = ((run (step (run (Prov.init cap) pre).1 (.recv r)).1 post).1,
      (run (Prov.init cap) pre).2 ++ (run (step (run (Prov.init cap) pre).1 (.recv r)).1 post).2) := by
    simp only [res, run_append, run, step, List.nil_append]
  rw [hres]
  simp only [msgsOf_append]
  have hpre : msgsOf tx (run (Prov.init cap) pre).2 = [] := by
    simp only [msgsOf, List.filter_eq_nil_iff]
    intro m hm
    have := h3 m hm
    simp; omega
  rw [hpre, List.nil_append]
  have hst : Status (step (run (Prov.init cap) pre).1 (.recv r)).1 tx r [] := by
    refine .inflight ?_ ?_ rfl
    · simp only [step, occ_append]
      rw [occ_nil_of_bound tx _ _ h1 (by omega)]
      exact occ_single_eq tx r
    · intro s
      simp only [step]
      exact occ_nil_of_bound tx _ _ (h2 s) (by omega)
  have := status_run post _ tx r [] hst (by simp [step]; omega)
  simpa using this


/-! ### legal state words -/

/-- `Wait Start F | F` with a final `F` -/
def LegalWord (w : List St) : Prop := ∃ f, f.isFinal = true ∧ (w = [.wait, .start, f] ∨ w = [f])

/-- what can be observed of a legal word while the request is still pending (the worker step is atomic in the model) -/
def LegalPrefix (w : List St) : Prop := w = [] ∨ w = [.wait] ∨ LegalWord w

/-- the transaction is neither in flight nor queued -/
def NotPending (p : Prov) (tx : Nat) : Prop := occ tx p.inflight = [] ∧ ∀ s, occ tx (p.queues s) = []

/-- all final states in the word are one and the same state, and it occurs -/
def OneFinal (w : List St) : Prop := ∃ f, f.isFinal = true ∧ f ∈ w ∧ ∀ s ∈ w, s.isFinal = true → s = f

/-- the three complete exchanges: all states in emission order / states of the response(s) / states of the reports -/
inductive Exchange : List St → List St → List St → Prop
  | unknown : Exchange [.fail] [.fail] []
  | direct (f : St) : f.isFinal = true → Exchange [f, f] [f] [f]
  | queued (f : St) : f.isFinal = true → Exchange [.wait, .wait, .start, f] [.wait] [.wait, .start, f]

theorem finalInfo_final (tx : Nat) (o : Outcome) (h : o.legal = true) : (finalInfo tx o).st.isFinal = true := by
  cases o with
  | ok s => simpa [finalInfo, Outcome.legal] using h
  | raises => rfl

theorem complete_exchange (r : Req) (tx : Nat) (m : List Msg) (h : Complete r tx m) (hl : r.outcome.legal = true) :
    Exchange (m.map (·.info.st)) ((m.filterMap Msg.resp?).map (·.st)) ((m.filterMap Msg.report?).map (·.st)) := by
  have hf := finalInfo_final tx r.outcome hl
  rcases h with ⟨_, h⟩ | ⟨_, _, h⟩ | ⟨_, _, h⟩ | ⟨_, _, h⟩
  · subst h; exact .unknown
  · subst h; exact .direct _ hf
  · subst h; exact .queued _ hf
  · subst h; exact .direct .fail rfl

theorem exchange_legal (w rs rp : List St) (h : Exchange w rs rp) :
    LegalWord (collapse w) ∧ rs.length = 1 ∧ (rp = [] ∨ LegalWord rp) ∧ OneFinal w ∧
      (∀ s ∈ rs, s = .wait → ∃ f, rp = [.wait, .start, f]) ∧ (∀ s ∈ rs, s.isFinal = true → rp = [] ∨ rp = [s]) := by
  cases h with
  | unknown =>
    refine ⟨⟨.fail, rfl, Or.inr rfl⟩, rfl, Or.inl rfl, ⟨.fail, rfl, by simp, by simp⟩, by simp, by simp⟩
  | direct f hf =>
    refine ⟨⟨f, hf, Or.inr (by simp [collapse])⟩, rfl, Or.inr ⟨f, hf, Or.inr rfl⟩, ⟨f, hf, by simp, by simp⟩, ?_, by simp⟩
    intro s hs hw; simp at hs; subst hs; subst hw; cases hf
  | queued f hf =>
    have h1 : f ≠ .start := by intro h; subst h; cases hf
    have h2 : f ≠ .wait := by intro h; subst h; cases hf
    refine ⟨⟨f, hf, Or.inl ?_⟩, rfl, Or.inr ⟨f, hf, Or.inl rfl⟩, ⟨f, hf, by simp, ?_⟩, ?_, ?_⟩
    · simp [collapse, Ne.symm h1]
    · intro s hs hfin
      simp at hs
      rcases hs with hs | hs | hs <;> subst hs <;> first | rfl | cases hfin
    · intro s _ _; exact ⟨f, rfl⟩
    · intro s hs hfin; simp at hs; subst hs; cases hfin

/-- a transaction that is not pending has a complete message list -/
theorem status_not_pending (p : Prov) (tx : Nat) (r : Req) (m : List Msg) (h : Status p tx r m) (hn : NotPending p tx) :
    Complete r tx m := by
  cases h with
  | inflight h1 _ _ => rw [hn.1] at h1; cases h1
  | queued s _ _ _ h2 _ _ => rw [hn.2 s] at h2; cases h2
  | done _ _ h3 => exact h3

theorem status_prefix (p : Prov) (tx : Nat) (r : Req) (m : List Msg) (h : Status p tx r m) (hl : r.outcome.legal = true) :
    LegalPrefix (collapse (m.map (·.info.st))) := by
  cases h with
  | inflight _ _ h3 => subst h3; exact Or.inl rfl
  | queued s _ _ _ _ _ h4 => subst h4; exact Or.inr (Or.inl rfl)
  | done _ _ h3 => exact Or.inr (Or.inr (exchange_legal _ _ _ (complete_exchange r tx m h3 hl)).1)

end Sdc.Invocation
