import SdcModel.Basic.Url
import SdcModel.UdpRepeat
/-!
# M `Discovery` — WS-Discovery matching and bookkeeping (src/sdc11073/wsdiscovery/wsdimpl.py)

Transcription of `match_scope`, `match_type`, `_is_type_in_list`, `_is_scope_in_list`, `matches_filter`,
`filter_services`, `WSDiscovery.publish_service / clear_service`, `_add_remote_service`, `_remove_remote_service`, the
`_handle_received_*` handlers behind `handle_received_message`, and of the duplicate filter of
`NetworkingThread._run_q_read` in front of it (the id window itself is `Sdc.UdpRepeat.step`, property C15).
Strings are UTF-8 byte lists; `none` is Python `None`; dicts are insertion-ordered association lists.
-/
namespace Sdc.Discovery
open Sdc.Url Sdc.Percent

structure QName where
  ns : Bytes
  name : Bytes
deriving DecidableEq, Repr

/-- `wsd_types.ScopesType`: the URI list and the `MatchBy` attribute -/
structure Scopes where
  text : List Bytes
  matchBy : Option Bytes
deriving DecidableEq, Repr

/-- `wsdiscovery.service.Service` -/
structure Service where
  epr : Bytes
  types : Option (List QName)
  scopes : Option Scopes
  xaddrs : List Bytes
  mv : Nat          -- metadata_version
  inst : Nat        -- instance_id
deriving DecidableEq, Repr

inductive Err
  | valueError      -- urlsplit rejects one of the two scopes
  | typeError       -- iteration over `service.types is None`
  | attributeError  -- ResolveMatches without a ResolveMatch element: `None.EndpointReference`
deriving DecidableEq, Repr


/-- module constants: the `MatchBy` URIs (values of the enum) and the switch `allow_missing_app_sequence`
    (the instance used by the running code is `Generated/DiscoveryConsts.lean`) -/
structure Rules where
  ldap : Bytes
  uri : Bytes
  uuid : Bytes
  strcmp : Bytes
  allowMissingApp : Bool := false
deriving DecidableEq, Repr

inductive RuleKind
  | uriLike   -- `match_by in (MatchBy.ldap, MatchBy.uri, MatchBy.uuid, '', None)`
  | strcmp    -- `match_by == MatchBy.strcmp`
  | unknown
deriving DecidableEq, Repr

def ruleKind (r : Rules) : Option Bytes → RuleKind
  | none => .uriLike
  | some m =>
    if m = r.ldap ∨ m = r.uri ∨ m = r.uuid ∨ m = [] then .uriLike
    else if m = r.strcmp then .strcmp
    else .unknown

/-- the comparison of two split URIs in `match_scope` -/
def uriMatch (a b : Split) : Bool :=
  if lower a.scheme ≠ lower b.scheme ∨ lower a.netloc ≠ lower b.netloc then false
  else if a.path = b.path then true
  else
    let src := (splitOn 47 a.path).map unquoteBytes
    let tgt := (splitOn 47 b.path).map unquoteBytes
    if src.length > tgt.length then false
    else (List.range src.length).all fun i => tgt[i]? == src[i]?

/-- `match_scope(my_scope, other_scope, match_by)` -/
def matchScope (chk : Bytes → Bool) (r : Rules) (mine other : Bytes) (matchBy : Option Bytes) : Except Err Bool :=
  match ruleKind r matchBy with
  | .uriLike =>
    match urlsplit chk mine with
    | none => .error .valueError
    | some a =>
      match urlsplit chk other with
      | none => .error .valueError
      | some b => .ok (uriMatch a b)
  | .strcmp => .ok (mine == other)
  | .unknown => .ok false

/-- `match_type` -/
def matchType (a b : QName) : Bool := a.ns == b.ns && a.name == b.name

/-- `_is_type_in_list(ttype, service.types)`: iterating `None` is a `TypeError` -/
def isTypeInList (t : QName) : Option (List QName) → Except Err Bool
  | none => .error .typeError
  | some ts => .ok (ts.any (matchType t))

/-- `any(match_scope(uri, entry, match_by) for entry in srv_sc.text)`: stops at the first match -/
def anyScope (chk : Bytes → Bool) (r : Rules) (uri : Bytes) (matchBy : Option Bytes) : List Bytes → Except Err Bool
  | [] => .ok false
  | e :: rest =>
    match matchScope chk r uri e matchBy with
    | .error x => .error x
    | .ok true => .ok true
    | .ok false => anyScope chk r uri matchBy rest

/-- `_is_scope_in_list` -/
def isScopeInList (chk : Bytes → Bool) (r : Rules) (uri : Bytes) (matchBy : Option Bytes) : Option Scopes → Except Err Bool
  | none => .ok false
  | some sc => anyScope chk r uri matchBy sc.text

/-- the `for ttype in types` loop of `matches_filter`: first miss returns False -/
def allTypes (svcTypes : Option (List QName)) : List QName → Except Err Bool
  | [] => .ok true
  | t :: rest =>
    match isTypeInList t svcTypes with
    | .error x => .error x
    | .ok false => .ok false
    | .ok true => allTypes svcTypes rest

/-- the `for uri in scopes.text` loop of `matches_filter` -/
def allScopes (chk : Bytes → Bool) (r : Rules) (matchBy : Option Bytes) (svcScopes : Option Scopes) :
    List Bytes → Except Err Bool
  | [] => .ok true
  | u :: rest =>
    match isScopeInList chk r u matchBy svcScopes with
    | .error x => .error x
    | .ok false => .ok false
    | .ok true => allScopes chk r matchBy svcScopes rest

/-- `matches_filter(service, types, scopes)` -/
def matchesFilter (chk : Bytes → Bool) (r : Rules) (s : Service) (types : Option (List QName)) (scopes : Option Scopes) :
    Except Err Bool :=
  let typesOk : Except Err Bool := match types with
    | none => .ok true
    | some ts => allTypes s.types ts
  match typesOk with
  | .error x => .error x
  | .ok false => .ok false
  | .ok true =>
    match scopes with
    | none => .ok true
    | some sc => allScopes chk r sc.matchBy s.scopes sc.text

/-- `filter_services` -/
def filterServices (chk : Bytes → Bool) (r : Rules) (types : Option (List QName)) (scopes : Option Scopes) :
    List Service → Except Err (List Service)
  | [] => .ok []
  | s :: rest =>
    match matchesFilter chk r s types scopes with
    | .error x => .error x
    | .ok b =>
      match filterServices chk r types scopes rest with
      | .error x => .error x
      | .ok l => .ok (if b then s :: l else l)

/-! ## dicts keyed by endpoint reference (insertion ordered) -/

abbrev Table := List (Bytes × Service)

def Table.get : Table → Bytes → Option Service
  | [], _ => none
  | (k', v) :: t, k => if k' = k then some v else Table.get t k

/-- `d[k] = v`: replaces in place, or appends -/
def Table.set : Table → Bytes → Service → Table
  | [], k, v => [(k, v)]
  | (k', v') :: t, k, v => if k' = k then (k, v) :: t else (k', v') :: Table.set t k v

/-- `del d[k]` -/
def Table.del : Table → Bytes → Table
  | [], _ => []
  | (k', v') :: t, k => if k' = k then Table.del t k else (k', v') :: Table.del t k

def Table.values (t : Table) : List Service := t.map (·.2)

/-! ## the remote-service table -/

/-- the update of a known service by an announcement with the same metadata version: `x_addrs` only if there are more
    of them, scopes and types if given (the stored object is modified in place) -/
def merge (known s : Service) : Service :=
  let k1 := if s.xaddrs.length > known.xaddrs.length then { known with xaddrs := s.xaddrs } else known
  let k2 := match s.scopes with
    | some sc => { k1 with scopes := some sc }
    | none => k1
  match s.types with
  | some ts => { k2 with types := some ts }
  | none => k2

/-- `_add_remote_service` -/
def addRemote (t : Table) (s : Service) : Table :=
  if s.epr = [] then t
  else match t.get s.epr with
    | none => t.set s.epr s
    | some known =>
      if s.mv = known.mv then t.set s.epr (merge known s)
      else if s.mv > known.mv then t.set s.epr s
      else t

/-! ## messages and the dispatcher -/

inductive Msg
  | hello (app : Bool) (s : Service)                 -- `app`: the header has an AppSequence element
  | probeMatches (app : Bool) (ss : List Service)
  | resolveMatches (app : Bool) (s : Option Service)   -- `none`: the optional ResolveMatch element is missing
  | bye (epr : Bytes)
  | probe (types : Option (List QName)) (scopes : Option Scopes)
  | resolve (epr : Bytes)
  | unknown                                         -- any other action: logged, ignored
deriving DecidableEq, Repr

/-- answers queued for sending -/
inductive Out
  | probeMatch (s : Service)      -- one ProbeMatches message per matching service
  | resolveMatch (s : Service)
deriving DecidableEq, Repr

structure State where
  local_ : Table
  remote : Table
deriving DecidableEq, Repr

def State.empty : State := ⟨[], []⟩

/-- `self._local_services[epr].metadata_version + 1 if epr in self._local_services else 1` -/
def nextMv : Option Service → Nat
  | some old => old.mv + 1
  | none => 1

/-- `publish_service(epr, types, scopes, x_addrs)`; `inst` is the random instance id -/
def publish (st : State) (epr : Bytes) (types : Option (List QName)) (scopes : Option Scopes) (xaddrs : List Bytes)
    (inst : Nat) : State :=
  { st with local_ := st.local_.set epr ⟨epr, types, scopes, xaddrs, nextMv (st.local_.get epr), inst⟩ }

/-- `clear_service(epr)`; `none` = `KeyError` -/
def clearService (st : State) (epr : Bytes) : Option State :=
  match st.local_.get epr with
  | none => none
  | some _ => some { st with local_ := st.local_.del epr }

/-- `handle_received_message`; an announcement without AppSequence header is dropped unless
    `allow_missing_app_sequence` is set (then it is processed with instance id 0) -/
def handle (chk : Bytes → Bool) (r : Rules) (st : State) : Msg → Except Err (State × List Out)
  | .hello app s => .ok (if app || r.allowMissingApp then { st with remote := addRemote st.remote s } else st, [])
  | .probeMatches app ss =>
    .ok (if app || r.allowMissingApp then { st with remote := ss.foldl addRemote st.remote } else st, [])
  | .resolveMatches app s =>
    if app || r.allowMissingApp then
      match s with
      | some s => .ok ({ st with remote := addRemote st.remote s }, [])
      | none => .error .attributeError
    else .ok (st, [])
  | .bye epr => .ok ({ st with remote := st.remote.del epr }, [])
  | .probe types scopes =>
    match filterServices chk r types scopes st.local_.values with
    | .error x => .error x
    | .ok l => .ok (st, l.map .probeMatch)
  | .resolve epr =>
    match st.local_.get epr with
    | some s => .ok (st, [.resolveMatch s])
    | none => .ok (st, [])
  | .unknown => .ok (st, [])

/-- a sequence of messages handed to `handle_received_message`; an exception in one handler is caught by the caller
    (`_run_q_read` logs it) and leaves the state as the handler left it — the only raising handler (Probe) changes nothing -/
def run (chk : Bytes → Bool) (r : Rules) (st : State) : List Msg → State
  | [] => st
  | m :: ms =>
    match handle chk r st m with
    | .ok (st', _) => run chk r st' ms
    | .error _ => run chk r st ms

/-! ## datagrams: the duplicate filter of `_run_q_read` in front of the dispatcher -/

structure Node where
  known : List String
  st : State
deriving Repr

/-- one received datagram with message id `mid` carrying `m`: skipped when the id is known, else remembered and dispatched -/
def recvDatagram (chk : Bytes → Bool) (r : Rules) (maxlen : Nat) (n : Node) (mid : String) (m : Msg) :
    Node × Option (Except Err (List Out)) :=
  let (known', dispatch) := UdpRepeat.step maxlen n.known (.recv mid)
  if dispatch then
    match handle chk r n.st m with
    | .ok (st', outs) => (⟨known', st'⟩, some (.ok outs))
    | .error e => (⟨known', n.st⟩, some (.error e))
  else (⟨known', n.st⟩, none)

/-- `add_outbound_message`: the id of an own message (answer, Hello, Probe, …) is registered in the same window -/
def registerOwn (maxlen : Nat) (n : Node) (id : String) : Node :=
  { n with known := (UdpRepeat.step maxlen n.known (.out id)).1 }

/-- what happens at a node, in order: a datagram is read from the queue, or an own message is queued for sending -/
inductive NodeEv
  | dg (mid : String) (m : Msg)
  | own (id : String)
deriving Repr

def nodeStep (chk : Bytes → Bool) (r : Rules) (maxlen : Nat) (n : Node) : NodeEv → Node
  | .dg mid m => (recvDatagram chk r maxlen n mid m).1
  | .own id => registerOwn maxlen n id

def runNode (chk : Bytes → Bool) (r : Rules) (maxlen : Nat) (n : Node) : List NodeEv → Node
  | [] => n
  | e :: es => runNode chk r maxlen (nodeStep chk r maxlen n e) es

end Sdc.Discovery
