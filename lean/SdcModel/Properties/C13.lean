import SdcModel.RequestFlow
import SdcModel.Http
import SdcModel.Proofs.Http
import SdcModel.Generated.Parsers
/-!
# C13 — request handling is total: any input gets a response; no hang, crash or XXE
Property theorems only. Model: `SdcModel/RequestFlow.lean` (exception skeleton of `do_post`/`do_get`/`do_POST`/`do_GET`),
`SdcModel/Http.lean` (body readers); parser construction sites: `Generated/Parsers.lean` (recorded from the running code).
Partial by nature: libxml2, schema validation and the handler bodies are parameters (stage outcomes), not models.
-/
namespace Sdc.C13
open Sdc.RequestFlow

/-! ### the middleware: `MessageConverterMiddleware.do_post` -/

/-- if building the fault reply does not raise, `do_post` returns (status, reason, body) whatever the reader, the
    validator, the dispatcher, the handler and the serialiser of the regular answer do -/
theorem doPost_total_partial {σ : Type} (e : PostEnv σ) (h : e.FaultPathOk) (s : σ) : ∃ r, (doPost e s).1 = .ok r := by
  obtain ⟨⟨u1, h1⟩, ⟨b1, h2⟩, ⟨u2, h3⟩, ⟨u3, h4⟩, ⟨b2, h5⟩⟩ := h
  unfold doPost
  cases hr : e.read1 with
  | error x => simp [h1, h2]
  | ok u =>
    simp only
    cases hd : e.dispatch s with
    | mk res s' =>
      cases res with
      | error x => simp [doPost.replyFor, h3, h4, h5]
      | ok u' =>
        cases hs : e.serResp with
        | ok b => simp
        | error x => simp [doPost.replyFor, h3, h4, h5]

/-- full strength (no hypothesis) is false for `do_post` taken alone: the reply is built outside any `try` -/
def doPost_total_full : Prop := ∀ (σ : Type) (e : PostEnv σ) (s : σ), ∃ r, (doPost e s).1 = .ok r

/-- negative witness: the request is unreadable *and* serialising the fault raises — the exception leaves `do_post`
    (replayed on the implementation by the harness; `do_POST` turns it into a 500, see `doPOST_total`) -/
theorem doPost_total_full_fails : ¬ doPost_total_full := by
  intro h
  obtain ⟨r, hr⟩ := h Unit ⟨.error (.other 1), .ok (), .error (.other 2), fun s => (.ok (), s), .ok 0, .ok (), .ok (), .ok 0⟩ ()
  simp [doPost] at hr

/-- exactly which exceptions can leave `do_post`: only those of the five reply-building calls -/
theorem doPost_escape_only_from_reply {σ : Type} (e : PostEnv σ) (s : σ) (y : Exc) (h : (doPost e s).1 = .error y) :
    e.mkFaultMsg = .error y ∨ e.serFault = .error y ∨ e.read2 = .error y ∨ e.mkReply = .error y ∨ e.serReply = .error y := by
  have hreply : ∀ x, doPost.replyFor e x = .error y →
      e.read2 = .error y ∨ e.mkReply = .error y ∨ e.serReply = .error y := by
    intro x hx
    unfold doPost.replyFor at hx
    cases h3 : e.read2 with
    | error z => simp [h3] at hx; exact Or.inl (by rw [hx])
    | ok u =>
      cases h4 : e.mkReply with
      | error z => simp [h3, h4] at hx; exact Or.inr (Or.inl (by rw [hx]))
      | ok u' =>
        cases h5 : e.serReply with
        | error z => simp [h3, h4, h5] at hx; exact Or.inr (Or.inr (by rw [hx]))
        | ok b => simp [h3, h4, h5] at hx
  unfold doPost at h
  cases hr : e.read1 with
  | error x =>
    simp only [hr] at h
    cases h1 : e.mkFaultMsg with
    | error z => simp [h1] at h; exact Or.inl (by rw [h])
    | ok u =>
      cases h2 : e.serFault with
      | error z => simp [h1, h2] at h; exact Or.inr (Or.inl (by rw [h]))
      | ok b => simp [h1, h2] at h
  | ok u =>
    simp only [hr] at h
    cases hd : e.dispatch s with
    | mk res s' =>
      simp only [hd] at h
      cases res with
      | error x => exact Or.inr (Or.inr (hreply x h))
      | ok u' =>
        simp only at h
        cases hs : e.serResp with
        | ok b => simp [hs] at h
        | error x => simp only [hs] at h; exact Or.inr (Or.inr (hreply x h))

/-- a request that is rejected before dispatch (not well-formed, not schema-valid, …) never reaches a handler:
    MDIB and subscription table are what they were -/
theorem rejected_noop {σ : Type} (e : PostEnv σ) (s : σ) (x : Exc) (h : e.read1 = .error x) : (doPost e s).2 = s := by
  simp [doPost, h]

/-- … and it is answered with the status / reason of the rejection and a fault body, never with a regular response -/
theorem rejected_answer {σ : Type} (e : PostEnv σ) (s : σ) (x : Exc) (r : Response) (h : e.read1 = .error x)
    (hr : (doPost e s).1 = .ok r) : r.status = (statusOf x).1 ∧ r.reason = (statusOf x).2 ∧ ∃ b, r.body = .fault b := by
  unfold doPost at hr
  simp only [h] at hr
  cases h1 : e.mkFaultMsg with
  | error z => simp [h1] at hr
  | ok u =>
    cases h2 : e.serFault with
    | error z => simp [h1, h2] at hr
    | ok b => simp [h1, h2] at hr; subst hr; exact ⟨rfl, rfl, b, rfl⟩

/-- a regular response (200 / 'Ok' / the dispatcher's answer) is given only if every stage succeeded -/
theorem response_only_if_all_ok {σ : Type} (e : PostEnv σ) (s : σ) (r : Response) (b : Nat)
    (hr : (doPost e s).1 = .ok r) (hb : r.body = .response b) :
    r.status = 200 ∧ r.reason = .ok ∧ (∃ u, e.read1 = .ok u) ∧ (∃ u, (e.dispatch s).1 = .ok u) ∧ e.serResp = .ok b := by
  have hreply : ∀ x, doPost.replyFor e x = .ok r → False := by
    intro x hx
    unfold doPost.replyFor at hx
    cases h3 : e.read2 with
    | error z => simp [h3] at hx
    | ok u =>
      cases h4 : e.mkReply with
      | error z => simp [h3, h4] at hx
      | ok u' =>
        cases h5 : e.serReply with
        | error z => simp [h3, h4, h5] at hx
        | ok b' => simp [h3, h4, h5] at hx; subst hx; simp at hb
  unfold doPost at hr
  cases h0 : e.read1 with
  | error x =>
    simp only [h0] at hr
    cases h1 : e.mkFaultMsg with
    | error z => simp [h1] at hr
    | ok u =>
      cases h2 : e.serFault with
      | error z => simp [h1, h2] at hr
      | ok b' => simp [h1, h2] at hr; subst hr; simp at hb
  | ok u =>
    simp only [h0] at hr
    cases hd : e.dispatch s with
    | mk res s' =>
      simp only [hd] at hr
      cases res with
      | error x => exact absurd (hreply x hr) id
      | ok u' =>
        simp only at hr
        cases hs : e.serResp with
        | error x => simp only [hs] at hr; exact absurd (hreply x hr) id
        | ok b' =>
          simp only [hs] at hr
          injection hr with hr; subst hr
          simp at hb; subst hb
          exact ⟨rfl, rfl, ⟨u, rfl⟩, ⟨u', rfl⟩, rfl⟩

/-! ### the HTTP handler: `DispatchingRequestHandler.do_POST / do_GET` -/

/-- `do_POST` always answers: no exception class of any stage — body reader, path lookup, `do_post` itself (including
    the escapes of `doPost_total_full_fails`) — reaches the server loop. No hypothesis. -/
theorem doPOST_total {σ : Type} (e : HandlerEnv σ) (s : σ) : ∃ o, (doPOST e s).1 = .ok o := by
  unfold doPOST
  cases e.readBody with
  | error x => exact ⟨_, rfl⟩
  | ok u =>
    simp only
    cases e.hasDispatcher with
    | false => exact ⟨_, rfl⟩
    | true =>
      simp only [Bool.not_true, Bool.false_eq_true, if_false]
      cases e.lookup with
      | error x => cases x <;> exact ⟨_, rfl⟩
      | ok u' =>
        simp only
        cases e.post s with
        | mk res s' => cases res <;> exact ⟨_, rfl⟩

theorem doGET_total {σ : Type} (e : HandlerEnv σ) : ∃ o, doGET e = .ok o := by
  unfold doGET
  cases e.hasDispatcher with
  | false => exact ⟨_, rfl⟩
  | true =>
    simp only [Bool.not_true, Bool.false_eq_true, if_false]
    cases e.lookup with
    | error x => cases x <;> exact ⟨_, rfl⟩
    | ok u => simp only; cases e.get <;> exact ⟨_, rfl⟩

/-- middleware and handler composed: every outcome of every stage ends in an HTTP answer -/
theorem request_total {σ : Type} (readBody : Stage Unit) (hasDisp : Bool) (lookup : Stage Unit) (p : PostEnv σ) (g : GetEnv) (s : σ) :
    (∃ o, (doPOST ⟨readBody, hasDisp, lookup, doPost p, doGet g⟩ s).1 = .ok o) ∧
    (∃ o, doGET (σ := σ) ⟨readBody, hasDisp, lookup, doPost p, doGet g⟩ = .ok o) :=
  ⟨doPOST_total _ s, doGET_total _⟩

/-- a request rejected by the handler (unreadable body, no dispatcher, unknown path) changes nothing -/
theorem rejected_noop_handler {σ : Type} (e : HandlerEnv σ) (s : σ)
    (h : (∃ x, e.readBody = .error x) ∨ e.hasDispatcher = false ∨ (∃ x, e.lookup = .error x)) : (doPOST e s).2 = s := by
  unfold doPOST
  cases hb : e.readBody with
  | error x => rfl
  | ok u =>
    simp only
    cases hd : e.hasDispatcher with
    | false => rfl
    | true =>
      simp only [Bool.not_true, Bool.false_eq_true, if_false]
      cases hl : e.lookup with
      | error x => cases x <;> rfl
      | ok u' =>
        rcases h with ⟨x, hx⟩ | hx | ⟨x, hx⟩
        · rw [hb] at hx; cases hx
        · rw [hd] at hx; cases hx
        · rw [hl] at hx; cases hx

/-- a request with unreadable framing ends the connection: it is answered 400, nothing that follows on the connection is
    executed and the state is untouched — whatever bytes (e.g. a complete valid Subscribe request) come behind it -/
theorem framing_error_ends_connection {σ : Type} (e : HandlerEnv σ) (rest : List (HandlerEnv σ)) (s : σ) (x : Exc)
    (h : e.readBody = .error x) : serveConn (e :: rest) s = ([.plain 400 .exception], s) := by
  simp [serveConn, doPOST, h]

/-- on a connection every request up to the first unreadable one is answered -/
theorem serveConn_answers_first {σ : Type} (e : HandlerEnv σ) (rest : List (HandlerEnv σ)) (s : σ) :
    ∃ o os, (serveConn (e :: rest) s).1 = o :: os := by
  obtain ⟨o, ho⟩ := doPOST_total e s
  simp only [serveConn]
  cases hd : doPOST e s with
  | mk res s' =>
    rw [hd] at ho
    simp only at ho
    subst ho
    simp only
    cases e.readBody with
    | error x => exact ⟨_, _, rfl⟩
    | ok u =>
      simp only
      split <;> exact ⟨_, _, rfl⟩

/-- the component is only called when body, dispatcher and path were fine; its answer is passed on unchanged -/
theorem soap_answer_is_components {σ : Type} (e : HandlerEnv σ) (s : σ) (r : Response) (h : (doPOST e s).1 = .ok (.soap r)) :
    (e.post s).1 = .ok r := by
  unfold doPOST at h
  cases hb : e.readBody with
  | error x => simp [hb] at h
  | ok u =>
    simp only [hb] at h
    cases hd : e.hasDispatcher with
    | false => simp [hd] at h
    | true =>
      simp only [hd, Bool.not_true, Bool.false_eq_true, if_false] at h
      cases hl : e.lookup with
      | error x => cases x <;> simp [hl] at h
      | ok u' =>
        simp only [hl] at h
        cases hp : e.post s with
        | mk res s' =>
          simp only [hp] at h
          cases res with
          | error x => simp at h
          | ok r' => simp at h; rw [h]

/-- `do_get` of the middleware answers unless `urlparse(path)` raises (then `do_GET` answers 500, `doGET_total`) -/
theorem doGet_total (e : GetEnv) (u : Unit) (h : e.parse = .ok u) : ∃ o, doGet e = .ok o := by
  unfold doGet; rw [h]; cases e.handle <;> exact ⟨_, rfl⟩

/-! ### deferred dispatch of the consumer endpoint: the worker survives every handler exception -/

/-- the worker thread never leaves its loop, whatever the handlers raise and in whatever order requests arrive -/
theorem worker_survives (cap : Nat) (s : DState) (ops : List DOp) (h : s.alive = true) : (drun cap s ops).alive = true := by
  induction ops generalizing s with
  | nil => exact h
  | cons op ops ih =>
    apply ih
    cases op with
    | post it => simp only [dstep]; split <;> exact h
    | work =>
      simp only [dstep, h, if_true]
      cases s.queue <;> simp [h]

/-- every queued request is handed to its handler, in order, whatever earlier handlers raised:
    after as many worker passes as there are queued items the queue is empty and all of them were handled -/
theorem every_item_handled (cap : Nat) (s : DState) (h : s.alive = true) :
    drun cap s (List.replicate s.queue.length .work) = ⟨[], s.handled ++ s.queue.map (·.id), true⟩ := by
  obtain ⟨q, hd, al⟩ := s
  simp only at h
  subst h
  induction q generalizing hd with
  | nil => simp [drun]
  | cons it r ih =>
    simp only [List.length_cons, List.replicate_succ, drun, dstep, if_true]
    rw [ih]
    simp

/-- `on_post` can only block on a full queue, and a living worker frees a slot with its next pass: no deadlock -/
theorem full_queue_drains (cap : Nat) (hc : 0 < cap) (s : DState) (it : Item) (h : s.alive = true)
    (hinv : s.queue.length ≤ cap) (hb : (dstep cap s (.post it)).2 = true) : (dstep cap (dstep cap s .work).1 (.post it)).2 = false := by
  simp only [dstep] at hb ⊢
  split at hb
  · cases hb
  · rename_i hfull
    simp only [h, if_true]
    cases hq : s.queue with
    | nil => rw [hq] at hfull; simp at hfull; omega
    | cons x r =>
      simp only
      have : r.length < cap := by rw [hq] at hinv; simp at hinv; omega
      simp [this]

/-- a request whose handler raises is answered like any other (the answer was given before the handler ran) and does not
    change what happens to the requests behind it -/
theorem failing_handler_is_local (cap : Nat) (s : DState) (a b : Item) (x : Exc) (h : s.alive = true) (hq : s.queue = []) (hc : 2 ≤ cap) :
    (drun cap s [.post ⟨a.id, .error x⟩, .post b, .work, .work]).handled = s.handled ++ [a.id, b.id] := by
  obtain ⟨q, hd, al⟩ := s
  simp only at h hq
  subst h hq
  have h1 : (0 : Nat) < cap := by omega
  have h2 : (1 : Nat) < cap := by omega
  simp [drun, dstep, h1, h2]

/-! ### delayed operations: a full operation queue is answered, not waited for -/

/-- every request of a burst gets an answer, however many arrive while the handler of an earlier one is still running -/
theorem burst_all_answered (cap queued n : Nat) : (opBurst cap queued n).length = n := by
  induction n generalizing queued with
  | zero => rfl
  | succ n ih => simp [opBurst, ih]

/-- … Wait while there is room, Fail from then on; the queue never grows beyond its capacity -/
theorem burst_answers (cap queued n : Nat) (h : queued ≤ cap) :
    opBurst cap queued n = List.replicate (min n (cap - queued)) .wait ++ List.replicate (n - (cap - queued)) .failed := by
  induction n generalizing queued with
  | zero => simp [opBurst]
  | succ n ih =>
    simp only [opBurst, handleOperationRequest]
    by_cases hq : queued < cap
    · simp only [hq, if_true]
      rw [ih (queued + 1) (by omega)]
      have h1 : min (n + 1) (cap - queued) = min n (cap - (queued + 1)) + 1 := by omega
      have h2 : n + 1 - (cap - queued) = n - (cap - (queued + 1)) := by omega
      rw [h1, h2, List.replicate_succ, List.cons_append]
    · simp only [hq, if_false]
      rw [ih queued h]
      have h0 : cap - queued = 0 := by omega
      simp [h0, List.replicate_succ]

/-! ### the readers terminate (C17 model) -/

/-- the chunked reader returns a body or DechunkError for every byte string; the loop bound is never hit -/
theorem reader_dechunk_total (w : Nat) (s : Http.Bytes) :
    (∃ body rest, Http.dechunk w s = .ok (body, rest)) ∨ Http.dechunk w s = .error .dechunk := by
  unfold Http.dechunk
  cases h : Http.dechunkF w (s.length + 1) s with
  | ok r => exact Or.inl ⟨r.1, r.2, rfl⟩
  | error e =>
    rcases Http.dechunkF_err _ _ _ _ h with he | he
    · subst he; exact Or.inr rfl
    · subst he; exact absurd h (Http.dechunkF_no_fuel w _ s (by omega))

/-- whatever `read_request_body` makes of headers and bytes — a body or one of its exception classes — the handler answers -/
theorem any_body_answered {σ : Type} (w : Nat) (r : Http.Registry) (sup : List Http.Str) (h : Http.Hdrs) (wire : Http.Bytes)
    (classify : Http.Err → Exc) (hasDisp : Bool) (lookup : Stage Unit) (post : σ → Stage Response × σ) (s : σ) :
    ∃ o, (doPOST ⟨(match Http.readRequestBody w r sup h wire with | .ok _ => .ok () | .error e => .error (classify e)),
                   hasDisp, lookup, post, .ok .error⟩ s).1 = .ok o :=
  doPOST_total _ s

/-! ### entity policy (generated table) -/

/-- every parser construction site that was observed parsing peer data has entity resolution, network access and DTD
    loading switched off; no site at all may access the network; at least the request reader is in the table -/
theorem entity_policy :
    (∀ p ∈ Generated.Parsers.sites, p.network = true → p.safe = true) ∧
    (∀ p ∈ Generated.Parsers.sites, p.noNetwork = true) ∧
    (∃ p ∈ Generated.Parsers.sites, p.network = true ∧ p.site = "sdc11073.pysoap.msgreader:read_received_message") := by
  decide

/-! ### non-vacuity -/

/-- an environment satisfying `FaultPathOk` in which the request is rejected by validation -/
example : (doPost (σ := Nat) ⟨.error (.http 400 7), .ok (), .ok 3, fun n => (.ok (), n + 1), .ok 0, .ok (), .ok (), .ok 0⟩ 5)
    = (.ok ⟨400, .ofExc 7, .fault 3⟩, 5) := by decide

/-- handler raises a generic exception after it changed the state: 500 with a reply built from the request -/
example : (doPost (σ := Nat) ⟨.ok (), .ok (), .ok 3, fun n => (.error (.other 9), n + 1), .ok 0, .ok (), .ok (), .ok 4⟩ 5)
    = (.ok ⟨500, .exception, .reply 4⟩, 6) := by decide

/-- truncated chunked body: the reader raises, the handler answers 400 and the state is untouched -/
example : Http.dechunk 16 [53, 13, 10, 97, 98] = .error .dechunk ∧
    (doPOST (σ := Nat) ⟨.error (.other 1), true, .ok (), fun n => (.ok ⟨200, .ok, .response 0⟩, n + 1), .ok .error⟩ 5)
      = (.ok (.plain 400 .exception), 5) := by decide

/-- the history of seeded defect class "worker dies": handler of request 1 raises, request 2 is still handled -/
example : (drun 1000 ⟨[], [], true⟩ [.post ⟨1, .error (.other 7)⟩, .post ⟨2, .ok ()⟩, .work, .work]).handled = [1, 2] := by decide

end Sdc.C13
