import SdcModel.Http
import SdcModel.Generated.Codings
namespace Sdc.C17
open Sdc.Http

example : dechunk 16 (mkChunks 3 [104, 101, 108, 108, 111]) = .ok ([104, 101, 108, 108, 111], []) := by decide

end Sdc.C17
