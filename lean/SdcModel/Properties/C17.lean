import SdcModel.Http
import SdcModel.RequestFlow
import SdcModel.Proofs.Http
import SdcModel.Generated.Codings
/-!
# C17 — HTTP body framing and content coding are lossless and honour negotiation
Property theorems only. Model: `SdcModel/Http.lean` (+ `Basic/ChunkHex.lean`); registry and reader window:
`Generated/Codings.lean` (regenerated from `CompressionHandler` / `HTTPReader._read_until` on every run).
-/
namespace Sdc.C17
open Sdc.Http Sdc.ChunkHex

/-! ### chunked framing -/

/-- the reader returns exactly the body the writer framed — for every byte string, every chunk size the reader's
    `w`-byte size-line window can hold (`w = 16`: `1 ≤ n < 16^14 = 2^56`), and any pipelined data behind the body -/
theorem dechunk_mkChunks (w n : Nat) (hn : 1 ≤ n) (hw : 2 ≤ w) (hn' : n < 16 ^ (w - 2)) (body tail : Bytes) :
    dechunk w (mkChunks n body ++ tail) = .ok (body, tail) := by
  unfold dechunk mkChunks
  apply dechunkF_mono w (body.length + 1)
  · exact dechunkF_mkChunksF w n hn hw hn' _ body tail (by omega)
  · have := mkChunksF_length_ge n (body.length + 1) body (by omega) hn
    simp only [List.length_append]; omega

/-- the same for the window the running code uses -/
theorem dechunk_mkChunks_generated (n : Nat) (hn : 1 ≤ n) (hn' : n < 16 ^ 14) (body : Bytes) :
    dechunk Generated.Codings.headerWindow (mkChunks n body) = .ok (body, []) := by
  have := dechunk_mkChunks Generated.Codings.headerWindow n hn (by decide)
    (by have : Generated.Codings.headerWindow - 2 = 14 := by decide
        rw [this]; exact hn') body []
  simpa using this

/-- the bound is sharp: a chunk of `16^14` bytes gets a 15 digit size line, which the 16 byte window cannot hold -/
theorem window_bound_sharp : (toHexBytes (16 ^ 14)).length + 2 > Generated.Codings.headerWindow := by decide

/-- what `mk_chunks` writes is an RFC 7230 chunked-body, for every body and every chunk size ≥ 1 -/
theorem mkChunks_wellformed (n : Nat) (hn : 1 ≤ n) (body : Bytes) : isChunkedBody (mkChunks n body) = true := by
  unfold isChunkedBody mkChunks
  apply isChunkedF_mono (body.length + 1)
  · exact isChunkedF_mkChunksF n hn _ body (by omega)
  · have := mkChunksF_length_ge n (body.length + 1) body (by omega) hn
    omega

/-- totality of the reader: every byte string gives a body or `DechunkError`; the loop bound (stream length + 1
    passes) is never the reason, i.e. the loop terminates because every pass consumes input -/
theorem dechunk_total (w : Nat) (s : Bytes) :
    (∃ body rest, dechunk w s = .ok (body, rest)) ∨ dechunk w s = .error .dechunk := by
  unfold dechunk
  cases h : dechunkF w (s.length + 1) s with
  | ok r => exact Or.inl ⟨r.1, r.2, rfl⟩
  | error e =>
    rcases dechunkF_err _ _ _ _ h with he | he
    · subst he; exact Or.inr rfl
    · subst he; exact absurd h (dechunkF_no_fuel w _ s (by omega))

/-- a successful read never needs more passes than the stream is long: any larger bound gives the same result -/
theorem dechunk_bound_irrelevant (w g : Nat) (s : Bytes) (hg : s.length + 1 ≤ g) (r : Bytes × Bytes)
    (h : dechunk w s = .ok r) : dechunkF w g s = .ok r :=
  dechunkF_mono w _ g s r h hg

/-- the unread rest is a proper suffix: a successful read consumed at least the terminating chunk -/
theorem dechunk_consumes (w : Nat) (s body rest : Bytes) (h : dechunk w s = .ok (body, rest)) : rest.length < s.length := by
  unfold dechunk at h
  generalize s.length + 1 = f at h
  induction f generalizing s body rest with
  | zero => simp [dechunkF] at h
  | succ f ih =>
    simp only [dechunkF] at h
    split at h
    · cases h
    · rename_i dat r last hrc
      have hc := readChunk_consumes _ _ _ _ _ hrc
      split at h
      · injection h with h; injection h with _ h2; subst h2; exact hc
      · split at h
        · rename_i more r' hrec
          injection h with h; injection h with _ h2; subst h2
          have := ih r more r' hrec
          omega
        · cases h

/-! ### negotiation -/

/-- a coding is chosen only if it is enabled locally and the header declares it with a weight > 0
    (weight = explicit q-value of the last element naming the coding, 1 if it has none) -/
theorem choice_sound (h : Str) (sup : List Str) (c : Str) (hc : choose (parseHeader h) sup = some c) :
    c ∈ sup ∧ ∃ q, weightOf h c = some q ∧ q.pos = true := by
  unfold choose at hc
  have hm := List.mem_of_find?_eq_some hc
  have hp := List.find?_some hc
  exact ⟨by simpa using hp, mem_parseHeader h c hm⟩

/-- a coding declared with `q=0` (or any non-positive weight) is never chosen, whatever else the header says -/
theorem q0_never_chosen (h : Str) (sup : List Str) (c : Str) (q : Q) (hq : weightOf h c = some q) (h0 : q.pos = false) :
    choose (parseHeader h) sup ≠ some c := by
  intro hc
  obtain ⟨_, q', hq', hpos⟩ := choice_sound h sup c hc
  rw [hq] at hq'
  injection hq' with hq'
  subst hq'
  rw [h0] at hpos
  cases hpos

/-- no header, or an empty one: nothing is chosen, the message goes out uncoded -/
theorem no_header_no_coding (sup : List Str) : choose (parseHeader []) sup = none := by
  simp [parseHeader, headerDict, elements, sortDesc, choose]

/-- request path and response path choose with the same function: what is sent carries a Content-Encoding only if
    that coding is a candidate (declared by the peer) and enabled locally -/
theorem sent_coding_negotiated (r : Registry) (cands sup : List Str) (chunk : Nat) (body : Bytes) (h : Hdrs) (wire : Bytes)
    (c : Str) (he : encodeMessage r cands sup chunk body = .ok (h, wire)) (hc : h.contentEncoding = some c) :
    c ∈ cands ∧ c ∈ sup := by
  obtain ⟨z, _, hz⟩ := encodeMessage_ok r cands sup chunk body h wire he
  rcases hz with ⟨h1, _, _⟩ | ⟨c', codec, h1, h2, _, _⟩
  · rw [h1] at hc; cases hc
  · rw [h1] at hc; injection hc with hc; subst hc
    unfold choose at h2
    exact ⟨List.mem_of_find?_eq_some h2, by simpa using List.find?_some h2⟩

/-- response path: `do_POST` codes the response only with a coding the request's Accept-Encoding declares with q > 0 -/
theorem response_coding_declared (r : Registry) (sup : List Str) (chunk : Nat) (ae : Option Str) (body : Bytes) (h : Hdrs)
    (wire : Bytes) (c : Str) (he : respond r sup chunk ae body = .ok (h, wire)) (hc : h.contentEncoding = some c) :
    c ∈ sup ∧ ∃ q, weightOf (ae.getD []) c = some q ∧ q.pos = true := by
  have := sent_coding_negotiated r _ sup chunk body h wire c he hc
  exact ⟨this.2, mem_parseHeader _ c this.1⟩

/-- histories with configuration changes (`set_used_compression` after start): every response is coded only with a coding
    that is enabled *at that time* and that the header of *that* request declares with a weight > 0 -/
theorem history_choice_sound (cfg : List Str) (ops : List CfgOp) :
    ∀ e ∈ cfgRun cfg ops, ∀ c, e.2.2 = some c → c ∈ e.1 ∧ ∃ q, weightOf (e.2.1.getD []) c = some q ∧ q.pos = true := by
  induction ops generalizing cfg with
  | nil => intro e he; cases he
  | cons op ops ih =>
    cases op with
    | setUsed ns => exact ih ns
    | request ae =>
      intro e he c hc
      simp only [cfgRun, List.mem_cons] at he
      rcases he with he | he
      · subst he; exact choice_sound _ _ c hc
      · exact ih cfg e he c hc

/-- a changed configuration takes effect with the next response: what was enabled before does not matter -/
theorem config_change_effective (cfg ns : List Str) (ops : List CfgOp) : cfgRun cfg (.setUsed ns :: ops) = cfgRun ns ops := rfl

/-- compression switched off: no response is coded until it is switched on again -/
theorem disabled_never_coded (cfg : List Str) (aes : List (Option Str)) :
    ∀ e ∈ cfgRun cfg (.setUsed [] :: aes.map .request), e.2.2 = none := by
  have h : ∀ aes : List (Option Str), ∀ e ∈ cfgRun [] (aes.map .request), e.2.2 = none := by
    intro aes
    induction aes with
    | nil => intro e he; cases he
    | cons a r ih =>
      intro e he
      simp only [List.map_cons, cfgRun, List.mem_cons] at he
      rcases he with he | he
      · subst he; simp [choose]
      · exact ih e he
  exact h aes

/-- notification direction: a report / SubscriptionEnd is coded only with a coding that the subscriber's Subscribe request
    declared with a weight > 0 and that the provider has enabled -/
theorem notification_coding_declared (r : Registry) (enabled : List Str) (chunk : Nat) (ae : Option Str) (report : Bytes) (h : Hdrs)
    (wire : Bytes) (c : Str) (he : notify r enabled chunk ae report = .ok (h, wire)) (hc : h.contentEncoding = some c) :
    c ∈ enabled ∧ ∃ q, weightOf (ae.getD []) c = some q ∧ q.pos = true := by
  unfold notify sendRequest at he
  cases hm : encodeMessage r (parseHeader (ae.getD [])) enabled chunk report with
  | error e => simp [hm] at he
  | ok p =>
    obtain ⟨h0, w0⟩ := p
    simp only [hm] at he
    injection he with he; injection he with hh _
    have hce : h0.contentEncoding = some c := by subst hh; exact hc
    have := sent_coding_negotiated r _ enabled chunk report h0 w0 c hm hce
    exact ⟨this.2, mem_parseHeader _ c this.1⟩

/-- what is sent never carries Content-Length together with Transfer-Encoding (RFC 7230 3.3.2), and exactly one of them -/
theorem framing_exclusive (r : Registry) (cands sup : List Str) (chunk : Nat) (body : Bytes) (h : Hdrs) (wire : Bytes)
    (he : encodeMessage r cands sup chunk body = .ok (h, wire)) :
    (h.transferEncoding = some chunkedStr ∧ h.contentLength = none) ∨
    (h.transferEncoding = none ∧ h.contentLength = some (.val wire.length)) := by
  obtain ⟨z, hfr, _⟩ := encodeMessage_ok r cands sup chunk body h wire he
  by_cases hc : chunk > 0
  · simp only [hc, if_true] at hfr; exact Or.inl ⟨hfr.1, hfr.2.1⟩
  · simp only [hc, if_false] at hfr
    obtain ⟨h1, h2, h3⟩ := hfr
    subst h3; exact Or.inr ⟨h1, h2⟩

/-! ### framing on a persistent connection: the peer reads exactly the message -/

/-- how the reader's exception classes look to the request handler (none of them is a HTTPRequestHandlingError) -/
def readerExc : Err → RequestFlow.Exc
  | .dechunk => .other 1 | .decompress => .other 2 | .compression => .other 3 | .codec => .other 4
  | .value => .other 5 | .type => .other 6 | .fuel => .other 7

/-- outcome of `self._read_request()` for the bytes at the head of the connection -/
def readStage (w : Nat) (r : Registry) (sup : List Str) (h : Hdrs) (wire : Bytes) : RequestFlow.Stage Unit :=
  match readRequestBody w r sup h wire with
  | .ok _ => .ok ()
  | .error e => .error (readerExc e)

/-- whatever makes `read_request_body` raise — broken chunk framing, an invalid / negative / empty Content-Length (raised before a
    single body byte is consumed), a coding that is not enabled or corrupt, a coded body without length — the request is answered
    400 and the connection ends: no byte behind the unreadable message is interpreted as a further request, nothing is executed -/
theorem unreadable_message_ends_connection {σ : Type} (w : Nat) (r : Registry) (sup : List Str) (h : Hdrs) (wire : Bytes) (e : Err)
    (hr : readRequestBody w r sup h wire = .error e) (hasDisp : Bool) (lookup : RequestFlow.Stage Unit)
    (post : σ → RequestFlow.Stage RequestFlow.Response × σ) (rest : List (RequestFlow.HandlerEnv σ)) (s : σ) :
    RequestFlow.serveConn (⟨readStage w r sup h wire, hasDisp, lookup, post, .ok .error⟩ :: rest) s
      = ([.plain 400 .exception], s) := by
  simp [RequestFlow.serveConn, RequestFlow.doPOST, readStage, hr]

/-- the framing errors that are raised before the body is touched (the body bytes are still in the stream) -/
theorem bad_length_is_unreadable (w : Nat) (r : Registry) (sup : List Str) (h : Hdrs) (wire : Bytes) (hc : h.isChunked = false)
    (hl : h.contentLength = some .empty ∨ h.contentLength = some .bad ∨ ∃ n, h.contentLength = some (.val n) ∧ n < 0) :
    readRequestBody w r sup h wire = .error .value := by
  rcases hl with hl | hl | ⟨n, hl, hn⟩
  · simp [readRequestBody, hc, hl]
  · simp [readRequestBody, hc, hl]
  · simp [readRequestBody, hc, hl, hn]

/-- both framing headers present: Transfer-Encoding wins (RFC 7230 3.3.3) — the Content-Length value has no influence on what is
    read, so no part of the chunked message can be left in the stream as a "next request" -/
theorem both_headers_chunked_wins (w : Nat) (r : Registry) (sup : List Str) (h : Hdrs) (wire : Bytes) (cl : Option ClVal)
    (hc : h.isChunked = true) :
    readRequestBody w r sup { h with contentLength := cl } wire = readRequestBody w r sup h wire := by
  have hc' : ({ h with contentLength := cl } : Hdrs).isChunked = true := by simpa [Hdrs.isChunked] using hc
  simp only [readRequestBody, hc, hc', if_true]
  cases dechunk w wire with
  | error e => rfl
  | ok p => simp [decodeBody]

/-- a readable message followed by further requests: the connection goes on (keep-alive is not lost by the repair) -/
theorem readable_message_keeps_connection {σ : Type} (lookup : RequestFlow.Stage Unit) (post : σ → RequestFlow.Stage RequestFlow.Response × σ)
    (rest : List (RequestFlow.HandlerEnv σ)) (s : σ) :
    ∃ o, (RequestFlow.serveConn (⟨.ok (), true, lookup, post, .ok .error⟩ :: rest) s).1
      = o :: (RequestFlow.serveConn rest (RequestFlow.doPOST ⟨.ok (), true, lookup, post, .ok .error⟩ s).2).1 := by
  simp only [RequestFlow.serveConn]
  cases hd : RequestFlow.doPOST (σ := σ) ⟨.ok (), true, lookup, post, .ok .error⟩ s with
  | mk res s' =>
    cases res with
    | error x =>
      have := RequestFlow.doPOST (σ := σ) ⟨.ok (), true, lookup, post, .ok .error⟩ s
      simp [RequestFlow.doPOST] at hd
      cases lookup with
      | error y => cases y <;> simp at hd
      | ok u =>
        simp at hd
        cases hp : post s with
        | mk pr ps => rw [hp] at hd; cases pr <;> simp at hd
    | ok o => exact ⟨o, by simp⟩

/-! ### content coding -/

/-- **request path**: what `SoapClient._send_soap_request` puts on the wire is read back by
    `HTTPReader.read_request_body` as the original bytes — every body, every chunk size in the reader's window (or no
    chunking), every coding choice, provided the receiver has the chosen coding enabled -/
theorem request_roundtrip (w : Nat) (hw : 2 ≤ w) (r : Registry) (hl : CodecsLossless r) (hne : NamesNonEmpty r)
    (supS requestEncs supR : List Str) (chunk : Nat) (hchunk : chunk < 16 ^ (w - 2)) (xml : Bytes) (h : Hdrs) (wire : Bytes)
    (hs : sendRequest r supS requestEncs chunk xml = .ok (h, wire))
    (hacc : ∀ c, h.contentEncoding = some c → (r.effective supR).contains c = true) :
    readRequestBody w r supR h wire = .ok (some xml) := by
  unfold sendRequest at hs
  cases he : encodeMessage r requestEncs supS chunk xml with
  | error e => simp [he] at hs
  | ok p =>
    obtain ⟨h0, wire0⟩ := p
    simp only [he] at hs
    injection hs with hs; injection hs with hh hwire
    subst hwire
    obtain ⟨z, hfr, hz⟩ := encodeMessage_ok r requestEncs supS chunk xml h0 wire0 he
    have hce : h.contentEncoding = h0.contentEncoding := by subst hh; rfl
    have hte : h.transferEncoding = h0.transferEncoding := by subst hh; rfl
    have hcl : h.contentLength = h0.contentLength := by subst hh; rfl
    have hz' : (h0.contentEncoding = none ∧ z = xml) ∨
        ∃ c codec, h0.contentEncoding = some c ∧ r.getHandler c = .ok codec ∧ z = codec.enc xml := by
      rcases hz with ⟨a, b, _⟩ | ⟨c, codec, a, _, b, d⟩
      · exact Or.inl ⟨a, b⟩
      · exact Or.inr ⟨c, codec, a, b, d⟩
    have hdec0 := decode_encoded r hl hne requestEncs supS supR chunk xml h0 wire0 he (by rw [← hce]; exact hacc) z hz'
    have hdec : decodeBody r supR h (some z) = .ok (some xml) := by
      unfold decodeBody at hdec0 ⊢; rw [hce]; exact hdec0
    unfold readRequestBody Hdrs.isChunked
    by_cases hc : chunk > 0
    · simp only [hc, if_true] at hfr
      obtain ⟨h1, _, h3⟩ := hfr
      rw [hte, h1]
      simp only [chunked_isChunked, if_true]
      subst h3
      have := C17.dechunk_mkChunks w chunk (by omega) hw hchunk z []
      simp only [List.append_nil] at this
      rw [this]
      exact hdec
    · simp only [hc, if_false] at hfr
      obtain ⟨h1, h2, h3⟩ := hfr
      rw [hte, h1, hcl, h2]
      subst h3
      simp only [Bool.false_eq_true, if_false, pyRead_all]
      exact hdec

/-- **response path**: what `do_POST` writes, passed through the chunked reader of the HTTP client, is decoded by
    `HTTPReader.read_response_body` to the bytes the component returned -/
theorem response_roundtrip (w : Nat) (hw : 2 ≤ w) (r : Registry) (hl : CodecsLossless r) (hne : NamesNonEmpty r)
    (supS supC : List Str) (chunk : Nat) (hchunk : chunk < 16 ^ (w - 2)) (ae : Option Str) (body : Bytes) (h : Hdrs)
    (wire : Bytes) (hs : respond r supS chunk ae body = .ok (h, wire))
    (hacc : ∀ c, h.contentEncoding = some c → (r.effective supC).contains c = true) :
    ∃ payload, clientTransport w h wire = .ok payload ∧ readResponseBody r supC h payload = .ok (some body) := by
  unfold respond at hs
  obtain ⟨z, hfr, hz⟩ := encodeMessage_ok r _ supS chunk body h wire hs
  have hz' : (h.contentEncoding = none ∧ z = body) ∨
      ∃ c codec, h.contentEncoding = some c ∧ r.getHandler c = .ok codec ∧ z = codec.enc body := by
    rcases hz with ⟨a, b, _⟩ | ⟨c, codec, a, _, b, d⟩
    · exact Or.inl ⟨a, b⟩
    · exact Or.inr ⟨c, codec, a, b, d⟩
  have hdec := decode_encoded r hl hne _ supS supC chunk body h wire hs hacc z hz'
  refine ⟨z, ?_, ?_⟩
  · unfold clientTransport Hdrs.isChunked
    by_cases hc : chunk > 0
    · simp only [hc, if_true] at hfr
      obtain ⟨h1, _, h3⟩ := hfr
      rw [h1]; subst h3
      have := C17.dechunk_mkChunks w chunk (by omega) hw hchunk z []
      simp only [List.append_nil] at this
      simp [chunked_isChunked, this]
    · simp only [hc, if_false] at hfr
      obtain ⟨h1, _, h3⟩ := hfr
      rw [h1]; subst h3; simp
  · unfold readResponseBody
    by_cases hc : chunk > 0
    · simp only [hc, if_true] at hfr
      rw [hfr.2.1]; exact hdec
    · simp only [hc, if_false] at hfr
      rw [hfr.2.1]
      simp only [pyRead_all]; exact hdec

/-- a body that arrives with a Content-Encoding is only ever returned as the output of the registered decoder of
    exactly that coding, and only if the coding is enabled — nothing else can come out (no misinterpretation) -/
theorem decoded_only_by_declared (w : Nat) (r : Registry) (sup : List Str) (h : Hdrs) (wire : Bytes) (b : Option Bytes)
    (enc : Str) (hr : readRequestBody w r sup h wire = .ok b) (he : h.contentEncoding = some enc) (hne : enc ≠ []) :
    (r.effective sup).contains enc = true ∧
      ∃ codec payload y, r.getHandler enc = .ok codec ∧ codec.dec payload = some y ∧ b = some y := by
  obtain ⟨body, hd⟩ := readRequestBody_ok w r sup h wire b hr
  obtain ⟨hc, codec, payload, y, _, hg, hy, hb⟩ := decodeBody_ok r sup h body b enc hd he hne
  exact ⟨hc, codec, payload, y, hg, hy, hb⟩

/-- a negative Content-Length is rejected before anything is read (the pinned tree called `rfile.read(-1)`: read until the peer closes) -/
theorem negative_length_rejected (w : Nat) (r : Registry) (sup : List Str) (h : Hdrs) (wire : Bytes) (n : Int)
    (hc : h.isChunked = false) (hl : h.contentLength = some (.val n)) (hn : n < 0) :
    readRequestBody w r sup h wire = .error .value := by
  simp [readRequestBody, hc, hl, hn]

/-- a request in a coding that is not enabled is rejected: no body is returned -/
theorem unsupported_rejected (w : Nat) (r : Registry) (sup : List Str) (h : Hdrs) (wire : Bytes) (enc : Str)
    (he : h.contentEncoding = some enc) (hne : enc ≠ []) (hu : (r.effective sup).contains enc = false) :
    ∀ b, readRequestBody w r sup h wire ≠ .ok b := by
  intro b hr
  have := (decoded_only_by_declared w r sup h wire b enc hr he hne).1
  rw [hu] at this; cases this

/-- … likewise a coding without a registered handler -/
theorem unregistered_rejected (w : Nat) (r : Registry) (sup : List Str) (h : Hdrs) (wire : Bytes) (enc : Str)
    (he : h.contentEncoding = some enc) (hne : enc ≠ []) (hu : r.getHandler enc = .error .compression) :
    ∀ b, readRequestBody w r sup h wire ≠ .ok b := by
  intro b hr
  obtain ⟨_, codec, _, _, hg, _, _⟩ := decoded_only_by_declared w r sup h wire b enc hr he hne
  rw [hu] at hg; cases hg

/-- … and a corrupt coding: when the registered decoder rejects the framed payload the reader raises the codec's
    error — whatever the framing (chunked or Content-Length) -/
theorem corrupt_rejected (w : Nat) (r : Registry) (sup : List Str) (h : Hdrs) (wire payload rest : Bytes) (n : Int) (enc : Str)
    (codec : Codec) (he : h.contentEncoding = some enc) (hne : enc ≠ []) (hen : (r.effective sup).contains enc = true)
    (hg : r.getHandler enc = .ok codec)
    (hframe : (h.isChunked = true ∧ dechunk w wire = .ok (payload, rest)) ∨
              (h.isChunked = false ∧ h.contentLength = some (.val n) ∧ 0 ≤ n ∧ payload = pyRead wire n))
    (hbad : codec.dec payload = none) :
    readRequestBody w r sup h wire = .error .codec := by
  have hemp : enc.isEmpty = false := by cases enc with | nil => exact absurd rfl hne | cons a l => rfl
  have hd : decodeBody r sup h (some payload) = .error .codec := by
    have hmem : enc ∈ r.effective sup := by simpa using hen
    simp [decodeBody, he, hemp, hmem, Registry.decompress, hg, hbad]
  unfold readRequestBody
  rcases hframe with ⟨h1, h2⟩ | ⟨h1, h2, hn, h3⟩
  · simp only [h1, if_true, h2]; exact hd
  · subst h3
    have hn' : ¬ n < 0 := by omega
    simp only [h1, Bool.false_eq_true, if_false, h2, hn']; exact hd

/-- the response reader applies the same rule -/
theorem response_decoded_only_by_declared (r : Registry) (sup : List Str) (h : Hdrs) (payload : Bytes) (b : Option Bytes)
    (enc : Str) (hr : readResponseBody r sup h payload = .ok b) (he : h.contentEncoding = some enc) (hne : enc ≠ []) :
    (r.effective sup).contains enc = true ∧
      ∃ codec p y, r.getHandler enc = .ok codec ∧ codec.dec p = some y ∧ b = some y := by
  obtain ⟨body, hd⟩ := readResponseBody_ok r sup h payload b hr
  obtain ⟨hc, codec, p, y, _, hg, hy, hb⟩ := decodeBody_ok r sup h body b enc hd he hne
  exact ⟨hc, codec, p, y, hg, hy, hb⟩

/-! ### the registry of the running code (generated) -/

/-- every available encoding is lower case ASCII, non-empty, registered under exactly that name (so `get_handler`
    finds it), no name is registered twice, and the size-line window is the 16 bytes the theorems are instantiated with -/
theorem generated_registry_wf :
    (∀ n ∈ Generated.Codings.available, n ≠ [] ∧ n.map asciiLower = n ∧ n ∈ Generated.Codings.handlerNames) ∧
    Generated.Codings.handlerNames.Nodup ∧ Generated.Codings.available.Nodup ∧
    Generated.Codings.handlerNames.length = Generated.Codings.handlerClasses.length ∧
    Generated.Codings.headerWindow = 16 := by
  decide

/-! ### non-vacuity -/

/-- a codec satisfying the assumption (the one the driver and the harness install for the correspondence runs) -/
def toy (tag : Nat) : Codec where
  enc x := tag :: x.reverse
  dec
    | t :: y => if t = tag then some y.reverse else none
    | [] => none

def toyRegistry : Registry := ⟨[([103, 122, 105, 112], toy 65)], [[103, 122, 105, 112]]⟩

example : CodecsLossless toyRegistry ∧ NamesNonEmpty toyRegistry := by
  constructor
  · intro e he x
    simp only [toyRegistry, List.mem_singleton] at he
    subst he; simp [toy]
  · intro e he
    simp only [toyRegistry, List.mem_singleton] at he
    subst he; simp

example : mkChunks 3 [104, 101, 108, 108, 111] = [51, 13, 10, 104, 101, 108, 13, 10, 50, 13, 10, 108, 111, 13, 10, 48, 13, 10, 13, 10] := by
  decide

example : dechunk 16 (mkChunks 3 [104, 101, 108, 108, 111] ++ [71]) = .ok ([104, 101, 108, 108, 111], [71]) := by decide

/-- body cut inside a chunk, and a size line without CRLF: `DechunkError` (the pinned tree looped / raised AttributeError) -/
example : dechunk 16 [53, 13, 10, 97, 98] = .error .dechunk ∧ dechunk 16 [53] = .error .dechunk := by decide

/-- `gzip;q=0, x-lz4;q=0.5` -/
example : parseHeader [103, 122, 105, 112, 59, 113, 61, 48, 44, 32, 120, 45, 108, 122, 52, 59, 113, 61, 48, 46, 53]
    = [[120, 45, 108, 122, 52]] := by decide

example : weightOf [103, 122, 105, 112, 59, 113, 61, 48, 44, 32, 120, 45, 108, 122, 52, 59, 113, 61, 48, 46, 53]
    [103, 122, 105, 112] = some ⟨false, 0, 0⟩ := by decide

/-- a complete exchange with the toy codec, chunk size 2 -/
example : ∃ h wire, sendRequest toyRegistry [[103, 122, 105, 112]] [[103, 122, 105, 112]] 2 [1, 2, 3] = .ok (h, wire) ∧
    h.contentEncoding = some [103, 122, 105, 112] ∧ readRequestBody 16 toyRegistry [] h wire = .ok (some [1, 2, 3]) := by
  refine ⟨_, _, rfl, rfl, ?_⟩
  decide

/-- all codings, then only gzip, then none; the peer keeps asking for `x-lz4, gzip;q=0.5` -/
example : (cfgRun [[103, 122, 105, 112], [120, 45, 108, 122, 52]]
      [.request (some [120, 45, 108, 122, 52, 44, 32, 103, 122, 105, 112, 59, 113, 61, 48, 46, 53]), .setUsed [[103, 122, 105, 112]],
       .request (some [120, 45, 108, 122, 52, 44, 32, 103, 122, 105, 112, 59, 113, 61, 48, 46, 53]), .setUsed [],
       .request (some [120, 45, 108, 122, 52, 44, 32, 103, 122, 105, 112, 59, 113, 61, 48, 46, 53])]).map (·.2.2)
    = [some [120, 45, 108, 122, 52], some [103, 122, 105, 112], none] := by decide

end Sdc.C17
