import SdcModel.Location
import SdcModel.LocationSearch
import SdcModel.Proofs.Location
import SdcModel.Proofs.Discovery
/-!
# C16 — location scopes round-trip; location filtering tolerates foreign scopes
Property theorems only. Model: `SdcModel/Location.lean` (+ `Basic/Percent`, `Basic/Utf8`, `Basic/Url`), compared with
`sdc11073.location.SdcLocation`, `scopesfactory.mk_scopes` and `LocationContextStateContainer.update_from_sdc_location`
on every run. Strings are UTF-8 byte lists, `Loc.valid` says that all of them are Unicode strings, `none` is `None`.
`chk` stands for the two library checks inside `urlsplit` (ipaddress / NFKC); every theorem holds for every `chk`.
-/
namespace Sdc.C16
open Sdc.Location Sdc.Percent Sdc.Url

/-- **Round trip.** A location converted to its scope string and parsed back is the same location: every root except
    the empty one, every present/absent pattern, arbitrary Unicode values (the empty string included, reserved URL
    characters and non-ASCII included). -/
theorem scope_roundtrip (chk : Bytes → Bool) (l : Loc) (hv : l.valid = true) (hroot : l.root ≠ []) :
    fromScopeString chk (scopeString l) = .ok l := by
  have hq2 : ∀ b ∈ join [37, 50, 70] (l.elems.map fun e => quote (e.2.getD [])), quoted b = true :=
    join_quoted (by decide) (quoted_elems_safe hv)
  exact parse_assembled chk quotePlus quoteOk_quotePlus (fun _ => quotePlus_eq_nil) quotePlus_bytes'
    l.root _ l hv (valid_parts hv).1 hroot hq2

/-- The hypothesis `root ≠ ""` of `scope_roundtrip` is needed: with an empty root the path starts with `//`, which
    `urlsplit` reads as a netloc, and parsing raises `ValueError`. -/
theorem scope_roundtrip_needs_root :
    fromScopeString (fun _ => true) (scopeString ⟨[], some [97], none, none, none, none, none⟩) = .error .valueError := by
  decide

/-- A provider publishes a location scope exactly when at least one element is a non-empty string
    (`_loc_extension_segment` rejects `'/////'`). -/
theorem published_defined_iff (l : Loc) (hv : l.valid = true) : (∃ s, published l = .ok s) ↔ ¬ AllEmpty l := by
  unfold published locExtension
  rw [← ext_eq_slashes_iff hv]
  by_cases h : join [47] (l.elems.map fun e => quote (e.2.getD [])) = [47, 47, 47, 47, 47]
  · simp [h]
  · simp [h]

/-- **Round trip of the published scope.** What `update_from_sdc_location` + `mk_scopes` publish parses back to the
    same six elements under the fixed root `sdc.ctxt.loc.detail`. -/
theorem published_roundtrip (chk : Bytes → Bool) (l : Loc) (hv : l.valid = true) (s : Bytes)
    (hp : published l = .ok s) : fromScopeString chk s = .ok { l with root := defaultRoot } := by
  have hne := ext_ne_nil l
  unfold published locExtension at hp
  by_cases h : join [47] (l.elems.map fun e => quote (e.2.getD [])) = [47, 47, 47, 47, 47]
  · simp [h] at hp
  · simp only [h, if_false, Except.ok.injEq] at hp
    subst hp
    rw [contextScope_eq _ _ _ hne]
    exact parse_assembled chk quote quoteOk_quote (fun _ => quote_eq_nil) quote_bytes' defaultRoot _ l hv
      (by decide) (by decide) (quote_quoted _ (ext_lt hv))

/-- **Inside exactly the enclosing locations.** The published scope is recognised as inside `enc` if and only if
    `enc` has the published root and agrees with the location on every element `enc` specifies. -/
theorem published_inside (chk : Bytes → Bool) (l enc : Loc) (hv : l.valid = true) (s : Bytes)
    (hp : published l = .ok s) :
    scopeStringMatches chk enc s = .ok true ↔ Encloses enc { l with root := defaultRoot } := by
  unfold scopeStringMatches
  rw [published_roundtrip chk l hv s hp]
  simp only [Except.ok.injEq]
  exact contains_iff _ _

/-- … inside that location itself — for a location with the root `sdc.ctxt.loc.detail` (the constructor default, and the
    root GLUE prescribes for the fallback identifier). This is the part of the full statement the code satisfies. -/
theorem published_inside_self_partial (chk : Bytes → Bool) (l : Loc) (hv : l.valid = true) (hr : l.root = defaultRoot)
    (s : Bytes) (hp : published l = .ok s) : scopeStringMatches chk l s = .ok true :=
  (published_inside chk l l hv s hp).mpr ⟨hr, Or.inr rfl, Or.inr rfl, Or.inr rfl, Or.inr rfl, Or.inr rfl, Or.inr rfl⟩

/-- the statement at full strength: *every* location recognises the scope a provider publishes for it as inside itself -/
def published_inside_self_full : Prop :=
  ∀ (chk : Bytes → Bool) (l : Loc) (s : Bytes), l.valid = true → published l = .ok s → scopeStringMatches chk l s = .ok true

/-- It is false of the current code (known finding `published-not-inside-own-location:non-default-root`): the deprecated
    `SdcLocation.root` can be set to something else, `update_from_sdc_location` always publishes the identifier root
    `sdc.ctxt.loc.detail`, and `__contains__` compares roots. Witness: `SdcLocation(fac='a', root='r')`. -/
theorem published_inside_self_full_fails : ¬ published_inside_self_full := by
  intro h
  have := h (fun _ => true) ⟨[114], some [97], none, none, none, none, none⟩ _ (by decide) rfl
  revert this
  decide

/-- … inside every enclosing (less specific) location: drop any subset of the elements -/
theorem published_inside_enclosing (chk : Bytes → Bool) (l : Loc) (hv : l.valid = true) (s : Bytes)
    (hp : published l = .ok s) (k1 k2 k3 k4 k5 k6 : Bool) :
    scopeStringMatches chk
      ⟨defaultRoot, if k1 then l.fac else none, if k2 then l.bldng else none, if k3 then l.flr else none,
        if k4 then l.poc else none, if k5 then l.rm else none, if k6 then l.bed else none⟩ s = .ok true := by
  apply (published_inside chk l _ hv s hp).mpr
  refine ⟨rfl, ?_, ?_, ?_, ?_, ?_, ?_⟩
  · cases k1 <;> simp
  · cases k2 <;> simp
  · cases k3 <;> simp
  · cases k4 <;> simp
  · cases k5 <;> simp
  · cases k6 <;> simp

/-- … and inside no location that differs in a specified element (or in the root) -/
theorem published_outside_differing (chk : Bytes → Bool) (l enc : Loc) (hv : l.valid = true) (s : Bytes)
    (hp : published l = .ok s)
    (hd : enc.root ≠ defaultRoot ∨ (∃ v, enc.fac = some v ∧ l.fac ≠ some v) ∨ (∃ v, enc.bldng = some v ∧ l.bldng ≠ some v) ∨
      (∃ v, enc.flr = some v ∧ l.flr ≠ some v) ∨ (∃ v, enc.poc = some v ∧ l.poc ≠ some v) ∨
      (∃ v, enc.rm = some v ∧ l.rm ≠ some v) ∨ (∃ v, enc.bed = some v ∧ l.bed ≠ some v)) :
    scopeStringMatches chk enc s = .ok false := by
  have hiff := published_inside chk l enc hv s hp
  have hne : ¬ Encloses enc { l with root := defaultRoot } := by
    rintro ⟨h0, h1, h2, h3, h4, h5, h6⟩
    rcases hd with h | ⟨v, e, n⟩ | ⟨v, e, n⟩ | ⟨v, e, n⟩ | ⟨v, e, n⟩ | ⟨v, e, n⟩ | ⟨v, e, n⟩
    · exact h h0
    · rcases h1 with h | h <;> simp_all
    · rcases h2 with h | h <;> simp_all
    · rcases h3 with h | h <;> simp_all
    · rcases h4 with h | h <;> simp_all
    · rcases h5 with h | h <;> simp_all
    · rcases h6 with h | h <;> simp_all
  unfold scopeStringMatches at hiff ⊢
  rw [published_roundtrip chk l hv s hp] at hiff ⊢
  simp only [Except.ok.injEq] at hiff ⊢
  cases hc : contains enc { l with root := defaultRoot } with
  | false => rfl
  | true => exact absurd (hiff.mp hc) hne

/-- The same for the scope string an `SdcLocation` makes itself (any non-empty root): inside `enc` iff `enc` encloses it. -/
theorem scope_string_inside (chk : Bytes → Bool) (l enc : Loc) (hv : l.valid = true) (hroot : l.root ≠ []) :
    scopeStringMatches chk enc (scopeString l) = .ok true ↔ Encloses enc l := by
  unfold scopeStringMatches
  rw [scope_roundtrip chk l hv hroot]
  simp only [Except.ok.injEq]
  exact contains_iff _ _

/-- **Totality.** For an arbitrary scope string (any bytes: any scheme, any number of path segments, malformed query)
    `_scope_string_matches` returns a Boolean; no exception class of `from_scope_string` escapes. -/
theorem filter_total (chk : Bytes → Bool) (self : Loc) (s : Bytes) : ∃ b, scopeStringMatches chk self s = .ok b := by
  unfold scopeStringMatches
  split
  · exact ⟨_, rfl⟩
  · exact ⟨_, rfl⟩
  · exact ⟨_, rfl⟩

/-- what `_scope_string_matches` answers: the scope parses to a location that is contained -/
def insideScope (chk : Bytes → Bool) (self : Loc) (s : Bytes) : Bool :=
  match fromScopeString chk s with
  | .ok other => contains self other
  | .error _ => false

/-- **Filtering never fails** and keeps exactly the services with at least one scope inside, whatever scope strings
    the services carry (`scopesOf s = none`: the service has no scopes element). -/
theorem filter_services_total {α : Type} (chk : Bytes → Bool) (self : Loc) (scopesOf : α → Option (List Bytes))
    (services : List α) :
    filterInside chk self scopesOf services =
      .ok (services.filter fun s => match scopesOf s with
        | none => false
        | some scopes => scopes.any (insideScope chk self)) := by
  have hm : ∀ s, scopeStringMatches chk self s = .ok (insideScope chk self s) := by
    intro s
    unfold scopeStringMatches insideScope
    split <;> simp_all
  have hany : ∀ scopes, anyMatches chk self scopes = .ok (scopes.any (insideScope chk self)) := by
    intro scopes
    induction scopes with
    | nil => rfl
    | cons s rest ih =>
      unfold anyMatches
      rw [hm s]
      cases h : insideScope chk self s <;> simp [ih, h]
  induction services with
  | nil => rfl
  | cons s rest ih =>
    unfold filterInside
    rw [ih]
    cases hs : scopesOf s with
    | none => simp [serviceMatches, hs]
    | some scopes =>
      simp only [serviceMatches, hany, List.filter_cons, hs]

/-! ### histories of location updates on one state -/

/-- **An update overwrites everything.** Whatever the state held before (other elements, other values), after a
    successful `update_from_sdc_location(l)` the published scope is the one of `l`: nothing of an earlier location survives. -/
theorem published_after_update (st : LocState) (l : Loc) (s : Bytes) (hp : published l = .ok s) :
    (updateFromLocation st l).2 = none ∧ publishedOfState (updateFromLocation st l).1 = .ok s := by
  unfold published at hp
  unfold updateFromLocation
  cases he : locExtension l with
  | error e => simp [he] at hp
  | ok ext =>
    simp only [he, Except.ok.injEq] at hp
    subst hp
    exact ⟨rfl, rfl⟩

/-- the last location of a history that can be published (at least one non-empty element) -/
def lastGood : List Loc → Option Loc
  | [] => none
  | l :: ls => (lastGood ls).or (match locExtension l with | .ok _ => some l | .error _ => none)

/-- **The published scope follows the associated location.** After every history of location changes made through MDIB
    transactions (`set_location`, updates of the existing state; rejected ones roll back) the published scope is exactly
    the scope of the last accepted location — independent of all earlier ones. -/
theorem published_after_history (st : LocState) (ls : List Loc) :
    publishedOfState (runTx st ls) =
      match lastGood ls with
      | some l => published l
      | none => publishedOfState st := by
  induction ls generalizing st with
  | nil => rfl
  | cons l ls ih =>
    simp only [runTx, List.foldl_cons] at ih ⊢
    rw [ih]
    simp only [lastGood]
    cases lastGood ls with
    | some l' => rfl
    | none =>
      simp only [Option.none_or]
      unfold txUpdate updateFromLocation published
      cases he : locExtension l with
      | error e => simp
      | ok ext => simp [he, publishedOfState, Loc.elems]

/-- … hence after any history whose last accepted location is `l` the provider is recognised inside exactly the
    locations enclosing `l` (stale elements of earlier locations play no role). -/
theorem inside_after_history (chk : Bytes → Bool) (st : LocState) (ls : List Loc) (l enc : Loc) (hl : lastGood ls = some l)
    (hv : l.valid = true) (s : Bytes) (hs : publishedOfState (runTx st ls) = .ok s) :
    scopeStringMatches chk enc s = .ok true ↔ Encloses enc { l with root := defaultRoot } := by
  rw [published_after_history, hl] at hs
  exact published_inside chk l enc hv s hs

/-! ### the public entry point `WSDiscovery.search_sdc_device_services_in_location` -/

open Sdc.Discovery Sdc.LocationSearch in
/-- a discovered service is inside `self`: one of its scopes parses to a contained location -/
def insideService (chk : Bytes → Bool) (self : Loc) (s : Discovery.Service) : Bool :=
  match LocationSearch.scopesOf s with
  | none => false
  | some scopes => scopes.any (insideScope chk self)

open Sdc.Discovery Sdc.LocationSearch in
/-- **Search by location is exact.** For every table of discovered services (each with a types list, as the message
    handlers construct them) the search returns exactly the services that offer all SDC device types and have at least
    one scope inside the searched location — whatever other scopes (foreign, malformed, several location scopes in any
    order) they carry; nothing is matched with the WS-Discovery prefix rule. -/
theorem search_in_location_exact (chk : Bytes → Bool) (r : Rules) (self : Loc) (deviceTypes : List QName)
    (remote : List Discovery.Service) (hT : ∀ s ∈ remote, s.types ≠ none) :
    searchInLocation chk r self deviceTypes remote =
      .ok (remote.filter fun s => deviceTypes.all (offersType s) && insideService chk self s) := by
  unfold searchInLocation
  have hc : ∀ s ∈ remote, Comparable chk r none s := fun s hs => ⟨hT s hs, fun sc h => by cases h⟩
  rw [filterServices_total (some deviceTypes) hc]
  simp only [filter_services_total, List.filter_filter]
  congr 1
  apply List.filter_congr
  intro s _
  simp [wanted, insideService, Bool.and_comm]

open Sdc.Discovery Sdc.LocationSearch in
/-- … so a device that publishes the scope of its location `l` is found by a search for every enclosing location, -/
theorem search_finds_published (chk : Bytes → Bool) (r : Rules) (enc l : Loc) (deviceTypes : List QName)
    (remote : List Discovery.Service) (hT : ∀ s ∈ remote, s.types ≠ none) (hv : l.valid = true)
    (s : Discovery.Service) (hs : s ∈ remote) (hty : deviceTypes.all (offersType s) = true)
    (sc : Scopes) (hsc : s.scopes = some sc) (p : Bytes) (hp : published l = .ok p) (hmem : p ∈ sc.text)
    (henc : Encloses enc { l with root := defaultRoot }) :
    ∃ res, searchInLocation chk r enc deviceTypes remote = .ok res ∧ s ∈ res := by
  refine ⟨_, search_in_location_exact chk r enc deviceTypes remote hT, ?_⟩
  simp only [List.mem_filter, Bool.and_eq_true]
  refine ⟨hs, hty, ?_⟩
  simp only [insideService, scopesOf, hsc, Option.map_some, List.any_eq_true]
  refine ⟨p, hmem, ?_⟩
  unfold insideScope
  rw [published_roundtrip chk l hv p hp]
  exact (contains_iff _ _).mpr henc

open Sdc.Discovery Sdc.LocationSearch in
/-- … and by no search for a location that does not enclose it (when its other scopes are not inside either). -/
theorem search_excludes_elsewhere (chk : Bytes → Bool) (r : Rules) (enc l : Loc) (deviceTypes : List QName)
    (remote : List Discovery.Service) (hT : ∀ s ∈ remote, s.types ≠ none) (hv : l.valid = true)
    (s : Discovery.Service) (sc : Scopes) (hsc : s.scopes = some sc) (p : Bytes) (hp : published l = .ok p)
    (hother : ∀ q ∈ sc.text, q = p ∨ insideScope chk enc q = false)
    (henc : ¬ Encloses enc { l with root := defaultRoot }) (res : List Discovery.Service)
    (hres : searchInLocation chk r enc deviceTypes remote = .ok res) : s ∉ res := by
  rw [search_in_location_exact chk r enc deviceTypes remote hT] at hres
  simp only [Except.ok.injEq] at hres
  subst hres
  simp only [List.mem_filter, Bool.and_eq_true, not_and]
  intro _ _
  simp only [insideService, scopesOf, hsc, Option.map_some, List.any_eq_true, not_exists, not_and]
  intro q hq
  rcases hother q hq with rfl | h
  · unfold insideScope
    rw [published_roundtrip chk l hv q hp]
    intro hc
    exact henc ((contains_iff _ _).mp hc)
  · simp [h]

/-! ### non-vacuity: concrete instances of the hypotheses -/

/-- `SdcLocation(fac='HO/SP 1', poc='', bed='Bé+d%', root='my root/x')`: reserved characters, space, plus, percent,
    non-ASCII, an empty (present) element and absent ones -/
def exLoc : Loc :=
  ⟨[109, 121, 32, 114, 111, 111, 116, 47, 120], some [72, 79, 47, 83, 80, 32, 49], none, none, some [], none,
    some [66, 195, 169, 43, 100, 37]⟩

example : exLoc.valid = true ∧ exLoc.root ≠ [] := by decide
example : fromScopeString (fun _ => false) (scopeString exLoc) = .ok exLoc := by decide
example : ∃ s, published exLoc = .ok s ∧ scopeStringMatches (fun _ => true) { exLoc with root := defaultRoot, poc := none } s = .ok true := by
  refine ⟨_, rfl, ?_⟩; decide
example : ¬ AllEmpty exLoc := by unfold AllEmpty; decide
/-- A (room and bed) -> B (less specific) -> rejected empty location: the published scope is the one of B, no `rm`/`bed` -/
example : publishedOfState (runTx LocState.fresh
    [⟨defaultRoot, some [72], none, none, some [67], some [82, 55], some [66]⟩, ⟨defaultRoot, some [72], none, none, some [67], none, none⟩,
     ⟨defaultRoot, none, none, none, none, none, none⟩])
    = published ⟨defaultRoot, some [72], none, none, some [67], none, none⟩ := by decide
/-- a foreign scope with a two-segment path: no match, no exception -/
example : scopeStringMatches (fun _ => true) exLoc (scheme ++ [58, 47, 114, 111, 111, 116]) = .ok false := by decide

end Sdc.C16
