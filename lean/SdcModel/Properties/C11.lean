import SdcModel.Multikey
import SdcModel.Proofs.Multikey
import SdcModel.Generated.IndexDefs
/-!
# C11 — every MDIB lookup always agrees with a scan of the stored objects
Property theorems only. Model: `SdcModel/Multikey.lean` (transcription of `sdc11073/multikey.py`, repaired tree);
index definitions of the real tables: `Generated/IndexDefs.lean` (regenerated from `DescriptorsLookup()`,
`StatesLookup()`, `MultiStatesLookup()` and the subscriptions table on every run).

`run defs ops` is the table (plus the attribute values of the objects) after an arbitrary list of operations
`setAttrs | add | remove | update | clear | addMany | removeMany | updateMany` on an empty table with an arbitrary
list `defs` of index definitions; rejected operations (exceptions) are part of the history.
`snap o` are the key-function results of `o` at its last accepted `add`/`update`; `pending o` says that attributes of
`o` were written after that. "update-attributes + re-index" is `setAttrs o rs` followed by `update o`.
-/
namespace Sdc.C11
open Sdc.Multikey

/-- the invariant, for every list of index definitions and every history -/
theorem consistent_run (defs : List IdxDef) (ops : List Op) : Consistent defs (run defs ops) :=
  run_consistent defs ops

/-- …spelled out: an index list holds exactly the stored objects whose key set (as of their last (re-)indexing)
contains the key, each with the multiplicity of the key; nothing else -/
theorem index_exact_run (defs : List IdxDef) (ops : List Op) (i : Nat) (k : Key) (o : ObjId) :
    ((run defs ops).tab.idx i k).count o =
      if o ∈ (run defs ops).tab.objs then (keysOf defs i ((run defs ops).snap o)).count k else 0 :=
  (run_consistent defs ops).count_scan i k o

/-- `_object_ids` is exact: an entry for exactly the stored objects, listing exactly their filings -/
theorem refs_exact_run (defs : List IdxDef) (ops : List Op) (o : ObjId) :
    (run defs ops).tab.refs o =
      if o ∈ (run defs ops).tab.objs then some (allKeys defs ((run defs ops).snap o)) else none := by
  have h := run_consistent defs ops
  split
  · rename_i hm; exact h.refs_snap o hm
  · rename_i hm; exact (h.tinv.refs_none o).mpr hm

/-- `_objects` never holds an object twice -/
theorem objs_nodup_run (defs : List IdxDef) (ops : List Op) : (run defs ops).tab.objs.Nodup :=
  (run_consistent defs ops).tinv.objsNodup

/-- a unique index holds at most one object per key -/
theorem unique_index_single (defs : List IdxDef) (ops : List Op) (i : Nat) (k : Key)
    (hu : isUnique defs i = true) : ((run defs ops).tab.idx i k).length ≤ 1 :=
  (run_consistent defs ops).tinv.uniq i k hu

/-- an insertion that raises (duplicate unique key: `KeyError`; list key in a unique index: `ValueError`) leaves
`_objects`, every index dict and `_object_ids` exactly as they were -/
theorem rejected_add_noop (defs : List IdxDef) (ops : List Op) (o : ObjId) (w' : World) (e : Err)
    (h : step defs (run defs ops) (.add o) = (w', some e)) :
    w'.tab.objs = (run defs ops).tab.objs ∧
    (∀ i k, w'.tab.idx i k = (run defs ops).tab.idx i k) ∧
    (∀ o', w'.tab.refs o' = (run defs ops).tab.refs o') := by
  have hc := run_consistent defs ops
  generalize run defs ops = w at h hc
  simp only [step, stepAdd] at h
  split at h
  · cases h
  · have hs := add_spec hc.tinv o (w.cur o)
    generalize add defs w.tab o (w.cur o) = r at h hs
    obtain ⟨t, e'⟩ := r
    cases e' with
    | none => simp at h
    | some e' =>
      have := hs.2 e' rfl
      simp only at this h
      obtain ⟨h1, _⟩ := Prod.mk.inj h
      subst h1; subst this
      exact ⟨rfl, fun _ _ => rfl, fun _ => rfl⟩

/-- an insertion is rejected only for a reason: `KeyError` ⇒ the object is new and one of its current keys in a unique
index is already taken; `ValueError` ⇒ the key function of a unique index returned a list -/
theorem rejected_add_reason (defs : List IdxDef) (ops : List Op) (o : ObjId) (w' : World) (e : Err)
    (h : step defs (run defs ops) (.add o) = (w', some e)) :
    o ∉ (run defs ops).tab.objs ∧
    ((e = .keyError ∧ ∃ i k, isUnique defs i = true ∧ k ∈ keysOf defs i ((run defs ops).cur o) ∧
        (run defs ops).tab.idx i k ≠ []) ∨
     (e = .valueError ∧ ∃ i d, defs[i]? = some d ∧ d.kind = .unique ∧
        ∃ ks, keyResAt ((run defs ops).cur o) i = .many ks)) := by
  generalize run defs ops = w at h
  simp only [step, stepAdd] at h
  split at h
  · cases h
  · generalize hadd : add defs w.tab o (w.cur o) = r at h
    obtain ⟨t, e'⟩ := r
    cases e' with
    | none => simp at h
    | some e' =>
      simp only [Prod.mk.injEq, Option.some.injEq] at h
      obtain ⟨_, he⟩ := h
      subst he
      exact add_err_reason (by rw [hadd])

/-- a re-index that raises keeps the stored objects, `_object_ids` and the content of every index list (the object
is moved to the end of its lists); the table still describes the last accepted indexing of the object -/
theorem rejected_update_keeps (defs : List IdxDef) (ops : List Op) (o : ObjId) (w' : World) (e : Err)
    (h : step defs (run defs ops) (.update o) = (w', some e)) :
    w'.tab.objs = (run defs ops).tab.objs ∧
    (∀ i k, (w'.tab.idx i k).Perm ((run defs ops).tab.idx i k)) ∧
    (∀ o', w'.tab.refs o' = (run defs ops).tab.refs o') ∧
    w'.snap = (run defs ops).snap := by
  have hc := run_consistent defs ops
  generalize run defs ops = w at h hc
  simp only [step, stepUpdate] at h
  have hs := update_spec hc.tinv o (w.cur o)
  generalize update defs w.tab o (w.cur o) = r at h hs
  obtain ⟨t, e'⟩ := r
  cases e' with
  | none => simp at h
  | some e' =>
    obtain ⟨_, hobjs, hrefs, hperm⟩ := hs.2.1 e' rfl
    simp only at h hobjs hrefs hperm
    obtain ⟨h1, _⟩ := Prod.mk.inj h
    subst h1
    exact ⟨hobjs, hperm, hrefs, rfl⟩

/-- `update_object` of an object that is not stored: `ValueError`, nothing changes -/
theorem update_unknown (defs : List IdxDef) (ops : List Op) (o : ObjId) (hn : o ∉ (run defs ops).tab.objs) :
    step defs (run defs ops) (.update o) = (run defs ops, some .valueError) := by
  have hc := run_consistent defs ops
  generalize run defs ops = w at hn hc
  simp only [step, stepUpdate, (update_spec hc.tinv o (w.cur o)).2.2 hn]

/-- `remove_object` never raises; for an object that is not stored it is a no-op -/
theorem remove_total (defs : List IdxDef) (ops : List Op) (o : ObjId) :
    (step defs (run defs ops) (.remove o)).2 = none ∧
    (o ∉ (run defs ops).tab.objs → (step defs (run defs ops) (.remove o)).1.tab = (run defs ops).tab) ∧
    o ∉ (step defs (run defs ops) (.remove o)).1.tab.objs := by
  have hc := run_consistent defs ops
  generalize run defs ops = w at hc
  obtain ⟨h1, _, hmem, _, hno⟩ := remove_spec hc.tinv o
  refine ⟨h1, hno, ?_⟩
  intro hm
  exact ((hmem o).mp hm).2 rfl

/-- `add_object` of an object that is already stored is a no-op (its indices are not refreshed) -/
theorem add_contained_noop (defs : List IdxDef) (ops : List Op) (o : ObjId) (hm : o ∈ (run defs ops).tab.objs) :
    step defs (run defs ops) (.add o) = (run defs ops, none) := by
  simp [step, stepAdd, hm]

/-- after an accepted `add` / `update` of `o` the table describes the current attribute values of `o` -/
theorem accepted_reindex_fresh (defs : List IdxDef) (ops : List Op) (o : ObjId) (w' : World)
    (h : step defs (run defs ops) (.update o) = (w', none)) :
    o ∈ w'.tab.objs ∧ w'.pending o = false ∧ w'.snap o = w'.cur o := by
  have hc := run_consistent defs ops
  generalize run defs ops = w at h hc
  simp only [step, stepUpdate] at h
  have hs := update_spec hc.tinv o (w.cur o)
  generalize update defs w.tab o (w.cur o) = r at h hs
  obtain ⟨t, e'⟩ := r
  cases e' with
  | some e' => simp at h
  | none =>
    obtain ⟨_, hm, hobjs, _, _⟩ := hs.1 rfl
    simp only at h hobjs
    obtain ⟨h1, _⟩ := Prod.mk.inj h
    subst h1
    simp [World.synced, hobjs, hm]

/-- stored objects whose attributes were not written since their last accepted (re-)indexing are indexed under
their *current* key values -/
theorem fresh_run (defs : List IdxDef) (ops : List Op) (o : ObjId)
    (hm : o ∈ (run defs ops).tab.objs) (hp : (run defs ops).pending o = false) :
    ∀ i, keyResAt ((run defs ops).snap o) i = keyResAt ((run defs ops).cur o) i :=
  (run_consistent defs ops).fresh o hm hp

/-! ### the user-facing lookups -/

/-- `index.get(key)`: as a multiset exactly what a linear scan of `objects` returns -/
theorem lookup_eq_scan (defs : List IdxDef) (ops : List Op) (i : Nat) (k : Key) :
    ((run defs ops).tab.idx i k).Perm (scan defs (run defs ops).tab.objs (run defs ops).snap i k) :=
  (run_consistent defs ops).perm_scan i k

/-- … and with the *current* attribute values when every attribute write was followed by an accepted re-index -/
theorem lookup_eq_scan_current (defs : List IdxDef) (ops : List Op) (i : Nat) (k : Key)
    (hp : ∀ o, o ∈ (run defs ops).tab.objs → (run defs ops).pending o = false) :
    ((run defs ops).tab.idx i k).Perm (scan defs (run defs ops).tab.objs (run defs ops).cur i k) := by
  have hc := run_consistent defs ops
  generalize run defs ops = w at hp hc
  apply List.perm_iff_count.mpr
  intro o
  rw [hc.count_scan, count_scan_list defs w.cur i k o w.tab.objs hc.tinv.objsNodup]
  split
  · rename_i hm; simp only [keysOf, hc.fresh o hm (hp o hm) i]
  · rfl

/-- `obj in index.get(key)` -/
theorem mem_lookup_iff (defs : List IdxDef) (ops : List Op) (i : Nat) (k : Key) (o : ObjId) :
    o ∈ (run defs ops).tab.idx i k ↔
      o ∈ (run defs ops).tab.objs ∧ k ∈ keysOf defs i ((run defs ops).snap o) := by
  have h := index_exact_run defs ops i k o
  generalize run defs ops = w at h
  rw [← List.count_pos_iff, h]
  split
  · rename_i hm; simp [hm, List.count_pos_iff]
  · rename_i hm; simp [hm]

/-- `key in index` / `index.get(key) is None` -/
theorem contains_iff (defs : List IdxDef) (ops : List Op) (i : Nat) (k : Key) :
    contains (run defs ops).tab i k = true ↔
      ∃ o, o ∈ (run defs ops).tab.objs ∧ k ∈ keysOf defs i ((run defs ops).snap o) := by
  have h := mem_lookup_iff defs ops i k
  generalize run defs ops = w at h
  simp only [contains, ne_eq, decide_eq_true_eq]
  constructor
  · intro hne
    obtain ⟨o, ho⟩ := List.exists_mem_of_ne_nil _ hne
    exact ⟨o, (h o).mp ho⟩
  · intro ⟨o, ho⟩ he
    have := (h o).mpr ho
    rw [he] at this; cases this

theorem get_none_iff (defs : List IdxDef) (ops : List Op) (i : Nat) (k : Key) :
    Multikey.get (run defs ops).tab i k = none ↔
      ¬ ∃ o, o ∈ (run defs ops).tab.objs ∧ k ∈ keysOf defs i ((run defs ops).snap o) := by
  rw [← contains_iff]
  simp only [Multikey.get, contains]
  split <;> simp_all

/-- `get_one` on a unique index: the object a scan finds, `KeyError` (or `None`) iff a scan finds none, and never
"has 2 objects" -/
theorem get_one_unique (defs : List IdxDef) (ops : List Op) (i : Nat) (k : Key) (allowNone : Bool)
    (hu : isUnique defs i = true) :
    (∀ o, getOne (run defs ops).tab i k allowNone = .ok (some o) ↔
        o ∈ (run defs ops).tab.objs ∧ k ∈ keysOf defs i ((run defs ops).snap o)) ∧
    (getOne (run defs ops).tab i k allowNone = (if allowNone then .ok none else .error .keyError) ↔
        ¬ ∃ o, o ∈ (run defs ops).tab.objs ∧ k ∈ keysOf defs i ((run defs ops).snap o)) ∧
    getOne (run defs ops).tab i k allowNone ≠ .error .valueError := by
  have hlen := unique_index_single defs ops i k hu
  have hmem := mem_lookup_iff defs ops i k
  generalize run defs ops = w at hlen hmem
  unfold getOne
  match hl : w.tab.idx i k with
  | [] =>
    simp only [hl, List.not_mem_nil, false_iff] at hmem
    refine ⟨fun o => ?_, ?_, ?_⟩
    · cases allowNone <;> simp [hmem o]
    · simp only [true_iff]; exact fun ⟨o, ho⟩ => hmem o ho
    · cases allowNone <;> simp
  | [a] =>
    simp only [hl, List.mem_singleton] at hmem
    refine ⟨fun o => ?_, ?_, by simp⟩
    · rw [← hmem o]; simp [eq_comm]
    · cases allowNone <;> simp <;> exact ⟨a, (hmem a).mp rfl⟩
  | _ :: _ :: _ => simp [hl] at hlen

/-! ### indices added at run time (`add_index` on a table that already contains objects)
`xrun defs ops`: like `run`, but the history may also contain `addIndex d order` (the new index gets the next number; `order` is
the iteration order of the object set, any list is allowed). -/

/-- the invariant holds for the grown list of index definitions after every history with run-time `add_index` -/
theorem consistent_xrun (defs : List IdxDef) (ops : List XOp) :
    Consistent (xrun defs ops).defs (xrun defs ops).w :=
  xrun_consistent defs ops

/-- …spelled out: every index, old or added later, lists exactly the stored objects under exactly their keys -/
theorem index_exact_xrun (defs : List IdxDef) (ops : List XOp) (i : Nat) (k : Key) (o : ObjId) :
    ((xrun defs ops).w.tab.idx i k).count o =
      if o ∈ (xrun defs ops).w.tab.objs then (keysOf (xrun defs ops).defs i ((xrun defs ops).w.snap o)).count k else 0 :=
  (xrun_consistent defs ops).count_scan i k o

/-- back references stay complete: the entry of a stored object names its filings in all indices, old and new -/
theorem refs_exact_xrun (defs : List IdxDef) (ops : List XOp) (o : ObjId) (hm : o ∈ (xrun defs ops).w.tab.objs) :
    (xrun defs ops).w.tab.refs o = some (allKeys (xrun defs ops).defs ((xrun defs ops).w.snap o)) :=
  (xrun_consistent defs ops).refs_snap o hm

theorem unique_index_single_xrun (defs : List IdxDef) (ops : List XOp) (i : Nat) (k : Key)
    (hu : isUnique (xrun defs ops).defs i = true) : ((xrun defs ops).w.tab.idx i k).length ≤ 1 :=
  (xrun_consistent defs ops).tinv.uniq i k hu

/-- an `add_index` that raises (duplicate key of a unique index, list key) leaves table and index list as they were -/
theorem rejected_add_index_noop (defs : List IdxDef) (ops : List XOp) (d : IdxDef) (order : List ObjId)
    (x' : XWorld) (e : Err) (h : xstep (xrun defs ops) (.addIndex d order) = (x', some e)) :
    x' = xrun defs ops := by
  have hc := xrun_consistent defs ops
  generalize xrun defs ops = x at h hc
  have hs := addIndex_spec hc d order
  simp only [xstep] at h
  generalize addIndex x.defs x.w d order = r at h hs
  obtain ⟨w', e'⟩ := r
  cases e' with
  | none => simp at h
  | some e' =>
    have := hs.2 e' rfl
    simp only at this h
    obtain ⟨h1, _⟩ := Prod.mk.inj h
    subst h1; subst this
    rfl

/-- non-vacuity: objects 1, 2 stored with one multi index; a unique index over the second attribute is added later -/
def exXOps (a2 : KeyRes) : List XOp :=
  [.op (.setAttrs 1 [.one 7, .one 5]), .op (.add 1), .op (.setAttrs 2 [.one 7, a2]), .op (.add 2)]
example : (xstep (xrun [⟨.multi, true⟩] (exXOps (.one 5))) (.addIndex ⟨.unique, true⟩ [2, 1])).2 = some .keyError := by decide
example : (xstep (xrun [⟨.multi, true⟩] (exXOps (.one 6))) (.addIndex ⟨.unique, true⟩ [2, 1])).2 = none ∧
    (xrun [⟨.multi, true⟩] (exXOps (.one 6) ++ [.addIndex ⟨.unique, true⟩ [2, 1], .op (.remove 1)])).w.tab.idx 1 6 = [2] ∧
    (xrun [⟨.multi, true⟩] (exXOps (.one 6) ++ [.addIndex ⟨.unique, true⟩ [2, 1], .op (.remove 1)])).w.tab.idx 0 7 = [2] ∧
    (xrun [⟨.multi, true⟩] (exXOps (.one 6) ++ [.addIndex ⟨.unique, true⟩ [2, 1], .op (.remove 1)])).w.tab.idx 1 5 = [] := by
  decide

/-! ### the real tables (definitions regenerated from the running code) -/

open Sdc.Generated in
/-- class, `index_none_values` of every lookup the property names, as introspected from the real tables -/
theorem generated_index_classes :
    descriptorsLookup.lookup "handle" = some ⟨.unique, true⟩ ∧
    descriptorsLookup.lookup "parent_handle" = some ⟨.multi, true⟩ ∧
    descriptorsLookup.lookup "NODETYPE" = some ⟨.multi, true⟩ ∧
    descriptorsLookup.lookup "condition_signaled" = some ⟨.multi, false⟩ ∧
    descriptorsLookup.lookup "source" = some ⟨.oneN, false⟩ ∧
    statesLookup.lookup "descriptor_handle" = some ⟨.unique, true⟩ ∧
    statesLookup.lookup "NODETYPE" = some ⟨.multi, false⟩ ∧
    multiStatesLookup.lookup "descriptor_handle" = some ⟨.multi, true⟩ ∧
    multiStatesLookup.lookup "handle" = some ⟨.unique, false⟩ ∧
    multiStatesLookup.lookup "NODETYPE" = some ⟨.multi, false⟩ ∧
    subscriptions.lookup "dispatch_identifier" = some ⟨.unique, true⟩ ∧
    subscriptions.lookup "identifier" = some ⟨.unique, true⟩ ∧
    subscriptions.lookup "netloc" = some ⟨.multi, true⟩ := by
  decide

open Sdc.Generated in
/-- by-handle / by-identifier lookups of the real tables return at most one object, after any history -/
theorem generated_unique_lookups_single (ops : List Op) (k : Key) :
    ((run (defsOf descriptorsLookup) ops).tab.idx (idxPos descriptorsLookup "handle") k).length ≤ 1 ∧
    ((run (defsOf statesLookup) ops).tab.idx (idxPos statesLookup "descriptor_handle") k).length ≤ 1 ∧
    ((run (defsOf multiStatesLookup) ops).tab.idx (idxPos multiStatesLookup "handle") k).length ≤ 1 ∧
    ((run (defsOf subscriptions) ops).tab.idx (idxPos subscriptions "identifier") k).length ≤ 1 ∧
    ((run (defsOf subscriptions) ops).tab.idx (idxPos subscriptions "dispatch_identifier") k).length ≤ 1 :=
  ⟨unique_index_single _ ops _ k (by decide), unique_index_single _ ops _ k (by decide),
   unique_index_single _ ops _ k (by decide), unique_index_single _ ops _ k (by decide),
   unique_index_single _ ops _ k (by decide)⟩

/-! ### non-vacuity: concrete histories (two indices: multi + unique; objects 1, 2, 3) -/

def exDefs : List IdxDef := [⟨.multi, true⟩, ⟨.unique, true⟩, ⟨.oneN, false⟩]
def exOps : List Op :=
  [.setAttrs 1 [.one 7, .one 5, .many [3, 3, 4]], .add 1,
   .setAttrs 2 [.one 7, .one 5, .none], .add 2,          -- rejected: unique key 5 is taken
   .setAttrs 3 [.none, .one 6, .many [4]], .add 3,
   .setAttrs 3 [.one 7, .one 5, .attrErr], .update 3]     -- rejected re-index

/-- the second insertion is rejected with `KeyError` (hypothesis of `rejected_add_noop` is satisfiable) -/
example : (step exDefs (run exDefs (exOps.take 3)) (.add 2)).2 = some .keyError := by decide
/-- … after object 2 had already been filed in the first (multi) index -/
example : ((mkLoop exDefs 2 [.one 7, .one 5, .none] 3 0 (run exDefs (exOps.take 3)).tab).1.idx 0 7) = [1, 2] := by decide
/-- the re-index of object 3 is rejected (hypothesis of `rejected_update_keeps`) -/
example : (step exDefs (run exDefs (exOps.take 7)) (.update 3)).2 = some .keyError := by decide
/-- final content: duplicates of a 1:n key are kept, object 3 is still filed under its previous keys -/
example : (run exDefs exOps).tab.objs = [1, 3] ∧ (run exDefs exOps).tab.idx 2 3 = [1, 1] ∧
    (run exDefs exOps).tab.idx 2 4 = [1, 3] ∧ (run exDefs exOps).tab.idx 1 6 = [3] ∧
    (run exDefs exOps).tab.idx 0 7 = [1] ∧ (run exDefs exOps).pending 3 = true := by decide
/-- an accepted re-index (hypothesis of `accepted_reindex_fresh`) -/
example : (step exDefs (run exDefs (exOps ++ [.setAttrs 3 [.one 7, .one 8, .attrErr]])) (.update 3)).2 = none := by
  decide
/-- `update` of an unknown object: `ValueError`; list key in a unique index: `ValueError` -/
example : (step exDefs (run exDefs exOps) (.update 2)).2 = some .valueError := by decide
example : (step exDefs (run exDefs [.setAttrs 1 [.none, .many [1], .none]]) (.add 1)).2 = some .valueError := by decide
example : isUnique exDefs 1 = true := by decide
/-- the reason `rejected_add_reason` names, in the rejected insertion above: unique key 5 of index 1 is taken -/
example : 5 ∈ keysOf exDefs 1 ((run exDefs (exOps.take 3)).cur 2) ∧ (run exDefs (exOps.take 3)).tab.idx 1 5 = [1] := by decide

end Sdc.C11
