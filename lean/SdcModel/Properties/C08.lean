import SdcModel.Eventing
import SdcModel.Proofs.Eventing
import SdcModel.Proofs.EventingOut
import SdcModel.Generated.Eventing
/-!
# C08 — WS-Eventing subscriptions deliver exactly while alive and end cleanly
Property theorems only. Model and reference monitor: `SdcModel/Eventing.lean`; invariant proofs:
`Proofs/Eventing.lean`, `Proofs/EventingOut.lean`; constants and action URIs: `Generated/Eventing.lean`.

Reading guide: `reach cfg ops = (st, m)` is the manager state `st` after an arbitrary op list `ops`
(Subscribe / Renew / GetStatus / Unsubscribe with arbitrary identifiers, notify, tick, delivery-outcome
changes, house-keeping, stop) together with what a subscriber-side observer `m` knows from the answers
alone. `r.alive cfg now` is the property text: accepted, not unsubscribed, not ended, `now < grantedAt + granted`,
`failures < MAX_NOTIFY_ERRORS`. `cfg.WF` = distinct subscriptions have distinct dispatch identifiers.
-/
namespace Sdc.C08
open Sdc.Eventing

/-- the messages handed to the transport by one op -/
def msgsOf : State × Out → List Msg
  | (_, .sent msgs) => msgs
  | _ => []

/-- manager configuration of a dispatch variant -/
def cfgOf (d : Dispatch) (maxDur maxErr : Nat) (checkDialect : Bool) : Cfg := ⟨d.mkKey, maxDur, maxErr, checkDialect⟩

/-! ## delivery -/

/-- after any history, the notifications of one report that go to subscriber `i`: exactly one, to its NotifyTo
    address, if the observer's record says alive and the filter matches; none otherwise -/
theorem delivered_exactly (cfg : Cfg) (hw : cfg.WF) (ops : List Op) (ov : List (Nat × Outcome)) (a : Str) (i : Nat) :
    (msgsOf (step cfg (reach cfg ops).1 (.notify a ov))).filter (fun msg => msg.sub == i) =
      match (reach cfg ops).2.recs i with
      | some r => if r.alive cfg (reach cfg ops).2.now ∧ suffixMatch r.filter a = true
                  then [⟨.notification a, i, r.notifyTo, (reach cfg ops).1.outcomeFor ov i r.notifyTo, r.notifyRefs⟩] else []
      | none => [] :=
  notify_filter (sim_reach hw ops) ov a i

/-- a notification for action `a` is handed to subscriber `i` ⇔ accepted ∧ ¬expired ∧ ¬unsubscribed ∧ ¬ended ∧
    failures < MAX ∧ the filter matches `a` (matching as the code does it) -/
theorem delivered_iff (cfg : Cfg) (hw : cfg.WF) (ops : List Op) (ov : List (Nat × Outcome)) (a : Str) (i : Nat) :
    (∃ msg ∈ msgsOf (step cfg (reach cfg ops).1 (.notify a ov)), msg.sub = i) ↔
      ∃ r, (reach cfg ops).2.recs i = some r ∧ r.alive cfg (reach cfg ops).2.now ∧ suffixMatch r.filter a = true := by
  have h := delivered_exactly cfg hw ops ov a i
  constructor
  · rintro ⟨msg, hm, hi⟩
    have hmem : msg ∈ (msgsOf (step cfg (reach cfg ops).1 (.notify a ov))).filter (fun msg => msg.sub == i) :=
      List.mem_filter.mpr ⟨hm, by simp [hi]⟩
    rw [h] at hmem
    cases hr : (reach cfg ops).2.recs i with
    | none => rw [hr] at hmem; cases hmem
    | some r =>
      rw [hr] at hmem
      by_cases hc : r.alive cfg (reach cfg ops).2.now ∧ suffixMatch r.filter a = true
      · exact ⟨r, rfl, hc.1, hc.2⟩
      · simp only [hc, if_false] at hmem; cases hmem
  · rintro ⟨r, hr, ha, hm⟩
    rw [hr] at h
    simp only [ha, hm, and_self, if_true] at h
    have : (⟨.notification a, i, r.notifyTo, (reach cfg ops).1.outcomeFor ov i r.notifyTo, r.notifyRefs⟩ : Msg) ∈
        (msgsOf (step cfg (reach cfg ops).1 (.notify a ov))).filter (fun msg => msg.sub == i) := by
      rw [h]; exact List.mem_singleton.mpr rfl
    exact ⟨_, (List.mem_filter.mp this).1, rfl⟩

/-- the code's matching (`endswith`) contains filter membership … -/
theorem match_of_mem (filter : List Str) (a : Str) (h : a ∈ filter) : suffixMatch filter a = true := by
  simp only [suffixMatch, List.any_eq_true]
  exact ⟨a, h, by simp⟩

/-- … and no action URI the provider can emit is a proper suffix of another one -/
theorem suffix_is_equality_on_real_actions :
    ∀ a ∈ Generated.Eventing.actions, ∀ f ∈ Generated.Eventing.actions, a.isSuffixOf f = true → a = f := by
  decide +kernel

/-- full statement of the filter clause: delivery requires the action to be *in* the filter -/
def filter_membership_full : Prop := ∀ (filter : List Str) (a : Str), suffixMatch filter a = true ↔ a ∈ filter

/-- it is false of the code: the filter entry `xA` matches the action `A` (known finding, replayed at run time) -/
theorem filter_membership_full_fails : ¬ filter_membership_full := by
  intro h
  have := (h [[120, 65]] [65]).mp (by decide)
  exact absurd this (by decide)

/-- for subscribers whose filter consists of real action URIs, matching *is* membership -/
theorem filter_membership_partial (filter : List Str) (a : Str) (ha : a ∈ Generated.Eventing.actions)
    (hf : ∀ f ∈ filter, f ∈ Generated.Eventing.actions) : suffixMatch filter a = true ↔ a ∈ filter := by
  constructor
  · intro h
    simp only [suffixMatch, List.any_eq_true] at h
    obtain ⟨f, hfm, hs⟩ := h
    have := suffix_is_equality_on_real_actions a ha f (hf f hfm) hs
    exact this ▸ hfm
  · exact match_of_mem filter a

/-! ## expiry -/

/-- Subscribe: the granted expiry never exceeds the provider maximum nor a requested duration > 0 -/
theorem granted_le_partial (cfg : Cfg) (st st' : State) (nt : Nat) (et : Option Nat) (f : Option (List Str)) (d : Bool)
    (e : Option Nat) (nr er : Bool) (i g : Nat) (h : step cfg st (.subscribe nt et f d e nr er) = (st', .subscribed i g)) :
    g ≤ cfg.maxDur ∧ ∀ r, e = some r → 0 < r → g ≤ r := by
  cases f with
  | none => simp [step] at h
  | some f =>
    by_cases hd : (cfg.checkDialect && !d) = true
    · simp [step, hd] at h
    · simp only [step, hd, Bool.false_eq_true, if_false, renewed_remaining, Prod.mk.injEq, Out.subscribed.injEq] at h
      obtain ⟨_, _, rfl⟩ := h
      exact ⟨grant_le_max cfg e, fun r he hr => he ▸ grant_le_req cfg r hr⟩

/-- … and what the code does for an absent `Expires` and for `PT0S`: the maximum -/
theorem granted_zero_or_absent (cfg : Cfg) (st st' : State) (nt : Nat) (et : Option Nat) (f : Option (List Str)) (d : Bool)
    (e : Option Nat) (nr er : Bool) (i g : Nat) (h : step cfg st (.subscribe nt et f d e nr er) = (st', .subscribed i g))
    (he : e = none ∨ e = some 0) : g = cfg.maxDur := by
  cases f with
  | none => simp [step] at h
  | some f =>
    by_cases hd : (cfg.checkDialect && !d) = true
    · simp [step, hd] at h
    · simp only [step, hd, Bool.false_eq_true, if_false, renewed_remaining, Prod.mk.injEq, Out.subscribed.injEq] at h
      obtain ⟨_, _, rfl⟩ := h
      rcases he with rfl | rfl <;> rfl

/-- full statement: the granted expiry never exceeds the requested duration -/
def granted_le_full : Prop :=
  ∀ (cfg : Cfg) (st st' : State) (nt : Nat) (et : Option Nat) (f : Option (List Str)) (d nr er : Bool) (r i g : Nat),
    step cfg st (.subscribe nt et f d (some r) nr er) = (st', .subscribed i g) → g ≤ r

/-- false of the code for `PT0S` (known finding, replayed at run time) -/
theorem granted_le_full_fails : ¬ granted_le_full := by
  intro h
  have := h (cfgOf .path 3000 1 true) init _ 0 none (some []) true true false 0 0 3000 rfl
  exact absurd this (by decide)

/-- Renew: same bounds; the answer is the new grant -/
theorem renew_granted_le (cfg : Cfg) (st st' : State) (k : Key) (e : Option Nat) (g : Nat)
    (h : step cfg st (.renew k e) = (st', .remaining g)) :
    g = grant cfg e ∧ g ≤ cfg.maxDur ∧ (∀ r, e = some r → 0 < r → g ≤ r) := by
  cases hf : st.find cfg k with
  | none => simp [step, hf] at h
  | some s =>
    simp only [step, hf, renewed_remaining, Prod.mk.injEq, Out.remaining.injEq] at h
    obtain ⟨_, rfl⟩ := h
    exact ⟨rfl, grant_le_max cfg e, fun r he hr => he ▸ grant_le_req cfg r hr⟩

/-- GetStatus after any history: an answer names a subscription the observer knows (not unsubscribed, not ended),
    equals `granted − elapsed` of the observer's record (10 ms raster), and changes nothing -/
theorem status_consistent (cfg : Cfg) (hw : cfg.WF) (ops : List Op) (k : Key) (st' : State) (x : Nat)
    (h : step cfg (reach cfg ops).1 (.getStatus k) = (st', .remaining x)) :
    st' = (reach cfg ops).1 ∧ ∃ i r, cfg.mkKey i = k ∧ (reach cfg ops).2.recs i = some r ∧ r.unsub = false ∧
      r.ended = false ∧ x = r.granted - ((reach cfg ops).2.now - r.grantedAt) := by
  have hs := sim_reach hw ops
  cases hf : (reach cfg ops).1.find cfg k with
  | none => simp [step, hf] at h
  | some s =>
    simp only [step, hf, Prod.mk.injEq, Out.remaining.injEq] at h
    obtain ⟨hk, hr, _, _⟩ := find_known hs hf
    obtain ⟨_, _, hu⟩ := find_some hf
    refine ⟨h.1.symm, s.id, s.repr, hk, hr, by simp [Sub.repr, hu], rfl, ?_⟩
    rw [← h.2, hs.now_eq]; rfl

/-- a subscription the observer considers alive is answered (never a fault), with exactly `granted − elapsed` -/
theorem status_of_alive (cfg : Cfg) (hw : cfg.WF) (ops : List Op) (i : Nat) (r : Rec)
    (hr : (reach cfg ops).2.recs i = some r) (ha : r.alive cfg (reach cfg ops).2.now) :
    step cfg (reach cfg ops).1 (.getStatus (cfg.mkKey i)) =
      ((reach cfg ops).1, .remaining (r.granted - ((reach cfg ops).2.now - r.grantedAt))) := by
  have hs := sim_reach hw ops
  obtain ⟨s, hf, _, rfl⟩ := find_of_alive hw hs hr (hs.now_eq ▸ ha)
  simp only [step, hf, hs.now_eq]; rfl

/-- Renew / Unsubscribe of a live subscription are accepted -/
theorem renew_unsubscribe_of_alive (cfg : Cfg) (hw : cfg.WF) (ops : List Op) (i : Nat) (r : Rec)
    (hr : (reach cfg ops).2.recs i = some r) (ha : r.alive cfg (reach cfg ops).2.now) :
    (∀ e, (step cfg (reach cfg ops).1 (.renew (cfg.mkKey i) e)).2 = .remaining (grant cfg e)) ∧
    (step cfg (reach cfg ops).1 (.unsubscribe (cfg.mkKey i))).2 = .unsubscribed := by
  have hs := sim_reach hw ops
  obtain ⟨s, hf, _, _⟩ := find_of_alive hw hs hr (hs.now_eq ▸ ha)
  exact ⟨fun e => by simp only [step, hf, renewed_remaining], by simp only [step, hf]⟩

/-! ## unknown identifiers -/

/-- a request whose identifier names no subscription the observer knows (never issued, unsubscribed, ended —
    also: right uuid in the wrong slot) is answered with a fault and changes nothing -/
theorem unknown_id_fault_noop (cfg : Cfg) (hw : cfg.WF) (ops : List Op) (k : Key)
    (hu : ∀ i, cfg.mkKey i = k → ¬ (reach cfg ops).2.known i) :
    (∀ e, step cfg (reach cfg ops).1 (.renew k e) = ((reach cfg ops).1, .fault)) ∧
    step cfg (reach cfg ops).1 (.getStatus k) = ((reach cfg ops).1, .fault) ∧
    step cfg (reach cfg ops).1 (.unsubscribe k) = ((reach cfg ops).1, .fault) := by
  have hf := find_none_of_unknown (sim_reach hw ops) k hu
  exact ⟨fun e => by simp only [step, hf], by simp only [step, hf], by simp only [step, hf]⟩

/-- "no longer known" is permanent: once a subscription was unsubscribed or ended, every later request naming it
    faults, whatever happens in between -/
theorem gone_forever (cfg : Cfg) (hw : cfg.WF) (ops later : List Op) (i : Nat) (hg : (reach cfg ops).2.gone i) :
    step cfg (reach cfg (ops ++ later)).1 (.getStatus (cfg.mkKey i)) = ((reach cfg (ops ++ later)).1, .fault) ∧
    (∀ e, step cfg (reach cfg (ops ++ later)).1 (.renew (cfg.mkKey i) e) = ((reach cfg (ops ++ later)).1, .fault)) ∧
    step cfg (reach cfg (ops ++ later)).1 (.unsubscribe (cfg.mkKey i)) = ((reach cfg (ops ++ later)).1, .fault) := by
  have hg' : (reach cfg (ops ++ later)).2.gone i := by
    rw [reach_append]
    exact gone_runBoth hw later _ _ (sim_reach hw ops) hg
  have hu : ∀ j, cfg.mkKey j = cfg.mkKey i → ¬ (reach cfg (ops ++ later)).2.known j := by
    intro j hj; rw [hw j i hj]; exact gone_not_known hg'
  have := unknown_id_fault_noop cfg hw (ops ++ later) (cfg.mkKey i) hu
  exact ⟨this.2.1, this.1, this.2.2⟩

/-- a confirmed Unsubscribe makes the subscription gone -/
theorem unsubscribed_is_gone (cfg : Cfg) (hw : cfg.WF) (ops : List Op) (i : Nat)
    (h : (step cfg (reach cfg ops).1 (.unsubscribe (cfg.mkKey i))).2 = .unsubscribed) :
    (reach cfg (ops ++ [.unsubscribe (cfg.mkKey i)])).2.gone i := by
  have hs := sim_reach hw ops
  rw [reach_snoc]
  cases hf : (reach cfg ops).1.find cfg (cfg.mkKey i) with
  | none => simp [step, hf] at h
  | some s =>
    obtain ⟨hk, hr, _, _⟩ := find_known hs hf
    have hi : s.id = i := hw _ _ hk
    subst hi
    simp only [step, hf, Mon.step, Mon.gone, if_true, hr, Option.map_some]
    exact Or.inl trivial

/-! ## provider stop -/

/-- stop with end messages: every subscription the observer considers alive gets exactly one SubscriptionEnd,
    addressed to EndTo if it gave one, else to NotifyTo; all others get none -/
theorem stop_ends_once (cfg : Cfg) (hw : cfg.WF) (ops : List Op) (ov : List (Nat × Outcome)) (i : Nat) :
    (msgsOf (step cfg (reach cfg ops).1 (.stop true ov))).filter (fun msg => msg.sub == i) =
      match (reach cfg ops).2.recs i with
      | some r => if r.alive cfg (reach cfg ops).2.now
                  then [⟨.subscriptionEnd, i, r.endTo.getD r.notifyTo, (reach cfg ops).1.outcomeFor ov i (r.endTo.getD r.notifyTo), r.endRefs⟩]
                  else []
      | none => [] :=
  stop_filter (sim_reach hw ops) ov i

/-- the addressing clause at full strength: the SubscriptionEnd echoes the reference parameters of the endpoint it is
    addressed to — those of EndTo if an EndTo endpoint was given (none if that has none), otherwise those of NotifyTo
    (holds since fix 8d3bd96; before, an EndTo endpoint without reference parameters was sent the NotifyTo ones) -/
theorem end_refs_full (r : Rec) : r.endRefs = r.endRefsSpec := by
  unfold Rec.endRefs Rec.endRefsSpec
  cases r.endTo <;> rfl

/-- end messages switched off: nothing is sent -/
theorem stop_off_sends_nothing (cfg : Cfg) (st : State) (ov : List (Nat × Outcome)) : msgsOf (step cfg st (.stop false ov)) = [] := rfl

/-- after stop every subscription accepted before is gone (ended): by `gone_forever` / `delivered_iff` it gets
    neither answers nor notifications any more -/
theorem stop_ends_all (cfg : Cfg) (ops : List Op) (b : Bool) (ov : List (Nat × Outcome)) (i : Nat) (r : Rec)
    (hr : (reach cfg ops).2.recs i = some r) : (reach cfg (ops ++ [.stop b ov])).2.gone i := by
  rw [reach_snoc]
  simp only [Mon.step, Mon.gone, hr, Option.map_some]
  exact Or.inr trivial

/-! ## dispatch variants and generated constants -/

/-- path- and reference-parameter dispatching are instances of the generic key: all theorems above apply -/
theorem dispatch_variants_wf (d : Dispatch) (maxDur maxErr : Nat) (cd : Bool) : (cfgOf d maxDur maxErr cd).WF :=
  Dispatch.mkKey_injective d

/-- the constants of the running code admit live subscriptions at all -/
theorem generated_constants_sane : 0 < Generated.Eventing.maxNotifyErrors ∧ 0 < Generated.Eventing.defaultMaxDur := by
  decide

/-! ## non-vacuity: a concrete history with a live, an unsubscribed, an expired and a failed subscription -/

def cfg0 : Cfg := cfgOf .ref 3000 1 true
def opsA : List Op :=
  [.subscribe 0 (some 1) (some [[65], [66]]) true (some 500) true true,   -- 0: stays alive, EndTo = 1
   .subscribe 2 none (some [[65]]) true (some 100) true false,              -- 1: expires at 100
   .subscribe 3 none (some [[120, 65]]) true none true false,               -- 2: will be unsubscribed (suffix filter `xA`)
   .subscribe 4 none (some [[65]]) true (some 0) false false,                -- 3: delivery will fail; PT0S -> maximum
   .setOutcome 4 .refused, .notify [65] [], .unsubscribe (some 2, none), .tick 100, .housekeeping]

example : (step cfg0 (reach cfg0 opsA).1 (.notify [65] [(0, .parseError)])).2 = .sent [⟨.notification [65], 0, 0, .parseError, .notify⟩] := by decide
example : ∃ r, (reach cfg0 opsA).2.recs 0 = some r ∧ r.alive cfg0 (reach cfg0 opsA).2.now := ⟨_, rfl, by decide⟩
example : ∃ r, (reach cfg0 opsA).2.recs 1 = some r ∧ ¬ r.alive cfg0 (reach cfg0 opsA).2.now := ⟨_, rfl, by decide⟩
example : (reach cfg0 opsA).2.gone 2 := by decide
example : (step cfg0 (reach cfg0 opsA).1 (.getStatus (some 0, none))).2 = .remaining 400 := by decide
example : (step cfg0 (reach cfg0 opsA).1 (.getStatus (some 2, none))).2 = .fault := by decide
example : (step cfg0 (reach cfg0 opsA).1 (.getStatus (none, some 0))).2 = .fault := by decide
example : (step cfg0 (reach cfg0 opsA).1 (.stop true [])).2 = .sent [⟨.subscriptionEnd, 0, 1, .ok, .endTo⟩] := by decide
example : (step cfg0 init (.subscribe 4 none (some [[65]]) true (some 0) true false)).2 = .subscribed 0 3000 := by decide

end Sdc.C08
