import SdcModel.ContextAssoc
import SdcModel.Proofs.ContextAssoc
import SdcModel.Generated.ContextLocks
/-!
# C10 — context association invariants hold after any sequence of context changes
Property theorems only. Model: `SdcModel/ContextAssoc.lean` (`set_location` and the SetContextState handler of the example
role providers, as repaired by the `fix:` commits listed in `known_findings/C10.json`); helper lemmas:
`SdcModel/Proofs/ContextAssoc.lean`.  `run env st ops` folds `step` over an arbitrary list of
`setLocation` / `setContextState` operations; `WF env st` is the well-formedness of the start table (unique handles
below the uuid supply and different from descriptor handles, at most one associated state per descriptor, an
associated state has no unbinding version).

The version an operation writes into Binding/UnbindingMdibVersion is `st.ver + 1` of the state it commits on: the model
reads the version and the table and commits in one `step`.  On the real code this atomicity is what `context_state_transaction()`
(`_transaction_manager`: `with self._tr_lock, self.mdib_lock`, `new_mdib_version` computed when the transaction object is
created inside it) provides.  It is tied to the source in two ways: `version_reads_inside_transaction` below (generated
from a dynamic trace on every run) and the schedule scenario of the harness (another transaction is open when the
operation starts and commits first, `Op.otherCommit` in the model), whose oracle compares the versions in the states
with the MdibVersion of the operation's own EpisodicContextReport.
-/
namespace Sdc.C10
open Sdc.Mdib Sdc.ContextAssoc

/-- every context descriptor has at most one associated state, after any operation sequence -/
theorem assoc_unique {env : Env} {st : St} (hwf : WF env st) (ops : List Op) (d : Handle) :
    ((run env st ops).tab.filter (fun s => s.dh == d && s.assoc == .assoc)).length ≤ 1 := by
  have wf := wf_run hwf ops
  apply filter_length_le_one wf.nodup
  intro a ha b hb hpa hpb
  simp only [Bool.and_eq_true, beq_iff_eq] at hpa hpb
  exact wf.uniq a ha b hb (hpa.1.trans hpb.1.symm) hpa.2 hpb.2

/-- context state handles stay unique in the whole MDIB: no two states share a handle, none is a descriptor handle -/
theorem ctx_handles_unique {env : Env} {st : St} (hwf : WF env st) (ops : List Op) :
    ((run env st ops).tab.map (·.h)).Nodup ∧ ∀ s ∈ (run env st ops).tab, s.h ∉ env.handles :=
  ⟨(wf_run hwf ops).nodup, (wf_run hwf ops).not_descr⟩

/-- a state that was associated before an operation still exists after it, and if it is no longer associated it is
`Dis`, its unbinding version is the MdibVersion of that commit (the old version + 1) and its end time is the time of
that operation (the clock value the operation read; in particular it is set – whatever binding attributes the state
carried before, e.g. a client-supplied BindingEndTime of a state that was proposed as `Pre` and associated later).
(`ops` may contain `otherCommit`s; "old version" is the version at the moment the operation owns the transaction lock,
see the header and `version_reads_inside_transaction`.) -/
theorem unbind_marked {env : Env} {st : St} (hwf : WF env st) (ops : List Op) (op : Op) (a : CState)
    (ha : a ∈ (run env st ops).tab) (haa : a.assoc = .assoc) :
    ∃ b ∈ (step env (run env st ops) op).1.tab, b.h = a.h ∧
      (b.assoc ≠ .assoc →
        (step env (run env st ops) op).1.ver = (run env st ops).ver + 1 ∧
        b.assoc = .dis ∧ b.unbindV = some (step env (run env st ops) op).1.ver ∧
        b.unbindT = some (run env st ops).clock) := by
  have wf := wf_run hwf ops
  have ok := step_ok wf op
  obtain ⟨b, hb, hab⟩ := ok.post.keep a ha
  refine ⟨b, hb, hab, fun hba => ?_⟩
  have hm := ok.post.unb a ha haa b hb hab hba
  rcases ok.ver with ⟨ht, _⟩ | hv
  · rw [ht] at hb
    have := eq_of_h_eq wf.nodup hb ha hab
    exact absurd (this ▸ haa) hba
  · exact ⟨hv, hm⟩

/-- a state that is associated after an operation and was not before (or did not exist) has the MdibVersion of that
commit (the old version + 1) as binding version and the time of that operation as start time -/
theorem bind_marked {env : Env} {st : St} (hwf : WF env st) (ops : List Op) (op : Op) (b : CState)
    (hb : b ∈ (step env (run env st ops) op).1.tab) (hba : b.assoc = .assoc)
    (hnew : ∀ a ∈ (run env st ops).tab, a.h = b.h → a.assoc ≠ .assoc) :
    (step env (run env st ops) op).1.ver = (run env st ops).ver + 1 ∧
    b.bindV = some (step env (run env st ops) op).1.ver ∧ b.bindT = some (run env st ops).clock := by
  have wf := wf_run hwf ops
  have ok := step_ok wf op
  have hm := ok.post.bnd b hb hba hnew
  rcases ok.ver with ⟨ht, _⟩ | hv
  · rw [ht] at hb
    exact absurd hba (hnew b hb rfl)
  · exact ⟨hv, hm⟩

/-- every read of `mdib.mdib_version` made by the thread of a context operation (SetContextState handler, set_location;
traced scenarios regenerated on every run into `Generated/ContextLocks.lean`) happens while that thread holds the
transaction lock: the hypothesis "version read and commit are one atomic step" of the model -/
theorem version_reads_inside_transaction :
    ∀ r ∈ Generated.ContextLocks.versionReads, r.2.2 = 0 := by decide

/-- the SetContextState handler fetches its working copies of the context states (`mdib.entities.by_handle`) only while
it holds the transaction lock: what it reads is the table it commits on (the model reads `st.tab` in the same `step`).
The forced two-writer schedule of the harness is the behavioural tie for the same fact. -/
theorem entity_reads_inside_transaction :
    ∀ r ∈ Generated.ContextLocks.entityReads, r.2.2 = 0 := by decide

/-- the MdibVersion moves by at most one per operation, and not at all when the table is unchanged -/
theorem version_step {env : Env} {st : St} (hwf : WF env st) (ops : List Op) (op : Op) :
    ((step env (run env st ops) op).1.tab = (run env st ops).tab ∧
      (step env (run env st ops) op).1.ver = (run env st ops).ver) ∨
    (step env (run env st ops) op).1.ver = (run env st ops).ver + 1 :=
  (step_ok (wf_run hwf ops) op).ver

/-- a rejected SetContextState changes nothing but the clock (from every state, well-formed or not) -/
theorem rejected_proposal_noop (env : Env) (st : St) (ps : List CState) (e : Err)
    (h : (step env st (.setContextState ps)).2 = .err e) :
    (step env st (.setContextState ps)).1 = { st with clock := st.clock + 1 } := by
  simp only [step, setContextState] at h ⊢
  split at h
  · rename_i hc; simp [hc]
  · rename_i hc
    split at h
    · simp [hc]
    · rename_i k hk
      split at h
      · rename_i ht; simp [hc, ht]
      · simp at h

/-- a failed set_location leaves table and MdibVersion alone (only `_location` and the clock change) -/
theorem rejected_location_noop (env : Env) (st : St) (loc : Nat) (dh : Option Handle) (e : Err)
    (h : (step env st (.setLocation loc dh)).2 = .err e) :
    (step env st (.setLocation loc dh)).1.tab = st.tab ∧ (step env st (.setLocation loc dh)).1.ver = st.ver ∧
    (step env st (.setLocation loc dh)).1.fresh = st.fresh := by
  simp only [step, setLocation] at h ⊢
  split at h
  · rename_i h1; simp [h1]
  · rename_i h1
    split at h
    · simp [h1]
    · rename_i d hd
      split at h
      · simp [h1]
      · rename_i ddv hddv
        split at h
        · rename_i hl
          have hl' : d ∉ env.locs := by simpa using hl
          simp [h1, hl']
        · simp at h

/-- set_location repairs a corrupt table: from *any* state, a set_location that commits leaves exactly one
associated state for the location descriptor it worked on -/
theorem set_location_one_associated (env : Env) (st : St) (loc : Nat) (dh : Option Handle)
    (hv : (step env st (.setLocation loc dh)).1.ver ≠ st.ver) :
    ∃ d, locDescr env dh = .ok d ∧
      ((step env st (.setLocation loc dh)).1.tab.filter (fun s => s.dh == d && s.assoc == .assoc)).length = 1 := by
  simp only [step, setLocation] at hv ⊢
  split
  · rename_i h1; simp [h1] at hv
  · rename_i h1
    split
    · rename_i hd; simp [h1, hd] at hv
    · rename_i d hd
      split
      · rename_i hddv; simp [h1, hd, hddv] at hv
      · rename_i ddv hddv
        split
        · rename_i hl
          have hl' : d ∉ env.locs := by simpa using hl
          simp [h1, hd, hddv, hl'] at hv
        · refine ⟨d, hd, ?_⟩
          have hnone : ((st.tab.map (disOne false d none (st.ver + 1) st.clock)).map
              (bumpSv st.tab (disHandles false d none st.tab))).filter (fun s => s.dh == d && s.assoc == .assoc) = [] := by
            apply List.filter_eq_nil_iff.2
            intro b hb hp
            obtain ⟨s, hs, rfl⟩ := List.mem_map.1 hb
            simp only [Bool.and_eq_true, beq_iff_eq] at hp
            have hc := bumpSv_core st.tab (disHandles false d none st.tab) s
            rw [hc.2.1, hc.2.2.1] at hp
            exact dis_none_assoc false d st.tab s hs hp.1 hp.2
          rw [List.filter_append, hnone]
          simp

/-! ### the hypotheses are satisfiable; the model on a concrete history -/

/-- patient (1), location (2), ensemble (3) context descriptors, two other descriptors -/
def env0 : Env := { ctx := [(1, 2), (2, 2), (3, 0)], other := [10, 11], locs := [2] }

def st0 : St :=
  { tab := [ { h := 100, dh := 1, dv := 2, sv := 0, body := 7, assoc := .assoc, bindV := some 3, unbindV := none,
               bindT := some 5, unbindT := none },
             { h := 101, dh := 1, dv := 2, sv := 1, body := 8, assoc := .dis, bindV := some 1, unbindV := some 3,
               bindT := some 2, unbindT := some 5 } ],
    ver := 5, clock := 100, fresh := 1000, loc := none }

example : WF env0 st0 := ⟨by decide, by decide, by decide, by decide, by decide, by decide⟩

def prop (h dh : Handle) (a : Assoc) : CState :=
  { h := h, dh := dh, dv := 2, sv := 0, body := 9, assoc := a, bindV := none, unbindV := none, bindT := none, unbindT := none }

/-- set a location, a new patient replaces the associated one, the new one is disassociated by an update,
an illegal proposal is rejected -/
def ops0 : List Op :=
  [.setLocation 4 none, .setContextState [prop 1 1 .assoc], .setContextState [prop 1001 1 .dis],
   .setContextState [prop 1000 2 .no]]

example : ((run env0 st0 ops0).tab.map fun s => (s.h, s.assoc, s.bindV, s.unbindV)) =
    [(100, .dis, some 3, some 7), (101, .dis, some 1, some 3), (1000, .assoc, some 6, none),
     (1001, .dis, some 7, some 8)] := by decide

example : (run env0 st0 ops0).ver = 8 := by decide

/-- the trace is not empty and every scenario did read the version under the lock -/
example : Generated.ContextLocks.versionReads ≠ [] ∧ ∀ r ∈ Generated.ContextLocks.versionReads, 0 < r.2.1 := by decide

/-- the handler did fetch entities in the traced SetContextState scenarios -/
example : ∃ r ∈ Generated.ContextLocks.entityReads, 0 < r.2.1 := by decide

/-- the theorems cover interleaved commits of other transactions: the versions follow the operation's own commit -/
example : ((run env0 st0 [.otherCommit, .setContextState [prop 1 1 .assoc], .otherCommit]).tab.map
    fun s => (s.h, s.bindV, s.unbindV)) = [(100, some 3, some 7), (101, some 1, some 3), (1000, some 7, none)] ∧
    (run env0 st0 [.otherCommit, .setContextState [prop 1 1 .assoc], .otherCommit]).ver = 8 := by decide

def propEnd : CState :=
  { h := 3, dh := 3, dv := 0, sv := 0, body := 9, assoc := .pre, bindV := none, unbindV := none, bindT := none, unbindT := some 260 }

/-- client-supplied binding attributes: a new `Pre` state keeps the proposed end time (260), is associated by an update
(binding version 6, start time 101) and replaced by a new associated state: unbinding version 7 and end time 102 -/
example : ((run env0 st0 [.setContextState [propEnd], .setContextState [prop 1000 3 .assoc],
      .setContextState [prop 3 3 .assoc]]).tab.filter (·.dh == 3)).map
      (fun s => ((s.h, s.assoc), (s.bindV, s.unbindV), (s.bindT, s.unbindT))) =
    [((1000, .dis), (some 7, some 8), (some 101, some 102)), ((1001, .assoc), (some 8, none), (some 102, none))] := by
  decide

/-- `unbind_marked` is not vacuous: state 100 is associated, the second operation disassociates it -/
example : ∃ a ∈ (run env0 st0 (ops0.take 1)).tab, a.assoc = .assoc ∧
    ∃ b ∈ (step env0 (run env0 st0 (ops0.take 1)) (.setContextState [prop 1 1 .assoc])).1.tab, b.h = a.h ∧ b.assoc ≠ .assoc := by
  decide

/-- `bind_marked` is not vacuous: the same operation creates the associated state 1001 -/
example : ∃ b ∈ (step env0 (run env0 st0 (ops0.take 1)) (.setContextState [prop 1 1 .assoc])).1.tab,
    b.assoc = .assoc ∧ ∀ a ∈ (run env0 st0 (ops0.take 1)).tab, a.h = b.h → a.assoc ≠ .assoc := by
  decide

/-- `rejected_proposal_noop` is not vacuous: an associated state cannot be set to `No` -/
example : (step env0 (run env0 st0 (ops0.take 3)) (.setContextState [prop 1000 2 .no])).2 = .err .valueError := by decide

/-- two associated proposals for one descriptor are rejected -/
example : (step env0 st0 (.setContextState [prop 1 1 .assoc, prop 101 1 .assoc])).2 = .err .valueError := by decide

/-- `set_location_one_associated` on a corrupt table (two associated location states) -/
example : ∃ st : St, ¬ (∀ a ∈ st.tab, ∀ b ∈ st.tab, a.dh = b.dh → a.assoc = .assoc → b.assoc = .assoc → a.h = b.h) ∧
    (step env0 st (.setLocation 4 none)).1.ver ≠ st.ver :=
  ⟨{ st0 with tab := [{ prop 100 2 .assoc with }, { prop 101 2 .assoc with }] }, by decide, by decide⟩

end Sdc.C10
