import SdcModel.Reports
import SdcModel.Proofs.Reports
import SdcModel.Proofs.SendOrder
import SdcModel.Proofs.SendComplete
import SdcModel.Generated.WriterProg
/-!
# C04 — reports are complete, truthful and delivered in version order (property theorems)
Model: `SdcModel/Reports.lean` (report construction from a TransactionResult), `SdcModel/SendOrder.lean`
(interleaving semantics of writer threads); writer programs: `Generated/WriterProg.lean` (traced from the real commit path).
-/
namespace Sdc.C04
open Sdc.Mdib Sdc.SendOrder

/-- every report of a transaction carries exactly the committed version group -/
theorem reports_carry_version_group (t : Tables) (vg : VersionGroup) (r : TxResult) :
    ∀ rep ∈ mkReports t vg r, rep.vg = vg := by
  intro rep h
  simp only [mkReports, stateReport, List.mem_append] at h
  rcases h with (((((h | h) | h) | h) | h) | h) | h <;>
    (split at h <;> simp at h <;> subst h <;> rfl)

/-- an empty transaction result produces no report at all -/
theorem no_report_without_change (t : Tables) (vg : VersionGroup) : mkReports t vg {} = [] := by
  simp [mkReports, stateReport]

def Rep.sStates : Rep → List SState
  | .states _ _ parts => parts.flatMap (·.2)
  | _ => []
def Rep.cStates : Rep → List CState
  | .ctx _ parts => parts.flatMap (·.2)
  | _ => []

theorem stateReport_sStates (t : Tables) (vg : VersionGroup) (k : ReportKind) (l : List SState) :
    ((stateReport t vg k l).flatMap Rep.sStates).Perm l := by
  unfold stateReport
  split
  · rename_i h; simp at h; subst h; simp
  · simpa [Rep.sStates] using groupBy_flat (fun s => (mdsOfState t s.dh).getD 0) l

theorem stateReport_cStates (t : Tables) (vg : VersionGroup) (k : ReportKind) (l : List SState) :
    (stateReport t vg k l).flatMap Rep.cStates = [] := by
  unfold stateReport; split <;> simp [Rep.cStates]

/-- completeness and truthfulness of the episodic reports: the single states transported by the state reports of a
    transaction are exactly the states of its result — nothing lost, nothing invented, nothing twice -/
theorem episodic_reports_exact (t : Tables) (vg : VersionGroup) (r : TxResult) :
    ((mkReports t vg r).flatMap Rep.sStates).Perm r.allS := by
  simp only [mkReports, List.flatMap_append, TxResult.allS]
  have hd : (if (r.descrUpdated.isEmpty && r.descrCreated.isEmpty && r.descrDeleted.isEmpty) = true then []
      else [Rep.descr vg (r.descrUpdated.map (mkDPart r .update) ++ r.descrCreated.map (mkDPart r .create)
                ++ r.descrDeleted.map (mkDPart r .delete))]).flatMap Rep.sStates = [] := by
    split <;> simp [Rep.sStates]
  have hc : (if r.ctx.isEmpty = true then [] else [Rep.ctx vg (groupBy (fun c => (mdsOfState t c.dh).getD 0) r.ctx)]).flatMap
      Rep.sStates = [] := by
    split <;> simp [Rep.sStates]
  rw [hd, hc]
  simp only [List.nil_append, List.append_nil]
  exact ((((stateReport_sStates t vg .metric r.metric).append (stateReport_sStates t vg .alert r.alert)).append
    (stateReport_sStates t vg .component r.comp)).append (stateReport_sStates t vg .operational r.op)).append
    (stateReport_sStates t vg .waveform r.rt)

/-- the same for context states -/
theorem context_report_exact (t : Tables) (vg : VersionGroup) (r : TxResult) :
    ((mkReports t vg r).flatMap Rep.cStates).Perm r.ctx := by
  simp only [mkReports, List.flatMap_append, stateReport_cStates, List.append_nil]
  have hd : (if (r.descrUpdated.isEmpty && r.descrCreated.isEmpty && r.descrDeleted.isEmpty) = true then []
      else [Rep.descr vg (r.descrUpdated.map (mkDPart r .update) ++ r.descrCreated.map (mkDPart r .create)
                ++ r.descrDeleted.map (mkDPart r .delete))]).flatMap Rep.cStates = [] := by
    split <;> simp [Rep.cStates]
  rw [hd]
  simp only [List.nil_append]
  split
  · rename_i h; simp at h; simp [h]
  · simpa [Rep.cStates] using groupBy_flat (fun c => (mdsOfState t c.dh).getD 0) r.ctx

/-- grouped under the MDS they belong to: within a state report every part holds states of one MDS (its SourceMds),
    and no two parts of a report have the same MDS -/
theorem parts_grouped_by_mds (t : Tables) (vg : VersionGroup) (k : ReportKind) (l : List SState)
    (parts : List (Handle × List SState)) (h : stateReport t vg k l = [.states k vg parts])
    (hm : allHaveMds t (l.map (·.dh)) = true) :
    (∀ p ∈ parts, ∀ s ∈ p.2, mdsOfState t s.dh = some p.1) ∧ (parts.map (·.1)).Nodup := by
  unfold stateReport at h
  split at h
  · cases h
  · simp only [List.cons.injEq, Rep.states.injEq, and_true, true_and] at h
    subst h
    refine ⟨fun p hp s hs => ?_, groupBy_keys_nodup _ l⟩
    have hk := groupBy_keysOK (fun s => (mdsOfState t s.dh).getD 0) l p hp s hs
    have hl : s ∈ l := (groupBy_flat (fun s => (mdsOfState t s.dh).getD 0) l).subset
      (List.mem_flatMap.mpr ⟨p, hp, hs⟩)
    have : (mdsOfState t s.dh).isSome = true := by
      simp only [allHaveMds, List.all_map, List.all_eq_true, Function.comp] at hm
      exact hm s hl
    obtain ⟨m, hmm⟩ := Option.isSome_iff_exists.mp this
    simp only [hmm, Option.getD_some] at hk
    rw [hmm, hk]

/-- description modification report: one part per descriptor, updated then created then deleted, each with exactly
    the result states of that descriptor -/
theorem description_parts_exact (t : Tables) (vg : VersionGroup) (r : TxResult) (parts : List DPart)
    (h : Rep.descr vg parts ∈ mkReports t vg r) :
    parts.map (fun p => (p.mod, p.descr)) =
      r.descrUpdated.map (fun d => (ModType.update, d)) ++ r.descrCreated.map (fun d => (ModType.create, d))
        ++ r.descrDeleted.map (fun d => (ModType.delete, d))
    ∧ ∀ p ∈ parts, p.parent = p.descr.parent ∧ p.mds = p.descr.mds
        ∧ p.states = r.allS.filter (fun s => s.dh == p.descr.handle) := by
  simp only [mkReports, stateReport, List.mem_append] at h
  rcases h with (((((h | h) | h) | h) | h) | h) | h
  · split at h
    · cases h
    · simp only [List.mem_singleton, Rep.descr.injEq, true_and] at h
      subst h
      refine ⟨by simp [List.map_append, mkDPart, Function.comp_def], ?_⟩
      intro p hp
      simp only [List.mem_append, List.mem_map] at hp
      rcases hp with (⟨d, _, rfl⟩ | ⟨d, _, rfl⟩) | ⟨d, _, rfl⟩ <;> simp [mkDPart]
  all_goals (split at h <;> simp at h)

/-! ### delivery order under concurrent writers -/

/-- Under ANY interleaving of ANY number of writer threads whose programs keep the version write and the sends inside one
    critical section of the mdib lock, the versions handed to a subscription manager are in non-decreasing order. -/
theorem delivery_ordered (c₀ c : Cfg) (ho : ∀ l, c₀.owner l = none) (hl : c₀.log = [])
    (hp : ∀ i, WellLocked (c₀.thr i).prog) (hr : Reach c₀ c) : c.log.Pairwise (· ≤ ·) :=
  (good_reach (good_init c₀ ho hl hp) hr).sorted

/-- a subscriber receives a sub-sequence (its filter, its liveness) of what the manager was handed: still ordered -/
theorem subscriber_view_ordered (c₀ c : Cfg) (ho : ∀ l, c₀.owner l = none) (hl : c₀.log = [])
    (hp : ∀ i, WellLocked (c₀.thr i).prog) (hr : Reach c₀ c) (view : List Nat) (hv : view.Sublist c.log) :
    view.Pairwise (· ≤ ·) :=
  (delivery_ordered c₀ c ho hl hp hr).sublist hv

/-- every version that was sent had been committed -/
theorem sent_versions_committed (c₀ c : Cfg) (ho : ∀ l, c₀.owner l = none) (hl : c₀.log = [])
    (hp : ∀ i, WellLocked (c₀.thr i).prog) (hr : Reach c₀ c) : ∀ v ∈ c.log, v ≤ c.ver :=
  (good_reach (good_init c₀ ho hl hp) hr).bound

/-- ... and none is skipped: when every writer program sends after each version write inside the same critical section
    (`Complete`), then under ANY interleaving, once all writers have finished, every version committed since the start has been
    handed to the subscription managers -/
theorem every_commit_reported (c₀ c : Cfg) (ho : ∀ l, c₀.owner l = none) (hl : c₀.log = [])
    (hp : ∀ i, WellLocked (c₀.thr i).prog) (hc : ∀ i, Complete (c₀.thr i).prog) (hr : Reach c₀ c)
    (hdone : ∀ i, (c.thr i).prog = []) : ∀ v, c₀.ver < v → v ≤ c.ver → v ∈ c.log := by
  intro v h1 h2
  have k := cov_reach (good_init c₀ ho hl hp) (cov_init c₀ hc) hr
  rcases k.cov v h1 h2 with h | ⟨_, i, _, _, h3⟩
  · exact h
  · rw [hdone i] at h3; simp [cs] at h3

/-- together with `delivery_ordered`: the handed-over versions are exactly the committed ones, in order (a gap-free run) -/
theorem reports_gap_free (c₀ c : Cfg) (ho : ∀ l, c₀.owner l = none) (hl : c₀.log = [])
    (hp : ∀ i, WellLocked (c₀.thr i).prog) (hc : ∀ i, Complete (c₀.thr i).prog) (hr : Reach c₀ c)
    (hdone : ∀ i, (c.thr i).prog = []) :
    c.log.Pairwise (· ≤ ·) ∧ (∀ v ∈ c.log, v ≤ c.ver) ∧ (∀ v, c₀.ver < v → v ≤ c.ver → v ∈ c.log) :=
  ⟨delivery_ordered c₀ c ho hl hp hr, sent_versions_committed c₀ c ho hl hp hr,
   every_commit_reported c₀ c ho hl hp hc hr hdone⟩

/-- the traced writer programs send after every version write -/
theorem generated_writers_complete : Complete Generated.writerSync ∧ Complete Generated.writerAsync := by decide

example : ¬ Complete [.acq 0, .acq 1, .incVer, .rel 1, .rel 0] := by decide

/-- the writer programs traced from the real commit path (sync and async subscription managers) are well-locked -/
theorem generated_writers_wellLocked :
    WellLocked Generated.writerSync ∧ WellLocked Generated.writerAsync := by decide

/-- the hypothesis is not vacuous and it matters: a writer that sends after releasing the lock is rejected -/
example : ¬ WellLocked [.acq 0, .acq 1, .incVer, .rel 1, .send, .rel 0] := by decide
example : WellLocked [.acq 0, .acq 1, .incVer, .send, .send, .rel 1, .rel 0] := by decide

end Sdc.C04
