import SdcModel.MdibDescr
import SdcModel.Proofs.MdibMono
import SdcModel.Proofs.MdibHist
import SdcModel.Generated.HandOuts
/-! # C03 — transactions are atomic (property theorems over the provider model)
A transaction that does not commit (application raised, API call rejected, consistency check failed) returns exactly the
tables it started from and an empty result; a commit over well-formed tables cannot die half-way. -/
set_option linter.unusedSimpArgs false
namespace Sdc.C03
open Sdc.Mdib

/-- an aborted state transaction (application raises) leaves the tables as they were and reports nothing -/
theorem abort_noop_state (t : Tables) (s : SScript) (h : s.raiseAtEnd = true) :
    (runS t s).1 = t ∧ (runS t s).2.1 = {} := by
  unfold runS
  split <;> simp [h]

theorem abort_noop_context (t : Tables) (s : CScript) (h : s.raiseAtEnd = true) :
    (runC t s).1 = t ∧ (runC t s).2.1 = {} := by
  unfold runC
  split <;> simp [h]

theorem abort_noop_descriptor (t : Tables) (s : DScript) (h : s.raiseAtEnd = true) :
    (runD t s).1 = t ∧ (runD t s).2.1 = {} := by
  unfold runD
  split <;> simp [h]

/-- outcome `aborted` / `rejected` (a call the API rejected propagated out of the block) ⇒ tables equal, nothing reported -/
theorem rejected_noop_state (t : Tables) (s : SScript) (h : (runS t s).2.2 = .rejected ∨ (runS t s).2.2 = .aborted) :
    (runS t s).1 = t ∧ (runS t s).2.1 = {} := by
  revert h; unfold runS
  split
  · simp
  · split
    · simp
    · split
      · simp
      · split <;> simp

theorem rejected_noop_context (t : Tables) (s : CScript) (h : (runC t s).2.2 = .rejected ∨ (runC t s).2.2 = .aborted) :
    (runC t s).1 = t ∧ (runC t s).2.1 = {} := by
  revert h; unfold runC
  split
  · simp
  · split
    · simp
    · split
      · simp
      · split <;> simp

theorem rejected_noop_descriptor (t : Tables) (s : DScript) (h : (runD t s).2.2 = .rejected ∨ (runD t s).2.2 = .aborted) :
    (runD t s).1 = t ∧ (runD t s).2.1 = {} := by
  revert h; unfold runD
  split
  · simp
  · split
    · simp
    · split
      · simp
      · split <;> simp

/-- a descriptor commit refused by the consistency check has changed nothing (the check runs before the first write) -/
theorem commit_rejected_noop (t : Tables) (tx : DTx) (h : consistentD t tx = false) :
    (commitD t tx).1 = t ∧ (commitD t tx).2.1 = {} := by
  unfold commitD
  split
  · simp
  · simp [h]

/-- a state transaction over well-formed tables never dies in the middle of its commit -/
theorem commit_never_fails (t : Tables) (s : SScript) (hw : WF t) : (runS t s).2.2 ≠ .commitFailed := (runS_ok hw s).1

/-- a context transaction over well-formed tables never dies in the middle of its commit, provided the handles generated
    for new context states are fresh (not the handle of a live context state) -/
theorem commit_never_fails_context (t : Tables) (s : CScript) (hw : WF t) (hf : FreshUuids t s) :
    (runC t s).2.2 ≠ .commitFailed := runC_ok hw s hf

/-- the hypothesis is needed: a colliding generated handle kills the commit after MdibVersion was incremented -/
theorem commit_fails_on_uuid_collision :
    ∃ (t : Tables) (s : CScript), WF t ∧ (runC t s).2.2 = .commitFailed ∧ (runC t s).1 ≠ t :=
  ⟨{ ver := 1, descrs := [⟨4, none, .context, 0, 0, some 4⟩],
     ctx := [{ h := 10, dh := 4, dv := 0, sv := 2, body := 0, assoc := .no, bindV := none, unbindV := none, bindT := none, unbindT := none }] },
   ⟨[.mk 4 10 false false 8 0], false, false⟩, by decide⟩

/-- a descriptor transaction over well-formed tables (`KOK`: kind discipline, `DScriptOK`: well-formed entities for
    `write_entity`) never dies half-way: the only commit-time failure is the consistency check, which runs before the
    first write -/
theorem commit_never_fails_descriptor_partial (t : Tables) (s : DScript) (hw : WF t) (hk : KOK t) (hs : DScriptOK t s)
    (hf : (runD t s).2.2 = .commitFailed) : (runD t s).1 = t ∧ (runD t s).2.1 = {} := by
  refine ⟨(runD_ok hw hk s hs).1 hf, ?_⟩
  revert hf; unfold runD
  split
  · simp
  · split
    · simp
    · split
      · simp
      · split <;> simp

/-- all seven kinds: a transaction that does not end `committed` has changed nothing -/
theorem transaction_all_or_nothing (t : Tables) (sc : Script) (hw : WF t) (hk : KOK t) (h : StepOK true t sc)
    (hn : (runScript t sc).2.2 ≠ .committed) : (runScript t sc).1 = t := by
  by_cases hf : (runScript t sc).2.2 = .commitFailed
  · exact runScript_atomic hw hk sc h hf
  · apply runScript_unchanged
    revert hn hf
    cases (runScript t sc).2.2 <;> simp

/-- Isolation, tie to the source: for every hand-out route of the real provider MDIB (transaction getters of all kinds,
    entity getters, transaction results, the object kept by the application after a commit) and one object of every state /
    descriptor class of the bundled MDIBs, the handed-out object shares NO mutable object (found with `is` at any nesting
    depth) with the object stored in the MDIB. The table is regenerated from the running code on every run. -/
theorem generated_handouts_private : ∀ h ∈ Generated.handOuts, h.2.2 = 0 := by decide +kernel

/-- the table is not empty: all routes were observed -/
theorem generated_handouts_cover_routes :
    ["get_state", "get_descriptor", "descriptor_tx.get_state", "entities.by_handle.state", "entities.by_handle.descriptor",
     "result_vs_table", "result_vs_handed_out", "handed_out_vs_table_after_commit", "get_context_state_after_commit",
     "context_result_vs_table", "entities.by_handle.states", "entities.by_node_type.states",
     "entities.by_parent_handle.states", "entities.items.states", "entity.update.states", "entity.update.state", "mdib.get_entity", "mdib.get_context_entity"].all (fun r => Generated.handOuts.any (fun h => h.1 == r)) = true := by decide +kernel

/-! ### known finding: a failure of the observers that send the reports is not rolled back
`_transaction_manager` assigns `self.transaction = result` (observers serialise and send the reports) after
`process_transaction` has applied the transaction. -/

/-- the transaction manager with an observer that may raise while sending: the exception reaches the application
    (`none` result), the tables are the committed ones -/
def runWithObserver (t : Tables) (sc : Script) (observerRaises : Bool) : Tables × Bool :=
  let r := runScript t sc
  (r.1, observerRaises && r.2.2 == .committed)

/-- the full statement "a failing commit leaves the MDIB as it was" including failures while the reports are sent -/
def C03_atomic_with_observers_full : Prop :=
  ∀ (t : Tables) (sc : Script), (runWithObserver t sc true).2 = true → (runWithObserver t sc true).1 = t

/-- it is false of the code (known finding `commit-failed-in-report-serialisation-changed-mdib`; witness replayed on the
    implementation by the harness): any committing script changes the version although the application sees an exception -/
theorem C03_atomic_with_observers_full_fails : ¬ C03_atomic_with_observers_full := by
  intro h
  have := h { descrs := [⟨1, none, .metric, 0, 0, some 1⟩], states := [⟨1, 0, 0, .metric, 0⟩] }
    (.s { kind := .metric, calls := [.get 1] }) (by decide)
  revert this
  decide

end Sdc.C03
