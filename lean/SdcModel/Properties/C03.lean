import SdcModel.MdibDescr
/-! # C03 — transactions are atomic (property theorems) -/
namespace Sdc.C03
open Sdc.Mdib

/-- an aborted state transaction (application raises) leaves the tables as they were and reports nothing -/
theorem abort_noop_state (t : Tables) (s : SScript) (h : s.raiseAtEnd = true) :
    (runS t s).1 = t ∧ (runS t s).2.1 = {} := by
  unfold runS
  split <;> simp [h]

end Sdc.C03
