import SdcModel.LockLts
import SdcModel.Proofs.LockLts
import SdcModel.Properties.C07
import SdcModel.Generated.PeriodicProg
import SdcModel.Proofs.PeriodicStore
import SdcModel.Generated.PeriodicStoreProg
/-!
# C04 (periodic reports): the copies collected for a periodic report are a snapshot of the version they are labelled with
The collector of `PeriodicReportsHandler._periodic_reports_send_loop` is a reader in the interleaving semantics of
`SdcModel/LockLts.lean` (the model of C07): it reads the label (`mdib_version`) and copies the states. Its program is
traced from one real iteration (`Generated/PeriodicProg.lean`, regenerated on every run).
-/
namespace Sdc.C04
open Sdc.LockLts

/-- the traced collector reads label and states inside one critical section of `mdib_lock`, writes nothing and mutates nothing -/
theorem generated_periodic_collector_wellLocked :
    WellLocked Generated.prog_periodicCollector ∧ ReadOnly Generated.prog_periodicCollector
      ∧ NoMutate Generated.prog_periodicCollector ∧ Generated.prog_periodicCollector ≠ [] := by
  decide

/-- For any number of concurrently committing writer threads with well-locked programs and ANY interleaving, a completed
    run of the (traced) collector has observed exactly one published (MdibVersion, description, states) triple: the state
    copies it retains show the values of the version they are labelled with. -/
theorem periodic_copies_are_snapshot (c0 c : Cfg) (h0 : Init c0)
    (hw : ∀ j, WellLocked (c0.thr j).prog ∧ NoMutate (c0.thr j).prog) (hr : Reach c0 c)
    (i : Nat) (hi : (c.thr i).prog = Generated.prog_periodicCollector) (hd : (c.thr i).todo = []) :
    ∃ p ∈ c.hist, Consistent (c.thr i) p :=
  Sdc.C07.wellLocked_snapshot c0 c h0 hw hr i (by rw [hi]; exact generated_periodic_collector_wellLocked.2.1) hd

/-- the discipline matters: a collector that reads the label before taking the lock, or a state after releasing it, is rejected -/
example : ¬ WellLocked [.rdV, .acq 0, .rdC, .rel 0] := by decide
example : ¬ WellLocked [.acq 0, .rdV, .rdC, .rel 0, .rdC] := by decide

/-! ## the store of the fixed-interval periodic reports (`SdcModel/PeriodicStore.lean`) -/
open Sdc.PeriodicStore in
/-- what one period of the real loop does to each of the five store lists (traced on every run) is the program the theorems
    below speak of: copy and empty inside ONE critical section of the store lock, send after it -/
theorem generated_store_programs_good :
    Generated.periodicStoreProgs.map (·.1) = ["metric", "alert", "component", "context", "operational"]
      ∧ ∀ p ∈ Generated.periodicStoreProgs, p.2 = good := by
  decide

open Sdc.PeriodicStore in
/-- For ANY interleaving of commits (`put`) with the blocks of the collector, at every moment: what has been sent in periodic
    reports, followed by what the collector holds, followed by what is still stored, is exactly what the commits stored, in
    their order – nothing lost, nothing twice, nothing invented, whenever the writers run relative to the collector. -/
theorem periodic_store_conserves (evs : List Ev) :
    (run good {} evs).out ++ (run good {} evs).tmp ++ (run good {} evs).store = puts evs := by
  have := (run_inv evs {} [] inv_init).1
  simpa using this

open Sdc.PeriodicStore in
/-- … and after three more blocks of the collector (at most one and a half periods) without a commit in between, every state that
    any commit stored has been sent in a periodic report exactly once, in commit order -/
theorem periodic_store_flushes (evs : List Ev) : (run good {} (evs ++ [.col, .col, .col])).out = puts evs := by
  rw [run_append]
  have h := run_inv evs {} [] inv_init
  simpa using flush _ _ h

/-- the discipline matters: emptying the store only after the send loses what a commit stored in between (here: 2) -/
example : (Sdc.PeriodicStore.run [[.take], [.send], [.clear]] {}
    [.put 1, .col, .put 2, .col, .col, .col, .col, .col, .col, .col, .col]).out = [1] := by decide
/-- … and copying outside the critical section that empties it does as well -/
example : (Sdc.PeriodicStore.run [[.take], [.clear], [.send]] {}
    [.put 1, .col, .put 2, .col, .col, .col, .col, .col]).out = [1] := by decide
/-- the hypothesis is met by a non-trivial run -/
example : (Sdc.PeriodicStore.run Sdc.PeriodicStore.good {} [.put 1, .col, .put 2, .col, .put 3, .col, .col, .col]).out = [1, 2, 3] := by decide

end Sdc.C04
