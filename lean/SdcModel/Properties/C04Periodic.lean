import SdcModel.LockLts
import SdcModel.Proofs.LockLts
import SdcModel.Properties.C07
import SdcModel.Generated.PeriodicProg
/-!
# C04 (periodic reports): the copies collected for a periodic report are a snapshot of the version they are labelled with
The collector of `PeriodicReportsHandler._periodic_reports_send_loop` is a reader in the interleaving semantics of
`SdcModel/LockLts.lean` (the model of C07): it reads the label (`mdib_version`) and copies the states. Its program is
traced from one real iteration (`Generated/PeriodicProg.lean`, regenerated on every run).
-/
namespace Sdc.C04
open Sdc.LockLts

/-- the traced collector reads label and states inside one critical section of `mdib_lock`, writes nothing and mutates nothing -/
theorem generated_periodic_collector_wellLocked :
    WellLocked Generated.prog_periodicCollector ∧ ReadOnly Generated.prog_periodicCollector
      ∧ NoMutate Generated.prog_periodicCollector ∧ Generated.prog_periodicCollector ≠ [] := by
  decide

/-- For any number of concurrently committing writer threads with well-locked programs and ANY interleaving, a completed
    run of the (traced) collector has observed exactly one published (MdibVersion, description, states) triple: the state
    copies it retains show the values of the version they are labelled with. -/
theorem periodic_copies_are_snapshot (c0 c : Cfg) (h0 : Init c0)
    (hw : ∀ j, WellLocked (c0.thr j).prog ∧ NoMutate (c0.thr j).prog) (hr : Reach c0 c)
    (i : Nat) (hi : (c.thr i).prog = Generated.prog_periodicCollector) (hd : (c.thr i).todo = []) :
    ∃ p ∈ c.hist, Consistent (c.thr i) p :=
  Sdc.C07.wellLocked_snapshot c0 c h0 hw hr i (by rw [hi]; exact generated_periodic_collector_wellLocked.2.1) hd

/-- the discipline matters: a collector that reads the label before taking the lock, or a state after releasing it, is rejected -/
example : ¬ WellLocked [.rdV, .acq 0, .rdC, .rel 0] := by decide
example : ¬ WellLocked [.acq 0, .rdV, .rdC, .rel 0, .rdC] := by decide

end Sdc.C04
