import SdcModel.Query
import SdcModel.Proofs.Query
/-!
# C20 — query services return exactly the selected states and texts
Property theorems only. Model and specification vocabulary (`WF`, `SelMdState`, `SelCtx`, `Under`, `Unknown`,
`Satisfies`, `IsLatest`): `SdcModel/Query.lean`; helper lemmas: `SdcModel/Proofs/Query.lean`.
All theorems hold for every MDIB content `m`, every handle list, every text store and every filter parameters.
-/
namespace Sdc.C20
open Sdc.Query

/-- GetMdState returns exactly the states selected by the BICEPS rules (empty list: all states; a descriptor
    handle: all its states; a context state handle: that state), each at most once -/
theorem mdstate_exact (m : Mdib) (wf : WF m) (ctxIncluded : Bool) (hs : List Handle) :
    (∀ s, s ∈ getMdState m ctxIncluded hs ↔ SelMdState m ctxIncluded hs s) ∧
    (getMdState m ctxIncluded hs).Nodup :=
  ⟨mem_getMdState wf ctxIncluded hs, nodup_getMdState wf ctxIncluded hs⟩

/-- GetContextStates returns exactly the selected context states (incl. the MDS rule), each at most once -/
theorem ctxstates_exact (m : Mdib) (wf : WF m) (hs : List Handle) :
    (∀ c, c ∈ getContextStates m hs ↔ SelCtx m hs c) ∧ (getContextStates m hs).Nodup :=
  getContextStates_spec wf hs

/-- the MDS rule on its own: the handle of an MDS yields exactly the context states whose descriptor lies in the
    containment tree of that MDS -/
theorem ctxstates_mds (m : Mdib) (wf : WF m) (h : Handle) (hmds : IsMds m h) (c : St) :
    c ∈ getContextStates m [h] ↔ c ∈ m.ctxs ∧ Under m h c.dh := by
  rw [(ctxstates_exact m wf [h]).1 c]
  obtain ⟨d, hd, hdh, hm⟩ := hmds
  simp only [SelCtx, List.cons_ne_nil, List.mem_singleton, exists_eq_left, false_or]
  constructor
  · rintro ⟨hc, hh | hh | ⟨_, hu⟩⟩
    · exact absurd (hh.trans hdh.symm) (wf.noCtxOfMds d hd hm c hc).1
    · exact absurd (hh.trans hdh.symm) (wf.noCtxOfMds d hd hm c hc).2
    · exact ⟨hc, hu⟩
  · rintro ⟨hc, hu⟩
    exact ⟨hc, Or.inr (Or.inr ⟨⟨d, hd, hdh, hm⟩, hu⟩)⟩

/-- the bounded walk of `get_all_descriptors_in_subtree` used for the MDS rule is complete and sound -/
theorem subtree_exact (m : Mdib) (r h : Handle) : h ∈ subtree m m.descrs.length r ↔ Under m r h :=
  mem_subtree_iff

/-- a handle that names nothing in the MDIB contributes nothing: dropping it from the list does not change the
    answer (the remaining list must stay non-empty, the empty list means "all"), and alone it selects nothing -/
theorem unknown_contributes_nothing (m : Mdib) (h : Handle) (hu : Unknown m h) (ctxIncluded : Bool)
    (pre post : List Handle) :
    (pre ++ post ≠ [] →
      getMdState m ctxIncluded (pre ++ h :: post) = getMdState m ctxIncluded (pre ++ post) ∧
      getContextStates m (pre ++ h :: post) = getContextStates m (pre ++ post)) ∧
    getMdState m ctxIncluded [h] = [] ∧ getContextStates m [h] = [] := by
  refine ⟨fun hne => ⟨getMdState_unknown hu ctxIncluded pre post hne, getContextStates_unknown hu pre post hne⟩, ?_, ?_⟩
  · cases ctxIncluded <;>
      simp [getMdState, collectMdState, resolveMd_unknown hu, statesOf_unknown hu, dedup]
  · simp [getContextStates, resolveCtx_unknown hu]

/-- every returned text is a stored text and satisfies every constraint that is given -/
theorem texts_sound (s : List Text) (refs : List String) (ver : Option Nat) (langs : List String)
    (widths nols : List Nat) (t : Text) (h : t ∈ filterTexts s refs ver langs widths nols) :
    t ∈ s ∧ Satisfies refs ver langs widths nols t :=
  filterTexts_sound h

/-- without constraints exactly the texts of the latest version are returned (as a multiset) -/
theorem texts_complete_unconstrained (s : List Text) :
    (filterTexts s [] none [] [] []).Perm (s.filter (fun t => t.version = latest s)) ∧ IsLatest s (latest s) :=
  ⟨filterTexts_unconstrained s, latest_isLatest s⟩

/-- GetSupportedLanguages lists exactly the stored languages, each once -/
theorem languages_exact (s : List Text) :
    (∀ l, l ∈ supportedLanguages s ↔ ∃ t ∈ s, t.lang = some l) ∧ (supportedLanguages s).Nodup :=
  ⟨fun _ => mem_supportedLanguages, nodup_dedup _⟩

/-! ### non-vacuity: a two-MDS MDIB satisfying `WF`, with the selections computed by the model -/

def exMdib : Mdib :=
  { descrs := [⟨"mds0", none, true⟩, ⟨"sc0", some "mds0", false⟩, ⟨"pc0", some "sc0", false⟩,
               ⟨"mds1", none, true⟩, ⟨"sc1", some "mds1", false⟩, ⟨"lc1", some "sc1", false⟩]
    states := [⟨false, "", "mds0"⟩, ⟨false, "", "sc0"⟩, ⟨false, "", "mds1"⟩, ⟨false, "", "sc1"⟩]
    ctxs := [⟨true, "p1", "pc0"⟩, ⟨true, "p2", "pc0"⟩, ⟨true, "l1", "lc1"⟩] }

example : WF exMdib :=
  { statesNodup := by decide, statesSingle := by decide, ctxsMulti := by decide, ctxHandles := by decide,
    descrHandles := by decide, handleNoDh := by decide, noCtxOfMds := by decide }

example : getContextStates exMdib ["mds1"] = [⟨true, "l1", "lc1"⟩] := by decide
example : getContextStates exMdib ["mds0", "p1", "pc0", "nope"] = [⟨true, "p1", "pc0"⟩, ⟨true, "p2", "pc0"⟩] := by decide
example : getMdState exMdib true ["sc0", "p2", "sc0", "pc0"] =
    [⟨false, "", "sc0"⟩, ⟨true, "p2", "pc0"⟩, ⟨true, "p1", "pc0"⟩] := by decide
example : IsMds exMdib "mds1" ∧ Unknown exMdib "nope" := by
  refine ⟨⟨⟨"mds1", none, true⟩, by decide, rfl, rfl⟩, by decide, by decide, by decide⟩
example : Under exMdib "mds1" "lc1" :=
  Under.child (d := ⟨"lc1", some "sc1", false⟩) (by decide) rfl
    (Under.child (d := ⟨"sc1", some "mds1", false⟩) (by decide) rfl Under.root)

def exStore : List Text :=
  [⟨0, some "a", some "en", some 1, some 0, 1⟩, ⟨1, some "a", some "en", some 2, some 2, 2⟩,
   ⟨2, some "a", some "de", some 2, some 4, 3⟩, ⟨3, some "b", none, some 2, none, 1⟩]

example : (filterTexts exStore ["a"] (some 2) ["en", "de"] [3] [2, 3]).map (·.id) = [1, 1] := by decide
example : (filterTexts exStore [] none [] [] []).map (·.id) = [1, 2, 3] := by decide
example : supportedLanguages exStore = ["en", "de"] := by decide

end Sdc.C20
