import SdcModel.Proofs.MdibResultFinal
/-!
# C04 (result clauses) — the TransactionResult contains exactly what the transaction changed, with the committed values

`r` = TransactionResult handed to the report builders, `t'` = tables after a committed transaction. Helper lemmas are in
`Proofs/MdibResult*.lean`; `WF`, `KOK`, `FreshUuids`, `DScriptOK` as in `Properties/C02.lean`.
-/
set_option linter.unusedSimpArgs false
namespace Sdc.C04
open Sdc.Mdib

/-! ## examples -/

def rT : Tables where
  ver := 5
  descrs := [⟨1, none, .component, 3, 0, some 1⟩, ⟨3, some 1, .metric, 1, 0, some 1⟩, ⟨4, some 1, .context, 1, 0, some 1⟩]
  states := [⟨1, 3, 4, .component, 0⟩, ⟨3, 1, 0, .metric, 0⟩]
  ctx := [{ h := 10, dh := 4, dv := 1, sv := 2, body := 0, assoc := .assoc, bindV := none, unbindV := none, bindT := none, unbindT := none }]
  dSaved := [(6, 4)]
  sSaved := [(6, 9)]
  cSaved := [(12, 3)]

def rS : SScript := ⟨.metric, [.get 3, .setBody 3 5], false, false⟩
def rC : CScript := ⟨[.get 10, .mk 4 11 false true 7 0, .del 10], false, false⟩
def rCS : CState :=
  { h := 10, dh := 4, dv := 0, sv := 0, body := 7, assoc := .assoc, bindV := none, unbindV := none, bindT := none, unbindT := none }
def rD : DScript :=
  ⟨[.getDescr 1, .getState 1, .removeDescr 3, .addDescr ⟨6, some 1, .metric, 0, 9, none⟩ (some 2),
    .writeEntity ⟨4, some 1, .context, 0, 5, some 1⟩ none (some [rCS])], false, false⟩

example : WF rT ∧ KOK rT ∧ FreshUuids rT rC ∧ DScriptOK rT rD := by decide
example : (runS rT rS).2.2 = .committed ∧ (runS rT rS).2.1.allS = [⟨3, 1, 1, .metric, 5⟩] := by decide
/-- the deleted context state 10 is not in the result, the new one is -/
example : (runC rT rC).2.2 = .committed ∧ (runC rT rC).2.1.ctx.map (·.h) = [11] ∧ findC (runC rT rC).1 10 = none := by decide
example : (runD rT rD).2.2 = .committed ∧ (runD rT rD).2.1.descrCreated.map (·.handle) = [6] ∧
    (runD rT rD).2.1.descrUpdated.map (·.handle) = [1, 4] ∧ (runD rT rD).2.1.descrDeleted.map (·.handle) = [3] ∧
    (runD rT rD).2.1.allS.map (·.dh) = [6, 1] ∧ (runD rT rD).2.1.ctx.map (·.h) = [10] := by decide

/-! ## state transactions (all five kinds) -/

/-- every reported state is the state the tables hold after the commit -/
theorem result_truthful_state (t t' : Tables) (r : TxResult) (s : SScript) (hw : WF t) (h : runS t s = (t', r, .committed)) :
    ∀ x ∈ r.allS, findS t' x.dh = some x := (result_truthful_S hw h).1

/-- no state is reported twice -/
theorem result_nodup_state (t t' : Tables) (r : TxResult) (s : SScript) (hw : WF t) (h : runS t s = (t', r, .committed)) :
    (r.allS.map (·.dh)).Nodup := (result_truthful_S hw h).2

/-- every single state that differs after the commit is reported (`s.kind ≠ .context`: there is no state transaction of
    the context kind; the model's `putStates` has no list for it) -/
theorem result_complete_state (t t' : Tables) (r : TxResult) (s : SScript) (hw : WF t) (hk : s.kind ≠ .context)
    (h : runS t s = (t', r, .committed)) (x : Handle) (hne : findS t' x ≠ findS t x) : ∃ y ∈ r.allS, y.dh = x :=
  result_complete_S hw hk h x hne

/-- the unconditional statement -/
def C04_result_complete_state_full : Prop :=
  ∀ (t t' : Tables) (r : TxResult) (s : SScript), WF t → runS t s = (t', r, .committed) →
    ∀ x, findS t' x ≠ findS t x → ∃ y ∈ r.allS, y.dh = x

/-- ... is false of the model for the (non-existent) state transaction of kind `context`: it writes a state and reports nothing -/
theorem C04_result_complete_state_full_false : ¬ C04_result_complete_state_full := by
  intro h
  have := h { descrs := [⟨3, none, .metric, 0, 0, some 3⟩] } _ _ ⟨.context, [.write 3 .context 0 0 false], false, false⟩
    (by decide) rfl 3 (by decide)
  revert this; decide

/-- nothing else is in the result of a state transaction -/
theorem result_only_states (t t' : Tables) (r : TxResult) (s : SScript) (hw : WF t) (h : runS t s = (t', r, .committed)) :
    r.ctx = [] ∧ r.descrCreated = [] ∧ r.descrUpdated = [] ∧ r.descrDeleted = [] := by
  obtain ⟨items, _, _, rfl, _⟩ := runS_committed hw h
  cases s.kind <;> exact ⟨rfl, rfl, rfl, rfl⟩

/-! ## context state transactions -/

theorem result_truthful_context (t t' : Tables) (r : TxResult) (s : CScript) (hw : WF t) (hf : FreshUuids t s)
    (h : runC t s = (t', r, .committed)) : ∀ x ∈ r.ctx, findC t' x.h = some x := (result_truthful_C hw hf h).1

theorem result_nodup_context (t t' : Tables) (r : TxResult) (s : CScript) (hw : WF t) (hf : FreshUuids t s)
    (h : runC t s = (t', r, .committed)) : (r.ctx.map (·.h)).Nodup ∧ r.allS = [] :=
  (result_truthful_C hw hf h).2

/-- every context state that differs after the commit is reported - unless it was deleted (`write_entity` without the
    state): a deleted context state cannot be reported -/
theorem result_complete_context (t t' : Tables) (r : TxResult) (s : CScript) (hw : WF t) (hf : FreshUuids t s)
    (h : runC t s = (t', r, .committed)) (x : Handle) (hne : findC t' x ≠ findC t x) :
    (∃ y ∈ r.ctx, y.h = x) ∨ findC t' x = none := result_complete_C hw hf h x hne

/-! ## descriptor transactions (under the kind discipline `KOK` and well-formed entities `DScriptOK`) -/

/-- a created descriptor is in the tables exactly as reported -/
theorem result_truthful_created_partial (t t' : Tables) (r : TxResult) (s : DScript) (hw : WF t) (hk : KOK t) (hs : DScriptOK t s)
    (h : runD t s = (t', r, .committed)) : ∀ d ∈ r.descrCreated, findD t' d.handle = some d :=
  (runD_result hw hk s hs h).created

/-- an updated descriptor (updated by the script, or a parent whose version was bumped) is in the tables with the reported
    version, content and kind (for script updates the reported record is the handed-out copy; the table keeps parent and
    source mds of the old record) -/
theorem result_truthful_updated_partial (t t' : Tables) (r : TxResult) (s : DScript) (hw : WF t) (hk : KOK t) (hs : DScriptOK t s)
    (h : runD t s = (t', r, .committed)) :
    ∀ d ∈ r.descrUpdated, ∃ d', findD t' d.handle = some d' ∧ d'.ver = d.ver ∧ d'.body = d.body ∧ d'.kind = d.kind :=
  (runD_result hw hk s hs h).updated

/-- a descriptor reported as deleted is gone -/
theorem result_truthful_deleted_partial (t t' : Tables) (r : TxResult) (s : DScript) (hw : WF t) (hk : KOK t) (hs : DScriptOK t s)
    (h : runD t s = (t', r, .committed)) : ∀ d ∈ r.descrDeleted, findD t' d.handle = none :=
  (runD_result hw hk s hs h).deleted

/-- the reported single and context states are the committed ones -/
theorem result_truthful_descriptor_states_partial (t t' : Tables) (r : TxResult) (s : DScript) (hw : WF t) (hk : KOK t)
    (hs : DScriptOK t s) (h : runD t s = (t', r, .committed)) :
    (∀ x ∈ r.allS, findS t' x.dh = some x) ∧ (∀ c ∈ r.ctx, findC t' c.h = some c) :=
  ⟨(runD_result hw hk s hs h).states, (runD_result hw hk s hs h).ctx⟩

/-- completeness: a descriptor that differs (or is new, or gone) is in one of the three descriptor lists; a state that
    differs is reported or gone (removed with its descriptor / deleted context state) -/
theorem result_complete_descriptor_partial (t t' : Tables) (r : TxResult) (s : DScript) (hw : WF t) (hk : KOK t)
    (hs : DScriptOK t s) (h : runD t s = (t', r, .committed)) :
    (∀ x, findD t' x ≠ findD t x → x ∈ (r.descrCreated ++ r.descrUpdated ++ r.descrDeleted).map (·.handle)) ∧
    (∀ x, findS t' x ≠ findS t x → (∃ y ∈ r.allS, y.dh = x) ∨ findS t' x = none) ∧
    (∀ x, findC t' x ≠ findC t x → (∃ y ∈ r.ctx, y.h = x) ∨ findC t' x = none) :=
  ⟨(runD_result hw hk s hs h).completeD, (runD_result hw hk s hs h).completeS, (runD_result hw hk s hs h).completeC⟩

end Sdc.C04
