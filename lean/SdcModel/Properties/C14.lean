import SdcModel.Discovery
import SdcModel.Proofs.Discovery
import SdcModel.Generated.DiscoveryConsts
/-!
# C14 — WS-Discovery answers and records exactly what its matching rules prescribe
Property theorems only. Model: `SdcModel/Discovery.lean` (on `Basic/Url.lean`, `UdpRepeat.lean`), compared on every run with
`wsdimpl.match_scope / matches_filter` and with a real `WSDiscovery` fed with SOAP datagrams through `_run_q_read`.
`chk` = the library checks inside `urlsplit` (every theorem holds for every `chk`), `r` = the `MatchBy` URIs
(`Generated.Discovery.rules` is what the running code uses).
-/
namespace Sdc.C14
open Sdc.Discovery Sdc.Url Sdc.Percent

/-! ## matching -/

/-- **RFC 3986 rule.** For URIs `urlsplit` accepts, the probe scope matches the service scope iff scheme and authority are
    equal up to ASCII case and the percent-decoded path segments of the probe scope are a (segment-wise) prefix of those
    of the service scope. Query and fragment play no role. -/
theorem match_rfc3986_iff (chk : Bytes → Bool) (r : Rules) (mine other : Bytes) (m : Option Bytes)
    (hk : ruleKind r m = .uriLike) (a b : Split) (ha : urlsplit chk mine = some a) (hb : urlsplit chk other = some b) :
    matchScope chk r mine other m = .ok true ↔
      lower a.scheme = lower b.scheme ∧ lower a.netloc = lower b.netloc ∧
        decodedSegments a.path <+: decodedSegments b.path := by
  unfold matchScope
  simp only [hk, ha, hb, Except.ok.injEq]
  exact uriMatch_iff a b

/-- … and the comparison always yields a Boolean for such URIs; it raises `ValueError` exactly when `urlsplit` rejects one -/
theorem match_rfc3986_defined (chk : Bytes → Bool) (r : Rules) (mine other : Bytes) (m : Option Bytes)
    (hk : ruleKind r m = .uriLike) :
    (∃ v, matchScope chk r mine other m = .ok v) ↔ (urlsplit chk mine ≠ none ∧ urlsplit chk other ≠ none) := by
  unfold matchScope
  simp only [hk]
  cases urlsplit chk mine <;> cases urlsplit chk other <;> simp

/-- **String rule.** `strcmp0` matching is exact equality of the two strings. -/
theorem match_strcmp_iff (chk : Bytes → Bool) (r : Rules) (mine other : Bytes) (m : Option Bytes)
    (hk : ruleKind r m = .strcmp) : matchScope chk r mine other m = .ok true ↔ mine = other := by
  unfold matchScope
  simp [hk]

theorem match_strcmp_defined (chk : Bytes → Bool) (r : Rules) (mine other : Bytes) (m : Option Bytes)
    (hk : ruleKind r m = .strcmp) : matchScope chk r mine other m = .ok (mine == other) := by
  unfold matchScope
  simp [hk]

/-- **Unknown rule** ⇒ no match. -/
theorem match_unknown_rule (chk : Bytes → Bool) (r : Rules) (mine other : Bytes) (m : Option Bytes)
    (hk : ruleKind r m = .unknown) : matchScope chk r mine other m = .ok false := by
  unfold matchScope
  simp [hk]

/-- which rule a `MatchBy` value selects, for the URIs of the running code: absent / empty / rfc3986 / ldap / uuid use the
    URI comparison, strcmp0 the string comparison, everything else (e.g. another case) is unknown -/
theorem generated_rule_kinds :
    ruleKind Generated.Discovery.rules none = .uriLike ∧
    ruleKind Generated.Discovery.rules (some []) = .uriLike ∧
    ruleKind Generated.Discovery.rules (some Generated.Discovery.rules.uri) = .uriLike ∧
    ruleKind Generated.Discovery.rules (some Generated.Discovery.rules.ldap) = .uriLike ∧
    ruleKind Generated.Discovery.rules (some Generated.Discovery.rules.uuid) = .uriLike ∧
    ruleKind Generated.Discovery.rules (some Generated.Discovery.rules.strcmp) = .strcmp ∧
    ruleKind Generated.Discovery.rules (some (Generated.Discovery.rules.strcmp ++ [32])) = .unknown ∧
    ruleKind Generated.Discovery.rules (some (Generated.Discovery.rules.uri.map fun b => if 97 ≤ b ∧ b ≤ 122 then b - 32 else b)) = .unknown := by
  decide

/-- the namespace `http://docs.oasis-open.org/ws-dd/ns/discovery/2009/01` of WS-Discovery 1.1 -/
def wsdNamespace : Bytes :=
  [104, 116, 116, 112, 58, 47, 47, 100, 111, 99, 115, 46, 111, 97, 115, 105, 115, 45, 111, 112, 101, 110, 46, 111, 114, 103, 47, 119, 115, 45, 100, 100, 47, 110, 115, 47, 100, 105, 115, 99, 111, 118, 101, 114, 121, 47, 50, 48, 48, 57, 47, 48, 49]

/-- the rule URIs of the running code are the ones of WS-Discovery 1.1 (section 5.1):
    `…/ldap`, `…/rfc3986`, `…/uuid`, `…/strcmp0` -/
theorem generated_rules_standard :
    Generated.Discovery.rules.ldap = wsdNamespace ++ [47, 108, 100, 97, 112] ∧
    Generated.Discovery.rules.uri = wsdNamespace ++ [47, 114, 102, 99, 51, 57, 56, 54] ∧
    Generated.Discovery.rules.uuid = wsdNamespace ++ [47, 117, 117, 105, 100] ∧
    Generated.Discovery.rules.strcmp = wsdNamespace ++ [47, 115, 116, 114, 99, 109, 112, 48] := by
  decide

/-- the generated constants are the four distinct WS-Discovery rule URIs under one namespace -/
theorem generated_rules_distinct :
    Generated.Discovery.rules.uri ≠ Generated.Discovery.rules.strcmp ∧
    Generated.Discovery.rules.ldap ≠ Generated.Discovery.rules.strcmp ∧
    Generated.Discovery.rules.uuid ≠ Generated.Discovery.rules.strcmp ∧ Generated.Discovery.rules.strcmp ≠ [] ∧
    0 < Generated.Discovery.knownIdsMaxlen := by
  decide

/-- algebra of the URI rule: reflexive … -/
theorem match_refl (chk : Bytes → Bool) (r : Rules) (u : Bytes) (m : Option Bytes) (hk : ruleKind r m = .uriLike)
    (hu : urlsplit chk u ≠ none) : matchScope chk r u u m = .ok true := by
  obtain ⟨a, ha⟩ := Option.ne_none_iff_exists'.mp hu
  exact (match_rfc3986_iff chk r u u m hk a a ha ha).mpr ⟨rfl, rfl, List.prefix_refl _⟩

/-- … and transitive (a probe scope matching `v` matches everything `v` matches) -/
theorem match_trans (chk : Bytes → Bool) (r : Rules) (u v w : Bytes) (m : Option Bytes) (hk : ruleKind r m = .uriLike)
    (h1 : matchScope chk r u v m = .ok true) (h2 : matchScope chk r v w m = .ok true) :
    matchScope chk r u w m = .ok true := by
  have d1 := (match_rfc3986_defined chk r u v m hk).mp ⟨_, h1⟩
  have d2 := (match_rfc3986_defined chk r v w m hk).mp ⟨_, h2⟩
  obtain ⟨a, ha⟩ := Option.ne_none_iff_exists'.mp d1.1
  obtain ⟨b, hb⟩ := Option.ne_none_iff_exists'.mp d1.2
  obtain ⟨c, hc⟩ := Option.ne_none_iff_exists'.mp d2.2
  have p1 := (match_rfc3986_iff chk r u v m hk a b ha hb).mp h1
  have p2 := (match_rfc3986_iff chk r v w m hk b c hb hc).mp h2
  exact (match_rfc3986_iff chk r u w m hk a c ha hc).mpr
    ⟨p1.1.trans p2.1, p1.2.1.trans p2.2.1, p1.2.2.trans p2.2.2⟩

/-- an encoded slash is not a segment separator: `/a%2Fb` does not match `/a/b` although `/a` does -/
theorem encoded_slash_is_not_a_separator :
    matchScope (fun _ => true) Generated.Discovery.rules [120, 58, 47, 97, 37, 50, 70, 98] [120, 58, 47, 97, 47, 98] none = .ok false ∧
    matchScope (fun _ => true) Generated.Discovery.rules [120, 58, 47, 97] [120, 58, 47, 97, 47, 98] none = .ok true ∧
    matchScope (fun _ => true) Generated.Discovery.rules [120, 58, 47, 97, 47] [120, 58, 47, 97, 47, 98] none = .ok false := by
  decide

/-! ## Probe and Resolve -/

/-- **Probe answer exact.** Whenever the Probe handler does not raise, it leaves the state alone and queues one ProbeMatch
    for exactly those published services that offer all requested types and have, for every requested scope, a scope
    matching it under the requested rule (`wanted`), in publication order. -/
theorem probe_answer_exact (chk : Bytes → Bool) (r : Rules) (st st' : State) (types : Option (List QName))
    (scopes : Option Scopes) (outs : List Out) (h : handle chk r st (.probe types scopes) = .ok (st', outs)) :
    st' = st ∧ outs = (st.local_.values.filter (wanted chk r types scopes)).map .probeMatch := by
  simp only [handle] at h
  split at h
  · cases h
  · rename_i l hl
    simp only [Except.ok.injEq, Prod.mk.injEq] at h
    exact ⟨h.1.symm, by rw [← h.2, filterServices_ok hl]⟩

/-- … and it does not raise when every published service has a types list and all scope pairs can be compared
    (`Comparable`: for the URI rule both are URIs accepted by `urlsplit`) -/
theorem probe_answer_defined (chk : Bytes → Bool) (r : Rules) (st : State) (types : Option (List QName))
    (scopes : Option Scopes) (h : ∀ s ∈ st.local_.values, Comparable chk r scopes s) :
    handle chk r st (.probe types scopes) =
      .ok (st, (st.local_.values.filter (wanted chk r types scopes)).map .probeMatch) := by
  simp only [handle]
  rw [filterServices_total types h]

/-- membership form of the statement: a service is answered iff it is published and wanted -/
theorem probe_answer_mem (chk : Bytes → Bool) (r : Rules) (st st' : State) (types : Option (List QName))
    (scopes : Option Scopes) (outs : List Out) (h : handle chk r st (.probe types scopes) = .ok (st', outs)) (s : Service) :
    Out.probeMatch s ∈ outs ↔ s ∈ st.local_.values ∧ wanted chk r types scopes s = true := by
  rw [(probe_answer_exact chk r st st' types scopes outs h).2]
  simp [List.mem_filter]

/-- **Resolve.** A Resolve is answered only for a published endpoint reference, and then with that service. -/
theorem resolve_only_published (chk : Bytes → Bool) (r : Rules) (st : State) (epr : Bytes) :
    handle chk r st (.resolve epr) =
      .ok (st, match st.local_.get epr with
        | some s => [.resolveMatch s]
        | none => []) := by
  simp only [handle]
  cases st.local_.get epr <;> rfl

/-- published means: `publish_service` was called for the epr and `clear_service` not since -/
theorem published_get (st : State) (epr : Bytes) (types : Option (List QName)) (scopes : Option Scopes)
    (xaddrs : List Bytes) (inst : Nat) (e : Bytes) :
    (publish st epr types scopes xaddrs inst).local_.get e =
      if e = epr then some ⟨epr, types, scopes, xaddrs, nextMv (st.local_.get epr), inst⟩
      else st.local_.get e := by
  unfold publish
  by_cases h : e = epr
  · subst h; simp [Table.get_set_same]
  · simp [h, Table.get_set_other _ _ _ _ h]

theorem cleared_get (st st' : State) (epr : Bytes) (h : clearService st epr = some st') (e : Bytes) :
    st'.local_.get e = if e = epr then none else st.local_.get e := by
  unfold clearService at h
  split at h
  · cases h
  · simp only [Option.some.injEq] at h
    subst h
    by_cases he : e = epr
    · subst he; simp [Table.get_del_same]
    · simp [he, Table.get_del_other _ _ _ he]

/-! ## the table of discovered services -/

/-- **Remote table exact.** After every sequence of messages (Hello / ProbeMatches / ResolveMatches / Bye / anything else,
    with or without AppSequence, in any order, with duplicates) starting from an empty table, the entry of a non-empty
    endpoint reference `e` is `entry` of the announcements for `e` since its last Bye: absent iff there was none, else the
    first announcement with the highest metadata version updated by the later ones carrying that version. -/
theorem remote_table_exact (chk : Bytes → Bool) (r : Rules) (st : State) (hst : st.remote = []) (ms : List Msg)
    (e : Bytes) (he : e ≠ []) :
    (run chk r st ms).remote.get e = entry (anns e (ms.flatMap (opsOf r))) := by
  rw [run_remote, hst]
  exact table_fold e he _ [] [] rfl

/-- … in particular it carries the highest metadata version seen since the last Bye, -/
theorem remote_table_max_version (chk : Bytes → Bool) (r : Rules) (st : State) (hst : st.remote = []) (ms : List Msg)
    (e : Bytes) (he : e ≠ []) (s : Service) (h : (run chk r st ms).remote.get e = some s) :
    s.mv = maxMv (anns e (ms.flatMap (opsOf r))) ∧ ∀ a ∈ anns e (ms.flatMap (opsOf r)), a.mv ≤ s.mv := by
  rw [remote_table_exact chk r st hst ms e he] at h
  have := entry_mv h
  exact ⟨this, fun a ha => by rw [this]; exact le_maxMv ha⟩

/-- … there is an entry iff something was announced since the last Bye, -/
theorem remote_table_present_iff (chk : Bytes → Bool) (r : Rules) (st : State) (hst : st.remote = []) (ms : List Msg)
    (e : Bytes) (he : e ≠ []) :
    (run chk r st ms).remote.get e = none ↔ anns e (ms.flatMap (opsOf r)) = [] := by
  rw [remote_table_exact chk r st hst ms e he]
  exact entry_eq_none

/-- … and its content comes from the announcements with that version: types and scopes from the last one that carried
    them, the x_addrs of one of them with none having more. -/
theorem remote_table_content (l : List Service) (s : Service) (h : entry l = some s) :
    s.types = (top l).reverse.findSome? (·.types) ∧ s.scopes = (top l).reverse.findSome? (·.scopes) ∧
      (∃ a ∈ top l, s.xaddrs = a.xaddrs) ∧ ∀ a ∈ top l, a.xaddrs.length ≤ s.xaddrs.length := by
  unfold entry at h
  split at h
  · cases h
  · rename_i hd rest ht
    simp only [Option.some.injEq] at h
    subst h
    rw [ht]
    exact ⟨foldl_merge_types rest hd, foldl_merge_scopes rest hd, (foldl_merge_xaddrs rest hd).1, (foldl_merge_xaddrs rest hd).2⟩

/-- an endpoint reference that is empty is never recorded -/
theorem empty_epr_never_recorded (chk : Bytes → Bool) (r : Rules) (st : State) (hst : st.remote = []) (ms : List Msg) :
    (run chk r st ms).remote.get [] = none := by
  rw [run_remote, hst]
  generalize ms.flatMap (opsOf r) = ops
  have : ∀ (t : Table), t.get [] = none → (ops.foldl applyOp t).get [] = none := by
    induction ops with
    | nil => exact fun _ h => h
    | cons op ops ih =>
      intro t ht
      apply ih
      cases op with
      | del k =>
        by_cases hk : k = []
        · subst hk; exact Table.get_del_same _ _
        · simp only [applyOp]; rw [Table.get_del_other _ _ _ (Ne.symm hk)]; exact ht
      | add s =>
        simp only [applyOp]
        by_cases hs : s.epr = []
        · simp [addRemote, hs, ht]
        · rw [addRemote_other _ _ _ hs]; exact ht
  exact this [] rfl

/-! ## duplicates -/

/-- **A remembered message id is not acted on.** A datagram whose id is among the remembered ids changes nothing
    (state and window) and is not answered. -/
theorem duplicate_ignored (chk : Bytes → Bool) (r : Rules) (maxlen : Nat) (n : Node) (mid : String) (m : Msg)
    (h : mid ∈ n.known) : recvDatagram chk r maxlen n mid m = (n, none) :=
  recvDatagram_of_known chk r maxlen n mid m h

/-- **… and an id stays remembered while fewer than `maxlen` further ids are registered**: after a datagram with id
    `mid` was acted on, a second one with the same id arriving after fewer than `maxlen` other events (datagrams with
    whatever ids and content, own messages queued for sending, in any interleaving) is ignored — every id is acted on at
    most once while inside the window. -/
theorem acted_on_once_within_window (chk : Bytes → Bool) (r : Rules) (maxlen : Nat) (n : Node) (mid : String)
    (m m' : Msg) (es : List NodeEv) (hnew : mid ∉ n.known) (hlen : 1 + es.length ≤ maxlen) :
    let n1 := (recvDatagram chk r maxlen n mid m).1
    let n2 := runNode chk r maxlen n1 es
    recvDatagram chk r maxlen n2 mid m' = (n2, none) := by
  intro n1 n2
  apply recvDatagram_of_known
  show mid ∈ (runNode chk r maxlen n1 es).known
  rw [runNode_known]
  have h1 : n1.known = UdpRepeat.push maxlen mid n.known := by
    show (recvDatagram chk r maxlen n mid m).1.known = _
    rw [recvDatagram_known]
    simp [UdpRepeat.step, hnew]
  have h0 : mid ∈ n1.known.take 1 := by
    rw [h1]
    have : 1 ≤ maxlen := by omega
    simp only [UdpRepeat.push]
    rw [List.take_take]
    simp [Nat.min_eq_left this]
  exact UdpRepeat.run_keeps maxlen mid _ _ 1 h0 (by simpa using hlen)

/-- **Own messages are ignored.** After an own message (answer, Hello, Probe, Resolve) was queued, its id is remembered in
    the same window: when multicast loops it back after fewer than `maxlen` other events it is not acted on. -/
theorem own_message_ignored (chk : Bytes → Bool) (r : Rules) (maxlen : Nat) (n : Node) (id : String) (m : Msg)
    (es : List NodeEv) (hlen : 1 + es.length ≤ maxlen) :
    let n2 := runNode chk r maxlen (registerOwn maxlen n id) es
    recvDatagram chk r maxlen n2 id m = (n2, none) := by
  intro n2
  apply recvDatagram_of_known
  show id ∈ (runNode chk r maxlen (registerOwn maxlen n id) es).known
  rw [runNode_known]
  have h0 : id ∈ (registerOwn maxlen n id).known.take 1 := by
    have : 1 ≤ maxlen := by omega
    simp only [registerOwn, UdpRepeat.step, UdpRepeat.push]
    rw [List.take_take]
    simp [Nat.min_eq_left this]
  exact UdpRepeat.run_keeps maxlen id _ _ 1 h0 (by simpa using hlen)

/-! ### non-vacuity -/

def exA : Service := ⟨[97], some [⟨[110], [84]⟩], some ⟨[[120, 58, 47, 97, 47, 98]], none⟩, [[104]], 1, 7⟩
def exB : Service := ⟨[98], some [], none, [], 1, 8⟩
def exSt : State := ⟨[([97], exA), ([98], exB)], []⟩

/-- a Probe for type `n:T` and scope `X:/a` (other case of the scheme) is answered for `exA` only -/
example : handle (fun _ => true) Generated.Discovery.rules exSt (.probe (some [⟨[110], [84]⟩]) (some ⟨[[88, 58, 47, 97]], none⟩))
    = .ok (exSt, [.probeMatch exA]) := by decide
example : ∀ s ∈ exSt.local_.values, Comparable (fun _ => true) Generated.Discovery.rules (some ⟨[[88, 58, 47, 97]], none⟩) s := by
  intro s hs
  refine ⟨?_, ?_⟩
  · simp only [exSt, Table.values, List.map_cons, List.map_nil, List.mem_cons, List.not_mem_nil, or_false] at hs
    rcases hs with rfl | rfl <;> decide
  · intro sc hsc u hu ssc hssc e he
    simp only [Option.some.injEq] at hsc
    subst hsc
    simp only [List.mem_cons, List.not_mem_nil, or_false] at hu
    subst hu
    simp only [exSt, Table.values, List.map_cons, List.map_nil, List.mem_cons, List.not_mem_nil, or_false] at hs
    rcases hs with rfl | rfl
    · simp only [exA, Option.some.injEq] at hssc
      subst hssc
      simp only [List.mem_cons, List.not_mem_nil, or_false] at he
      subst he
      exact ⟨true, by decide⟩
    · simp [exB] at hssc
/-- Hello v2, ProbeMatches v1 (ignored), Hello v2 without types but more addresses (merged), Bye of another endpoint -/
example : (run (fun _ => true) { Generated.Discovery.rules with allowMissingApp := false } State.empty
    [.hello true { exA with mv := 2 }, .probeMatches true [{ exA with mv := 1, xaddrs := [] }],
     .hello true { exA with mv := 2, types := none, xaddrs := [[104], [105]] }, .bye [98], .hello false { exA with mv := 9 }]).remote.get [97]
    = some { exA with mv := 2, xaddrs := [[104], [105]] } := by decide
example : (recvDatagram (fun _ => true) Generated.Discovery.rules 200 ⟨["id1"], State.empty⟩ "id1" (.hello true exA)).2 = none := by
  decide
/-- window of 2: own id, one datagram, then the looped-back own id is skipped; after one more event it is forgotten -/
example : (recvDatagram (fun _ => true) Generated.Discovery.rules 2
    (runNode (fun _ => true) Generated.Discovery.rules 2 (registerOwn 2 ⟨[], State.empty⟩ "own") [.dg "a" .unknown]) "own" .unknown).2 = none ∧
  (recvDatagram (fun _ => true) Generated.Discovery.rules 2
    (runNode (fun _ => true) Generated.Discovery.rules 2 (registerOwn 2 ⟨[], State.empty⟩ "own") [.dg "a" .unknown, .own "b"]) "own" .unknown).2 = some (.ok []) := by
  decide

end Sdc.C14
