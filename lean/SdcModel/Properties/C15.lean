import SdcModel.UdpRepeat
import SdcModel.Generated.UdpParams
/-!
# C15 — discovery datagrams are retransmitted within the SOAP-over-UDP time envelope
Property theorems only. Model: `SdcModel/UdpRepeat.lean`; parameter sets: `Generated/UdpParams.lean`
(regenerated from `networkingthread.UNICAST_REPEAT_PARAMS / MULTICAST_REPEAT_PARAMS` on every run).
-/
namespace Sdc.C15
open Sdc.UdpRepeat

/-- gap number `i` of a list of send times -/
def gap (ts : List Nat) (i : Nat) : Option Nat :=
  match ts[i]?, ts[i+1]? with
  | some a, some b => some (b - a)
  | _, _ => none

theorem times_length (t : Nat) (gs : List Nat) : (times t gs).length = gs.length + 1 := by
  induction gs generalizing t with
  | nil => rfl
  | cons g gs ih => simp [times, ih]

theorem gaps_length (u d n : Nat) : (gaps u d n).length = n := by
  induction n generalizing d with
  | zero => rfl
  | succ n ih => simp [gaps, ih]

/-- exactly `1 + repeat` transmissions, for every parameter set and every outcome of the two draws -/
theorem transmissions_count (p : Params) (init d : Nat) :
    (schedule p init d).length = 1 + p.repeats := by
  simp [schedule, times_length, gaps_length]; omega

theorem times_head (t : Nat) (gs : List Nat) : (times t gs)[0]? = some t := by
  cases gs <;> simp [times]

/-- the first transmission is delayed by the drawn initial delay, which `randint(0, maxInit)` bounds -/
theorem first_delay (p : Params) (init d : Nat) (h : init ≤ p.maxInit) :
    ∃ t, (schedule p init d)[0]? = some t ∧ t ≤ p.maxInit :=
  ⟨init, times_head _ _, h⟩

theorem times_sorted_get (t : Nat) (gs : List Nat) (i : Nat) (g : Nat) (h : gs[i]? = some g) :
    gap (times t gs) i = some g := by
  induction gs generalizing t i with
  | nil => simp at h
  | cons g' gs ih =>
    cases i with
    | zero =>
      simp at h; subst h
      simp [gap, times, times_head]
    | succ i =>
      simp at h
      have := ih (t + g') i h
      simpa [gap, times] using this

theorem gaps_get_zero (u d n : Nat) (h : 0 < n) : (gaps u d n)[0]? = some d := by
  cases n with
  | zero => omega
  | succ n => simp [gaps]

theorem gaps_get_succ (u d n i g : Nat) (h : (gaps u d n)[i]? = some g) (hi : i + 1 < n) :
    (gaps u d n)[i+1]? = some (min (2 * g) u) := by
  induction n generalizing d i with
  | zero => omega
  | succ n ih =>
    cases i with
    | zero =>
      simp [gaps] at h; subst h
      have : 0 < n := by omega
      simpa [gaps] using gaps_get_zero u _ n this
    | succ i =>
      simp only [gaps, List.getElem?_cons_succ] at h ⊢
      exact ih _ i h (by omega)

/-- the first gap is the drawn value, which `randrange(min, max)` puts inside the window -/
theorem first_gap (p : Params) (init d : Nat) (hr : 0 < p.repeats)
    (hd : p.minDelay ≤ d ∧ d < p.maxDelay) :
    ∃ g, gap (schedule p init d) 0 = some g ∧ p.minDelay ≤ g ∧ g < p.maxDelay :=
  ⟨d, times_sorted_get _ _ 0 d (gaps_get_zero _ _ _ hr), hd⟩

/-- every following gap is twice the previous one, capped by the upper delay -/
theorem next_gap (p : Params) (init d i g : Nat) (hi : i + 1 < p.repeats)
    (hg : gap (schedule p init d) i = some g) :
    gap (schedule p init d) (i + 1) = some (min (2 * g) p.upper) := by
  have hlen := gaps_length p.upper d p.repeats
  have : i < (gaps p.upper d p.repeats).length := by omega
  obtain ⟨g', hg'⟩ : ∃ g', (gaps p.upper d p.repeats)[i]? = some g' := ⟨_, List.getElem?_eq_getElem this⟩
  have h1 := times_sorted_get init _ i g' hg'
  have : g' = g := by
    unfold schedule at hg; rw [h1] at hg; exact Option.some.inj hg
  subst this
  exact times_sorted_get init _ (i+1) _ (gaps_get_succ _ _ _ _ _ hg' hi)

/-- ... and therefore never larger than the configured upper delay -/
theorem later_gaps_capped (p : Params) (init d i g : Nat) (hi : i + 1 < p.repeats)
    (hg : gap (schedule p init d) (i + 1) = some g) : g ≤ p.upper := by
  have hlen := gaps_length p.upper d p.repeats
  have : i < (gaps p.upper d p.repeats).length := by omega
  obtain ⟨g', hg'⟩ : ∃ g', (gaps p.upper d p.repeats)[i]? = some g' := ⟨_, List.getElem?_eq_getElem this⟩
  have h1 := times_sorted_get init _ i g' hg'
  have h2 := next_gap p init d i g' hi h1
  rw [h2] at hg
  have := Option.some.inj hg
  omega

/-- the generated parameter sets admit the random draws (`randrange` range non-empty) and repeat at least once -/
theorem generated_params_wf :
    Generated.unicast.WF ∧ Generated.multicast.WF ∧ 0 < Generated.unicast.repeats ∧ 0 < Generated.multicast.repeats := by
  decide

/-- the first-gap window of the generated parameter sets lies below the cap, so *every* gap is ≤ upper -/
theorem generated_window_below_cap :
    Generated.unicast.maxDelay ≤ Generated.unicast.upper + 1 ∧ Generated.multicast.maxDelay ≤ Generated.multicast.upper + 1 := by
  decide

/-! ### own messages are ignored when multicast loops them back -/

theorem mem_take_push (maxlen k : Nat) (id x : String) (l : List String)
    (h : id ∈ l.take k) (hk : k + 1 ≤ maxlen) : id ∈ (push maxlen x l).take (k + 1) := by
  unfold push
  rw [List.take_take]
  have : min (k + 1) maxlen = k + 1 := by omega
  rw [this, List.take_succ_cons]
  exact List.mem_cons_of_mem _ h

theorem mem_take_succ (id : String) (l : List String) (k : Nat) (h : id ∈ l.take k) : id ∈ l.take (k + 1) := by
  induction l generalizing k with
  | nil => simp at h
  | cons x xs ih =>
    cases k with
    | zero => simp at h
    | succ k =>
      rw [List.take_succ_cons] at h ⊢
      rcases List.mem_cons.mp h with h | h
      · exact List.mem_cons.mpr (Or.inl h)
      · exact List.mem_cons_of_mem _ (ih k h)

theorem step_keeps (maxlen k : Nat) (id : String) (known : List String) (e : Ev)
    (h : id ∈ known.take k) (hk : k + 1 ≤ maxlen) : id ∈ ((step maxlen known e).1).take (k + 1) := by
  cases e with
  | out x => exact mem_take_push maxlen k id x known h hk
  | recv x =>
    simp only [step]
    split
    · exact mem_take_succ id known k h
    · exact mem_take_push maxlen k id x known h hk

theorem run_keeps (maxlen : Nat) (id : String) (evs : List Ev) (known : List String) (k : Nat)
    (h : id ∈ known.take k) (hk : k + evs.length ≤ maxlen) : id ∈ run maxlen known evs := by
  induction evs generalizing known k with
  | nil => exact List.mem_of_mem_take h
  | cons e es ih =>
    simp only [run]
    have hk' : k + 1 ≤ maxlen := by simp at hk; omega
    exact ih _ (k + 1) (step_keeps maxlen k id known e h hk') (by simp at hk; omega)

/-- after `add_outbound_message` registered the own id, and while fewer than `maxlen` further ids were
    remembered, a looped-back datagram with that id is not dispatched -/
theorem own_message_ignored (maxlen : Nat) (id : String) (known : List String) (evs : List Ev)
    (h : 1 + evs.length ≤ maxlen) :
    (step maxlen (run maxlen (step maxlen known (.out id)).1 evs) (.recv id)).2 = false := by
  have h0 : id ∈ ((step maxlen known (.out id)).1).take 1 := by
    have : 1 ≤ maxlen := by omega
    simp only [step, push]
    rw [List.take_take]
    simp [Nat.min_eq_left this]
  have := run_keeps maxlen id evs _ 1 h0 h
  simp only [step] at this ⊢
  simp [this]

/-- a received id is dispatched at most once while it stays in the window: directly after a dispatch it is known -/
theorem dispatched_then_known (maxlen : Nat) (id : String) (known : List String) (h : 0 < maxlen)
    (hd : (step maxlen known (.recv id)).2 = true) : id ∈ (step maxlen known (.recv id)).1 := by
  simp only [step] at hd ⊢
  split
  · simp_all
  · simp only [push]
    cases maxlen with
    | zero => omega
    | succ n => simp

/-- non-vacuity: the multicast set with a concrete draw -/
example : schedule Generated.multicast 17 120 = [17, 137, 377, 857, 1357] := by decide
example : gap (schedule Generated.multicast 17 120) 3 = some 500 := by decide

end Sdc.C15
