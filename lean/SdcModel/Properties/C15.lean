import SdcModel.UdpRepeat
import SdcModel.Proofs.UdpRepeat
import SdcModel.Generated.UdpParams
import SdcModel.UdpSendLoop
import SdcModel.Proofs.UdpSendLoop
/-!
# C15 — discovery datagrams are retransmitted within the SOAP-over-UDP time envelope
Property theorems only. Model: `SdcModel/UdpRepeat.lean`; parameter sets: `Generated/UdpParams.lean`
(regenerated from `networkingthread.UNICAST_REPEAT_PARAMS / MULTICAST_REPEAT_PARAMS` on every run).
-/
namespace Sdc.C15
open Sdc.UdpRepeat

/-- exactly `1 + repeat` transmissions, for every parameter set and every outcome of the two draws -/
theorem transmissions_count (p : Params) (init d : Nat) :
    (schedule p init d).length = 1 + p.repeats := by
  simp [schedule, times_length, gaps_length]; omega

/-- the first transmission is delayed by the drawn initial delay, which `randint(0, maxInit)` bounds -/
theorem first_delay (p : Params) (init d : Nat) (h : init ≤ p.maxInit) :
    ∃ t, (schedule p init d)[0]? = some t ∧ t ≤ p.maxInit :=
  ⟨init, times_head _ _, h⟩

/-- the first gap is the drawn value, which `randrange(min, max)` puts inside the window -/
theorem first_gap (p : Params) (init d : Nat) (hr : 0 < p.repeats)
    (hd : p.minDelay ≤ d ∧ d < p.maxDelay) :
    ∃ g, gap (schedule p init d) 0 = some g ∧ p.minDelay ≤ g ∧ g < p.maxDelay :=
  ⟨d, times_sorted_get _ _ 0 d (gaps_get_zero _ _ _ hr), hd⟩

/-- every following gap is twice the previous one, capped by the upper delay -/
theorem next_gap (p : Params) (init d i g : Nat) (hi : i + 1 < p.repeats)
    (hg : gap (schedule p init d) i = some g) :
    gap (schedule p init d) (i + 1) = some (min (2 * g) p.upper) := by
  have hlen := gaps_length p.upper d p.repeats
  have : i < (gaps p.upper d p.repeats).length := by omega
  obtain ⟨g', hg'⟩ : ∃ g', (gaps p.upper d p.repeats)[i]? = some g' := ⟨_, List.getElem?_eq_getElem this⟩
  have h1 := times_sorted_get init _ i g' hg'
  have : g' = g := by
    unfold schedule at hg; rw [h1] at hg; exact Option.some.inj hg
  subst this
  exact times_sorted_get init _ (i+1) _ (gaps_get_succ _ _ _ _ _ hg' hi)

/-- ... and therefore never larger than the configured upper delay -/
theorem later_gaps_capped (p : Params) (init d i g : Nat) (hi : i + 1 < p.repeats)
    (hg : gap (schedule p init d) (i + 1) = some g) : g ≤ p.upper := by
  have hlen := gaps_length p.upper d p.repeats
  have : i < (gaps p.upper d p.repeats).length := by omega
  obtain ⟨g', hg'⟩ : ∃ g', (gaps p.upper d p.repeats)[i]? = some g' := ⟨_, List.getElem?_eq_getElem this⟩
  have h1 := times_sorted_get init _ i g' hg'
  have h2 := next_gap p init d i g' hi h1
  rw [h2] at hg
  have := Option.some.inj hg
  omega

/-- the generated parameter sets admit the random draws (`randrange` range non-empty) and repeat at least once -/
theorem generated_params_wf :
    Generated.unicast.WF ∧ Generated.multicast.WF ∧ 0 < Generated.unicast.repeats ∧ 0 < Generated.multicast.repeats := by
  decide

/-- the first-gap window of the generated parameter sets lies below the cap, so *every* gap is ≤ upper -/
theorem generated_window_below_cap :
    Generated.unicast.maxDelay ≤ Generated.unicast.upper + 1 ∧ Generated.multicast.maxDelay ≤ Generated.multicast.upper + 1 := by
  decide

/-! ### own messages are ignored when multicast loops them back -/

/-- after `add_outbound_message` registered the own id, and while fewer than `maxlen` further ids were
    remembered, a looped-back datagram with that id is not dispatched -/
theorem own_message_ignored (maxlen : Nat) (id : String) (known : List String) (evs : List Ev)
    (h : 1 + evs.length ≤ maxlen) :
    (step maxlen (run maxlen (step maxlen known (.out id)).1 evs) (.recv id)).2 = false := by
  have h0 : id ∈ ((step maxlen known (.out id)).1).take 1 := by
    have : 1 ≤ maxlen := by omega
    simp only [step, push]
    rw [List.take_take]
    simp [Nat.min_eq_left this]
  have := run_keeps maxlen id evs _ 1 h0 h
  simp only [step] at this ⊢
  simp [this]

/-- the window of the tree at hand is not smaller than the one the guarantee was stated for (200 ids on the pinned tree):
    `own_message_ignored` then covers every loop-back that has fewer than 200 other ids between registration and arrival -/
theorem generated_window_at_least_pinned : 200 ≤ Generated.knownIdsMaxlen := by decide

/-- a received id is dispatched at most once while it stays in the window: directly after a dispatch it is known -/
theorem dispatched_then_known (maxlen : Nat) (id : String) (known : List String) (h : 0 < maxlen)
    (hd : (step maxlen known (.recv id)).2 = true) : id ∈ (step maxlen known (.recv id)).1 := by
  simp only [step] at hd ⊢
  split
  · simp_all
  · simp only [push]
    cases maxlen with
    | zero => omega
    | succ n => simp

/-- `add_outbound_message` registers the own id BEFORE the first entry is put on the send queue (program order traced on the
    real method): nothing can be transmitted - and looped back - while the id is still unknown, so `own_message_ignored`
    applies to every loop-back of an own datagram -/
theorem generated_registers_before_enqueue :
    Generated.addOutboundOrder.head? = some "register" ∧ "put" ∈ Generated.addOutboundOrder := by decide

/-- the draws are asked for in the configured ranges: `randint(0, max_initial_delay)` and `randrange(min_delay, max_delay)` of
    the parameter set at hand (traced on the real `_repeated_enqueue_msg`), so the hypotheses of `first_delay` / `first_gap` hold for
    whatever the random source returns -/
theorem generated_draw_ranges :
    Generated.drawRanges =
      [(false, "randint", 0, Generated.unicast.maxInit), (false, "randrange", Generated.unicast.minDelay, Generated.unicast.maxDelay),
       (true, "randint", 0, Generated.multicast.maxInit), (true, "randrange", Generated.multicast.minDelay, Generated.multicast.maxDelay)] := by
  decide

/-- `join` waits for the send loop without a time limit before anything is closed (program order traced on the real method):
    together with `loop_ends_with_everything_sent` nothing that was queued at the stop is cut off -/
theorem generated_join_waits_for_send_loop :
    (Generated.joinTrace.takeWhile (fun s => s.1 == "join")).contains ("join", "send None") = true := by decide

/-- life cycle: whatever sequence of `start` / `stop` / `publish_service` / `clear_service` calls is made on a node, every Hello
    and Bye is handed to a RUNNING networking thread (which transmits it 1 + repeat times) - never to one that was stopped
    before and would drop it -/
theorem messages_reach_a_running_thread (ops : List Sdc.UdpLife.Op) :
    ∀ r ∈ Sdc.UdpLife.run {} ops, ∀ l, r = some l → ∀ b ∈ l, b = true :=
  Sdc.UdpLife.run_hands {} ops Sdc.UdpLife.ok_init

example : Sdc.UdpLife.run {} [.start, .publish 1, .stop, .start, .publish 2, .stop] =
    [some [], some [true], some [true], some [], some [true], some [true]] := by decide

/-- non-vacuity: the multicast set with a concrete draw -/
example : schedule Generated.multicast 17 120 = [17, 137, 377, 857, 1357] := by decide

example : gap (schedule Generated.multicast 17 120) 3 = some 500 := by decide

/-! ### the transmissions follow the schedule (send loop, `UdpSendLoop.lean`)

The theorems above are about the `send_time`s put on the queue. The send loop turns them into transmissions; for every set
of `add_outbound_message` calls at any times, with any draws and parameter sets, any time of `schedule_stop` and any number
of loop iterations: -/
open Sdc.UdpSendLoop

/-- the loop's two sleeps, regenerated from `SEND_LOOP_BUSY_SLEEP` / `SEND_LOOP_IDLE_SLEEP` -/
theorem generated_loop_cfg_ok : Generated.loopCfg.busy ≤ Generated.loopCfg.idle ∧ 0 < Generated.loopCfg.busy := by decide

/-- the queue is ordered by the send time first (regenerated from the compared fields of `_EnqueuedMessage`) -/
theorem generated_queue_key : Generated.queueKey = ["send_time", "repeat"] := by decide

/-- no datagram leaves before its scheduled time - not even when the node is being stopped - and none later than one
    (idle) sleep of the loop after it -/
theorem transmissions_on_time (c : Cfg) (hc : c.busy ≤ c.idle) (hi : 0 < c.idle) (adds : List Add) (quitAt n : Nat) :
    ∀ x ∈ (run c n (start adds quitAt)).1.out, x.2.sendTime ≤ x.1 ∧ x.1 < x.2.sendTime + c.idle :=
  (run_inv hc n (start_inv hi adds quitAt)).outOk

/-- every entry of every accepted call (made before the stop) is transmitted exactly as often as it was enqueued, at the
    latest one idle sleep after its time: once the clock is there, it is among the transmissions and nowhere else -/
theorem transmitted_once_by_deadline (c : Cfg) (hc : c.busy ≤ c.idle) (hi : 0 < c.idle) (adds : List Add) (quitAt n : Nat)
    (e : Entry) (hd : e.sendTime + c.idle ≤ (run c n (start adds quitAt)).1.now) :
    ((run c n (start adds quitAt)).1.out.map (·.2)).count e = (future quitAt adds).count e := by
  have hinv := run_inv hc n (start_inv hi adds quitAt)
  have hperm := (run_total (c := c) n (start adds quitAt)).trans (total_start adds quitAt)
  have hqa : (run c n (start adds quitAt)).1.quitAt = quitAt := by rw [run_quitAt]; rfl
  have hw := overdue_not_waiting hinv hd
  rw [hqa] at hw
  have hcount := hperm.count_eq e
  unfold total at hcount
  rw [List.count_append, List.count_append, hqa] at hcount
  have h1 := List.count_eq_zero_of_not_mem hw.1
  have h2 := List.count_eq_zero_of_not_mem hw.2
  omega

/-- a loop that has ended (after `schedule_stop`) has transmitted exactly the entries of all accepted calls: nothing
    that was pending at the stop is lost, nothing is sent twice -/
theorem stop_loses_nothing (c : Cfg) (hc : c.busy ≤ c.idle) (hi : 0 < c.idle) (adds : List Add) (quitAt n : Nat)
    (h : (run c n (start adds quitAt)).2 = true) :
    ((run c n (start adds quitAt)).1.out.map (·.2)).Perm (future quitAt adds) := by
  have hinv := run_inv hc n (start_inv hi adds quitAt)
  obtain ⟨hq, hquit⟩ := run_done n (start adds quitAt) h
  have hperm := (run_total (c := c) n (start adds quitAt)).trans (total_start adds quitAt)
  have hqa := hinv.quitOk hquit
  have hfut : future (run c n (start adds quitAt)).1.quitAt (run c n (start adds quitAt)).1.adds = [] := by
    unfold future
    have : (run c n (start adds quitAt)).1.adds.filter (fun a => decide (a.at_ < (run c n (start adds quitAt)).1.quitAt)) = [] := by
      rw [List.filter_eq_nil_iff]
      intro a ha
      have := hinv.pending a ha
      simp only [decide_eq_true_eq]; omega
    rw [this]; rfl
  have hqa' : (run c n (start adds quitAt)).1.quitAt = quitAt := by rw [run_quitAt]; rfl
  unfold total at hperm
  rw [hq, hfut] at hperm
  simpa using hperm

/-- ... and the loop does end: whatever was called and whenever the stop comes, after finitely many iterations (a bound is
    given explicitly) the loop has left and every entry of every accepted call has been transmitted exactly once -/
theorem loop_ends_with_everything_sent (c : Cfg) (hb : 0 < c.busy) (hc : c.busy ≤ c.idle) (adds : List Add) (quitAt n : Nat)
    (hn : mu (lastTime quitAt adds) (start adds quitAt) < n) :
    (run c n (start adds quitAt)).2 = true ∧ ((run c n (start adds quitAt)).1.out.map (·.2)).Perm (future quitAt adds) := by
  have hdone := run_terminates hb hc n (start_bounded adds quitAt) hn
  exact ⟨hdone, stop_loses_nothing c hc (Nat.lt_of_lt_of_le hb hc) adds quitAt n hdone⟩

/-- non-vacuity: two overlapping multicast messages, stop while the second is still pending -/
example : (run Generated.loopCfg 400
    (start [⟨250, 0, Generated.multicast, 150, 70⟩, ⟨250, 1, Generated.multicast, 500, 249⟩] 700500)).2 = true := by decide +kernel

/-- each accepted call contributes `1 + repeat` entries -/
theorem entries_per_message (a : Add) : (entriesOf a).length = 1 + a.p.repeats := entriesOf_length a

/-- every sender of `WSDiscovery` hands its message to the networking thread with the parameter set of its destination
    (multicast address -> multicast set, otherwise unicast); regenerated by calling every `_send_*` of the real class -/
theorem generated_senders_params :
    ∀ s ∈ Generated.senders, s.2.2 = (if s.2.1 then Generated.multicast else Generated.unicast) := by decide

example : Generated.senders.length = 6 := by decide

end Sdc.C15
