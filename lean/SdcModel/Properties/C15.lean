import SdcModel.UdpRepeat
import SdcModel.Proofs.UdpRepeat
import SdcModel.Generated.UdpParams
/-!
# C15 — discovery datagrams are retransmitted within the SOAP-over-UDP time envelope
Property theorems only. Model: `SdcModel/UdpRepeat.lean`; parameter sets: `Generated/UdpParams.lean`
(regenerated from `networkingthread.UNICAST_REPEAT_PARAMS / MULTICAST_REPEAT_PARAMS` on every run).
-/
namespace Sdc.C15
open Sdc.UdpRepeat

/-- exactly `1 + repeat` transmissions, for every parameter set and every outcome of the two draws -/
theorem transmissions_count (p : Params) (init d : Nat) :
    (schedule p init d).length = 1 + p.repeats := by
  simp [schedule, times_length, gaps_length]; omega

/-- the first transmission is delayed by the drawn initial delay, which `randint(0, maxInit)` bounds -/
theorem first_delay (p : Params) (init d : Nat) (h : init ≤ p.maxInit) :
    ∃ t, (schedule p init d)[0]? = some t ∧ t ≤ p.maxInit :=
  ⟨init, times_head _ _, h⟩

/-- the first gap is the drawn value, which `randrange(min, max)` puts inside the window -/
theorem first_gap (p : Params) (init d : Nat) (hr : 0 < p.repeats)
    (hd : p.minDelay ≤ d ∧ d < p.maxDelay) :
    ∃ g, gap (schedule p init d) 0 = some g ∧ p.minDelay ≤ g ∧ g < p.maxDelay :=
  ⟨d, times_sorted_get _ _ 0 d (gaps_get_zero _ _ _ hr), hd⟩

/-- every following gap is twice the previous one, capped by the upper delay -/
theorem next_gap (p : Params) (init d i g : Nat) (hi : i + 1 < p.repeats)
    (hg : gap (schedule p init d) i = some g) :
    gap (schedule p init d) (i + 1) = some (min (2 * g) p.upper) := by
  have hlen := gaps_length p.upper d p.repeats
  have : i < (gaps p.upper d p.repeats).length := by omega
  obtain ⟨g', hg'⟩ : ∃ g', (gaps p.upper d p.repeats)[i]? = some g' := ⟨_, List.getElem?_eq_getElem this⟩
  have h1 := times_sorted_get init _ i g' hg'
  have : g' = g := by
    unfold schedule at hg; rw [h1] at hg; exact Option.some.inj hg
  subst this
  exact times_sorted_get init _ (i+1) _ (gaps_get_succ _ _ _ _ _ hg' hi)

/-- ... and therefore never larger than the configured upper delay -/
theorem later_gaps_capped (p : Params) (init d i g : Nat) (hi : i + 1 < p.repeats)
    (hg : gap (schedule p init d) (i + 1) = some g) : g ≤ p.upper := by
  have hlen := gaps_length p.upper d p.repeats
  have : i < (gaps p.upper d p.repeats).length := by omega
  obtain ⟨g', hg'⟩ : ∃ g', (gaps p.upper d p.repeats)[i]? = some g' := ⟨_, List.getElem?_eq_getElem this⟩
  have h1 := times_sorted_get init _ i g' hg'
  have h2 := next_gap p init d i g' hi h1
  rw [h2] at hg
  have := Option.some.inj hg
  omega

/-- the generated parameter sets admit the random draws (`randrange` range non-empty) and repeat at least once -/
theorem generated_params_wf :
    Generated.unicast.WF ∧ Generated.multicast.WF ∧ 0 < Generated.unicast.repeats ∧ 0 < Generated.multicast.repeats := by
  decide

/-- the first-gap window of the generated parameter sets lies below the cap, so *every* gap is ≤ upper -/
theorem generated_window_below_cap :
    Generated.unicast.maxDelay ≤ Generated.unicast.upper + 1 ∧ Generated.multicast.maxDelay ≤ Generated.multicast.upper + 1 := by
  decide

/-! ### own messages are ignored when multicast loops them back -/

/-- after `add_outbound_message` registered the own id, and while fewer than `maxlen` further ids were
    remembered, a looped-back datagram with that id is not dispatched -/
theorem own_message_ignored (maxlen : Nat) (id : String) (known : List String) (evs : List Ev)
    (h : 1 + evs.length ≤ maxlen) :
    (step maxlen (run maxlen (step maxlen known (.out id)).1 evs) (.recv id)).2 = false := by
  have h0 : id ∈ ((step maxlen known (.out id)).1).take 1 := by
    have : 1 ≤ maxlen := by omega
    simp only [step, push]
    rw [List.take_take]
    simp [Nat.min_eq_left this]
  have := run_keeps maxlen id evs _ 1 h0 h
  simp only [step] at this ⊢
  simp [this]

/-- a received id is dispatched at most once while it stays in the window: directly after a dispatch it is known -/
theorem dispatched_then_known (maxlen : Nat) (id : String) (known : List String) (h : 0 < maxlen)
    (hd : (step maxlen known (.recv id)).2 = true) : id ∈ (step maxlen known (.recv id)).1 := by
  simp only [step] at hd ⊢
  split
  · simp_all
  · simp only [push]
    cases maxlen with
    | zero => omega
    | succ n => simp

/-- non-vacuity: the multicast set with a concrete draw -/
example : schedule Generated.multicast 17 120 = [17, 137, 377, 857, 1357] := by decide

example : gap (schedule Generated.multicast 17 120) 3 = some 500 := by decide

end Sdc.C15
