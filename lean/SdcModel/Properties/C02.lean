import SdcModel.MdibDescr
import SdcModel.Proofs.MdibVer
/-!
# C02 — MDIB version counters are monotonic, gap-free and referentially consistent
Property theorems over the provider model (`SdcModel/Mdib.lean`, `MdibDescr.lean`); helper lemmas are in `Proofs/Mdib*.lean`.
-/
set_option linter.unusedSimpArgs false
namespace Sdc.C02
open Sdc.Mdib

/-- MdibVersion: a committed transaction raises it by exactly one; an empty, aborted or rejected transaction
    (application raised, API call rejected) returns exactly the tables it started from and reports nothing;
    a transaction rejected at commit time either left the tables alone or had already taken the next version -/
theorem mdib_version_step (t : Tables) (sc : Script) :
    ((runScript t sc).2.2 = .committed → (runScript t sc).1.ver = t.ver + 1) ∧
    (((runScript t sc).2.2 = .empty ∨ (runScript t sc).2.2 = .aborted ∨ (runScript t sc).2.2 = .rejected) →
        (runScript t sc).1 = t ∧ (runScript t sc).2.1 = {}) := by
  cases sc with
  | s x =>
    simp only [runScript, runS]
    split
    · simp
    · rename_i tx _
      split
      · simp
      · unfold commitS
        by_cases he : tx.items.isEmpty
        · simp [he]
        · simp only [he, Bool.false_eq_true, if_false]
          have hv := applySItems_ver { t with ver := t.ver + 1 } tx.items
          split
          · simp
          · rename_i t' r heq
            simp only [Prod.mk.injEq] at heq
            simp only [he, Bool.false_eq_true, if_false, true_implies, reduceCtorEq, or_self, false_implies, and_true]
            rw [← heq.1]; exact hv
  | c x =>
    simp only [runScript, runC]
    split
    · simp
    · rename_i tx _
      split
      · simp
      · unfold commitC
        by_cases he : tx.items.isEmpty
        · simp [he]
        · simp only [he, Bool.false_eq_true, if_false]
          have hv := applyCItems_ver { t with ver := t.ver + 1 } tx.items
          split
          · simp
          · rename_i t' r heq
            simp only [Prod.mk.injEq] at heq
            simp only [he, Bool.false_eq_true, if_false, true_implies, reduceCtorEq, or_self, false_implies, and_true]
            rw [← heq.1]; exact hv
  | d x =>
    simp only [runScript, runD]
    split
    · simp
    · rename_i tx _
      split
      · simp
      · by_cases he : tx.descr.isEmpty
        · simp [commitD, he]
        · by_cases hc : consistentD t tx
          · have hv := commitD_ver t tx (by simpa using he) hc
            split
            · simp
            · rename_i t' r heq
              simp only [he, Bool.false_eq_true, if_false, true_implies, reduceCtorEq, or_self, false_implies, and_true]
              rw [heq] at hv; exact hv
          · simp [commitD, he, hc]

end Sdc.C02
