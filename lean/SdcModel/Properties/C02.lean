import SdcModel.MdibDescr
import SdcModel.Proofs.MdibVer
import SdcModel.Proofs.MdibMono
import SdcModel.Proofs.MdibHist
/-!
# C02 — MDIB version counters are monotonic, gap-free and referentially consistent
Property theorems over the provider model (`SdcModel/Mdib.lean`, `MdibDescr.lean`); helper lemmas are in `Proofs/Mdib*.lean`.
-/
set_option linter.unusedSimpArgs false
namespace Sdc.C02
open Sdc.Mdib

/-- MdibVersion: a committed transaction raises it by exactly one; an empty, aborted or rejected transaction
    (application raised, API call rejected) returns exactly the tables it started from and reports nothing;
    a transaction rejected at commit time either left the tables alone or had already taken the next version -/
theorem mdib_version_step (t : Tables) (sc : Script) :
    ((runScript t sc).2.2 = .committed → (runScript t sc).1.ver = t.ver + 1) ∧
    (((runScript t sc).2.2 = .empty ∨ (runScript t sc).2.2 = .aborted ∨ (runScript t sc).2.2 = .rejected) →
        (runScript t sc).1 = t ∧ (runScript t sc).2.1 = {}) := by
  cases sc with
  | s x =>
    simp only [runScript, runS]
    split
    · simp
    · rename_i tx _
      split
      · simp
      · unfold commitS
        by_cases he : tx.items.isEmpty
        · simp [he]
        · simp only [he, Bool.false_eq_true, if_false]
          have hv := applySItems_ver { t with ver := t.ver + 1 } tx.items
          split
          · simp
          · rename_i t' r heq
            simp only [Prod.mk.injEq] at heq
            simp only [he, Bool.false_eq_true, if_false, true_implies, reduceCtorEq, or_self, false_implies, and_true]
            rw [← heq.1]; exact hv
  | c x =>
    simp only [runScript, runC]
    split
    · simp
    · rename_i tx _
      split
      · simp
      · unfold commitC
        by_cases he : tx.items.isEmpty
        · simp [he]
        · simp only [he, Bool.false_eq_true, if_false]
          have hv := applyCItems_ver { t with ver := t.ver + 1 } tx.items
          split
          · simp
          · rename_i t' r heq
            simp only [Prod.mk.injEq] at heq
            simp only [he, Bool.false_eq_true, if_false, true_implies, reduceCtorEq, or_self, false_implies, and_true]
            rw [← heq.1]; exact hv
  | d x =>
    simp only [runScript, runD]
    split
    · simp
    · rename_i tx _
      split
      · simp
      · by_cases he : tx.descr.isEmpty
        · simp [commitD, he]
        · by_cases hc : consistentD t tx
          · have hv := commitD_ver t tx (by simpa using he) hc
            split
            · simp
            · rename_i t' r heq
              simp only [he, Bool.false_eq_true, if_false, true_implies, reduceCtorEq, or_self, false_implies, and_true]
              rw [heq] at hv; exact hv
          · simp [commitD, he, hc]

/-! ## referential well-formedness (`WF`, see `Proofs/MdibWF.lean`) -/

/-- tables used for the non-vacuity examples: an MDS (1) with a metric (3) and a context descriptor (4), two single states,
    one context state, saved versions of removed objects -/
def exT : Tables where
  ver := 5
  descrs := [⟨1, none, .component, 3, 0, some 1⟩, ⟨3, some 1, .metric, 1, 0, some 1⟩, ⟨4, some 1, .context, 1, 0, some 1⟩]
  states := [⟨1, 3, 4, .component, 0⟩, ⟨3, 1, 0, .metric, 0⟩]
  ctx := [{ h := 10, dh := 4, dv := 1, sv := 2, body := 0, assoc := .assoc, bindV := none, unbindV := none, bindT := none, unbindT := none }]
  dSaved := [(6, 4)]
  sSaved := [(6, 9)]
  cSaved := [(12, 3)]

def exS : SScript := ⟨.metric, [.get 3, .setBody 3 5], false, false⟩
def exC : CScript := ⟨[.get 10, .mk 4 11 false true 7 0, .mk 4 12 true false 8 0], false, false⟩

example : WF exT := by decide
example : (runS exT exS).2.2 = .committed := by decide
example : (runC exT exC).2.2 = .committed ∧ FreshUuids exT exC := by decide

/-- every state transaction script (all five kinds; committed, empty, rejected, with caught errors, aborted) keeps the
    tables well-formed: states refer to existing descriptors and carry their version, one single state per descriptor,
    parents exist, keys unique -/
theorem wf_preserved_state (t : Tables) (s : SScript) (h : WF t) : WF (runS t s).1 := (runS_ok h s).2

/-- the same for every context state transaction script, even one whose commit dies on a colliding generated handle -/
theorem wf_preserved_context (t : Tables) (s : CScript) (h : WF t) : WF (runC t s).1 := runC_wf h s

/-! ## per-object version counters (`seenS`/`seenC`: live version, else the saved version of the removed object) -/

/-- StateVersion of every single state never decreases over a state transaction, whatever the script does -/
theorem state_version_monotone (t : Tables) (s : SScript) (hw : WF t) (h : Handle) : seenS t h ≤ seenS (runS t s).1 h :=
  runS_seenS hw s h

/-- a single state whose content differs after a state transaction has a strictly larger StateVersion -/
theorem content_change_bumps (t : Tables) (s : SScript) (hw : WF t) (h : Handle) (a b : SState)
    (ha : findS t h = some a) (hb : findS (runS t s).1 h = some b) (hne : a.body ≠ b.body) : a.sv < b.sv := by
  rcases runS_change hw s ha hb with e | e
  · exact absurd (e ▸ rfl) hne
  · exact e

/-- stronger: any difference at all (content, DescriptorVersion, ...) comes with a larger StateVersion -/
theorem state_change_bumps (t : Tables) (s : SScript) (hw : WF t) (h : Handle) (a b : SState)
    (ha : findS t h = some a) (hb : findS (runS t s).1 h = some b) (hne : a ≠ b) : a.sv < b.sv :=
  (runS_change hw s ha hb).resolve_left hne

example : seenS exT 3 = some 0 ∧ seenS (runS exT exS).1 3 = some 1 ∧ seenS exT 6 = some 9 := by decide

/-- StateVersion of every context state (live or removed) never decreases over a context transaction, provided the handles
    generated for `mk_context_state(handle=None)` are fresh -/
theorem context_version_monotone (t : Tables) (s : CScript) (hw : WF t) (hf : FreshUuids t s) (h : Handle) :
    seenC t h ≤ seenC (runC t s).1 h := runC_seenC hw s hf h

/-- a context state that differs after a context transaction has a strictly larger StateVersion -/
theorem context_change_bumps (t : Tables) (s : CScript) (hw : WF t) (hf : FreshUuids t s) (h : Handle) (a b : CState)
    (ha : findC t h = some a) (hb : findC (runC t s).1 h = some b) (hne : a ≠ b) : a.sv < b.sv :=
  (runC_change hw s hf ha hb).resolve_left hne

/-- re-creating a removed context state handle continues above the saved version (12 was removed at version 3) -/
example : seenC exT 12 = some 3 ∧ seenC (runC exT exC).1 12 = some 4 ∧ seenC (runC exT exC).1 10 = some 3 := by decide

/-- without the freshness hypothesis the counter can go down: a generated handle that collides with a removed one restarts at 0 -/
theorem context_version_monotone_needs_fresh :
    ¬ (seenC exT 12 ≤ seenC (runC exT ⟨[.mk 4 12 false false 8 0], false, false⟩).1 12) := by
  have h1 : seenC exT 12 = some 3 := by decide
  have h2 : seenC (runC exT ⟨[.mk 4 12 false false 8 0], false, false⟩).1 12 = some 0 := by decide
  rw [h1, h2]; simp

/-- a state transaction does not touch descriptors or context states, a context transaction no descriptors or single states -/
theorem state_tx_frame (t : Tables) (s : SScript) (h : Handle) :
    seenD (runS t s).1 h = seenD t h ∧ seenC (runS t s).1 h = seenC t h ∧ (runS t s).1.descrs = t.descrs ∧ (runS t s).1.ctx = t.ctx := by
  obtain ⟨a, b, c, d⟩ := runS_frame t s
  exact ⟨seenD_congr a c h, seenC_congr b d h, a, b⟩
theorem context_tx_frame (t : Tables) (s : CScript) (h : Handle) :
    seenD (runC t s).1 h = seenD t h ∧ seenS (runC t s).1 h = seenS t h ∧ (runC t s).1.descrs = t.descrs ∧ (runC t s).1.states = t.states := by
  obtain ⟨a, b, c, d⟩ := runC_frame t s
  exact ⟨seenD_congr a c h, seenS_congr b d h, a, b⟩

/-! ## descriptor transactions and histories of all seven transaction kinds

`KOK` (kind discipline of the tables: single states are not of the context kind and do not hang on context descriptors,
context states hang on context descriptors) is an invariant the real container classes guarantee by construction; the
model's `kind` fields are free, so it is carried as a second invariant. `DScriptOK` says that the entities handed to
`write_entity` are well-formed `Entity` objects (what `mdib.entities.by_handle` / `new_state` can produce); the classic
calls (`add_descriptor`, `remove_descriptor`, `get_descriptor`, `get_state`) are unrestricted. -/

def exCS : CState :=
  { h := 10, dh := 4, dv := 0, sv := 0, body := 7, assoc := .assoc, bindV := none, unbindV := none, bindT := none, unbindT := none }
def exD : DScript :=
  ⟨[.getDescr 1, .getState 1, .removeDescr 3, .addDescr ⟨6, some 1, .metric, 0, 9, none⟩ (some 2),
    .writeEntity ⟨4, some 1, .context, 0, 5, some 1⟩ none (some [exCS])], false, false⟩

example : KOK exT ∧ DScriptOK exT exD ∧ (runD exT exD).2.2 = .committed := by decide
/-- delete + re-create continues above the saved versions (descriptor 6 was removed at version 4, its state at 9) -/
example : seenD exT 6 = some 4 ∧ seenD (runD exT exD).1 6 = some 5 ∧ seenS (runD exT exD).1 6 = some 10 ∧
    seenD (runD exT exD).1 3 = some 1 ∧ findD (runD exT exD).1 3 = none := by decide

/-- every descriptor transaction script - create / delete (whole subtrees) / update of descriptors with their states in any
    order and combination, classic and entity interface, committed, refused by the consistency check, rejected, aborted -
    keeps the tables well-formed (and keeps the kind discipline) -/
theorem wf_preserved_descriptor_partial (t : Tables) (s : DScript) (hw : WF t) (hk : KOK t) (hs : DScriptOK t s) :
    WF (runD t s).1 ∧ KOK (runD t s).1 := (runD_ok hw hk s hs).2

/-- the statement without the kind discipline -/
def C02_wf_full : Prop := ∀ (t : Tables) (s : DScript), WF t → WF (runD t s).1

/-- ... is false of the model: its `kind` fields are independent, a single state of kind `context` is in no state dict of
    the commit and keeps the old DescriptorVersion. (No real container has such a kind; not a defect of the code.) -/
theorem C02_wf_full_false : ¬ C02_wf_full := by
  intro h
  have := h { descrs := [⟨1, none, .component, 0, 0, some 1⟩, ⟨3, some 1, .metric, 0, 0, some 1⟩], states := [⟨3, 0, 0, .context, 0⟩] }
    ⟨[.getDescr 3], false, false⟩ (by decide)
  revert this; decide

/-- `KOK` is kept by state transactions that do what the API allows (`SKindOK`: no single state of the context kind, none
    written to a context descriptor) and by every context transaction -/
theorem kinds_preserved_state (t : Tables) (s : SScript) (hw : WF t) (hk : KOK t) (hs : SKindOK t s) : KOK (runS t s).1 :=
  runS_kok hw hk s hs
theorem kinds_preserved_context (t : Tables) (s : CScript) (hw : WF t) (hk : KOK t) : KOK (runC t s).1 := runC_kok hw hk s

example : SKindOK exT exS := by decide

/-- histories: any sequence of transactions of the seven kinds keeps the MDIB well-formed -/
theorem wf_hist (t : Tables) (hist : List Script) (hw : WF t) (hk : KOK t) (h : HistOK false t hist) :
    WF (runHist t hist) ∧ KOK (runHist t hist) := runHist_wfk hist t hw hk h

/-- histories of state and context transactions need no side condition at all -/
theorem wf_hist_state_context (t : Tables) (hist : List Script) (hw : WF t) (h : ∀ sc ∈ hist, sc.isSC = true) :
    WF (runHist t hist) := runHist_wf_sc hist t hw h

example : HistOK true exT [.s exS, .c exC, .d exD, .s exS] := by decide

/-! ## version counters over descriptor transactions and histories -/

/-- DescriptorVersion of every descriptor, StateVersion of every single and context state - live or removed (saved
    version) - never decreases over a descriptor transaction; a handle that is deleted and created again continues above
    the saved version -/
theorem descriptor_tx_versions_monotone_partial (t : Tables) (s : DScript) (hw : WF t) (hk : KOK t) (hs : DScriptOK t s)
    (h : Handle) : seenD t h ≤ seenD (runD t s).1 h ∧ seenS t h ≤ seenS (runD t s).1 h ∧ seenC t h ≤ seenC (runD t s).1 h :=
  ⟨(runD_mono hw hk s hs).seenD h, (runD_mono hw hk s hs).seenS h, (runD_mono hw hk s hs).seenC h⟩

/-- a descriptor that differs after a descriptor transaction (content, or version bumped because a child was added or
    removed) has a strictly larger DescriptorVersion -/
theorem descriptor_change_bumps_partial (t : Tables) (s : DScript) (hw : WF t) (hk : KOK t) (hs : DScriptOK t s) (h : Handle)
    (a b : Descr) (ha : findD t h = some a) (hb : findD (runD t s).1 h = some b) (hne : a ≠ b) : a.ver < b.ver :=
  ((runD_mono hw hk s hs).chgD h a b ha hb).resolve_left hne

/-- a single state that differs after a descriptor transaction (written, or following its descriptor's new version) has a
    strictly larger StateVersion; the same for context states -/
theorem descriptor_tx_state_change_bumps_partial (t : Tables) (s : DScript) (hw : WF t) (hk : KOK t) (hs : DScriptOK t s)
    (h : Handle) (a b : SState) (ha : findS t h = some a) (hb : findS (runD t s).1 h = some b) (hne : a ≠ b) : a.sv < b.sv :=
  ((runD_mono hw hk s hs).chgS h a b ha hb).resolve_left hne
theorem descriptor_tx_context_change_bumps_partial (t : Tables) (s : DScript) (hw : WF t) (hk : KOK t) (hs : DScriptOK t s)
    (h : Handle) (a b : CState) (ha : findC t h = some a) (hb : findC (runD t s).1 h = some b) (hne : a ≠ b) : a.sv < b.sv :=
  ((runD_mono hw hk s hs).chgC h a b ha hb).resolve_left hne

/-- the updated MDS (1) and its state; the written context state of the updated context descriptor 4 (written: +1, follows
    the descriptor: +1); the state of the removed descriptor 3 keeps its version in the saved lookup -/
example : seenD (runD exT exD).1 1 = some 4 ∧ seenS (runD exT exD).1 1 = some 5 ∧ seenC (runD exT exD).1 10 = some 4 ∧
    seenD (runD exT exD).1 4 = some 2 ∧ seenS exT 3 = seenS (runD exT exD).1 3 := by decide

/-- histories of transactions of all seven kinds: no version counter of any descriptor, state or context state - live or
    removed - ever decreases (`HistOK true`: generated context state handles are fresh, entities are well-formed) -/
theorem counters_monotone_hist (t : Tables) (hist : List Script) (hw : WF t) (hk : KOK t) (h : HistOK true t hist)
    (x : Handle) : seenD t x ≤ seenD (runHist t hist) x ∧ seenS t x ≤ seenS (runHist t hist) x ∧
      seenC t x ≤ seenC (runHist t hist) x := runHist_seen hist t hw hk h x

/-- state and context histories: the two state counters, for every script sequence with fresh generated handles -/
theorem state_context_counters_monotone_step (t : Tables) (sc : Script) (hw : WF t) (hk : KOK t) (h : StepOK true t sc)
    (x : Handle) : seenD t x ≤ seenD (runScript t sc).1 x ∧ seenS t x ≤ seenS (runScript t sc).1 x ∧
      seenC t x ≤ seenC (runScript t sc).1 x :=
  ⟨(runScript_mono hw hk sc h).seenD x, (runScript_mono hw hk sc h).seenS x, (runScript_mono hw hk sc h).seenC x⟩

end Sdc.C02
