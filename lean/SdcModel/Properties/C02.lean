import SdcModel.MdibDescr
/-! # C02 — version counters monotone, gap-free, referentially consistent (property theorems) -/
namespace Sdc.C02
open Sdc.Mdib

/-- an empty state transaction leaves everything unchanged -/
theorem empty_state_tx_noop (t : Tables) (k : Kind) : commitS t { kind := k } = (t, {}, none) := by
  simp [commitS]

end Sdc.C02
