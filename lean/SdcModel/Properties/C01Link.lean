import SdcModel.Proofs.MdibLinkD
import SdcModel.Properties.C01
/-!
# C01 link — the provider model satisfies the consumer contract `ReportsDescribe`

`absCore t q i` = provider tables as the consumer contract sees them (version group ⟨MdibVersion, SequenceId `q`,
InstanceId `i`⟩), `toReports t' vg r` = the notifications `mkReports` builds from the TransactionResult `r`, flattened to
the reports the consumer model takes.  Helper lemmas: `Proofs/MdibLink*.lean` (the 22 clauses of `describeClauses` are
derived from `PFacts`, facts about one committed transaction, in `MdibLinkDescribe.lean`).
-/
set_option linter.unusedSimpArgs false
namespace Sdc.C01
open Sdc.Mdib Sdc.Consumer

/-- a committed state transaction (any of the five kinds) is described exactly by its reports -/
theorem provider_reports_describe_state (t t' : Mdib.Tables) (r : TxResult) (s : SScript) (q : Nat) (i : Option Nat) (hw : WF t)
    (hk : s.kind ≠ .context) (h : runS t s = (t', r, .committed)) :
    ReportsDescribe (absCore t q i) (absCore t' q i) (toReports t' ⟨t'.ver, q, i⟩ r) :=
  describe_of_facts (pfacts_state hw hk h) q i

/-- a committed context state transaction that deletes no context state (`NoDel`; a deleted context state cannot be
    reported, `unreported_change_excluded`) and uses fresh generated handles is described exactly by its reports -/
theorem provider_reports_describe_context (t t' : Mdib.Tables) (r : TxResult) (s : CScript) (q : Nat) (i : Option Nat) (hw : WF t)
    (hf : FreshUuids t s) (hnd : NoDel s) (h : runC t s = (t', r, .committed)) :
    ReportsDescribe (absCore t q i) (absCore t' q i) (toReports t' ⟨t'.ver, q, i⟩ r) :=
  describe_of_facts (pfacts_context hw hf hnd h) q i

/-- the `NoDel` hypothesis is needed: the deletion of a context state is in no report -/
theorem context_delete_not_described :
    ∃ (t : Mdib.Tables) (s : CScript), WF t ∧ FreshUuids t s ∧ (runC t s).2.2 = .committed ∧
      reportsDescribe (absCore t 1 none) (absCore (runC t s).1 1 none) (toReports (runC t s).1 ⟨(runC t s).1.ver, 1, none⟩ (runC t s).2.1) = false :=
  ⟨{ ver := 1, descrs := [⟨4, none, .context, 0, 0, some 4⟩],
     ctx := [{ h := 10, dh := 4, dv := 0, sv := 2, body := 0, assoc := .no, bindV := none, unbindV := none, bindT := none, unbindT := none },
             { h := 11, dh := 4, dv := 0, sv := 0, body := 0, assoc := .no, bindV := none, unbindV := none, bindT := none, unbindT := none }] },
   ⟨[.del 10, .get 11], false, false⟩, by decide⟩

/-- a committed descriptor transaction (classic and entity interface: create / update / delete in any combination, with
    the states that follow) is described exactly by its reports - under the kind discipline `KOK`, well-formed entities
    `DScriptOK`, and `DLinkOK`: the transaction the script collects removes subtrees bottom-up with one `remove_descriptor`
    per descriptor (clause `flat`, `partsDistinct`), its updates keep parent / source mds (clause `updated`), and
    `write_entity` deletes no context state (clause `cstateRemoved`) -/
theorem provider_reports_describe_descriptor_partial (t t' : Mdib.Tables) (r : TxResult) (s : DScript) (q : Nat) (i : Option Nat)
    (hw : WF t) (hk : KOK t) (hs : DScriptOK t s) (hl : DLinkOK t s) (h : runD t s = (t', r, .committed)) :
    ReportsDescribe (absCore t q i) (absCore t' q i) (toReports t' ⟨t'.ver, q, i⟩ r) :=
  describe_of_facts (pfacts_descriptor hw hk s hs hl h) q i

/-! ## examples -/

def lT : Mdib.Tables where
  ver := 5
  descrs := [⟨1, none, .component, 3, 0, some 1⟩, ⟨3, some 1, .metric, 1, 0, some 1⟩, ⟨4, some 1, .context, 1, 0, some 1⟩]
  states := [⟨1, 3, 4, .component, 0⟩, ⟨3, 1, 0, .metric, 0⟩]
  ctx := [{ h := 10, dh := 4, dv := 1, sv := 2, body := 0, assoc := .assoc, bindV := none, unbindV := none, bindT := none, unbindT := none }]
  cSaved := [(12, 3)]

def lCS : CState :=
  { h := 10, dh := 4, dv := 0, sv := 0, body := 7, assoc := .assoc, bindV := none, unbindV := none, bindT := none, unbindT := none }
def lD : DScript :=
  ⟨[.getDescr 1, .getState 1, .removeDescr 3, .addDescr ⟨6, some 1, .metric, 0, 9, none⟩ (some 2),
    .writeEntity ⟨4, some 1, .context, 0, 5, some 1⟩ none (some [lCS])], false, false⟩
def lS : SScript := ⟨.metric, [.get 3, .setBody 3 5], false, false⟩
def lC : CScript := ⟨[.get 10, .mk 4 11 false true 7 0], false, false⟩

example : WF lT ∧ lS.kind ≠ .context ∧ (runS lT lS).2.2 = .committed ∧ FreshUuids lT lC ∧ NoDel lC ∧ (runC lT lC).2.2 = .committed := by
  decide
example : reportsDescribe (absCore lT 7 none) (absCore (runS lT lS).1 7 none)
    (toReports (runS lT lS).1 ⟨(runS lT lS).1.ver, 7, none⟩ (runS lT lS).2.1) = true := by decide

/-! ## histories: the consumer model fed with the provider model's reports mirrors the provider model -/

/-- side conditions of one script (what the real API can be asked to do, see C02/C04): state scripts write no `context`
    kind states, context scripts use fresh generated handles and delete no state, descriptor scripts see
    `provider_reports_describe_descriptor_partial` -/
def LinkOK (t : Mdib.Tables) : Script → Prop
  | .s x => SKindOK t x
  | .c x => FreshUuids t x ∧ NoDel x
  | .d x => DScriptOK t x ∧ DLinkOK t x

instance (t : Mdib.Tables) (sc : Script) : Decidable (LinkOK t sc) := by
  cases sc <;> (unfold LinkOK; infer_instance)

def HistLinkOK : Mdib.Tables → List Script → Prop
  | _, [] => True
  | t, sc :: rest => LinkOK t sc ∧ HistLinkOK (runScript t sc).1 rest

instance : ∀ (t : Mdib.Tables) (h : List Script), Decidable (HistLinkOK t h)
  | _, [] => isTrue trivial
  | t, sc :: rest =>
    have := instDecidableHistLinkOK (runScript t sc).1 rest
    by unfold HistLinkOK; infer_instance

/-- the provider history as the consumer contract sees it: one entry (content after, reports) per committed transaction -/
def provHist (q : Nat) (i : Option Nat) : Mdib.Tables → List Script → History
  | _, [] => []
  | t, sc :: rest =>
    if (runScript t sc).2.2 = .committed then
      (absCore (runScript t sc).1 q i, toReports (runScript t sc).1 ⟨(runScript t sc).1.ver, q, i⟩ (runScript t sc).2.1) ::
        provHist q i (runScript t sc).1 rest
    else provHist q i (runScript t sc).1 rest

/-- one script: committed ⇒ described by its reports; otherwise nothing changed; the invariants are kept -/
theorem link_step (t : Mdib.Tables) (sc : Script) (q : Nat) (i : Option Nat) (hw : WF t) (hk : KOK t) (h : LinkOK t sc) :
    WF (runScript t sc).1 ∧ KOK (runScript t sc).1 ∧
    ((runScript t sc).2.2 = .committed →
      ReportsDescribe (absCore t q i) (absCore (runScript t sc).1 q i)
        (toReports (runScript t sc).1 ⟨(runScript t sc).1.ver, q, i⟩ (runScript t sc).2.1)) ∧
    ((runScript t sc).2.2 ≠ .committed → (runScript t sc).1 = t) := by
  cases sc with
  | s x =>
    refine ⟨(runS_ok hw x).2, runS_kok hw hk x h, ?_, ?_⟩
    · intro hc
      exact provider_reports_describe_state t _ _ x q i hw h.1 (Prod.ext rfl (Prod.ext rfl hc))
    · intro hn
      have hne := (runS_ok hw x).1
      have key : ∀ o : Outcome, o ≠ .committed → o ≠ .commitFailed → o = .empty ∨ o = .aborted ∨ o = .rejected := by
        intro o; cases o <;> simp
      exact runScript_unchanged t (.s x) (key _ hn hne)
  | c x =>
    refine ⟨runC_wf hw x, runC_kok hw hk x, ?_, ?_⟩
    · intro hc
      exact provider_reports_describe_context t _ _ x q i hw h.1 h.2 (Prod.ext rfl (Prod.ext rfl hc))
    · intro hn
      have hne := runC_ok hw x h.1
      have key : ∀ o : Outcome, o ≠ .committed → o ≠ .commitFailed → o = .empty ∨ o = .aborted ∨ o = .rejected := by
        intro o; cases o <;> simp
      exact runScript_unchanged t (.c x) (key _ hn hne)
  | d x =>
    obtain ⟨ha, hwf, hkk⟩ := runD_ok hw hk x h.1
    refine ⟨hwf, hkk, ?_, ?_⟩
    · intro hc
      exact provider_reports_describe_descriptor_partial t _ _ x q i hw hk h.1 h.2 (Prod.ext rfl (Prod.ext rfl hc))
    · intro hn
      by_cases hf : (runD t x).2.2 = .commitFailed
      · exact ha hf
      · have key : ∀ o : Outcome, o ≠ .committed → o ≠ .commitFailed → o = .empty ∨ o = .aborted ∨ o = .rejected := by
          intro o; cases o <;> simp
        exact runScript_unchanged t (.d x) (key _ hn hf)

theorem provHist_describes (q : Nat) (i : Option Nat) : ∀ (hist : List Script) (t : Mdib.Tables), WF t → KOK t → HistLinkOK t hist →
    Describes (absCore t q i) (provHist q i t hist) ∧
    History.final (absCore t q i) (provHist q i t hist) = absCore (runHist t hist) q i := by
  intro hist
  induction hist with
  | nil => intro t _ _ _; exact ⟨trivial, rfl⟩
  | cons sc rest ih =>
    intro t hw hk h
    obtain ⟨w', k', hc, hn⟩ := link_step t sc q i hw hk h.1
    obtain ⟨d, f⟩ := ih _ w' k' h.2
    simp only [provHist, runHist]
    by_cases hcm : (runScript t sc).2.2 = .committed
    · simp only [hcm, if_true]
      exact ⟨⟨hc hcm, d⟩, f⟩
    · simp only [hcm, if_false]
      rw [hn hcm] at d f ⊢
      exact ⟨d, f⟩

/-- **end to end**: a consumer (model of `consumermdib.py`) that mirrors the provider (model of the provider transactions)
    and receives, in order, the reports the provider model emits for a history of transactions stays initialised and
    mirrors the provider tables after the history -/
theorem provider_consumer_mirror (t : Mdib.Tables) (hist : List Script) (q : Nat) (i : Option Nat) (s : St) (hw : WF t) (hk : KOK t)
    (h : HistLinkOK t hist) (hm : s.mode = .initialized) (hsw : s.core.tabs.Wf) (hM : Mirror s.core (absCore t q i)) :
    (run s ((provHist q i t hist).reports.map .report)).mode = .initialized ∧
    Mirror (run s ((provHist q i t hist).reports.map .report)).core (absCore (runHist t hist) q i) := by
  obtain ⟨d, f⟩ := provHist_describes q i hist t hw hk h
  have := mirror (provHist q i t hist) (absCore t q i) s d hm hsw hM
  rw [f] at this
  exact this

example : KOK lT ∧ DScriptOK lT lD ∧ DLinkOK lT lD ∧ (runD lT lD).2.2 = .committed := by decide
example : reportsDescribe (absCore lT 7 none) (absCore (runD lT lD).1 7 none)
    (toReports (runD lT lD).1 ⟨(runD lT lD).1.ver, 7, none⟩ (runD lT lD).2.1) = true := by decide
example : KOK lT ∧ HistLinkOK lT [.s lS, .d lD, .c lC, .s ⟨.component, [.get 1], false, false⟩] := by decide

/-- the restriction `KeepsParent` in `DLinkOK` is needed: an entity written with another parent is reported with that
    parent while the table keeps the old one (clause `updated`).
    (A context state dropped from an entity written through a descriptor transaction is no counterexample any more: since
    round 2 `reportsDescribe` accepts a context state that disappears because the UPDATE part of its context descriptor
    does not list it — the consumer removes it, see `mirror_step` — so that restriction of `DLinkOK` is only sufficient.) -/
theorem descriptor_link_needs_restrictions :
    ∃ (t : Mdib.Tables) (s1 : DScript), WF t ∧ KOK t ∧ DScriptOK t s1 ∧
      (runD t s1).2.2 = .committed ∧
      reportsDescribe (absCore t 1 none) (absCore (runD t s1).1 1 none)
        (toReports (runD t s1).1 ⟨(runD t s1).1.ver, 1, none⟩ (runD t s1).2.1) = false :=
  ⟨lT, ⟨[.writeEntity ⟨3, none, .metric, 0, 5, some 1⟩ none none], false, false⟩, by decide⟩

/-- a context entity written without its states: the reports (UPDATE part that lists no state) describe the change -/
example : reportsDescribe (absCore lT 1 none)
    (absCore (runD lT ⟨[.writeEntity ⟨4, some 1, .context, 0, 5, some 1⟩ none (some [])], false, false⟩).1 1 none)
    (toReports (runD lT ⟨[.writeEntity ⟨4, some 1, .context, 0, 5, some 1⟩ none (some [])], false, false⟩).1
      ⟨(runD lT ⟨[.writeEntity ⟨4, some 1, .context, 0, 5, some 1⟩ none (some [])], false, false⟩).1.ver, 1, none⟩
      (runD lT ⟨[.writeEntity ⟨4, some 1, .context, 0, 5, some 1⟩ none (some [])], false, false⟩).2.1) = true := by decide

end Sdc.C01
