import SdcModel.Consumer
import SdcModel.Proofs.Consumer
import SdcModel.Proofs.ConsumerMirror
import SdcModel.Generated.ConsumerLocks
/-!
# C01 — the consumer MDIB is an exact mirror of the provider MDIB after any report history

Property theorems only.  Consumer model: `SdcModel/Consumer.lean`; helper lemmas: `SdcModel/Proofs/ConsumerMirror.lean`.

The provider side enters through the decidable predicate `reportsDescribe p p' rs` ("the reports `rs` of one
transaction describe the change `p → p'` of the provider content exactly": sound, complete, newer versions, DELETE
parts children first, …, see `SdcModel/Consumer.lean`).  C04 proves it for the provider model; the harness evaluates
it on every transaction of the real provider.
-/
namespace Sdc.C01
open Sdc.Mdib Sdc.Consumer

/-- a provider history: the content after each committed transaction together with the reports sent for it -/
abbrev History := List (Core × List Report)

/-- every transaction's reports describe its change, starting from the content `p` -/
def Describes : Core → History → Prop
  | _, [] => True
  | p, (p', rs) :: rest => ReportsDescribe p p' rs ∧ Describes p' rest

/-- all reports of the history, in emission order -/
def History.reports (h : History) : List Report := h.flatMap (·.2)

/-- the provider content at the end of the history -/
def History.final (p : Core) : History → Core
  | [] => p
  | (p', _) :: rest => History.final p' rest

/-! ### one transaction -/

/-- **simulation step**: a consumer that mirrors the provider before a transaction and processes the reports of
    that transaction in emission order mirrors the provider after the transaction (every kind of transaction:
    state / context / waveform reports and description modification reports with CREATE, UPDATE, DELETE parts) -/
theorem mirror_step (p p' c : Core) (rs : List Report) (hD : ReportsDescribe p p' rs) (hw : c.tabs.Wf)
    (hM : Mirror c p) : Mirror (applyAll c rs).1 p' ∧ (applyAll c rs).1.tabs.Wf :=
  ⟨mirror_of_facts (txFacts_of_describe hD) hw hM, applyAll_wf rs hw⟩

/-! ### whole histories -/

theorem applyAll_append (c : Core) (a b : List Report) : (applyAll c (a ++ b)).1 = (applyAll (applyAll c a).1 b).1 := by
  induction a generalizing c with
  | nil => rfl
  | cons r a ih => exact ih _

/-- **mirror** (handler level): after every history of transactions whose reports are processed in emission order
    with nothing lost, the consumer content equals the provider content — same descriptors under the same parents,
    same states and context states with the same versions, same MdibVersion / SequenceId / InstanceId.
    The statement holds for every history, hence after every prefix. -/
theorem mirror_core : ∀ (hist : History) (p c : Core), Describes p hist → c.tabs.Wf → Mirror c p →
    Mirror (applyAll c hist.reports).1 (History.final p hist) ∧ (applyAll c hist.reports).1.tabs.Wf
  | [], _, _, _, hw, hM => ⟨hM, hw⟩
  | (p', rs) :: rest, p, c, hD, hw, hM => by
    obtain ⟨h1, h2⟩ := mirror_step p p' c rs hD.1 hw hM
    have := mirror_core rest p' (applyAll c rs).1 hD.2 h2 h1
    have e : History.reports ((p', rs) :: rest) = rs ++ History.reports rest := by
      unfold History.reports; simp
    rw [e, applyAll_append]
    exact this

/-- along a described history the SequenceId / InstanceId stay the same and every report is newer than the start -/
theorem describes_ids : ∀ (hist : History) (p : Core), Describes p hist →
    (∀ r ∈ hist.reports, r.vg.seq = p.vg.seq ∧ r.vg.inst = p.vg.inst ∧ p.vg.ver < r.vg.ver) ∧
    (History.final p hist).vg.seq = p.vg.seq ∧ (History.final p hist).vg.inst = p.vg.inst ∧
    p.vg.ver ≤ (History.final p hist).vg.ver
  | [], _, _ => ⟨(fun r hr => nomatch hr), rfl, rfl, Nat.le_refl _⟩
  | (p', rs) :: rest, p, hD => by
    have T := txFacts_of_describe hD.1
    obtain ⟨h1, h2, h3, h4⟩ := describes_ids rest p' hD.2
    have e : History.reports ((p', rs) :: rest) = rs ++ History.reports rest := by
      unfold History.reports; simp
    refine ⟨?_, by rw [show History.final p ((p', rs) :: rest) = History.final p' rest from rfl, h2, T.seq],
      by rw [show History.final p ((p', rs) :: rest) = History.final p' rest from rfl, h3, T.inst],
      by rw [show History.final p ((p', rs) :: rest) = History.final p' rest from rfl]; have := T.ver; omega⟩
    intro r hr
    rw [e] at hr
    rcases List.mem_append.mp hr with h | h
    · rw [T.vg r h]; exact ⟨T.seq.symm, T.inst.symm, T.verlt⟩
    · obtain ⟨a, b, c⟩ := h1 r h
      exact ⟨by rw [a, T.seq], by rw [b, T.inst], by have := T.verlt; omega⟩

/-- `run` over reports that all carry the ids of the consumer = the handlers one after the other -/
theorem run_reports_same_ids : ∀ (rs : List Report) (s : St), s.mode = .initialized →
    (∀ r ∈ rs, r.vg.seq = s.core.vg.seq ∧ r.vg.inst = s.core.vg.inst) →
    run s (rs.map .report) = { s with core := (applyAll s.core rs).1 }
  | [], _, _, _ => rfl
  | r :: rs, s, hm, hids => by
    have hid : idsDiffer s.core r = false := by
      unfold idsDiffer; simp [(hids r (by simp)).1, (hids r (by simp)).2]
    have e : (step s (.report r)).1 = { s with core := (applyReport s.core r).1 } := by
      rw [step_report_ok r hm hid]
    rw [List.map_cons, run_cons, e]
    have hseq : (applyReport s.core r).1.vg.seq = s.core.vg.seq ∧ (applyReport s.core r).1.vg.inst = s.core.vg.inst := by
      rw [applyReport_vg]; split
      · exact hids r (by simp)
      · exact ⟨rfl, rfl⟩
    have ih := run_reports_same_ids rs { s with core := (applyReport s.core r).1 } hm (fun q hq => by
      have := hids q (by simp [hq]); simp only; rw [hseq.1, hseq.2]; exact this)
    rw [ih]
    rfl

/-- **mirror** (event level): an initialised consumer that mirrors the provider stays initialised and mirrors the
    provider after any described history delivered in order -/
theorem mirror (hist : History) (p : Core) (s : St) (hD : Describes p hist) (hm : s.mode = .initialized)
    (hw : s.core.tabs.Wf) (hM : Mirror s.core p) :
    (run s (hist.reports.map .report)).mode = .initialized ∧
    Mirror (run s (hist.reports.map .report)).core (History.final p hist) := by
  have hids := (describes_ids hist p hD).1
  rw [run_reports_same_ids hist.reports s hm (fun r hr => by
    obtain ⟨a, b, _⟩ := hids r hr; rw [hM.vg]; exact ⟨a, b⟩)]
  exact ⟨hm, (mirror_core hist p s.core hD hw hM).1⟩

/-- **initial load / reload** (C06: "after a reload the consumer is again an exact mirror"): GetMdib answered with
    the provider content `p`, every report of the described history that follows `p` arrived while the request was
    in flight — together with arbitrary reports `old` that are not newer than `p` — and nothing else: after the
    load the consumer mirrors the end of the history; nothing is lost, nothing applied twice -/
theorem mirror_after_reload (hist : History) (p : Core) (s : St) (old : List Report) (hD : Describes p hist)
    (hm : s.mode = .initializing) (hb : s.buf = old ++ hist.reports)
    (hold : ∀ r ∈ old, r.vg.ver ≤ p.vg.ver ∨ r.vg.seq ≠ p.vg.seq)
    (hw : (⟨p.vg, p.tabs.descrs, p.tabs.states, p.tabs.cstates⟩ : Snapshot).wf [] = true)
    (hc : p.tabs.cstates ≠ []) :
    Mirror (step s (.reloadEnd ⟨p.vg, p.tabs.descrs, p.tabs.states, p.tabs.cstates⟩ [])).1.core (History.final p hist) := by
  rw [step_reloadEnd _ _ hm hw, replay_eq_applyAll, hb]
  have hload : loadSnapshot ⟨p.vg, p.tabs.descrs, p.tabs.states, p.tabs.cstates⟩ [] = p := by
    obtain ⟨vg, ⟨d, st, cs⟩⟩ := p
    unfold loadSnapshot
    cases cs with
    | nil => exact absurd rfl hc
    | cons x xs => simp
  rw [hload]
  have hids := (describes_ids hist p hD).1
  have hfil : (old ++ hist.reports).filter (replayable p.vg.ver p.vg.seq) = hist.reports := by
    rw [List.filter_append]
    have h1 : old.filter (replayable p.vg.ver p.vg.seq) = [] := by
      rw [List.filter_eq_nil_iff]
      intro r hr
      unfold replayable
      rcases hold r hr with h | h
      · simp; intro _; omega
      · simp [h]
    have h2 : hist.reports.filter (replayable p.vg.ver p.vg.seq) = hist.reports := by
      rw [List.filter_eq_self]
      intro r hr
      obtain ⟨a, _, c⟩ := hids r hr
      unfold replayable; simp [a, c]
    rw [h1, h2]; rfl
  rw [hfil]
  have hwf := loadSnapshot_wf hw
  rw [hload] at hwf
  exact (mirror_core hist p p hD hwf ⟨rfl, fun _ => rfl, fun _ => rfl, fun _ => rfl⟩).1

/-- `mirror_after_reload` treats the end of `reload_all` (replay of the buffer, clearing, switch to `initialized`) as
    one atomic step: justified by the traced program, in which the state switch happens inside the buffer-lock section
    (otherwise a report arriving in between is appended to a buffer nobody replays and is lost) -/
theorem reload_is_atomic_for_notifications :
    switchInsideLock false Generated.reloadAllTrace = true ∧
    Generated.reloadAllTrace.contains (.writeState .initialized) = true ∧
    recheckBeforeAppend false false Generated.preCheckTrace = true := by decide

/-! ### notifications -/

/-- **notifs_exact**, state reports: the `*_by_handle` notification of a metric / alert / component / operational /
    waveform report names exactly the states that the report changed (any report, any consumer state) -/
theorem notifs_exact_states (c : Core) (r : Report) (hk : r.kind ≠ .description) (hc : r.kind ≠ .context)
    (hv : c.vg.ver ≤ r.vg.ver) (k : Handle) :
    k ∈ (applyReport c r).2.handles ↔
      lookupBy (·.dh) (applyReport c r).1.tabs.states k ≠ lookupBy (·.dh) c.tabs.states k := by
  have hacc := (canAccept_iff c r).2 hv
  have h1 : (applyReport c r).2.handles = (gatedPutAll (·.dh) (·.sv) true c.tabs.states r.states).2 := by
    unfold applyReport; rw [hacc]; simp only [if_true]
    all_goals (cases hkk : r.kind <;> simp_all)
  have h2 : (applyReport c r).1.tabs.states = (gatedPutAll (·.dh) (·.sv) true c.tabs.states r.states).1 := by
    unfold applyReport; rw [hacc]; simp only [if_true]
    all_goals (cases hkk : r.kind <;> simp_all)
  rw [h1, h2]
  exact gatedPutAll_named_iff_changed _ _ true _ _ k

/-- **notifs_exact**, context reports: `context_by_handle` names exactly the context states (by their Handle) that
    the report changed -/
theorem notifs_exact_context (c : Core) (r : Report) (hc : r.kind = .context) (hv : c.vg.ver ≤ r.vg.ver) (k : Handle) :
    k ∈ (applyReport c r).2.handles ↔
      lookupBy (·.h) (applyReport c r).1.tabs.cstates k ≠ lookupBy (·.h) c.tabs.cstates k := by
  have hacc := (canAccept_iff c r).2 hv
  have h1 : (applyReport c r).2.handles = (gatedPutAll (·.h) (·.sv) true c.tabs.cstates r.cstates).2 := by
    unfold applyReport; rw [hacc]; simp only [if_true, hc]
  have h2 : (applyReport c r).1.tabs.cstates = (gatedPutAll (·.h) (·.sv) true c.tabs.cstates r.cstates).1 := by
    unfold applyReport; rw [hacc]; simp only [if_true, hc]
  rw [h1, h2]
  exact gatedPutAll_named_iff_changed _ _ true _ _ k

/-- **notifs_exact**, description modification reports: `new_/updated_descriptors_by_handle` name exactly the
    descriptors of the CREATE / UPDATE parts, `deleted_descriptors_by_handle` names the descriptors of the DELETE
    parts (and the descriptors removed with them) -/
theorem notifs_exact_description (c : Core) (r : Report) (hk : r.kind = .description) (hv : c.vg.ver ≤ r.vg.ver) :
    (applyReport c r).2.created = partHandles .create r.parts ∧
    (applyReport c r).2.updated = partHandles .update r.parts ∧
    (∀ h ∈ partHandles .delete r.parts, h ∈ (applyReport c r).2.deleted) := by
  have hacc := (canAccept_iff c r).2 hv
  unfold applyReport; rw [hacc]; simp only [if_true, hk]
  refine ⟨trivial, trivial, ?_⟩
  intro h hh
  generalize c.tabs = t
  unfold partHandles at hh
  generalize r.parts = parts at hh ⊢
  induction parts generalizing t with
  | nil => simp at hh
  | cons q ps ih =>
    unfold deletedNotif
    rw [List.filter_cons] at hh
    by_cases hq : q.mod = .delete
    · simp only [hq, beq_self_eq_true, if_true, List.map_cons, List.mem_cons] at hh
      rcases hh with rfl | hh
      · simp [hq]
      · exact List.mem_append_right _ (ih _ hh)
    · have : (q.mod == ModType.delete) = false := by simpa using hq
      simp only [this, Bool.false_eq_true, if_false] at hh
      exact List.mem_append_right _ (ih _ hh)

/-! ### what cannot be mirrored: a change for which the provider sends no report
(a context state deleted through `ContextStateTransaction.write_entity`: the MdibVersion is incremented, the state is
removed, no report is sent) -/

def witnessBefore : Core :=
  ⟨⟨3, 1, some 1⟩, ⟨[⟨1, none, .context, 0, 10, none⟩], [], [⟨7, 1, 0, 1, 30, .assoc, some 2, none, none, none⟩,
    ⟨8, 1, 0, 0, 31, .no, none, none, none, none⟩]⟩⟩
def witnessAfter : Core :=
  ⟨⟨4, 1, some 1⟩, ⟨[⟨1, none, .context, 0, 10, none⟩], [], [⟨8, 1, 0, 0, 31, .no, none, none, none, none⟩]⟩⟩

/-- the (empty) report list of such a transaction is rejected by the predicate that `mirror` assumes … -/
theorem unreported_change_excluded : reportsDescribe witnessBefore witnessAfter [] = false := by decide

/-- … and indeed a consumer that mirrored the provider before is no mirror afterwards -/
theorem unreported_change_not_mirrored (c : Core) (hM : Mirror c witnessBefore) :
    ¬ Mirror (applyAll c []).1 witnessAfter := by
  intro h
  have h1 := h.vg
  have h2 := hM.vg
  have : (applyAll c []).1 = c := rfl
  rw [this, h2] at h1
  exact absurd h1 (by decide)

/-! ### non-vacuity: a concrete described history with all kinds of parts -/

def ex0 : Core :=
  ⟨⟨3, 1, some 1⟩,
   ⟨[⟨1, none, .component, 0, 10, none⟩, ⟨2, some 1, .metric, 0, 11, none⟩, ⟨3, some 1, .context, 0, 12, none⟩,
     ⟨5, some 1, .component, 0, 15, none⟩, ⟨6, some 5, .metric, 0, 16, none⟩],
    [⟨1, 0, 0, .component, 20⟩, ⟨2, 0, 4, .metric, 21⟩, ⟨5, 0, 0, .component, 27⟩, ⟨6, 0, 1, .metric, 28⟩],
    [⟨7, 3, 0, 1, 30, .assoc, some 2, none, none, none⟩]⟩⟩
/-- metric report -/
def ex1 : Core :=
  { ex0 with vg := ⟨4, 1, some 1⟩, tabs := { ex0.tabs with states :=
    [⟨1, 0, 0, .component, 20⟩, ⟨2, 0, 5, .metric, 22⟩, ⟨5, 0, 0, .component, 27⟩, ⟨6, 0, 1, .metric, 28⟩] } }
def rs1 : List Report := [{ kind := .metric, vg := ⟨4, 1, some 1⟩, states := [⟨2, 0, 5, .metric, 22⟩] }]
/-- descriptor transaction: update metric 2 (+ its state), create metric 4 below 1 (parent 1 bumped), delete the
    subtree 5 (child 6 first) -/
def ex2 : Core :=
  ⟨⟨5, 1, some 1⟩,
   ⟨[⟨1, none, .component, 1, 10, none⟩, ⟨2, some 1, .metric, 1, 14, none⟩, ⟨3, some 1, .context, 0, 12, none⟩,
     ⟨4, some 1, .metric, 0, 13, none⟩],
    [⟨1, 1, 1, .component, 20⟩, ⟨2, 1, 6, .metric, 22⟩, ⟨4, 0, 0, .metric, 24⟩],
    [⟨7, 3, 0, 1, 30, .assoc, some 2, none, none, none⟩]⟩⟩
def rs2 : List Report :=
  [{ kind := .description, vg := ⟨5, 1, some 1⟩,
     parts := [⟨.update, ⟨2, some 1, .metric, 1, 14, none⟩, [⟨2, 1, 6, .metric, 22⟩], []⟩,
               ⟨.update, ⟨1, none, .component, 1, 10, none⟩, [⟨1, 1, 1, .component, 20⟩], []⟩,
               ⟨.create, ⟨4, some 1, .metric, 0, 13, none⟩, [⟨4, 0, 0, .metric, 24⟩], []⟩,
               ⟨.delete, ⟨6, some 5, .metric, 0, 16, none⟩, [], []⟩,
               ⟨.delete, ⟨5, some 1, .component, 0, 15, none⟩, [], []⟩] },
   { kind := .metric, vg := ⟨5, 1, some 1⟩, states := [⟨2, 1, 6, .metric, 22⟩, ⟨4, 0, 0, .metric, 24⟩] },
   { kind := .component, vg := ⟨5, 1, some 1⟩, states := [⟨1, 1, 1, .component, 20⟩] }]
/-- the context entity 3 written through a descriptor transaction without its (last) context state: an UPDATE part
    that lists no state; the consumer has to drop context state 7 -/
def ex3 : Core :=
  ⟨⟨6, 1, some 1⟩,
   ⟨[⟨1, none, .component, 1, 10, none⟩, ⟨2, some 1, .metric, 1, 14, none⟩, ⟨3, some 1, .context, 1, 12, none⟩,
     ⟨4, some 1, .metric, 0, 13, none⟩],
    [⟨1, 1, 1, .component, 20⟩, ⟨2, 1, 6, .metric, 22⟩, ⟨4, 0, 0, .metric, 24⟩], []⟩⟩
def rs3 : List Report :=
  [{ kind := .description, vg := ⟨6, 1, some 1⟩, parts := [⟨.update, ⟨3, some 1, .context, 1, 12, none⟩, [], []⟩] }]
def exHist : History := [(ex1, rs1), (ex2, rs2), (ex3, rs3)]

example : Describes ex0 exHist := by
  refine ⟨by decide, by decide, by decide, trivial⟩

example : (applyAll ex0 exHist.reports).1 = ex3 := by decide

end Sdc.C01
