import SdcModel.LockLts
import SdcModel.Proofs.LockLts
import SdcModel.Generated.LockProgs
/-!
# C07 — Get responses are consistent snapshots under concurrent transactions
Property theorems only. Model: `SdcModel/LockLts.lean` (interleaving semantics, any thread may move at any step);
invariant: `SdcModel/Proofs/LockLts.lean`; the programs of the request handlers and of the transactions:
`Generated/LockProgs.lean` (regenerated on every run from dynamic lock / access traces of the real code).
-/
namespace Sdc.C07
open Sdc.LockLts

/-- Main theorem. Any number of threads (`thr : Nat → Thr`), every one with a `WellLocked` program that does not
    mutate published state objects, ANY schedule (`Reach` lets any enabled thread move at every step): a completed
    thread that only reads (a request handler) has observed exactly ONE published triple
    (MdibVersion, description, states) — all its version reads, description reads and state serialisations
    (the latter possibly after it released `mdib_lock`) belong to the same moment at which the lock was free. -/
theorem wellLocked_snapshot (c0 c : Cfg) (h0 : Init c0)
    (hw : ∀ j, WellLocked (c0.thr j).prog ∧ NoMutate (c0.thr j).prog) (hr : Reach c0 c)
    (i : Nat) (hro : ReadOnly (c.thr i).prog) (hd : (c.thr i).todo = []) :
    ∃ p ∈ c.hist, Consistent (c.thr i) p :=
  snapshot_of_good (good_reach (good_init h0 hw) hr) i hro hd

/-- the same for a schedule given as a list of thread ids (what the driver executes) -/
theorem wellLocked_snapshot_sched (c0 : Cfg) (h0 : Init c0)
    (hw : ∀ j, WellLocked (c0.thr j).prog ∧ NoMutate (c0.thr j).prog) (sched : List Nat)
    (i : Nat) (hro : ReadOnly ((runSched c0 sched).1.thr i).prog) (hd : ((runSched c0 sched).1.thr i).todo = []) :
    ∃ p ∈ (runSched c0 sched).1.hist, Consistent ((runSched c0 sched).1.thr i) p :=
  wellLocked_snapshot c0 _ h0 hw (reach_runSched c0 c0 Reach.refl sched) i hro hd

/-- "the MDIB at MdibVersion v" is well defined: when additionally every critical section that changes content also
    increments `mdib_version` (`Committing`), no version is ever published with two different contents -/
theorem history_functional (c0 c : Cfg) (h0 : Init c0)
    (hw : ∀ j, WellLocked (c0.thr j).prog ∧ NoMutate (c0.thr j).prog ∧ Committing (c0.thr j).prog) (hr : Reach c0 c) :
    ∀ p ∈ c.hist, ∀ q ∈ c.hist, p.1 = q.1 → p = q := by
  have hf0 : Func c0 := by
    intro p hp q hq _
    rw [h0.2.1] at hp hq
    simp only [List.mem_singleton] at hp hq
    rw [hp, hq]
  exact (func_reach (good_init h0 (fun j => ⟨(hw j).1, (hw j).2.1⟩)) hf0 (fun j => (hw j).2.2) hr).1

/-- Full statement: the completed request has observed exactly the content that the MDIB had at the MdibVersion it
    observed — `p` is the only triple ever published with that version -/
theorem snapshot_at_version (c0 c : Cfg) (h0 : Init c0)
    (hw : ∀ j, WellLocked (c0.thr j).prog ∧ NoMutate (c0.thr j).prog ∧ Committing (c0.thr j).prog) (hr : Reach c0 c)
    (i : Nat) (hro : ReadOnly (c.thr i).prog) (hd : (c.thr i).todo = []) :
    ∃ p ∈ c.hist, Consistent (c.thr i) p ∧ ∀ q ∈ c.hist, q.1 = p.1 → q = p := by
  obtain ⟨p, hp, hc⟩ := wellLocked_snapshot c0 c h0 (fun j => ⟨(hw j).1, (hw j).2.1⟩) hr i hro hd
  exact ⟨p, hp, hc, fun q hq hv => history_functional c0 c h0 hw hr q hq p hp hv⟩

/-- every generated program keeps the lock discipline; moving a shared read or write out of the critical section
    (or into a second one) in the code makes this fail to build -/
theorem progs_wellLocked :
    (∀ p ∈ Generated.readerProgs, WellLocked p ∧ ReadOnly p ∧ NoMutate p ∧ Committing p) ∧
    (∀ p ∈ Generated.writerProgs, WellLocked p ∧ NoMutate p ∧ Committing p) := by
  decide

/-- no handler enters a critical section with an acquire that can give up (timeout / non-blocking): the translator lists
    every handler for which it saw such an acquire, and adds the path "the acquire gave up" to `readerProgs` -/
theorem handlers_block_on_lock : Generated.timedAcquireProgs = [] := by decide

/-- the four handlers by name (each request shape that was traced) -/
theorem handlers_wellLocked :
    WellLocked Generated.prog_getMdib ∧
    WellLocked Generated.prog_getMdDescription_all ∧ WellLocked Generated.prog_getMdDescription_handles ∧
    WellLocked Generated.prog_getMdState_all ∧ WellLocked Generated.prog_getMdState_handles ∧
    WellLocked Generated.prog_getContextStates_all ∧ WellLocked Generated.prog_getContextStates_handles := by
  decide

/-- instance for the code as traced: any mix of the generated request and transaction programs, any number of
    threads, any schedule — every completed request holds the snapshot of the MdibVersion it states -/
theorem generated_snapshot (c0 c : Cfg) (h0 : Init c0)
    (hp : ∀ j, (c0.thr j).prog ∈ Generated.readerProgs ++ Generated.writerProgs ++ [[]])
    (hr : Reach c0 c) (i : Nat) (hi : (c.thr i).prog ∈ Generated.readerProgs) (hd : (c.thr i).todo = []) :
    ∃ p ∈ c.hist, Consistent (c.thr i) p ∧ ∀ q ∈ c.hist, q.1 = p.1 → q = p := by
  refine snapshot_at_version c0 c h0 (fun j => ?_) hr i (progs_wellLocked.1 _ hi).2.1 hd
  have h := hp j
  simp only [List.mem_append, List.mem_singleton] at h
  rcases h with (h | h) | h
  · exact ⟨(progs_wellLocked.1 _ h).1, (progs_wellLocked.1 _ h).2.2.1, (progs_wellLocked.1 _ h).2.2.2⟩
  · exact progs_wellLocked.2 _ h
  · rw [h]; exact ⟨by decide, by decide, by decide⟩

/-! ### the discipline is necessary: negative witnesses (executed by the kernel) -/

/-- the shape of the pinned tree (`_on_get_md_state`: version group read after the lock was released) -/
def prog_versionAfterRelease : List Act := [.acq 0, .rdC, .rel 0, .rdV, .deref]
def prog_commit : List Act := [.acq 1, .acq 0, .rdV, .rdC, .incV, .wrC 1, .rel 0, .rel 1]
/-- a transaction that changes the published state object in place (what a shallow `mk_copy` leads to) -/
def prog_commitInPlace : List Act := [.acq 1, .acq 0, .rdV, .rdC, .incV, .mutate 1, .rel 0, .rel 1]

/-- version read outside the critical section: the schedule "request up to the release, whole transaction, rest of
    the request" ends with MdibVersion 1 and the content of version 0, which was never published together -/
theorem version_after_release_tears :
    ¬ WellLocked prog_versionAfterRelease ∧
    let c := (runSched (mkCfg [prog_versionAfterRelease, prog_commit] 0 0 0) [0, 0, 0, 1, 1, 1, 1, 1, 1, 1, 1, 0, 0]).1
    (c.thr 0).todo = [] ∧ (c.thr 0).obsV = [1] ∧ (c.thr 0).obsC = [0] ∧
    c.hist = [(0, 0, 0), (0, 0, 0), (1, 0, 1)] ∧ ¬ ∃ p ∈ c.hist, Consistent (c.thr 0) p := by
  refine ⟨by decide, ?_⟩
  refine ⟨by decide, by decide, by decide, by decide, ?_⟩
  simp only [Consistent]
  decide

/-- in-place mutation of a published state object: a WellLocked request that serialises after the release reports
    MdibVersion 0 with the content of version 1 -/
theorem mutation_tears :
    WellLocked Generated.prog_getMdState_all ∧ ¬ NoMutate prog_commitInPlace ∧
    let c := (runSched (mkCfg [Generated.prog_getMdState_all, prog_commitInPlace] 0 0 0)
                [0, 0, 0, 0, 1, 1, 1, 1, 1, 1, 1, 1, 0]).1
    (c.thr 0).todo = [] ∧ (c.thr 0).obsV = [0] ∧ (c.thr 0).obsC = [1] ∧
    ¬ ∃ p ∈ c.hist, Consistent (c.thr 0) p := by
  refine ⟨by decide, by decide, ?_⟩
  refine ⟨by decide, by decide, by decide, ?_⟩
  simp only [Consistent]
  decide

/-- a transaction that changes a state without incrementing `mdib_version` makes one version stand for two contents -/
def prog_silentWrite : List Act := [.acq 1, .acq 0, .wrC 9, .rel 0, .rel 1]

theorem silent_write_breaks_versions :
    WellLocked prog_silentWrite ∧ ¬ Committing prog_silentWrite ∧
    (runSched (mkCfg [prog_silentWrite] 0 0 0) [0, 0, 0, 0, 0]).1.hist = [(0, 0, 0), (0, 0, 9)] := by
  decide

/-! ### non-vacuity: an initial configuration with generated programs and a run in which both threads finish -/

example : Init (mkCfg [Generated.prog_getMdState_handles, Generated.prog_metricTx] 5 2 7) := by
  refine ⟨fun _ => rfl, rfl, by decide, fun j => ⟨rfl, rfl, rfl, rfl, rfl⟩⟩

example :
    let c := (runSched (mkCfg [Generated.prog_getMdState_handles, Generated.prog_metricTx] 5 2 7)
      [0, 0, 1, 1, 0, 0, 1, 1, 1, 1, 1, 1, 1, 1, 1, 0]).1
    (c.thr 0).todo = [] ∧ (c.thr 1).todo = [] ∧ (c.thr 0).obsV = [5] ∧ (c.thr 0).obsC = [7] ∧
    c.hist = [(5, 2, 7), (5, 2, 7), (6, 2, 1)] := by
  decide

end Sdc.C07
