import SdcModel.Fp64
import SdcModel.Scalars
import SdcModel.Proofs.Fp64
import SdcModel.Proofs.ScalarsTs
import SdcModel.Proofs.ScalarsStr
import SdcModel.Proofs.ScalarsDecVal
import SdcModel.Proofs.ScalarsDecLex
import SdcModel.Proofs.ScalarsDur
import SdcModel.Proofs.ScalarsDurFp
import SdcModel.Proofs.ScalarsDurLex
import SdcModel.Proofs.ScalarsEnum
import SdcModel.ScalarsDt
import SdcModel.Proofs.ScalarsDt
import SdcModel.Proofs.ScalarsDtLex
import SdcModel.Generated.ScalarsEnums
/-!
# C18 — scalar XML value conversions are exact over the wire value space
Property theorems only. Models: `SdcModel/Fp64.lean` (binary64 on integers), `SdcModel/Scalars.lean` (converters);
helper lemmas in `SdcModel/Proofs/Fp64.lean`, `Proofs/Scalars*.lean`; enum tables regenerated on every run.
Strings are lists of code points; `Fp.abs x : ℚ` is the exact value of a float, `Dec.value d : ℚ` of a Decimal.
-/
namespace Sdc.C18
open Sdc.Fp64 Sdc.Scalars

/-! ### timestamps -/

/-- XML → Python → XML: every millisecond count `n < 2^53 / 1000` survives `round((n / 1000) * 1000)` on the
    bit-exact binary64 model (all `n`, no sampling) -/
theorem ts_xml_py_xml (n : Nat) (h : n * 1000 < 2 ^ 53) : tsXml (tsPy (n : Int)) = (n : Int) :=
  tsXml_tsPy n h

example : (9007199254740 : Nat) * 1000 < 2 ^ 53 := by decide
example : tsXml (tsPy 1001) = 1001 := by decide

/-- the same at the level of the wire strings: `to_xml(to_py(str(n))) == str(n)` -/
theorem ts_xml_py_xml_str (n : Nat) (h : n * 1000 < 2 ^ 53) :
    (tsToPy (natStr n)).map tsToXml = .ok (natStr n) := by
  have h1 : intToPy (natStr n) = .ok (n : Int) := by
    have := intToPy_intToXml (n : Int)
    unfold intToXml intStr at this
    have hn : ¬ ((n : Int) < 0) := by omega
    simpa [hn] using this
  unfold tsToPy
  rw [h1]
  show Except.ok (tsToXml (tsPy (n : Int))) = _
  unfold tsToXml
  rw [tsXml_tsPy n h]
  unfold intStr
  simp

/-- any accepted lexical form (sign, leading zeros, surrounding xml white space) of a millisecond count in range is
    written back as the canonical decimal numeral of the same count -/
theorem ts_xml_py_xml_lexical (s : Str) (n : Nat) (h : intToPy s = .ok (n : Int)) (hn : n * 1000 < 2 ^ 53) :
    (tsToPy s).map tsToXml = .ok (natStr n) := by
  unfold tsToPy
  rw [h]
  show Except.ok (tsToXml (tsPy (n : Int))) = _
  unfold tsToXml
  rw [tsXml_tsPy n hn]
  unfold intStr
  simp

example : intToPy [32, 43, 48, 48, 49, 48, 48, 49, 10] = .ok ((1001 : Nat) : Int) := by decide

/-- the repair matters: with truncation (`int(x * 1000)`, the code before fix 02af939) 1001 ms came back as 1000 ms -/
theorem ts_truncation_refuted : floorNat (rnMul (tsPy 1001) 1000) = 1000 := by decide

/-- Python → XML → Python: a float timestamp `0 ≤ x ≤ 2^41` s (year ≈ 71 000) comes back changed by less than 1 ms -/
theorem ts_py_xml_py (x : Fp) (hpos : x.neg = false) (hx : x.abs ≤ 2 ^ 41) :
    ∃ k : Nat, tsXml x = (k : Int) ∧ |(tsPy (k : Int)).abs - x.abs| < 1 / 1000 :=
  tsPy_tsXml_close x hpos hx

example : (⟨false, 2 ^ 52 + 12345, -22⟩ : Fp).abs ≤ 2 ^ 41 := by
  unfold Fp.abs; norm_num

/-! ### decimals -/

/-- Python → XML → Python: every `Decimal` with at most 18 digits and exponent ≥ -18 (in particular [-18, 18];
    negative and zero coefficients included) keeps its numeric value and its sign, and the XML text consists of
    digits, `-` and `.` only (no exponent notation) -/
theorem dec_value_preserved (d : Dec) (hc : d.coeff < 10 ^ 18) (he : -18 ≤ d.exp) :
    ∃ d', decToPy (decToXml d) = .ok d' ∧ d'.value = d.value ∧ d'.neg = d.neg ∧ Plain (decToXml d) :=
  decToPy_decToXml d hc he

example : decToXml ⟨true, 123456789012345678, -18⟩ = [45, 48, 46, 49, 50, 51, 52, 53, 54, 55, 56, 57, 48, 49, 50, 51, 52, 53, 54, 55, 56] := by
  decide
example : decToXml ⟨false, 1, -7⟩ = [48, 46, 48, 48, 48, 48, 48, 48, 49] := by decide

/-- what `to_xml` writes for such a Decimal is inside the lexical space of xsd:decimal -/
theorem dec_xml_is_lexical (d : Dec) (hc : d.coeff < 10 ^ 18) (he : -18 ≤ d.exp) :
    DecimalLex (xmlStrip (decToXml d)) := by
  obtain ⟨d', h, _⟩ := decToPy_decToXml d hc he
  exact (decToPy_ok_iff _).mp ⟨d', h⟩

/-- XML → Python → XML → Python: an accepted xsd:decimal text with at most 18 digits is parsed to a Decimal in
    the range of `dec_value_preserved`, so writing it and reading it again gives the same value -/
theorem dec_xml_py_xml (s : Str) (d : Dec) (h : decToPy s = .ok d) (h18 : (s.filter isDigit).length ≤ 18) :
    ∃ d', decToPy (decToXml d) = .ok d' ∧ d'.value = d.value ∧ Plain (decToXml d) := by
  obtain ⟨hc, he, _⟩ := decToPy_bounds s d h
  have hc' : d.coeff < 10 ^ 18 := Nat.lt_of_lt_of_le hc (Nat.pow_le_pow_right (by omega) h18)
  obtain ⟨d', h1, h2, _, h4⟩ := decToPy_decToXml d hc' (by omega)
  exact ⟨d', h1, h2, h4⟩

example : decToPy [32, 45, 48, 48, 55, 46, 53, 48, 10] = .ok ⟨true, 750, -2⟩ := by decide

/-! ### durations -/

/-- `parse_duration(duration_string(·))` at the integer microsecond boundary: the text written for `total`
    microseconds (any value up to `timedelta.max`) is parsed back to exactly `total` microseconds — including the
    float steps of the parser (`float('s.f')`, `modf`, `frac * 1e6`, round-half-even of `timedelta(seconds=…)`),
    which are exact here because `duration_string` writes seconds below 60 with at most six fraction digits
    (`floatStepExact`, proved on the binary64 model). -/
theorem duration_roundtrip (total : Nat) (hmax : total / usPerDay ≤ maxDays) :
    parseDurationUs (durationStringUs total) = .ok total :=
  parseDurationUs_durationStringUs floatStepExact total hmax

/-- the float handed back by `parse_duration` is `total / 10^6` correctly rounded (`timedelta.total_seconds()`) -/
theorem duration_roundtrip_float (total : Nat) (hmax : total / usPerDay ≤ maxDays) :
    parseDuration (durationStringUs total) = .ok (rnRat false total usPerSec) := by
  unfold parseDuration; rw [duration_roundtrip total hmax]; rfl

/-- what `duration_string` writes for a float is the rendering of the microsecond count `timedelta` computes for it -/
theorem duration_string_of_float (x : Fp) (us : Nat) (hx : x.m ≠ 0) (h : timedeltaUs 0 0 x = .ok us) :
    durationString x = .ok (durationStringUs us) := by
  unfold durationString; rw [if_neg hx, h]; rfl

example : (86399999999999999999 : Nat) / usPerDay ≤ maxDays := by decide
example : durationStringUs 3723000001 = [80, 84, 49, 72, 50, 77, 51, 46, 48, 48, 48, 48, 48, 49, 83] := by decide
example : parseDurationUs [80, 84, 49, 72, 50, 77, 51, 46, 48, 48, 48, 48, 48, 49, 83] = .ok 3723000001 := by decide

/-! ### date / time (xsd:gYear, gYearMonth, date, dateTime) -/

/-- `parse_date_time(str(info)) == info` for every well-formed `XsdDateInformation` (month 1..12, day 1..31 only with a
    month, time only with a day, hour ≤ 23, minute ≤ 59, seconds `SS[.f…]` below 60 as canonical decimal text, end-of-day
    only without time, utc offset within ±14:00): the text is recognised with the same priorities as the backtracking
    pattern (a negative offset directly behind the year / month is not taken for a month / day). The seconds stay
    decimal text in the model: `float(text)` and `format(Decimal(repr(x)), 'f')` are the trusted boundary. -/
theorem datetime_roundtrip (i : DateInfo) (hw : i.WF) : parseDateTime (dateTimeStr i) = .ok i :=
  parseDateTime_dateTimeStr i hw

example : (⟨-44, some 3, some 15, some (23, 59, 9, [53]), false, some (-300)⟩ : DateInfo).WF := by
  refine ⟨?_, ?_, ?_, ?_, ⟨?_, ?_⟩, ?_⟩
  · intro v h; injection h with h; omega
  · intro h; cases h
  · intro v h; injection h with h; omega
  · intro h; cases h
  · intro h; cases h
  · intro hh mm ss fr h
    injection h with h
    simp only [Prod.mk.injEq] at h
    obtain ⟨h1, h2, h3, h4⟩ := h
    subst h1 h2 h3 h4
    exact ⟨by omega, by omega, by omega, by intro c hc; simp at hc; subst hc; rfl, by decide⟩
  · intro o h; injection h with h; omega
example : dateTimeStr ⟨2020, none, none, none, false, some (-300)⟩ = [50, 48, 50, 48, 45, 48, 53, 58, 48, 48] := by decide

/-! ### lexical spaces -/

/-- integers: anything outside `[+-]?[0-9]+` (after xml white space stripping) is rejected … -/
theorem lexical_reject_integer (s : Str) (h : ¬ IntegerLex (xmlStrip s)) : intToPy s = .error .value :=
  intToPy_reject s h

/-- … and exactly the lexical space is accepted, `str` / `int` being inverse -/
theorem lexical_accept_integer (s : Str) : (∃ i, intToPy s = .ok i) ↔ IntegerLex (xmlStrip s) := intToPy_ok_iff s

theorem integer_roundtrip (i : Int) : intToPy (intToXml i) = .ok i := intToPy_intToXml i

/-- timestamps use the integer recogniser -/
theorem lexical_reject_timestamp (s : Str) (h : ¬ IntegerLex (xmlStrip s)) : tsToPy s = .error .value :=
  tsToPy_reject s h

/-- decimals: anything outside `[+-]?([0-9]+(\.[0-9]*)?|\.[0-9]+)` (no exponent, no NaN/Infinity, ASCII digits) is rejected … -/
theorem lexical_reject_decimal (s : Str) (h : ¬ DecimalLex (xmlStrip s)) : decToPy s = .error .value :=
  decToPy_reject s h

theorem lexical_accept_decimal (s : Str) : (∃ d, decToPy s = .ok d) ↔ DecimalLex (xmlStrip s) := decToPy_ok_iff s

example : ¬ IntegerLex (xmlStrip [49, 95, 48, 48, 48]) := by   -- '1_000'
  intro h
  have := (intToPy_ok_iff [49, 95, 48, 48, 48]).mpr h
  obtain ⟨i, hi⟩ := this
  have : intToPy [49, 95, 48, 48, 48] = .error .value := by decide
  rw [this] at hi; cases hi

/-- decimal lists (SampleArrayValue/@Samples): items are separated by U+0020 only; one item outside the lexical space of
    xsd:decimal rejects the whole attribute - tokens glued with a no-break space, a tab or any other character are not
    split into several items … -/
theorem lexical_reject_decimal_list (s t : Str) (ht : t ∈ listTokens s) (h : ¬ DecimalLex (xmlStrip t)) :
    decListToPy s = .error .value :=
  decItems_reject (listTokens s) t ht h

/-- … and an accepted list has one item per token, each the conversion of its token, in order -/
theorem decimal_list_items (s : Str) (ds : List Dec) (h : decListToPy s = .ok ds) :
    ds.length = (listTokens s).length ∧
      ∀ i (hi : i < (listTokens s).length) (hj : i < ds.length), decToPy (listTokens s)[i] = .ok ds[i] :=
  decItems_ok (listTokens s) ds h

example : decListToPy [49, 46, 53, 160, 50, 46, 53] = .error .value := by decide   -- '1.5<NBSP>2.5'
example : decListToPy [49, 46, 53, 32, 32, 50, 46, 53, 9] = .ok [⟨false, 15, -1⟩, ⟨false, 25, -1⟩] := by decide

/-- durations: anything outside `PT(\d+H)?(\d+M)?(\d+(\.\d+)?S)?` with at least one component (ASCII digits; one
    trailing newline tolerated, as `$` of the pattern does) is rejected … -/
theorem lexical_reject_duration (s : Str) (h : ¬ DurationLex (dropNewline s)) : parseDurationUs s = .error .value :=
  parseDurationUs_reject s h

/-- … and every string of that shape is recognised with exactly its groups -/
theorem lexical_accept_duration (oh om : Option Str) (os : Option (Str × Str))
    (hh : ∀ d, oh = some d → DigitsNE d) (hm : ∀ d, om = some d → DigitsNE d)
    (hs : ∀ d f, os = some (d, f) → DigitsNE d ∧ ∀ c ∈ f, isDigit c = true)
    (hsome : oh.isSome ∨ om.isSome ∨ os.isSome) :
    durationGroups (80 :: 84 :: (renderH oh ++ (renderM om ++ renderS os))) = some (oh, om, os) :=
  durationGroups_render oh om os hh hm hs hsome

example : parseDurationUs [80, 49, 68] = .error .value := by decide   -- 'P1D'

/-- date / time: anything outside the lexical space of xsd:dateTime / date / gYearMonth / gYear (`DateTimeLex`: optional
    `-`, year of 4 digits or more without leading zero, `-MM` 01..12, `-DD` 01..31, `Thh:mm:ss(.f+)` or `T24:00:00(.0+)`,
    `Z` or `±hh:mm` up to 14:00; ASCII digits; one trailing newline tolerated) is rejected with `ValueError` -/
theorem lexical_reject_datetime (s : Str) (h : ¬ DateTimeLex (dropNewline s)) : parseDateTime s = .error .value :=
  parseDateTime_reject s h

example : parseDateTime [50, 48, 50, 48, 45, 49, 51] = .error .value := by decide   -- '2020-13'

/-- enums: a string that is not a literal of the class is rejected; an accepted one is written back unchanged -/
theorem lexical_reject_enum (lits : List Str) (s : Str) (h : s ∉ lits) : enumToPy lits s = .error .value :=
  enumToPy_reject lits s h

theorem enum_roundtrip (lits : List Str) (s : Str) (i : Nat) (h : enumToPy lits s = .ok i) : enumToXml lits i = s :=
  enumToXml_enumToPy lits s i h

/-- … and for the enum classes of `pm_types` / `msg_types` (generated table) every member survives
    Python → XML → Python, because the literals of each class are pairwise distinct -/
theorem generated_enums_roundtrip :
    ∀ t ∈ Generated.enumTables, ∀ i, i < t.2.length → enumToPy t.2 (enumToXml t.2 i) = .ok i := by
  have hnd : ∀ t ∈ Generated.enumTables, t.2.Nodup := by decide
  intro t ht i hi
  exact enumToPy_enumToXml t.2 (hnd t ht) i hi

/-- booleans, exact on the lexical space `{true, false, 1, 0}` … -/
theorem boolean_exact_partial (t : Str) (h : BooleanLex t) : boolToPy t = .ok (decide (t = litTrue ∨ t = [49])) :=
  boolToPy_lex t h

theorem boolean_roundtrip (b : Bool) : boolToPy (boolToXml b) = .ok b ∧ BooleanLex (boolToXml b) :=
  ⟨boolToPy_boolToXml b, boolToXml_lex b⟩

/-- the full statement for booleans … -/
def lexical_reject_boolean_full : Prop := ∀ s : Str, ¬ BooleanLex s → boolToPy s = .error .value

/-- … is false for the code as it is: `BooleanConverter.to_py('TRUE')` is `False`, not an error (known finding
    `lexical:boolean-coerced`; the test-suite asserts this leniency) -/
theorem lexical_reject_boolean_refuted : ¬ lexical_reject_boolean_full := by
  intro h
  have h1 : ¬ BooleanLex [84, 82, 85, 69] := by
    intro hb; rcases hb with hb | hb | hb | hb <;> simp [litTrue, litFalse] at hb
  have := h [84, 82, 85, 69] h1
  have h2 : boolToPy [84, 82, 85, 69] = .ok false := rfl
  rw [h2] at this; cases this

end Sdc.C18
