import SdcModel.Fp64
import SdcModel.Scalars
namespace Sdc.C18
end Sdc.C18
