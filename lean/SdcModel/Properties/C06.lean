import SdcModel.Consumer
import SdcModel.Proofs.Consumer
import SdcModel.Generated.ConsumerLocks
/-!
# C06 — the consumer MDIB never regresses under lost, duplicated or reordered reports

Property theorems only.  Model: `SdcModel/Consumer.lean` (transcription of `mdib/consumermdib.py`, repaired tree);
helper lemmas: `SdcModel/Proofs/Consumer.lean`.  Every theorem quantifies over *arbitrary* reports / event lists:
nothing is assumed about where the reports come from, so every subset, duplication, reordering or replay of a
provider's notifications is covered.
-/
namespace Sdc.C06
open Sdc.Mdib Sdc.Consumer

/-! ### concrete data for the non-vacuity examples -/

def vg (v : Nat) : VersionGroup := ⟨v, 1, some 1⟩
def snap0 : Snapshot :=
  ⟨vg 3, [⟨1, none, .component, 0, 10, none⟩, ⟨2, some 1, .metric, 0, 11, none⟩, ⟨3, some 1, .context, 0, 12, none⟩],
   [⟨1, 0, 0, .component, 20⟩, ⟨2, 0, 4, .metric, 21⟩], [⟨7, 3, 0, 1, 30, .assoc, some 2, none, none, none⟩]⟩
def metric5 : Report := { kind := .metric, vg := vg 5, states := [⟨2, 0, 6, .metric, 22⟩] }
def metric4 : Report := { kind := .metric, vg := vg 4, states := [⟨2, 0, 5, .metric, 23⟩] }
def descr6 : Report :=
  { kind := .description, vg := vg 6,
    parts := [⟨.create, ⟨4, some 1, .metric, 0, 13, none⟩, [⟨4, 0, 0, .metric, 24⟩], []⟩,
              ⟨.update, ⟨2, some 1, .metric, 1, 14, none⟩, [⟨2, 1, 7, .metric, 25⟩], []⟩] }
def otherSeq : Report := { kind := .metric, vg := ⟨1, 2, some 1⟩, states := [⟨2, 0, 0, .metric, 26⟩] }
/-- a loaded consumer: `reload_all` answered with `snap0`, nothing arrived meanwhile -/
def loaded : St := run St.init [.reloadBegin, .reloadEnd snap0 []]

/-! ### MdibVersion -/

/-- whatever reports arrive, in whatever order and multiplicity, the MdibVersion never decreases -/
theorem mdib_version_monotone (s : St) (rs : List Report) :
    s.core.vg.ver ≤ (run s (rs.map .report)).core.vg.ver :=
  run_reports_ver_le rs s

example : (run loaded ([metric5, metric4, metric5].map .report)).core.vg.ver = 5 := by decide

/-- after a reload the MdibVersion is at least the version of the GetMdib answer -/
theorem mdib_version_after_reload (s : St) (snap : Snapshot) (ctx2 : List CState) (hm : s.mode = .initializing)
    (hw : snap.wf ctx2 = true) : snap.vg.ver ≤ (step s (.reloadEnd snap ctx2)).1.core.vg.ver := by
  rw [step_reloadEnd snap ctx2 hm hw, replay_eq_applyAll]
  exact applyAll_ver_le _ (loadSnapshot snap ctx2)

/-! ### StateVersion -/

/-- along every list of reports that announce no deletion, every state and context state the consumer holds stays
    in the MDIB and its StateVersion never decreases (any order, any multiplicity, any gaps) -/
theorem state_versions_monotone (s : St) (rs : List Report) (h : ∀ r ∈ rs, nonRemoving r = true) :
    Keeps (·.dh) (·.sv) s.core.tabs.states (run s (rs.map .report)).core.tabs.states ∧
    Keeps (·.h) (·.sv) s.core.tabs.cstates (run s (rs.map .report)).core.tabs.cstates :=
  run_reports_keeps h

example : ∀ r ∈ [metric5, descr6, metric4, metric5], nonRemoving r = true := by decide
example : (lookupBy (·.dh) (run loaded ([metric5, descr6, metric4, metric5].map .report)).core.tabs.states 2).map (·.sv)
    = some 7 := by decide

/-- every single write to a table obeys the StateVersion gate, also inside description modification reports: an
    existing entry is replaced only by a strictly newer one -/
theorem state_write_gated {α : Type} (key sv : α → Nat) (am : Bool) (l : List α) (x old : α)
    (h : lookupBy key l (key x) = some old) :
    (sv old < sv x ∧ lookupBy key (gatedPut key sv am l x).1 (key x) = some x) ∨
    (sv x ≤ sv old ∧ gatedPut key sv am l x = (l, false)) := by
  by_cases hlt : sv old < sv x
  · left
    refine ⟨hlt, ?_⟩
    unfold gatedPut
    simp only [h, (hasNewUsableVersion_iff _ _).2 hlt, if_true]
    rw [lookupBy_replaceBy]
    simp [h]
  · right
    exact ⟨by omega, gatedPut_of_covered key sv ⟨old, h, by omega⟩⟩

/-- **every report, deleting ones included**: if the reports that reach the consumer are drawn (any subset, order,
    multiplicity) from a coherent pool of published reports, no StateVersion ever decreases -/
theorem state_versions_monotone_published {pool : List Source} (hc : Coherent pool) (s : St) (r : Report)
    (hr : Source.ofReport r ∈ pool) (w : s.core.tabs.Wf) (hj : Justified pool s.core) :
    Mono (·.dh) (·.sv) s.core.tabs.states (step s (.report r)).1.core.tabs.states ∧
    Mono (·.h) (·.sv) s.core.tabs.cstates (step s (.report r)).1.core.tabs.cstates ∧
    Justified pool (step s (.report r)).1.core := by
  have refl : Mono (·.dh) (·.sv) s.core.tabs.states s.core.tabs.states ∧
      Mono (·.h) (·.sv) s.core.tabs.cstates s.core.tabs.cstates ∧ Justified pool s.core :=
    ⟨fun k a b ha hb => by rw [ha] at hb; cases hb; exact Nat.le_refl _,
     fun k a b ha hb => by rw [ha] at hb; cases hb; exact Nat.le_refl _, hj⟩
  rcases step_report_cases s r with ⟨_, h⟩ | ⟨_, h⟩ | ⟨_, _, h⟩ | ⟨_, hid, h⟩ <;> rw [h]
  · exact refl
  · exact refl
  · exact refl
  · have hseq : r.vg.seq = s.core.vg.seq := by
      unfold idsDiffer at hid; simp at hid; exact hid.1
    exact applyReport_coherent hc hr hseq w hj

/-- the invariant `Justified` holds after every load: the states come from the GetMdib answer, the replayed reports
    keep it -/
theorem justified_after_reload {pool : List Source} (s : St) (snap : Snapshot) (hs : Source.ofSnapshot snap ∈ pool)
    (hb : ∀ r ∈ s.buf, Source.ofReport r ∈ pool) (hcoh : Coherent pool) (hm : s.mode = .initializing)
    (hw : snap.wf [] = true) (hc : snap.cstates ≠ []) :
    Justified pool (step s (.reloadEnd snap [])).1.core := by
  rw [step_reloadEnd snap [] hm hw, replay_eq_applyAll]
  have hload : (loadSnapshot snap []).tabs.cstates = snap.cstates := by
    unfold loadSnapshot
    cases hcs : snap.cstates with
    | nil => exact absurd hcs hc
    | cons x xs => simp
  have hj0 : Justified pool (loadSnapshot snap []) :=
    ⟨fun x hx => ⟨_, hs, rfl, Nat.le_refl _, hx⟩, fun x hx => ⟨_, hs, rfl, Nat.le_refl _, by rw [hload] at hx; exact hx⟩⟩
  refine applyAll_justified hcoh snap.vg.seq _ _ hj0 (loadSnapshot_wf hw) rfl ?_
  intro r hr
  rw [List.mem_filter] at hr
  refine ⟨hb r hr.1, ?_⟩
  have := hr.2; unfold replayable at this; simp at this; exact this.1

/-- the hypotheses are satisfiable: a pool made of a Get answer and reports with growing versions is coherent, the
    loaded consumer is justified by it -/
def pool0 : List Source := [Source.ofSnapshot snap0, Source.ofReport metric4, Source.ofReport metric5, Source.ofReport descr6]
example : Coherent pool0 := by decide
example : Justified pool0 loaded.core := by decide

/-! ### stale and duplicated reports -/

/-- a report older than the MdibVersion of the consumer changes nothing (and names nothing) -/
theorem stale_noop (s : St) (r : Report) (hm : s.mode = .initialized) (hid : idsDiffer s.core r = false)
    (h : r.vg.ver < s.core.vg.ver) : step s (.report r) = (s, [{ kind := r.kind }]) := by
  rw [step_report_ok r hm hid, applyReport_stale h]

example : step (run loaded [.report metric5]) (.report metric4) = (run loaded [.report metric5], [{ kind := .metric }]) := by
  decide

/-- a state / context report whose states the consumer already holds in the same or a newer version leaves the
    tables as they are -/
theorem covered_noop (c : Core) (r : Report) (hk : r.kind ≠ .description) (h : StatesCovered c r) :
    (applyReport c r).1.tabs = c.tabs ∧ (applyReport c r).2 = { kind := r.kind } :=
  applyReport_of_covered hk h

/-- an exact duplicate of a state / context report that was applied changes nothing, no matter how many other
    (non-deleting) reports were processed in between -/
theorem dup_noop (s : St) (r : Report) (rs : List Report) (hk : r.kind ≠ .description)
    (hm : s.mode = .initialized) (hid : idsDiffer s.core r = false) (hv : s.core.vg.ver ≤ r.vg.ver)
    (hrs : ∀ q ∈ rs, nonRemoving q = true) :
    (step (run (step s (.report r)).1 (rs.map .report)) (.report r)).1.core.tabs =
      (run (step s (.report r)).1 (rs.map .report)).core.tabs := by
  have h1 : StatesCovered (step s (.report r)).1.core r := by
    rw [step_report_ok r hm hid]; exact applyReport_covers hk hv
  have hk2 := run_reports_keeps (s := (step s (.report r)).1) hrs
  have h2 : StatesCovered (run (step s (.report r)).1 (rs.map .report)).core r := h1.keeps hk2.1 hk2.2
  generalize run (step s (.report r)).1 (rs.map .report) = s2 at h2 ⊢
  rcases step_report_cases s2 r with ⟨_, h⟩ | ⟨_, h⟩ | ⟨_, _, h⟩ | ⟨_, _, h⟩ <;> rw [h]
  exact (applyReport_of_covered hk h2).1

example : (step (run loaded ([metric5, descr6].map .report)) (.report metric5)).1.core.tabs
    = (run loaded ([metric5, descr6].map .report)).core.tabs := by decide

/-- a description modification report whose parts are already reflected by the tables (`Settled`: created /
    updated descriptors present with that content, their states present in the same or a newer version, deleted
    descriptors absent) changes nothing -/
theorem dup_description_noop (c : Core) (r : Report) (hk : r.kind = .description) (w : c.tabs.Wf)
    (hv : r.vg = c.vg) (h : Settled c.tabs r) : (applyReport c r).1 = c := by
  unfold applyReport
  have : canAccept c r = true := by rw [canAccept_iff, hv]; exact Nat.le_refl _
  rw [this]
  simp only [if_true, hk]
  rw [applyParts_of_settled w h, hv]

/-- `Settled` holds after the report was applied (concrete instance; the real consumer is checked on every
    duplicated delivery by the harness) -/
example : (applyReport (run loaded ([descr6].map .report)).core descr6).1 = (run loaded ([descr6].map .report)).core := by
  decide

/-! ### the lookups stay consistent -/

/-- unique keys (descriptor handle, state descriptor handle, context state handle) are preserved by every event -/
theorem tables_consistent (s : St) (evs : List Event) (w : s.core.tabs.Wf) : (run s evs).core.tabs.Wf :=
  run_wf evs w

theorem tables_consistent_from_start (evs : List Event) : (run St.init evs).core.tabs.Wf :=
  run_wf evs ⟨List.nodup_nil, List.nodup_nil, List.nodup_nil⟩

/-! ### only published states -/

/-- every single state the consumer holds after any history of events is, field by field, one of the states that
    a delivered report or a loaded GetMdib answer contained -/
theorem published_only (evs : List Event) (x : SState) (h : x ∈ (run St.init evs).core.tabs.states) :
    ∃ e ∈ evs, x ∈ eventStates e := by
  have := run_statesFrom (P := fun x => ∃ e ∈ evs, x ∈ eventStates e) evs (s := St.init)
    (And.intro (fun x hx => nomatch hx) (fun r hr => nomatch hr)) (fun e he x hx => ⟨e, he, hx⟩)
  exact this.1 x h

/-- the same for context states (GetContextStates answer included) -/
theorem published_only_context (evs : List Event) (x : CState) (h : x ∈ (run St.init evs).core.tabs.cstates) :
    ∃ e ∈ evs, x ∈ eventCStates e := by
  have := run_cstatesFrom (P := fun x => ∃ e ∈ evs, x ∈ eventCStates e) evs (s := St.init)
    (And.intro (fun x hx => nomatch hx) (fun r hr => nomatch hr)) (fun e he x hx => ⟨e, he, hx⟩)
  exact this.1 x h

example : (⟨2, 1, 7, .metric, 25⟩ : SState) ∈ (run loaded ([metric5, descr6].map .report)).core.tabs.states := by decide

/-! ### SequenceId / InstanceId change -/

/-- a report with another SequenceId or InstanceId invalidates the consumer, raises the event and changes nothing;
    from then on every report is ignored until the application reloads -/
theorem seq_change_stops (s : St) (r : Report) (rs : List Report) (hm : s.mode = .initialized)
    (hd : idsDiffer s.core r = true) :
    step s (.report r) = ({ s with mode := .invalid }, [{ kind := r.kind, idChanged := true }]) ∧
    run (step s (.report r)).1 (rs.map .report) = { s with mode := .invalid } := by
  refine ⟨step_report_changed r hm hd, ?_⟩
  rw [step_report_changed r hm hd]
  exact run_reports_invalid rfl

example : (run loaded ([otherSeq, metric5, descr6].map .report)) = { loaded with mode := .invalid } := by decide

/-- in state `invalid` (also: before the first load) nothing is ever applied -/
theorem invalid_ignores (s : St) (rs : List Report) (hm : s.mode = .invalid) : run s (rs.map .report) = s :=
  run_reports_invalid hm

/-! ### reload and buffering -/

/-- while GetMdib is in flight every arriving report is appended to the buffer, exactly once, and nothing else changes -/
theorem buffering_exact (s : St) (rs : List Report) (hm : s.mode = .initializing) :
    run s (rs.map .report) = { s with buf := s.buf ++ rs } :=
  run_reports_initializing hm

/-! ### the atomicity assumptions of the model, from the traced programs (regenerated on every run) -/

/-- `reloadEnd` is atomic in the model because, in the traced `reload_all`, the switch to `initialized` happens inside
    the buffer-lock section (state switch inside the buffer-lock section: a notification thread can never see
    `initializing` together with an already replayed buffer) -/
theorem reload_switches_inside_buffer_lock :
    switchInsideLock false Generated.reloadAllTrace = true ∧
    Generated.reloadAllTrace.contains (.writeState .initialized) = true := by decide

/-- `finishBuffered` is the right second half: the traced `_pre_check_report_ok` reads the state again inside its
    buffer-lock section before it appends -/
theorem precheck_rechecks_inside_buffer_lock :
    recheckBeforeAppend false false Generated.preCheckTrace = true ∧
    Generated.preCheckTrace.contains .append = true := by decide

/-- the model gives every consumer MDIB its own state `St` (tables, version group, mode, buffer).  That is justified for
    the implementation because no mutable container is an attribute of the `ConsumerMdib` class or of a base class
    (regenerated by introspection on every run): two consumer MDIBs in one process cannot share a buffer -/
theorem consumer_state_is_per_instance : Generated.consumerClassLevelMutableAttrs = [] := by decide

/-- the pre-check of a notification is not atomic (state read, then buffer lock, then state read again).  For a
    notification thread that saw `initializing`: if it gets the buffer lock before `reload_all` replays, the report is
    buffered exactly as in the atomic step … -/
theorem buffer_race_early (s : St) (r : Report) (hm : s.mode = .initializing) :
    finishBuffered s r = step s (.report r) := by
  unfold finishBuffered; rw [step_report_initializing r hm]; simp [hm]

/-- … and if `reload_all` finishes first (every interleaving: `reloadEnd` is atomic with respect to the buffer lock),
    the state switch happens inside the buffer-lock section, `reload_switches_inside_buffer_lock`),
    the re-check under the lock sends the report through its handler: it is not appended to the (already replayed)
    buffer, the buffer stays empty, nothing is lost and nothing is applied twice -/
theorem buffer_race_late (s : St) (r : Report) (snap : Snapshot) (ctx2 : List CState) (hm : s.mode = .initializing)
    (hw : snap.wf ctx2 = true) :
    (finishBuffered (step s (.reloadEnd snap ctx2)).1 r).1 =
      { (step s (.reloadEnd snap ctx2)).1 with core := (applyReport (step s (.reloadEnd snap ctx2)).1.core r).1 } ∧
    (finishBuffered (step s (.reloadEnd snap ctx2)).1 r).1.buf = [] := by
  rw [step_reloadEnd snap ctx2 hm hw]
  exact ⟨rfl, rfl⟩

/-- with the ids of the loaded MDIB the late report is processed exactly like a report that arrives after the load -/
theorem buffer_race_late_eq_report (s : St) (r : Report) (hm : s.mode = .initialized) (hid : idsDiffer s.core r = false) :
    finishBuffered s r = step s (.report r) := by
  unfold finishBuffered; rw [step_report_ok r hm hid]; simp [hm]

example : (finishBuffered (run St.init [.reloadBegin, .reloadEnd snap0 []]) metric5).1.core.vg.ver = 5 ∧
    (finishBuffered (run St.init [.reloadBegin, .reloadEnd snap0 []]) metric5).1.buf = [] := by decide

/-- when the answers arrive, the consumer holds the answer plus exactly the buffered reports that have its
    SequenceId and are newer than it, each applied once, in arrival order; the buffer is empty, the state `initialized` -/
theorem reload_restores (s : St) (snap : Snapshot) (ctx2 : List CState) (hm : s.mode = .initializing)
    (hw : snap.wf ctx2 = true) :
    (step s (.reloadEnd snap ctx2)).1 =
      ⟨.initialized, (applyAll (loadSnapshot snap ctx2) (s.buf.filter (replayable snap.vg.ver snap.vg.seq))).1, []⟩ := by
  rw [step_reloadEnd snap ctx2 hm hw, replay_eq_applyAll]
  rfl

/-- complete reload: begin, `rs` arrive while GetMdib is in flight, answers arrive -/
theorem reload_sequence (s : St) (rs : List Report) (snap : Snapshot) (ctx2 : List CState) (hb : s.buf = [])
    (hw : snap.wf ctx2 = true) :
    run s (.reloadBegin :: rs.map .report ++ [.reloadEnd snap ctx2]) =
      ⟨.initialized, (applyAll (loadSnapshot snap ctx2) (rs.filter (replayable snap.vg.ver snap.vg.seq))).1, []⟩ := by
  rw [List.cons_append, run_cons, run_append]
  have h1 : (step s .reloadBegin).1 = ⟨.initializing, ⟨⟨0, 0, none⟩, {}⟩, s.buf⟩ := rfl
  rw [h1, run_reports_initializing rfl, run_cons, run_nil, reload_restores _ _ _ rfl hw, hb]
  rfl

example : (run loaded (.reloadBegin :: [metric4, otherSeq, metric5, metric5].map .report ++ [.reloadEnd snap0 []])).core.vg.ver = 5 ∧
    (run loaded (.reloadBegin :: [metric4, otherSeq, metric5, metric5].map .report ++ [.reloadEnd snap0 []])).buf = [] := by
  decide

end Sdc.C06
