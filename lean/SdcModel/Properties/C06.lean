import SdcModel.Consumer
namespace Sdc.C06
open Sdc.Consumer
end Sdc.C06
