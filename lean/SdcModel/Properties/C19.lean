import SdcModel.Tls
import SdcModel.Generated.TlsSites
/-!
# C19 — with TLS configured no endpoint is advertised or contacted in plaintext
Property theorems only (decision logic; what OpenSSL does with a context is trusted). Model: `SdcModel/Tls.lean`;
observed sites / verify modes / constructor table: `Generated/TlsSites.lean` (regenerated on every run from a real
provider and consumer talking over localhost in every configuration).
-/
namespace Sdc.C19
open Sdc.Tls

/-- the model's configuration space is complete (the correspondence enumerates exactly `Cfg.all`) -/
theorem config_space_complete (cfg : Cfg) : cfg ∈ Cfg.all := by
  obtain ⟨a, b, c, d, e, f⟩ := cfg
  simp only [Cfg.all, Server.all, ConsMode.all, List.mem_flatMap, List.mem_map]
  exact ⟨a, by cases a <;> simp, b, by cases b <;> simp, c, by cases c <;> simp, d, by cases d <;> simp,
    e, by cases e <;> simp, f, by cases f <;> simp, rfl⟩

/-- provider with TLS configured: every address it writes into a message is https - whatever server it was given,
    whatever host name, whatever the consumer does -, and every connection it opens uses the TLS client context -/
theorem provider_tls_https (cfg : Cfg) (ssl : Option Bool) (h : cfg.provTls = true) :
    (∀ s : Site, s.ofProvider = true → urlScheme cfg ssl s = .https) ∧ provClientTls cfg = true := by
  refine ⟨?_, by simp [provClientTls, h]⟩
  intro s hs
  cases s <;> simp_all [urlScheme, provScheme, Site.ofProvider]

/-- ... also towards a subscriber that named an `http://` NotifyTo / EndTo address, with either subscription manager:
    the reports are sent with TLS or not at all, never in plaintext -/
theorem provider_delivery_ignores_subscriber_scheme (cfg : Cfg) (h : cfg.provTls = true) (sch : Scheme) (asyncMgr : Bool) :
    deliveryTls cfg sch asyncMgr = true := by
  simp [deliveryTls, h]

/-- its own HTTP server then speaks TLS: what is advertised is what is served -/
theorem provider_own_server_serves_tls (cfg : Cfg) (h : cfg.provTls = true) (ho : cfg.provServer = .own) :
    provServerTls cfg = true := by
  simp [provServerTls, ho, h]

/-- once `is_ssl_connection` is `True` it stays `True` and every soap client created afterwards has the TLS context,
    for ANY sequence of connect attempts (failing or not), client look-ups and stops -/
theorem tls_never_falls_back (s : CState) (evs : List CEv) (h : s.ssl = some true) :
    (crun s evs).1.ssl = some true ∧ ∀ b ∈ (crun s evs).2, b = true := by
  induction evs generalizing s with
  | nil => simp [crun, h]
  | cons e es ih =>
    have hstep : (cstep s e).1.ssl = some true ∧ ∀ b ∈ (cstep s e).2, b = true := by
      cases e with
      | getClient n =>
        simp only [cstep, getClient, h]
        split <;> simp [h]
      | stop => simp [cstep, h]
      | connect res =>
        simp only [cstep, h, getClient]
        split <;> simp [h]
    obtain ⟨h1, h2⟩ := hstep
    obtain ⟨i1, i2⟩ := ih (cstep s e).1 h1
    refine ⟨by simpa [crun] using i1, ?_⟩
    intro b hb
    simp only [crun, List.mem_append] at hb
    rcases hb with hb | hb
    · exact h2 b hb
    · exact i2 b hb

/-- consumer with TLS enforced: for every event sequence every soap client has the TLS context; it never falls back -/
theorem consumer_enforced_no_fallback (evs : List CEv) :
    (crun (CState.init .enforced) evs).1.ssl = some true ∧ ∀ b ∈ (crun (CState.init .enforced) evs).2, b = true :=
  tls_never_falls_back _ evs rfl

/-- ... and NotifyTo / EndTo are https whenever the event sink is accepted (own server, or a shared one that speaks TLS;
    a shared plaintext server is refused) -/
theorem consumer_enforced_https (cfg : Cfg) (evs : List CEv) (h : cfg.cons = .enforced)
    (hacc : eventSinkAccepted cfg (crun (CState.init cfg.cons) evs).1.ssl = true) :
    urlScheme cfg (crun (CState.init cfg.cons) evs).1.ssl .notifyTo = .https ∧
    urlScheme cfg (crun (CState.init cfg.cons) evs).1.ssl .endTo = .https ∧
    consServerTls cfg (crun (CState.init cfg.cons) evs).1.ssl = true := by
  rw [h] at hacc ⊢
  have hs := (consumer_enforced_no_fallback evs).1
  rw [hs] at hacc ⊢
  cases hc : cfg.consServer <;> simp_all [urlScheme, consServerTls, eventSinkAccepted, eventSinkAcceptedFor]

/-- the same for a consumer in optional mode that got a TLS connection: from then on as if enforced -/
theorem consumer_optional_sticky (evs evs' : List CEv)
    (h : (crun (CState.init .optional) evs).1.ssl = some true) :
    ∀ b ∈ (crun (crun (CState.init .optional) evs).1 evs').2, b = true :=
  (tls_never_falls_back _ evs' h).2

/-- the only fall-back of the code: optional mode, first connect, handshake refused (a TLS client, then a plaintext one) -/
theorem optional_may_fall_back :
    (crun (CState.init .optional) [.connect .sslError]).2 = [true, false] ∧
    (crun (CState.init .optional) [.connect .sslError]).1.ssl = some false := by decide

/-- without a container no TLS client is ever created, with `force_ssl_connect` only TLS clients: constructor table -/
theorem generated_init_matches : ∀ e ∈ Generated.C19.initSslObserved, initSsl e.1 = e.2 := by decide

/-- contexts built from a CA file require the peer certificate, on the client and on the server side -/
theorem ca_requires_cert : verifyMode false true = .certRequired ∧ verifyMode true true = .certRequired := by decide

/-- ... and that is what `mk_ssl_contexts` produced when the translator ran it (all four combinations) -/
theorem generated_verify_matches :
    Generated.C19.verifyObserved.length = 8 ∧
    (∀ e ∈ Generated.C19.verifyObserved, verifyModeWith e.1 e.2.1 e.2.2.1 = e.2.2.2) ∧
    (∀ cy, (false, true, cy, Verify.certRequired) ∈ Generated.C19.verifyObserved) ∧
    (∀ cy, (true, true, cy, Verify.certRequired) ∈ Generated.C19.verifyObserved) := by decide

/-- a CA file means CERT_REQUIRED on both sides also when a cyphers string is configured -/
theorem ca_requires_cert_with_cyphers (server cy : Bool) : verifyModeWith server true cy = .certRequired := by
  cases server <;> cases cy <;> rfl

/-- the spelling of the provider address (`http://…` / `https://…`) given to an enforcing consumer has no influence: a
    plaintext shared event-sink server is refused whenever the connection uses TLS -/
theorem event_sink_guard_ignores_address_spelling (cfg : Cfg) (sp : Scheme) (h : cfg.consServer = .sharedPlain) :
    eventSinkAcceptedFor cfg (some true) sp = false := by
  simp [eventSinkAcceptedFor, h]

/-- `mk_ssl_contexts_from_folder`: a CA file that is named (default `cacert.pem`) but missing refuses -/
theorem missing_ca_file_refused (k c : Bool) : fromFolder k c true false = .fileNotFound := by
  cases k <;> cases c <;> rfl

/-- ... so whenever a CA file is named, a returned context pair requires the peer certificate on both sides: no pair with a
    `CERT_NONE` server side is ever returned -/
theorem named_ca_never_degrades (k c p cy : Bool) (cl sv : Verify) (h : fromFolderWith k c true p cy = .contexts cl sv) :
    cl = .certRequired ∧ sv = .certRequired := by
  cases k <;> cases c <;> cases p <;> simp [fromFolderWith, fromFolder, verifyMode] at h <;> exact ⟨h.1.symm, h.2.symm⟩

/-- the decision table observed on real folders (every combination of present / missing files) is the model's -/
theorem generated_folder_matches :
    Generated.C19.folderObserved.length = 32 ∧
    ∀ e ∈ Generated.C19.folderObserved, fromFolderWith e.1 e.2.1 e.2.2.1 e.2.2.2.1 e.2.2.2.2.1 = e.2.2.2.2.2 := by decide

/-- every model site was found in the messages of the real exchange, and nothing else (an unmapped address context makes
    the translator fail) -/
theorem generated_sites_complete : ∀ s : Site, s ∈ Generated.C19.observedSites := by
  intro s; cases s <;> decide

/-- over the whole configuration space (finite: `decide` is the proof): TLS on the provider, or a TLS connection on the
    consumer with an accepted event sink, leaves no plaintext address of an own endpoint -/
theorem no_plaintext_address_anywhere :
    ∀ cfg ∈ Cfg.all, ∀ s ∈ Site.all,
      (s.ofProvider = true → cfg.provTls = true → urlScheme cfg (some true) s = .https) ∧
      (s.ofProvider = false → eventSinkAccepted cfg (some true) = true → urlScheme cfg (some true) s = .https) := by
  decide +kernel

/-! ### non-vacuity -/
example : (crun (CState.init .enforced) [.connect .ok, .getClient 1, .stop, .connect .sslError, .getClient 0]).2 = [true, true, true] := by
  decide
example : (crun (CState.init .optional) [.connect .ok, .stop, .connect .otherError]).2 = [true, true] := by decide
example : eventSinkAccepted ⟨true, .own, false, .enforced, .sharedTls, true⟩ (some true) = true := by decide

end Sdc.C19
