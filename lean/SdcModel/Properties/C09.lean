import SdcModel.Invocation
import SdcModel.Proofs.InvocationProv
import SdcModel.Proofs.InvocationLts
import SdcModel.Proofs.InvocationCons
import SdcModel.Generated.Invocation
/-!
# C09 — operation invocations follow the BICEPS invocation-state protocol end to end
Property theorems only. Model: `SdcModel/Invocation.lean`; constants, state tables and the lock trace of
`generate_transaction_id`: `Generated/Invocation.lean` (regenerated from the running code on every run).
-/
namespace Sdc.C09
open Sdc.Invocation

/-! ### transaction ids: unique and increasing, for every interleaving of any number of concurrent requests -/

/-- the traced program of `generate_transaction_id` is "lock; read; write(+1); read; unlock" -/
theorem generated_id_prog_locked : Generated.C09.idProg = Lts.lockedProg := by decide

/-- ids leave `generate_transaction_id` in strictly increasing order, and they are `c0+1, c0+2, …` without gaps -/
theorem tx_ids_strictly_increasing (c0 : Nat) (c : Lts.Cfg)
    (h : Lts.Reach Generated.C09.idProg (Lts.Cfg.init c0) c) :
    (c.issued.map (·.2)).Pairwise (· < ·) ∧ ∀ k e, c.issued[k]? = some e → e.2 = c0 + 1 + k := by
  rw [generated_id_prog_locked] at h
  have hg := Lts.good_reach c0 c h
  exact ⟨Lts.issued_increasing c0 c hg, hg.ids⟩

/-- two different requests never hold the same id -/
theorem tx_ids_unique (c0 : Nat) (c : Lts.Cfg) (h : Lts.Reach Generated.C09.idProg (Lts.Cfg.init c0) c)
    (i j a b : Nat) (hij : i ≠ j) (ha : (c.thr i).res = some a) (hb : (c.thr j).res = some b) : a ≠ b := by
  rw [generated_id_prog_locked] at h
  have hg := Lts.good_reach c0 c h
  intro hab
  subst hab
  obtain ⟨k1, hk1, e1⟩ := List.getElem_of_mem (hg.res i a ha)
  obtain ⟨k2, hk2, e2⟩ := List.getElem_of_mem (hg.res j a hb)
  have h1 := hg.ids k1 (i, a) (by rw [List.getElem?_eq_getElem hk1, e1])
  have h2 := hg.ids k2 (j, a) (by rw [List.getElem?_eq_getElem hk2, e2])
  have hk : k1 = k2 := by simp at h1 h2; omega
  subst hk
  rw [e1] at e2
  injection e2 with e2
  exact hij e2

/-- every request that left the function holds an id, and it is larger than the counter it started from -/
theorem tx_id_returned (c0 : Nat) (c : Lts.Cfg) (h : Lts.Reach Generated.C09.idProg (Lts.Cfg.init c0) c)
    (i : Nat) (hd : (c.thr i).pc = Generated.C09.idProg.length) : ∃ a, (c.thr i).res = some a ∧ c0 < a := by
  rw [generated_id_prog_locked] at h hd
  have hg := Lts.good_reach c0 c h
  have hne := hg.fin i (by simp [Lts.lockedProg] at hd; omega)
  cases hr : (c.thr i).res with
  | none => exact absurd hr hne
  | some a =>
    obtain ⟨k, hk, e⟩ := List.getElem_of_mem (hg.res i a hr)
    have := hg.ids k (i, a) (by rw [List.getElem?_eq_getElem hk, e])
    exact ⟨a, rfl, by simp at this; omega⟩

/-- real-time order: a request that already holds its id gets a smaller one than any request that receives its id later -/
theorem tx_ids_respect_real_time (c0 : Nat) (c c' : Lts.Cfg)
    (h1 : Lts.Reach Generated.C09.idProg (Lts.Cfg.init c0) c) (h2 : Lts.Reach Generated.C09.idProg c c')
    (i j a b : Nat) (ha : (c.thr i).res = some a) (hb0 : (c.thr j).res = none) (hb : (c'.thr j).res = some b) :
    a < b := by
  rw [generated_id_prog_locked] at h1 h2
  have hg := Lts.good_reach c0 c h1
  have hg' := Lts.good_reach c0 c' (Lts.reach_trans _ _ _ _ h1 h2)
  obtain ⟨l, hl⟩ := Lts.issued_prefix_reach _ _ _ h2
  obtain ⟨k1, hk1, e1⟩ := List.getElem_of_mem (hg.res i a ha)
  obtain ⟨k2, hk2, e2⟩ := List.getElem_of_mem (hg'.res j b hb)
  have i1 := hg.ids k1 (i, a) (by rw [List.getElem?_eq_getElem hk1, e1])
  have i2 := hg'.ids k2 (j, b) (by rw [List.getElem?_eq_getElem hk2, e2])
  have hge : c.issued.length ≤ k2 := by
    apply Decidable.byContradiction
    intro hlt
    have hlt : k2 < c.issued.length := by omega
    have : c'.issued[k2]? = c.issued[k2]? := by rw [hl, List.getElem?_append_left hlt]
    rw [List.getElem?_eq_getElem hk2, e2, List.getElem?_eq_getElem hlt] at this
    have hm : (j, b) ∈ c.issued := by
      injection this with this; rw [this]; exact List.getElem_mem hlt
    exact hg.back j b hm hb0
  simp at i1 i2
  omega

/-- without the lock two concurrent requests can get the same id (so the lock in the trace is what the proof rests on) -/
theorem unlocked_ids_collide :
    ∃ c, Lts.Reach Lts.unlockedProg (Lts.Cfg.init 0) c ∧ (c.thr 0).res = some 1 ∧ (c.thr 1).res = some 1 :=
  ⟨Lts.runSched Lts.unlockedProg (Lts.Cfg.init 0) [0, 1, 0, 1, 0, 1], Lts.runSched_reach _ _ _, by decide, by decide⟩

/-- ... and so can they when only the increment is locked and the value is read for `return` after the release: the second
    request passes the locked block between the first one's release and its read -/
theorem late_read_ids_collide :
    ∃ c, Lts.Reach Lts.lateReadProg (Lts.Cfg.init 0) c ∧ (c.thr 0).res = some 2 ∧ (c.thr 1).res = some 2 :=
  ⟨Lts.runSched Lts.lateReadProg (Lts.Cfg.init 0) [0, 0, 0, 0, 1, 1, 1, 1, 0, 1], Lts.runSched_reach _ _ _, by decide, by decide⟩

/-! ### provider: the messages about one transaction -/

/-- Exact characterisation. The request received after the events `pre` owns the id `counter + 1`; after any further
    events `post` (other requests, dispatches in any order, worker steps of any SCO) the messages that mention this id
    are: nothing yet (request in flight) / the `Wait` response (queued) / one of the four complete exchanges. -/
theorem transaction_messages (cap : Nat) (pre post : List Ev) (r : Req) :
    let tx := (run (Prov.init cap) pre).1.counter + 1
    let res := run (Prov.init cap) (pre ++ .recv r :: post)
    Status res.1 tx r (msgsOf tx res.2) :=
  status_of_request cap pre post r

/-- The invocation states reported for a transaction - all of them in emission order with the repetition of a state
    by the other channel collapsed - are a prefix (`ε`, `Wait`) of a legal word while the request is pending, and once it
    is not pending any more: a legal word `Wait Start F | F`; exactly one response; the reports alone are `Wait Start F`,
    `F` or absent; one and the same final state wherever a final state is mentioned; the response repeats the first report
    (`Wait` ⇒ reports `Wait Start F`; final `F` ⇒ reports `F` or none). -/
theorem states_legal (cap : Nat) (pre post : List Ev) (r : Req) (hl : r.outcome.legal = true) :
    let tx := (run (Prov.init cap) pre).1.counter + 1
    let res := run (Prov.init cap) (pre ++ .recv r :: post)
    let resps := (respsOf tx res.2).map (·.st)
    let reports := (reportsOf tx res.2).map (·.st)
    LegalPrefix (collapse (statesOf tx res.2)) ∧
    (NotPending res.1 tx →
      LegalWord (collapse (statesOf tx res.2)) ∧ resps.length = 1 ∧ (reports = [] ∨ LegalWord reports) ∧
      OneFinal (statesOf tx res.2) ∧
      (∀ s ∈ resps, s = .wait → ∃ f, reports = [.wait, .start, f]) ∧
      (∀ s ∈ resps, s.isFinal = true → reports = [] ∨ reports = [s])) := by
  intro tx res resps reports
  have hs := status_of_request cap pre post r
  refine ⟨status_prefix _ _ _ _ hs hl, ?_⟩
  intro hn
  exact exchange_legal _ _ _ (complete_exchange r tx _ (status_not_pending _ _ _ _ hs hn) hl)

/-- a handler that raises yields `Fail` with error information: the last report of the transaction is
    `Fail` + InvocationError + message, in direct and in queued processing -/
theorem raising_handler_fails_with_error (cap : Nat) (pre post : List Ev) (r : Req) (s : Nat)
    (hr : r.outcome = .raises) (hs : r.sco = some s) :
    let tx := (run (Prov.init cap) pre).1.counter + 1
    let res := run (Prov.init cap) (pre ++ .recv r :: post)
    NotPending res.1 tx → (reportsOf tx res.2).getLast? = some ⟨tx, .fail, true⟩ := by
  intro tx res hn
  have hc := status_not_pending _ _ _ _ (status_of_request cap pre post r) hn
  have hne : r.sco ≠ none := by simp [hs]
  rcases hc with ⟨h, _⟩ | ⟨_, _, h⟩ | ⟨_, _, h⟩ | ⟨_, _, h⟩
  · exact absurd h hne
  · simp only [reportsOf]; rw [h]; simp only [hr, finalInfo]; rfl
  · simp only [reportsOf]; rw [h]; simp only [hr, finalInfo]; rfl
  · simp only [reportsOf]; rw [h]; rfl

/-- a request for an unknown operation: the dispatch answers `Fail` with error information, sends no report, executes
    no handler (MDIB untouched), queues nothing -/
theorem unknown_operation_fails_noop (p : Prov) (k tx : Nat) (r : Req) (hk : p.inflight[k]? = some (tx, r))
    (hu : r.sco = none) :
    (step p (.handle k)).2 = [.resp ⟨tx, .fail, true⟩] ∧ (step p (.handle k)).1.mdib = p.mdib ∧
      (step p (.handle k)).1.queues = p.queues ∧ (step p (.handle k)).1.counter = p.counter := by
  simp [step, hk, dispatch, hu]

/-- ... and over whole runs: whatever else happens, the only message that ever mentions the id of a request for an
    unknown operation is that `Fail` response -/
theorem unknown_operation_only_fails (cap : Nat) (pre post : List Ev) (r : Req) (hu : r.sco = none) :
    let tx := (run (Prov.init cap) pre).1.counter + 1
    let res := run (Prov.init cap) (pre ++ .recv r :: post)
    msgsOf tx res.2 = [] ∨ msgsOf tx res.2 = [.resp ⟨tx, .fail, true⟩] := by
  intro tx res
  have hs := status_of_request cap pre post r
  cases hs with
  | inflight _ _ h => exact Or.inl h
  | queued s h1 _ _ _ _ _ => rw [hu] at h1; cases h1
  | done _ _ h =>
    rcases h with ⟨_, h⟩ | ⟨h, _⟩ | ⟨h, _⟩ | ⟨h, _⟩
    · exact Or.inr h
    all_goals exact absurd hu h

/-- a burst that fills the operation queue: the request is answered `Fail` and a `Fail` report with error information is
    sent (after the repair; before, the requester got a SOAP fault and no invocation state at all) -/
theorem full_queue_fails (p : Prov) (k tx s : Nat) (r : Req) (hk : p.inflight[k]? = some (tx, r))
    (hs : r.sco = some s) (hd : r.direct = false) (hfull : p.cap ≤ (p.queues s).length) :
    (step p (.handle k)).2 = [.report ⟨tx, .fail, true⟩, .resp ⟨tx, .fail, false⟩] ∧
      (step p (.handle k)).1.mdib = p.mdib ∧ (step p (.handle k)).1.queues = p.queues := by
  have : ¬ (p.queues s).length < p.cap := by omega
  simp [step, hk, dispatch, hs, hd, this]

/-- the ids the provider model hands out are 1, 2, 3, … in the order of arrival -/
theorem model_ids_count_requests (cap : Nat) (evs : List Ev) :
    (run (Prov.init cap) evs).1.counter = (evs.filter (fun e => match e with | .recv _ => true | _ => false)).length := by
  have h : ∀ (p : Prov), (run p evs).1.counter =
      p.counter + (evs.filter (fun e => match e with | .recv _ => true | _ => false)).length := by
    induction evs with
    | nil => intro p; simp [run]
    | cons e es ih =>
      intro p
      simp only [run, ih]
      cases e with
      | recv r => simp [step]; omega
      | handle k =>
        simp only [step]
        cases p.inflight[k]? with
        | none => simp
        | some x => simp [dispatch_counter]
      | tick s =>
        simp only [step]
        cases p.queues s with
        | nil => simp
        | cons a t => simp
  simpa [Prov.init] using h (Prov.init cap)

/-! ### consumer: the future of one call, for every ordering of its response among the report parts -/

/-- the observed call is new to the consumer: id not registered, future unknown, nothing of the id buffered -/
def Fresh (c : Cons) (fut tx : Nat) : Prop :=
  c.trans tx = none ∧ NoPendingFut c fut ∧ ownIn tx c.recent = [] ∧ doneOf fut c = [] ∧ fut ∉ c.dropped

/-- Exact result for ANY event list around the response (foreign responses, foreign parts, dropped foreign futures, the
    own parts at any positions, even an illegal own sequence), as long as the parts that arrive before the response -
    counted from the first own part - fit into the bounded buffer: the future is completed at most once, namely
    * by a final own part that arrived before the response: with its state and all own parts buffered so far;
    * else, for a `Fail`/`Cnclld`/`CnclldMan` response: at once, with the response state and the own parts so far;
    * else by the first final own part after the response: with its state and all own parts up to it, in order;
    * else not yet. -/
theorem future_completion_exact (c : Cons) (fut tx : Nat) (rs : St) (pre post : List CEv)
    (hfresh : Fresh c fut tx)
    (hpre : ∀ e ∈ pre, e.foreign fut tx = true) (hpost : ∀ e ∈ post, e.foreign fut tx = true)
    (hwin : ((allParts pre).dropWhile (other tx)).length ≤ c.maxlen) :
    doneOf fut (crun c (pre ++ .response fut tx rs :: post)) =
      match (ownParts tx pre).find? (fun p => p.st.isFinal) with
      | some f => [⟨fut, f.st, true, ownParts tx pre⟩]
      | none =>
        if rs.immediate then [⟨fut, rs, false, ownParts tx pre⟩]
        else match splitFinal (ownParts tx post) with
          | some (ns, f) => [⟨fut, f.st, true, ownParts tx pre ++ ns ++ [f]⟩]
          | none => [] := by
  obtain ⟨h1, h2, h3, h4, h5⟩ := hfresh
  have hbuf := buffered_run pre c fut tx h1 h2 hpre (by rw [dropWhile_nil_of_ownIn_nil tx _ h3]; simpa using hwin)
  rw [h3, List.nil_append] at hbuf
  obtain ⟨c1n, c1t, c1d, c1x⟩ := closed_run pre c fut tx h2 h1 hpre
  rw [h4] at c1d
  have c1alive : fut ∉ (crun c pre).dropped := by
    apply not_mem_of_filter_nil; rw [c1x]; exact filter_nil_of_not_mem fut _ h5
  rw [crun_append]
  simp only [crun]
  generalize crun c pre = c1 at hbuf c1n c1t c1d c1alive
  have hown : c1.recent.filter (fun p => p.tx = tx) = ownParts tx pre := hbuf
  simp only [cstep, hown]
  cases hfind : (ownParts tx pre).find? (fun p => p.st.isFinal) with
  | some f =>
    simp only
    obtain ⟨_, _, hd, _⟩ := closed_run post { c1 with done := c1.done ++ [⟨fut, f.st, true, ownParts tx pre⟩] } fut tx
      c1n c1t hpost
    rw [hd, doneOf_append_self fut c1 _ rfl _ rfl, c1d]; rfl
  | none =>
    simp only
    by_cases him : rs.immediate = true
    · simp only [him, if_true]
      obtain ⟨_, _, hd, _⟩ := closed_run post { c1 with done := c1.done ++ [⟨fut, rs, false, ownParts tx pre⟩] } fut tx
        c1n c1t hpost
      rw [hd, doneOf_append_self fut c1 _ rfl _ rfl, c1d]; rfl
    · simp only [him, Bool.false_eq_true, if_false]
      have hreg : Registered { c1 with trans := setT c1.trans tx (some ⟨fut, ownParts tx pre⟩) } fut tx (ownParts tx pre) := by
        refine ⟨by simp [setT_same], ?_, c1alive⟩
        intro k d hk hd
        by_cases hkt : k = tx
        · exact hkt
        · simp only [setT_other _ _ _ _ hkt] at hk; exact absurd hd (c1n k d hk)
      rw [registered_run post _ fut tx _ hreg hpost]
      have : doneOf fut { c1 with trans := setT c1.trans tx (some ⟨fut, ownParts tx pre⟩) } = [] := c1d
      rw [this, List.nil_append]
      cases splitFinal (ownParts tx post) <;> rfl

/-- The property: for EVERY position of the response among the report parts of the transaction (`Wait Start F`, `F`,
    or any number of non-final parts followed by exactly one final part), with any foreign traffic in between, the
    future of a call whose response is not `Fail`/`Cnclld`/`CnclldMan` completes exactly once, with the final state and
    with all parts of the transaction in arrival order. -/
theorem future_completes_once (c : Cons) (fut tx : Nat) (rs : St) (pre post : List CEv) (ns : List Part) (f : Part)
    (hfresh : Fresh c fut tx)
    (hpre : ∀ e ∈ pre, e.foreign fut tx = true) (hpost : ∀ e ∈ post, e.foreign fut tx = true)
    (hwin : ((allParts pre).dropWhile (other tx)).length ≤ c.maxlen)
    (hparts : ownParts tx pre ++ ownParts tx post = ns ++ [f])
    (hns : ∀ n ∈ ns, n.st.isFinal = false) (hf : f.st.isFinal = true) (hrs : rs.immediate = false) :
    doneOf fut (crun c (pre ++ .response fut tx rs :: post)) = [⟨fut, f.st, true, ns ++ [f]⟩] := by
  rw [future_completion_exact c fut tx rs pre post hfresh hpre hpost hwin]
  have hsplit := splitFinal_legal ns f hns hf
  rw [← hparts, splitFinal_append] at hsplit
  cases hfind : (ownParts tx pre).find? (fun p => p.st.isFinal) with
  | some f' =>
    -- the final part arrived before the response: then it is the last own part, nothing of the transaction follows
    cases hsp : splitFinal (ownParts tx pre) with
    | none => rw [(splitFinal_none_iff _).mp hsp] at hfind; cases hfind
    | some r =>
      rw [hsp] at hsplit
      simp only at hsplit
      injection hsplit with hsplit
      subst hsplit
      obtain ⟨rest, e1, e2, _, _⟩ := splitFinal_some _ ns f hsp
      rw [hfind] at e2
      injection e2 with e2
      subst e2
      have : rest ++ ownParts tx post = [] := by
        rw [e1, List.append_assoc] at hparts
        exact List.append_cancel_left (as := ns ++ [f']) (by simpa using hparts)
      have hrest : rest = [] := (List.append_eq_nil_iff.mp this).1
      subst hrest
      simp only [List.append_nil] at e1
      rw [e1]
  | none =>
    rw [(splitFinal_none_iff _).mpr hfind] at hsplit
    simp only [hrs, Bool.false_eq_true, if_false]
    cases hsp : splitFinal (ownParts tx post) with
    | none => rw [hsp] at hsplit; cases hsplit
    | some r =>
      obtain ⟨n', f'⟩ := r
      rw [hsp] at hsplit
      simp only [Option.map_some, Option.some.injEq, Prod.mk.injEq] at hsplit
      obtain ⟨e1, e2⟩ := hsplit
      subst e2
      simp only
      rw [List.append_assoc, ← List.append_assoc (ownParts tx pre), e1]

/-- a `Fail`/`Cnclld`/`CnclldMan` response completes the future exactly once, whatever arrives later; the result carries
    the own parts that arrived before the response (a final one among them supplies the invocation info) -/
theorem future_completes_once_immediate (c : Cons) (fut tx : Nat) (rs : St) (pre post : List CEv)
    (hfresh : Fresh c fut tx)
    (hpre : ∀ e ∈ pre, e.foreign fut tx = true) (hpost : ∀ e ∈ post, e.foreign fut tx = true)
    (hwin : ((allParts pre).dropWhile (other tx)).length ≤ c.maxlen) (hrs : rs.immediate = true) :
    ∃ r, doneOf fut (crun c (pre ++ .response fut tx rs :: post)) = [r] ∧ r.parts = ownParts tx pre ∧
      r.st.isFinal = true ∧ (r.fromReport = false → r.st = rs) ∧
      (r.fromReport = true → ∃ p ∈ ownParts tx pre, p.st = r.st) := by
  rw [future_completion_exact c fut tx rs pre post hfresh hpre hpost hwin]
  cases hfind : (ownParts tx pre).find? (fun p => p.st.isFinal) with
  | some f =>
    have := List.find?_some hfind
    exact ⟨_, rfl, rfl, by simpa using this, by simp, fun _ => ⟨f, List.mem_of_find?_eq_some hfind, rfl⟩⟩
  | none =>
    simp only [hrs, if_true]
    refine ⟨_, rfl, rfl, ?_, by simp, by simp⟩
    cases rs <;> first | rfl | cases hrs

/-- End to end. A request whose exchange is complete on the provider (any history around it), delivered to a consumer
    so that the parts of its transaction arrive in the order sent - the response at ANY position among them, any foreign
    traffic in between: the future of the call completes exactly once, with a final state that the provider reported for
    this transaction (by `states_legal` there is only one), and - unless the response itself was `Fail`/`Cnclld`/
    `CnclldMan` - with all report parts of the transaction in order. -/
theorem end_to_end (cap : Nat) (pre post : List Ev) (r : Req) (hl : r.outcome.legal = true)
    (c : Cons) (fut : Nat) (rs : St) (cpre cpost : List CEv) :
    let tx := (run (Prov.init cap) pre).1.counter + 1
    let res := run (Prov.init cap) (pre ++ .recv r :: post)
    NotPending res.1 tx → Fresh c fut tx →
    (∀ e ∈ cpre, e.foreign fut tx = true) → (∀ e ∈ cpost, e.foreign fut tx = true) →
    ((allParts cpre).dropWhile (other tx)).length ≤ c.maxlen →
    (respsOf tx res.2).map (·.st) = [rs] →
    (ownParts tx cpre ++ ownParts tx cpost).map (·.st) = (reportsOf tx res.2).map (·.st) →
    ∃ result, doneOf fut (crun c (cpre ++ .response fut tx rs :: cpost)) = [result] ∧
      result.st.isFinal = true ∧ result.st ∈ statesOf tx res.2 ∧
      (rs.immediate = false → result.parts = ownParts tx cpre ++ ownParts tx cpost) := by
  intro tx res hn hfresh hpre hpost hwin hrs hparts
  have hex := complete_exchange r tx _ (status_not_pending _ _ _ _ (status_of_request cap pre post r) hn) hl
  have hstates : statesOf tx res.2 = (msgsOf tx res.2).map (·.info.st) := rfl
  have hresps : (respsOf tx res.2).map (·.st) = ((msgsOf tx res.2).filterMap Msg.resp?).map (·.st) := rfl
  have hreps : (reportsOf tx res.2).map (·.st) = ((msgsOf tx res.2).filterMap Msg.report?).map (·.st) := rfl
  rw [hstates]
  rw [hresps] at hrs
  rw [hreps] at hparts
  generalize (msgsOf tx res.2).map (·.info.st) = w at hex
  generalize ((msgsOf tx res.2).filterMap Msg.resp?).map (·.st) = wr at hex hrs
  generalize ((msgsOf tx res.2).filterMap Msg.report?).map (·.st) = wp at hex hparts
  -- the reports are `ws ++ [f]` (or absent), the response state is known
  have key : ∀ (ws : List St) (f : St), wp = ws ++ [f] → (∀ s ∈ ws, s.isFinal = false) → f.isFinal = true → f ∈ w →
      (rs.immediate = true → ws = []) →
      ∃ result, doneOf fut (crun c (cpre ++ .response fut tx rs :: cpost)) = [result] ∧
        result.st.isFinal = true ∧ result.st ∈ w ∧
        (rs.immediate = false → result.parts = ownParts tx cpre ++ ownParts tx cpost) := by
    intro ws f hwp hws hf hfw him
    rw [hwp, List.map_eq_append_iff] at hparts
    obtain ⟨ns, lf, hsplit, hns, hlf⟩ := hparts
    obtain ⟨pf, hpf, hpfst⟩ : ∃ pf, lf = [pf] ∧ pf.st = f := by
      cases lf with
      | nil => simp at hlf
      | cons a t =>
        cases t with
        | nil => simp at hlf; exact ⟨a, rfl, hlf⟩
        | cons b t' => simp at hlf
    subst hpf
    have hns' : ∀ n ∈ ns, n.st.isFinal = false := by
      intro n hn'
      apply hws
      rw [← hns]
      exact List.mem_map_of_mem hn'
    by_cases himm : rs.immediate = true
    · obtain ⟨res', h1, h2, h3, h4, h5⟩ := future_completes_once_immediate c fut tx rs cpre cpost hfresh hpre hpost hwin himm
      refine ⟨res', h1, h3, ?_, by intro h; rw [himm] at h; cases h⟩
      have hws0 := him himm
      subst hws0
      have hns0 : ns = [] := by simpa using hns
      subst hns0
      cases hfr : res'.fromReport with
      | false =>
        -- completed by the response: its state is the provider's response state, which is the final state `f`
        rw [h4 hfr]
        cases hex with
        | unknown => simp at hwp
        | direct g hg =>
          simp at hrs hwp
          subst hrs; subst hwp; simp
        | queued g hg => simp at hwp
      | true =>
        obtain ⟨p, hp, hpst⟩ := h5 hfr
        have : p ∈ ownParts tx cpre ++ ownParts tx cpost := List.mem_append_left _ hp
        rw [hsplit] at this
        simp at this
        subst this
        rw [← hpst, hpfst]; exact hfw
    · have himm' : rs.immediate = false := by simpa using himm
      have := future_completes_once c fut tx rs cpre cpost ns pf hfresh hpre hpost hwin hsplit hns' (by rw [hpfst]; exact hf) himm'
      refine ⟨_, this, by simp [hpfst, hf], by simp [hpfst, hfw], fun _ => by simp [hsplit]⟩
  cases hex with
  | unknown =>
    -- no report at all: the `Fail` response completes the future
    simp at hrs
    subst hrs
    have hnil : ownParts tx cpre ++ ownParts tx cpost = [] := by simpa using hparts
    obtain ⟨res', h1, h2, h3, h4, h5⟩ := future_completes_once_immediate c fut tx .fail cpre cpost hfresh hpre hpost hwin rfl
    refine ⟨res', h1, h3, ?_, by intro h; cases h⟩
    cases hfr : res'.fromReport with
    | false => rw [h4 hfr]; simp
    | true =>
      obtain ⟨p, hp, _⟩ := h5 hfr
      have : p ∈ ownParts tx cpre ++ ownParts tx cpost := List.mem_append_left _ hp
      rw [hnil] at this; cases this
  | direct g hg =>
    exact key [] g rfl (by simp) hg (by simp) (fun _ => rfl)
  | queued g hg =>
    simp at hrs
    subst hrs
    refine key [.wait, .start] g rfl ?_ hg (by simp) (by intro h; cases h)
    intro s hs; simp at hs; rcases hs with h | h <;> subst h <;> rfl

/-- a future the application dropped is never completed, and its transaction is forgotten at the final part -/
theorem dropped_future_not_completed (c : Cons) (p : Part) (d : Pending) (hreg : c.trans p.tx = some d)
    (hdrop : d.fut ∈ c.dropped) (hfin : p.st.isFinal = true) :
    (cstep c (.part p)).done = c.done ∧ (cstep c (.part p)).trans p.tx = none := by
  simp [cstep, hreg, hfin, hdrop, setT_same]

/-- the traced programs of `call_operation` (after the HTTP round trip) and of `on_operation_invoked_report`, in every
    situation (nothing buffered / final part buffered / `Fail` response; unknown, non-final, final part): the scan of the
    early-part buffer, the registration, the look-up, the completion of the future all happen inside ONE critical section
    of `_transactions_lock` - which is what makes `response` and `part` atomic steps of the consumer model -/
theorem generated_rendezvous_one_section :
    Generated.C09.consumerProgs.length = 6 ∧ ∀ p ∈ Generated.C09.consumerProgs, Sync.oneSection p = true := by decide

/-- a scan of the buffer before the lock is taken is rejected by the side condition (what a lost report looks like) -/
theorem scan_outside_lock_rejected : Sync.oneSection [.scanBuf, .acq, .register, .rel] = false := by decide

/-- side condition on the generated constants that makes the window hypothesis of `future_completes_once` an engineering
    fact: the buffer of early parts (shared by all transactions, fed with the reports of every consumer's operations)
    holds at least the reports of a completely filled operation queue plus the running operation (3 parts each) -/
theorem generated_buffer_covers_queue_backlog :
    3 * (Generated.C09.opQueueCap + 1) ≤ Generated.C09.reportDequeMaxlen := by decide

/-! ### the generated tables are the ones the model uses -/

theorem generated_tables_match :
    (∀ s, s ∈ Generated.C09.allStates) ∧
    (∀ s, s.isFinal = false ↔ s ∈ Generated.C09.nonFinalStates) ∧
    (∀ s, s.immediate = true ↔ s ∈ Generated.C09.immediateStates) ∧
    (∀ s ∈ Generated.C09.immediateStates, s.isFinal = true) := by
  refine ⟨?_, ?_, ?_, ?_⟩ <;> intro s <;> cases s <;> decide

/-! ### non-vacuity: concrete instances of the hypotheses -/

/-- three requests (unknown / direct raising / queued FinMod) interleaved with worker steps: all three complete -/
example :
    let evs : List Ev := [.recv ⟨none, false, .ok .fin⟩, .recv ⟨some 0, true, .raises⟩, .recv ⟨some 1, false, .ok .finMod⟩,
      .handle 2, .handle 0, .tick 1, .handle 0]
    let res := run (Prov.init 10) evs
    statesOf 1 res.2 = [.fail] ∧ statesOf 2 res.2 = [.fail, .fail] ∧ statesOf 3 res.2 = [.wait, .wait, .start, .finMod] ∧
      res.1.mdib = 2 := by decide

/-- the final part overtakes the response, with foreign parts in between -/
example :
    doneOf 7 (crun (Cons.init 50) [.part ⟨1, 4, .wait⟩, .part ⟨2, 9, .fin⟩, .part ⟨3, 4, .start⟩, .part ⟨4, 4, .finMod⟩,
      .response 7 4 .wait, .part ⟨5, 9, .start⟩]) = [⟨7, .finMod, true, [⟨1, 4, .wait⟩, ⟨3, 4, .start⟩, ⟨4, 4, .finMod⟩]⟩] := by
  decide

example : Fresh (Cons.init 50) 7 4 := by
  refine ⟨rfl, ?_, rfl, rfl, by simp [Cons.init]⟩
  intro k d h; simp [Cons.init] at h

/-- a reachable configuration of the id lock with three threads, two of them finished -/
example : ∃ c, Lts.Reach Generated.C09.idProg (Lts.Cfg.init 0) c ∧ (c.thr 0).res = some 2 ∧ (c.thr 2).res = some 1 :=
  ⟨Lts.runSched Generated.C09.idProg (Lts.Cfg.init 0) [2, 0, 2, 2, 1, 2, 2, 0, 0, 0, 0, 0], Lts.runSched_reach _ _ _,
   by decide, by decide⟩

end Sdc.C09
