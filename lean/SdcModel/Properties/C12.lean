import SdcModel.ObjGraph
import SdcModel.Proofs.ObjGraphStep
import SdcModel.Generated.CopyTable
/-!
# C12 — instances never share mutable state or alter the defaults of later instances
Property theorems only. Model: `SdcModel/ObjGraph.lean` (identity trees, universe-wide in-place updates); what every
class × property slot does on construction / absent element / `__get__` / copy is the table
`Generated/CopyTable.lean`, regenerated from the running code on every run. All theorems hold for *every* table that
satisfies the decidable predicate `tableOK` ("no descriptor hands out a class-level object; `deepcopy` shares nothing
with its source"), every list of class defaults `D` and every op list (`construct | parse (any absent set) | copy | deepcopy | setKid | append | update`).
-/
namespace Sdc.C12
open Sdc.ObjGraph

/-- the class-level default objects are never changed, whatever was constructed, parsed, copied or written -/
theorem defaults_untouched (T : Table) (hT : tableOK T = true) (D : List Tree) (ops : List Op) :
    (run T (init D) ops).defaults = D :=
  (run_inv hT ops _ (init_inv D)).dflt

/-- a freshly constructed object of any class has the same value at any time in the life of the process -/
theorem defaults_stable (T : Table) (hT : tableOK T = true) (D : List Tree) (ops : List Op) (c : Nat) :
    constructVal T (run T (init D) ops) c = constructVal T (init D) c := by
  simp only [constructVal, defaults_untouched T hT D ops]
  exact construct_strip T D _ _ c

/-- no instance, however obtained, contains a class-level object -/
theorem no_default_inside_instance (T : Table) (hT : tableOK T = true) (D : List Tree) (ops : List Op)
    (a : Inst) (ha : a ∈ (run T (init D) ops).insts) : Disjoint a.tree.ids (idsL D) :=
  fun x hx => (run_inv hT ops _ (init_inv D)).sepD a ha x hx

/-- independently obtained instances (different groups: not linked by a shallow copy or an update from one another)
    have disjoint sets of mutable objects -/
theorem instances_disjoint (T : Table) (hT : tableOK T = true) (D : List Tree) (ops : List Op) (i j : Nat)
    (a b : Inst) (hi : (run T (init D) ops).insts[i]? = some a) (hj : (run T (init D) ops).insts[j]? = some b)
    (hg : a.grp ≠ b.grp) : Disjoint a.tree.ids b.tree.ids :=
  (run_inv hT ops _ (init_inv D)).sep a (List.mem_of_getElem? hi) b (List.mem_of_getElem? hj) hg

/-- after any history, one more operation leaves every instance unchanged that is not in the group of an instance
    the operation writes through -/
theorem other_instances_unchanged (T : Table) (hT : tableOK T = true) (D : List Tree) (ops : List Op) (op : Op)
    (s' : St) (h : step T (run T (init D) ops) op = some s') (k : Nat) (b : Inst)
    (hb : (run T (init D) ops).insts[k]? = some b)
    (hind : ∀ i ∈ op.touched, ∀ a : Inst, (run T (init D) ops).insts[i]? = some a → a.grp ≠ b.grp) :
    ∃ b' : Inst, s'.insts[k]? = some b' ∧ b'.tree = b.tree ∧ b'.cls = b.cls :=
  (step_pack hT (run_inv hT ops _ (init_inv D)) h).2 k b hb hind

/-- where the table says that `mk_copy` / `copy.copy` of a class is deep (`copyDeep`), the copy has the value of its
    source, starts a group of its own and shares no mutable object with the source. (On this tree `mk_copy` is shallow
    by design; the provider makes its private copies in `mdib/transactions.py`.) -/
theorem deep_copy_independent (T : Table) (hT : tableOK T = true) (D : List Tree) (ops : List Op) (i : Nat) (a : Inst)
    (hi : (run T (init D) ops).insts[i]? = some a) (hd : clsFlag T a.cls (·.copyDeep) = true) (s' : St)
    (h : step T (run T (init D) ops) (.copy i) = some s') :
    ∃ e : Inst, s'.insts = (run T (init D) ops).insts ++ [e] ∧ e.cls = a.cls ∧
      e.grp = (run T (init D) ops).insts.length ∧ e.tree.strip = a.tree.strip ∧ Disjoint e.tree.ids a.tree.ids :=
  step_copy_deep (run_inv hT ops _ (init_inv D)) hi hd h

/-- where the table says that `update_from_other_container` copies deeply (`updDeep`) it links nothing: every instance
    keeps its group, so `self` and `other` still have disjoint mutable objects afterwards -/
theorem deep_update_keeps_groups (T : Table) (hT : tableOK T = true) (D : List Tree) (ops : List Op) (i j : Nat)
    (skip : List Nat) (a : Inst) (hi : (run T (init D) ops).insts[i]? = some a)
    (hd : clsFlag T a.cls (·.updDeep) = true) (s' : St)
    (h : step T (run T (init D) ops) (.update i j skip) = some s') :
    ∀ (m : Nat) (c : Inst), (run T (init D) ops).insts[m]? = some c → ∃ c' : Inst, s'.insts[m]? = some c' ∧ c'.grp = c.grp :=
  step_update_deep (run_inv hT ops _ (init_inv D)) hi hd h

/-- instances created by `cls()`, `from_node` and `deepcopy` start a group of their own -/
theorem new_instance_new_group (T : Table) (hT : tableOK T = true) (D : List Tree) (ops : List Op) (c : Nat) (s' : St)
    (h : step T (run T (init D) ops) (.construct c) = some s') :
    ∃ e : Inst, s'.insts = (run T (init D) ops).insts ++ [e] ∧ ∀ a ∈ (run T (init D) ops).insts, a.grp ≠ e.grp := by
  simp only [step] at h
  split at h
  · rename_i t n _
    simp only [Option.some.injEq] at h; subst h
    refine ⟨_, rfl, fun a ha => ?_⟩
    have := (run_inv hT ops _ (init_inv D)).gLt a ha
    simp only; omega
  · cases h

/-- the table generated from the running code satisfies the side condition (kernel evaluation of the whole table) -/
theorem generated_table_ok : tableOK Generated.CopyTable.copyTable = true := by decide +kernel

/-- ... hence the theorems above apply to the real classes -/
theorem generated_defaults_stable (ops : List Op) (c : Nat) :
    constructVal Generated.CopyTable.copyTable (run Generated.CopyTable.copyTable (init Generated.CopyTable.defaults) ops) c =
      constructVal Generated.CopyTable.copyTable (init Generated.CopyTable.defaults) c :=
  defaults_stable _ generated_table_ok _ ops c

/-! ### non-vacuity and necessity of `tableOK` -/

/-- a two-class universe: class 0 = a data type with one leaf; class 1 = a container whose member 0 has a
    class-level default (an instance of class 0), member 1 is a list -/
def exD : List Tree := [.imm 0, .obj 1 [.imm 7], .imm 0]
def exT (absent : Mode) : Table :=
  [⟨[⟨0, .imm 0, .imm 0, .plain⟩], false, true, false, false, false, true⟩,
   ⟨[⟨1, .copyDefault, absent, .plain⟩, ⟨2, .fresh (.obj 0 []), .fresh (.obj 0 []), .lazy⟩], false, true, false, true, false, true⟩]

/-- parse with member 0 absent, write through the parsed instance, shallow `mk_copy`, update, construct again -/
def exOps : List Op :=
  [.parse 1 (.obj 1 [.absent, .list []]), .setKid 0 [0] 0 (.imm 9), .copy 0, .construct 1, .update 2 0 [],
   .append 1 [1] (.imm 3)]

example : tableOK (exT .copyDefault) = true := by decide
example : constructVal (exT .copyDefault) (run (exT .copyDefault) (init exD) exOps) 1
    = some (.obj 0 [.obj 0 [.imm 7], .obj 0 []]) := by decide
example : ((run (exT .copyDefault) (init exD) exOps).insts.map (·.grp)) = [0, 0, 0] := by decide

/-- what the pinned tree did (`get_py_value_from_node` returned the default itself): the same history changes the
    value of every later `cls()`; so `tableOK` cannot be dropped -/
theorem shared_default_breaks :
    tableOK (exT .theDefault) = false ∧
    constructVal (exT .theDefault) (run (exT .theDefault) (init exD) exOps) 1 ≠
      constructVal (exT .theDefault) (init exD) 1 := by decide

/-! ### copies: what holds, and what does not hold on this tree -/

/-- the statement at full strength for copies: a copy (`mk_copy` / `copy.copy`) shares no mutable object with its source -/
def copies_independent_full : Prop :=
  ∀ (T : Table) (D : List Tree) (ops : List Op) (i : Nat) (a e : Inst), tableOK T = true →
    (run T (init D) ops).insts[i]? = some a →
    (run T (init D) (ops ++ [.copy i])).insts[(run T (init D) ops).insts.length]? = some e →
    Disjoint e.tree.ids a.tree.ids

/-- it is false for a table like the generated one (`copyDeep = false`, `copyLevel1 = false`: `mk_copy` is
    `copy.copy(self)`): the copy holds the very member objects of its source (known finding `copy-shares-*` in
    known_findings/C12.json; the behaviour is pinned by tests/test_statecontainers.py, test_descriptorcontainers.py) -/
theorem copies_independent_full_fails : ¬ copies_independent_full := by
  intro h
  have := h (exT .copyDefault) exD [.construct 1] 0
    ⟨1, 0, .obj 2 [.obj 3 [.imm 7], .obj 4 []]⟩ ⟨1, 0, .obj 5 [.obj 3 [.imm 7], .obj 4 []]⟩ (by decide) (by decide) (by decide)
  exact this 3 (by decide) (by decide)

/-- the part that holds (`_partial`): copies are independent where the table records a deep copy (`deep_copy_independent`,
    `deep_update_keeps_groups`), and in every case a copy can only share with instances of its own group -/
theorem copies_independent_partial (T : Table) (hT : tableOK T = true) (D : List Tree) (ops : List Op) (i j : Nat)
    (a b : Inst) (hi : (run T (init D) ops).insts[i]? = some a) (hj : (run T (init D) ops).insts[j]? = some b)
    (hg : a.grp ≠ b.grp) : Disjoint a.tree.ids b.tree.ids :=
  instances_disjoint T hT D ops i j a b hi hj hg

/-- the generated table: every container class makes at least first-level copies in `update_from_other_container`
    (part of `tableOK`, so a change that hands members over by reference breaks `generated_table_ok`) -/
theorem generated_update_level1 :
    (Generated.CopyTable.copyTable.all fun c => !c.isContainer || c.updLevel1) = true := by decide +kernel

end Sdc.C12
