import SdcModel.XmlBinding
/-!
# C05 — data types round-trip losslessly through XML  (theorems are added stage by stage)
-/
namespace Sdc.C05
open Sdc.XmlBinding

end Sdc.C05
