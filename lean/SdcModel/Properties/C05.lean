import SdcModel.XmlBinding
import SdcModel.Proofs.XmlBindingCls
import SdcModel.Generated.Schema
import SdcModel.Generated.XsdTable
/-!
# C05 — BICEPS / WS-* data types round-trip losslessly through XML
Property theorems only. Model: `SdcModel/XmlBinding.lean` (one `write` / `read` per descriptor kind of
`xml_structure.py`, classes = ordered member lists of the generated table `Generated/Schema.lean`, regenerated from the
running code on every run). The scalar converters are abstract (`Codec`); their round trip is a hypothesis carried by
`WT` (`Codec.RT`, proved for the real converters in C18). Everything is proved for *every* schema table; the generated
table enters through the decidable side condition `okCls` (member names pairwise distinct, `xsi:type` / whole-node
members absent), which the kernel evaluates for all classes.
-/
namespace Sdc.C05
open Sdc.XmlBinding

/-- per kind: reading what a member wrote into an element that had nothing of this member yet gives the value back.
    All eight descriptor kinds (attr, attrList, text, textList, subTextList, sub, subList, raw), nested instances
    through arbitrary call-backs that round-trip (`RTobj`). -/
theorem read_write_kind (C : Codec) (S : Schema) (wr : Wr) (rd : Rd) (P : Nat → List Val → Prop)
    (hP : ∀ c fs, P c fs → RTobj wr rd c fs) (k : Kind) (v : Val) (x : Xml) (hc : Clean k.fp x)
    (hwt : WTk C S P k v) : ∃ x', writeKind C S wr k v x = some x' ∧ readKind C S rd k x' = some v :=
  Sdc.XmlBinding.read_write_kind C S wr rd P hP k v x hc hwt

/-- frame: a member writes only inside its own footprint (its attribute / its child elements / the text) and never
    changes the tag — members with distinct XML names do not interfere -/
theorem write_frame (C : Codec) (S : Schema) (wr : Wr) (hwr : ∀ c fs x x', wr c fs x = some x' → x'.tag = x.tag)
    (k : Kind) (v : Val) (x x' : Xml) (h : writeKind C S wr k v x = some x') :
    x'.tag = x.tag ∧ ∀ fp : Fp, fp.indep k.fp = true → Agree fp x x' :=
  writeKind_frame C S wr hwr k v x x' h

/-- a member reads only its own footprint -/
theorem read_local (C : Codec) (S : Schema) (rd : Rd) (k : Kind) (x y : Xml) (h : Agree k.fp x y) :
    readKind C S rd k x = readKind C S rd k y :=
  readKind_agree C S rd k x y h

/-- **class-level round trip** (`from_node(as_etree_node(v)) == v`): for every table, every class `c` with `okCls`,
    every well-typed instance of any nesting depth `< fuel` (nested classes must satisfy `okCls` too — part of `WT`),
    any tag: writing succeeds and reading the result gives exactly the instance -/
theorem roundtrip (C : Codec) (S : Schema) (fuel c : Nat) (fs : List Val) (tag : Nat) (h : WT C S fuel c fs) :
    ∃ x, writeCls C S fuel c fs tag = some x ∧ x.tag = tag ∧ readCls C S fuel c x = some (.obj c fs) := by
  obtain ⟨x, hw, ht, _, hr⟩ := cls_roundtrip C S fuel c fs h tag
  exact ⟨x, hw, ht, by simpa [withXsi] using hr none⟩

/-- writing the value that was read gives the same XML again (`as_etree_node(from_node(x)) == x` for `x` written by
    the library) -/
theorem rewrite_same (C : Codec) (S : Schema) (fuel c : Nat) (fs : List Val) (tag : Nat) (h : WT C S fuel c fs)
    (x : Xml) (hw : writeCls C S fuel c fs tag = some x) :
    ∃ c' fs', readCls C S fuel c x = some (.obj c' fs') ∧ writeCls C S fuel c' fs' tag = some x := by
  obtain ⟨x', hw', _, hr⟩ := roundtrip C S fuel c fs tag h
  have : x' = x := Option.some.inj (hw'.symm.trans hw)
  subst this
  exact ⟨c, fs, hr, hw⟩

/-- the round trip also holds below an `xsi:type` attribute (substituted nested instances) -/
theorem roundtrip_with_xsi_type (C : Codec) (S : Schema) (fuel c : Nat) (fs : List Val) (tag : Nat)
    (h : WT C S fuel c fs) (q : String) :
    ∃ x, writeCls C S fuel c fs tag = some x ∧ readCls C S fuel c (withXsi (some q) x) = some (.obj c fs) := by
  obtain ⟨x, hw, _, _, hr⟩ := cls_roundtrip C S fuel c fs h tag
  exact ⟨x, hw, hr (some q)⟩

/-- **absent optional parts**: a member whose attribute / child element is not in the XML reads as exactly its declared
    absent value: `None` (the implied value is applied by `__get__`), the empty list, or the class default -/
theorem absent_defaults (C : Codec) (S : Schema) (rd : Rd) (k : Kind) (x : Xml)
    (hfp : (∃ n, k.fp = .attr n) ∨ ∃ n, k.fp = .child n) (hc : Clean k.fp x) :
    readKind C S rd k x = some k.absentVal :=
  read_absent C S rd k x hfp hc

/-- … in particular for a whole element without attributes and children -/
theorem empty_element_defaults (C : Codec) (S : Schema) (rd : Rd) (k : Kind) (tag : Nat)
    (hfp : (∃ n, k.fp = .attr n) ∨ ∃ n, k.fp = .child n) :
    readKind C S rd k (Xml.empty tag) = some k.absentVal :=
  read_absent C S rd k _ hfp (clean_empty _ (by rcases hfp with ⟨n, h⟩ | ⟨n, h⟩ <;> simp [h]) tag)

/-! ### the generated table -/

/-- every class of the generated table satisfies the side condition, except the three wrapper classes of
    `msg_types` whose `container` member is the node itself (`ContainerProperty(None, …)`: its footprint is the whole
    element). Evaluated by the kernel over the complete table. -/
theorem generated_classes_ok :
    (Generated.Schema.classes.filter (fun e => !e.ok)).map (·.name) =
      ["msg_types.Channel", "msg_types.Mds", "msg_types.Vmd"] := by decide +kernel

/-- the statement at full strength: every class of the table, every value. Not claimed: the three classes above are
    outside `okCls`, values outside `WT` (a converter that does not round-trip, `None` in a mandatory member, an
    `xsi:type` that does not resolve to the value's class) are excluded, XSD validity is not modelled. -/
def C05_full : Prop :=
  ∀ (C : Codec) (fuel c : Nat) (fs : List Val) (tag : Nat), c < Generated.Schema.classes.length →
    ∃ x, writeCls C Generated.Schema.schema fuel c fs tag = some x ∧
      readCls C Generated.Schema.schema fuel c x = some (.obj c fs)

/-- the part that is proved: the generated table, well-typed values -/
theorem generated_roundtrip_partial (C : Codec) (fuel c : Nat) (fs : List Val) (tag : Nat)
    (h : WT C Generated.Schema.schema fuel c fs) :
    ∃ x, writeCls C Generated.Schema.schema fuel c fs tag = some x ∧
      readCls C Generated.Schema.schema fuel c x = some (.obj c fs) := by
  obtain ⟨x, hw, _, hr⟩ := roundtrip C Generated.Schema.schema fuel c fs tag h
  exact ⟨x, hw, hr⟩

/-! ### what the API user reads -/

/-- a member that is present in the XML — also with a falsy value (`0`, `false`, `PT0S`, `''`) — is read through the
    public attribute as exactly that value; the implied value never replaces it -/
theorem public_read_present (implied : Option String) (v : Val) (h : v ≠ .none) : publicRead implied v = v :=
  publicRead_present implied v h

/-- a member that is absent is read as its declared implied value -/
theorem public_read_absent (implied : String) : publicRead (some implied) .none = .atom implied :=
  publicRead_absent implied

/-! ### the bundled XML schemas as independent reference -/

/-- a deviation `(class, member name, code)` with the names behind the numbers -/
def xsdRender (d : Nat × Nat × Nat) : String × String × Nat :=
  ((Generated.Schema.classes[d.1]?.map (·.name)).getD "?", Generated.XsdTable.localNames.getD d.2.1 "?", d.2.2)

/-- deviations that are accepted as they are: attributes the XSD requires and the class declares optional (code 6) for
    `SequenceId` (reports / responses), `OperatingMode` (operation states) and `Relation/@Entries` — the library always
    sets them; a document that omits them is outside the schema value space -/
def xsdAccepted (d : String × String × Nat) : Bool :=
  d.2.2 == 6 && (d.2.1 == "SequenceId" || d.2.1 == "OperatingMode" || d.2.1 == "Entries")

/-- **the generated class table matches the bundled XSD** (kernel evaluation over all 204 classes that stand for an XSD
    type): every element member is a child element of the XSD type, members appear in the order of the XSD sequence,
    the declared value class of a nested member stands for exactly the XSD type of the element (a base class where the
    XSD has the derived type is a deviation), lists ↔ maxOccurs, every attribute member is an attribute of the XSD type,
    implied values equal the XSD defaults — except for the deviations listed here (known findings in
    known_findings/C05.json: two list members the XSD allows only once) and the accepted optional-but-required
    attributes above. -/
theorem generated_schema_matches_xsd :
    ((xsdDeviations Generated.Schema.schema Generated.XsdTable.links).map xsdRender).filter (fun d => !xsdAccepted d) =
      [("msg_types.GetContainmentTreeResponse", "ContainmentTree", 4),
       ("msg_types.SystemErrorReportPart", "ErrorInfo", 4)] := by decide +kernel

/-! ### non-vacuity: a concrete codec, a two-class schema, a well-typed nested value -/

/-- identity codec on non-empty tokens without blanks (what `StringConverter` does on such values) -/
def exC : Codec where
  toXml := fun _ s => some s
  toPy := fun _ l => some l
  join := fun ls => " ".intercalate ls
  split := fun s => if s = "" then [] else [s]
  now := "0"

/-- class 0: one attribute (name 1), one text child (name 2); class 1: attribute 1, nested member (child 3, class 0),
    list member (child 4, class 0) -/
def exS : Schema :=
  ⟨[⟨"Inner", false, none, [⟨"A", .attr 1 "String" true false⟩, ⟨"T", .text (some 2) "String" true false .plain none⟩]⟩,
    ⟨"Outer", false, none, [⟨"A", .attr 1 "String" true false⟩, ⟨"One", .sub (some 3) 0 true false false 0 none⟩,
      ⟨"Many", .subList 4 0 false 0⟩]⟩], []⟩

def exV : List Val :=
  [.atom "a", .obj 0 [.none, .atom "t"], .list [.obj 0 [.atom "b", .none], .obj 0 [.none, .none]]]

example : exS.okCls 0 = true ∧ exS.okCls 1 = true := by decide

example : WT exC exS 2 1 exV := by
  have rt : ∀ s, exC.RT "String" s := fun s => ⟨s, rfl, rfl⟩
  have nest : WTnested exS false 0 0 0 := ⟨none, by decide, rfl⟩
  have inner : ∀ a t, (a = Val.none ∨ ∃ s, a = .atom s) → (t = Val.none ∨ ∃ s, t = .atom s) → WT exC exS 1 0 [a, t] := by
    intro a t ha ht
    refine ⟨by decide, ?_, ?_, trivial⟩
    · refine ⟨by simp, ?_⟩
      rcases ha with rfl | ⟨s, rfl⟩
      · exact Or.inl ⟨rfl, rfl, rfl⟩
      · exact Or.inr ⟨s, rfl, rt s⟩
    · rcases ht with rfl | ⟨s, rfl⟩
      · exact Or.inl ⟨rfl, rfl, rfl, by simp⟩
      · exact Or.inr ⟨s, s, rfl, rfl, rfl, by simp⟩
  refine ⟨by decide, ⟨by simp, Or.inr ⟨"a", rfl, rt _⟩⟩, ⟨rfl, Or.inr (Or.inr ⟨0, _, rfl, by simp [Val.isEmptyObj], ?_, nest⟩)⟩, ?_, trivial⟩
  · exact inner _ _ (Or.inl rfl) (Or.inr ⟨_, rfl⟩)
  · refine ⟨_, rfl, fun w hw => ?_⟩
    simp only [List.mem_cons, List.not_mem_nil, or_false] at hw
    rcases hw with rfl | rfl
    · exact ⟨0, _, rfl, inner _ _ (Or.inr ⟨_, rfl⟩) (Or.inl rfl), nest⟩
    · exact ⟨0, _, rfl, inner _ _ (Or.inl rfl) (Or.inl rfl), nest⟩

end Sdc.C05
