/-!
# M `UdpRepeat` — SOAP-over-UDP retransmission schedule and the known-message-id window

Transcription of `NetworkingThread._repeated_enqueue_msg`, `add_outbound_message` and the duplicate
filter of `_run_q_read` (src/sdc11073/wsdiscovery/networkingthread.py). Times are integer
milliseconds (the code computes `ms / 1000.0` seconds; the harness quantises to µs).
-/
namespace Sdc.UdpRepeat

structure Params where
  maxInit : Nat   -- max_initial_delay_ms
  repeats : Nat   -- repeat
  minDelay : Nat  -- min_delay_ms
  maxDelay : Nat  -- max_delay_ms
  upper : Nat     -- upper_delay_ms
deriving DecidableEq, Repr

/-- `random.randrange(min, max)` needs a non-empty range, `randint(0, maxInit)` is always fine. -/
def Params.WF (p : Params) : Prop := p.minDelay < p.maxDelay

instance (p : Params) : Decidable p.WF := by unfold Params.WF; infer_instance

/-- the `n` gaps following a first gap `d`: `delta_t = min(delta_t * 2, upper)` -/
def gaps (upper : Nat) (d : Nat) : Nat → List Nat
  | 0 => []
  | n + 1 => d :: gaps upper (min (2 * d) upper) n

/-- send times: first at `t`, then one more per gap -/
def times (t : Nat) : List Nat → List Nat
  | [] => [t]
  | g :: gs => t :: times (t + g) gs

/-- the list of `send_time`s put on the queue (relative to `time.time()` at the call), in ms -/
def schedule (p : Params) (init d : Nat) : List Nat := times init (gaps p.upper d p.repeats)

/-! ## known message ids: `collections.deque(maxlen=n)` with `appendleft` -/

def push (maxlen : Nat) (id : String) (known : List String) : List String := (id :: known).take maxlen

inductive Ev
  | out (id : String)      -- add_outbound_message: own id registered
  | recv (id : String)     -- a datagram with this message id is read from the queue
deriving DecidableEq, Repr

/-- one event; the Bool says whether the message is handed to `handle_received_message` -/
def step (maxlen : Nat) (known : List String) : Ev → List String × Bool
  | .out id => (push maxlen id known, false)
  | .recv id => if id ∈ known then (known, false) else (push maxlen id known, true)

def run (maxlen : Nat) (known : List String) : List Ev → List String
  | [] => known
  | e :: es => run maxlen (step maxlen known e).1 es

end Sdc.UdpRepeat
